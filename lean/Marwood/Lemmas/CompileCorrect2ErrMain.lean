import Marwood.Lemmas.CompileCorrect2Err
/-!
# T01.3 stage 1, ERROR case — the simulation

`compileExpr_correct_err`: for `e` in the fragment `Frag`, if `Spec.Eval` ends the evaluation of `e` from `σ`
with the error class `c ≠ syntax` in state `σ'`, and every `set!` target of `e` is bound in `σ'`, then the
machine run of the compiled code reaches — without failing before — a state `sf` in which `run_one` returns
an error of the class of `c`; `sf` has the lambda, `bp`, `ep` of the start state, the live stack of the
start state below whatever operands were pushed, and a heap that represents `σ'`.
-/
namespace Marwood.Lemmas.CompileCorrect
open Marwood Marwood.Vm
open Marwood.Spec.Eval (Val Prim Cell ErrClass evalN evalStep applyStep evalArgs properList quoteVal kwOf insertG
  k_quote k_if_ k_setBang k_define)

variable {H : Type} {ops : HeapOps H} {D : RepData ops}

/-- the statement for expressions, at compiler fuel `fuel` -/
def ExprErrOK (D : RepData ops) (fuel : Nat) : Prop :=
  ∀ cst base tail e cst' code, Frag e → compileExpr fuel cst c0 base tail e = .ok (cst', code) →
  ∀ n (σ : SSt) c (σ' : SSt), (evalN n).eval e [] σ = .err c σ' → c ≠ .syntax →
  (∀ x ∈ setTargets e, σ'.globals.lookup x ≠ none) →
  ∀ s : MSt H, CodeAt D s.heap σ.store s.ipL base code → s.ipO = base → SR D s.heap σ → SWF s.stack →
  ∃ sf e', ErrRun D s σ σ' c sf e'

/-- the statement for operand lists -/
def ArgsErrOK (D : RepData ops) (fuel : Nat) : Prop :=
  ∀ cst base rest cst' code k, FragList rest → compileArgs fuel cst c0 base rest = .ok (cst', code, k) →
  ∀ n (σ : SSt) es c (σ' : SSt), properList rest = some es → evalArgs (evalN n) [] es σ = .err c σ' →
  c ≠ .syntax → (∀ x ∈ setTargets rest, σ'.globals.lookup x ≠ none) →
  ∀ s : MSt H, CodeAt D s.heap σ.store s.ipL base code → s.ipO = base → SR D s.heap σ → SWF s.stack →
  ∃ sf e', ErrRun D s σ σ' c sf e'

/-- a failing run that starts with one instruction that only moves `ip.1` or pushes -/
theorem ErrRun.step_before {s s1 sf : MSt H} {σ σ' : SSt} {c : ErrClass} {e' : Err}
    (hs : step ops s = .ok (s1, false)) (hh : s1.heap = s.heap) (hl : s1.ipL = s.ipL) (hb : s1.bp = s.bp)
    (he : s1.ep = s.ep) (hst : StackExt s.stack s1.stack)
    (r : ErrRun D s1 σ σ' c sf e') : ErrRun D s σ σ' c sf e' :=
  r.prepend (Steps.one hs) hl hb he hst (hh ▸ Evolves.refl _ _ _)

/-! ## the cases -/

theorem err_sym {s : MSt H} {σ σ' : SSt} {c : ErrClass} {x : Text} {r : Spec.Eval.Rec}
    (he : evalStep r (.sym x) [] σ = .err c σ') (hc : c ≠ .syntax)
    (hcode : CodeAt D s.heap σ.store s.ipL s.ipO [.op .mov, .global x, .acc])
    (hsr : SR D s.heap σ) (hw : SWF s.stack) :
    ∃ sf e', ErrRun D s σ σ' c sf e' := by
  rcases evalStep_sym_err_inv he with h | ⟨hl, rfl, rfl⟩
  · exact absurd h hc
  · have hu := hsr.unbound x (hcode.globalCell 1 rfl).1 hl
    have hs := step_mov_glob_unbound hcode.1 (hcode.op 0 rfl) (hcode.globalCell 1 rfl).2 hu
    exact ⟨s, _, ⟨.refl _, hs, rfl, rfl, rfl, rfl, StackExt.refl _, hw, hsr, Evolves.refl _ _ _⟩⟩

theorem err_setBang (L : RepLaws D) {fuel : Nat} (ih : ExprErrOK D fuel)
    {cst cst' : CState} {base : Nat} {tail : Bool} {x : Text} {e : Datum} {code : List BC} (hfe : Frag e)
    (hcomp : compileExpr (fuel + 1) cst c0 base tail
      (.pair (.sym k_setBang) (.pair (.sym x) (.pair e .nil))) = .ok (cst', code))
    {n : Nat} {σ σ' : SSt} {c : ErrClass}
    (hev : evalStep (evalN n) (.pair (.sym k_setBang) (.pair (.sym x) (.pair e .nil))) [] σ = .err c σ')
    (hcs : c ≠ .syntax)
    (hset : ∀ y ∈ setTargets (.pair (.sym k_setBang) (.pair (.sym x) (.pair e .nil))), σ'.globals.lookup y ≠ none)
    {s : MSt H} (hc : CodeAt D s.heap σ.store s.ipL base code) (hip : s.ipO = base)
    (hsr : SR D s.heap σ) (hw : SWF s.stack) :
    ∃ sf e', ErrRun D s σ σ' c sf e' := by
  have _ := L
  obtain ⟨code1, hc1, rfl⟩ := compile_setBang_inv hcomp
  rcases evalStep_setBang_err_inv hev with h | h | ⟨v, σ1, _, hl, rfl⟩
  · exact absurd h hcs
  · exact ih _ _ _ _ _ _ hfe hc1 n σ c σ' h hcs
      (fun y hy => hset y (setTargets_cdr (setTargets_cdr (setTargets_car hy)))) s hc.left hip hsr hw
  · exact absurd hl (hset x (setTargets_setBang x e))

theorem err_if2 (L : RepLaws D) {fuel : Nat} (ihS : ExprOK D fuel) (ih : ExprErrOK D fuel)
    {cst cst' : CState} {base : Nat} {tail : Bool} {t c : Datum} {code : List BC} (hft : Frag t) (hfc : Frag c)
    (hcomp : compileExpr (fuel + 1) cst c0 base tail
      (.pair (.sym k_if_) (.pair t (.pair c .nil))) = .ok (cst', code))
    {n : Nat} {σ σ' : SSt} {cl : ErrClass}
    (hev : evalStep (evalN n) (.pair (.sym k_if_) (.pair t (.pair c .nil))) [] σ = .err cl σ')
    (hcs : cl ≠ .syntax)
    (hset : ∀ y ∈ setTargets (.pair (.sym k_if_) (.pair t (.pair c .nil))), σ'.globals.lookup y ≠ none)
    {s : MSt H} (hc : CodeAt D s.heap σ.store s.ipL base code) (hip : s.ipO = base)
    (hsr : SR D s.heap σ) (hw : SWF s.stack) :
    ∃ sf e', ErrRun D s σ σ' cl sf e' := by
  obtain ⟨cst1, tcode, ccode, hct, hcc, rfl⟩ := compile_if2_inv hcomp
  subst hip
  have hcT := hc.left.left.left.left
  have hcJ := hc.left.left.left.right
  have hcC := hc.left.left.right
  have hsetT : ∀ y ∈ setTargets t, σ'.globals.lookup y ≠ none :=
    fun y hy => hset y (setTargets_cdr (setTargets_car hy))
  have hsetC : ∀ y ∈ setTargets c, σ'.globals.lookup y ≠ none :=
    fun y hy => hset y (setTargets_cdr (setTargets_cdr (setTargets_car hy)))
  rcases evalStep_if2_err_inv hev with h | ⟨v, σ1, het, htr, hec⟩
  · exact ih _ _ _ _ _ _ hft hct n σ cl σ' h hcs hsetT s hcT rfl hsr hw
  · obtain ⟨s1, r1⟩ := ihS _ _ _ _ _ _ hft hct n σ v σ1 het s hcT rfl hsr hw
    have hcJ1 := (r1.codeAfter hcJ).cast r1.ipO.symm
    have hne : ops.deref s1.heap s1.acc ≠ .bool false := fun e =>
      not_false_of_truthy htr ((L.truth _ _ _ _ r1.acc).mp e)
    have hj := step_jnt_true hcJ1.1 (hcJ1.op 0 rfl) (hcJ1.targetCell 1 rfl) hne
    have ipo1 := r1.ipO
    have hcC1 : CodeAt D s1.heap σ1.store s1.ipL (s.ipO + tcode.length + 2) ccode :=
      (r1.codeAfter hcC).cast (by simp only [List.length_append, List.length_cons, List.length_nil]; omega)
    obtain ⟨sf, e', r3⟩ := ih _ _ _ _ _ _ hfc hcc n σ1 cl σ' hec hcs hsetC { s1 with ipO := s1.ipO + 2 } hcC1
      (by show s1.ipO + 2 = _; omega) r1.sr r1.swf
    exact ⟨sf, e', ErrRun.after_expr r1 (ErrRun.step_before hj rfl rfl rfl rfl (StackExt.refl _) r3)⟩

theorem err_if3 (L : RepLaws D) {fuel : Nat} (ihS : ExprOK D fuel) (ih : ExprErrOK D fuel)
    {cst cst' : CState} {base : Nat} {tail : Bool} {t c a : Datum} {code : List BC}
    (hft : Frag t) (hfc : Frag c) (hfa : Frag a)
    (hcomp : compileExpr (fuel + 1) cst c0 base tail
      (.pair (.sym k_if_) (.pair t (.pair c (.pair a .nil)))) = .ok (cst', code))
    {n : Nat} {σ σ' : SSt} {cl : ErrClass}
    (hev : evalStep (evalN n) (.pair (.sym k_if_) (.pair t (.pair c (.pair a .nil)))) [] σ = .err cl σ')
    (hcs : cl ≠ .syntax)
    (hset : ∀ y ∈ setTargets (.pair (.sym k_if_) (.pair t (.pair c (.pair a .nil)))), σ'.globals.lookup y ≠ none)
    {s : MSt H} (hc : CodeAt D s.heap σ.store s.ipL base code) (hip : s.ipO = base)
    (hsr : SR D s.heap σ) (hw : SWF s.stack) :
    ∃ sf e', ErrRun D s σ σ' cl sf e' := by
  obtain ⟨cst1, cst2, tcode, ccode, acode, hct, hcc, hca, rfl⟩ := compile_if3_inv hcomp
  subst hip
  have hcT := hc.left.left.left.left
  have hcJ := hc.left.left.left.right
  have hcC := hc.left.left.right
  have hcA := hc.right
  have hsetT : ∀ y ∈ setTargets t, σ'.globals.lookup y ≠ none :=
    fun y hy => hset y (setTargets_cdr (setTargets_car hy))
  have hsetC : ∀ y ∈ setTargets c, σ'.globals.lookup y ≠ none :=
    fun y hy => hset y (setTargets_cdr (setTargets_cdr (setTargets_car hy)))
  have hsetA : ∀ y ∈ setTargets a, σ'.globals.lookup y ≠ none :=
    fun y hy => hset y (setTargets_cdr (setTargets_cdr (setTargets_cdr (setTargets_car hy))))
  rcases evalStep_if3_err_inv hev with h | ⟨v, σ1, het, hbr⟩
  · exact ih _ _ _ _ _ _ hft hct n σ cl σ' h hcs hsetT s hcT rfl hsr hw
  · obtain ⟨s1, r1⟩ := ihS _ _ _ _ _ _ hft hct n σ v σ1 het s hcT rfl hsr hw
    have hcJ1 := (r1.codeAfter hcJ).cast r1.ipO.symm
    have ipo1 := r1.ipO
    rcases hbr with ⟨htr, hec⟩ | ⟨rfl, hea⟩
    · have hne : ops.deref s1.heap s1.acc ≠ .bool false := fun e =>
        not_false_of_truthy htr ((L.truth _ _ _ _ r1.acc).mp e)
      have hj := step_jnt_true hcJ1.1 (hcJ1.op 0 rfl) (hcJ1.targetCell 1 rfl) hne
      have hcC1 : CodeAt D s1.heap σ1.store s1.ipL (s.ipO + tcode.length + 2) ccode :=
        (r1.codeAfter hcC).cast (by simp only [List.length_append, List.length_cons, List.length_nil]; omega)
      obtain ⟨sf, e', r3⟩ := ih _ _ _ _ _ _ hfc hcc n σ1 cl σ' hec hcs hsetC { s1 with ipO := s1.ipO + 2 } hcC1
        (by show s1.ipO + 2 = _; omega) r1.sr r1.swf
      exact ⟨sf, e', ErrRun.after_expr r1 (ErrRun.step_before hj rfl rfl rfl rfl (StackExt.refl _) r3)⟩
    · have hf : ops.deref s1.heap s1.acc = .bool false := (L.truth _ _ _ _ r1.acc).mpr rfl
      have hj := step_jnt_false hcJ1.1 (hcJ1.op 0 rfl) (hcJ1.targetCell 1 rfl) hf
      have hcA1 : CodeAt D s1.heap σ1.store s1.ipL (s.ipO + tcode.length + 2 + ccode.length + 2) acode :=
        (r1.codeAfter hcA).cast (by simp only [List.length_append, List.length_cons, List.length_nil]; omega)
      obtain ⟨sf, e', r3⟩ := ih _ _ _ _ _ _ hfa hca n σ1 cl σ' hea hcs hsetA
        { s1 with ipO := s.ipO + tcode.length + 2 + ccode.length + 2 } hcA1 rfl r1.sr r1.swf
      exact ⟨sf, e', ErrRun.after_expr r1 (ErrRun.step_before hj rfl rfl rfl rfl (StackExt.refl _) r3)⟩

/-- operand lists -/
theorem argsErrOK_succ {fuel : Nat} (ihS : ExprOK D fuel) (ihE : ExprErrOK D fuel) (ihA : ArgsErrOK D fuel) :
    ArgsErrOK D (fuel + 1) := by
  intro cst base rest cst' code k hfr hcomp n σ es c σ' hpl hev hcs hset s hc hip hsr hw
  cases hfr with
  | nil =>
    have : es = [] := by
      simp only [properList] at hpl
      injection hpl with hpl; exact hpl.symm
    subst this
    exact absurd hev evalArgs_nil_ne_err
  | cons a d hfa hfd =>
    obtain ⟨cst1, code1, code2, k2, hca, hcd, rfl, rfl⟩ := compileArgs_pair_inv hcomp
    obtain ⟨es', hpl', rfl⟩ := properList_pair_inv hpl
    subst hip
    have hsetA : ∀ y ∈ setTargets a, σ'.globals.lookup y ≠ none := fun y hy => hset y (setTargets_car hy)
    have hsetD : ∀ y ∈ setTargets d, σ'.globals.lookup y ≠ none := fun y hy => hset y (setTargets_cdr hy)
    rcases evalArgs_cons_err_inv hev with h | ⟨v, σ1, hea, hed⟩
    · exact ihE _ _ _ _ _ _ hfa hca n σ c σ' h hcs hsetA s hc.left.left rfl hsr hw
    · obtain ⟨s1, r1⟩ := ihS _ _ _ _ _ _ hfa hca n σ v σ1 hea s hc.left.left rfl hsr hw
      have hcP1 : CodeAt D s1.heap σ1.store s1.ipL s1.ipO [BC.op .pushAcc] :=
        (r1.codeAfter hc.left.right).cast r1.ipO.symm
      have hp := step_pushAcc hcP1.1 (hcP1.op 0 rfl)
      have hcD : CodeAt D s1.heap σ1.store s1.ipL (s.ipO + code1.length + 1) code2 :=
        (r1.codeAfter hc.right).cast (by simp only [List.length_append, List.length_cons, List.length_nil]; omega)
      obtain ⟨sf, e', r3⟩ := ihA _ _ _ _ _ _ hfd hcd n σ1 es' c σ' hpl' hed hcs hsetD
        { s1 with stack := s1.stack.push s1.acc, ipO := s1.ipO + 1 } hcD
        (by show s1.ipO + 1 = _; rw [r1.ipO]) r1.sr (push_swf _ _)
      exact ⟨sf, e', ErrRun.after_expr r1
        (ErrRun.step_before hp rfl rfl rfl rfl (StackExt.push _ _ r1.swf) r3)⟩

/-- application -/
theorem err_app (L : RepLaws D) (LE : ErrLaws D) {fuel : Nat} (ihS : ExprOK D fuel) (ihSA : ArgsOK D fuel)
    (ihE : ExprErrOK D fuel) (ihA : ArgsErrOK D fuel)
    {cst cst' : CState} {base : Nat} {tail : Bool} {f rest : Datum} {code : List BC}
    (hh : AppHead f) (hff : Frag f) (hfr : FragList rest)
    (hcomp : compileExpr (fuel + 1) cst c0 base tail (.pair f rest) = .ok (cst', code))
    {n : Nat} {σ σ' : SSt} {c : ErrClass}
    (hev : evalStep (evalN n) (.pair f rest) [] σ = .err c σ') (hcs : c ≠ .syntax)
    (hset : ∀ y ∈ setTargets (.pair f rest), σ'.globals.lookup y ≠ none)
    {s : MSt H} (hc : CodeAt D s.heap σ.store s.ipL base code) (hip : s.ipO = base)
    (hsr : SR D s.heap σ) (hw : SWF s.stack) :
    ∃ sf e', ErrRun D s σ σ' c sf e' := by
  have _ := L
  obtain ⟨cst1, code1, k, pcode, hca, hcf, rfl⟩ := compile_app_inv hh hcomp
  subst hip
  have hcA := hc.left.left.left
  have hcP := hc.left.left.right
  have hcF := hc.left.right
  have hcC := hc.right
  have hsetF : ∀ y ∈ setTargets f, σ'.globals.lookup y ≠ none := fun y hy => hset y (setTargets_car hy)
  have hsetR : ∀ y ∈ setTargets rest, σ'.globals.lookup y ≠ none := fun y hy => hset y (setTargets_cdr hy)
  rcases evalStep_app_err_inv hh hev with h | ⟨es, hpl, hcase⟩
  · exact absurd h hcs
  rcases hcase with h | ⟨ws, σ1, hea, hcase⟩
  · exact ihA _ _ _ _ _ _ hfr hca n σ es c σ' hpl h hcs hsetR s hcA rfl hsr hw
  -- the operands succeed
  obtain ⟨s1, vs, r1, hk⟩ := ihSA _ _ _ _ _ _ hfr hca n σ es ws σ1 hpl hea s hcA rfl hsr hw
  subst hk
  have hcP1 : CodeAt D s1.heap σ1.store s1.ipL s1.ipO [BC.op .pushImm, BC.argc vs.length] :=
    (r1.codeAfter hcP).cast r1.ipO.symm
  have hp := step_pushImm hcP1.1 (hcP1.op 0 rfl) (hcP1.argcCell 1 rfl) (by intro o h; cases h)
  have hcF2 : CodeAt D s1.heap σ1.store s1.ipL (s.ipO + code1.length + 2) pcode :=
    (r1.codeAfter hcF).cast (by simp only [List.length_append, List.length_cons, List.length_nil]; omega)
  rcases hcase with h | ⟨fv, σ2, hef, hap⟩
  · -- the operator fails
    obtain ⟨sf, e', r3⟩ := ihE _ _ _ _ _ _ hff hcf n σ1 c σ' h hcs hsetF
      { s1 with stack := s1.stack.push (.argc vs.length), ipO := s1.ipO + 2 } hcF2
      (by show s1.ipO + 2 = _; rw [r1.ipO]) r1.sr (push_swf _ _)
    exact ⟨sf, e', ErrRun.after_args hw r1
      (ErrRun.step_before hp rfl rfl rfl rfl (StackExt.push _ _ r1.swf) r3)⟩
  · -- the call fails
    obtain ⟨s3, r3⟩ := ihS _ _ _ _ _ _ hff hcf n σ1 fv σ2 hef
      { s1 with stack := s1.stack.push (.argc vs.length), ipO := s1.ipO + 2 } hcF2
      (by show s1.ipO + 2 = _; rw [r1.ipO]) r1.sr (push_swf _ _)
    have e3 : Evolves D s.ipL s1.heap σ1.store s3.heap σ2.store := by
      have := r3.ev; rw [show _ = s.ipL from r1.ipL] at this; exact this
    have e13 := r1.ev.trans e3
    have hvals : All2 (D.VR s3.heap σ2.store) vs ws := All2.mono (fun a b x => e3.vr a b x) r1.vals
    obtain ⟨hsr', hev', hcal⟩ :=
      LE.call_err n s3.heap σ2 s3.acc fv vs ws c σ' s.ipL r3.sr r3.acc hvals hap hcs
    have hst : LiveEq ((pushAll s.stack vs).push (.argc vs.length)) s3.stack :=
      (r1.stack.push (pushAll_swf _ _ hw) r1.swf (.argc vs.length)).trans r3.stack
    have hipL : s3.ipL = s.ipL := r3.ipL.trans r1.ipL
    have hipO : s3.ipO = s.ipO + code1.length + 2 + pcode.length := by
      have h3 : s3.ipO = s1.ipO + 2 + pcode.length := r3.ipO
      rw [h3, r1.ipO]
    have hcC3 : CodeAt D s3.heap σ2.store s3.ipL s3.ipO [BC.op (if tail = true then .tcallAcc else .callAcc)] := by
      rw [hipL]
      exact (hcC.evolve e13).cast (by
        rw [hipO]; simp only [List.length_append, List.length_cons, List.length_nil]; omega)
    have hsteps : Steps ops s s3 := r1.steps.trans (.cons hp r3.steps)
    have hext : StackExt s.stack s3.stack :=
      ((StackExt.pushAll _ vs hw).trans (StackExt.push _ _ (pushAll_swf _ _ hw))).trans hst.ext
    have hfail : ∃ e', step ops s3 = .err e' ∧ machClass e' = specClass c := by
      rcases hcal with ⟨hoth, hcl⟩ | ⟨id, e', hcal, hkind, hres, hcl⟩
      · exact ⟨_, step_call_other hcC3.1 (hcC3.op 0 rfl) hoth, hcl.symm⟩
      · exact ⟨e', step_call_builtin_err hcC3.1 (hcC3.op 0 rfl) hcal hkind hst hw r3.swf hres, hcl⟩
    obtain ⟨e', hf, hcl⟩ := hfail
    exact ⟨s3, e', ⟨hsteps, hf, hcl, hipL, r3.bp.trans r1.bp, r3.ep.trans r1.ep, hext, r3.swf, hsr',
      e13.trans hev'⟩⟩

/-! ## the induction -/

theorem exprErrOK_succ (L : RepLaws D) (LE : ErrLaws D) {fuel : Nat} (ihS : ExprOK D fuel) (ihSA : ArgsOK D fuel)
    (ihE : ExprErrOK D fuel) (ihA : ArgsErrOK D fuel) : ExprErrOK D (fuel + 1) := by
  intro cst base tail e cst' code hf hcomp n σ c σ' hev hcs hset s hc hip hsr hw
  cases n with
  | zero => cases hev
  | succ n =>
    change evalStep (evalN n) e [] σ = .err c σ' at hev
    cases hf with
    | bool b => exact absurd (quoteVal_atom_err (d := .bool b) (.inl rfl) hev) hcs
    | char ch => exact absurd (quoteVal_atom_err (d := .char ch) (.inl rfl) hev) hcs
    | num m => exact absurd (quoteVal_atom_err (d := .num m) (.inr ⟨m, rfl⟩) hev) hcs
    | str t => exact absurd (quoteVal_atom_err (d := .str t) (.inl rfl) hev) hcs
    | sym x =>
      have := compile_sym_inv hcomp
      subst this; subst hip
      exact err_sym hev hcs hc hsr hw
    | quote d rest hd =>
      rw [evalStep_quote] at hev
      exact absurd (quoteVal_atom_err hd hev) hcs
    | setBang x e hfe => exact err_setBang L ihE hfe hcomp hev hcs hset hc hip hsr hw
    | if2 t c hft hfc => exact err_if2 L ihS ihE hft hfc hcomp hev hcs hset hc hip hsr hw
    | if3 t c a hft hfc hfa => exact err_if3 L ihS ihE hft hfc hfa hcomp hev hcs hset hc hip hsr hw
    | app f args hh hff hfr => exact err_app L LE ihS ihSA ihE ihA hh hff hfr hcomp hev hcs hset hc hip hsr hw

theorem both_err_ok (L : RepLaws D) (LE : ErrLaws D) : ∀ fuel, ExprErrOK D fuel ∧ ArgsErrOK D fuel
  | 0 => ⟨by intro cst base tail e cst' code _ hcomp; simp [compileExpr] at hcomp,
          by intro cst base rest cst' code k _ hcomp; simp [compileArgs] at hcomp⟩
  | fuel + 1 =>
    have ih := both_err_ok L LE fuel
    have ihS := both_ok L fuel
    ⟨exprErrOK_succ L LE ihS.1 ihS.2 ih.1 ih.2, argsErrOK_succ ihS.1 ih.1 ih.2⟩

/-- **Compiler correctness, closure-free fragment, ERROR case.** -/
theorem compileExpr_correct_err (L : RepLaws D) (LE : ErrLaws D) (fuel : Nat) (cst : CState) (base : Nat)
    (tail : Bool) (e : Datum) (cst' : CState) (code : List BC) (hf : Frag e)
    (hcomp : compileExpr fuel cst c0 base tail e = .ok (cst', code))
    (n : Nat) (σ : SSt) (c : ErrClass) (σ' : SSt) (hev : (evalN n).eval e [] σ = .err c σ')
    (hcs : c ≠ .syntax) (hset : ∀ x ∈ setTargets e, σ'.globals.lookup x ≠ none)
    (s : MSt H) (hc : CodeAt D s.heap σ.store s.ipL base code) (hip : s.ipO = base)
    (hsr : SR D s.heap σ) (hw : SWF s.stack) :
    ∃ sf e', ErrRun D s σ σ' c sf e' :=
  (both_err_ok L LE fuel).1 cst base tail e cst' code hf hcomp n σ c σ' hev hcs hset s hc hip hsr hw

/-- the failing run on the counted iteration of `Vm.step`: `k` successful instructions, then the error -/
theorem ErrRun.runN {s sf : MSt H} {σ σ' : SSt} {c : ErrClass} {e' : Err} (r : ErrRun D s σ σ' c sf e') :
    ∃ k, runN ops k s = some sf ∧ step ops sf = .err e' :=
  let ⟨k, hk⟩ := r.steps.runN
  ⟨k, hk, r.fails⟩

/-! ## the excluded `set!`: the specification fails, the machine model defines the variable -/

/-- `(set! x e)` with `x` unbound after `e` has been evaluated: `Spec.Eval` fails with `unbound` -/
theorem setBang_unbound_spec_fails {r : Spec.Eval.Rec} {x : Text} {e : Datum} {σ σ1 : SSt} {v : Val}
    (hx : Spec.Eval.reserved x = false) (he : r.eval e [] σ = .ok v σ1) (hl : σ1.globals.lookup x = none) :
    evalStep r (.pair (.sym k_setBang) (.pair (.sym x) (.pair e .nil))) [] σ = .err .unbound σ1 := by
  simp only [evalStep, kwOf_setBang, Spec.Eval.evalKw, properList, Option.map, hx, Bool.false_eq_true, if_false]
  change Spec.Eval.M.bind' _ _ σ = _
  simp only [Spec.Eval.M.bind', he]
  change Spec.Eval.M.bind' (Spec.Eval.assignVar [] x v) _ σ1 = _
  simp only [Spec.Eval.M.bind', Spec.Eval.assignVar, List.lookup, Spec.Eval.setGlobal, hl]

end Marwood.Lemmas.CompileCorrect
