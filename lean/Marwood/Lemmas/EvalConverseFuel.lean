import Marwood.Lemmas.EvalConverseSteps
/-! Converse simulation (`SimR`): mirror of `EvalExtraFuel.lean` (see `EvalConverse.lean`). -/
namespace Marwood.Spec.Eval.Conv
open Marwood Marwood.Spec.Eval Marwood.Spec.Eval.Extra

variable {f : LMap}

theorem simRAt_getList {st st' : St} (r : StRel f st st') {v v' : Val} (hv : VRel f v v')
    (hc : listCut (st.store.size + 1) st.store v = false) :
    ResRelR f (VsRel f) (getList v st) (getList v' st') := by
  rw [getList_eq, getList_eq]
  have h1 := listOfVal_rel r (st'.store.size + 1) hv
  rw [r.fuel_eq, listOfVal_stable _ _ _ _ hc] at h1
  rw [← r.fuel_eq] at h1
  revert h1
  generalize listOfVal (st.store.size + 1) st.store v = o
  generalize listOfVal (st'.store.size + 1) st'.store v' = o'
  intro h1
  cases h1 with
  | none => exact ⟨rfl, r⟩
  | some hx => exact ⟨hx, r⟩

theorem simRAt_getLists {st st' : St} (r : StRel f st st') : ∀ {vs vs' : List Val}, VsRel f vs vs' →
    (∀ v ∈ vs, listCut (st.store.size + 1) st.store v = false) →
    ResRelR f (LsRel f) (getLists vs st) (getLists vs' st')
  | _, _, .nil, _ => ⟨.nil, r⟩
  | _, _, .cons (v := v) (vs := vs) hv hvs, hc => by
    simp only [getLists]
    refine ResRelR.bind (simRAt_getList r hv (hc _ (by simp))) (fun xs xs' s s' hm hx rs => ?_)
    obtain ⟨rfl, _⟩ := getList_ok_state hm
    have hc' : ∀ w ∈ vs, listCut (s.store.size + 1) s.store w = false := fun w hw => hc w (by simp [hw])
    refine ResRelR.bind (simRAt_getLists rs hvs hc') (fun ls ls' s2 s2' _ hl rs2 => ?_)
    exact ⟨.cons hx hl, rs2⟩

theorem simRAt_externalise {st st' : St} (r : StRel f st st') {v v' : Val} (hv : VRel f v v')
    (hc : valCut (st.store.size + 1) st.store v = false) :
    ResRelR f (fun d d' => d' = d) (externalise v st) (externalise v' st') := by
  have h1 := valToDatum_rel r (st'.store.size + 1) hv
  rw [r.fuel_eq, valToDatum_stable _ _ _ _ hc, ← r.fuel_eq] at h1
  exact ⟨h1, r⟩

theorem simRAt_equalP (hf : Inj f) {st st' : St} (r : StRel f st st') {a a' b b' : Val} (ha : VRel f a a') (hb : VRel f b b')
    (hc : eqCut (st.store.size + 1) st.store a b = false) :
    ResRelR f (VRel f) (primPred .equalP [a, b] st) (primPred .equalP [a', b'] st') := by
  have h1 := equalVal_rel hf r (st'.store.size + 1) ha hb
  rw [r.fuel_eq, equalVal_stable _ _ _ _ _ hc, ← r.fuel_eq] at h1
  show ResRelR f (VRel f) (Res.ok (Val.bool (equalVal (st.store.size + 1) st.store a b)) st)
    (Res.ok (Val.bool (equalVal (st'.store.size + 1) st'.store a' b')) st')
  rw [h1]
  exact ⟨.bool _, r⟩

theorem simR_memWalk (hf : Inj f) (assoc : Bool) {x x' : Val} (hx : VRel f x x') : ∀ (m : Nat) {l l' : Val}, VRel f l l' →
    SimR f (VRel f) (memWalk assoc x m l) (memWalk assoc x' m l')
  | 0, _, _, _ => by simp only [memWalk]; exact SimR.throw _
  | m+1, l, l', hl => by
    cases hl with
    | nil => simp only [memWalk]; exact SimR.pure _ _ (.bool false)
    | pair loc =>
      simp only [memWalk]
      refine SimR.bind (simR_readPair (.pair loc)) (fun p p' hp => ?_)
      cases assoc with
      | true =>
        simp only [if_true]
        obtain ⟨a, d⟩ := p
        obtain ⟨a', d'⟩ := p'
        obtain ⟨ha, hd⟩ := hp
        simp only at ha hd ⊢
        cases ha with
        | pair la =>
          simp only
          refine SimR.bind (simR_readPair (.pair la)) (fun q q' hq => ?_)
          rw [VRel.eqv hf hq.1 hx]
          split
          · exact SimR.pure _ _ (.pair la)
          · exact simR_memWalk hf true hx m hd
        | _ => exact simR_memWalk hf true hx m hd
      | false =>
        simp only [Bool.false_eq_true, if_false]
        rw [VRel.eqv hf hp.1 hx]
        split
        · exact SimR.pure _ _ (.pair loc)
        · exact simR_memWalk hf false hx m hp.2
    | _ => simp only [memWalk]; exact SimR.throw _

theorem simRAt_memWalk (hf : Inj f) (assoc : Bool) {st st' : St} (r : StRel f st st') {x x' l l' : Val}
    (hx : VRel f x x') (hl : VRel f l l') (hc : spineCut (st.store.size + 1) st.store l = false) :
    ResRelR f (VRel f) (memWalk assoc x (st.store.size + 1) l st) (memWalk assoc x' (st'.store.size + 1) l' st') := by
  have h1 := simR_memWalk hf assoc hx (st'.store.size + 1) hl st st' r
  rw [r.fuel_eq, memWalk_stable assoc x _ _ l st hc, ← r.fuel_eq] at h1
  exact h1

theorem simR_mapApply {r r' : Rec} (hr : RecSimR f r r') {g g' : Val} (hg : VRel f g g') : ∀ {as as' : List (List Val)}, LsRel f as as' →
    SimR f (VsRel f) (mapApply r g as) (mapApply r' g' as')
  | _, _, .nil => SimR.pure _ _ .nil
  | _, _, .cons ha has => by
    simp only [mapApply]
    refine SimR.bind (hr.apply _ _ _ _ hg ha) (fun v v' hv => ?_)
    refine SimR.bind (simR_mapApply hr hg has) (fun vs vs' hvs => ?_)
    exact SimR.pure _ _ (.cons hv hvs)

end Marwood.Spec.Eval.Conv
