import Marwood.Lemmas.GoodStepA
/-!
# `Safe` as an invariant: stack inversions and the builtins reached from CALL / TCALL
(`apply`, `call/cc`, `eval`, generic) and the invocation of a continuation
-/
namespace Marwood.Lemmas.Good
open Marwood Marwood.Vm Marwood.Vm.Concrete Marwood.Lemmas.Sim
open Marwood.Heap (GcState WFHeap RootsOk vrefs vrefsList crefs)

/-! ## stack inversions -/

namespace StepC

theorem ite_err_ok {α : Type} {c : Prop} [Decidable c] {e : Err} {x : Outcome α} {r : α}
    (h : (if c then Outcome.err e else x) = .ok r) : ¬ c ∧ x = .ok r := by
  split at h
  · cases h
  · exact ⟨by assumption, h⟩

theorem pop_inv {st st' : Stack} {v : VCell} (h : st.pop = .ok (v, st')) :
    0 < st.sp ∧ st.cells[st.sp]? = some v ∧ st'.sp = st.sp - 1 ∧ st'.cells = st.cells := by
  unfold Stack.pop at h
  split at h
  · rename_i hpos
    split at h
    · rename_i w hw; cases h; exact ⟨hpos, hw, rfl, rfl⟩
    · cases h
  · cases h

theorem popN_inv : ∀ (n : Nat) {st st' : Stack} {vs : List VCell}, popN n st = .ok (vs, st') →
    st'.cells = st.cells ∧ st'.sp + n = st.sp ∧ ∀ v ∈ vs, ∃ i, st'.sp < i ∧ i ≤ st.sp ∧ st.cells[i]? = some v
  | 0, st, st', vs, h => by
    simp only [popN] at h; cases h; exact ⟨rfl, rfl, fun v hv => by cases hv⟩
  | n+1, st, st', vs, h => by
    simp only [popN] at h
    obtain ⟨⟨v, st1⟩, h1, h⟩ := bind_ok h
    simp only at h
    obtain ⟨⟨vs1, st2⟩, h2, h⟩ := bind_ok h
    simp only at h
    cases h
    obtain ⟨p1, p2, p3, p4⟩ := pop_inv h1
    obtain ⟨q1, q2, q3⟩ := popN_inv n h2
    refine ⟨q1.trans p4, by omega, ?_⟩
    intro w hw
    rcases List.mem_cons.mp hw with rfl | hw
    · exact ⟨st.sp, by omega, Nat.le_refl _, p2⟩
    · obtain ⟨i, i1, i2, i3⟩ := q3 w hw
      exact ⟨i, i1, by omega, by rw [← p4]; exact i3⟩

theorem getOffset_inv {st : Stack} {k : Nat} {v : VCell} (h : st.getOffset (-(k : Int)) = .ok v) :
    k ≤ st.sp ∧ st.cells[st.sp - k]? = some v := by
  unfold Stack.getOffset Stack.get at h
  simp only at h
  split at h
  · rename_i hnn
    have e : ((st.sp : Int) + -(k : Int)).toNat = st.sp - k := by omega
    rw [e] at h
    split at h
    · rename_i w hw; cases h; exact ⟨by omega, hw⟩
    · cases h
  · cases h

theorem push_sp (st : Stack) (v : VCell) : (st.push v).sp = st.sp + 1 := by
  unfold Stack.push; split <;> rfl

/-- below the new top, a push keeps the cells (or pads with `Undefined`) -/
theorem push_get {st : Stack} {v w : VCell} {i : Nat} (hi : i ≤ st.sp) (h : (st.push v).cells[i]? = some w) :
    st.cells[i]? = some w ∨ w = .undefined := by
  unfold Stack.push at h
  split at h
  · simp only at h
    rw [List.getElem?_set_ne (by omega)] at h
    exact .inl h
  · simp only at h
    rw [List.getElem?_set_ne (by omega), List.getElem?_append] at h
    split at h
    · exact .inl h
    · right
      rw [List.getElem?_replicate] at h
      split at h
      · cases h; rfl
      · cases h

end StepC

open StepC

/-! ## invoking a continuation -/

theorem invokeCont_inv {s s' : St CHeap} {c : Cont} (h : invokeCont s c = .ok s') :
    s'.heap = s.heap ∧ ∃ n, 0 < n ∧ s.stack.cells[s.stack.sp]? = some (.argc n) ∧ 1 < s.stack.sp ∧
      s.stack.cells[s.stack.sp - 1]? = some s'.acc := by
  unfold invokeCont at h
  obtain ⟨⟨a, st1⟩, h1, h⟩ := bind_ok h
  obtain ⟨n, h2, h⟩ := bind_ok h
  simp only at h
  split at h
  · cases h
  · rename_i hn
    obtain ⟨⟨r, st2⟩, h3, h⟩ := bind_ok h
    obtain ⟨s2, h4, h⟩ := bind_ok h
    cases h
    unfold restoreCont at h4
    obtain ⟨st3, _, h4⟩ := bind_ok h4
    cases h4
    obtain ⟨p1, p2, p3, p4⟩ := pop_inv h1
    obtain ⟨q1, q2, q3, q4⟩ := pop_inv h3
    cases a <;> simp only [asArgc] at h2 <;> cases h2
    refine ⟨rfl, _, Nat.pos_of_ne_zero hn, p2, by omega, ?_⟩
    rw [p3, p4] at q2
    exact q2

theorem invokeCont_hg {s s' : St CHeap} {c : Cont} (g : GoodI s) (hblk : ArgBlock s.stack s.stack.sp)
    (h : invokeCont s c = .ok s') : HG s'.heap ∧ plainGlob s'.acc = true := by
  obtain ⟨e, n, hn, ha, hsp, hr⟩ := invokeCont_inv h
  rw [e]
  exact ⟨g.hg, hblk n ha _ _ (by omega) (by omega) hr⟩

/-! ## the builtins -/

section
variable {ext : ExtOps} {s s2 : St CHeap} {v : VCell}

theorem builtinApply_ok (g : GoodI s) (hblk : ArgBlock s.stack s.stack.sp)
    (h : builtinApply (concreteOps ext) s = .ok (s2, v)) :
    HG s2.heap ∧ VRefsOk s2.heap v ∧ plainVal v = true := by
  unfold builtinApply at h
  obtain ⟨⟨a, st1⟩, h1, h⟩ := bind_ok h
  obtain ⟨argc, h2, h⟩ := bind_ok h
  obtain ⟨hge, h⟩ := ite_err_ok h
  obtain ⟨⟨top, st2⟩, h3, h⟩ := bind_ok h
  obtain ⟨_, h⟩ := ite_err_ok h
  obtain ⟨proc, h4, h⟩ := bind_ok h
  obtain ⟨st3, _, h⟩ := bind_ok h
  obtain ⟨⟨_, st4⟩, _, h⟩ := bind_ok h
  obtain ⟨⟨n, st5⟩, _, h⟩ := bind_ok h
  obtain ⟨ipO, _, h⟩ := bind_ok h
  cases h
  obtain ⟨p1, p2, p3, p4⟩ := pop_inv h1
  obtain ⟨q1, q2, q3, q4⟩ := pop_inv h3
  cases a <;> simp only [asArgc] at h2 <;> cases h2
  have e : -((argc : Int) - 2) = -(((argc - 2 : Nat)) : Int) := by omega
  rw [e] at h4
  obtain ⟨r1, r2⟩ := getOffset_inv h4
  rw [q4, p4] at r2
  have hi : st2.sp - (argc - 2) < s.stack.sp := by omega
  have hpg : plainGlob v = true := hblk argc p2 _ _ hi (by omega) r2
  exact ⟨g.hg, roots_stack g.roots (by omega) r2, plainGlob_plainVal hpg⟩

theorem builtinCallcc_ok (g : GoodI s) (hblk : ArgBlock s.stack s.stack.sp)
    (h : builtinCallcc (concreteOps ext) s = .ok (s2, v)) (sm : Small s2.heap) :
    HG s2.heap ∧ VRefsOk s2.heap v ∧ plainVal v = true := by
  unfold builtinCallcc at h
  obtain ⟨⟨a, st1⟩, h1, h⟩ := bind_ok h
  obtain ⟨argc, h2, h⟩ := bind_ok h
  obtain ⟨hge, h⟩ := ite_err_ok h
  obtain ⟨⟨proc, st2⟩, h3, h⟩ := bind_ok h
  obtain ⟨_, h⟩ := ite_err_ok h
  obtain ⟨cst, h4, h⟩ := bind_ok h
  simp only [concreteOps] at h
  obtain ⟨ipO, _, h⟩ := bind_ok h
  cases h
  obtain ⟨p1, p2, p3, p4⟩ := pop_inv h1
  obtain ⟨q1, q2, q3, q4⟩ := pop_inv h3
  cases a <;> simp only [asArgc] at h2 <;> cases h2
  have hargc : argc = 1 := by omega
  subst hargc
  rw [p3, p4] at q2
  have hpg : plainGlob v = true := hblk 1 p2 _ _ (by omega) (by omega) q2
  have hvr : VRefsOk s.heap v := roots_stack g.roots (by omega) q2
  unfold Stack.capture at h4
  split at h4
  · rename_i hlen
    cases h4
    have hcells : ∀ w ∈ (st2.cells.take (st2.sp + 1)), VRefsOk s.heap w := by
      intro w hw
      obtain ⟨i, hi⟩ := List.mem_iff_getElem?.mp hw
      rw [List.getElem?_take] at hi
      split at hi
      · rw [q4, p4] at hi
        exact roots_stack g.roots (by omega) hi
      · cases hi
    have r := newCont_hg g.hg (k := ⟨⟨st2.cells.take (st2.sp + 1), st2.sp⟩, s.ep, s.ipL, s.ipO, s.bp⟩)
      hcells (roots_ipL g.roots) (roots_ep g.roots)
      (by simp only [List.length_take]; omega) sm
    exact ⟨r.1, hvr.mono r.2.1, plainGlob_plainVal hpg⟩
  · cases h4

theorem builtinEvalProc_ok (eg : ExtGood ext) (g : GoodI s) (hblk : ArgBlock s.stack s.stack.sp)
    (h : builtinEvalProc (concreteOps ext) s = .ok (s2, v)) (sm : Small s2.heap) :
    HG s2.heap ∧ VRefsOk s2.heap v ∧ plainVal v = true := by
  unfold builtinEvalProc at h
  obtain ⟨⟨a, st1⟩, h1, h⟩ := bind_ok h
  obtain ⟨argc, h2, h⟩ := bind_ok h
  obtain ⟨hge, h⟩ := ite_err_ok h
  obtain ⟨⟨e, st2⟩, h3, h⟩ := bind_ok h
  obtain ⟨⟨h', lam⟩, h4, h⟩ := bind_ok h
  obtain ⟨ipO, _, h⟩ := bind_ok h
  cases h
  obtain ⟨p1, p2, p3, p4⟩ := pop_inv h1
  obtain ⟨q1, q2, q3, q4⟩ := pop_inv h3
  cases a <;> simp only [asArgc] at h2 <;> cases h2
  have hargc : argc = 1 := by omega
  subst hargc
  rw [p3, p4] at q2
  have hpg : plainGlob e = true := hblk 1 p2 _ _ (by omega) (by omega) q2
  have hvr : VRefsOk s.heap e := roots_stack g.roots (by omega) q2
  have hd := (deref_ok g.hg hvr (plainGlob_plainVal hpg)).1
  simp only [concreteOps] at h4
  obtain ⟨r1, _, r3, r4⟩ := eg.compile _ _ _ _ g.hg hd h4 sm
  exact ⟨r1, r4, r3⟩

theorem builtinGeneric_ok {id : Nat} (eg : ExtGood ext) (g : GoodI s) (hblk : ArgBlock s.stack s.stack.sp)
    (h : builtinGeneric (concreteOps ext) id s = .ok (s2, v)) (sm : Small s2.heap) :
    HG s2.heap ∧ VRefsOk s2.heap v ∧ plainVal v = true := by
  unfold builtinGeneric at h
  obtain ⟨⟨a, st1⟩, h1, h⟩ := bind_ok h
  obtain ⟨argc, h2, h⟩ := bind_ok h
  obtain ⟨⟨args, st2⟩, h3, h⟩ := bind_ok h
  obtain ⟨⟨h', w⟩, h4, h⟩ := bind_ok h
  cases h
  obtain ⟨p1, p2, p3, p4⟩ := pop_inv h1
  obtain ⟨q1, q2, q3⟩ := popN_inv argc h3
  cases a <;> simp only [asArgc] at h2 <;> cases h2
  have hargs : ∀ x ∈ args, VOk s.heap x := by
    intro x hx
    obtain ⟨i, i1, i2, i3⟩ := q3 x hx
    rw [p4] at i3
    exact ⟨hblk argc p2 i x (by omega) (by omega) i3, roots_stack g.roots (by omega) i3⟩
  simp only [concreteOps] at h4
  obtain ⟨r1, _, r3, r4⟩ := eg.eval _ _ _ _ _ g.hg hargs h4 sm
  exact ⟨r1, r4, r3⟩

namespace StepC

/-- the tail of `runBuiltin`: what is done with the value a builtin returns -/
def builtinTail (ops : HeapOps CHeap) (s : St CHeap) (v : VCell) : Outcome (St CHeap) :=
  match v with
  | .ptr p => .ok { s with acc := .ptr p }
  | v => let (h, r) := ops.maybePut s.heap v; .ok { s with heap := h, acc := r }

theorem runBuiltin_eq (ops : HeapOps CHeap) (id : Nat) (s : St CHeap) :
    runBuiltin ops id s =
      (match ops.builtinKind s.heap id with
        | .apply => builtinApply ops s
        | .callcc => builtinCallcc ops s
        | .eval => builtinEvalProc ops s
        | .generic => builtinGeneric ops id s) >>= fun p => builtinTail ops p.1 p.2 := by
  unfold runBuiltin
  cases ops.builtinKind s.heap id <;> rfl

end StepC

theorem runBuiltin_hg {id : Nat} {s' : St CHeap} (eg : ExtGood ext) (g : GoodI s) (hblk : ArgBlock s.stack s.stack.sp)
    (hr : runBuiltin (concreteOps ext) id s = .ok s') (sm : Small s'.heap) :
    HG s'.heap ∧ plainGlob s'.acc = true := by
  rw [runBuiltin_eq] at hr
  obtain ⟨⟨s2, v⟩, h1, hr⟩ := bind_ok hr
  have key : Small s2.heap → HG s2.heap ∧ VRefsOk s2.heap v ∧ plainVal v = true := by
    intro sm2
    cases hk : (concreteOps ext).builtinKind s.heap id <;> rw [hk] at h1 <;> simp only at h1
    · exact builtinApply_ok g hblk h1
    · exact builtinEvalProc_ok eg g hblk h1 sm2
    · exact builtinCallcc_ok g hblk h1 sm2
    · exact builtinGeneric_ok eg g hblk h1 sm2
  unfold builtinTail at hr
  simp only at hr
  by_cases hp : ∃ p, v = .ptr p
  · obtain ⟨p, rfl⟩ := hp
    simp only at hr
    cases hr
    exact ⟨(key sm).1, rfl⟩
  · have e : s' = { s2 with heap := (maybePutV s2.heap v).1, acc := (maybePutV s2.heap v).2 } := by
      cases v <;> first | (exact absurd ⟨_, rfl⟩ hp) | (simp only [concreteOps] at hr; cases hr; rfl)
    subst e
    have sm2 : Small s2.heap := sm.of_le (maybePutV_size _ _)
    obtain ⟨k1, k2, k3⟩ := key sm2
    have r := maybePutV_hg k1 k2 k3 sm
    exact ⟨r.hg, r.res.1⟩

end

end Marwood.Lemmas.Good
