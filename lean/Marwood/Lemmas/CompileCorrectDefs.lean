import Marwood.Vm.Compile
import Marwood.Spec.Eval
import Marwood.Lemmas.Stack
/-!
# T01.3 stage 1 — compiler correctness for the closure-free fragment: definitions

The machine (`Vm.step`) is generic in the heap (`HeapOps H`), the compiler model emits `BC` cells, the
specification interpreter (`Spec.Eval`) works on `Val` / `St`. This file fixes

* `Steps ops s s'` — the machine gets from `s` to `s'` by `run_one` steps none of which halts or fails;
* `RepData ops` — the *representation*: a slot for every global name (`slot`), the relation
  "machine value `v` represents `w : Val` in heap `h` and specification store `S`" (`VR`), and an extra
  invariant tying heap and store (`SRx`; `True` when no stored value is representable);
* `SR` — heap / global environment represent a `Spec.Eval.St`;
* `Loads`, `CodeAt` — a piece of compiler output is present in the current lambda at a given offset;
* `Evolves` — what later heaps keep: every representation, and the code of the lambda;
* `RepLaws` — the **assumptions**: the heap laws (global slots are a store, writing a global changes no
  code and no representation), how the machine observes a value (`JNT`'s truth test, the unbound test of
  a global read, the operand test of `read_operand`), and the behaviour of `CALL`/`TCALL` on a
  representable callee (a generic builtin whose result agrees with `Spec.Eval`'s `apply`);
* `Frag` — the fragment.

Nothing is proved about particular heaps here; `CompileCorrectAtoms.lean` instantiates `RepData` /
`RepLaws` for store-free values from elementary heap laws.
-/
namespace Marwood.Lemmas.CompileCorrect
open Marwood Marwood.Vm
open Marwood.Spec.Eval (Val Prim Cell evalN evalStep applyStep applyPrim1 evalArgs properList quoteVal kwOf
  k_quote k_if_ k_setBang k_define)

abbrev SSt := Marwood.Spec.Eval.St
abbrev MSt (H : Type) := Marwood.Vm.St H

variable {H : Type}

/-! ## running the machine -/

/-- zero or more `run_one` steps, each returning `Ok(false)` -/
inductive Steps (ops : HeapOps H) : MSt H → MSt H → Prop
  | refl (s : MSt H) : Steps ops s s
  | cons {s s1 s2 : MSt H} : Vm.step ops s = .ok (s1, false) → Steps ops s1 s2 → Steps ops s s2

theorem Steps.one {ops : HeapOps H} {s s1 : MSt H} (h : Vm.step ops s = .ok (s1, false)) : Steps ops s s1 :=
  .cons h (.refl _)

theorem Steps.trans {ops : HeapOps H} {a b c : MSt H} (h1 : Steps ops a b) (h2 : Steps ops b c) :
    Steps ops a c := by
  induction h1 with
  | refl => exact h2
  | cons h _ ih => exact .cons h (ih h2)

/-- the same, counted -/
def runN (ops : HeapOps H) : Nat → MSt H → Option (MSt H)
  | 0, s => some s
  | n+1, s => match Vm.step ops s with
    | .ok (s1, false) => runN ops n s1
    | _ => none

theorem Steps.runN {ops : HeapOps H} {s s' : MSt H} (h : Steps ops s s') : ∃ n, runN ops n s = some s' := by
  induction h with
  | refl => exact ⟨0, rfl⟩
  | cons h _ ih =>
    obtain ⟨n, hn⟩ := ih
    exact ⟨n + 1, by simp [CompileCorrect.runN, h, hn]⟩

/-! ## the stack: live part -/

/-- `sp` is inside the allocated stack (an invariant of the real `Stack`) -/
def SWF (st : Stack) : Prop := st.sp < st.cells.length

/-- same `sp`, same cells up to `sp` -/
def LiveEq (a b : Stack) : Prop := a.sp = b.sp ∧ ∀ i, i ≤ a.sp → a.cells[i]? = b.cells[i]?

/-- push a list of values, first to last -/
def pushAll (st : Stack) (vs : List VCell) : Stack := vs.foldl Stack.push st

/-- pointwise relation of two lists -/
inductive All2 {α β : Type} (R : α → β → Prop) : List α → List β → Prop
  | nil : All2 R [] []
  | cons {a b l l'} : R a b → All2 R l l' → All2 R (a :: l) (b :: l')

/-! ## representation -/

/-- the data of a representation -/
structure RepData (ops : HeapOps H) where
  /-- the names that have a global slot (`globenv.get_binding` has been called on them: every name the
      loaded code mentions) -/
  named : Text → Prop
  /-- the global slot bound to a name; `BC.global x` is loaded as `GlobalEnvSlot (slot x)` -/
  slot : Text → Nat
  /-- machine value `v` represents `w` in heap `h`, given the specification store `S` -/
  VR : H → Array Cell → VCell → Val → Prop
  /-- extra invariant of the heap (e.g. the named slots exist) and of its relation to the specification store -/
  SRx : H → Array Cell → Prop

variable {ops : HeapOps H}

/-- the machine heap (with its global environment) represents the specification state -/
structure SR (D : RepData ops) (h : H) (σ : SSt) : Prop where
  bound : ∀ x w, D.named x → σ.globals.lookup x = some w → D.VR h σ.store (ops.globGet h (D.slot x)) w
  unbound : ∀ x, D.named x → σ.globals.lookup x = none → ops.globGet h (D.slot x) = .undefined
  extra : D.SRx h σ.store

/-- the value of an atomic datum (no allocation): what `quoteVal` returns on it -/
def atomVal : Datum → Option Val
  | .bool b => some (.bool b)
  | .char c => some (.char c)
  | .nil => some .nil
  | .num n => (Marwood.Spec.Eval.intOfNum n).map Val.int
  | .str s => some (.str s)
  | .sym s => some (.sym s)
  | _ => none

/-- how a bytecode cell of the compiler model appears in the heap -/
def Loads (D : RepData ops) (h : H) (S : Array Cell) : BC → VCell → Prop
  | .op o, v => v = .opcode o
  | .acc, v => v = .acc
  | .global x, v => D.named x ∧ v = .globSlot (D.slot x)
  | .argc n, v => v = .argc n
  | .target o, v => v = .ptr o
  | .void, v => v = .void
  | .datum d, v => (∀ o, v ≠ .opcode o) ∧ ∀ w, atomVal d = some w → D.VR h S v w
  | _, _ => False

/-- `code` sits in lambda `l` from offset `base` -/
def CodeAt (D : RepData ops) (h : H) (S : Array Cell) (l base : Nat) (code : List BC) : Prop :=
  ops.isLambda h l = true ∧
  ∀ i bc, code[i]? = some bc → ∃ v, ops.fetch h l (base + i) = some v ∧ Loads D h S bc v

/-- what a later heap keeps, for the lambda `l` being executed -/
structure Evolves (D : RepData ops) (l : Nat) (h : H) (S : Array Cell) (h' : H) (S' : Array Cell) : Prop where
  vr : ∀ v w, D.VR h S v w → D.VR h' S' v w
  isLambda : ops.isLambda h l = true → ops.isLambda h' l = true
  fetch : ops.isLambda h l = true → ∀ o, ops.fetch h' l o = ops.fetch h l o

/-- what `runBuiltin` leaves in `acc` for a generic builtin -/
def builtinResult (ops : HeapOps H) (h : H) (id : Nat) (args : List VCell) : Outcome (H × VCell) :=
  match ops.builtinEval h id args with
  | .ok (h', .ptr p) => .ok (h', .ptr p)
  | .ok (h', v) => .ok (ops.maybePut h' v)
  | .err e => .err e
  | .panic m => .panic m

/-- the assumptions -/
structure RepLaws (D : RepData ops) : Prop where
  slot_inj : ∀ a b, D.named a → D.named b → D.slot a = D.slot b → a = b
  /-- the global environment is a store (on the slots of named globals, in a heap satisfying the invariant) -/
  glob_get_put : ∀ h S x v m, D.SRx h S → D.named x →
    ops.globGet (ops.globPut h (D.slot x) v) m = if m = D.slot x then v else ops.globGet h m
  /-- writing a global slot changes no code -/
  globPut_isLambda : ∀ h n v l, ops.isLambda (ops.globPut h n v) l = ops.isLambda h l
  globPut_fetch : ∀ h n v l o, ops.fetch (ops.globPut h n v) l o = ops.fetch h l o
  /-- … and no representation -/
  globPut_VR : ∀ h n u S v w, D.VR h S v w → D.VR (ops.globPut h n u) S v w
  globPut_SRx : ∀ h n u S, D.SRx h S → D.SRx (ops.globPut h n u) S
  /-- `JNT`: `heap.get(acc)` is `#f` exactly for the representations of `#f` -/
  truth : ∀ h S v w, D.VR h S v w → (ops.deref h v = .bool false ↔ w = .bool false)
  /-- a representation is never the `Undefined` marker of an unbound global -/
  ne_undefined : ∀ h S v w, D.VR h S v w → v ≠ .undefined
  /-- `Void` represents the unspecified value -/
  void : ∀ h S, D.VR h S .void .void
  /-- `CALL`/`TCALL` with a representable callee in `acc`, representable arguments on the stack: if the
      specification's `apply` returns, the callee is a generic builtin and `proc.eval` + the write to `acc`
      return a representation of the same value in a heap that represents the new state -/
  call : ∀ n h (σ : SSt) vf f vs ws w (σ' : SSt) l, SR D h σ → D.VR h σ.store vf f → All2 (D.VR h σ.store) vs ws →
    (evalN n).apply f ws σ = .ok w σ' →
    ∃ id h' r, ops.callee h vf = .builtin id ∧ ops.builtinKind h id = .generic ∧
      builtinResult ops h id vs.reverse = .ok (h', r) ∧
      D.VR h' σ'.store r w ∧ SR D h' σ' ∧ Evolves D l h σ.store h' σ'.store

/-! ## the fragment -/

/-- atomic data -/
def IsAtom (d : Datum) : Prop := (atomVal d).isSome = true ∨ ∃ n, d = .num n

/-- the head of an application: not one of the compiler's special forms, not one of the
    specification's keywords -/
def AppHead (f : Datum) : Prop :=
  (∀ kw ∈ specialForms, f.isSymStr kw = false) ∧ ∀ x, f = .sym x → kwOf x = none

mutual
/-- closure-free expressions: constants, `(quote atom)`, global references, `set!` of a global,
    `if`, application -/
inductive Frag : Datum → Prop
  | bool (b : Bool) : Frag (.bool b)
  | char (c : Char) : Frag (.char c)
  | num (n : Num) : Frag (.num n)
  | str (s : Text) : Frag (.str s)
  | sym (s : Text) : Frag (.sym s)
  | quote (d rest : Datum) : IsAtom d → Frag (.pair (.sym k_quote) (.pair d rest))
  | setBang (x : Text) (e : Datum) : Frag e → Frag (.pair (.sym k_setBang) (.pair (.sym x) (.pair e .nil)))
  | if2 (t c : Datum) : Frag t → Frag c → Frag (.pair (.sym k_if_) (.pair t (.pair c .nil)))
  | if3 (t c a : Datum) : Frag t → Frag c → Frag a →
      Frag (.pair (.sym k_if_) (.pair t (.pair c (.pair a .nil))))
  | app (f args : Datum) : AppHead f → Frag f → FragList args → Frag (.pair f args)
/-- proper lists of fragment expressions -/
inductive FragList : Datum → Prop
  | nil : FragList .nil
  | cons (a d : Datum) : Frag a → FragList d → FragList (.pair a d)
end

/-- the binding context of top-level code: no arguments, no environment -/
def c0 : Ctx := ⟨[], []⟩

end Marwood.Lemmas.CompileCorrect
