import Marwood.Vm.Encode
/-!
# Structured code: the shapes of code the compiler emits, with their effect on the abstract stack

`Blk base code pre post`: the symbolic code `code`, placed at offset `base` of a code object, is a sequence
of complete instructions that, entered with the abstract stack `pre ++ r` (any `r`), falls through at its
end with `post ++ r`; all its jumps are forward, land on instruction boundaries inside `code` or at its
end, and meet equal abstract stacks there. The grammar is exactly as large as `compile.rs` needs: single
instructions with the operand kinds the compiler emits, sequencing, framing, and the two-armed
conditional `t; JNT else; c; JMP end; else: a; end:` (a one-armed `if` is the case `a = MOVIMM void acc`).

* `Lemmas/CompileBlk.lean`: everything the compiler model emits is a `Blk` (induction on the fuel).
* `Lemmas/VerifyBlk.lean`: the verifier's forward pass runs through every `Blk`.
-/
namespace Marwood.Vm
open Marwood.Vm.Verify

/-- a location operand as `compile.rs` emits it when every formal is in the environment map: `acc`, a
    global slot, an environment slot (never a `BasePointerOffset`) -/
def locB : BC → Bool
  | .acc | .global _ | .envSlot _ => true
  | _ => false

/-- the immediate of MOVIMM: quoted data, `Void`, a code object -/
def immB : BC → Bool
  | .datum _ | .void | .lambda _ => true
  | _ => false

inductive Blk : Nat → List BC → List ACell → List ACell → Prop
  | nil (b : Nat) : Blk b [] [] []
  | seq {b : Nat} {c1 c2 : List BC} {p q r : List ACell} :
      Blk b c1 p q → Blk (b + c1.length) c2 q r → Blk b (c1 ++ c2) p r
  | frame {b : Nat} {c : List BC} {p q : List ACell} (r : List ACell) : Blk b c p q → Blk b c (p ++ r) (q ++ r)
  | mov (b : Nat) (src dst : BC) : locB src = true → locB dst = true → Blk b [.op .mov, src, dst] [] []
  | movImm (b : Nat) (imm dst : BC) : immB imm = true → locB dst = true → Blk b [.op .movImm, imm, dst] [] []
  | pushAcc (b : Nat) : Blk b [.op .pushAcc] [] [.val]
  | pushArgc (b n : Nat) : Blk b [.op .pushImm, .argc n] [] [.argc n]
  | pushDatum (b : Nat) (d : Datum) : Blk b [.op .pushImm, .datum d] [] [.val]
  | closure (b : Nat) : Blk b [.op .closureAcc] [] []
  | cons (b : Nat) (c1 c2 : ACell) : c1.isV = true → c2.isV = true → Blk b [.op .cons] [c1, c2] []
  | vpush (b : Nat) (c : ACell) : Blk b [.op .vpushAcc] [c] []
  | call (b : Nat) (tail : Bool) (vs : List ACell) : vs.all ACell.isV = true →
      Blk b [.op (if tail then .tcallAcc else .callAcc)] (.argc vs.length :: vs) []
  | ite {b : Nat} {t c a : List BC} (tj tm : Nat) :
      Blk b t [] [] → Blk (b + t.length + 2) c [] [] → Blk tj a [] [] →
      tj = b + t.length + 2 + c.length + 2 → tm = tj + a.length →
      Blk b (t ++ [.op .jnt, .target tj] ++ c ++ [.op .jmp, .target tm] ++ a) [] []

/-- every formal parameter is in the environment map (`EnvironmentMap::new_from_iof` puts them there first):
    the binding location of a symbol is then never `Argument`, and no `BasePointerOffset` operand is emitted -/
def CtxOK (c : Ctx) : Prop := ∀ a ∈ c.args, c.envmap.any (·.1 == a) = true

/-- no entry of the environment map has an `IofArgument` source (`EnvironmentMap::new_from_iof` looks a free
    symbol up in the enclosing lambda's environment map first, which contains every formal) -/
def NoIofArg (em : List (Text × Source)) : Prop := ∀ x ∈ em, ∀ n, x.2 ≠ Source.iofArgument n

/-- procedure code: `[VARARG] ENTER <body> RET` with a structured body, and no `IofArgument` source -/
def ProcShape (l : LambdaM) : Prop :=
  ∃ body, l.bc = (if l.isVararg then [BC.op .varArg] else []) ++ [BC.op .enter] ++ body ++ [BC.op .ret] ∧
    Blk (if l.isVararg then 2 else 1) body [] [] ∧ NoIofArg l.envmap

def LamsOK (st : CState) : Prop := ∀ l ∈ st.lambdas, ProcShape l

end Marwood.Vm
