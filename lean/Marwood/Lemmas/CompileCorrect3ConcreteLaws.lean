import Marwood.Lemmas.CompileCorrect3ConcreteOps
/-!
# T01.3 stage 3 on the concrete heap — CLOSURE and ENTER

`c3_closure_ok`, `c3_activation_ok`: the laws `closure_ok` and `activation_ok` of `Laws3` for `concreteOps ext`
with the representation `cD3`. As in stage 2 (`CompileCorrect2ConcreteLaws.lean`) — two allocations for CLOSURE
(the environment, then the closure cell), one for ENTER — and in addition: the closure environment is one a
closure cell refers to (`envOK`), no existing environment becomes one (`Ext3.okBack`), the activation environment
is none, and its slots for the internal definitions are copies of the closure environment's (`Undefined`).
-/
namespace Marwood.Lemmas.CompileCorrect3.Conc
open Marwood Marwood.Vm Marwood.Vm.Concrete Marwood.Lemmas.CompileCorrect Marwood.Lemmas.CompileCorrect2
  Marwood.Lemmas.CompileCorrect2.Conc
open Marwood.Spec.Eval (Val Cell)

variable {ext : ExtOps} {E : AtomEnc} {named : Text → Prop} {slot : Text → Nat} {LM : Nat → Nat}
  {final : List LambdaM} {setG : Text → Prop}

theorem symOk_cput {h h' : CHeap} {p : Nat} {c : CCell} (so : Sim.SymOk h) (inv : Sim.HInv h)
    (hr : cput h c = (h', p)) (hc : ∀ name, ¬ Sim.isSymCell c name) : Sim.SymOk h' := by
  have := Sim.cput_symOk_plain so inv c hc
  rw [hr] at this; exact this

theorem c3_closure_ok (h : CHeap) (S : Array Cell) (lam ep bp : Nat) (st : Stack) (srcs : List RSrc)
    (hsrx : (cD3 ext E named slot LM final setG).SRx h S)
    (hsrc : (cD3 ext E named slot LM final setG).lamSrcs h lam = some srcs)
    (h1 : ∀ (j : Nat) k, srcs[j]? = some (RSrc.iofEnv k) → ∃ g, (concreteOps ext).envGet h ep k = some g)
    (h2 : ∀ (j : Nat) n, srcs[j]? ≠ some (RSrc.iofArg n)) :
    ∃ h' p cenv, (concreteOps ext).makeClosure h lam ep bp st = .ok (h', .ptr p) ∧
      (concreteOps ext).callee h' (.ptr p) = .closure lam cenv ∧ (∀ k, (concreteOps ext).envGet h cenv k = none) ∧
      (∀ (j : Nat) src, srcs[j]? = some src →
        (concreteOps ext).envGet h' cenv j = some (cloSlot (concreteOps ext) h ep src)) ∧
      (∀ e k, e ≠ cenv → (concreteOps ext).envGet h' e k = (concreteOps ext).envGet h e k) ∧
      (∀ m, (concreteOps ext).globGet h' m = (concreteOps ext).globGet h m) ∧
      Ext3 (cD3 ext E named slot LM final setG) h S h' S ∧ (cD3 ext E named slot LM final setG).SRx h' S ∧
      (cD3 ext E named slot LM final setG).envOK h' cenv := by
  have ok := srx_ok hsrx
  have so := srx_sym hsrx
  have hsl := srx_slots hsrx
  have hsrc' : (lambdaAt h lam).map (fun lam => lam.envmap.map fun p => conv p.2) = some srcs := hsrc
  cases hl : lambdaAt h lam with
  | none => rw [hl] at hsrc'; cases hsrc'
  | some l =>
    rw [hl] at hsrc'
    have hs : l.envmap.map (fun p => conv p.2) = srcs := by simpa using hsrc'
    subst hs
    have hslots := closureSlots_ok (ext := ext) h ep bp st l.envmap h1 h2
    obtain ⟨slots, hdef⟩ : ∃ slots, slots = l.envmap.map fun p => cloSlot (concreteOps ext) h ep (conv p.2) := ⟨_, rfl⟩
    rw [← hdef] at hslots
    obtain ⟨h1', p1, hr1, a1, ok1⟩ := cput_step ok (c := .lexEnv slots) (by intro lam x; cases x)
      (by intro k x; cases x) (by intro lam e x; cases x)
    have so1 : Sim.SymOk h1' := symOk_cput so ok.hinv hr1 (not_sym_lexEnv slots)
    have henvp1 : envAt h1' p1 = some slots := envAt_of_cell a1.cell
    obtain ⟨h2', p2, hr2, a2, ok2⟩ := cput_step ok1 (c := .val (.closure lam p1)) (by intro lam x; cases x)
      (by intro k x; cases x) (by intro lam' e x; cases x; exact ⟨slots, henvp1⟩)
    have so2 : Sim.SymOk h2' := symOk_cput so1 ok1.hinv hr2 (not_sym_val rfl)
    have henv1 : ∀ e, e ≠ p1 → envAt h1' e = envAt h e := fun e he => envAt_alloc_env a1 e he
    have henv2 : ∀ e, envAt h2' e = envAt h1' e := fun e => envAt_alloc_other a2 (by intro ss x; cases x) e
    have hframe : ∀ e k, e ≠ p1 → Concrete.envGet h2' e k = Concrete.envGet h e k := fun e k he =>
      envGet_of_envAt ((henv2 e).trans (henv1 e he)) k
    have hcenv : envAt h2' p1 = some slots := by rw [henv2]; exact henvp1
    have hnc : NewClos h h2' := by
      intro q lam' e x
      rcases a2.onlyNew x (by intro y; cases y) with rfl | x0
      · have h0 := a2.cell
        rw [x] at h0
        cases h0
        exact .inl (envAt_fresh a1)
      · exact newClos_alloc a1 (by intro lam e y; cases y) q lam' e x0
    refine ⟨h2', p2, p1, ?_, ?_, ?_, ?_, hframe, ?_, ?_,
      srx_mk S ok2 so2 (by rw [a2.globals, a1.globals]; exact hsl), ⟨⟨slots, hcenv⟩, p2, lam, a2.cell⟩⟩
    · show Concrete.makeClosure h lam ep bp st = _
      unfold Concrete.makeClosure
      rw [hl]
      simp only [hslots, ok_bind, hr1, hr2]
    · show (match h2'.cells[p2]? with | some c => calleeOfCell c | none => Callee.other) = _
      rw [a2.cell]; rfl
    · intro k
      show Concrete.envGet h p1 k = none
      unfold Concrete.envGet; rw [envAt_fresh a1]
    · intro j src hj
      show Concrete.envGet h2' p1 j = _
      unfold Concrete.envGet
      rw [hcenv, hdef]
      simp only [List.getElem?_map] at hj ⊢
      cases hq : l.envmap[j]? with
      | none => rw [hq] at hj; cases hj
      | some q =>
        rw [hq] at hj
        simp only [Option.map] at hj ⊢
        cases hj; rfl
    · intro m
      show h2'.globals[m]?.getD .undefined = h.globals[m]?.getD .undefined
      rw [a2.globals, a1.globals]
    · exact ext3_of_frame S ((Alloc.keeps a1).trans (Alloc.keeps a2))
        (fun e n v x => alloc_envGet a2 (alloc_envGet a1 x)) hnc

theorem c3_activation_ok (h : CHeap) (S : Array Cell) (lam cenv bp : Nat) (st : Stack) (srcs : List RSrc) (nargs : Nat)
    (hsrx : (cD3 ext E named slot LM final setG).SRx h S)
    (hsrc : (cD3 ext E named slot LM final setG).lamSrcs h lam = some srcs)
    (hinfo : (concreteOps ext).lambdaInfo h lam = some ⟨nargs⟩)
    (hcenv : (cD3 ext E named slot LM final setG).envOK h cenv)
    (hslots : ∀ (j : Nat) src, srcs[j]? = some src → ∃ g, (concreteOps ext).envGet h cenv j = some g)
    (hargs : ∀ (j : Nat) i, srcs[j]? = some (RSrc.arg i) →
      i < nargs ∧ nargs - i ≤ bp ∧ bp - (nargs - i) + 1 < st.cells.length)
    (hint : ∀ (j : Nat), srcs[j]? = some RSrc.internal → (concreteOps ext).envGet h cenv j = some .undefined) :
    ∃ h' a, (concreteOps ext).makeActivation h lam cenv bp st = .ok (h', a) ∧
      (∀ k, (concreteOps ext).envGet h a k = none) ∧
      (∀ (j : Nat) i v, srcs[j]? = some (RSrc.arg i) → st.cells[bp - (nargs - i) + 1]? = some v →
        (concreteOps ext).envGet h' a j = some v) ∧
      (∀ (j : Nat), srcs[j]? = some RSrc.internal → (concreteOps ext).envGet h' a j = some .undefined) ∧
      (∀ (j : Nat) k, srcs[j]? = some (RSrc.iofEnv k) →
        (concreteOps ext).envGet h' a j = some (actCaptured cenv j ((concreteOps ext).envGet h cenv j))) ∧
      (∀ e k, e ≠ a → (concreteOps ext).envGet h' e k = (concreteOps ext).envGet h e k) ∧
      (∀ m, (concreteOps ext).globGet h' m = (concreteOps ext).globGet h m) ∧
      Ext3 (cD3 ext E named slot LM final setG) h S h' S ∧ (cD3 ext E named slot LM final setG).SRx h' S ∧
      ¬ (cD3 ext E named slot LM final setG).envOK h' a := by
  have ok := srx_ok hsrx
  have so := srx_sym hsrx
  have hsl := srx_slots hsrx
  have hcenv' : cEnvOK h cenv := hcenv
  obtain ⟨⟨olds, holds⟩, _⟩ := hcenv'
  have hsrc' : (lambdaAt h lam).map (fun lam => lam.envmap.map fun p => conv p.2) = some srcs := hsrc
  have hinfo' : (lambdaAt h lam).map (fun lam => (⟨lam.args.length⟩ : LambdaInfo)) = some ⟨nargs⟩ := hinfo
  cases hl : lambdaAt h lam with
  | none => rw [hl] at hsrc'; cases hsrc'
  | some l =>
    rw [hl] at hsrc' hinfo'
    have hs : l.envmap.map (fun p => conv p.2) = srcs := by simpa using hsrc'
    have hn : l.args.length = nargs := by
      have : (⟨l.args.length⟩ : LambdaInfo) = ⟨nargs⟩ := by simpa using hinfo'
      injection this
    subst hs
    have hlen : l.envmap.length ≤ olds.length := by
      rcases Nat.lt_or_ge olds.length l.envmap.length with hlt | hge
      · exfalso
        have hj : (l.envmap.map fun p => conv p.2)[olds.length]? =
            some (conv (l.envmap[olds.length]'hlt).2) := by
          rw [List.getElem?_map, List.getElem?_eq_getElem hlt]; rfl
        obtain ⟨g, hg⟩ := hslots _ _ hj
        obtain ⟨ss, he, hk⟩ := envGet_some hg
        rw [holds] at he; cases he
        rw [List.getElem?_eq_none (Nat.le_refl _)] at hk; cases hk
      · exact hge
    obtain ⟨slots, hsl2, r1, r2⟩ := activationSlots_ok cenv bp nargs st l.envmap 0 olds hlen hargs
    have r3 := activationSlots_internal cenv bp nargs st l.envmap 0 olds slots hsl2
    obtain ⟨h1', p1, hr1, a1, ok1⟩ := cput_step ok (c := .lexEnv slots) (by intro lam x; cases x)
      (by intro k x; cases x) (by intro lam e x; cases x)
    have so1 : Sim.SymOk h1' := symOk_cput so ok.hinv hr1 (not_sym_lexEnv slots)
    have hframe : ∀ e k, e ≠ p1 → Concrete.envGet h1' e k = Concrete.envGet h e k := fun e k he =>
      envGet_of_envAt (envAt_alloc_env a1 e he) k
    have hnew : envAt h1' p1 = some slots := envAt_of_cell a1.cell
    refine ⟨h1', p1, ?_, ?_, ?_, ?_, ?_, hframe, ?_, ?_, srx_mk S ok1 so1 (by rw [a1.globals]; exact hsl),
      alloc_not_envOK a1 ok.clos (by intro lam x; cases x)⟩
    · show Concrete.makeActivation h lam cenv bp st = _
      unfold Concrete.makeActivation
      rw [hl, holds]
      simp only [hn, hsl2, ok_bind, hr1]
    · intro k
      show Concrete.envGet h p1 k = none
      unfold Concrete.envGet; rw [envAt_fresh a1]
    · intro j i v hj hv
      show Concrete.envGet h1' p1 j = _
      unfold Concrete.envGet; rw [hnew]
      exact r1 j i v hj hv
    · intro j hj
      have hu : Concrete.envGet h cenv j = some .undefined := hint j hj
      show Concrete.envGet h1' p1 j = _
      unfold Concrete.envGet at hu ⊢
      rw [holds] at hu
      rw [hnew]
      exact (r3 j hj).trans hu
    · intro j k hj
      show Concrete.envGet h1' p1 j = some (actCaptured cenv j (Concrete.envGet h cenv j))
      have := r2 j k hj
      unfold Concrete.envGet
      simp only [hnew, holds]
      rw [this, Nat.zero_add]
    · intro m
      show h1'.globals[m]?.getD .undefined = h.globals[m]?.getD .undefined
      rw [a1.globals]
    · exact ext3_of_frame S (Alloc.keeps a1) (fun e n v x => alloc_envGet a1 x)
        (newClos_alloc a1 (by intro lam e y; cases y))

end Marwood.Lemmas.CompileCorrect3.Conc
