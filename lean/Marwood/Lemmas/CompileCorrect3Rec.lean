import Marwood.Lemmas.CompileCorrect3Lambda
/-!
# T01.3 stage 3 — blocks of `lambda`-initialised internal definitions (self and mutual recursion): one definition

`F3B.block Bs`: the body continues with `(define g₁ (lambda …)) … (define gₘ (lambda …))`, `Bs = [g₁ … gₘ]`, whose
`lambda` bodies may mention every `gᵢ` (and every name that was readable before the block). Between the first and
the last definition of the block the heap does NOT satisfy `Inv3`: the slot of `g₁` holds a closure that has
captured the location of `g₂`, which is still `Undefined`. Nothing is evaluated in between but `lambda`
expressions (CLOSURE captures LOCATIONS, it does not read them), so the block is proved as a unit with a weaker
invariant `BlkInv` (the closures stored so far demand of a captured location only that it is initialised OR a
location of the block), and `Inv3` is re-established behind the last definition (`CompileCorrect3RecBlock.lean`),
when every location of the block is initialised. This file: the inversion of the `lambda` rule, the store
instructions without `Inv3` (`store_core`), `BlkInv`, and one definition of a block (`block_step`).
-/
namespace Marwood.Lemmas.CompileCorrect3
open Marwood Marwood.Vm Marwood.Lemmas.CompileCorrect Marwood.Lemmas.CompileCorrect2
open Marwood.Spec.Eval (Val Prim Cell Env evalN evalStep applyStep evalArgs properList quoteVal kwOf insertG
  k_quote k_if_ k_setBang k_define k_lambda)

variable {H : Type} {ops : HeapOps H} {D : RepData2 ops}

theorem F3K_ints_ne {G : Text → Prop} {f : Nat} {c : Ctx} {ns us : Text → Prop} {Bs todo ints : List Text} {bodyD : Datum}
    (hne : todo ≠ []) (hK : F3K G f c ns us Bs todo ints bodyD) : ints ≠ [] := by
  cases hK with
  | defl => intro h; cases h
  | defc => intro h; cases h
  | done => exact absurd rfl hne

/-- inversion of the `lambda` rule -/
theorem F3_lambda_inv {G : Text → Prop} {f : Nat} {c : Ctx} {ns us : Text → Prop} {t : Bool} {formals body : Datum}
    (h : F3 G f c ns us t (.pair (.sym k_lambda) (.pair formals body))) :
    ∃ f' p ps rest ints caps, f = f' + 1 ∧
      lambdaParts f' c (.pair (.sym k_lambda) (.pair formals body)) false = .ok p ∧
      Spec.Eval.parseFormals formals = some (ps, rest) ∧ p.formals = ps ++ rest.toList ∧
      p.isVararg = rest.isSome ∧ (ps ++ rest.toList ++ ints).Nodup ∧
      p.ctx.envmap = em3 (ps ++ rest.toList) ints caps ∧
      (∀ q ∈ caps, q.2 = .iofEnvironment ∧ inEnv c q.1 = true ∧ ¬ us q.1) ∧
      F3B G f' p.ctx (fun x => x ∈ ps ++ rest.toList ++ ints ∨ ns x) (fun x => x ∈ ints) ints body := by
  generalize he : Datum.pair (.sym k_lambda) (.pair formals body) = e at h
  cases h with
  | bool b => cases he
  | char ch => cases he
  | num m => cases he
  | str s => cases he
  | vecc e0 => cases he
  | sym x _ _ => cases he
  | quote d rest =>
    injection he with e1 _; injection e1 with e1
    exact absurd e1 (by decide)
  | setBang x e0 _ _ _ =>
    injection he with e1 _; injection e1 with e1
    exact absurd e1 (by decide)
  | if2 a b _ _ =>
    injection he with e1 _; injection e1 with e1
    exact absurd e1 (by decide)
  | if3 a b d _ _ _ =>
    injection he with e1 _; injection e1 with e1
    exact absurd e1 (by decide)
  | app fn args hh _ _ =>
    injection he with e1 _
    have := hh.2 k_lambda e1.symm
    exact absurd this (by decide)
  | lambda formals' body' p ps rest ints caps h1 h2 h3 h4 h5 h6 h7 h8 =>
    injection he with _ e2; injection e2 with e3 e4
    subst e3 e4
    exact ⟨_, p, ps, rest, ints, caps, rfl, h1, h2, h3, h4, h5, h6, h7, h8⟩

/-- `MOV %acc <slot x>; MOV-IMMEDIATE <void> %acc` on a heap that satisfies only the heap invariant `SRx` -/
theorem store_core (L : Laws3 D) {c : Ctx} {s : MSt H} {S : Array Cell} {x : Text} {j e n : Nat} {old : VCell}
    (hj : slotIdx c.envmap x = some j) (hin : inEnv c x = true)
    (hc : CodeAt2 D c.envmap s.heap S s.ipL s.ipO [.op .mov, .acc, emitLoc c x, .op .movImm, .void, .acc])
    (hd : Denotes ops s.heap s.ep j e n) (hsrx : D.SRx s.heap S) (hnok : ¬ D.envOK s.heap e)
    (hold : ops.envGet s.heap e n = some old) (hnp : isEnvPtr old = false)
    (ha1 : isEnvPtr s.acc = false) (ha2 : s.acc ≠ .undefined) :
    ∃ h', Steps ops s { s with heap := h', acc := .void, ipO := s.ipO + 3 + 3 } ∧ Ext3 D s.heap S h' S ∧
      D.SRx h' S ∧
      (∀ e' k', ops.envGet h' e' k' = if e' = e ∧ k' = n then some s.acc else ops.envGet s.heap e' k') ∧
      ∀ m, ops.globGet h' m = ops.globGet s.heap m := by
  rw [emitLoc_env hin] at hc
  obtain ⟨j', hj', hf2⟩ := hc.envCell 2 rfl
  rw [hj] at hj'; cases hj'
  obtain ⟨h', hput, hext, hsrx', hget, hglob⟩ := L.envPut_ok s.heap S e n old s.acc hsrx hnok hold hnp ha1 ha2
  have hs1 := step_mov_acc_env hc.1 (hc.op 0 rfl) (hc.accCell 1 rfl) hf2 hd hput
  have hc2 : CodeAt2 D c.envmap h' S s.ipL (s.ipO + 3) [.op .movImm, .void, .acc] :=
    (CodeAt2.right (a := [.op .mov, .acc, .envSlot x]) hc).ext hext.toExt2
  have hs2 := run3_movImm_void (s := { s with heap := h', ipO := s.ipO + 3 }) hc2
  exact ⟨h', .cons hs1 (Steps.one hs2), hext, hsrx', hget, hglob⟩

/-- the location `(e, n)` is denoted, in the environment `ep0` of heap `h0`, by a name with property `P` -/
def BLoc (ops : HeapOps H) (c : Ctx) (h0 : H) (ep0 : Nat) (P : Text → Prop) (e n : Nat) : Prop :=
  ∃ x, P x ∧ ∃ j, slotIdx c.envmap x = some j ∧ Denotes ops h0 ep0 j e n

/-- the invariant INSIDE a block `Bs` entered in state `s0` / `σ0`: the definitions of the names `dn` have been
    evaluated. Everything outside the locations of `dn` is as at the entry; a location of `dn` holds a closure
    whose captured locations are initialised or locations of the block. -/
structure BlkInv (D : RepData2 ops) (W : World) (c : Ctx) (ρ : Env) (Bs : List Text) (s0 : MSt H) (σ0 : SSt)
    (dn : Text → Prop) (s : MSt H) (σ : SSt) : Prop where
  ipL : s.ipL = s0.ipL
  bp : s.bp = s0.bp
  ep : s.ep = s0.ep
  stack : s.stack = s0.stack
  ext : Ext3 D s0.heap σ0.store s.heap σ.store
  srx : D.SRx s.heap σ.store
  globals : σ.globals = σ0.globals
  glob : ∀ m, ops.globGet s.heap m = ops.globGet s0.heap m
  frame : ∀ e n l, W e n l → ¬ BLoc ops c s0.heap s0.ep dn e n →
    ops.envGet s.heap e n = ops.envGet s0.heap e n ∧ σ.store[l]? = σ0.store[l]?
  dnOK : ∀ e n l, W e n l → BLoc ops c s0.heap s0.ep dn e n →
    ∃ v lam cenv ps rest bl, ops.envGet s.heap e n = some v ∧ isEnvPtr v = false ∧ v ≠ .undefined ∧
      σ.store[l]? = some (.var (.closure ps rest bl ρ)) ∧ ops.callee s.heap v = .closure lam cenv ∧
      ClosOK3g D W s.heap (fun e n => InitM ops s.heap e n ∨ BLoc ops c s0.heap s0.ep (· ∈ Bs) e n) lam cenv ps rest
        bl ρ

theorem BlkInv.start (s : MSt H) {W : World} {c : Ctx} {ρ : Env} {Bs : List Text} {σ : SSt}
    (hsrx : D.SRx s.heap σ.store) : BlkInv D W c ρ Bs s σ (fun _ => False) s σ :=
  ⟨rfl, rfl, rfl, rfl, Ext3.refl _ _, hsrx, rfl, fun _ => rfl, fun _ _ _ _ _ => ⟨rfl, rfl⟩,
    fun _ _ _ _ ⟨_, hx, _⟩ => hx.elim⟩

theorem BlkInv.congr {W : World} {c : Ctx} {ρ : Env} {Bs : List Text} {s0 s : MSt H} {σ0 σ : SSt}
    {dn dn' : Text → Prop} (b : BlkInv D W c ρ Bs s0 σ0 dn s σ) (h : ∀ y, dn y ↔ dn' y) :
    BlkInv D W c ρ Bs s0 σ0 dn' s σ := by
  have : dn = dn' := funext fun y => propext (h y)
  rw [← this]; exact b

/-- what a location holds inside a block: a value, in machine and specification -/
theorem BlkInv.slot {W : World} {c : Ctx} {ρ : Env} {Bs : List Text} {s0 s : MSt H} {σ0 σ : SSt} {dn : Text → Prop}
    (b : BlkInv D W c ρ Bs s0 σ0 dn s σ) (hi0 : Inv3 D W s0.heap σ0) {e n l : Nat} (hW : W e n l) :
    ∃ old wold, ops.envGet s.heap e n = some old ∧ isEnvPtr old = false ∧ σ.store[l]? = some (.var wold) := by
  classical
  by_cases hq : BLoc ops c s0.heap s0.ep dn e n
  · obtain ⟨v, _, _, ps, rest, bl, g1, g2, _, g4, _⟩ := b.dnOK e n l hW hq
    exact ⟨v, _, g1, g2, g4⟩
  · obtain ⟨g1, g2⟩ := b.frame e n l hW hq
    obtain ⟨v, w, k1, k2, k3, _⟩ := hi0.vars e n l hW
    exact ⟨v, w, by rw [g1]; exact k1, k2, by rw [g2]; exact k3⟩

/-- the demand a closure created inside the block makes of a captured location -/
abbrev BlkP (ops : HeapOps H) (c : Ctx) (Bs : List Text) (s0 : MSt H) (h : H) (e n : Nat) : Prop :=
  InitM ops h e n ∨ BLoc ops c s0.heap s0.ep (· ∈ Bs) e n

/-- the environment as a closure created inside the block sees it -/
theorem BlkInv.envRep {W : World} {c : Ctx} {ρ : Env} {us : Text → Prop} {Bs : List Text} {s0 s : MSt H} {σ0 σ : SSt}
    {dn : Text → Prop} (b : BlkInv D W c ρ Bs s0 σ0 dn s σ) (her0 : EnvRep3 ops W s0.heap c s0.ep ρ us) :
    EnvRep3g ops W s.heap (BlkP ops c Bs s0 s.heap) c s.ep ρ (fun z => us z ∧ z ∉ Bs) := by
  classical
  intro y j hj
  obtain ⟨e, n, l', hd, hl', hW, hini⟩ := her0 y j hj
  refine ⟨e, n, l', by rw [b.ep]; exact hd.ext b.ext.toExt2, hl', hW, fun hnu => ?_⟩
  by_cases hy : y ∈ Bs
  · exact .inr ⟨y, hy, j, hj, hd⟩
  · exact .inl (b.ext.init _ _ (hini (fun hu => hnu ⟨hu, hy⟩)))

theorem BlkP.mono {c : Ctx} {Bs : List Text} {s0 : MSt H} {h h' : H} {S S' : Array Cell} (x : Ext3 D h S h' S')
    (e n : Nat) (y : BlkP ops c Bs s0 h e n) : BlkP ops c Bs s0 h' e n :=
  y.elim (fun i => .inl (x.init e n i)) .inr

/-- **one definition of a block**, given the run of CLOSURE (`hclo`): the closure is stored into the slot of `x` -/
theorem block_step_core (L : Laws3 D) {W : World} {c : Ctx} {ρ : Env} {us : Text → Prop} {Bs : List Text}
    {s0 s : MSt H} {σ0 σ : SSt} {dn : Text → Prop} {x : Text} {codeE : List BC}
    (hi0 : Inv3 D W s0.heap σ0) (her0 : EnvRep3 ops W s0.heap c s0.ep ρ us)
    (b : BlkInv D W c ρ Bs s0 σ0 dn s σ) (hin : inEnv c x = true)
    {l : Nat} (hl : ρ.lookup x = some l) (hlt : l < σ.store.size) {ps : List Text} {rest : Option Text}
    {bl : List Datum}
    (hclo : ∃ (h' : H) (pp lam cenv : Nat),
      Steps ops s { s with heap := h', acc := .ptr pp, ipO := s.ipO + codeE.length } ∧
      ops.callee h' (.ptr pp) = .closure lam cenv ∧
      ClosOK3g D W h' (BlkP ops c Bs s0 h') lam cenv ps rest bl ρ ∧ (∀ k, ops.envGet s.heap cenv k = none) ∧
      (∀ e k, e ≠ cenv → ops.envGet h' e k = ops.envGet s.heap e k) ∧
      (∀ m, ops.globGet h' m = ops.globGet s.heap m) ∧ Ext3 D s.heap σ.store h' σ.store ∧ D.SRx h' σ.store)
    (hcS0 : CodeAt2 D c.envmap s.heap σ.store s.ipL (s.ipO + codeE.length)
      [.op .mov, .acc, emitLoc c x, .op .movImm, .void, .acc]) :
    ∃ s', Steps ops s s' ∧ s'.ipO = s.ipO + (codeE.length + 6) ∧ s'.acc = .void ∧
      BlkInv D W c ρ Bs s0 σ0 (fun y => dn y ∨ y = x) s'
        { σ with store := σ.store.setIfInBounds l (.var (.closure ps rest bl ρ)) } := by
  classical
  obtain ⟨h', pp, lam, cenv, hsteps, hcallee, hok, hfresh, hframe, hglob, hext, hsrx'⟩ := hclo
  -- the slot of `x`
  obtain ⟨j, hj⟩ := (slotIdx_some_iff_inEnv c x).mp hin
  obtain ⟨e, k, l', hd0, hl', hW, _⟩ := her0 x j hj
  rw [hl] at hl'; cases hl'
  obtain ⟨old, wold, g1, g2, g3⟩ := b.slot hi0 hW
  have hne : e ≠ cenv := by
    intro e0; subst e0
    rw [hfresh k] at g1; cases g1
  have hnok : ¬ D.envOK h' e := by
    intro ok
    obtain ⟨v0, _, k1, _⟩ := hi0.vars e k l hW
    exact hi0.wact e k l hW ((b.ext.trans hext).okBack e k v0 k1 ok)
  have hd1 : Denotes ops h' s.ep j e k := by rw [b.ep]; exact (hd0.ext b.ext.toExt2).ext hext.toExt2
  have hcS : CodeAt2 D c.envmap h' σ.store s.ipL (s.ipO + codeE.length)
      [.op .mov, .acc, emitLoc c x, .op .movImm, .void, .acc] := hcS0.ext hext.toExt2
  obtain ⟨h'', hsteps2, hext2, hsrx2, hget, hglob2⟩ :=
    store_core (s := { s with heap := h', acc := .ptr pp, ipO := s.ipO + codeE.length }) L hj hin hcS hd1 hsrx' hnok
      (by rw [hframe e k hne]; exact g1) g2 (L.clos_not_envptr _ _ _ _ hcallee) (L.clos_ne_undefined _ _ _ _ hcallee)
  have hse : StoreExt σ.store (σ.store.setIfInBounds l (.var (.closure ps rest bl ρ))) :=
    StoreExt.setVar _ _ _ _ g3
  have hx12 : Ext3 D s.heap σ.store h'' σ.store := hext.trans hext2
  have hPm : ∀ e n, BlkP ops c Bs s0 h' e n → BlkP ops c Bs s0 h'' e n := BlkP.mono hext2
  have hPm2 : ∀ e n, BlkP ops c Bs s0 s.heap e n → BlkP ops c Bs s0 h'' e n := BlkP.mono hx12
  -- an old slot that exists is not the new closure environment
  have old_get : ∀ e' n' l', W e' n' l' → ¬ (e' = e ∧ n' = k) → ops.envGet h'' e' n' = ops.envGet s.heap e' n' := by
    intro e' n' l' hW' hns
    obtain ⟨o', _, q1, _, _⟩ := b.slot hi0 hW'
    have hne' : e' ≠ cenv := by
      intro e0; subst e0
      rw [hfresh n'] at q1; cases q1
    rw [hget]; simp only [hns, if_false]
    exact hframe e' n' hne'
  refine ⟨_, hsteps.trans hsteps2, by show s.ipO + codeE.length + 3 + 3 = _; omega, rfl, ?_⟩
  refine ⟨b.ipL, b.bp, b.ep, b.stack, b.ext.trans (hx12.trans (Ext3.storeOnly L h'' hse)),
    L.srx_store _ _ _ hse hsrx2, b.globals, fun m => ((hglob2 m).trans (hglob m)).trans (b.glob m), ?_, ?_⟩
  · intro e' n' l' hW' hnq
    have hns : ¬ (e' = e ∧ n' = k) := by
      rintro ⟨rfl, rfl⟩
      exact hnq ⟨x, .inr rfl, j, hj, hd0⟩
    have hnq0 : ¬ BLoc ops c s0.heap s0.ep dn e' n' := fun ⟨y, hy, r⟩ => hnq ⟨y, .inl hy, r⟩
    obtain ⟨q1, q2⟩ := b.frame e' n' l' hW' hnq0
    have hll : l ≠ l' := by
      intro e0; subst e0
      exact hns (hi0.winj _ _ _ _ _ hW' hW)
    refine ⟨(old_get e' n' l' hW' hns).trans q1, ?_⟩
    show (σ.store.setIfInBounds l _)[l']? = _
    rw [Array.getElem?_setIfInBounds_ne hll]; exact q2
  · intro e' n' l' hW' hq
    by_cases hsame : e' = e ∧ n' = k
    · obtain ⟨rfl, rfl⟩ := hsame
      have : l' = l := hi0.wfun _ _ _ _ hW' hW
      subst this
      refine ⟨.ptr pp, lam, cenv, ps, rest, bl, (by rw [hget]; simp), rfl, (by intro e0; cases e0), ?_,
        hext2.clos _ _ _ hcallee, hok.mono hext2 (World.le_refl _) hPm⟩
      show (σ.store.setIfInBounds l' _)[l']? = _
      simp [hlt]
    · have hq0 : BLoc ops c s0.heap s0.ep dn e' n' := by
        obtain ⟨y, hy, j', hj', hdy⟩ := hq
        rcases hy with hy | rfl
        · exact ⟨y, hy, j', hj', hdy⟩
        · rw [hj] at hj'; cases hj'
          exact absurd (Denotes.func hdy hd0) hsame
      obtain ⟨v', lam', cenv', ps', rest', bl', q1, q2, q3, q4, q5, q6⟩ := b.dnOK e' n' l' hW' hq0
      have hll : l ≠ l' := by
        intro e0; subst e0
        exact hsame (hi0.winj _ _ _ _ _ hW' hW)
      refine ⟨v', lam', cenv', ps', rest', bl', (old_get e' n' l' hW' hsame).trans q1, q2, q3, ?_,
        hx12.clos _ _ _ q5, q6.mono hx12 (World.le_refl _) hPm2⟩
      show (σ.store.setIfInBounds l _)[l']? = _
      rw [Array.getElem?_setIfInBounds_ne hll]; exact q4


/-- `(define x (lambda formals lbody))` inside a block -/
theorem block_step (L : Laws3 D) {n : Nat} {W : World} {c : Ctx} {ρ : Env} {us : Text → Prop} {Bs : List Text}
    {s0 s : MSt H} {σ0 σ : SSt} {dn : Text → Prop} {x : Text} {formals lbody : Datum} {f0 : Nat} {cst cst1 : CState}
    {base : Nat} {codeE : List BC}
    (hi0 : Inv3 D W s0.heap σ0) (her0 : EnvRep3 ops W s0.heap c s0.ep ρ us)
    (b : BlkInv D W c ρ Bs s0 σ0 dn s σ) (hin : inEnv c x = true)
    (hf : F3 D.setG f0 c (bound ρ) (fun z => us z ∧ z ∉ Bs) false (.pair (.sym k_lambda) (.pair formals lbody)))
    (cE : compileExpr f0 cst c base false (.pair (.sym k_lambda) (.pair formals lbody)) = .ok (cst1, codeE))
    (hpre1 : cst1.lambdas <+: D.final)
    (hc : CodeAt2 D c.envmap s.heap σ.store s.ipL base
      (codeE ++ [.op .mov, .acc, emitLoc c x, .op .movImm, .void, .acc])) (hip : s.ipO = base)
    {l : Nat} (hl : ρ.lookup x = some l) {v : Val} {σ1 : SSt}
    (he1 : (evalN n).eval (.pair (.sym k_lambda) (.pair formals lbody)) ρ σ = .ok v σ1) (hlt : l < σ1.store.size) :
    ∃ s', Steps ops s s' ∧ s'.ipO = s.ipO + (codeE.length + 6) ∧ s'.acc = .void ∧
      BlkInv D W c ρ Bs s0 σ0 (fun y => dn y ∨ y = x) s' { σ1 with store := σ1.store.setIfInBounds l (.var v) } := by
  obtain ⟨f', p, ps, rest, ints, caps, rfl, h1, h2, h3, h4, h5, h6, h7, h8⟩ := F3_lambda_inv hf
  cases n with
  | zero => cases he1
  | succ m =>
  change evalStep (evalN m) (.pair (.sym k_lambda) (.pair formals lbody)) ρ σ = .ok v σ1 at he1
  obtain ⟨h', pp, lam, cenv, bl, hsteps, rfl, hσ, hcallee, hok, hfresh, hframe, hglob, hext, hsrx'⟩ :=
    closure_core (P' := fun h' => BlkP ops c Bs s0 h') L h1 h2 h3 h4 h5 h6 h7 h8 cE hpre1 he1 hc.left hip b.srx
      (b.envRep her0) (fun h' x e n y => BlkP.mono x e n y)
  have hσ' := hσ.symm
  subst hσ'
  exact block_step_core L hi0 her0 b hin hl hlt ⟨h', pp, lam, cenv, hsteps, hcallee, hok, hfresh, hframe, hglob, hext,
    hsrx'⟩ (by rw [hip]; exact hc.right)

/-- `(define (x . formals) lbody …)` inside a block -/
theorem block_step_cur (L : Laws3 D) {W : World} {c : Ctx} {ρ : Env} {us : Text → Prop} {Bs : List Text}
    {s0 s : MSt H} {σ0 σ : SSt} {dn : Text → Prop} {x : Text} {formals lbody : Datum} {f0 : Nat} {cst cst1 : CState}
    {base : Nat} {code1 : List BC} {p : LambdaParts} {ps : List Text} {rst : Option Text} {lints : List Text}
    {caps : List (Text × Source)} {b0 : Datum} {bs0 : List Datum}
    (hi0 : Inv3 D W s0.heap σ0) (her0 : EnvRep3 ops W s0.heap c s0.ep ρ us)
    (b : BlkInv D W c ρ Bs s0 σ0 dn s σ) (hin : inEnv c x = true)
    (hp : lambdaParts f0 c (curForm x formals lbody) true = .ok p)
    (h3 : p.formals = ps ++ rst.toList) (h4 : p.isVararg = rst.isSome) (h5 : (ps ++ rst.toList ++ lints).Nodup)
    (h6 : p.ctx.envmap = em3 (ps ++ rst.toList) lints caps)
    (h7 : ∀ q ∈ caps, q.2 = .iofEnvironment ∧ inEnv c q.1 = true ∧ ¬ (us q.1 ∧ q.1 ∉ Bs))
    (h8 : F3B D.setG f0 p.ctx (fun z => z ∈ ps ++ rst.toList ++ lints ∨ bound ρ z) (fun z => z ∈ lints) lints lbody)
    (hbl : properList lbody = some (b0 :: bs0))
    (c1 : compileExpr (f0 + 1) cst c base false (curForm x formals lbody) = .ok (cst1, code1))
    (hpre1 : cst1.lambdas <+: D.final)
    (hc : CodeAt2 D c.envmap s.heap σ.store s.ipL base code1) (hip : s.ipO = base)
    {l : Nat} (hl : ρ.lookup x = some l) (hlt : l < σ.store.size) :
    ∃ s', Steps ops s s' ∧ s'.ipO = s.ipO + code1.length ∧ s'.acc = .void ∧
      BlkInv D W c ρ Bs s0 σ0 (fun y => dn y ∨ y = x) s'
        { σ with store := σ.store.setIfInBounds l (.var (.closure ps rst (b0 :: bs0) ρ)) } := by
  obtain ⟨p', st0, bcode, hp', cb, hlam, rfl⟩ := compile_defcur_inv c1
  rw [hp] at hp'; cases hp'
  obtain ⟨hpb, hpa, hpro⟩ := lambdaParts_cur_inv hp
  rw [hlam] at hpre1
  obtain ⟨hfin, hpre0⟩ := prefix_get hpre1
  subst hip
  obtain ⟨h', pp, lam, cenv, hsteps, hcallee, hok, hfresh, hframe, hglob, hext, hsrx'⟩ :=
    closure_core0 (P' := fun h' => BlkP ops c Bs s0 h') L hpb hpa hpro h3 h4 h5 h6 h7 h8 hbl cb hfin hpre0 hc.left b.srx
      (b.envRep her0) (fun h' x e n y => BlkP.mono x e n y)
  obtain ⟨s', q1, q2, q3, q4⟩ := block_step_core (codeE := [.op .movImm, .lambda st0.lambdas.length, .acc, .op .closureAcc])
    L hi0 her0 b hin hl hlt ⟨h', pp, lam, cenv, hsteps, hcallee, hok, hfresh, hframe, hglob, hext, hsrx'⟩ hc.right
  exact ⟨s', q1, by rw [q2]; rfl, q3, q4⟩

end Marwood.Lemmas.CompileCorrect3
