import Marwood.Lemmas.SimHeapOps
import Marwood.Lemmas.GcSweep
/-!
# Heap simulation: `heap.put` / `maybe_put` including symbol interning

The symbol table is not part of `Sim` (after a collection the left heap may have dropped a symbol the right
heap still interns). What makes interning respect the simulation is the C18 invariant `SymOk` of *each*
heap — the table maps `name` to `p` iff cell `p` is a non-free `Symbol name` cell (`Interned` of
Heap/Invariant.lean read through the erasure): a symbol cell in the domain of `φ` is interned on both
sides, so the four combinations found / not found on the two sides all extend `φ` consistently:

* found / found: the two cells are already related, or neither is known to `φ` and the pair is added;
* not found / found (and symmetrically): one side allocates, the other returns its old cell, which is
  outside the range of `φ` (else its partner would be interned on the allocating side);
* not found / not found: both allocate (`cput_sim`).
-/
namespace Marwood.Lemmas.Sim
open Marwood Marwood.Vm Marwood.Vm.Concrete
open Marwood.Lemmas.GcSweep

def isSymCell (c : CCell) (name : Text) : Prop := ∃ tag, c = CCell.val (.opaque tag) ∧ symName? tag = some name

/-- C18's `Interned`, for the concrete heap -/
def SymOk (h : CHeap) : Prop :=
  ∀ (name : Text) (p : Nat), symLookup h name = some p ↔ ∃ c, h.cells[p]? = some c ∧ isSymCell c name ∧ p ∉ h.free

theorem isPtr_rel {φ : Inj} {v v'} (h : VRel φ v v') : isPtr v = isPtr v' := by
  cases h <;> rfl

theorem symOf_rel {φ : Inj} {v v'} (h : VRel φ v v') : symOf v = symOf v' := by
  cases h <;> rfl

theorem symName_tag_inj {t1 t2 : String} {n : Text} (h1 : symName? t1 = some n) (h2 : symName? t2 = some n) :
    t1 = t2 := by
  unfold symName? at h1 h2
  split at h1
  · split at h2
    · rename_i r1 e1 _ r2 e2
      cases h1; cases h2
      exact String.toList_injective (e1.trans e2.symm)
    · cases h2
  · cases h1

theorem symOf_some {v : VCell} {name : Text} (h : symOf v = some name) :
    ∃ tag, v = .opaque tag ∧ symName? tag = some name := by
  cases v <;> simp [symOf] at h
  exact ⟨_, rfl, h⟩

theorem isSymCell_rel {φ : Inj} {c c' : CCell} (r : CellRel φ c c') {name} (hc : isSymCell c name) : c' = c := by
  obtain ⟨tag, rfl, _⟩ := hc
  cases r with
  | val h1 => cases h1 with
    | atom _ => rfl

theorem isSymCell_rel' {φ : Inj} {c c' : CCell} (r : CellRel φ c c') {name} (hc : isSymCell c' name) : c = c' := by
  obtain ⟨tag, rfl, _⟩ := hc
  cases r with
  | val h1 => cases h1 with
    | atom _ => rfl

theorem isSymCell_val {tag : String} {name : Text} (h : symName? tag = some name) (φ : Inj) :
    CellRel φ (.val (.opaque tag)) (.val (.opaque tag)) := .val (.atom rfl)

/-! ## `SymOk` across an allocation -/

theorem symLookup_congr {h h1 : CHeap} (e : h1.symtab = h.symtab) (name : Text) :
    symLookup h1 name = symLookup h name := by
  simp [symLookup, e]

/-- a cell that survives an allocation -/
theorem cput_old {h : CHeap} (inv : HInv h) (c : CCell) {p' : Nat} {c0 : CCell}
    (e : h.cells[p']? = some c0) (hf : p' ∉ h.free) :
    (cput h c).1.cells[p']? = some c0 ∧ p' ∉ (cput h c).1.free ∧ p' ≠ (cput h c).2 := by
  have a := calloc_spec h inv
  have hlt := lt_of_get_some e
  have hne : p' ≠ (calloc h).2 := by
    intro e'
    rcases a.p_fresh with h1 | h1
    · exact hf (e' ▸ h1)
    · omega
  refine ⟨?_, ?_, hne⟩
  · simp only [cput, cwrite]
    rw [Array.getElem?_setIfInBounds_ne (Ne.symm hne), a.cells_old p' hlt]; exact e
  · intro hm
    simp only [cput, cwrite] at hm
    rcases a.free_sub p' hm with h1 | h1
    · exact hf h1
    · omega

/-- a cell of the heap after an allocation is the new cell or an old non-free cell (or a fresh
    `Undefined`) -/
theorem cput_inv {h : CHeap} (inv : HInv h) (c : CCell) {p' : Nat} {c1 : CCell}
    (e : (cput h c).1.cells[p']? = some c1) (hf : p' ∉ (cput h c).1.free) :
    (p' = (cput h c).2 ∧ c1 = c) ∨ (p' ≠ (cput h c).2 ∧ h.cells[p']? = some c1 ∧ p' ∉ h.free) ∨
      c1 = CCell.val .undefined := by
  have a := calloc_spec h inv
  simp only [cput, cwrite] at e hf ⊢
  by_cases hp : p' = (calloc h).2
  · left
    refine ⟨hp, ?_⟩
    rw [hp] at e
    simp [a.p_lt] at e
    exact e.symm
  · rw [Array.getElem?_setIfInBounds_ne (Ne.symm hp)] at e
    by_cases hlt : p' < h.cells.size
    · right; left
      rw [a.cells_old p' hlt] at e
      refine ⟨hp, e, ?_⟩
      intro hm
      rcases a.free_sup p' hm with h1 | h1
      · exact hp h1
      · exact hf h1
    · right; right
      rw [a.cells_new p' (by omega) (lt_of_get_some e)] at e
      cases e; rfl

theorem not_sym_undefined (name : Text) : ¬ isSymCell (CCell.val .undefined) name := by
  rintro ⟨tag, h, _⟩; cases h

theorem cput_symOk_plain {h : CHeap} (so : SymOk h) (inv : HInv h) (c : CCell) (hc : ∀ name, ¬ isSymCell c name) :
    SymOk (cput h c).1 := by
  have a := calloc_spec h inv
  intro name p'
  rw [symLookup_congr (show (cput h c).1.symtab = h.symtab from a.symtab) name, so name p']
  constructor
  · rintro ⟨c0, e, hs, hf⟩
    obtain ⟨k1, k2, _⟩ := cput_old inv c e hf
    exact ⟨c0, k1, hs, k2⟩
  · rintro ⟨c1, e, hs, hf⟩
    rcases cput_inv inv c e hf with ⟨_, rfl⟩ | ⟨_, k1, k2⟩ | rfl
    · exact absurd hs (hc name)
    · exact ⟨c1, k1, hs, k2⟩
    · exact absurd hs (not_sym_undefined name)

theorem symName_inj {tag : String} {n m : Text} (h1 : symName? tag = some n) (h2 : symName? tag = some m) : n = m := by
  rw [h1] at h2; cases h2; rfl

theorem cput_symOk_sym {h : CHeap} (so : SymOk h) (inv : HInv h) {tag : String} {name : Text}
    (ht : symName? tag = some name) (hnone : symLookup h name = none) :
    SymOk { (cput h (.val (.opaque tag))).1 with
      symtab := Heap.Heap.symInsert (cput h (.val (.opaque tag))).1.symtab name (cput h (.val (.opaque tag))).2 } := by
  have a := calloc_spec h inv
  have hst : (cput h (.val (.opaque tag))).1.symtab = h.symtab := a.symtab
  intro nm p'
  have hl : symLookup { (cput h (.val (.opaque tag))).1 with
      symtab := Heap.Heap.symInsert (cput h (.val (.opaque tag))).1.symtab name (cput h (.val (.opaque tag))).2 } nm =
      if nm = name then some (cput h (.val (.opaque tag))).2 else symLookup h nm := by
    simp only [symLookup]
    rw [lookup_insert, hst]
  rw [hl]
  show _ ↔ ∃ c, (cput h (.val (.opaque tag))).1.cells[p']? = some c ∧ isSymCell c nm ∧
    p' ∉ (cput h (.val (.opaque tag))).1.free
  constructor
  · intro hlk
    split at hlk
    · rename_i hn
      subst hn
      cases hlk
      refine ⟨.val (.opaque tag), ?_, ⟨tag, rfl, ht⟩, ?_⟩
      · simp [cput, cwrite, a.p_lt]
      · simpa [cput, cwrite] using a.p_notfree
    · obtain ⟨c0, e, hs, hf⟩ := (so nm p').mp hlk
      obtain ⟨k1, k2, _⟩ := cput_old inv (.val (.opaque tag)) e hf
      exact ⟨c0, k1, hs, k2⟩
  · rintro ⟨c1, e, hs, hf⟩
    rcases cput_inv inv _ e hf with ⟨hp, rfl⟩ | ⟨hp, k1, k2⟩ | rfl
    · obtain ⟨tag', e', ht'⟩ := hs
      cases e'
      have : nm = name := symName_inj ht' ht
      simp [this, hp]
    · have hlk := (so nm p').mpr ⟨c1, k1, hs, k2⟩
      have hne : nm ≠ name := by
        intro e'; rw [e', hnone] at hlk; cases hlk
      simp [hne, hlk]
    · exact absurd hs (not_sym_undefined nm)

/-! ## extending `φ` by a pair of cells -/

theorem ext_sim {φ : Inj} {h h' h1 h1' : CHeap} (hs : HeapSim φ h h') {p q : Nat}
    (kl : ∀ a b, φ a = some b → h1.cells[a]? = h.cells[a]? ∧ a ∉ h1.free)
    (kr : ∀ a b, φ a = some b → h1'.cells[b]? = h'.cells[b]? ∧ b ∉ h1'.free)
    (hp : φ p = none) (hq : ∀ x, φ x ≠ some q) {c c' : CCell} (e1 : h1.cells[p]? = some c)
    (e2 : h1'.cells[q]? = some c') (r : CellRel (ext φ p q) c c') (f1 : p ∉ h1.free) (f2 : q ∉ h1'.free)
    (g1 : h1.globals = h.globals) (g2 : h1'.globals = h'.globals) (y1 : h1.globSyms = h.globSyms)
    (y2 : h1'.globSyms = h'.globSyms) (inv : HInv h1) (inv' : HInv h1') : HeapSim (ext φ p q) h1 h1' := by
  have hle := ext_le φ p q hp
  refine ⟨?_, ?_, by rw [g1, g2]; exact VsRel.mono hle hs.globals,
    by rw [y1, y2]; exact addrsRel_mono hle hs.globSyms, inv, inv'⟩
  · intro x x' b h1 h2
    unfold ext at h1 h2
    by_cases e1 : x = p <;> by_cases e2 : x' = p <;> simp only [e1, e2, if_true, if_false] at h1 h2
    · exact e1.trans e2.symm
    · cases h1; exact absurd h2 (hq x')
    · cases h2; exact absurd h1 (hq x)
    · exact hs.inj x x' b h1 h2
  · intro x b hxb
    unfold ext at hxb
    by_cases ex : x = p
    · rw [ex] at hxb ⊢
      simp only [if_true] at hxb
      have ebq : b = q := by cases hxb; rfl
      rw [ebq]
      exact ⟨c, c', e1, e2, r, f1, f2⟩
    · simp only [ex, if_false] at hxb
      obtain ⟨d, d', g1, g2, r', _, _⟩ := hs.cells x b hxb
      obtain ⟨k1, k2⟩ := kl x b hxb
      obtain ⟨k3, k4⟩ := kr x b hxb
      exact ⟨d, d', by rw [k1]; exact g1, by rw [k3]; exact g2, r'.mono hle, k2, k4⟩

theorem HeapSim.setSymtab {φ : Inj} {h h' : CHeap} (hs : HeapSim φ h h') (tab tab' : List (Text × Nat)) :
    HeapSim φ { h with symtab := tab } { h' with symtab := tab' } :=
  ⟨hs.inj, hs.cells, hs.globals, hs.globSyms,
   ⟨hs.inv.sizes, hs.inv.shape, hs.inv.free_iff, hs.inv.nodup, hs.inv.no_used⟩,
   ⟨hs.inv'.sizes, hs.inv'.shape, hs.inv'.free_iff, hs.inv'.nodup, hs.inv'.no_used⟩⟩

/-! ## `put` -/

variable {φ : Inj} {h h' : CHeap}

/-- the allocating part of `put` / `maybe_put` on related heaps, inline symbols included -/
theorem putNew_sim (hs : HeapSim φ h h') (so : SymOk h) (so' : SymOk h') {v v'} (hv : VRel φ v v') :
    ∃ ψ, φ.le ψ ∧ HeapSim ψ (putNew h v).1 (putNew h' v').1 ∧ VRel ψ (putNew h v).2 (putNew h' v').2 ∧
      SymOk (putNew h v).1 ∧ SymOk (putNew h' v').1 := by
  cases hsym : symOf v with
  | none =>
    have hsym' : symOf v' = none := by rw [← symOf_rel hv]; exact hsym
    unfold putNew
    rw [hsym, hsym']
    simp only
    obtain ⟨ψ, hle, hpq, hh⟩ := cput_sim hs (c := .val v) (c' := .val v') (fun ψ hle _ => .val (hv.mono hle))
    have ns : ∀ w, symOf w = none → ∀ name, ¬ isSymCell (.val w) name := by
      rintro w hw name ⟨tag, e, ht⟩
      cases e
      simp [symOf, ht] at hw
    exact ⟨ψ, hle, hh, .ptr (.inl hpq), cput_symOk_plain so hs.inv _ (ns v hsym), cput_symOk_plain so' hs.inv' _ (ns v' hsym')⟩
  | some name =>
    obtain ⟨tag, rfl, ht⟩ := symOf_some hsym
    have hvv : v' = .opaque tag := by
      cases hv with
      | atom _ => rfl
    subst hvv
    unfold putNew
    rw [hsym]
    simp only
    cases hl : symLookup h name with
    | some p =>
      obtain ⟨c, ec, hsc, hfp⟩ := (so name p).mp hl
      cases hl' : symLookup h' name with
      | some q =>
        obtain ⟨c', ec', hsc', hfq⟩ := (so' name q).mp hl'
        simp only
        cases hφ : φ p with
        | some q0 =>
          obtain ⟨d, d', g1, g2, r, _, f2⟩ := hs.cells p q0 hφ
          rw [ec] at g1; cases g1
          have : d' = c := isSymCell_rel r hsc
          subst this
          have : symLookup h' name = some q0 := (so' name q0).mpr ⟨_, g2, hsc, f2⟩
          rw [hl'] at this; cases this
          exact ⟨φ, φ.le_refl, hs, .ptr (.inl hφ), so, so'⟩
        | none =>
          have hq : ∀ x, φ x ≠ some q := by
            intro x hx
            obtain ⟨d, d', g1, g2, r, f1, _⟩ := hs.cells x q hx
            rw [ec'] at g2; cases g2
            have : d = c' := isSymCell_rel' r hsc'
            subst this
            have : symLookup h name = some x := (so name x).mpr ⟨_, g1, hsc', f1⟩
            rw [hl] at this; cases this
            rw [hφ] at hx; cases hx
          obtain ⟨t1, rfl, h1⟩ := hsc
          obtain ⟨t2, rfl, h2⟩ := hsc'
          have hh := ext_sim hs (h1 := h) (h1' := h') (p := p) (q := q)
            (fun a b hab => ⟨rfl, (hs.dom_lt hab).2.2.1⟩) (fun a b hab => ⟨rfl, (hs.dom_lt hab).2.2.2⟩)
            hφ hq ec ec' (by
              have : t1 = t2 := symName_tag_inj h1 h2
              subst this
              exact .val (.atom rfl)) hfp hfq rfl rfl rfl rfl hs.inv hs.inv'
          exact ⟨ext φ p q, ext_le φ p q hφ, hh, .ptr (.inl (ext_self φ p q)), so, so'⟩
      | none =>
        simp only
        -- left found, right allocates
        have hφ : φ p = none := by
          cases hφ : φ p with
          | none => rfl
          | some q0 =>
            obtain ⟨d, d', g1, g2, r, _, f2⟩ := hs.cells p q0 hφ
            rw [ec] at g1; cases g1
            have : d' = c := isSymCell_rel r hsc
            subst this
            have : symLookup h' name = some q0 := (so' name q0).mpr ⟨_, g2, hsc, f2⟩
            rw [hl'] at this; cases this
        have a' := calloc_spec h' hs.inv'
        have hq : ∀ x, φ x ≠ some (cput h' (.val (.opaque tag))).2 := by
          intro x hx
          obtain ⟨_, l2, _, l4⟩ := hs.dom_lt hx
          rcases a'.p_fresh with k | k
          · exact l4 k
          · simp only [cput] at l2; omega
        obtain ⟨t1, rfl, h1⟩ := hsc
        have ht1 : t1 = tag := symName_tag_inj h1 ht
        subst ht1
        have hh := ext_sim hs (h1 := h) (h1' := (cput h' (.val (.opaque t1))).1) (p := p)
          (q := (cput h' (.val (.opaque t1))).2)
          (fun a b hab => ⟨rfl, (hs.dom_lt hab).2.2.1⟩)
          (fun a b hab => by
            obtain ⟨d, d', _, g2, _, _, f2⟩ := hs.cells a b hab
            obtain ⟨k1, k2, _⟩ := cput_old hs.inv' (.val (.opaque t1)) g2 f2
            exact ⟨by rw [k1, g2], k2⟩)
          hφ hq ec (by simp [cput, cwrite, a'.p_lt]) (.val (.atom rfl)) hfp
          (by simpa [cput, cwrite] using a'.p_notfree) rfl a'.globals rfl a'.globSyms hs.inv
          (cwrite_inv _ a'.inv _ _)
        exact ⟨_, ext_le φ p _ hφ, hh.setSymtab _ _, .ptr (.inl (ext_self φ p _)), so,
          cput_symOk_sym so' hs.inv' ht hl'⟩
    | none =>
      cases hl' : symLookup h' name with
      | some q =>
        obtain ⟨c', ec', hsc', hfq⟩ := (so' name q).mp hl'
        simp only
        -- left allocates, right found
        have hq : ∀ x, φ x ≠ some q := by
          intro x hx
          obtain ⟨d, d', g1, g2, r, f1, _⟩ := hs.cells x q hx
          rw [ec'] at g2; cases g2
          have : d = c' := isSymCell_rel' r hsc'
          subst this
          have : symLookup h name = some x := (so name x).mpr ⟨_, g1, hsc', f1⟩
          rw [hl] at this; cases this
        have a := calloc_spec h hs.inv
        have hp : φ (cput h (.val (.opaque tag))).2 = none := by
          cases hφ : φ (cput h (.val (.opaque tag))).2 with
          | none => rfl
          | some b =>
            obtain ⟨l1, _, l3, _⟩ := hs.dom_lt hφ
            rcases a.p_fresh with k | k
            · exact absurd k l3
            · simp only [cput] at l1; omega
        obtain ⟨t2, rfl, h2⟩ := hsc'
        have ht2 : t2 = tag := symName_tag_inj h2 ht
        subst ht2
        have hh := ext_sim hs (h1 := (cput h (.val (.opaque t2))).1) (h1' := h')
          (p := (cput h (.val (.opaque t2))).2) (q := q)
          (fun a b hab => by
            obtain ⟨d, d', g1, _, _, f1, _⟩ := hs.cells a b hab
            obtain ⟨k1, k2, _⟩ := cput_old hs.inv (.val (.opaque t2)) g1 f1
            exact ⟨by rw [k1, g1], k2⟩)
          (fun a b hab => ⟨rfl, (hs.dom_lt hab).2.2.2⟩)
          hp hq (by simp [cput, cwrite, a.p_lt]) ec' (.val (.atom rfl))
          (by simpa [cput, cwrite] using a.p_notfree) hfq a.globals rfl a.globSyms rfl
          (cwrite_inv _ a.inv _ _) hs.inv'
        exact ⟨_, ext_le φ _ q hp, hh.setSymtab _ _, .ptr (.inl (ext_self φ _ q)),
          cput_symOk_sym so hs.inv ht hl, so'⟩
      | none =>
        simp only
        obtain ⟨ψ, hle, hpq, hh⟩ := cput_sim hs (c := .val (.opaque tag)) (c' := .val (.opaque tag))
          (fun ψ _ _ => .val (.atom rfl))
        exact ⟨ψ, hle, hh.setSymtab _ _, .ptr (.inl hpq), cput_symOk_sym so hs.inv ht hl,
          cput_symOk_sym so' hs.inv' ht hl'⟩

end Marwood.Lemmas.Sim
