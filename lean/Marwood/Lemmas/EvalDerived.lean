import Marwood.Lemmas.EvalMonoMain
import Marwood.Lemmas.EvalDerivedShapes
/-!
# T01.2, second half — evaluating the prelude's expansion agrees with the native meaning (part 1)

For a derived form `use` and the term `exp` the prelude's rule rewrites it to
(`Lemmas/EvalDerivedShapes.lean`; `Lemmas/EvalDerivedExpand.lean` proves the matcher produces it),
`Same k use exp ρ` says: whatever `Spec.Eval` yields definitely (value or error, with the state:
globals, store, output log) for one of the two with fuel `n`, it yields for the other with fuel
`n + k` — expansions nest deeper than the native form, so the equality is up to fuel, and fuel
monotonicity (`Lemmas/EvalMonoMain.lean`) makes `n + k` stand for "every sufficient fuel".

This file: the calculus, the native meaning of the core forms as equations, and
`when`, `unless`, `begin`, `and`, `or` (0 and 1 operands).
-/
namespace Marwood.Spec.Eval.Derived
open Marwood Marwood.Spec.Eval Marwood.Spec.Eval.Prelude

/-! ## monad laws of `M` -/

theorem pure_bind {α β : Type} (a : α) (f : α → M β) : (pure a >>= f) = f a := rfl

theorem throw_bind {α β : Type} (e : ErrClass) (f : α → M β) : ((throw e : M α) >>= f) = throw e := rfl

theorem bind_assoc {α β γ : Type} (m : M α) (f : α → M β) (g : β → M γ) :
    (m >>= f) >>= g = m >>= fun a => f a >>= g := by
  funext st
  show M.bind' (M.bind' m f) g st = M.bind' m (fun a => M.bind' (f a) g) st
  unfold M.bind'
  cases m st <;> rfl

theorem bind_pure {α : Type} (m : M α) : (m >>= fun a => pure a) = m := by
  funext st
  show M.bind' m (fun a => M.pure' a) st = m st
  unfold M.bind' M.pure'
  cases m st <;> rfl

/-! ## the refinement calculus, continued -/

theorem Le.of_eq {α : Type} {m m' : M α} (h : m = m') : Le m m' := h ▸ Le.refl m

/-- `Le.bind` with a postcondition of the first computation -/
theorem Le.bindP {α β : Type} {m m' : M α} {f f' : α → M β} (P : α → Prop) (hm : Le m m')
    (hp : ∀ st a st', m st = .ok a st' → P a) (hf : ∀ a, P a → Le (f a) (f' a)) :
    Le (m >>= f) (m' >>= f') := by
  intro st h
  show M.bind' m' f' st = M.bind' m f st
  have h' : M.bind' m f st ≠ .timeout := h
  unfold M.bind' at h' ⊢
  cases hm1 : m st with
  | ok a s =>
    rw [hm st (by simp [hm1])]
    simp only [hm1] at h' ⊢
    exact hf a (hp st a s hm1) s h'
  | err e s =>
    rw [hm st (by simp [hm1])]
    simp only [hm1]
  | timeout => simp [hm1] at h'

theorem evalN_succ_eval (n : Nat) (e : Datum) (ρ : Env) : (evalN (n+1)).eval e ρ = evalStep (evalN n) e ρ := rfl
theorem evalN_succ_apply (n : Nat) (f : Val) (a : List Val) : (evalN (n+1)).apply f a = applyStep (evalN n) f a := rfl

/-- the evaluator at fuel `m` is refined by one level of evaluation over itself -/
theorem eval_le_step (m : Nat) (e : Datum) (ρ : Env) : Le ((evalN m).eval e ρ) (evalStep (evalN m) e ρ) :=
  (recLe_evalN_succ m).eval e ρ

theorem apply_le_step (m : Nat) (f : Val) (a : List Val) : Le ((evalN m).apply f a) (applyStep (evalN m) f a) :=
  (recLe_evalN_succ m).apply f a

theorem eval_le_add (m k : Nat) (e : Datum) (ρ : Env) : Le ((evalN m).eval e ρ) ((evalN (m + k)).eval e ρ) :=
  (recLe_evalN (Nat.le_add_right m k)).eval e ρ

/-- `use` (native) and `exp` (expansion) evaluate alike in environment `ρ`, up to `k` levels of fuel -/
def Same (k : Nat) (use exp : Datum) (ρ : Env) : Prop :=
  ∀ n, Le ((evalN n).eval use ρ) ((evalN (n + k)).eval exp ρ) ∧
       Le ((evalN n).eval exp ρ) ((evalN (n + k)).eval use ρ)

/-- … from one state only (for hypotheses about the state, e.g. "`not` is the primitive") -/
def SameAt (k : Nat) (use exp : Datum) (ρ : Env) (st : St) : Prop :=
  ∀ n, ((evalN n).eval use ρ st ≠ .timeout → (evalN (n + k)).eval exp ρ st = (evalN n).eval use ρ st) ∧
       ((evalN n).eval exp ρ st ≠ .timeout → (evalN (n + k)).eval use ρ st = (evalN n).eval exp ρ st)

theorem Same.at {k : Nat} {use exp : Datum} {ρ : Env} (h : Same k use exp ρ) (st : St) : SameAt k use exp ρ st :=
  fun n => ⟨(h n).1 st, (h n).2 st⟩

theorem Same.mono {k k' : Nat} {use exp : Datum} {ρ : Env} (h : Same k use exp ρ) (hk : k ≤ k') :
    Same k' use exp ρ := by
  intro n
  obtain ⟨d, rfl⟩ := Nat.exists_eq_add_of_le hk
  rw [← Nat.add_assoc]
  exact ⟨(h n).1.trans (eval_le_add _ _ _ _), (h n).2.trans (eval_le_add _ _ _ _)⟩

/-- the fuel-free reading: the definite outcomes (value or error, with the whole state) that *some*
    fuel yields are the same for the derived form and for its expansion -/
theorem SameAt.limit {k : Nat} {use exp : Datum} {ρ : Env} {st : St} (h : SameAt k use exp ρ st)
    (res : Res Val) (hres : res ≠ .timeout) :
    (∃ n, (evalN n).eval use ρ st = res) ↔ (∃ n, (evalN n).eval exp ρ st = res) := by
  constructor
  · rintro ⟨n, rfl⟩; exact ⟨n + k, (h n).1 hres⟩
  · rintro ⟨n, rfl⟩; exact ⟨n + k, (h n).2 hres⟩

/-! ## syntax facts -/

theorem properList_ofList (xs : List Datum) : properList (Datum.ofList xs) = some xs := by
  induction xs with
  | nil => rfl
  | cons x xs ih => simp [Datum.ofList, properList, ih]

@[simp] theorem kwOf_lambda : kwOf k_lambda = some .lambda := by decide
@[simp] theorem kwOf_setBang : kwOf k_setBang = some .setBang := by decide
@[simp] theorem kwOf_if : kwOf k_if_ = some .if_ := by decide
@[simp] theorem kwOf_let : kwOf k_let_ = some .let_ := by decide
@[simp] theorem kwOf_letStar : kwOf k_letStar = some .letStar := by decide
@[simp] theorem kwOf_letrec : kwOf k_letrec = some .letrec := by decide
@[simp] theorem kwOf_begin : kwOf k_begin_ = some .begin_ := by decide
@[simp] theorem kwOf_cond : kwOf k_cond = some .cond := by decide
@[simp] theorem kwOf_case : kwOf k_case_ = some .case_ := by decide
@[simp] theorem kwOf_and : kwOf k_and_ = some .and_ := by decide
@[simp] theorem kwOf_or : kwOf k_or_ = some .or_ := by decide
@[simp] theorem kwOf_when : kwOf k_when_ = some .when_ := by decide
@[simp] theorem kwOf_unless : kwOf k_unless_ = some .unless_ := by decide
@[simp] theorem kwOf_not : kwOf k_not = none := by decide

theorem truthy_false {v : Val} (h : ¬ truthy v = true) : v = .bool false := by
  cases v with
  | bool b => cases b with
    | false => rfl
    | true => exact absurd rfl h
  | _ => exact absurd rfl h

variable (r : Rec) (ρ : Env)

/-! ## the native meaning of the forms the expansions are made of, as equations -/

theorem native_sym (x : Text) : evalStep r (s x) ρ = evalVar x ρ := rfl

theorem native_bool (b : Bool) : evalStep r (.bool b) ρ = pure (.bool b) := rfl

theorem native_if2 (t c : Datum) :
    evalStep r (L [s k_if_, t, c]) ρ = (do
      let v ← r.eval t ρ
      if truthy v then r.eval c ρ else pure .void) := by
  simp [L, s, Datum.ofList, evalStep, evalKw, properList]

theorem native_if3 (t c a : Datum) :
    evalStep r (L [s k_if_, t, c, a]) ρ = (do
      let v ← r.eval t ρ
      if truthy v then r.eval c ρ else r.eval a ρ) := by
  simp [L, s, Datum.ofList, evalStep, evalKw, properList]

theorem native_begin (es : List Datum) : evalStep r (L (s k_begin_ :: es)) ρ = evalExprs r ρ es := by
  simp [L, s, Datum.ofList, evalStep, evalKw, properList_ofList]

theorem native_lambda (formals : Datum) (body : List Datum) :
    evalStep r (L (s k_lambda :: formals :: body)) ρ = makeClosure formals (L body) ρ := by
  simp [L, s, Datum.ofList, evalStep, evalKw]

/-- an application whose operator is itself a compound form -/
theorem native_app_pair (a d : Datum) (args : List Datum) :
    evalStep r (L (.pair a d :: args)) ρ = (do
      let vs ← evalArgs r ρ args
      let fv ← r.eval (.pair a d) ρ
      r.apply fv vs) := by
  simp [L, Datum.ofList, evalStep, properList_ofList]

/-- an application whose operator is not a syntactic keyword -/
theorem native_app (f : Datum) (args : List Datum) (hf : ∀ x, f = .sym x → kwOf x = none) :
    evalStep r (L (f :: args)) ρ = (do
      let vs ← evalArgs r ρ args
      let fv ← r.eval f ρ
      r.apply fv vs) := by
  cases f with
  | sym x => simp [L, Datum.ofList, evalStep, properList_ofList, hf x rfl]
  | _ => simp [L, Datum.ofList, evalStep, properList_ofList]

theorem evalArgs_nil : evalArgs r ρ [] = pure [] := rfl

theorem evalArgs_one (e : Datum) : evalArgs r ρ [e] = (r.eval e ρ >>= fun v => pure [v]) := by
  simp only [evalArgs]
  rfl

theorem native_when (t b : Datum) (body : List Datum) :
    evalStep r (whenUse t b body) ρ = (do
      let v ← r.eval t ρ
      if truthy v then evalExprs r ρ (b :: body) else pure .void) := by
  simp [whenUse, L, s, Datum.ofList, evalStep, evalKw, properList, properList_ofList]

theorem native_unless (t b : Datum) (body : List Datum) :
    evalStep r (unlessUse t b body) ρ = (do
      let v ← r.eval t ρ
      if truthy v then pure .void else evalExprs r ρ (b :: body)) := by
  simp [unlessUse, L, s, Datum.ofList, evalStep, evalKw, properList, properList_ofList]

theorem native_and (es : List Datum) : evalStep r (andUse es) ρ = evalAnd r ρ es := by
  simp [andUse, L, s, Datum.ofList, evalStep, evalKw, properList_ofList]

theorem native_or (es : List Datum) : evalStep r (orUse es) ρ = evalOr r ρ es := by
  simp [orUse, L, s, Datum.ofList, evalStep, evalKw, properList_ofList]

/-! ## when -/

/-- **when**: `(when t b body …)` and `(if t (begin b body …))` -/
theorem when_same (t b : Datum) (body : List Datum) : Same 1 (whenUse t b body) (whenExp t b body) ρ := by
  intro n
  cases n with
  | zero => exact ⟨Le.timeout _, Le.timeout _⟩
  | succ n =>
    constructor
    · rw [evalN_succ_eval, evalN_succ_eval, native_when, whenExp, native_if2]
      refine Le.bind ((recLe_evalN_succ n).eval t ρ) (fun v => ?_)
      split
      · rw [evalN_succ_eval, native_begin]
        exact Le.refl _
      · exact Le.refl _
    · refine Le.trans ?_ (eval_le_add (n+1) 1 _ ρ)
      rw [evalN_succ_eval, evalN_succ_eval, native_when, whenExp, native_if2]
      refine Le.bind (Le.refl _) (fun v => ?_)
      split
      · have := eval_le_step n (L (s k_begin_ :: b :: body)) ρ
        rwa [native_begin] at this
      · exact Le.refl _

/-! ## refinement from one state -/

/-- refinement from one state -/
def LeAt {α : Type} (st : St) (m m' : M α) : Prop := m st ≠ .timeout → m' st = m st

theorem Le.at {α : Type} {m m' : M α} (h : Le m m') (st : St) : LeAt st m m' := h st

theorem LeAt.refl {α : Type} (st : St) (m : M α) : LeAt st m m := fun _ => rfl

theorem LeAt.of_eq {α : Type} {st : St} {m m' : M α} (h : m' st = m st) : LeAt st m m' := fun _ => h

theorem LeAt.trans {α : Type} {st : St} {a b c : M α} (h1 : LeAt st a b) (h2 : LeAt st b c) : LeAt st a c := by
  intro h
  have e1 := h1 h
  have e2 := h2 (by rw [e1]; exact h)
  rw [e2, e1]

theorem LeAt.bind {α β : Type} {st : St} {m m' : M α} {f f' : α → M β} (hm : LeAt st m m')
    (hf : ∀ a st', m st = .ok a st' → LeAt st' (f a) (f' a)) : LeAt st (m >>= f) (m' >>= f') := by
  intro h
  show M.bind' m' f' st = M.bind' m f st
  have h' : M.bind' m f st ≠ .timeout := h
  unfold M.bind' at h' ⊢
  cases hm1 : m st with
  | ok a s =>
    rw [hm (by simp [hm1])]
    simp only [hm1] at h' ⊢
    exact hf a s hm1 h'
  | err e s =>
    rw [hm (by simp [hm1])]
    simp only [hm1]
  | timeout => simp [hm1] at h'


end Marwood.Spec.Eval.Derived
