import Marwood.Lemmas.CompileCorrect3EnterAll
/-!
# T01.3 stage 3 — the arity error of a procedure with a rest parameter

`(lambda (x₁ … xₖ . r) …)` called with fewer than `k` arguments: `Spec.Eval`'s `bindArgs` fails with class `arity`;
the machine's first instruction in the callee, `VARARG`, fails with `InvalidNumArgs` (run.rs: `argc < required`),
before anything is allocated. (The other error cases of stage 3 are open.)
-/
namespace Marwood.Lemmas.CompileCorrect3
open Marwood Marwood.Vm Marwood.Lemmas.CompileCorrect Marwood.Lemmas.CompileCorrect2
open Marwood.Spec.Eval (Val Prim Cell Env evalN applyStep)

variable {H : Type} {ops : HeapOps H} {D : RepData2 ops}

/-- too few arguments: `bindArgs` fails with `arity` -/
theorem bindArgs_too_few : ∀ (ps : List Text) (rest : Option Text) (ws : List Val) (ρ : Env) (σ : SSt),
    ws.length < ps.length → ∃ σ', Spec.Eval.bindArgs ps rest ws ρ σ = .err .arity σ'
  | [], _, _, _, _, h => by simp at h
  | p :: ps, rest, [], ρ, σ, _ => ⟨σ, by simp only [Spec.Eval.bindArgs]; rfl⟩
  | p :: ps, rest, a :: as, ρ, σ, h => by
    have h' : as.length < ps.length := by simpa using h
    simp only [Spec.Eval.bindArgs]
    obtain ⟨σ', hσ⟩ := bindArgs_too_few ps rest as ((p, σ.store.size) :: ρ) { σ with store := σ.store.push (.var a) } h'
    refine ⟨σ', ?_⟩
    show (Spec.Eval.allocCell (.var a) >>= fun l => Spec.Eval.bindArgs ps rest as ((p, l) :: ρ)) σ = _
    show Spec.Eval.M.bind' _ _ σ = _
    simp only [Spec.Eval.M.bind', Spec.Eval.allocCell]
    exact hσ

/-- `VARARG` with fewer operands than required parameters -/
theorem varArg_too_few {s : MSt H} {req n : Nat} (hl : ops.isLambda s.heap s.ipL = true)
    (h0 : ops.fetch s.heap s.ipL s.ipO = some (.opcode .varArg))
    (hinfo : ops.lambdaInfo s.heap s.ipL = some ⟨req + 1⟩) (hsp : 2 ≤ s.stack.sp)
    (hargc : s.stack.cells[s.stack.sp - 2]? = some (.argc n)) (hn : n < req) :
    step ops s = .err .invalidNumArgs := by
  unfold step
  rw [readOpcode_eq hl h0]
  simp only [ok_bind, stepVarArg, hinfo]
  have hu : usub (req + 1) 1 "vararg: args.len() - 1" = .ok req := by unfold usub; simp
  have hg : s.stack.getOffset (-2) = .ok (.argc n) :=
    getOffset_neg (k := 2) (i := s.stack.sp - 2) (by omega) hargc
  simp only [hu, ok_bind, hg, asArgc, hn, if_true]
  rfl

/-- **the call of a closure with a rest parameter and too few arguments**: the specification fails with `arity`,
    the machine — in the state `CALL`/`TCALL` left — fails at once with `InvalidNumArgs`. -/
theorem closure_call_rest_arity (L : Laws3 D) {n : Nat} {ps : List Text} {r : Text} {body : List Datum} {ρc : Env}
    {ws : List Val} {σ : SSt} {W : World} {s : MSt H} {lam cenv : Nat} {vs : List VCell} {st0 : Stack}
    {epc lc oc : Nat} (hclos : ClosOK3 D W s.heap lam cenv ps (some r) body ρc) (hi : Inv3 D W s.heap σ)
    (hvs : All2 (VR3 D W s.heap σ.store) vs ws) (hipL : s.ipL = lam) (hipO : s.ipO = 0)
    (hst : LiveEq (callFrame st0 vs epc lc oc) s.stack) (hw0 : SWF st0) (hfew : ws.length < ps.length) :
    (∃ σ', (evalN (n + 1)).apply (.closure ps (some r) body ρc) ws σ = .err .arity σ') ∧
    step ops s = .err .invalidNumArgs := by
  have _ := L
  constructor
  · obtain ⟨σ', h⟩ := bindArgs_too_few ps (some r) ws ρc σ hfew
    refine ⟨σ', ?_⟩
    show applyStep (evalN n) (.closure ps (some r) body ρc) ws σ = _
    simp only [applyStep]
    show Spec.Eval.M.bind' _ _ σ = _
    simp only [Spec.Eval.M.bind', h]
  · obtain ⟨f, cst, cst1, co, p, bcode, ints, caps, a1, a2, a3, a4, a5, a6, a7, a8, a9, a10, a11, a12, a13, a14, a15,
      a16, a17, a18, a19⟩ := hclos
    obtain ⟨hcode, hinfo⟩ := hi.loaded _ _ a8
    rw [← a10] at hcode hinfo
    have hpro : p.prologue = [.op .varArg, .op .enter] := by rw [a4, a2]; rfl
    have hcodeP : CodeAt2 D p.ctx.envmap s.heap σ.store lam 0 (p.prologue ++ bcode ++ [.op .ret]) := hcode
    have hf0 : ops.fetch s.heap s.ipL s.ipO = some (.opcode .varArg) := by
      have := hcodeP.op 0 (o := .varArg) (by rw [hpro]; rfl)
      rw [hipL, hipO]; simpa using this
    have hinfo' : ops.lambdaInfo s.heap s.ipL = some ⟨ps.length + 1⟩ := by
      rw [hipL, hinfo]; simp [lamOf, a1]
    obtain ⟨_, _, k2, _, _⟩ := callFrame_cells st0 vs epc lc oc hw0
    have hsp : s.stack.sp = st0.sp + vs.length + 3 := by rw [← hst.1, callFrame_sp]
    have hargc : s.stack.cells[s.stack.sp - 2]? = some (.argc vs.length) := by
      rw [show s.stack.sp - 2 = st0.sp + vs.length + 1 by omega,
        ← hst.2 _ (by rw [callFrame_sp]; omega)]
      exact k2
    have hvl : vs.length = ws.length := All2.length_eq hvs
    exact varArg_too_few (by rw [hipL]; exact a11) hf0 hinfo' (by omega) hargc (by omega)

end Marwood.Lemmas.CompileCorrect3
