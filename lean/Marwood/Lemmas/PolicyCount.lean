import Marwood.Lemmas.PolicyWF
/-!
# The `used` counter counts the allocated cells

On a well-formed heap `capacity − |free list|` is the number of cells that are not `Free`; after a
collection that is the number of reachable cells — the `live` argument of `HeapPolicy.gcPoint`.
-/
namespace Marwood.Lemmas.PolicyCount
open Marwood Marwood.Heap Marwood.Lemmas.HeapWF Marwood.Lemmas.PolicyWF
open Classical

theorem nodup_subset_length_le : ∀ (l m : List Nat), l.Nodup → l ⊆ m → l.length ≤ m.length := by
  intro l
  induction l with
  | nil => intro m _ _; simp
  | cons a t ih =>
    intro m hd hs
    have hd' := List.nodup_cons.mp hd
    have ham : a ∈ m := hs (by simp)
    have hsub : t ⊆ m.erase a := by
      intro x hx
      have hxm : x ∈ m := hs (by simp [hx])
      have hne : x ≠ a := fun e => hd'.1 (e ▸ hx)
      exact (List.mem_erase_of_ne hne).mpr hxm
    have := ih (m.erase a) hd'.2 hsub
    have := List.length_erase_of_mem ham
    simp only [List.length_cons]
    have : 0 < m.length := List.length_pos_of_mem ham
    omega

/-- `used = |{x | cell x is not Free}|` -/
theorem used_eq_count_nonFree (fixed : Bool) (h : Heap) (wf : WFCore fixed h) :
    h.cells.size - h.free.length =
      ((List.range h.cells.size).filter fun x => decide (h.NonFree x)).length := by
  let p : Nat → Bool := fun x => decide (h.NonFree x)
  have hsplit := List.length_eq_countP_add_countP p (l := List.range h.cells.size)
  rw [List.length_range] at hsplit
  rw [List.countP_eq_length_filter, List.countP_eq_length_filter] at hsplit
  have hfree : h.free.length = ((List.range h.cells.size).filter fun a => decide (¬ p a = true)).length := by
    apply Nat.le_antisymm
    · apply nodup_subset_length_le _ _ wf.nodup
      intro x hx
      have hf := (wf.free_iff x).mp hx
      have hlt : x < h.cells.size := by rw [← wf.sizes]; exact lt_of_getElem?_eq_some hf
      rw [List.mem_filter]
      refine ⟨List.mem_range.mpr hlt, ?_⟩
      simp only [p, decide_eq_true_eq, decide_not, Bool.not_eq_true', decide_eq_false_iff_not]
      rintro (h1 | h1) <;> rw [hf] at h1 <;> cases h1
    · apply nodup_subset_length_le _ _ (List.Pairwise.filter _ List.nodup_range)
      intro x hx
      rw [List.mem_filter] at hx
      have hlt : x < h.gc.size := by rw [wf.sizes]; exact List.mem_range.mp hx.1
      have hn : ¬ h.NonFree x := by
        have := hx.2
        simpa [p] using this
      apply (wf.free_iff x).mpr
      rw [Array.getElem?_eq_getElem hlt]
      unfold Heap.NonFree at hn
      rw [Array.getElem?_eq_getElem hlt] at hn
      cases hg : h.gc[x] with
      | free => rfl
      | allocated => rw [hg] at hn; exact absurd (Or.inl rfl) hn
      | used => rw [hg] at hn; exact absurd (Or.inr rfl) hn
  have : ((List.range h.cells.size).filter p).length =
      ((List.range h.cells.size).filter fun x => decide (h.NonFree x)).length := rfl
  omega

end Marwood.Lemmas.PolicyCount
