import Marwood.Lemmas.Total
import Marwood.Lemmas.StoreStr
/-!
# Lemmas for C06: the loops and helpers of the Store builtins never panic on well-formed stores
-/
namespace Marwood.Store
open Outcome

variable {s : Store} {args : List VCell}

theorem asPtr_noPanic (v : VCell) : Outcome.NoPanic v.asPtr := by cases v <;> simp [VCell.asPtr]
theorem asCar_noPanic (v : VCell) : Outcome.NoPanic v.asCar := by cases v <;> simp [VCell.asCar]
theorem asCdr_noPanic (v : VCell) : Outcome.NoPanic v.asCdr := by cases v <;> simp [VCell.asCdr]

theorem finish_noPanic {r : Res} (h : Outcome.NoPanic r) : Outcome.NoPanic (finish r) := by
  unfold finish
  refine noPanic_bind h (fun a _ => ?_)
  obtain ⟨s, v⟩ := a
  simp only
  split <;> simp

/-- the `VARARG` list builder only allocates: no panic on any store -/
theorem listLoop_noPanic : ∀ (xs : List VCell) (s : Store) (acc : Nat), Outcome.NoPanic (listLoop s xs acc)
  | [], s, acc => by simp [listLoop]
  | x :: xs, s, acc => by
    unfold listLoop
    simp only
    refine noPanic_bind (asPtr_noPanic _) (fun ap _ => ?_)
    refine noPanic_bind (asPtr_noPanic _) (fun pp _ => ?_)
    exact listLoop_noPanic xs _ _

theorem getListTail_noPanic (hs : s.WF) : ∀ (k : Nat) (rest : VCell), VCell.Valid s rest →
    Outcome.NoPanic (getListTail s rest k) ∧ ∀ t, getListTail s rest k = .ok t → VCell.Valid s t
  | 0, rest, hr => by simp [getListTail, hr]
  | k+1, rest, hr => by
    obtain ⟨c, hc, hcv⟩ := get_valid hs hr
    unfold getListTail
    simp only [hc, bind_ok]
    split
    · simp
    · cases c with
      | pair a d =>
        simp only [VCell.asCdr_pair, bind_ok]
        exact getListTail_noPanic hs k (.ptr d) hcv.2
      | _ => simp [VCell.asCdr]

theorem isListLoop_noPanic (hs : s.WF) : ∀ (f : Nat) (rest : VCell), VCell.Valid s rest →
    Outcome.NoPanic (isListLoop f s rest)
  | 0, _, _ => by simp [isListLoop]
  | f+1, rest, hr => by
    unfold isListLoop
    split
    · simp
    · cases rest with
      | pair a d =>
        simp only [VCell.asCdr_pair, bind_ok]
        obtain ⟨c, hc, hcv⟩ := get_valid hs (v := .ptr d) hr.2
        simp only [hc, bind_ok]
        exact isListLoop_noPanic hs f c hcv
      | _ => simp_all [VCell.isPair]

theorem isListTHLoop_noPanic (hs : s.WF) : ∀ (f : Nat) (rest slow : VCell) (step : Bool),
    VCell.Valid s rest → VCell.Valid s slow → Outcome.NoPanic (isListTHLoop f s rest slow step)
  | 0, _, _, _, _, _ => by simp [isListTHLoop]
  | f+1, rest, slow, step, hr, hsl => by
    unfold isListTHLoop
    split
    · simp
    · cases rest with
      | pair a d =>
        simp only [VCell.asCdr_pair, bind_ok]
        obtain ⟨c, hc, hcv⟩ := get_valid hs (v := .ptr d) hr.2
        split
        · cases slow with
          | pair a2 d2 =>
            simp only [VCell.asCdr_pair, bind_ok]
            split
            · simp
            · obtain ⟨c2, hc2, hcv2⟩ := get_valid hs (v := .ptr d2) hsl.2
              simp only [hc, hc2, bind_ok]
              exact isListTHLoop_noPanic hs f c c2 false hcv hcv2
          | _ => simp [VCell.asCdr]
        · simp only [hc, bind_ok]
          exact isListTHLoop_noPanic hs f c slow true hcv hsl
      | _ => simp_all [VCell.isPair]

theorem reverseLoop_noPanic : ∀ (f : Nat) (s : Store) (rest tail : VCell), s.WF →
    VCell.Valid s rest → VCell.Valid s tail → Outcome.NoPanic (reverseLoop f s rest tail)
  | 0, _, _, _, _, _, _ => by simp [reverseLoop]
  | f+1, s, rest, tail, hs, hr, ht => by
    unfold reverseLoop
    cases rest with
    | pair a d =>
      simp only [VCell.asCar_pair, VCell.asPtr_ptr, bind_ok]
      cases tail with
      | ptr t =>
        simp only [VCell.asPtr_ptr, bind_ok, VCell.asCdr_pair]
        have hv : VCell.Valid s (.pair a t) := ⟨hr.1, ht⟩
        obtain ⟨hs', hle, hpv, _⟩ := put_wf hs hv
        obtain ⟨c, hc, hcv⟩ := get_valid hs' (v := .ptr d) (Nat.lt_of_lt_of_le hr.2 hle.cells)
        simp only [hc, bind_ok]
        split
        · exact reverseLoop_noPanic f _ c _ hs' hcv hpv
        · split <;> simp
      | _ => simp [VCell.asPtr]
    | _ => simp [VCell.asCar]

/-- the list builder of `vector->list` only allocates -/
theorem vecToListLoop_noPanic : ∀ (xs : List VCell) (s : Store) (tail : VCell),
    Outcome.NoPanic (vecToListLoop s xs tail)
  | [], s, tail => by simp [vecToListLoop]
  | x :: xs, s, tail => by
    unfold vecToListLoop
    simp only
    refine noPanic_bind (asPtr_noPanic _) (fun cp _ => ?_)
    refine noPanic_bind (asPtr_noPanic _) (fun tp _ => ?_)
    exact vecToListLoop_noPanic xs _ _

theorem collectCars_noPanic (hs : s.WF) : ∀ (f : Nat) (l : VCell) (acc : List VCell),
    VCell.Valid s l → Outcome.NoPanic (collectCars f s l acc)
  | 0, _, _, _ => by simp [collectCars]
  | f+1, l, acc, hl => by
    unfold collectCars
    split
    · cases l with
      | pair a d =>
        simp only [VCell.asCar_pair, VCell.asCdr_pair, bind_ok]
        obtain ⟨c, hc, hcv⟩ := get_valid hs (v := .ptr d) hl.2
        simp only [hc, bind_ok]
        exact collectCars_noPanic hs f c _ hcv
      | _ => simp_all [VCell.isPair]
    · simp

theorem mem_putRange : ∀ (vals xs : List VCell) (at_ : Nat) (y : VCell),
    y ∈ putRange xs at_ vals → y ∈ xs ∨ y ∈ vals
  | [], xs, at_, y, h => by simp [putRange] at h; exact .inl h
  | v :: vals, xs, at_, y, h => by
    unfold putRange at h
    rcases mem_putRange vals _ _ y h with h1 | h1
    · split at h1
      · rcases List.mem_or_eq_of_mem_set h1 with h2 | rfl
        · exact .inl h2
        · exact .inr (by simp)
      · exact .inl h1
    · exact .inr (by simp [h1])

theorem usub_noPanic_of_le {site : String} {a b : Nat} (h : b ≤ a) : usub site a b = .ok (a - b) := by
  simp [usub, h]

theorem popString_spec (hs : s.WF) {v : VCell} (hv : VCell.Valid s v) :
    (∃ id, popString s v = .ok id ∧ id < s.strs.length) ∨ ∃ e, popString s v = .err e := by
  obtain ⟨c, hc, hcv⟩ := get_valid hs hv
  unfold popString
  simp only [hc, bind_ok]
  split
  · rename_i id; exact .inl ⟨id, rfl, hcv⟩
  · exact .inr ⟨_, rfl⟩

theorem popChar_noPanic (hs : s.WF) {v : VCell} (hv : VCell.Valid s v) : Outcome.NoPanic (popChar s v) := by
  obtain ⟨c, hc, _⟩ := get_valid hs hv
  unfold popChar
  simp only [hc, bind_ok]
  split <;> simp

theorem popUsize_noPanic (hs : s.WF) {v : VCell} (hv : VCell.Valid s v) : Outcome.NoPanic (popUsize s v) := by
  obtain ⟨c, hc, _⟩ := get_valid hs hv
  unfold popUsize
  simp only [hc, bind_ok]
  split
  · unfold orErr; split <;> simp
  · simp

/-- pop a string and read its contents -/
theorem popStr_noPanic (hs : s.WF) {v : VCell} (hv : VCell.Valid s v) :
    Outcome.NoPanic (do let id ← popString s v; s.strGet id) := by
  rcases popString_spec hs hv with ⟨id, hid, hlt⟩ | ⟨e, he⟩
  · simp [hid, strGet_ok hlt]
  · simp [he]

theorem popStrings_noPanic (hs : s.WF) : ∀ (vs : List VCell), (∀ v ∈ vs, VCell.Valid s v) →
    Outcome.NoPanic (popStrings s vs)
  | [], _ => by simp [popStrings]
  | v :: vs, h => by
    unfold popStrings
    rcases popString_spec hs (h v (by simp)) with ⟨id, hid, hlt⟩ | ⟨e, he⟩
    · simp only [hid, bind_ok, strGet_ok hlt]
      refine noPanic_bind (popStrings_noPanic hs vs (fun x hx => h x (by simp [hx]))) (fun r _ => by simp)
    · simp [he]

theorem popChars_noPanic (hs : s.WF) : ∀ (vs : List VCell), (∀ v ∈ vs, VCell.Valid s v) →
    Outcome.NoPanic (popChars s vs)
  | [], _ => by simp [popChars]
  | v :: vs, h => by
    unfold popChars
    refine noPanic_bind (popChar_noPanic hs (h v (by simp))) (fun c _ => ?_)
    refine noPanic_bind (popChars_noPanic hs vs (fun x hx => h x (by simp [hx]))) (fun r _ => by simp)

theorem newStrRes_noPanic (s : Store) (t : Text) : Outcome.NoPanic (newStrRes s t) :=
  finish_noPanic (by simp)

theorem popRange_noPanic (hs : s.WF) {r : List VCell} (h : ∀ v ∈ r, VCell.Valid s v) :
    Outcome.NoPanic (popRange s r) ∧ ∀ a b, popRange s r = .ok (a, b) → (b.isSome → a.isSome) := by
  unfold popRange
  split
  · simp
  · rename_i st
    constructor
    · refine noPanic_bind (popIndex_noPanic hs (h st (by simp))) (fun b _ => by simp)
    · intro a b hab
      cases hp : popIndex s st <;> simp [hp] at hab
      simp [← hab.2]
  · rename_i st en
    constructor
    · refine noPanic_bind (popIndex_noPanic hs (h en (by simp))) (fun e _ => ?_)
      refine noPanic_bind (popIndex_noPanic hs (h st (by simp))) (fun b _ => by simp)
    · intro a b hab
      cases hp : popIndex s en <;> simp [hp] at hab
      cases hq : popIndex s st <;> simp [hq] at hab
      simp [← hab.1]
  · simp

/-- `char_substring_offset` + slicing never panic on the ranges `popRange` can produce -/
theorem substringC_noPanic (cs : Text) (a b : Option Nat) (hab : b.isSome → a.isSome) :
    Outcome.NoPanic (substringC cs a b) := by
  by_cases hv : ValidRange cs.length a b
  · rw [substringC_ok hv]; simp
  · cases a with
    | none =>
      cases b with
      | none => exact absurd ⟨by simp, by simp, by simp⟩ hv
      | some e => simp at hab
    | some st =>
      have hbad : ¬ (st ≤ b.getD cs.length ∧ b.getD cs.length ≤ cs.length) := by
        intro h; exact hv ⟨by simp, h.1, h.2⟩
      obtain ⟨e, he⟩ := substringC_err b hbad
      rw [he]; simp

theorem stringFillC_noPanic (cs : Text) (c : Char) (a b : Option Nat) (hab : b.isSome → a.isSome) :
    Outcome.NoPanic (stringFillC cs c a b) := by
  by_cases hv : ValidRange cs.length a b
  · rw [stringFillC_ok c hv]; simp
  · cases a with
    | none =>
      cases b with
      | none => exact absurd ⟨by simp, by simp, by simp⟩ hv
      | some e => simp at hab
    | some st =>
      have hbad : ¬ (st ≤ b.getD cs.length ∧ b.getD cs.length ≤ cs.length) := by
        intro h; exact hv ⟨by simp, h.1, h.2⟩
      obtain ⟨e, he⟩ := stringFillC_err c b hbad
      rw [he]; simp

theorem stringSetC_noPanic (cs : Text) (k : Nat) (c : Char) : Outcome.NoPanic (stringSetC cs k c) := by
  by_cases h : k < cs.length
  · rw [stringSetC_ok c h]; simp
  · rw [stringSetC_err c (Nat.le_of_not_gt h)]; simp

theorem stringRefC_noPanic (cs : Text) (k : Nat) : Outcome.NoPanic (stringRefC cs k) := by
  unfold stringRefC orErr; split <;> simp

/-- the list builder of `string->list` only allocates -/
theorem charListLoop_noPanic : ∀ (cs : List Char) (s : Store) (tail : VCell),
    Outcome.NoPanic (charListLoop s cs tail)
  | [], s, tail => by simp [charListLoop]
  | c :: cs, s, tail => by
    unfold charListLoop
    simp only
    refine noPanic_bind (asPtr_noPanic _) (fun cp _ => ?_)
    refine noPanic_bind (asPtr_noPanic _) (fun tp _ => ?_)
    exact charListLoop_noPanic cs _ _

theorem slotsToChars_noPanic (hs : s.WF) : ∀ (xs : List VCell), (∀ x ∈ xs, VCell.Valid s x) →
    Outcome.NoPanic (slotsToChars s xs)
  | [], _ => by simp [slotsToChars]
  | x :: xs, h => by
    unfold slotsToChars
    obtain ⟨c, hc, _⟩ := get_valid hs (h x (by simp))
    simp only [hc, bind_ok]
    split
    · refine noPanic_bind (slotsToChars_noPanic hs xs (fun y hy => h y (by simp [hy]))) (fun r _ => by simp)
    · simp

theorem collectChars_noPanic (hs : s.WF) : ∀ (f : Nat) (l : VCell) (acc : List Char),
    VCell.Valid s l → Outcome.NoPanic (collectChars f s l acc)
  | 0, _, _, _ => by simp [collectChars]
  | f+1, l, acc, hl => by
    unfold collectChars
    split
    · cases l with
      | pair a d =>
        simp only [VCell.asCar_pair, VCell.asCdr_pair, bind_ok]
        obtain ⟨c, hc, _⟩ := get_valid hs (v := .ptr a) hl.1
        simp only [hc, bind_ok]
        split
        · obtain ⟨c2, hc2, hcv2⟩ := get_valid hs (v := .ptr d) hl.2
          simp only [hc2, bind_ok]
          exact collectChars_noPanic hs f c2 _ hcv2
        · simp
      | _ => simp_all [VCell.isPair]
    · simp

theorem eqvCells_noPanic {l r : VCell} (hl : VCell.Valid s l) (hr : VCell.Valid s r) :
    Outcome.NoPanic (eqvCells s l r) := by
  unfold eqvCells
  split <;> try simp
  rename_i i j
  have hi : i < s.strs.length := hl
  have hj : j < s.strs.length := hr
  simp [strGet_ok hi, strGet_ok hj]

theorem eqv_noPanic (hs : s.WF) {l r : VCell} (hl : VCell.Valid s l) (hr : VCell.Valid s r) :
    Outcome.NoPanic (eqv s l r) := by
  unfold eqv derefArg
  split
  · simp
  · obtain ⟨cl, hcl, hvl⟩ := get_valid hs hl
    obtain ⟨cr, hcr, hvr⟩ := get_valid hs hr
    simp only [hcl, hcr, bind_ok]
    exact eqvCells_noPanic hvl hvr

/-- `equal?`'s three mutually recursive loops (after the repair dfd9e81), by induction on the fuel -/
theorem equalSeen_all_noPanic (hs : s.WF) : ∀ f : Nat,
    (∀ seen l r, VCell.Valid s l → VCell.Valid s r → Outcome.NoPanic (equalSeen f s seen l r)) ∧
    (∀ seen l r, VCell.Valid s l → VCell.Valid s r → Outcome.NoPanic (comparePairSeen f s seen l r)) ∧
    (∀ seen xs ys, xs.length = ys.length → (∀ x ∈ xs, VCell.Valid s x) → (∀ y ∈ ys, VCell.Valid s y) →
      Outcome.NoPanic (compareVectorSeen f s seen xs ys)) := by
  intro f
  induction f with
  | zero => exact ⟨fun _ _ _ _ _ => by simp [equalSeen], fun _ _ _ _ _ => by simp [comparePairSeen],
      fun _ _ _ _ _ _ => by simp [compareVectorSeen]⟩
  | succ f ih =>
    obtain ⟨ihE, ihP, ihV⟩ := ih
    refine ⟨?_, ?_, ?_⟩
    · intro seen l r hl hr
      unfold equalSeen
      refine noPanic_bind (eqv_noPanic hs hl hr) (fun b _ => ?_)
      split
      · simp
      · unfold derefArg
        obtain ⟨cl, hcl, hvl⟩ := get_valid hs hl
        obtain ⟨cr, hcr, hvr⟩ := get_valid hs hr
        simp only [hcl, hcr, bind_ok]
        split
        · split
          · simp
          · exact ihP _ _ _ hvl hvr
        · rename_i i j
          have hi : i < s.vecs.length := hvl
          have hj : j < s.vecs.length := hvr
          split
          · simp
          · simp only [vecGet_ok hi, vecGet_ok hj, bind_ok]
            split
            · simp
            · rename_i hne
              exact ihV _ _ _ (by simpa using hne) (vec_slots_valid hs hi) (vec_slots_valid hs hj)
        · rename_i i j
          have hi : i < s.strs.length := hvl
          have hj : j < s.strs.length := hvr
          simp [strGet_ok hi, strGet_ok hj]
        · exact noPanic_bind (eqv_noPanic hs hvl hvr) (fun _ _ => by simp)
    · intro seen l r hl hr
      unfold comparePairSeen
      split
      · exact ihE _ _ _ hl hr
      · cases l with
        | pair a d =>
          cases r with
          | pair a' d' =>
            simp only [VCell.asCar_pair, VCell.asCdr_pair, bind_ok]
            refine noPanic_bind (ihE _ _ _ (show VCell.Valid s (.ptr a) from hl.1)
              (show VCell.Valid s (.ptr a') from hr.1)) (fun b _ => ?_)
            obtain ⟨b, seen1⟩ := b
            simp only
            split
            · simp
            · obtain ⟨c1, h1, v1⟩ := get_valid hs (v := .ptr d) hl.2
              obtain ⟨c2, h2, v2⟩ := get_valid hs (v := .ptr d') hr.2
              simp only [h1, h2, bind_ok, VCell.asPtr_ptr]
              split
              · split
                · simp
                · exact ihP _ _ _ v1 v2
              · exact ihP _ _ _ v1 v2
          | _ => simp_all [VCell.isPair]
        | _ => simp_all [VCell.isPair]
    · intro seen xs ys hlen hx hy
      cases xs with
      | nil => simp [compareVectorSeen]
      | cons x xs' =>
        cases ys with
        | nil => simp at hlen
        | cons y ys' =>
          simp only [compareVectorSeen]
          refine noPanic_bind (ihE _ _ _ (hx x (by simp)) (hy y (by simp))) (fun b _ => ?_)
          obtain ⟨b, seen1⟩ := b
          simp only
          split
          · simp
          · exact ihV _ _ _ (by simpa using hlen) (fun z hz => hx z (by simp [hz]))
              (fun z hz => hy z (by simp [hz]))

/-- `Vm::equal` -/
theorem equal_noPanic (hs : s.WF) (f : Nat) {l r : VCell} (hl : VCell.Valid s l) (hr : VCell.Valid s r) :
    Outcome.NoPanic (equal f s l r) := by
  unfold equal
  exact noPanic_bind ((equalSeen_all_noPanic hs f).1 [] l r hl hr) (fun a _ => by obtain ⟨b, sn⟩ := a; simp)

end Marwood.Store
