import Marwood.Lemmas.CompileCorrect2Defs
/-!
# T01.3 stage 2 — single instructions: lexical loads and stores, CLOSURE, CALL of a closure, ENTER, RET
-/
namespace Marwood.Lemmas.CompileCorrect2
open Marwood Marwood.Vm Marwood.Lemmas.CompileCorrect

variable {H : Type} {ops : HeapOps H}

/-- `MOV <lexical slot j> %acc`: the value of the location the slot denotes -/
theorem step_mov_env_acc {s : MSt H} {j e n : Nat} {v : VCell} (hl : ops.isLambda s.heap s.ipL = true)
    (h0 : ops.fetch s.heap s.ipL s.ipO = some (.opcode .mov))
    (h1 : ops.fetch s.heap s.ipL (s.ipO + 1) = some (.lexEnvSlot j))
    (h2 : ops.fetch s.heap s.ipL (s.ipO + 2) = some .acc)
    (hd : Denotes ops s.heap s.ep j e n) (hv : ops.envGet s.heap e n = some v) (hnp : isEnvPtr v = false) :
    step ops s = .ok ({ s with acc := v, ipO := s.ipO + 3 }, false) := by
  unfold step
  rw [readOpcode_eq hl h0]
  simp only [ok_bind, loadOperand]
  rw [readOperand_eq (s := { s with ipO := s.ipO + 1 }) hl h1 (by intro o h; cases h)]
  simp only [ok_bind]
  rcases hd with hp | ⟨rfl, rfl, v', hv', _⟩
  · simp only [hp, hv, ok_bind, storeOperand]
    rw [readOperand_eq (s := { s with ipO := s.ipO + 1 + 1 }) hl h2 (by intro o h; cases h)]
    rfl
  · rw [hv] at hv'; cases hv'
    simp only [hv]
    cases v with
    | lexEnvPtr a b => simp [isEnvPtr] at hnp
    | _ =>
      simp only [ok_bind, storeOperand]
      rw [readOperand_eq (s := { s with ipO := s.ipO + 1 + 1 }) hl h2 (by intro o h; cases h)]
      rfl

/-- `MOV %acc <lexical slot j>`: the location the slot denotes is overwritten -/
theorem step_mov_acc_env {s : MSt H} {j e n : Nat} {h' : H} (hl : ops.isLambda s.heap s.ipL = true)
    (h0 : ops.fetch s.heap s.ipL s.ipO = some (.opcode .mov))
    (h1 : ops.fetch s.heap s.ipL (s.ipO + 1) = some .acc)
    (h2 : ops.fetch s.heap s.ipL (s.ipO + 2) = some (.lexEnvSlot j))
    (hd : Denotes ops s.heap s.ep j e n) (hp : ops.envPut s.heap e n s.acc = some h') :
    step ops s = .ok ({ s with heap := h', ipO := s.ipO + 3 }, false) := by
  unfold step
  rw [readOpcode_eq hl h0]
  simp only [ok_bind, loadOperand]
  rw [readOperand_eq (s := { s with ipO := s.ipO + 1 }) hl h1 (by intro o h; cases h)]
  simp only [ok_bind, storeOperand]
  rw [readOperand_eq (s := { s with ipO := s.ipO + 1 + 1 }) hl h2 (by intro o h; cases h)]
  simp only [ok_bind]
  rcases hd with hq | ⟨rfl, rfl, v', hv', hnp⟩
  · simp only [hq, hp]
    rfl
  · simp only [hv']
    cases v' with
    | lexEnvPtr a b => simp [isEnvPtr] at hnp
    | _ => simp only [hp]; rfl

/-- `CLOSURE` -/
theorem step_closure {s : MSt H} {lam : Nat} {h' : H} {cl : VCell} (hl : ops.isLambda s.heap s.ipL = true)
    (h0 : ops.fetch s.heap s.ipL s.ipO = some (.opcode .closureAcc))
    (hacc : s.acc = .ptr lam) (hm : ops.makeClosure s.heap lam s.ep s.bp s.stack = .ok (h', cl)) :
    step ops s = .ok ({ s with heap := h', acc := cl, ipO := s.ipO + 1 }, false) := by
  unfold step
  rw [readOpcode_eq hl h0]
  simp only [ok_bind, hacc, asPtr, hm]

/-- `CALL %acc`, `acc` is a closure: push `%ep` and the return address, jump to the lambda -/
theorem step_call_closure {s : MSt H} {lam env : Nat} (hl : ops.isLambda s.heap s.ipL = true)
    (h0 : ops.fetch s.heap s.ipL s.ipO = some (.opcode .callAcc))
    (hc : ops.callee s.heap s.acc = .closure lam env) :
    step ops s = .ok ({ s with stack := (s.stack.push (.envPtr s.ep)).push (.instrPtr s.ipL (s.ipO + 1)),
                               ipL := lam, ipO := 0 }, false) := by
  unfold step
  rw [readOpcode_eq hl h0]
  simp only [ok_bind, stepCall, hc]
  rfl

theorem stack_get_of {st : Stack} {i : Nat} {v : VCell} (h : st.cells[i]? = some v) : st.get i = .ok v := by
  unfold Stack.get; rw [h]

/-- `ENTER` in a closure's lambda -/
theorem step_enter_closure {s : MSt H} {lam env n : Nat} {h' : H} {a : Nat}
    (hl : ops.isLambda s.heap s.ipL = true)
    (h0 : ops.fetch s.heap s.ipL s.ipO = some (.opcode .enter))
    (hc : ops.callee s.heap s.acc = .closure lam env)
    (hi : ops.lambdaInfo s.heap lam = some ⟨n⟩)
    (hsp : 3 ≤ s.stack.sp) (hargc : s.stack.cells[s.stack.sp - 2]? = some (.argc n))
    (hm : ops.makeActivation s.heap lam env (s.stack.sp + 1 - 4) (s.stack.push (.basePtr s.bp)) = .ok (h', a)) :
    step ops s = .ok ({ s with heap := h', ep := a, stack := s.stack.push (.basePtr s.bp),
                               bp := s.stack.sp + 1 - 4, ipO := s.ipO + 1 }, false) := by
  unfold step
  rw [readOpcode_eq hl h0]
  simp only [ok_bind, stepEnter, hc, hi]
  have hoff : s.stack.getOffset (-2) = .ok (.argc n) := by
    unfold Stack.getOffset
    have h0' : (0 : Int) ≤ (s.stack.sp : Int) + -2 := by omega
    simp only [h0', if_true]
    have e : ((s.stack.sp : Int) + -2).toNat = s.stack.sp - 2 := by omega
    rw [e]
    exact stack_get_of hargc
  simp only [hoff, ok_bind, asArgc, ne_eq, not_true_eq_false, if_false, Stack.push_sp]
  have hu : usub (s.stack.sp + 1) 4 "enter: sp - 4" = .ok (s.stack.sp + 1 - 4) := by
    unfold usub
    have : 4 ≤ s.stack.sp + 1 := by omega
    simp [this]
  simp only [hu, ok_bind, hm]

/-- `RET` -/
theorem step_ret {s : MSt H} {n e l o b : Nat} (hl : ops.isLambda s.heap s.ipL = true)
    (h0 : ops.fetch s.heap s.ipL s.ipO = some (.opcode .ret))
    (h1 : s.stack.cells[s.bp + 1]? = some (.argc n)) (hn : n ≤ s.bp)
    (h2 : s.stack.cells[s.bp + 2]? = some (.envPtr e))
    (h3 : s.stack.cells[s.bp + 3]? = some (.instrPtr l o))
    (h4 : s.stack.cells[s.bp + 4]? = some (.basePtr b)) :
    step ops s = .ok ({ s with stack := { s.stack with sp := s.bp - n }, ep := e, ipL := l, ipO := o, bp := b },
      false) := by
  unfold step
  rw [readOpcode_eq hl h0]
  simp only [ok_bind, stepRet]
  have g1 : s.stack.get (s.bp + 1) = .ok (.argc n) := stack_get_of h1
  have g2 : ({ s.stack with sp := s.bp - n } : Stack).get (s.bp + 2) = .ok (.envPtr e) := stack_get_of h2
  have g3 : ({ s.stack with sp := s.bp - n } : Stack).get (s.bp + 3) = .ok (.instrPtr l o) := stack_get_of h3
  have g4 : ({ s.stack with sp := s.bp - n } : Stack).get (s.bp + 4) = .ok (.basePtr b) := stack_get_of h4
  have hu : usub s.bp n "ret: bp - n" = .ok (s.bp - n) := by unfold usub; simp [hn]
  simp only [g1, ok_bind, asArgc, hu, g2, asEp, g3, asIp, g4, asBp]

end Marwood.Lemmas.CompileCorrect2
