import Marwood.Lemmas.NumCmp
import Marwood.Num.Eqv
import Marwood.Spec.NumEqv
/-!
# The number arm of `Vm::eqv` computes R7RS `eqv?` on numbers

`eqvNum_spec`: for well-formed numbers in all 16 representation pairs `eqvNum a b = true ↔ eqvSpec a b`.
The exact/exact pairs are C09's `Cmp.eq_spec` (the `false` that `PartialEq for Number` gives for an
integer outside the i32 range against a `Ratio<i32>` is right, because a well-formed ratio that is an
integer has its value inside that range).
-/
namespace Marwood.Eqv
open Marwood Marwood.NumSpec Marwood.Cmp

theorem ext_exact {a : Num} (h : isExact a = true) : ∃ v, val a = some v ∧ ext a = some (.fin v) := by
  cases a
  case fix n => exact ⟨_, rfl, rfl⟩
  case big n => exact ⟨_, rfl, rfl⟩
  case rat n d => exact ⟨_, rfl, rfl⟩
  case flo f => cases h

/-- `==` on two exact well-formed numbers is equality of their values -/
theorem eq_exact_iff (a b : Num) (ha : a.WF = true) (hb : b.WF = true) (ea : isExact a = true)
    (eb : isExact b = true) : Cmp.eq a b = true ↔ val a = val b := by
  obtain ⟨va, hva, hea⟩ := ext_exact ea
  obtain ⟨vb, hvb, heb⟩ := ext_exact eb
  rw [eq_spec a b ha hb hea heb, hva, hvb]
  constructor
  · intro h; injection h with h; rw [h]
  · intro h; injection h with h; rw [h]

set_option linter.unusedTactic false in
theorem eqvNum_exact (a b : Num) (ea : isExact a = true) (eb : isExact b = true) :
    eqvNum a b = Cmp.eq a b := by
  cases a <;> cases b <;> first | rfl | (simp [isExact] at eb; done) | (simp [isExact] at ea; done)

theorem eqvSpec_exact (a b : Num) (ea : isExact a = true) (eb : isExact b = true) :
    eqvSpec a b ↔ val a = val b := by
  simp [eqvSpec, ea, eb]

theorem eqvNum_spec (a b : Num) (ha : a.WF = true) (hb : b.WF = true) :
    eqvNum a b = true ↔ eqvSpec a b := by
  by_cases ea : isExact a = true <;> by_cases eb : isExact b = true
  · rw [eqvNum_exact a b ea eb, eq_exact_iff a b ha hb ea eb, eqvSpec_exact a b ea eb]
  all_goals
    cases a <;> cases b <;> simp_all [eqvNum, eqvSpec, isExact, bitsOf]

theorem eqvNum_eq_specB (a b : Num) (ha : a.WF = true) (hb : b.WF = true) :
    eqvNum a b = eqvSpecB a b := by
  have h1 := eqvNum_spec a b ha hb
  have h2 := eqvSpecB_iff a b
  cases h : eqvNum a b <;> cases h' : eqvSpecB a b <;> simp_all

/-- no well-formedness needed: the same number (the same bits for a double, NaN included) -/
theorem eqvNum_refl (a : Num) : eqvNum a a = true := by
  cases a <;> simp [eqvNum, Cmp.eq, Arith.ratioCmp]

theorem ratioCmp_beq_eq (x y : Arith.Ratio) :
    (Arith.ratioCmp x y == Ordering.eq) = (x.1 * y.2 == y.1 * x.2) := by
  simp only [Arith.ratioCmp]
  by_cases h1 : x.1 * y.2 < y.1 * x.2
  · have : x.1 * y.2 ≠ y.1 * x.2 := Int.ne_of_lt h1
    simp [h1, this]
  · by_cases h2 : x.1 * y.2 = y.1 * x.2 <;> simp [h1, h2]

/-- no well-formedness needed -/
theorem eqvNum_symm (a b : Num) : eqvNum a b = eqvNum b a := by
  cases a <;> cases b <;> simp only [eqvNum, Cmp.eq, ratioCmp_beq_eq] <;>
    first
    | rfl
    | exact BEq.comm
    | (congr 1; exact BEq.comm)

theorem eqvSpec_trans {a b c : Num} (h1 : eqvSpec a b) (h2 : eqvSpec b c) : eqvSpec a c := by
  obtain ⟨e1, v1, b1⟩ := h1
  obtain ⟨e2, v2, b2⟩ := h2
  refine ⟨e1.trans e2, ?_, ?_⟩
  · intro ha hc
    have hb : isExact b = true := e1 ▸ ha
    exact (v1 ha hb).trans (v2 hb hc)
  · intro ha hc
    have hb : isExact b = false := e1 ▸ ha
    exact (b1 ha hb).trans (b2 hb hc)

theorem eqvNum_trans (a b c : Num) (ha : a.WF = true) (hb : b.WF = true) (hc : c.WF = true)
    (h1 : eqvNum a b = true) (h2 : eqvNum b c = true) : eqvNum a c = true :=
  (eqvNum_spec a c ha hc).mpr
    (eqvSpec_trans ((eqvNum_spec a b ha hb).mp h1) ((eqvNum_spec b c hb hc).mp h2))

/-! ## `equal?` on data with numeric leaves -/

theorem ntree_equal_num (leafEq : Num → Num → Bool) (x y : Num) :
    NTree.equal leafEq (.num x) (.num y) = leafEq x y := by
  simp [NTree.equal]

theorem ntree_equal_list2 (leafEq : Num → Num → Bool) (c x y : Num) (hc : leafEq c c = true) :
    NTree.equal leafEq (NTree.list [.num c, .num x]) (NTree.list [.num c, .num y]) = leafEq x y := by
  simp [NTree.equal, NTree.list, hc]

theorem ntree_equal_vec1 (leafEq : Num → Num → Bool) (x y : Num) :
    NTree.equal leafEq (.vec [.num x]) (.vec [.num y]) = leafEq x y := by
  simp [NTree.equal, NTree.equalAll]

mutual
theorem ntree_equal_refl (leafEq : Num → Num → Bool) (hr : ∀ x, leafEq x x = true) :
    ∀ t : NTree, NTree.equal leafEq t t = true
  | .num x => by simp [NTree.equal, hr]
  | .nil => by simp [NTree.equal]
  | .pair a d => by
    simp [NTree.equal, ntree_equal_refl leafEq hr a, ntree_equal_refl leafEq hr d]
  | .vec ts => by simp [NTree.equal, ntree_equalAll_refl leafEq hr ts]
theorem ntree_equalAll_refl (leafEq : Num → Num → Bool) (hr : ∀ x, leafEq x x = true) :
    ∀ ts : List NTree, NTree.equalAll leafEq ts ts = true
  | [] => by simp [NTree.equalAll]
  | t :: ts => by
    simp [NTree.equalAll, ntree_equal_refl leafEq hr t, ntree_equalAll_refl leafEq hr ts]
end

end Marwood.Eqv
