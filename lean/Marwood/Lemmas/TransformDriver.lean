import Marwood.Transform.Driver
import Marwood.Spec.ExpandAll
import Marwood.Lemmas.TransformEllClasses
/-!
# The expansion driver (`Transform.Driver`) against the R7RS reading (`Spec.ExpandAll`): lemmas for T17.3
-/
namespace Marwood.Transform
open Marwood Marwood.Spec.Match Marwood.Spec.ExpandAll

/-! ## bind -/

theorem Res.bind_eq_ok {α β} {x : Res α} {f : α → Res β} {b : β} :
    x.bind f = .ok b ↔ ∃ a, x = .ok a ∧ f a = .ok b := by
  cases x <;> simp [Res.bind]

theorem Res.bind_eq_fuel {α β} {x : Res α} {f : α → Res β} :
    x.bind f = .fuel ↔ x = .fuel ∨ ∃ a, x = .ok a ∧ f a = .fuel := by
  cases x <;> simp [Res.bind]

theorem XRes.bind_eq_ok {x : XRes} {f : Datum → XRes} {b : Datum} :
    x.bind f = .ok b ↔ ∃ a, x = .ok a ∧ f a = .ok b := by
  cases x <;> simp [XRes.bind]

@[simp] theorem XRes.bind_ok (a : Datum) (f : Datum → XRes) : (XRes.ok a).bind f = f a := rfl
@[simp] theorem Res.bind_ok' {α β} (a : α) (f : α → Res β) : (Res.ok a).bind f = f a := rfl

/-! ## the two copies of the reserved words -/

theorem headKind_sym (s : Text) :
    headKind (.sym s) =
      if s = Spec.ExpandAll.quoteN ∨ s = Spec.ExpandAll.defineSyntaxN then .asIs
      else if s = Spec.ExpandAll.quasiquoteN then .quasi else .other := rfl

theorem headKind_nonsym {hd : Datum} (h : ∀ s, hd ≠ .sym s) : headKind hd = .other := by
  cases hd <;> first | rfl | exact absurd rfl (h _)

theorem macroOf_nonsym (M : MacroTable) {hd : Datum} (h : ∀ s, hd ≠ .sym s) : macroOf M hd = none := by
  cases hd <;> first | rfl | exact absurd rfl (h _)

theorem isUnquote_iff (a : Datum) : isUnquote a = true ↔ a = .sym Spec.ExpandAll.unquoteN := by
  cases a <;> simp only [isUnquote, decide_eq_true_eq, reduceCtorEq, Bool.false_eq_true]
  exact ⟨fun h => by rw [h]; rfl, fun h => Datum.sym.inj h⟩

theorem isQuasiquote_iff (a : Datum) : isQuasiquote a = true ↔ a = .sym Spec.ExpandAll.quasiquoteN := by
  cases a <;> simp only [isQuasiquote, decide_eq_true_eq, reduceCtorEq, Bool.false_eq_true]
  exact ⟨fun h => by rw [h]; rfl, fun h => Datum.sym.inj h⟩

/-! ## the combinators, case by case -/

section
variable (M : MacroTable) (re : Datum → Res Datum)

theorem walkPair_nonsym {hd : Datum} (h : ∀ s, hd ≠ .sym s) (rest : Datum) (wh wl wq) :
    walkPair M re hd rest wh wl wq = (wh ()).bind fun h => (wl ()).bind fun r => .ok (.pair h r) := by
  simp only [walkPair, headKind_nonsym h, macroOf_nonsym M h]

/-- steps 3 and 4 for a symbol head -/
def genericSym (s : Text) (rest : Datum) (wh wl : Unit → Res Datum) : Res Datum :=
  match M.lookup s with
  | some t => expandUse re t (.pair (.sym s) rest)
  | none => (wh ()).bind fun h => (wl ()).bind fun r => .ok (.pair h r)

theorem headKind_asIs {s : Text} (h : s = Spec.ExpandAll.quoteN ∨ s = Spec.ExpandAll.defineSyntaxN) :
    headKind (.sym s) = .asIs := by rw [headKind_sym, if_pos h]

theorem headKind_quasi {s : Text} (h1 : ¬ (s = Spec.ExpandAll.quoteN ∨ s = Spec.ExpandAll.defineSyntaxN))
    (h2 : s = Spec.ExpandAll.quasiquoteN) : headKind (.sym s) = .quasi := by
  rw [headKind_sym, if_neg h1, if_pos h2]

theorem headKind_other {s : Text} (h1 : ¬ (s = Spec.ExpandAll.quoteN ∨ s = Spec.ExpandAll.defineSyntaxN))
    (h2 : s ≠ Spec.ExpandAll.quasiquoteN) : headKind (.sym s) = .other := by
  rw [headKind_sym, if_neg h1, if_neg h2]

theorem walkPair_asIs {s : Text} (h : s = Spec.ExpandAll.quoteN ∨ s = Spec.ExpandAll.defineSyntaxN)
    (rest : Datum) (wh wl wq) : walkPair M re (.sym s) rest wh wl wq = .ok (.pair (.sym s) rest) := by
  simp only [walkPair, headKind_asIs h]

theorem walkPair_quasi {s : Text} (h1 : ¬ (s = Spec.ExpandAll.quoteN ∨ s = Spec.ExpandAll.defineSyntaxN))
    (h2 : s = Spec.ExpandAll.quasiquoteN) (rest : Datum) (wh wl) (q : Unit → Res Datum) :
    walkPair M re (.sym s) rest wh wl (some q) = (q ()).bind fun r' => .ok (.pair (.sym s) r') := by
  simp only [walkPair, headKind_quasi h1 h2]

theorem walkPair_generic {s : Text} (h1 : ¬ (s = Spec.ExpandAll.quoteN ∨ s = Spec.ExpandAll.defineSyntaxN))
    (rest : Datum) (wh wl) (wq : Option (Unit → Res Datum)) (h2 : s ≠ Spec.ExpandAll.quasiquoteN ∨ wq = none) :
    walkPair M re (.sym s) rest wh wl wq = genericSym M re s rest wh wl := by
  by_cases h3 : s = Spec.ExpandAll.quasiquoteN
  · have hq : wq = none := by rcases h2 with h2 | h2; exact absurd h3 h2; exact h2
    subst hq
    simp only [walkPair, headKind_quasi h1 h3, macroOf, genericSym]
    rfl
  · simp only [walkPair, headKind_other h1 h3, macroOf, genericSym]
    rfl
end

/-! ### the specification's combinators -/

section
variable (sre : STable → Datum → XRes) (T : STable)

theorem sxPair_nonsym {hd : Datum} (h : ∀ s, hd ≠ .sym s) (rest : Datum) (xh xl xq xb) :
    sxPair sre T hd rest xh xl xq xb = (xh ()).bind fun h => (xl T).bind fun r => .ok (.pair h r) := by
  cases hd <;> first | rfl | exact absurd rfl (h _)

/-- a symbol-headed combination that is not reserved and not a quasiquote form -/
def generalSym (s : Text) (rest : Datum) (xh : Unit → XRes) (xl : STable → XRes)
    (xb : Option (Datum × (STable → XRes))) : XRes :=
  match T.lookup s with
  | some rs => (useOnce rs (.pair (.sym s) rest)).bind (sre T)
  | none =>
    if isBinder s then
      match xb with
      | some (target, body) =>
        (body (shadow T (symsOf target))).bind fun b => .ok (.pair (.sym s) (.pair target b))
      | none => .ok (.pair (.sym s) rest)
    else (xh ()).bind fun h => (xl T).bind fun r => .ok (.pair h r)

theorem sxPair_asIs {s : Text} (h : s = Spec.ExpandAll.quoteN ∨ s = Spec.ExpandAll.defineSyntaxN)
    (rest : Datum) (xh xl xq xb) : sxPair sre T (.sym s) rest xh xl xq xb = .ok (.pair (.sym s) rest) := by
  simp only [sxPair, h, if_true]

theorem sxPair_quasi {s : Text} (h1 : ¬ (s = Spec.ExpandAll.quoteN ∨ s = Spec.ExpandAll.defineSyntaxN))
    (h2 : s = Spec.ExpandAll.quasiquoteN) (rest : Datum) (xh xl) (q : Unit → XRes) (xb) :
    sxPair sre T (.sym s) rest xh xl (some q) xb = (q ()).bind fun r' => .ok (.pair (.sym s) r') := by
  simp only [sxPair, if_neg h1, if_pos h2]

theorem sxPair_general {s : Text} (h1 : ¬ (s = Spec.ExpandAll.quoteN ∨ s = Spec.ExpandAll.defineSyntaxN))
    (rest : Datum) (xh xl) (xq : Option (Unit → XRes)) (xb) (h2 : s ≠ Spec.ExpandAll.quasiquoteN ∨ xq = none) :
    sxPair sre T (.sym s) rest xh xl xq xb = generalSym sre T s rest xh xl xb := by
  by_cases h3 : s = Spec.ExpandAll.quasiquoteN
  · have hq : xq = none := by rcases h2 with h2 | h2; exact absurd h3 h2; exact h2
    subst hq
    simp only [sxPair, if_neg h1, if_pos h3, generalSym]
    rfl
  · simp only [sxPair, if_neg h1, if_neg h3, generalSym]
    rfl
end

section
variable (c : GuardSel) (gre : STable → Datum → Bool) (T : STable)

theorem gxPair_nonsym {hd : Datum} (h : ∀ s, hd ≠ .sym s) (rest : Datum) (gh gl gq gb) :
    gxPair c gre T hd rest gh gl gq gb = (gh () && gl ()) := by
  cases hd <;> first | rfl | exact absurd rfl (h _)

def guardSym (s : Text) (rest : Datum) (gh gl : Unit → Bool) (gb : Option (Datum × (Unit → Bool))) : Bool :=
  match T.lookup s with
  | some rs =>
    (!c.uses || useOK rs (.pair (.sym s) rest)) &&
      (match specExpand rs.ctx rs.rules (.pair (.sym s) rest) with
       | .ok e => gre T e
       | _ => true)
  | none =>
    if isBinder s then
      match gb with
      | some (target, body) => (!c.binders || !mentions T target) && body ()
      | none => true
    else gh () && gl ()

theorem gxPair_quasi {s : Text} (h1 : ¬ (s = Spec.ExpandAll.quoteN ∨ s = Spec.ExpandAll.defineSyntaxN))
    (h2 : s = Spec.ExpandAll.quasiquoteN) (rest : Datum) (gh gl) (q : Unit → Bool) (gb) :
    gxPair c gre T (.sym s) rest gh gl (some q) gb = q () := by
  simp only [gxPair, if_neg h1, if_pos h2]

theorem gxPair_general {s : Text} (h1 : ¬ (s = Spec.ExpandAll.quoteN ∨ s = Spec.ExpandAll.defineSyntaxN))
    (rest : Datum) (gh gl) (gq : Option (Unit → Bool)) (gb) (h2 : s ≠ Spec.ExpandAll.quasiquoteN ∨ gq = none) :
    gxPair c gre T (.sym s) rest gh gl gq gb = guardSym c gre T s rest gh gl gb := by
  by_cases h3 : s = Spec.ExpandAll.quasiquoteN
  · have hq : gq = none := by rcases h2 with h2 | h2; exact absurd h3 h2; exact h2
    subst hq
    simp only [gxPair, if_neg h1, if_pos h3, guardSym]
    rfl
  · simp only [gxPair, if_neg h1, if_neg h3, guardSym]
    rfl
end

/-! ## the specification's view of a macro table -/

/-- the table as `Spec.ExpandAll` reads it: every transformer through `ctxOf` / `specRules` -/
def specTable (M : MacroTable) : STable := M.map fun p => (p.1, (⟨ctxOf p.2, specRules p.2⟩ : Rules))

theorem lookup_specTable (M : MacroTable) (s : Text) :
    (specTable M).lookup s = (M.lookup s).map fun t => (⟨ctxOf t, specRules t⟩ : Rules) := by
  induction M with
  | nil => rfl
  | cons p M ih =>
    obtain ⟨k, t⟩ := p
    simp only [specTable, List.map_cons, List.lookup_cons] at ih ⊢
    cases h : s == k
    · exact ih
    · rfl

theorem lookup_none_of_mentions {M : MacroTable} {s : Text}
    (h : mentions (specTable M) (.sym s) = false) : M.lookup s = none := by
  simp only [mentions, lookup_specTable] at h
  cases hl : M.lookup s with
  | none => rfl
  | some t => rw [hl] at h; cases h

theorem dsize_pair (a d : Datum) : dsize (.pair a d) = dsize a + dsize d + 1 := rfl
theorem dsize_vec (e : Datum) : dsize (.vec e) = dsize e + 1 := rfl

/-! ## the optional parts -/

theorem walkQQHead_nonpair (M : MacroTable) (re : Datum → Res Datum) {d : Datum} (h : d.isPair = false) :
    walkQQHead M re d = none := by cases d <;> first | rfl | cases h
theorem walkUnq_nonpair (M : MacroTable) (re : Datum → Res Datum) {d : Datum} (h : d.isPair = false) :
    walkUnq M re d = none := by cases d <;> first | rfl | cases h
theorem sxQQHead_nonpair (sre : STable → Datum → XRes) (T : STable) {d : Datum} (h : d.isPair = false) :
    sxQQHead sre T d = none := by cases d <;> first | rfl | cases h
theorem sxUnq_nonpair (sre : STable → Datum → XRes) (T : STable) {d : Datum} (h : d.isPair = false) :
    sxUnq sre T d = none := by cases d <;> first | rfl | cases h
theorem sxBody_nonpair (sre : STable → Datum → XRes) {d : Datum} (h : d.isPair = false) :
    sxBody sre d = none := by cases d <;> first | rfl | cases h
theorem gxQQHead_nonpair (c : GuardSel) (gre : STable → Datum → Bool) (T : STable) {d : Datum}
    (h : d.isPair = false) : gxQQHead c gre T d = none := by cases d <;> first | rfl | cases h
theorem gxUnq_nonpair (c : GuardSel) (gre : STable → Datum → Bool) (T : STable) {d : Datum}
    (h : d.isPair = false) : gxUnq c gre T d = none := by cases d <;> first | rfl | cases h
theorem gxBody_nonpair (c : GuardSel) (gre : STable → Datum → Bool) (T : STable) {d : Datum}
    (h : d.isPair = false) : gxBody c gre T d = none := by cases d <;> first | rfl | cases h

theorem walkList_nonpair (M : MacroTable) (re : Datum → Res Datum) {d : Datum} (h : d.isPair = false) :
    walkList M re d = .ok d := by cases d <;> first | rfl | cases h
theorem sxList_nonpair (sre : STable → Datum → XRes) (T : STable) {d : Datum} (h : d.isPair = false) :
    sxList sre T d = .ok d := by cases d <;> first | rfl | cases h

theorem walk_nonpair (M : MacroTable) (re : Datum → Res Datum) {d : Datum} (h : d.isPair = false) :
    walk M re d = .ok d := by cases d <;> first | rfl | cases h
theorem walkQQSpine_nonpair (M : MacroTable) (re : Datum → Res Datum) (k : Nat) {d : Datum}
    (h : d.isPair = false) : walkQQSpine M re k d = .ok d := by cases d <;> first | rfl | cases h
theorem sx_nonpair (sre : STable → Datum → XRes) (T : STable) {d : Datum} (h : d.isPair = false) :
    sx sre T d = .ok d := by cases d <;> first | rfl | cases h
theorem sxQQVec_nonpair (sre : STable → Datum → XRes) (T : STable) (k : Nat) {d : Datum}
    (h : d.isPair = false) : sxQQVec sre T k d = .ok d := by cases d <;> first | rfl | cases h

def isVec : Datum → Bool
  | .vec _ => true
  | _ => false

theorem walkQQ_atom (M : MacroTable) (re : Datum → Res Datum) (k : Nat) {d : Datum}
    (h : d.isPair = false) (h' : isVec d = false) : walkQQ M re k d = .ok d := by
  cases d <;> first | rfl | (cases h; done) | cases h'
theorem sxQQ_atom (sre : STable → Datum → XRes) (T : STable) (k : Nat) {d : Datum}
    (h : d.isPair = false) (h' : isVec d = false) : sxQQ sre T k d = .ok d := by
  cases d <;> first | rfl | (cases h; done) | cases h'

/-! ## a datum that mentions no keyword is returned as it is -/

theorem walk_noMention_aux (M : MacroTable) (re : Datum → Res Datum) :
    ∀ n d, dsize d ≤ n → mentions (specTable M) d = false →
      walk M re d = .ok d ∧ walkList M re d = .ok d ∧
      (∀ k, walkQQ M re k d = .ok d) ∧ (∀ k, walkQQSpine M re k d = .ok d) := by
  intro n
  induction n with
  | zero =>
    intro d hd
    cases d <;> simp [dsize] at hd
  | succ n ih =>
    intro d hd hm
    cases d with
    | pair a r =>
      rw [dsize_pair] at hd
      simp only [mentions, Bool.or_eq_false_iff] at hm
      obtain ⟨ha1, ha2, ha3, ha4⟩ := ih a (by omega) hm.1
      obtain ⟨hr1, hr2, hr3, hr4⟩ := ih r (by omega) hm.2
      have hspine : ∀ k, walkQQSpine M re k (.pair a r) = .ok (.pair a r) := by
        intro k; simp only [walkQQSpine, ha3 k, hr4 k, Res.bind_ok']
      have hlist : walkList M re (.pair a r) = .ok (.pair a r) := by
        simp only [walkList, ha1, hr2, Res.bind_ok']
      refine ⟨?_, hlist, ?_, hspine⟩
      · -- walk
        rw [walk]
        by_cases hs : ∃ s, a = .sym s
        · obtain ⟨s, rfl⟩ := hs
          have hl := lookup_none_of_mentions hm.1
          by_cases h1 : s = Spec.ExpandAll.quoteN ∨ s = Spec.ExpandAll.defineSyntaxN
          · exact walkPair_asIs M re h1 _ _ _ _
          · have hgen : genericSym M re s r (fun _ => walk M re (.sym s)) (fun _ => walkList M re r)
                = .ok (.pair (.sym s) r) := by
              simp only [genericSym, hl, ha1, hr2, Res.bind_ok']
            by_cases h2 : s = Spec.ExpandAll.quasiquoteN
            · cases r with
              | pair tpl r' =>
                rw [dsize_pair] at hd
                simp only [mentions, Bool.or_eq_false_iff] at hm
                obtain ⟨_, _, ht3, _⟩ := ih tpl (by omega) hm.2.1
                rw [walkQQHead, walkPair_quasi M re h1 h2]
                simp only [ht3 0, Res.bind_ok']
              | _ =>
                rw [walkQQHead_nonpair M re rfl, walkPair_generic M re h1 _ _ _ _ (Or.inr rfl)]
                exact hgen
            · rw [walkPair_generic M re h1 _ _ _ _ (Or.inl h2)]
              exact hgen
        · have hns : ∀ s, a ≠ .sym s := fun s h => hs ⟨s, h⟩
          rw [walkPair_nonsym M re hns]
          simp only [ha1, hr2, Res.bind_ok']
      · -- walkQQ
        intro k
        rw [walkQQ]
        unfold walkQQPair
        by_cases hu : isUnquote a = true
        · simp only [hu, if_true]
          cases k with
          | zero =>
            cases r with
            | pair unq rest =>
              rw [dsize_pair] at hd
              simp only [mentions, Bool.or_eq_false_iff] at hm
              obtain ⟨hu1, _, _, _⟩ := ih unq (by omega) hm.2.1
              simp only [walkUnq, hu1, Res.bind_ok']
            | _ => rw [walkUnq_nonpair M re rfl]
          | succ k => simp only [ha3 k, hr4 k, Res.bind_ok']
        · simp only [hu, if_false, Bool.false_eq_true]
          simp only [ha3, hr4, Res.bind_ok']
    | vec e =>
      rw [dsize_vec] at hd
      simp only [mentions] at hm
      obtain ⟨_, _, _, he4⟩ := ih e (by omega) hm
      refine ⟨walk_nonpair M re rfl, walkList_nonpair M re rfl, ?_, fun k => walkQQSpine_nonpair M re k rfl⟩
      intro k
      rw [walkQQ]
      simp only [he4 k, Res.bind_ok']
    | _ =>
      exact ⟨walk_nonpair M re rfl, walkList_nonpair M re rfl, fun k => walkQQ_atom M re k rfl rfl,
        fun k => walkQQSpine_nonpair M re k rfl⟩

theorem walk_noMention (M : MacroTable) (re : Datum → Res Datum) (d : Datum)
    (h : mentions (specTable M) d = false) : walk M re d = .ok d :=
  (walk_noMention_aux M re (dsize d) d (Nat.le_refl _) h).1

/-! ## shadowing by names that are not keywords does nothing -/

theorem lookup_none_of_symsOf {T : STable} {d : Datum} (h : mentions T d = false) :
    ∀ s ∈ symsOf d, T.lookup s = none := by
  induction d with
  | sym x =>
    intro s hs
    simp only [symsOf, List.mem_singleton] at hs
    subst hs
    simp only [mentions] at h
    cases hl : T.lookup s with
    | none => rfl
    | some r => rw [hl] at h; cases h
  | pair a d iha ihd =>
    simp only [mentions, Bool.or_eq_false_iff] at h
    intro s hs
    simp only [symsOf, List.mem_append] at hs
    rcases hs with hs | hs
    · exact iha h.1 s hs
    · exact ihd h.2 s hs
  | vec e ih =>
    simp only [mentions] at h
    intro s hs
    simp only [symsOf] at hs
    exact ih h s hs
  | _ => intro s hs; simp [symsOf] at hs

theorem lookup_isSome_of_mem {T : STable} {p : Text × Rules} (h : p ∈ T) : (T.lookup p.1).isSome = true := by
  induction T with
  | nil => cases h
  | cons q T ih =>
    cases hq : p.1 == q.1 with
    | false =>
      rw [List.lookup_cons, hq]
      rcases List.mem_cons.mp h with h | h
      · subst h; simp at hq
      · exact ih h
    | true => rw [List.lookup_cons, hq]; rfl

theorem shadow_id {T : STable} {target : Datum} (h : mentions T target = false) :
    shadow T (symsOf target) = T := by
  unfold shadow
  rw [List.filter_eq_self]
  intro p hp
  have hn := lookup_none_of_symsOf h
  cases hc : (symsOf target).contains p.1
  · rfl
  · have := hn p.1 (List.contains_iff_mem.mp hc)
    have h2 := lookup_isSome_of_mem hp
    rw [this] at h2
    cases h2

/-! ## a cdr chain without `unquote` / `quasiquote` is its elements -/

theorem sxQQPair_plain {a d : Datum} (h1 : a ≠ .sym Spec.ExpandAll.unquoteN)
    (h2 : a ≠ .sym Spec.ExpandAll.quasiquoteN) (n : Nat) (qa qd qu) :
    sxQQPair a d n qa qd qu = (qa n).bind fun a' => (qd n).bind fun d' => .ok (.pair a' d') := by
  simp only [sxQQPair, if_neg h1, if_neg h2]

theorem sxQQ_eq_vec (sre : STable → Datum → XRes) (T : STable) (k : Nat) :
    ∀ d, spineOK d = true → sxQQ sre T k d = sxQQVec sre T k d := by
  intro d
  induction d with
  | pair x r _ ihr =>
    intro h
    simp only [spineOK, Bool.and_eq_true, Bool.not_eq_true', decide_eq_false_iff_not] at h
    rw [sxQQ, sxQQVec, sxQQPair_plain h.1.1 h.1.2, ihr h.2]
  | vec e _ => intro h; cases h
  | _ => intro _; rfl

/-! ## the template-pair combinators, case by case -/

theorem walkQQPair_unq0_some {a : Datum} (h : isUnquote a = true) (d wa ws) (u : Unit → Res Datum) :
    walkQQPair a d 0 wa ws (some u) = (u ()).bind fun d' => .ok (.pair a d') := by
  simp only [walkQQPair, h, if_true]
theorem walkQQPair_unq0_none {a : Datum} (h : isUnquote a = true) (d wa ws) :
    walkQQPair a d 0 wa ws none = .ok (.pair a d) := by
  simp only [walkQQPair, h, if_true]
theorem walkQQPair_unqS {a : Datum} (h : isUnquote a = true) (d) (m : Nat) (wa ws wu) :
    walkQQPair a d (m + 1) wa ws wu = (wa m).bind fun a' => (ws m).bind fun d' => .ok (.pair a' d') := by
  simp only [walkQQPair, h, if_true]
theorem walkQQPair_quasi {a : Datum} (h : isUnquote a = false) (h' : isQuasiquote a = true) (d) (k : Nat)
    (wa ws wu) :
    walkQQPair a d k wa ws wu =
      (wa (k + 1)).bind fun a' => (ws (k + 1)).bind fun d' => .ok (.pair a' d') := by
  simp only [walkQQPair, h, h', if_true, Bool.false_eq_true, if_false]
theorem walkQQPair_plain {a : Datum} (h : isUnquote a = false) (h' : isQuasiquote a = false) (d) (k : Nat)
    (wa ws wu) :
    walkQQPair a d k wa ws wu = (wa k).bind fun a' => (ws k).bind fun d' => .ok (.pair a' d') := by
  simp only [walkQQPair, h, h', Bool.false_eq_true, if_false]

theorem sxQQPair_unq0_some {a : Datum} (h : a = .sym Spec.ExpandAll.unquoteN) (d qa qd) (u : Unit → XRes) :
    sxQQPair a d 0 qa qd (some u) = (u ()).bind fun d' => .ok (.pair a d') := by
  simp only [sxQQPair, h, if_true]
theorem sxQQPair_unq0_none {a : Datum} (h : a = .sym Spec.ExpandAll.unquoteN) (d qa qd) :
    sxQQPair a d 0 qa qd none = .ok (.pair a d) := by
  simp only [sxQQPair, h, if_true]
theorem sxQQPair_unqS {a : Datum} (h : a = .sym Spec.ExpandAll.unquoteN) (d) (m : Nat) (qa qd qu) :
    sxQQPair a d (m + 1) qa qd qu = (qd m).bind fun d' => .ok (.pair a d') := by
  simp only [sxQQPair, h, if_true]
theorem sxQQPair_quasi {a : Datum} (h : a ≠ .sym Spec.ExpandAll.unquoteN)
    (h' : a = .sym Spec.ExpandAll.quasiquoteN) (d) (k : Nat) (qa qd qu) :
    sxQQPair a d k qa qd qu = (qd (k + 1)).bind fun d' => .ok (.pair a d') := by
  simp only [sxQQPair, if_neg h, if_pos h']

section
variable (c : GuardSel)
theorem gxQQPair_unq0_some {a : Datum} (h : a = .sym Spec.ExpandAll.unquoteN) (d ga gd) (u : Unit → Bool) :
    gxQQPair c a d 0 ga gd (some u) = u () := by
  simp only [gxQQPair, h, if_true]
theorem gxQQPair_unqS {a : Datum} (h : a = .sym Spec.ExpandAll.unquoteN) (d) (m : Nat) (ga gd gu) :
    gxQQPair c a d (m + 1) ga gd gu = ((!c.templates || spineOK d) && gd m) := by
  simp only [gxQQPair, h, if_true]
theorem gxQQPair_quasi {a : Datum} (h : a ≠ .sym Spec.ExpandAll.unquoteN)
    (h' : a = .sym Spec.ExpandAll.quasiquoteN) (d) (k : Nat) (ga gd gu) :
    gxQQPair c a d k ga gd gu = ((!c.templates || spineOK d) && gd (k + 1)) := by
  simp only [gxQQPair, if_neg h, if_pos h']
theorem gxQQPair_plain {a : Datum} (h : a ≠ .sym Spec.ExpandAll.unquoteN)
    (h' : a ≠ .sym Spec.ExpandAll.quasiquoteN) (d) (k : Nat) (ga gd gu) :
    gxQQPair c a d k ga gd gu = ((!c.templates || spineOK d) && ga k && gd k) := by
  simp only [gxQQPair, if_neg h, if_neg h']
end

theorem isUnquote_false {a : Datum} (h : a ≠ .sym Spec.ExpandAll.unquoteN) : isUnquote a = false := by
  cases h' : isUnquote a
  · rfl
  · exact absurd ((isUnquote_iff a).mp h') h

theorem isQuasiquote_false {a : Datum} (h : a ≠ .sym Spec.ExpandAll.quasiquoteN) : isQuasiquote a = false := by
  cases h' : isQuasiquote a
  · rfl
  · exact absurd ((isQuasiquote_iff a).mp h') h

end Marwood.Transform
