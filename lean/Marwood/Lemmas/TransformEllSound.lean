import Marwood.Lemmas.TransformEllShape
import Marwood.Lemmas.TransformEllExpand2
import Marwood.Lemmas.TransformSoundPlain
/-!
# Soundness of `transform` for transformers with ellipses at depth ≤ 1 (classes 2–5 of T17.1)
-/
namespace Marwood.Transform
open Marwood Marwood.Spec.Match

/-- from a match of the spec and the flattened bindings of the matcher to `Corr` -/
theorem corr_of_match (s : Setup) (pat : Pattern) (body urest : Datum) (B : Bindings) (bs : Binds)
    (hvars : pat.variables = (patVars s.ctx body).map Datum.sym)
    (hnd : (patVars s.ctx body).Nodup)
    (hexp : ∀ x, pat.isExpandedVariable (.sym x) = decide (x ∈ ellVars s.ctx body))
    (hnn : nn s.es body = true)
    (hm : specMatch s.ctx body urest = some bs) (hfl : Flat B bs) :
    Corr pat (ellVars s.ctx body) B bs := by
  have hk := specMatch_keys _ _ _ _ hm
  have hkn : (bs.map Prod.fst).Nodup := by rw [hk]; exact hnd
  have hshape := shape_of_match s body urest bs hnn hnd hm
  have hvar : ∀ x, pat.isVariable (.sym x) = decide (x ∈ patVars s.ctx body) := by
    intro x; simp only [Pattern.isVariable, hvars, anySym_mem]
  refine ⟨hexp, ?_, ?_, ?_⟩
  · intro x hx
    rw [hvar] at hx
    have hx' : x ∉ patVars s.ctx body := by simpa using hx
    exact ⟨lookup_none_of_not_mem x bs (by rw [hk]; exact hx'), fun h => hx' (ellVars_sub _ _ x h)⟩
  · intro x hx hnev
    rw [hvar] at hx
    have hx' : x ∈ patVars s.ctx body := by simpa using hx
    obtain ⟨t, ht⟩ := lookup_some_of_mem_keys x bs (by rw [hk]; exact hx')
    obtain ⟨d, hd⟩ := (hshape x t (lookup_mem x bs t ht)).2 hnev
    subst hd
    refine ⟨d, ht, ?_⟩
    rw [hfl x, projS_lookup x bs hkn _ ht]; rfl
  · intro x hxev
    have hx' : x ∈ patVars s.ctx body := ellVars_sub _ _ x hxev
    refine ⟨by rw [hvar]; simpa using hx', ?_⟩
    obtain ⟨t, ht⟩ := lookup_some_of_mem_keys x bs (by rw [hk]; exact hx')
    obtain ⟨ds, hds⟩ := (hshape x t (lookup_mem x bs t ht)).1 hxev
    subst hds
    rw [hfl x, projS_lookup x bs hkn _ ht, leaves_many_one]
    exact ht

/-- class predicate of one rule: ellipsis depth ≤ 1 in the pattern (`nn`), template in class `tP`
    for the ellipsis variables of the pattern -/
def ruleD1 (c : Ctx) (r : Pattern × Datum) : Bool :=
  match r.1.expr with
  | .pair _ body => nn c.ellipsis body && tP c.ellipsis (ellVars c body) r.2
  | _ => false

theorem transformRules_d1 (s : Setup) (f f0 : Nat) (t : Transform) (u : Datum)
    (hte : t.ellipsis = s.ell) (htl : t.literals = s.lits) :
    ∀ (rules : List (Pattern × Datum)) (e : Datum),
      (∀ r ∈ rules, RuleOK f0 s.ell s.lits r ∧ ruleD1 s.ctx r = true) →
      (∀ r ∈ rules, zeroRepTailRule s.ctx ⟨r.1.expr, r.2⟩ u = false) →
      transformRules f t u rules = .ok e →
      Sound s.ctx (rules.map fun r => ⟨r.1.expr, r.2⟩) u e := by
  intro rules
  induction rules with
  | nil => intro e _ _ h; simp [transformRules] at h
  | cons r rules ih =>
    intro e hr hgap h
    obtain ⟨pat, tmpl⟩ := r
    obtain ⟨hok, hd1⟩ := hr (pat, tmpl) (by simp)
    have hg := hgap (pat, tmpl) (by simp)
    simp only at hg
    obtain ⟨kw, body, hpe, hvars, hnd, hexp, _⟩ := ruleOK_build s hok
    simp only at hpe hvars hnd hexp
    have hwf := ruleOK_wfPattern s hok
    simp only [hpe, wfPattern, Bool.and_eq_true] at hwf
    obtain ⟨hbody, hhead⟩ := hwf
    have hhd : headNotEll s.ctx body = true := by
      cases body with
      | pair q R => simp only [decide_eq_true_eq] at hhead; simp [headNotEll, s.isEllD_eq, Setup.ell, hhead]
      | _ => rfl
    simp only [ruleD1, hpe, Bool.and_eq_true] at hd1
    have hnn : nn s.es body = true := hd1.1
    have htP : tP s.es (ellVars s.ctx body) tmpl = true := hd1.2
    unfold transformRules at h
    simp only [hpe, cdrE] at h
    cases u with
    | pair ukw urest =>
      simp only [cdrE] at h
      rw [hte, htl] at h
      have hmr : matchRule s.ctx ⟨pat.expr, tmpl⟩ (.pair ukw urest) = specMatch s.ctx body urest := by
        simp [matchRule, hpe]
      have hgr : zeroRepTail s.ctx body urest = false := by
        simpa [zeroRepTailRule, hpe] using hg
      cases hm : patternMatch s.ell s.lits f body urest [] with
      | ok r1 =>
        obtain ⟨b, B⟩ := r1
        rw [hm] at h
        cases b with
        | true =>
          simp only at h
          obtain ⟨bs, hbs, hfl⟩ := patternMatch_binds s f body urest B hbody hhd hnd hm
          have hc := corr_of_match s pat body urest B bs hvars hnd hexp hnn hbs hfl
          cases hx : expand s.ell pat f tmpl (PEnv.new pat B) with
          | ok r2 =>
            obtain ⟨o, env'⟩ := r2
            rw [hx] at h
            cases o with
            | some cexp =>
              simp only at h
              cases h
              refine ⟨0, ⟨pat.expr, tmpl⟩, bs, by simp, by rw [hmr]; exact hbs, by intro j hj; omega, ?_⟩
              rcases (expand_groups s pat (ellVars s.ctx body) B bs hc f).1 tmpl e env' htP hx with hmis | ⟨_, hi⟩
              · right; exact hmis
              · left; exact hi
            | none => cases h
          | err x => rw [hx] at h; cases h
          | panic m => rw [hx] at h; cases h
          | fuel => rw [hx] at h; cases h
        | false =>
          simp only at h
          have hv := (match_verdict_aux s f).1 body urest [] (false, B) hbody hhd hm
          have hnone : specMatch s.ctx body urest = none := by
            rcases hv.2 rfl with h2 | h2
            · simpa [sm] using h2
            · rw [gp, hgr] at h2; cases h2
          have := ih e (fun r hr' => hr r (List.mem_cons_of_mem _ hr'))
            (fun r hr' => hgap r (List.mem_cons_of_mem _ hr')) h
          simp only [List.map_cons]
          exact Sound.shift (by rw [hmr]; exact hnone) this
      | err x => rw [hm] at h; cases h
      | panic m => rw [hm] at h; cases h
      | fuel => rw [hm] at h; cases h
    | _ => simp [cdrE] at h

end Marwood.Transform
