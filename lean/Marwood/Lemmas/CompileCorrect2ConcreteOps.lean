import Marwood.Lemmas.CompileCorrect2ConcreteRep
/-!
# T01.3 stage 2 on the concrete heap — CLOSURE, ENTER and assignment as the laws describe them

`Vm/ConcreteHeap.lean` implements `build_closure_environment` (`closureSlots`) and `build_lexical_environment`
(`activationSlots`) as run.rs does. Here: what they compute (`closureSlots_ok`, `activationSlots_ok`), and how
lexical environments behave under an allocation (`envAt_alloc_*`).
-/
namespace Marwood.Lemmas.CompileCorrect2.Conc
open Marwood Marwood.Vm Marwood.Vm.Concrete Marwood.Lemmas.CompileCorrect Marwood.Lemmas.CompileCorrect2
open Marwood.Spec.Eval (Val Cell)

variable {ext : ExtOps}

theorem envGet_eq (h : CHeap) (e k : Nat) : (concreteOps ext).envGet h e k = Concrete.envGet h e k := rfl

theorem envGet_some {h : CHeap} {e k : Nat} {g : VCell} (x : Concrete.envGet h e k = some g) :
    ∃ ss, envAt h e = some ss ∧ ss[k]? = some g := by
  unfold Concrete.envGet at x
  cases he : envAt h e with
  | none => rw [he] at x; cases x
  | some ss => rw [he] at x; exact ⟨ss, rfl, x⟩

/-- `build_closure_environment`: every slot is what `cloSlot` says -/
theorem closureSlots_ok (h : CHeap) (ep bp : Nat) (st : Stack) :
    ∀ (em : List (VCell × Concrete.Source)),
    (∀ (j : Nat) k, (em.map fun p => conv p.2)[j]? = some (RSrc.iofEnv k) → ∃ g, Concrete.envGet h ep k = some g) →
    (∀ (j : Nat) n, (em.map fun p => conv p.2)[j]? ≠ some (RSrc.iofArg n)) →
    closureSlots h ep bp st em = .ok (em.map fun p => cloSlot (concreteOps ext) h ep (conv p.2)) := by
  intro em
  induction em with
  | nil => intro _ _; rfl
  | cons q em ih =>
    intro h1 h2
    obtain ⟨x, src⟩ := q
    have ih' := ih (fun j k hj => h1 (j + 1) k (by simpa using hj)) (fun j n hj => h2 (j + 1) n (by simpa using hj))
    simp only [closureSlots, List.map_cons]
    have hslot : closureSlot h ep bp st src = .ok (cloSlot (concreteOps ext) h ep (conv src)) := by
      cases src with
      | iofArg n => exact absurd rfl (h2 0 n)
      | iofEnv k =>
        obtain ⟨g, hg⟩ := h1 0 k rfl
        obtain ⟨ss, he, hk⟩ := envGet_some hg
        have hg' : (concreteOps ext).envGet h ep k = some g := hg
        simp only [closureSlot, he, hk, conv, cloSlot, hg']
        cases g <;> rfl
      | global => rfl
      | arg n => rfl
      | internal => rfl
    rw [hslot, ih']
    rfl

/-- `build_lexical_environment`: arguments from the stack, captured entries copied, the rest cloned -/
theorem activationSlots_ok (env bp argc : Nat) (st : Stack) :
    ∀ (em : List (VCell × Concrete.Source)) (slot : Nat) (olds : List VCell), em.length ≤ olds.length →
    (∀ (j : Nat) i, (em.map fun p => conv p.2)[j]? = some (RSrc.arg i) →
      i < argc ∧ argc - i ≤ bp ∧ bp - (argc - i) + 1 < st.cells.length) →
    ∃ slots, activationSlots env bp argc st slot olds em = .ok slots ∧
      (∀ (j : Nat) i v, (em.map fun p => conv p.2)[j]? = some (RSrc.arg i) →
        st.cells[bp - (argc - i) + 1]? = some v → slots[j]? = some v) ∧
      (∀ (j : Nat) k, (em.map fun p => conv p.2)[j]? = some (RSrc.iofEnv k) →
        slots[j]? = some (actCaptured env (slot + j) olds[j]?)) := by
  intro em
  induction em with
  | nil =>
    intro slot olds _ _
    refine ⟨olds, ?_, (by intro j i v hj; simp at hj), (by intro j k hj; simp at hj)⟩
    cases olds <;> rfl
  | cons q em ih =>
    intro slot olds hlen h1
    obtain ⟨x, src⟩ := q
    cases olds with
    | nil => simp at hlen
    | cons old olds =>
      obtain ⟨slots, hs, r1, r2⟩ := ih (slot + 1) olds (by simpa using hlen)
        (fun j i hj => h1 (j + 1) i (by simpa using hj))
      have hslot : ∃ v0, activationSlot env bp argc st slot old src = .ok v0 ∧
          (∀ i v, conv src = RSrc.arg i → st.cells[bp - (argc - i) + 1]? = some v → v0 = v) ∧
          (∀ k, conv src = RSrc.iofEnv k → v0 = actCaptured env slot (some old)) := by
        cases src with
        | iofArg n =>
          refine ⟨actCaptured env slot (some old), ?_, (by intro i v hc; cases hc), (by intro k hc; cases hc)⟩
          simp only [activationSlot, actCaptured]
          cases old <;> rfl
        | iofEnv k =>
          refine ⟨actCaptured env slot (some old), ?_, (by intro i v hc; cases hc), fun _ _ => rfl⟩
          simp only [activationSlot, actCaptured]
          cases old <;> rfl
        | global => exact ⟨old, rfl, (by intro i v hc; cases hc), (by intro k hc; cases hc)⟩
        | internal => exact ⟨old, rfl, (by intro i v hc; cases hc), (by intro k hc; cases hc)⟩
        | arg n =>
          obtain ⟨a1, a2, a3⟩ := h1 0 n rfl
          have hget : st.get (bp - (argc - n) + 1) = .ok (st.cells[bp - (argc - n) + 1]'a3) := by
            unfold Stack.get; rw [List.getElem?_eq_getElem a3]
          refine ⟨st.cells[bp - (argc - n) + 1]'a3, ?_, ?_, (by intro k hc; cases hc)⟩
          · simp only [activationSlot, usub]
            have e1 : n ≤ argc := by omega
            simp only [e1, if_true, ok_bind, a2, hget]
          · intro i v hc hv
            cases hc
            rw [List.getElem?_eq_getElem a3] at hv
            exact Option.some.inj hv
      obtain ⟨v0, hv0, p1, p2⟩ := hslot
      refine ⟨v0 :: slots, ?_, ?_, ?_⟩
      · simp only [activationSlots, hv0, ok_bind, hs]
      · intro j i v hj hv
        cases j with
        | zero =>
          simp at hj
          rw [p1 i v hj hv]; rfl
        | succ j => simpa using r1 j i v (by simpa using hj) hv
      · intro j k hj
        cases j with
        | zero =>
          simp at hj
          rw [p2 k hj]; rfl
        | succ j =>
          have := r2 j k (by simpa using hj)
          simp only [List.getElem?_cons_succ]
          rw [this, show slot + 1 + j = slot + (j + 1) by omega]

/-! ## lexical environments under an allocation -/

theorem envAt_alloc_other {h h' : CHeap} {p : Nat} {c : CCell} (a : Alloc h h' p c) (hc : ∀ ss, c ≠ CCell.lexEnv ss)
    (e : Nat) : envAt h' e = envAt h e := by
  cases he : envAt h e with
  | some ss => exact envAt_of_cell (a.kept (envAt_cell he) (by intro x; cases x))
  | none =>
    cases he' : envAt h' e with
    | none => rfl
    | some ss' =>
      exfalso
      rcases a.onlyNew (envAt_cell he') (by intro x; cases x) with h1 | h1
      · subst h1
        have := a.cell
        rw [envAt_cell he'] at this
        exact hc ss' (Option.some.inj this).symm
      · rw [envAt_of_cell h1] at he; cases he

theorem envAt_alloc_env {h h' : CHeap} {p : Nat} {ss0 : List VCell} (a : Alloc h h' p (CCell.lexEnv ss0)) (e : Nat)
    (hne : e ≠ p) : envAt h' e = envAt h e := by
  cases he : envAt h e with
  | some ss => exact envAt_of_cell (a.kept (envAt_cell he) (by intro x; cases x))
  | none =>
    cases he' : envAt h' e with
    | none => rfl
    | some ss' =>
      exfalso
      rcases a.onlyNew (envAt_cell he') (by intro x; cases x) with h1 | h1
      · exact hne h1
      · rw [envAt_of_cell h1] at he; cases he

theorem envAt_fresh {h h' : CHeap} {p : Nat} {c : CCell} (a : Alloc h h' p c) : envAt h p = none := by
  cases he : envAt h p with
  | none => rfl
  | some ss => have := a.unused (envAt_cell he); cases this

theorem envGet_of_envAt {h h' : CHeap} {e e' : Nat} (x : envAt h' e' = envAt h e) (k : Nat) :
    Concrete.envGet h' e' k = Concrete.envGet h e k := by
  unfold Concrete.envGet; rw [x]

end Marwood.Lemmas.CompileCorrect2.Conc
