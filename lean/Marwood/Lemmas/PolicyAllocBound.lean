import Marwood.Lemmas.MachineGarbage
import Marwood.Lemmas.PolicyRun
/-!
# One instruction allocates a constant number of heap cells (C12, the parameter `A` of T12.3)

First section, generic in the heap type (the graded form of `Lemmas/MachineGarbage.step_rel`): if a relation
`R h h' k` — "`h'` comes from `h` by at most `k` allocations" — is respected by every state-changing field of
`HeapOps` with the grade that field allocates (`put` / `maybe_put` / `newCont` 1, `makeClosure` 2,
`makeActivation` 1, writes 0; the unmodelled operations with the grade given by three cost functions), then one
instruction of `run_one` respects it with the grade `opAlloc op + extraOf … s op`:

* `opAlloc` — the constant of the opcode: CONS 3, CLOSURE 2, ENTER 1, CALL / TCALL 2 (call/cc: the continuation
  and the boxed result; `apply`: the boxed result; closures and continuations: none), VARARG 3, everything else 0;
* `extraOf` — what only the unmodelled operations and the rest-argument list add: the cost of the generic
  builtin / of `eval`'s compiler called by a CALL / TCALL, of VPUSH's push, and `2 · argc` for VARARG;
  `0` for every other instruction (`extraOf_nonExt`).

Second section: the concrete machine (`Vm/ConcreteHeap.lean`). `R` is "`HInv` is kept and the erased heap goes from
`toHeap h` to `toHeap h'` by exactly `j ≤ k` steps `Heap.alloc` and counter-preserving edits" (`AllocsLe`, in the
vocabulary of `Lemmas/PolicyRun.HRun`), so the count is the number of `.alloc` operations of the policy
specification between two collection points — the `A` of T12.3.
-/
namespace Marwood.Vm
variable {H : Type} {ops : HeapOps H} {R : H → H → Nat → Prop}
  {cb : H → Nat → List VCell → Nat} {cc : H → VCell → Nat} {cv : H → VCell → VCell → Nat}

/-- cells one instruction allocates at most, by opcode, not counting the unmodelled operations and the
    rest-argument list -/
def opAlloc : Op → Nat
  | .cons => 3
  | .closureAcc => 2
  | .enter => 1
  | .callAcc => 2
  | .tcallAcc => 2
  | .varArg => 3
  | _ => 0

/-- the largest of them -/
def maxOpAlloc : Nat := 3

theorem opAlloc_le (op : Op) : opAlloc op ≤ maxOpAlloc := by cases op <;> decide

/-- the arguments a generic builtin is about to pop: `argc`, then that many cells -/
def genericArgs (s : St H) : Option (List VCell) :=
  match s.stack.pop with
  | .ok (a, st) =>
    match asArgc a with
    | .ok argc =>
      match popN argc st with
      | .ok (args, _) => some args
      | _ => none
    | _ => none
  | _ => none

/-- the expression `eval` is about to pop (below `argc`) -/
def evalArg (s : St H) : Option VCell :=
  match s.stack.pop with
  | .ok (_, st) =>
    match st.pop with
    | .ok (e, _) => some e
    | _ => none
  | _ => none

/-- what the unmodelled operation called by a builtin procedure may allocate -/
def builtinExtra (ops : HeapOps H) (cb : H → Nat → List VCell → Nat) (cc : H → VCell → Nat) (s : St H) (id : Nat) : Nat :=
  match ops.builtinKind s.heap id with
  | .generic => match genericArgs s with
    | some args => cb s.heap id args
    | none => 0
  | .eval => match evalArg s with
    | some e => cc s.heap (ops.deref s.heap e)
    | none => 0
  | _ => 0

def calleeExtra (ops : HeapOps H) (cb : H → Nat → List VCell → Nat) (cc : H → VCell → Nat) (s : St H) : Nat :=
  match ops.callee s.heap s.acc with
  | .builtin id => builtinExtra ops cb cc s id
  | _ => 0

/-- **what one instruction allocates beyond the constant of its opcode**, as a function of the state before
    it: the cost of the unmodelled operation it calls (generic builtin, `eval`'s compiler, VPUSH), `2 · argc`
    for VARARG (the rest-argument list: a pair and at most a box per collected argument), `0` otherwise -/
def extraOf (ops : HeapOps H) (cb : H → Nat → List VCell → Nat) (cc : H → VCell → Nat) (cv : H → VCell → VCell → Nat)
    (s : St H) : Op → Nat
  | .vpushAcc => match s.stack.pop with
    | .ok (v, _) => cv s.heap (ops.deref s.heap v) s.acc
    | _ => 0
  | .varArg => match s.stack.getOffset (-2) with
    | .ok (.argc n) => 2 * n
    | _ => 0
  | .callAcc => calleeExtra ops cb cc s
  | .tcallAcc => calleeExtra ops cb cc s
  | _ => 0

/-- an instruction that calls no unmodelled operation and builds no rest-argument list -/
def NonExt (ops : HeapOps H) (s : St H) (op : Op) : Prop :=
  op ≠ .vpushAcc ∧ op ≠ .varArg ∧
  ∀ id, ops.callee s.heap s.acc = .builtin id →
    ops.builtinKind s.heap id = .apply ∨ ops.builtinKind s.heap id = .callcc

theorem extraOf_nonExt {s : St H} {op : Op} (h : NonExt ops s op) : extraOf ops cb cc cv s op = 0 := by
  obtain ⟨h1, h2, h3⟩ := h
  have hc : calleeExtra ops cb cc s = 0 := by
    unfold calleeExtra
    split
    · rename_i id hid
      unfold builtinExtra
      rcases h3 id hid with e | e <;> rw [e]
    · rfl
  cases op <;> first | rfl | exact hc | exact absurd rfl h1 | exact absurd rfl h2

structure OpsCost (ops : HeapOps H) (R : H → H → Nat → Prop) (cb : H → Nat → List VCell → Nat)
    (cc : H → VCell → Nat) (cv : H → VCell → VCell → Nat) : Prop where
  refl : ∀ h, R h h 0
  trans : ∀ {a b c j k}, R a b j → R b c k → R a c (j + k)
  mono : ∀ {a b j k}, R a b j → j ≤ k → R a b k
  put : ∀ h v, R h (ops.put h v).1 1
  maybePut : ∀ h v, R h (ops.maybePut h v).1 1
  setAt : ∀ h p v, R h (ops.setAt h p v) 0
  newCont : ∀ h c, R h (ops.newCont h c).1 1
  globPut : ∀ h n v, R h (ops.globPut h n v) 0
  envPut : ∀ {h e k v h'}, ops.envPut h e k v = some h' → R h h' 0
  makeClosure : ∀ {h lam ep bp st h' c}, ops.makeClosure h lam ep bp st = .ok (h', c) → R h h' 2
  makeActivation : ∀ {h lam env bp st h' e}, ops.makeActivation h lam env bp st = .ok (h', e) → R h h' 1
  vectorPush : ∀ {h vec v h'}, ops.vectorPush h vec v = .ok h' → R h h' (cv h vec v)
  builtinEval : ∀ {h id args h' v}, ops.builtinEval h id args = .ok (h', v) → R h h' (cb h id args)
  compileEval : ∀ {h v h' lam}, ops.compileEval h v = .ok (h', lam) → R h h' (cc h v)

theorem storeOperand_cost (o : OpsCost ops R cb cc cv) {s s1 : St H} {v : VCell} (h : storeOperand ops s v = .ok s1) :
    R s.heap s1.heap 0 := by
  unfold storeOperand at h
  obtain ⟨⟨opnd, s2⟩, hr, h⟩ := bind_inv h
  have e := (readOperand_ok hr).2
  subst e
  simp only at h
  split at h
  · cases h; exact o.refl _
  · cases h; exact o.setAt _ _ _
  · obtain ⟨st, _, h⟩ := bind_inv h; cases h; exact o.refl _
  · cases h; exact o.globPut _ _ _
  · split at h
    · cases h
    · split at h
      · cases h
      · cases h; exact o.envPut ‹_›
    · split at h
      · cases h
      · cases h; exact o.envPut ‹_›
  · cases h

theorem builtinCallcc_cost (o : OpsCost ops R cb cc cv) {s s' : St H} {v : VCell}
    (h : builtinCallcc ops s = .ok (s', v)) : R s.heap s'.heap 1 := by
  unfold builtinCallcc at h
  simp only [Bind.bind] at h
  repeat' split at h
  all_goals first | (cases h; done) | skip
  all_goals (cases h; exact o.newCont _ _)

theorem builtinEvalProc_cost (o : OpsCost ops R cb cc cv) {s s' : St H} {v : VCell}
    (h : builtinEvalProc ops s = .ok (s', v)) :
    ∃ e, evalArg s = some e ∧ R s.heap s'.heap (cc s.heap (ops.deref s.heap e)) := by
  unfold builtinEvalProc at h
  obtain ⟨⟨a, st⟩, hp1, h⟩ := bind_inv h
  obtain ⟨argc, _, h⟩ := bind_inv h
  simp only at h
  split at h
  · cases h
  · obtain ⟨⟨e, st2⟩, hp2, h⟩ := bind_inv h
    obtain ⟨⟨h', lam⟩, hc, h⟩ := bind_inv h
    obtain ⟨ipO, _, h⟩ := bind_inv h
    cases h
    exact ⟨e, by simp only [evalArg, hp1, hp2], o.compileEval hc⟩

theorem builtinGeneric_cost (o : OpsCost ops R cb cc cv) {id : Nat} {s s' : St H} {v : VCell}
    (h : builtinGeneric ops id s = .ok (s', v)) :
    ∃ args, genericArgs s = some args ∧ R s.heap s'.heap (cb s.heap id args) := by
  unfold builtinGeneric at h
  obtain ⟨⟨a, st⟩, hp1, h⟩ := bind_inv h
  obtain ⟨argc, ha, h⟩ := bind_inv h
  obtain ⟨⟨args, st2⟩, hp2, h⟩ := bind_inv h
  obtain ⟨⟨h', r⟩, hc, h⟩ := bind_inv h
  cases h
  exact ⟨args, by simp only [genericArgs, hp1, ha, hp2], o.builtinEval hc⟩

theorem calleeExtra_builtin {s : St H} {id : Nat} (h : ops.callee s.heap s.acc = .builtin id) :
    calleeExtra ops cb cc s = builtinExtra ops cb cc s id := by
  simp only [calleeExtra, h]

theorem runBuiltin_cost (o : OpsCost ops R cb cc cv) {id : Nat} {s s' : St H} (h : runBuiltin ops id s = .ok s') :
    R s.heap s'.heap (2 + builtinExtra ops cb cc s id) := by
  rw [runBuiltin_eqG] at h
  obtain ⟨⟨s1, v⟩, h1, h⟩ := bind_inv h
  have r1 : R s.heap s1.heap (1 + builtinExtra ops cb cc s id) := by
    unfold builtinExtra
    cases hk : ops.builtinKind s.heap id <;> simp only [hk] at h1 ⊢
    · rw [builtinApply_heap h1]; exact o.mono (o.refl _) (Nat.zero_le _)
    · obtain ⟨e, he, r⟩ := builtinEvalProc_cost o h1
      simp only [he]
      exact o.mono r (Nat.le_add_left _ _)
    · exact o.mono (builtinCallcc_cost o h1) (Nat.le_add_right _ _)
    · obtain ⟨args, he, r⟩ := builtinGeneric_cost o h1
      simp only [he]
      exact o.mono r (Nat.le_add_left _ _)
  simp only [builtinTailG] at h
  split at h
  · cases h; exact o.mono r1 (by omega)
  · cases h
    exact o.mono (o.trans r1 (o.maybePut _ _)) (by omega)

theorem stepCall_cost (o : OpsCost ops R cb cc cv) {s s' : St H} (h : stepCall ops s = .ok s') :
    R s.heap s'.heap (2 + calleeExtra ops cb cc s) := by
  unfold stepCall at h
  split at h
  · rename_i id hid
    rw [calleeExtra_builtin hid]; exact runBuiltin_cost o h
  · rw [invokeCont_heap h]; exact o.mono (o.refl _) (Nat.zero_le _)
  · cases h
  · cases h; exact o.mono (o.refl _) (Nat.zero_le _)
  · obtain ⟨lam, _, h⟩ := bind_inv h
    cases h; exact o.mono (o.refl _) (Nat.zero_le _)

theorem stepTCall_cost (o : OpsCost ops R cb cc cv) {s s' : St H} (h : stepTCall ops s = .ok s') :
    R s.heap s'.heap (2 + calleeExtra ops cb cc s) := by
  unfold stepTCall at h
  split at h
  · rename_i id hid
    rw [calleeExtra_builtin hid]; exact runBuiltin_cost o h
  · rw [invokeCont_heap h]; exact o.mono (o.refl _) (Nat.zero_le _)
  · cases h
  · simp only [Bind.bind] at h
    repeat' split at h
    all_goals first | (cases h; done) | skip
    all_goals (cases h; exact o.mono (o.refl _) (Nat.zero_le _))

theorem stepEnter_cost (o : OpsCost ops R cb cc cv) {s s' : St H} (h : stepEnter ops s = .ok s') :
    R s.heap s'.heap 1 := by
  unfold stepEnter at h
  simp only [Bind.bind] at h
  repeat' split at h
  all_goals first | (cases h; done) | skip
  · cases h; exact o.makeActivation ‹_›
  · cases h; exact o.mono (o.refl _) (Nat.zero_le _)

theorem varargCollect_cost (o : OpsCost ops R cb cc cv) : ∀ (k : Nat) {h h' : H} {acc l : Nat} {st st' : Stack},
    varargCollect ops k h acc st = .ok (h', l, st') → R h h' (2 * k)
  | 0, h, h', acc, l, st, st', e => by
    simp only [varargCollect] at e
    cases e
    exact o.refl _
  | k+1, h, h', acc, l, st, st', e => by
    simp only [varargCollect, Bind.bind] at e
    repeat' split at e
    all_goals first | (cases e; done) | skip
    exact o.mono (o.trans (o.trans (o.put _ _) (o.put _ _)) (varargCollect_cost o k e)) (by omega)

theorem stepVarArg_cost (o : OpsCost ops R cb cc cv) {s s' : St H} (h : stepVarArg ops s = .ok s') :
    ∃ n, s.stack.getOffset (-2) = .ok (.argc n) ∧ R s.heap s'.heap (3 + 2 * n) := by
  unfold stepVarArg at h
  split at h
  · cases h
  · obtain ⟨req, _, h⟩ := bind_inv h
    obtain ⟨argc, ha, h⟩ := bind_inv h
    obtain ⟨v, hg, hv⟩ := bind_inv ha
    have ev : v = .argc argc := by
      cases v <;> simp only [asArgc] at hv <;> first | (cases hv; rfl) | cases hv
    subst ev
    refine ⟨argc, hg, ?_⟩
    split at h
    · cases h
    · split at h
      · simp only [Bind.bind] at h
        repeat' split at h
        all_goals first | (cases h; done) | skip
        cases h
        exact o.mono (o.trans (o.trans (o.put _ _) (o.put _ _)) (o.put _ _)) (by omega)
      · simp only [Bind.bind] at h
        repeat' split at h
        all_goals first | (cases h; done) | skip
        cases h
        exact o.mono (o.trans (o.put _ _) (varargCollect_cost o _ ‹_›)) (by omega)

/-- **one instruction allocates at most the constant of its opcode plus what the unmodelled operation it
    calls (or the rest-argument list it builds) allocates** -/
theorem step_cost (o : OpsCost ops R cb cc cv) {s s' : St H} {b : Bool} (h : step ops s = .ok (s', b)) :
    ∃ op s1, readOpcode ops s = .ok (op, s1) ∧ R s.heap s'.heap (opAlloc op + extraOf ops cb cc cv s op) := by
  unfold step at h
  obtain ⟨⟨op, s1⟩, hro, h⟩ := bind_inv h
  refine ⟨op, s1, hro, ?_⟩
  have e := (readOpcode_ok hro).2
  subst e
  have z : ∀ {h'}, R s.heap h' 0 → R s.heap h' (0 + 0) := fun r => r
  cases op <;> simp only at h
  case cons =>
    have e3 : opAlloc .cons + extraOf ops cb cc cv s .cons = 1 + 1 + 1 := rfl
    rw [e3]
    simp only [Bind.bind] at h
    repeat' split at h
    all_goals first | (cases h; done) | skip
    all_goals (cases h; exact o.trans (o.trans (o.put _ _) (o.put _ _)) (o.put _ _))
  case jmp =>
    obtain ⟨⟨v, s2⟩, hr, h⟩ := bind_inv h
    have e := (readOperand_ok hr).2; subst e
    obtain ⟨_, _, h⟩ := bind_inv h
    cases h; exact z (o.refl _)
  case jnt =>
    obtain ⟨⟨v, s2⟩, hr, h⟩ := bind_inv h
    have e := (readOperand_ok hr).2; subst e
    obtain ⟨_, _, h⟩ := bind_inv h
    simp only at h
    split at h <;> (cases h; exact z (o.refl _))
  case mov =>
    obtain ⟨⟨v, s2⟩, hl, h⟩ := bind_inv h
    have e := loadOperand_ok hl; subst e
    obtain ⟨s3, hs, h⟩ := bind_inv h
    cases h
    have r := storeOperand_cost o hs
    exact z r
  case movImm =>
    obtain ⟨⟨v, s2⟩, hr, h⟩ := bind_inv h
    have e := (readOperand_ok hr).2; subst e
    obtain ⟨s3, hs, h⟩ := bind_inv h
    cases h
    have r := storeOperand_cost o hs
    exact z r
  case push =>
    obtain ⟨⟨v, s2⟩, hl, h⟩ := bind_inv h
    have e := loadOperand_ok hl; subst e
    cases h; exact z (o.refl _)
  case pushAcc => cases h; exact z (o.refl _)
  case pushImm =>
    obtain ⟨⟨v, s2⟩, hr, h⟩ := bind_inv h
    have e := (readOperand_ok hr).2; subst e
    cases h; exact z (o.refl _)
  case halt => cases h; exact z (o.refl _)
  case vpushAcc =>
    obtain ⟨⟨v, st⟩, hp, h⟩ := bind_inv h
    obtain ⟨h', hv, h⟩ := bind_inv h
    cases h
    have hp' : s.stack.pop = .ok (v, st) := hp
    simp only [opAlloc, extraOf, hp', Nat.zero_add]
    exact o.vectorPush hv
  case callAcc =>
    obtain ⟨s2, hc, h⟩ := bind_inv h
    cases h
    have r := stepCall_cost o hc
    exact r
  case closureAcc =>
    simp only [Bind.bind] at h
    repeat' split at h
    all_goals first | (cases h; done) | skip
    all_goals (cases h; exact o.mono (o.makeClosure ‹_›) (Nat.le_refl _))
  case enter =>
    obtain ⟨s2, hc, h⟩ := bind_inv h
    cases h
    have r := stepEnter_cost o hc
    exact r
  case ret =>
    obtain ⟨s2, hc, h⟩ := bind_inv h
    cases h
    obtain ⟨n, ep, l, o', bp', _, _, _, _, _, e⟩ := stepRet_ok hc
    rw [e]; exact z (o.refl _)
  case tcallAcc =>
    obtain ⟨s2, hc, h⟩ := bind_inv h
    cases h
    have r := stepTCall_cost o hc
    exact r
  case varArg =>
    obtain ⟨s2, hc, h⟩ := bind_inv h
    cases h
    obtain ⟨n, hn, r⟩ := stepVarArg_cost o hc
    have hn' : s.stack.getOffset (-2) = .ok (.argc n) := hn
    simp only [opAlloc, extraOf, hn']
    exact r

end Marwood.Vm

namespace Marwood.Lemmas.PolicyAlloc
open Marwood Marwood.Vm Marwood.Vm.Concrete Marwood.Lemmas.Sim Marwood.Lemmas.Good
open Marwood.Heap (GcState Heap)
open Marwood.Spec Marwood.Spec.HeapPolicy
open Marwood.Lemmas.HeapOps Marwood.Lemmas.PolicyRun Marwood.Lemmas.PolicyRefine Marwood.Lemmas.PolicyWF

/-- cells in use: capacity minus the length of the free list (what `run_gc`'s utilisation test reads) -/
def used (h : CHeap) : Nat := h.cells.size - h.free.length

theorem proj_toHeap (h : CHeap) : proj (toHeap h) = ⟨h.chunk, h.cells.size, used h⟩ := by
  simp [proj, toHeap, used]

theorem pre_of_inv {h : CHeap} (inv : HInv h) : Pre (toHeap h) := by
  refine ⟨by simp [toHeap, inv.sizes], inv.no_used, by simpa [Shape, toHeap] using inv.shape, ?_⟩
  show h.free.length ≤ (h.cells.map eraseC).size
  rw [Array.size_map]
  apply nodup_bounded_length _ _ inv.nodup
  intro x hx
  rw [← inv.sizes]
  exact lt_of_get_some ((inv.free_iff x).mp hx)

/-- the erased heap goes from `toHeap h` to `toHeap h'` by exactly `j` steps `Heap.alloc` and edits that leave
    `(chunk, capacity, used)` alone: whatever the heap model does from `toHeap h'` on, from `toHeap h` it does the
    same after `j` policy operations `.alloc` -/
def Allocs (h h' : CHeap) (j : Nat) : Prop :=
  ∀ (fixed : Bool) (ops : List HeapPolicy.Op) (hf : Heap),
    HRun fixed (toHeap h') ops hf → HRun fixed (toHeap h) (List.replicate j .alloc ++ ops) hf

/-- at most `k` allocations, and the allocator invariant is kept -/
def AllocsLe (h h' : CHeap) (k : Nat) : Prop := HInv h → HInv h' ∧ ∃ j, j ≤ k ∧ Allocs h h' j

theorem Allocs.refl (h : CHeap) : Allocs h h 0 := fun _ _ _ hr => hr

theorem Allocs.trans {a b c : CHeap} {j k : Nat} (h1 : Allocs a b j) (h2 : Allocs b c k) : Allocs a c (j + k) := by
  intro fixed ops hf hr
  have := h1 fixed _ hf (h2 fixed ops hf hr)
  rwa [← List.append_assoc, List.replicate_append_replicate] at this

theorem Allocs.of_proj {h h' : CHeap} (e : proj (toHeap h') = proj (toHeap h)) : Allocs h h' 0 :=
  fun _ _ _ hr => .other e hr

theorem run_allocs_used : ∀ (j : Nat) (s : PState), (HeapPolicy.run s (List.replicate j .alloc)).used = s.used + j
  | 0, s => rfl
  | j+1, s => by
    have : (HeapPolicy.alloc s).used = s.used + 1 := by unfold HeapPolicy.alloc; split <;> rfl
    simp only [List.replicate_succ, HeapPolicy.run, HeapPolicy.step, run_allocs_used j, this]
    omega

/-- `j` allocations raise the `used` counter by exactly `j` -/
theorem Allocs.used {h h' : CHeap} {j : Nat} (a : Allocs h h' j) : used h' = used h + j := by
  have hr := a true [] (toHeap h') (.done _)
  have hp := hrun_proj true _ _ _ hr
  rw [List.append_nil, proj_toHeap, proj_toHeap] at hp
  have := congrArg PState.used hp
  rw [run_allocs_used] at this
  exact this

theorem AllocsLe.refl (h : CHeap) : AllocsLe h h 0 := fun inv => ⟨inv, 0, Nat.le_refl _, .refl h⟩

theorem AllocsLe.trans {a b c : CHeap} {j k : Nat} (h1 : AllocsLe a b j) (h2 : AllocsLe b c k) : AllocsLe a c (j + k) := by
  intro inv
  obtain ⟨inv1, j1, hj1, a1⟩ := h1 inv
  obtain ⟨inv2, j2, hj2, a2⟩ := h2 inv1
  exact ⟨inv2, j1 + j2, by omega, a1.trans a2⟩

theorem AllocsLe.mono {a b : CHeap} {j k : Nat} (h : AllocsLe a b j) (hjk : j ≤ k) : AllocsLe a b k := by
  intro inv
  obtain ⟨inv1, j1, hj1, a1⟩ := h inv
  exact ⟨inv1, j1, by omega, a1⟩

theorem AllocsLe.used {h h' : CHeap} {k : Nat} (a : AllocsLe h h' k) (inv : HInv h) : used h' ≤ used h + k := by
  obtain ⟨_, j, hj, aj⟩ := a inv
  rw [aj.used]; omega

/-! ### the allocator -/

theorem calloc_allocs (h : CHeap) : AllocsLe h (calloc h).1 1 := by
  intro inv
  refine ⟨(calloc_spec h inv).inv, 1, Nat.le_refl _, ?_⟩
  intro fixed ops hf hr
  exact .alloc (pre_of_inv inv) (toHeap_alloc inv) hr

theorem cwrite_allocs (h : CHeap) (p : Nat) (c : CCell) : AllocsLe h (cwrite h p c) 0 := by
  intro inv
  exact ⟨cwrite_inv h inv p c, 0, Nat.le_refl _, .of_proj (by simp [proj, toHeap, cwrite])⟩

theorem cput_allocs (h : CHeap) (c : CCell) : AllocsLe h (cput h c).1 1 :=
  (calloc_allocs h).trans (cwrite_allocs _ _ _)

theorem inv_symtab {h : CHeap} (inv : HInv h) (t : List (Text × Nat)) : HInv { h with symtab := t } :=
  ⟨inv.sizes, inv.shape, inv.free_iff, inv.nodup, inv.no_used⟩

theorem inv_globals {h : CHeap} (inv : HInv h) (g : Array VCell) : HInv { h with globals := g } :=
  ⟨inv.sizes, inv.shape, inv.free_iff, inv.nodup, inv.no_used⟩

theorem symtab_allocs (h : CHeap) (t : List (Text × Nat)) : Allocs h { h with symtab := t } 0 := .of_proj rfl

theorem putNew_allocs (h : CHeap) (v : VCell) : AllocsLe h (putNew h v).1 1 := by
  unfold putNew
  split
  · split
    · exact (AllocsLe.refl h).mono (Nat.zero_le _)
    · have a := cput_allocs h (.val v)
      intro inv
      obtain ⟨inv1, j, hj, aj⟩ := a inv
      exact ⟨inv_symtab inv1 _, j, hj, aj.trans (symtab_allocs _ _)⟩
  · exact cput_allocs h _

theorem putV_allocs (h : CHeap) (v : VCell) : AllocsLe h (putV h v).1 1 := by
  unfold putV; split
  · exact (AllocsLe.refl h).mono (Nat.zero_le _)
  · exact putNew_allocs h v

theorem maybePutV_allocs (h : CHeap) (v : VCell) : AllocsLe h (maybePutV h v).1 1 := by
  unfold maybePutV; split
  · exact (AllocsLe.refl h).mono (Nat.zero_le _)
  · exact putNew_allocs h v

theorem globPut_allocs (h : CHeap) (g : Array VCell) : AllocsLe h { h with globals := g } 0 := by
  intro inv
  exact ⟨inv_globals inv g, 0, Nat.le_refl _, .of_proj rfl⟩

theorem envPut_allocs {h h' : CHeap} {e k : Nat} {v : VCell} (hp : envPut h e k v = some h') : AllocsLe h h' 0 := by
  unfold envPut at hp
  split at hp
  · split at hp
    · cases hp; exact cwrite_allocs _ _ _
    · cases hp
  · cases hp

theorem makeClosure_allocs {h h' : CHeap} {lam ep bp : Nat} {st : Stack} {c : VCell}
    (hm : makeClosure h lam ep bp st = .ok (h', c)) : AllocsLe h h' 2 := by
  unfold makeClosure at hm
  split at hm
  · cases hm
  · obtain ⟨slots, _, hm⟩ := bind_inv hm
    cases hm
    exact (cput_allocs h _).trans (cput_allocs _ _)

theorem makeActivation_allocs {h h' : CHeap} {lam env bp e : Nat} {st : Stack}
    (hm : makeActivation h lam env bp st = .ok (h', e)) : AllocsLe h h' 1 := by
  unfold makeActivation at hm
  split at hm
  · cases hm
  · split at hm
    · cases hm
    · obtain ⟨slots, _, hm⟩ := bind_inv hm
      cases hm
      exact cput_allocs h _

/-! ### the unmodelled operations -/

/-- growth of `used` across an unmodelled operation -/
def growth {α : Type} (h : CHeap) : Outcome (CHeap × α) → Nat
  | .ok (h', _) => used h' - used h
  | _ => 0

/-- cells allocated by the generic builtin `id` on `args` -/
def builtinCost (ext : ExtOps) (h : CHeap) (id : Nat) (args : List VCell) : Nat := growth h (ext.builtinEval h id args)
/-- cells allocated by `eval`'s datum conversion and compiler -/
def compileCost (ext : ExtOps) (h : CHeap) (v : VCell) : Nat := growth h (ext.compileEval h v)
/-- cells allocated by VPUSH -/
def vpushCost (ext : ExtOps) (h : CHeap) (vec v : VCell) : Nat :=
  match ext.vectorPush h vec v with
  | .ok h' => used h' - used h
  | _ => 0

/-- the law assumed of the unmodelled operations (like `ExtLaws` / `ExtGood`): they change `(capacity, used)`
    only through `Heap::alloc` and keep the allocator invariant -/
structure ExtAllocOnly (ext : ExtOps) : Prop where
  builtinEval : ∀ {h id args h' v}, ext.builtinEval h id args = .ok (h', v) → HInv h → HInv h' ∧ ∃ j, Allocs h h' j
  compileEval : ∀ {h v h' lam}, ext.compileEval h v = .ok (h', lam) → HInv h → HInv h' ∧ ∃ j, Allocs h h' j
  vectorPush : ∀ {h vec v h'}, ext.vectorPush h vec v = .ok h' → HInv h → HInv h' ∧ ∃ j, Allocs h h' j

theorem allocsLe_of_allocs {h h' : CHeap} (a : HInv h → HInv h' ∧ ∃ j, Allocs h h' j) : AllocsLe h h' (used h' - used h) := by
  intro inv
  obtain ⟨inv', j, aj⟩ := a inv
  exact ⟨inv', j, by rw [aj.used]; omega, aj⟩

theorem concrete_opsCost {ext : ExtOps} (ea : ExtAllocOnly ext) :
    OpsCost (concreteOps ext) AllocsLe (builtinCost ext) (compileCost ext) (vpushCost ext) where
  refl := AllocsLe.refl
  trans := AllocsLe.trans
  mono := AllocsLe.mono
  put := putV_allocs
  maybePut := maybePutV_allocs
  setAt h p v := cwrite_allocs h p _
  newCont h c := cput_allocs h _
  globPut h n v := globPut_allocs h _
  envPut := envPut_allocs
  makeClosure := makeClosure_allocs
  makeActivation := makeActivation_allocs
  vectorPush := by
    intro h vec v h' e
    have := allocsLe_of_allocs (ea.vectorPush e)
    have e' : ext.vectorPush h vec v = .ok h' := e
    simpa only [vpushCost, e'] using this
  builtinEval := by
    intro h id args h' v e
    have := allocsLe_of_allocs (ea.builtinEval e)
    have e' : ext.builtinEval h id args = .ok (h', v) := e
    simpa only [builtinCost, growth, e'] using this
  compileEval := by
    intro h v h' lam e
    have := allocsLe_of_allocs (ea.compileEval e)
    have e' : ext.compileEval h v = .ok (h', lam) := e
    simpa only [compileCost, growth, e'] using this

/-- what the instruction at `s` allocates beyond the constant of its opcode: the growth of `used` across the
    generic builtin / `eval` compiler / VPUSH it calls, `2 · argc` for VARARG, `0` for every other instruction -/
def extra (ext : ExtOps) (s : St CHeap) (op : Vm.Op) : Nat :=
  extraOf (concreteOps ext) (builtinCost ext) (compileCost ext) (vpushCost ext) s op

/-- **one instruction of the concrete machine** performs at most `opAlloc op + extra ext s op` allocations (and
    otherwise only counter-preserving edits) and keeps the allocator invariant -/
theorem step_allocs {ext : ExtOps} (ea : ExtAllocOnly ext) {s s' : St CHeap} {b : Bool}
    (h : step (concreteOps ext) s = .ok (s', b)) :
    ∃ op s1, readOpcode (concreteOps ext) s = .ok (op, s1) ∧ AllocsLe s.heap s'.heap (opAlloc op + extra ext s op) :=
  step_cost (concrete_opsCost ea) h

/-- … in terms of the `used` counter -/
theorem step_alloc_bound {ext : ExtOps} (ea : ExtAllocOnly ext) {s s' : St CHeap} {b : Bool} (inv : HInv s.heap)
    (h : step (concreteOps ext) s = .ok (s', b)) :
    ∃ op s1, readOpcode (concreteOps ext) s = .ok (op, s1) ∧ HInv s'.heap ∧
      used s'.heap ≤ used s.heap + opAlloc op + extra ext s op := by
  obtain ⟨op, s1, hro, a⟩ := step_allocs ea h
  exact ⟨op, s1, hro, (a inv).1, by have := a.used inv; omega⟩

/-- **an instruction other than a generic builtin / `eval` / VPUSH / VARARG allocates at most the constant of
    its opcode** — CONS 3, CLOSURE 2, ENTER 1, CALL / TCALL 2 (call/cc, `apply`), every other 0 — hence at most
    `maxOpAlloc = 3` cells -/
theorem step_alloc_bound_core {ext : ExtOps} (ea : ExtAllocOnly ext) {s s' : St CHeap} {b : Bool} (inv : HInv s.heap)
    (h : step (concreteOps ext) s = .ok (s', b)) {op : Vm.Op} {s1 : St CHeap}
    (hro : readOpcode (concreteOps ext) s = .ok (op, s1)) (ne : NonExt (concreteOps ext) s op) :
    used s'.heap ≤ used s.heap + opAlloc op ∧ used s'.heap ≤ used s.heap + maxOpAlloc := by
  obtain ⟨op', s1', hro', _, hu⟩ := step_alloc_bound ea inv h
  rw [hro] at hro'
  cases hro'
  have : extra ext s op = 0 := extraOf_nonExt ne
  have := opAlloc_le op
  omega

/-! ### a slice: `n` instructions with no collection in between -/

/-- `Slice ext n E s s'`: `n` consecutive instructions lead from `s` to `s'`; `E` is the sum of `extra` over them -/
inductive Slice (ext : ExtOps) : Nat → Nat → St CHeap → St CHeap → Prop
  | nil (s : St CHeap) : Slice ext 0 0 s s
  | cons {n E : Nat} {s s1 s' sx : St CHeap} {b : Bool} {op : Vm.Op} : step (concreteOps ext) s = .ok (s1, b) →
      readOpcode (concreteOps ext) s = .ok (op, sx) → Slice ext n E s1 s' → Slice ext (n + 1) (extra ext s op + E) s s'

theorem slice_allocs {ext : ExtOps} (ea : ExtAllocOnly ext) {n E : Nat} {s s' : St CHeap} (sl : Slice ext n E s s') :
    AllocsLe s.heap s'.heap (maxOpAlloc * n + E) := by
  induction sl with
  | nil s => exact AllocsLe.refl _
  | @cons n E s s1 s' sx b op hs hro _ ih =>
    obtain ⟨op', s1', hro', a⟩ := step_allocs ea hs
    rw [hro] at hro'
    cases hro'
    have := opAlloc_le op
    exact (a.trans ih).mono (by simp only [maxOpAlloc] at *; omega)

/-- **the parameter `A` of T12.3 for one slice of the machine**: between two collection points at most 8192
    instructions run (`run.rs`: `run_gc` every 8192 cycles, at a budget stop, at the end of an evaluation), so at most
    `8192 · 3 + E` cells are allocated, `E` = what the builtins called in the slice (and the rest-argument lists
    built in it) allocate -/
theorem slice_alloc_bound {ext : ExtOps} (ea : ExtAllocOnly ext) {n E : Nat} {s s' : St CHeap} (inv : HInv s.heap)
    (sl : Slice ext n E s s') (hn : n ≤ 8192) :
    HInv s'.heap ∧ used s'.heap ≤ used s.heap + (8192 * maxOpAlloc + E) ∧
      ∃ j, j ≤ 8192 * maxOpAlloc + E ∧ Allocs s.heap s'.heap j := by
  have a := (slice_allocs ea sl).mono (k := 8192 * maxOpAlloc + E) (by simp only [maxOpAlloc]; omega)
  obtain ⟨inv', j, hj, aj⟩ := a inv
  exact ⟨inv', a.used inv, j, hj, aj⟩

theorem paced_allocs (A L : Nat) : ∀ (j a : Nat) (ops : List HeapPolicy.Op), a + j ≤ A → Paced A L (a + j) ops →
    Paced A L a (List.replicate j .alloc ++ ops)
  | 0, a, ops, _, hp => by simpa using hp
  | j+1, a, ops, hle, hp => by
    simp only [List.replicate_succ, List.cons_append, Paced]
    refine ⟨by omega, paced_allocs A L j (a + 1) ops (by omega) ?_⟩
    rwa [Nat.add_assoc, Nat.add_comm 1 j]

/-- the policy operations of a session: per block `(j, force, live)`, `j` allocations then a collection point -/
def blocksOps : List (Nat × Bool × Nat) → List HeapPolicy.Op
  | [] => []
  | (j, f, l) :: bs => List.replicate j .alloc ++ .gcPoint f l :: blocksOps bs

/-- any number of blocks, each with at most `A` allocations and at most `L` cells live at its collection point,
    is a paced sequence -/
theorem paced_blocks (A L : Nat) : ∀ bs : List (Nat × Bool × Nat), (∀ b ∈ bs, b.1 ≤ A ∧ b.2.2 ≤ L) →
    Paced A L 0 (blocksOps bs)
  | [], _ => trivial
  | (j, f, l) :: bs, h => by
    have hb := h (j, f, l) (List.mem_cons_self ..)
    exact paced_allocs A L j 0 _ (by simpa using hb.1)
      ⟨hb.2, paced_blocks A L bs (fun b hb' => h b (List.mem_cons_of_mem _ hb'))⟩

/-! ### the law is satisfiable by operations that do allocate -/

/-- a parameter set whose generic builtins allocate one cell (like `cons` of two references), whose VPUSH
    allocates nothing and whose compiler fails -/
def allocExt : ExtOps :=
  { builtinKind := fun _ _ => .generic
    builtinEval := fun h _ _ => .ok ((cput h (.val .nil)).1, .ptr (cput h (.val .nil)).2)
    compileEval := fun _ _ => .err (.builtin "unsupported")
    vectorPush := fun h _ _ => .ok h }

theorem allocExt_allocOnly : ExtAllocOnly allocExt := by
  refine ⟨?_, ?_, ?_⟩
  · intro h id args h' v e inv
    cases e
    obtain ⟨inv', j, _, aj⟩ := cput_allocs h (.val .nil) inv
    exact ⟨inv', j, aj⟩
  · intro h v h' lam e; cases e
  · intro h vec v h' e inv
    cases e
    exact ⟨inv, 0, .refl _⟩

end Marwood.Lemmas.PolicyAlloc
