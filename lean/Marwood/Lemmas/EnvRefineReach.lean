import Marwood.Lemmas.EnvRefineStep2
/-!
# T02.2 in every reachable state of the model evaluator (no hypothesis on the program)

`Keeps m`: started in a heap with one level of indirection, the computation `m` ends — with a value
or with any error — in a heap that still has it and that `Evolves` from the first (no environment
removed, no pointer slot changed, no value slot turned into a pointer). Every function of
`Vm.EnvRun` keeps it, for every fuel, context, environment and expression; hence every state a
session reaches from the empty state has one level of indirection.
-/
namespace Marwood.Vm.EnvRefine
open Marwood Marwood.Scope Marwood.Vm.Env Marwood.Vm.EnvRun

def Keeps {α : Type} (m : X MErr MSt α) : Prop :=
  ∀ t : MSt, OneLevel t.envs → OneLevel (exec m t).2.envs ∧ Evolves t.envs (exec m t).2.envs

theorem Keeps.of_same {α : Type} (m : X MErr MSt α) (h : ∀ t, (exec m t).2.envs = t.envs) : Keeps m :=
  fun t ho => by rw [h t]; exact ⟨ho, Evolves.refl _⟩

theorem Keeps.pure {α : Type} (a : α) : Keeps (pure a : X MErr MSt α) := Keeps.of_same _ fun _ => rfl
theorem Keeps.throw {α : Type} (e : MErr) : Keeps (throw e : X MErr MSt α) := Keeps.of_same _ fun _ => rfl

theorem Keeps.bind {α β : Type} {m : X MErr MSt α} {k : α → X MErr MSt β} (hm : Keeps m) (hk : ∀ a, Keeps (k a)) :
    Keeps (m >>= k) := by
  intro t ho
  rw [exec_bind]
  obtain ⟨h1, h2⟩ := hm t ho
  rcases hx : exec m t with ⟨r, t1⟩
  rw [hx] at h1 h2
  cases r with
  | error e => exact ⟨h1, h2⟩
  | ok a =>
    obtain ⟨h3, h4⟩ := hk a t1 h1
    exact ⟨h3, h2.trans h4⟩

theorem keeps_tick : Keeps Vm.EnvRun.tick := Keeps.of_same _ fun _ => rfl

theorem keeps_log (s : Nat) (v : MVal) : Keeps (modify fun st : MSt => { st with log := (s, v) :: st.log }) :=
  Keeps.of_same _ fun _ => rfl

theorem keeps_setGlobal (x : Name) (v : MVal) : Keeps (setGlobal x v) := Keeps.of_same _ fun _ => rfl

theorem keeps_readVar (c : LamCtx) (ep : Option Nat) (x : Name) : Keeps (readVar c ep x) := by
  apply Keeps.of_same
  intro t
  unfold readVar
  cases bindingLocation c x with
  | env s =>
    cases ep with
    | none => rfl
    | some e =>
      simp only [exec_bind, exec_get]
      cases load t.envs e s with
      | error f => cases f <;> rfl
      | ok g => cases g <;> rfl
  | global =>
    simp only [exec_bind, exec_get]
    split <;> rfl
  | arg n => rfl

theorem keeps_writeVar (c : LamCtx) (ep : Option Nat) (x : Name) (v : MVal) : Keeps (writeVar c ep x v) := by
  unfold writeVar
  cases bindingLocation c x with
  | env s =>
    cases ep with
    | none => exact Keeps.throw _
    | some e =>
      intro t ho
      simp only [exec_bind, exec_get]
      cases hs : store t.envs e s v with
      | error f => cases f <;> exact ⟨ho, Evolves.refl _⟩
      | ok h =>
        exact ⟨store_oneLevel _ _ ho e s v hs, store_evolves_of_oneLevel _ _ ho e s v hs⟩
  | global => exact keeps_setGlobal x v
  | arg n => exact Keeps.throw _

theorem keeps_mkClosure (c : LamCtx) (ep : Option Nat) (sugar : Bool) (ps : List Name) (r : Option Name) (ds : Defs)
    (body : Exprs) : Keeps (mkClosure c ep sugar ps r ds body) := by
  intro t ho
  unfold mkClosure
  cases ep with
  | some e =>
    simp only [exec_bind, exec_get]
    cases hb : buildClosureEnvironment t.envs e [] (compileLam c sugar ps r ds body).envmap with
    | error f => cases f <;> exact ⟨ho, Evolves.refl _⟩
    | ok p =>
      obtain ⟨h, ce⟩ := p
      exact ⟨buildClosureEnvironment_oneLevel _ _ ho _ _ _ _ hb, buildClosureEnvironment_evolves _ _ _ _ _ _ hb⟩
  | none =>
    simp only [exec_bind, exec_get]
    split
    · refine ⟨?_, Evolves.push _ _⟩
      apply OneLevel.push _ ho
      intro i p q hg
      simp at hg
    · exact ⟨ho, Evolves.refl _⟩

/-- the seven functions of the model evaluator at fuel `g` -/
structure KeepsAll (g : Nat) : Prop where
  eval : ∀ c ep e, Keeps (Vm.EnvRun.eval g c ep e)
  evalList : ∀ c ep es, Keeps (Vm.EnvRun.evalList g c ep es)
  evalBody : ∀ c ep es, Keeps (Vm.EnvRun.evalBody g c ep es)
  evalDefs : ∀ c ep ds, Keeps (Vm.EnvRun.evalDefs g c ep ds)
  apply : ∀ fv vs, Keeps (Vm.EnvRun.apply g fv vs)
  loopGo : ∀ fv n, Keeps (Vm.EnvRun.loopGo g fv n)
  eachGo : ∀ lv vs, Keeps (Vm.EnvRun.eachGo g lv vs)

theorem keeps_apply_step {g : Nat} (ih : KeepsAll g) (fv : MVal) (vs : List MVal) :
    Keeps (Vm.EnvRun.apply (g + 1) fv vs) := by
  cases fv with
  | clo ps r ds body ctx cenv =>
    intro t ho
    cases hm : frameArgs ps r vs with
    | error e =>
      have : exec (Vm.EnvRun.apply (g + 1) (.clo ps r ds body ctx cenv) vs) t = (.error e, t) := by
        simp [Vm.EnvRun.apply, hm, exec_bind]
      rw [this]; exact ⟨ho, Evolves.refl _⟩
    | ok margs =>
      cases hb : buildLexicalEnvironment t.envs cenv margs ctx.envmap with
      | error f =>
        have : (exec (Vm.EnvRun.apply (g + 1) (.clo ps r ds body ctx cenv) vs) t).2 = t := by
          cases f <;> simp [Vm.EnvRun.apply, hm, exec_bind, hb, liftFault]
        rw [this]; exact ⟨ho, Evolves.refl _⟩
      | ok p =>
        obtain ⟨h1, a⟩ := p
        rw [exec_apply_clo g ps r ds body ctx cenv vs margs t h1 a hm hb]
        have ho1 := buildLexicalEnvironment_oneLevel _ _ ho _ _ _ _ hb
        have ev1 := buildLexicalEnvironment_evolves _ _ _ _ _ _ hb
        obtain ⟨k1, k2⟩ := (Keeps.bind (ih.evalDefs ctx (some a) ds) fun _ => ih.evalBody ctx (some a) body)
          { t with envs := h1 } ho1
        exact ⟨k1, ev1.trans k2⟩
  | int _ | nil | void | undef | pair _ _ => simp only [Vm.EnvRun.apply]; exact Keeps.throw _

theorem keepsAll : ∀ g, KeepsAll g
  | 0 => by
    refine ⟨?_, ?_, ?_, ?_, ?_, ?_, ?_⟩ <;> intros
    · rw [Vm.EnvRun.eval]; exact Keeps.throw _
    · rw [Vm.EnvRun.evalList]; exact Keeps.throw _
    · rw [Vm.EnvRun.evalBody]; exact Keeps.throw _
    · rw [Vm.EnvRun.evalDefs]; exact Keeps.throw _
    · rw [Vm.EnvRun.apply]; exact Keeps.throw _
    · rw [Vm.EnvRun.loopGo]; exact Keeps.throw _
    · rw [Vm.EnvRun.eachGo]; exact Keeps.throw _
  | g + 1 => by
    have ih := keepsAll g
    refine ⟨?_, ?_, ?_, ?_, keeps_apply_step ih, ?_, ?_⟩
    · intro c ep e
      cases e with
      | fresh => simp only [Vm.EnvRun.eval]; exact keeps_tick
      | ref s x =>
        simp only [Vm.EnvRun.eval]
        exact Keeps.bind (keeps_readVar c ep x) fun v => Keeps.bind (keeps_log s v) fun _ => Keeps.pure _
      | set s x e =>
        simp only [Vm.EnvRun.eval]
        exact Keeps.bind (ih.eval c ep e) fun v => Keeps.bind (keeps_log s v) fun _ =>
          Keeps.bind (keeps_writeVar c ep x v) fun _ => Keeps.pure _
      | lam ps r ds body => simp only [Vm.EnvRun.eval]; exact keeps_mkClosure _ _ _ _ _ _ _
      | call fn args =>
        simp only [Vm.EnvRun.eval]
        exact Keeps.bind (ih.evalList c ep args) fun vs => Keeps.bind (ih.eval c ep fn) fun fv => ih.apply fv vs
      | seq es =>
        simp only [Vm.EnvRun.eval]
        exact Keeps.bind (keeps_mkClosure _ _ _ _ _ _ _) fun fv => ih.apply fv []
      | loop n fn =>
        simp only [Vm.EnvRun.eval]
        exact Keeps.bind (ih.eval c ep fn) fun fv => ih.loopGo fv n
      | each l args =>
        simp only [Vm.EnvRun.eval]
        exact Keeps.bind (ih.eval c ep l) fun lv => Keeps.bind (ih.evalList c ep args) fun vs => ih.eachGo lv vs
    · intro c ep es
      cases es with
      | nil => simp only [Vm.EnvRun.evalList]; exact Keeps.pure _
      | cons e es =>
        simp only [Vm.EnvRun.evalList]
        exact Keeps.bind (ih.eval c ep e) fun v => Keeps.bind (ih.evalList c ep es) fun vs => Keeps.pure _
    · intro c ep es
      cases es with
      | nil => simp only [Vm.EnvRun.evalBody]; exact Keeps.pure _
      | cons e es =>
        cases es with
        | nil => simp only [Vm.EnvRun.evalBody]; exact ih.eval c ep e
        | cons e' es' =>
          simp only [Vm.EnvRun.evalBody]
          exact Keeps.bind (ih.eval c ep e) fun _ => ih.evalBody c ep _
    · intro c ep ds
      cases ds with
      | nil => simp only [Vm.EnvRun.evalDefs]; exact Keeps.pure _
      | cons x sugar e ds =>
        simp only [Vm.EnvRun.evalDefs]
        split
        · exact Keeps.bind (keeps_mkClosure _ _ _ _ _ _ _) fun v => Keeps.bind (keeps_writeVar c ep x v) fun _ =>
            ih.evalDefs c ep ds
        · exact Keeps.bind (ih.eval c ep _) fun v => Keeps.bind (keeps_writeVar c ep x v) fun _ =>
            ih.evalDefs c ep ds
    · intro fv n
      cases n with
      | zero => simp only [Vm.EnvRun.loopGo]; exact Keeps.pure _
      | succ n =>
        simp only [Vm.EnvRun.loopGo]
        exact Keeps.bind keeps_tick fun tv => Keeps.bind (ih.apply fv [tv]) fun v =>
          Keeps.bind (ih.loopGo fv n) fun rest => Keeps.pure _
    · intro lv vs
      cases lv with
      | nil => simp only [Vm.EnvRun.eachGo]; exact Keeps.pure _
      | pair c rest =>
        simp only [Vm.EnvRun.eachGo]
        exact Keeps.bind (ih.apply c vs) fun v => Keeps.bind (ih.eachGo rest vs) fun r => Keeps.pure _
      | int _ | void | undef | clo _ _ _ _ _ _ => simp only [Vm.EnvRun.eachGo]; exact Keeps.throw _

theorem keeps_runTop (g : Nat) (top : Top) : Keeps (Vm.EnvRun.runTop g top) := by
  cases top with
  | define x e =>
    simp only [Vm.EnvRun.runTop]
    exact Keeps.bind ((keepsAll g).eval _ _ e) fun v => Keeps.bind (keeps_setGlobal x v) fun _ => Keeps.pure _
  | expr e => exact (keepsAll g).eval _ _ e

/-- **Every state a session reaches keeps one level of indirection** — for every program and
    every fuel, whatever errors occur on the way. -/
theorem run_keeps (g : Nat) (p : Program) (t : MSt) (ho : OneLevel t.envs) :
    OneLevel (Vm.EnvRun.run g p t).2.envs ∧ Evolves t.envs (Vm.EnvRun.run g p t).2.envs := by
  induction p generalizing t with
  | nil => exact ⟨ho, Evolves.refl _⟩
  | cons top ts ih =>
    have h1 := keeps_runTop g top t ho
    have : Vm.EnvRun.run g (top :: ts) t = _ := rfl
    obtain ⟨k1, k2⟩ := ih (exec (Vm.EnvRun.runTop g top) t).2 h1.1
    exact ⟨k1, h1.2.trans k2⟩

end Marwood.Vm.EnvRefine
