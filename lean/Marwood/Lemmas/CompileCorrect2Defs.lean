import Marwood.Lemmas.CompileCorrect
import Marwood.Lemmas.CompileCorrect2Quote
/-!
# T01.3 STAGE 2 — `lambda`, closures, lexical variables: definitions

Stage 1 (`CompileCorrect*.lean`) covers the closure-free fragment in the top-level binding context. Stage 2 adds
`(lambda (x …) body …)` with fixed arity, the application of closure values, and references / assignments to
lambda parameters at any nesting depth, in any binding context `c : Ctx` of the compiler model.

* `RepData2` — stage-1 `RepData` (global slots, `VR` for the store-free values) plus: which environment-map
  sources the lambda object at a heap address has (`lamSrcs`, what CLOSURE / ENTER iterate over), and the
  table tying the compiler's lambda indices to heap addresses (`LM`, `final`);
* `World` — which machine variable location (environment id, slot) stands for which specification location;
  the relation is a partial bijection that only grows (`Inv2.wfun`, `Inv2.winj`);
* `VR2` — values: a closure value is represented by a machine value that `CALL` dispatches to
  `Closure(lam, env)` where `lam` holds the compiled body of the same `lambda` expression and every captured
  slot of `env` is a one-level pointer (`LexicalEnvPtr`) to the location that stands for the captured
  variable (`ClosOK`); everything else as in stage 1;
* `EnvRep` — the current environment `ep` represents the specification's `ρ` through the binding context;
* `Inv2` — heap represents specification state: globals, the loaded code of every lambda of the table, and the
  store invariant (every related location holds a value, not a pointer, representing the variable's value);
* `Ext2` — what later heaps keep; `Laws2` — the ASSUMED heap laws (`makeClosure`, `makeActivation`, `envPut`,
  `globPut`, and the behaviour of builtins);
* `F2` — the fragment, indexed by compiler fuel, binding context, the set of lexically bound names and the
  tail flag: it carries well-scopedness (the compiler's free-variable analysis has put exactly the bound
  names in the environment map).
-/
namespace Marwood.Lemmas.CompileCorrect2
open Marwood Marwood.Vm Marwood.Lemmas.CompileCorrect
open Marwood.Spec.Eval (Val Prim Cell Env evalN evalStep applyStep evalArgs properList quoteVal kwOf insertG
  k_quote k_if_ k_setBang k_define k_lambda)

variable {H : Type}

/-! ## binding contexts -/

/-- run-time binding source (`BindingSource`, with the slot `IofEnvironment` carries) -/
inductive RSrc
  | arg (n : Nat) | internal | iofEnv (k : Nat) | iofArg (n : Nat)
deriving DecidableEq, Repr

/-- the symbol has an entry in the environment map (first test of `binding_location`) -/
def inEnv (c : Ctx) (x : Text) : Bool := c.envmap.any (·.1 == x)

/-- `EnvironmentMap::get_slot`: index of the first entry for the symbol -/
def slotIdx (em : List (Text × Source)) (x : Text) : Option Nat := em.findIdx? (·.1 == x)

/-- an entry of the compiler model's map as the machine sees it, given the enclosing lambda's map -/
def rsrc (iofEm : List (Text × Source)) : Text × Source → RSrc
  | (_, .argument n) => .arg n
  | (_, .internal) => .internal
  | (s, .iofEnvironment) => .iofEnv ((slotIdx iofEm s).getD 0)
  | (_, .iofArgument n) => .iofArg n

/-- the entries `new_from_iof` makes for the formals -/
def argEntries (ps : List Text) : List (Text × Source) := ps.zipIdx.map fun (a, i) => (a, Source.argument i)

/-- every formal has an entry (so `BindingLocation::Argument` is dead) -/
def CtxOK (c : Ctx) : Prop := ∀ x ∈ c.args, inEnv c x = true

/-- the names `ρ` binds -/
def bound (ρ : Env) : Text → Prop := fun x => (ρ.lookup x).isSome = true

/-! ## the fragment -/

mutual
/-- `F2 G fuel c ns tail e`: `e` is a stage-2 expression (`G`: the globals `set!` may assign), compiled with `fuel` in context `c` with tail flag
    `tail`, and the names with an entry in `c`'s environment map are exactly the lexically bound names `ns`
    among those `e` refers to -/
inductive F2 (G : Text → Prop) : Nat → Ctx → (Text → Prop) → Bool → Datum → Prop
  | bool {f c ns t} (b : Bool) : F2 G (f + 1) c ns t (.bool b)
  | char {f c ns t} (ch : Char) : F2 G (f + 1) c ns t (.char ch)
  | num {f c ns t} (n : Num) : F2 G (f + 1) c ns t (.num n)
  | str {f c ns t} (s : Text) : F2 G (f + 1) c ns t (.str s)
  /-- `(quote d)`, any datum (pairs and vectors included), and a self-evaluating vector constant -/
  | quote {f c ns t} (d rest : Datum) : F2 G (f + 1) c ns t (.pair (.sym k_quote) (.pair d rest))
  | vecc {f c ns t} (e : Datum) : F2 G (f + 1) c ns t (.vec e)
  | sym {f c ns t} (x : Text) : (inEnv c x = true ↔ ns x) → F2 G (f + 1) c ns t (.sym x)
  | setBang {f c ns t} (x : Text) (e : Datum) : (inEnv c x = true ↔ ns x) → (¬ ns x → G x) →
      F2 G f c ns false e →
      F2 G (f + 1) c ns t (.pair (.sym k_setBang) (.pair (.sym x) (.pair e .nil)))
  | if2 {f c ns t} (tst cn : Datum) : F2 G f c ns false tst → F2 G f c ns t cn →
      F2 G (f + 1) c ns t (.pair (.sym k_if_) (.pair tst (.pair cn .nil)))
  | if3 {f c ns t} (tst cn al : Datum) : F2 G f c ns false tst → F2 G f c ns t cn → F2 G f c ns t al →
      F2 G (f + 1) c ns t (.pair (.sym k_if_) (.pair tst (.pair cn (.pair al .nil))))
  /-- application, in tail or non-tail position -/
  | app {f c ns t} (fn args : Datum) : AppHead fn → F2 G f c ns false fn → F2L G f c ns args →
      F2 G (f + 1) c ns t (.pair fn args)
  /-- `(lambda (x …) b bs …)`: fixed arity, distinct parameters, no internal definitions; the map of the
      new lambda is the formals followed by captured variables, each taken from the enclosing map -/
  | lambda {f c ns t} (formals body : Datum) (p : LambdaParts) (ps : List Text) (b : Datum) (bs : List Datum)
      (caps : List (Text × Source)) :
      lambdaParts f c (.pair (.sym k_lambda) (.pair formals body)) false = .ok p →
      Spec.Eval.parseFormals formals = some (ps, none) → p.formals = ps → p.isVararg = false → ps.Nodup →
      properList body = some (b :: bs) → (∀ e ∈ b :: bs, Spec.Eval.isDefine e = false) →
      p.ctx.envmap = argEntries ps ++ caps → (∀ q ∈ caps, q.2 = .iofEnvironment ∧ inEnv c q.1 = true) →
      F2B G f p.ctx (fun x => x ∈ ps ∨ ns x) body →
      F2 G (f + 1) c ns t (.pair (.sym k_lambda) (.pair formals body))
/-- operand lists -/
inductive F2L (G : Text → Prop) : Nat → Ctx → (Text → Prop) → Datum → Prop
  | nil {f c ns} : F2L G (f + 1) c ns .nil
  | cons {f c ns} (a d : Datum) : F2 G f c ns false a → F2L G f c ns d → F2L G (f + 1) c ns (.pair a d)
/-- bodies: the last expression is in tail position -/
inductive F2B (G : Text → Prop) : Nat → Ctx → (Text → Prop) → Datum → Prop
  | last {f c ns} (x : Datum) : F2 G f c ns true x → F2B G (f + 1) c ns (.pair x .nil)
  | cons {f c ns} (x y rest : Datum) : F2 G f c ns false x → F2B G f c ns (.pair y rest) →
      F2B G (f + 1) c ns (.pair x (.pair y rest))
end

/-! ## representation -/

structure RepData2 (ops : HeapOps H) extends RepData ops where
  /-- the element cells of the vector a machine value denotes (vector payloads are opaque in `Machine.lean`) -/
  vecElems : H → VCell → Option (List VCell)
  /-- the object at a heap address is a lexical environment (what ENTER requires of a closure's environment) -/
  envOK : H → Nat → Prop
  /-- the sources of the environment map of the lambda object at a heap address -/
  lamSrcs : H → Nat → Option (List RSrc)
  /-- heap address of the lambda with a given index in the compiler's table -/
  LM : Nat → Nat
  /-- the compiler's table after the whole program has been compiled -/
  final : List LambdaM
  /-- the global variables `set!` may assign: they are bound, and stay bound (marwood's `set!` of an unbound
      global defines it, `Spec.Eval`'s fails: DESIGN §7.5) -/
  setG : Text → Prop

variable {ops : HeapOps H}

/-- (environment id, slot) ↔ specification location -/
abbrev World := Nat → Nat → Nat → Prop

def World.le (W W' : World) : Prop := ∀ e n l, W e n l → W' e n l

def isEnvPtr : VCell → Bool
  | .lexEnvPtr _ _ => true
  | _ => false

/-- slot `j` of environment `ep` denotes the variable location `(e, n)`: one level of indirection at most -/
def Denotes (ops : HeapOps H) (h : H) (ep j e n : Nat) : Prop :=
  ops.envGet h ep j = some (.lexEnvPtr e n) ∨
  (e = ep ∧ n = j ∧ ∃ v, ops.envGet h ep j = some v ∧ isEnvPtr v = false)

/-- the code object `finishLambda` registers -/
def lamOf (p : LambdaParts) (bcode : List BC) : LambdaM :=
  { args := p.formals, isVararg := p.isVararg, envmap := p.ctx.envmap,
    bc := p.prologue ++ bcode ++ [.op .ret], topLevel := false }

/-- closure `(lam, cenv)` is the value of `(lambda ps body…)` closed over `ρc` -/
def ClosOK (D : RepData2 ops) (W : World) (h : H) (lam cenv : Nat) (ps : List Text) (body : List Datum)
    (ρc : Env) : Prop :=
  ∃ (f : Nat) (cst cst1 : CState) (co : Ctx) (formals bodyD : Datum) (p : LambdaParts) (bcode : List BC)
    (caps : List (Text × Source)),
    lambdaParts f co (.pair (.sym k_lambda) (.pair formals bodyD)) false = .ok p ∧
    p.formals = ps ∧ p.isVararg = false ∧ ps.Nodup ∧ properList bodyD = some body ∧
    (∀ e ∈ body, Spec.Eval.isDefine e = false) ∧
    compileBody f cst p.ctx 1 bodyD = .ok (cst1, bcode) ∧
    D.final[cst1.lambdas.length]? = some (lamOf p bcode) ∧ cst1.lambdas <+: D.final ∧
    lam = D.LM cst1.lambdas.length ∧ ops.isLambda h lam = true ∧
    F2B D.setG f p.ctx (fun x => x ∈ ps ∨ bound ρc x) bodyD ∧
    D.lamSrcs h lam = some (p.ctx.envmap.map (rsrc co.envmap)) ∧
    p.ctx.envmap = argEntries ps ++ caps ∧ (∀ q ∈ caps, q.2 = .iofEnvironment) ∧
    (∀ j, j < p.ctx.envmap.length → ∃ g, ops.envGet h cenv j = some g) ∧
    (∀ j x, ps.length ≤ j → p.ctx.envmap[j]? = some (x, .iofEnvironment) →
      ∃ e n l, ops.envGet h cenv j = some (.lexEnvPtr e n) ∧ ρc.lookup x = some l ∧ W e n l) ∧
    D.envOK h cenv

/-- machine value `v` represents `w` -/
def VR2 (D : RepData2 ops) (W : World) (h : H) (S : Array Cell) (v : VCell) : Val → Prop
  | .closure ps rest body ρc =>
    rest = none ∧ ∃ lam cenv, ops.callee h v = .closure lam cenv ∧ ClosOK D W h lam cenv ps body ρc
  | w => D.VR h S v w

/-- how a bytecode cell of the compiler model appears in a lambda whose environment map is `em` -/
def Loads2 (D : RepData2 ops) (em : List (Text × Source)) (h : H) (S : Array Cell) : BC → VCell → Prop
  | .op o, v => v = .opcode o
  | .acc, v => v = .acc
  | .global x, v => D.named x ∧ v = .globSlot (D.slot x)
  | .envSlot x, v => ∃ j, slotIdx em x = some j ∧ v = .lexEnvSlot j
  | .argc n, v => v = .argc n
  | .target o, v => v = .ptr o
  | .void, v => v = .void
  | .datum d, v => (∀ o, v ≠ .opcode o) ∧ DatumAt D.toRepData D.vecElems h S v d
  | .lambda id, v => v = .ptr (D.LM id) ∧ ∀ lamM, D.final[id]? = some lamM →
      ops.isLambda h (D.LM id) = true ∧ D.lamSrcs h (D.LM id) = some (lamM.envmap.map (rsrc em))
  | _, _ => False

/-- `code` sits in lambda `l` (environment map `em`) from offset `base` -/
def CodeAt2 (D : RepData2 ops) (em : List (Text × Source)) (h : H) (S : Array Cell) (l base : Nat)
    (code : List BC) : Prop :=
  ops.isLambda h l = true ∧
  ∀ i bc, code[i]? = some bc → ∃ v, ops.fetch h l (base + i) = some v ∧ Loads2 D em h S bc v

/-- every lambda of the compiler's table is in the heap at its address -/
def AllLoaded (D : RepData2 ops) (h : H) (S : Array Cell) : Prop :=
  ∀ id lamM, D.final[id]? = some lamM →
    CodeAt2 D lamM.envmap h S (D.LM id) 0 lamM.bc ∧ ops.lambdaInfo h (D.LM id) = some ⟨lamM.args.length⟩

/-- the store grew; cells that are not variables are unchanged, variables stay variables -/
structure StoreExt (S S' : Array Cell) : Prop where
  size : S.size ≤ S'.size
  keep : ∀ (l : Nat) (c : Cell), S[l]? = some c → (∀ v, c ≠ .var v) → S'[l]? = some c
  var : ∀ (l : Nat) (v : Val), S[l]? = some (.var v) → ∃ v', S'[l]? = some (.var v')

/-- what later heaps keep -/
structure Ext2 (D : RepData2 ops) (h : H) (S : Array Cell) (h' : H) (S' : Array Cell) : Prop where
  store : StoreExt S S'
  vr : ∀ v w, D.VR h S v w → D.VR h' S' v w
  /-- compile-time constants stay as they were laid out (nothing mutates a constant) -/
  datum : ∀ v d, DatumAt D.toRepData D.vecElems h S v d → DatumAt D.toRepData D.vecElems h' S' v d
  code : ∀ l, ops.isLambda h l = true → ops.isLambda h' l = true ∧ (∀ o, ops.fetch h' l o = ops.fetch h l o) ∧
    ops.lambdaInfo h' l = ops.lambdaInfo h l ∧ D.lamSrcs h' l = D.lamSrcs h l
  clos : ∀ v l e, ops.callee h v = .closure l e → ops.callee h' v = .closure l e
  envOK : ∀ e, D.envOK h e → D.envOK h' e
  envPtr : ∀ e k a b, ops.envGet h e k = some (.lexEnvPtr a b) → ops.envGet h' e k = some (.lexEnvPtr a b)
  envVal : ∀ e k v, ops.envGet h e k = some v → isEnvPtr v = false →
    ∃ v', ops.envGet h' e k = some v' ∧ isEnvPtr v' = false

/-- the current environment represents `ρ` through the binding context `c` -/
def EnvRep (ops : HeapOps H) (W : World) (h : H) (c : Ctx) (ep : Nat) (ρ : Env) : Prop :=
  ∀ x j, slotIdx c.envmap x = some j → ∃ e n l, Denotes ops h ep j e n ∧ ρ.lookup x = some l ∧ W e n l

/-- heap (global environment, code, lexical environments) represents the specification state -/
structure Inv2 (D : RepData2 ops) (W : World) (h : H) (σ : SSt) : Prop where
  bound : ∀ x w, D.named x → σ.globals.lookup x = some w → VR2 D W h σ.store (ops.globGet h (D.slot x)) w
  unbound : ∀ x, D.named x → σ.globals.lookup x = none → ops.globGet h (D.slot x) = .undefined
  extra : D.SRx h σ.store
  gset : ∀ x, D.setG x → σ.globals.lookup x ≠ none
  loaded : AllLoaded D h σ.store
  wfun : ∀ e n l l', W e n l → W e n l' → l = l'
  winj : ∀ e n e' n' l, W e n l → W e' n' l → e = e' ∧ n = n'
  vars : ∀ e n l, W e n l → ∃ v w, ops.envGet h e n = some v ∧ isEnvPtr v = false ∧
    σ.store[l]? = some (.var w) ∧ VR2 D W h σ.store v w

/-- the slot CLOSURE builds for an entry of the map -/
def cloSlot (ops : HeapOps H) (h : H) (ep : Nat) : RSrc → VCell
  | .iofEnv k => match ops.envGet h ep k with
    | some (.lexEnvPtr e n) => .lexEnvPtr e n
    | _ => .lexEnvPtr ep k
  | _ => .undefined

/-- the slot ENTER builds for a captured entry, given the closure environment's slot -/
def actCaptured (cenv j : Nat) : Option VCell → VCell
  | some (.lexEnvPtr e n) => .lexEnvPtr e n
  | _ => .lexEnvPtr cenv j

/-- the ASSUMED laws of stage 2 -/
structure Laws2 (D : RepData2 ops) : Prop where
  slot_inj : ∀ a b, D.named a → D.named b → D.slot a = D.slot b → a = b
  /-- how the machine observes a stage-1 value -/
  truth : ∀ h S v w, D.VR h S v w → (ops.deref h v = .bool false ↔ w = .bool false)
  ne_undefined : ∀ h S v w, D.VR h S v w → v ≠ .undefined
  not_envptr : ∀ h S v w, D.VR h S v w → isEnvPtr v = false
  void : ∀ h S, D.VR h S .void .void
  /-- … and a closure -/
  clos_true : ∀ h v l e, ops.callee h v = .closure l e → ops.deref h v ≠ .bool false
  clos_ne_undefined : ∀ h v l e, ops.callee h v = .closure l e → v ≠ .undefined
  clos_not_envptr : ∀ h v l e, ops.callee h v = .closure l e → isEnvPtr v = false
  /-- pairs and vectors: a heap pair / vector whose components represent … represents the store pair / vector -/
  vr_pair : ∀ h S v (l : Nat) a d pa pd, S[l]? = some (.pair a d) → ops.deref h v = .pair pa pd →
    D.VR h S (.ptr pa) a → D.VR h S (.ptr pd) d → D.VR h S v (.pair l)
  vr_vec : ∀ h S v (l : Nat) xs ps, S[l]? = some (.vec xs) → D.vecElems h v = some ps → All2 (D.VR h S) ps xs →
    D.VR h S v (.vec l)
  /-- stage-1 representations do not look at variables of the store -/
  vr_store : ∀ h S S' v w, StoreExt S S' → D.VR h S v w → D.VR h S' v w
  srx_store : ∀ h S S', StoreExt S S' → D.SRx h S → D.SRx h S'
  /-- the global environment is a store; writing it changes nothing else -/
  glob_get_put : ∀ h S x v m, D.SRx h S → D.named x →
    ops.globGet (ops.globPut h (D.slot x) v) m = if m = D.slot x then v else ops.globGet h m
  globPut_ext : ∀ h S n u, D.SRx h S → Ext2 D h S (ops.globPut h n u) S ∧ D.SRx (ops.globPut h n u) S ∧
    ∀ e k, ops.envGet (ops.globPut h n u) e k = ops.envGet h e k
  /-- assignment to a slot that holds a value -/
  envPut_ok : ∀ h S e k old u, D.SRx h S → ops.envGet h e k = some old → isEnvPtr old = false →
    isEnvPtr u = false →
    ∃ h', ops.envPut h e k u = some h' ∧ Ext2 D h S h' S ∧ D.SRx h' S ∧
      (∀ e' k', ops.envGet h' e' k' = if e' = e ∧ k' = k then some u else ops.envGet h e' k') ∧
      ∀ m, ops.globGet h' m = ops.globGet h m
  /-- CLOSURE -/
  closure_ok : ∀ h S lam ep bp st (srcs : List RSrc), D.SRx h S → ops.isLambda h lam = true → D.lamSrcs h lam = some srcs →
    (∀ (j : Nat) k, srcs[j]? = some (RSrc.iofEnv k) → ∃ g, ops.envGet h ep k = some g) →
    (∀ (j : Nat) n, srcs[j]? ≠ some (RSrc.iofArg n)) →
    ∃ h' p cenv, ops.makeClosure h lam ep bp st = .ok (h', .ptr p) ∧
      ops.callee h' (.ptr p) = .closure lam cenv ∧ (∀ k, ops.envGet h cenv k = none) ∧
      (∀ (j : Nat) src, srcs[j]? = some src → ops.envGet h' cenv j = some (cloSlot ops h ep src)) ∧
      (∀ e k, e ≠ cenv → ops.envGet h' e k = ops.envGet h e k) ∧
      (∀ m, ops.globGet h' m = ops.globGet h m) ∧ Ext2 D h S h' S ∧ D.SRx h' S ∧ D.envOK h' cenv
  /-- ENTER of a closure: arguments from the stack, captured entries copied from the closure environment -/
  activation_ok : ∀ h S lam cenv bp (st : Stack) (srcs : List RSrc) nargs, D.SRx h S → ops.isLambda h lam = true →
    D.lamSrcs h lam = some srcs → ops.lambdaInfo h lam = some ⟨nargs⟩ →
    D.envOK h cenv →
    (∀ (j : Nat) src, srcs[j]? = some src → ∃ g, ops.envGet h cenv j = some g) →
    (∀ (j : Nat) i, srcs[j]? = some (RSrc.arg i) → i < nargs ∧ nargs - i ≤ bp ∧ bp - (nargs - i) + 1 < st.cells.length) →
    ∃ h' a, ops.makeActivation h lam cenv bp st = .ok (h', a) ∧ (∀ k, ops.envGet h a k = none) ∧
      (∀ (j : Nat) i v, srcs[j]? = some (RSrc.arg i) → st.cells[bp - (nargs - i) + 1]? = some v →
        ops.envGet h' a j = some v) ∧
      (∀ (j : Nat) k, srcs[j]? = some (RSrc.iofEnv k) → ops.envGet h' a j = some (actCaptured cenv j (ops.envGet h cenv j))) ∧
      (∀ e k, e ≠ a → ops.envGet h' e k = ops.envGet h e k) ∧
      (∀ m, ops.globGet h' m = ops.globGet h m) ∧ Ext2 D h S h' S ∧ D.SRx h' S
  /-- `CALL`/`TCALL` with a primitive procedure in `acc`: as in stage 1, now with closures among the
      arguments and in the state -/
  call : ∀ n W h (σ : SSt) vf p vs ws w (σ' : SSt), Inv2 D W h σ → D.VR h σ.store vf (.prim p) →
    All2 (VR2 D W h σ.store) vs ws → (evalN n).apply (.prim p) ws σ = .ok w σ' →
    ∃ id h' r, ops.callee h vf = .builtin id ∧ ops.builtinKind h id = .generic ∧
      builtinResult ops h id vs.reverse = .ok (h', r) ∧
      VR2 D W h' σ'.store r w ∧ Inv2 D W h' σ' ∧ Ext2 D h σ.store h' σ'.store

/-! ## what a run establishes -/

structure Run2 (D : RepData2 ops) (W' : World) (s : MSt H) (len : Nat) (σ σ' : SSt) (w : Val) (s' : MSt H) :
    Prop where
  steps : Steps ops s s'
  ipL : s'.ipL = s.ipL
  ipO : s'.ipO = s.ipO + len
  bp : s'.bp = s.bp
  ep : s'.ep = s.ep
  stack : LiveEq s.stack s'.stack
  swf : SWF s'.stack
  acc : VR2 D W' s'.heap σ'.store s'.acc w
  inv : Inv2 D W' s'.heap σ'
  ext : Ext2 D s.heap σ.store s'.heap σ'.store

/-- operand lists -/
structure ArgsRun2 (D : RepData2 ops) (W' : World) (s : MSt H) (len : Nat) (σ σ' : SSt) (ws : List Val)
    (vs : List VCell) (s' : MSt H) : Prop where
  steps : Steps ops s s'
  ipL : s'.ipL = s.ipL
  ipO : s'.ipO = s.ipO + len
  bp : s'.bp = s.bp
  ep : s'.ep = s.ep
  stack : LiveEq (pushAll s.stack vs) s'.stack
  swf : SWF s'.stack
  vals : All2 (VR2 D W' s'.heap σ'.store) vs ws
  inv : Inv2 D W' s'.heap σ'
  ext : Ext2 D s.heap σ.store s'.heap σ'.store

end Marwood.Lemmas.CompileCorrect2
