import Marwood.Lemmas.CompileVerifiesOps
import Marwood.Lemmas.ConcreteLaws
import Marwood.Lemmas.GoodDefs
/-!
# T04.6 ⇒ the code clauses of the machine invariant for the cells the compiler adds

`CInv` (C03/C04/C05/C07/C13: "every lambda cell passes the verifier, has no `IofArgument` source, addresses
only its own argument cells") and `LamOk` (C03/C12: MOV / MOVIMM never go through a `Ptr`) are **assumed** of
the heap an evaluation starts in, and `ExtCodeLaws.compileEval` / `prepare_eval` were assumed to re-establish
them ("the compiler is unmodelled", lib/props/c12.py). For the compiler model they are now derived:
`loaded_ok` — a lambda object whose code is a loading (`Enc`) of a code object of `compileRunnable` satisfies
all four clauses; `GrowsL.inv` / `compiled_install` — a heap that differs from a `CInv` heap by new lambda
cells holding such objects (allocation facts about `put` assumed: cells not on the free list, map sizes,
continuation cells unchanged) is a `CInv` heap again, and old code is kept.
-/
namespace Marwood.Vm.Concrete
open Marwood Marwood.Vm Marwood.Vm.Verify Marwood.Lemmas.Good Marwood.Lemmas.Sim
open Marwood.Heap (GcState)

/-- a code object of the compiler model: procedure code with a structured body, or the entry lambda -/
def CodeObj (m : LambdaM) : Prop := ProcShape m ∨ ∃ id, m = entryLam id

/-- the heap's lambda object `cl` is a loading of the model's code object `m`: its cells are `Enc`-related
    to the symbolic code, an `IofArgument` source only arises from an `iofArgument` source of the model, and the
    environment map has as many entries as the model's (`EnvironmentMap::new_from_iof` builds it from the same
    formals, internal definitions and free symbols; the order within the last two groups is the iteration order of a
    `HashSet`, which the model does not fix — the length does not depend on it). In particular the loaded object
    captures (non-empty map) exactly when the model's does. -/
structure LoadedLam (m : LambdaM) (cl : CLambda) : Prop where
  bc : EncList m.bc cl.bc
  iof : ∀ y ∈ cl.envmap, ∀ n, y.2 = Source.iofArg n → ∃ x ∈ m.envmap, x.2 = Vm.Source.iofArgument n
  envLen : cl.envmap.length = m.envmap.length

def needStep (m : Nat) (c : VCell) : Nat :=
  match c with
  | .bpOffset off => max m ((-off).toNat + 1)
  | _ => m

theorem needStep_noBp (m : Nat) (c : VCell) (h : ∀ off, c ≠ VCell.bpOffset off) : needStep m c = m := by
  cases c <;> first | rfl | exact absurd rfl (h _)

theorem foldl_needStep : ∀ (l : List VCell) (m : Nat), (∀ c ∈ l, ∀ off, c ≠ VCell.bpOffset off) →
    l.foldl needStep m = m
  | [], _, _ => rfl
  | c :: t, m, hc => by
    rw [List.foldl_cons, needStep_noBp m c (hc c (by simp))]
    exact foldl_needStep t m (fun c' hc' => hc c' (by simp [hc']))

theorem argNeed_noBp {cells : List VCell} (h : NoBp cells) : argNeed cells = 0 := by
  show cells.foldl needStep 0 = 0
  apply foldl_needStep
  intro c hc off hco
  obtain ⟨i, hi, rfl⟩ := List.getElem_of_mem hc
  exact h i off (by rw [List.getElem?_eq_getElem hi, hco])

theorem opndAll_notPtr (o : Option VCell) : opndAll notPtr o = opndC notPtrC o := by
  cases o with
  | none => rfl
  | some v => cases v <;> rfl

theorem opndAll_plainGlob (o : Option VCell) : opndAll plainGlob o = opndC isVal o := by
  cases o with
  | none => rfl
  | some v => simp [opndAll, opndC, isVal_eq_plainGlob]

theorem lamOk_of_opsOK {cl : CLambda} (hi : ∀ p ∈ cl.envmap, ∀ a, p.2 ≠ Source.iofArg a)
    (ho : OpsOK cl.bc 0 cl.bc.length) : LamOk cl := by
  have hlt : ∀ j v, cl.bc[j]? = some v → j < cl.bc.length := by
    intro j v hj
    rcases Nat.lt_or_ge j cl.bc.length with h | h
    · exact h
    · rw [List.getElem?_eq_none h] at hj; cases hj
  refine ⟨hi, ?_, ?_⟩
  · intro j hj
    have := (ho j (hlt j _ hj)).1 (by simpa using hj)
    simp only [Nat.zero_add] at this
    rw [opndAll_notPtr, opndAll_notPtr]
    exact this.2
  · intro j hj
    have := (ho j (hlt j _ hj)).2 (by simpa using hj)
    simp only [Nat.zero_add] at this
    rw [opndAll_plainGlob, opndAll_notPtr]
    exact this.2

theorem procShape_opsOK {m : LambdaM} {cells : List VCell} (hs : ProcShape m) (he : EncList m.bc cells) :
    OpsOK cells 0 cells.length := by
  obtain ⟨body, hbc, hblk, _⟩ := hs
  obtain ⟨hlen, _⟩ := encList_spec he
  have hca := encList_cellsAt he
  rw [hbc] at hca hlen
  obtain ⟨hc1, hcr⟩ := hca.append
  obtain ⟨hc2, hcb⟩ := hc1.append
  obtain ⟨hcp, hce⟩ := hc2.append
  have e2 := opsOK_one hce (by decide) (by decide)
  have e4 := opsOK_one hcr (by decide) (by decide)
  cases hva : m.isVararg
  · simp only [hva, Bool.false_eq_true, if_false, List.nil_append, List.length_nil, List.length_cons,
      List.length_append, Nat.add_zero, Nat.zero_add] at hblk hcb e2 e4 hlen
    have e3 := blk_opsOK hblk hcb
    have := (e2.append (e3.cast (by omega) rfl)).append (e4.cast (by omega) rfl)
    exact this.cast rfl (by omega)
  · simp only [hva, if_true, List.length_nil, List.length_cons, List.length_append, Nat.zero_add] at hblk hcb hcp e2 e4 hlen
    have e1 := opsOK_one hcp (by decide) (by decide)
    have e3 := blk_opsOK hblk hcb
    have := ((e1.append (e2.cast (by omega) rfl)).append (e3.cast (by omega) rfl)).append (e4.cast (by omega) rfl)
    exact this.cast rfl (by omega)

/-- **the four code clauses** for a loaded code object of the compiler model -/
theorem loaded_ok {m : LambdaM} {cl : CLambda} (hm : CodeObj m) (hl : LoadedLam m cl) :
    (verifyLam cl.bc).isSome = true ∧ (∀ x ∈ cl.envmap, ∀ n, x.2 ≠ Source.iofArg n) ∧
      argNeed cl.bc ≤ cl.args.length ∧ LamOk cl := by
  rcases hm with hs | ⟨id, rfl⟩
  · have hni : ∀ x ∈ cl.envmap, ∀ n, x.2 ≠ Source.iofArg n := by
      intro y hy n hn
      obtain ⟨x, hx, hxn⟩ := hl.iof y hy n hn
      obtain ⟨_, _, _, h3⟩ := hs
      exact h3 x hx n hxn
    obtain ⟨t, ht, _⟩ := proc_verifyLam hs hl.bc
    refine ⟨by simp [ht], hni, ?_, lamOk_of_opsOK hni (procShape_opsOK hs hl.bc)⟩
    rw [argNeed_noBp (procShape_noBp hs hl.bc)]
    exact Nat.zero_le _
  · have hni : ∀ x ∈ cl.envmap, ∀ n, x.2 ≠ Source.iofArg n := by
      intro y hy n hn
      obtain ⟨x, hx, _⟩ := hl.iof y hy n hn
      cases hx
    obtain ⟨t, ht, _⟩ := entry_verifyLam hl.bc
    have hb := hl.bc
    obtain ⟨bc, args, em⟩ := cl
    simp only at hb ht hni ⊢
    match bc, hb with
    | [v0, v1, v2, v3, v4, v5, v6], hb =>
      simp only [entryLam, entryCode, EncList, Enc, and_true] at hb
      obtain ⟨rfl, rfl, rfl, ⟨a, rfl⟩, rfl, rfl, rfl⟩ := hb
      refine ⟨by simp [ht], hni, by simp [argNeed], hni, ?_, ?_⟩
      · intro j hj
        rcases j with _ | _ | _ | _ | _ | _ | _ | j <;> simp at hj
      · intro j hj
        rcases j with _ | _ | _ | _ | _ | _ | _ | j <;> simp at hj
        exact ⟨rfl, rfl⟩

/-! ## installing compiled code in a heap -/

/-- `h'` is a later heap whose new lambda cells satisfy `Q` and are allocated; continuation cells are the old
    ones (`Grows NoCont` with the clause `newLam` relaxed) -/
structure GrowsL (Q : CLambda → Prop) (h h' : CHeap) : Prop where
  sizes : h'.gc.size = h'.cells.size
  shape : 0 < h'.chunk ∧ h'.chunk % 4 = 0 ∧ ∃ k, 0 < k ∧ h'.cells.size = k * h'.chunk
  noUsed : ∀ i : Nat, h'.gc[i]? ≠ some GcState.used
  keep : ∀ (l : Nat) (lam : CLambda), h.cells[l]? = some (CCell.lambda lam) → h'.cells[l]? = some (CCell.lambda lam)
  newLam : ∀ (l : Nat) (lam : CLambda), h'.cells[l]? = some (CCell.lambda lam) →
    h.cells[l]? = some (CCell.lambda lam) ∨ (Q lam ∧ l ∉ h'.free)
  newCont : ∀ (p : Nat) (c : Cont), h'.cells[p]? = some (CCell.cont c) → h.cells[p]? = some (CCell.cont c)
  free : ∀ p : Nat, p ∈ h'.free → p ∈ h.free ∨ h.cells.size ≤ p

variable {V : VCell → Prop}

theorem GrowsL.code {Q : CLambda → Prop} {h h' : CHeap} (g : GrowsL Q h h') {l : Nat} {bc : List VCell}
    (hc : codeC h l = some bc) : codeC h' l = some bc := by
  obtain ⟨lam, h1, h2⟩ := codeC_some hc
  rw [codeC_of_cell (g.keep l lam h1), h2]

/-- the invariant survives the installation of verified code, and old code is kept -/
theorem GrowsL.inv {Q : CLambda → Prop} {h h' : CHeap} (inv : CInvG V h) (g : GrowsL Q h h')
    (hQ : ∀ lam, Q lam → (verifyLam lam.bc).isSome = true ∧ (∀ x ∈ lam.envmap, ∀ n, x.2 ≠ Source.iofArg n) ∧
      argNeed lam.bc ≤ lam.args.length) :
    CInvG V h' ∧ ∀ l bc, codeC h l = some bc → codeC h' l = some bc := by
  have hty : ∀ l t, tyOf (codeC h) l = some t → tyOf (codeC h') l = some t :=
    tyOf_mono (fun l bc hc => g.code hc)
  refine ⟨⟨g.sizes, g.shape, g.noUsed, ?_, ?_, ?_, ?_, ?_⟩, fun l bc hc => g.code hc⟩
  · intro l lam hl hm
    rcases g.newLam l lam hl with hold | ⟨_, hnf⟩
    · rcases g.free l hm with h1 | h1
      · exact inv.lamFree l lam hold h1
      · have := lt_of_getElem? hold; omega
    · exact hnf hm
  · intro l lam hl
    rcases g.newLam l lam hl with hold | ⟨hq, _⟩
    · exact inv.lamVer l lam hold
    · exact (hQ lam hq).1
  · intro l lam hl
    rcases g.newLam l lam hl with hold | ⟨hq, _⟩
    · exact inv.noIofArg l lam hold
    · exact (hQ lam hq).2.1
  · intro l lam hl
    rcases g.newLam l lam hl with hold | ⟨hq, _⟩
    · exact inv.lamArgs l lam hold
    · exact (hQ lam hq).2.2
  · intro p c hc
    obtain ⟨K, hk⟩ := inv.cont p c (g.newCont p c hc)
    refine ⟨K, hk.cap, hk.frames.mono hty, ?_⟩
    intro t ht
    obtain ⟨t0, _, ht0, _⟩ := hk.frames.has_ty
    have := hty _ _ ht0
    rw [ht] at this
    have e : t = t0 := Option.some.inj this
    rw [e]
    exact hk.body t0 ht0

theorem GrowsL.lamAll {Q : CLambda → Prop} {h h' : CHeap} (la : LamAll h) (g : GrowsL Q h h')
    (hQ : ∀ lam, Q lam → LamOk lam) : LamAll h' := by
  intro i l hl
  rcases g.newLam i l hl with hold | ⟨hq, _⟩
  · exact la i l hold
  · exact hQ l hq

/-- the lambda objects `compile_runnable` may install for `e`: loadings of the code objects of the model -/
def CompiledFor (e : Datum) (fuel : Nat) (cl : CLambda) : Prop :=
  ∃ st lam ent m, compileRunnable e fuel = .ok (st, lam, ent) ∧ (m = lam ∨ m ∈ st.lambdas ∨ m = ent) ∧
    LoadedLam m cl

theorem compiledFor_ok {e : Datum} {fuel : Nat} {cl : CLambda} (h : CompiledFor e fuel cl) :
    (verifyLam cl.bc).isSome = true ∧ (∀ x ∈ cl.envmap, ∀ n, x.2 ≠ Source.iofArg n) ∧
      argNeed cl.bc ≤ cl.args.length ∧ LamOk cl := by
  obtain ⟨st, lam, ent, m, hc, hm, hl⟩ := h
  refine loaded_ok ?_ hl
  unfold compileRunnable at hc
  cases ht : compileTop e fuel with
  | error err => rw [ht] at hc; cases hc
  | ok r =>
    obtain ⟨st', lam'⟩ := r
    rw [ht] at hc
    cases hc
    obtain ⟨h1, h2⟩ := compileTop_shape ht
    rcases hm with rfl | hm | rfl
    · exact .inl h1
    · exact .inl (h2 m hm)
    · exact .inr ⟨_, rfl⟩

/-- **what `prepare_eval` / `eval`'s compiler re-establish** (the code half): a heap that differs from a `CInv`
    heap by lambda cells holding loaded output of the compiler model is a `CInv` heap, keeps the old code,
    and keeps the code discipline `LamAll` -/
theorem compiled_install {e : Datum} {fuel : Nat} {h h' : CHeap} (inv : CInvG V h)
    (g : GrowsL (CompiledFor e fuel) h h') :
    CInvG V h' ∧ (∀ l bc, codeC h l = some bc → codeC h' l = some bc) ∧ (LamAll h → LamAll h') := by
  obtain ⟨a, b⟩ := g.inv inv (fun lam hq => by
    obtain ⟨x, y, z, _⟩ := compiledFor_ok hq; exact ⟨x, y, z⟩)
  exact ⟨a, b, fun la => g.lamAll la (fun lam hq => (compiledFor_ok hq).2.2.2)⟩

end Marwood.Vm.Concrete
