import Marwood.Lemmas.CompileCorrect3Pres
/-!
# T01.3 stage 3 — `VARARG`: the surplus operands become a fresh list

Forward execution lemma for `stepVarArg` in the state `CALL`/`TCALL` leaves. Both branches of run.rs are covered:
exactly one surplus operand (rewritten in place), and the general loop `varargCollect` (which also builds the
empty list).
-/
namespace Marwood.Lemmas.CompileCorrect3
open Marwood Marwood.Vm Marwood.Lemmas.CompileCorrect Marwood.Lemmas.CompileCorrect2
open Marwood.Spec.Eval (Val Cell)
variable {H : Type} {ops : HeapOps H} {D : RepData2 ops}

/-! ## lists -/

theorem all2_snoc {α β : Type} {R : α → β → Prop} {l : List α} {l' : List β} {a : α} {b : β}
    (h : All2 R l l') (hab : R a b) : All2 R (l ++ [a]) (l' ++ [b]) := by
  induction h with
  | nil => exact .cons hab .nil
  | cons h1 _ ih => exact .cons h1 ih

theorem all2_rev {α β : Type} {R : α → β → Prop} {l : List α} {l' : List β}
    (h : All2 R l l') : All2 R l.reverse l'.reverse := by
  induction h with
  | nil => exact .nil
  | cons h1 _ ih => rw [List.reverse_cons, List.reverse_cons]; exact all2_snoc ih h1

theorem all2_drop {α β : Type} {R : α → β → Prop} : ∀ (n : Nat) {l : List α} {l' : List β},
    All2 R l l' → All2 R (l.drop n) (l'.drop n)
  | 0, _, _, h => h
  | _ + 1, _, _, .nil => .nil
  | n + 1, _, _, .cons _ t => all2_drop n t

/-- `v` is the list of `xs` followed by the tail `tv` -/
inductive ListTl (S : Array Cell) (tv : Val) : Val → List Val → Prop
  | nil : ListTl S tv tv []
  | cons {l a d as} : S[l]? = some (.pair a d) → ListTl S tv d as → ListTl S tv (.pair l) (a :: as)

theorem ListTl.of_listIn {S : Array Cell} {v : Val} {xs : List Val} (h : ListIn S v xs) : ListTl S .nil v xs := by
  induction h with
  | nil => exact .nil
  | cons hs _ ih => exact .cons hs ih

/-- the last element sits in a pair cell whose `cdr` is the tail -/
theorem ListTl.snoc_inv {S : Array Cell} {tv x : Val} : ∀ {xs : List Val} {v : Val}, ListTl S tv v (xs ++ [x]) →
    ∃ l, S[l]? = some (.pair x tv) ∧ ListTl S (.pair l) v xs
  | [], v, h => by
    change ListTl S tv v [x] at h
    cases h with
    | cons hs ht => cases ht; exact ⟨_, hs, .nil⟩
  | y :: ys, v, h => by
    change ListTl S tv v (y :: (ys ++ [x])) at h
    cases h with
    | cons hs ht =>
      obtain ⟨l', h1, h2⟩ := ListTl.snoc_inv ht
      exact ⟨l', h1, .cons hs h2⟩

/-! ## heap steps -/

theorem Step3.refl {h : H} {S : Array Cell} (hs : D.SRx h S) : Step3 D h S h :=
  ⟨Ext3.refl h S, hs, fun _ _ => rfl, fun _ => rfl⟩

/-- the pointer `heap.put` returns represents what the value represented -/
theorem VR3.put {W : World} {h h' : H} {S : Array Cell} {v : VCell} {w : Val} {a : Nat}
    (r : VR3 D W h S v w) (x : Step3 D h S h')
    (p1 : ∀ w, D.VR h S v w → D.VR h' S (.ptr a) w)
    (p2 : ∀ l e, ops.callee h v = .closure l e → ops.callee h' (.ptr a) = .closure l e)
    (p3 : ∀ x y, ops.deref h v = .pair x y → ops.deref h' (.ptr a) = .pair x y) : VR3 D W h' S (.ptr a) w := by
  cases r with
  | base hb => exact .base (p1 _ hb)
  | clos hc hok => exact .clos (p2 _ _ hc) (hok.mono x.ext (World.le_refl _))
  | pair hs hd r1 r2 =>
    exact .pair hs (p3 _ _ hd) (r1.mono x.ext (World.le_refl _)) (r2.mono x.ext (World.le_refl _))

/-! ## the stack -/

theorem pop_push' {a b : Stack} {v : VCell} (h : LiveEq (a.push v) b) (ha : SWF a) (hb : SWF b) :
    ∃ b', b.pop = .ok (v, b') ∧ LiveEq a b' ∧ SWF b' := by
  obtain ⟨h1, h2⟩ := pop_of_push h ha
  exact ⟨_, h1, h2, pop_swf hb⟩

/-- the list-building loop: the operands `rvs.reverse` on top of `a` are popped, last first, and consed onto the
    accumulator -/
theorem collect_ok (L : Laws3 D) {W : World} {S : Array Cell} {lv : Val} : ∀ (rvs : List VCell) (rws : List Val)
    (a b : Stack) (h : H) (acc : Nat) (tv : Val),
    All2 (VR3 D W h S) rvs rws → D.SRx h S → VR3 D W h S (.ptr acc) tv → ListTl S tv lv rws.reverse →
    LiveEq (pushAll a rvs.reverse) b → SWF a → SWF b →
    ∃ h' lst b', varargCollect ops rvs.length h acc b = .ok (h', lst, b') ∧ LiveEq a b' ∧ SWF b' ∧
      VR3 D W h' S (.ptr lst) lv ∧ Step3 D h S h'
  | [], rws, a, b, h, acc, tv, hall, hsrx, hacc, hlist, hst, _, hb => by
    cases hall
    cases hlist
    exact ⟨h, acc, b, rfl, hst, hb, hacc, Step3.refl hsrx⟩
  | v :: rvs, rws, a, b, h, acc, tv, hall, hsrx, hacc, hlist, hst, ha, hb => by
    cases hall with
    | @cons _ x _ rws' hvx hrest =>
    rw [List.reverse_cons] at hlist hst
    rw [pushAll_append] at hst
    change LiveEq ((pushAll a rvs.reverse).push v) b at hst
    obtain ⟨b1, hpop, hl1, hw1⟩ := pop_push' hst (pushAll_swf _ _ ha) hb
    obtain ⟨h1, pa, e1, s1, p1, p2, p3⟩ := L.put_val h S v W x hsrx hvx
    obtain ⟨h2, p, e2, s2, hd2⟩ := L.put_pair h1 S pa acc s1.srx
    obtain ⟨l, hS, hlist'⟩ := ListTl.snoc_inv hlist
    have hx1 : VR3 D W h1 S (.ptr pa) x := hvx.put s1 p1 p2 p3
    have hp : VR3 D W h2 S (.ptr p) (.pair l) :=
      .pair hS hd2 (hx1.mono s2.ext (World.le_refl _))
        ((hacc.mono s1.ext (World.le_refl _)).mono s2.ext (World.le_refl _))
    have s12 := s1.trans s2
    obtain ⟨h', lst, b', hc, hl', hw', hv', s'⟩ := collect_ok L rvs rws' a b1 h2 p (.pair l)
      (All2.vr3_mono hrest s12.ext (World.le_refl _)) s2.srx hp hlist' hl1 ha hw1
    refine ⟨h', lst, b', ?_, hl', hw', hv', s12.trans s'⟩
    simp only [List.length_cons, varargCollect, hpop, ok_bind, e1, asPtr, e2, hc]

/-! ## the instruction -/

theorem getOffset_neg {st : Stack} {k i : Nat} {v : VCell} (hk : st.sp = i + k) (h : st.cells[i]? = some v) :
    st.getOffset (-(k : Int)) = .ok v := by
  unfold Stack.getOffset
  have h0 : (0 : Int) ≤ (st.sp : Int) + -(k : Int) := by omega
  simp only [h0, if_true]
  have e : ((st.sp : Int) + -(k : Int)).toNat = i := by omega
  rw [e]
  exact stack_get_of h

theorem stepVarArg_ok (L : Laws3 D) {W : World} {s : MSt H} {S : Array Cell} {req : Nat} {vs : List VCell}
    {ws : List Val} {st0 : Stack} {epc lc oc : Nat} {lv : Val}
    (hinfo : ops.lambdaInfo s.heap s.ipL = some ⟨req + 1⟩) (hsrx : D.SRx s.heap S)
    (hvs : All2 (VR3 D W s.heap S) vs ws) (hreq : req ≤ vs.length) (hlist : ListIn S lv (ws.drop req))
    (hst : LiveEq (callFrame st0 vs epc lc oc) s.stack) (hw0 : SWF st0) (hw : SWF s.stack) :
    ∃ h' lst st', stepVarArg ops s = .ok { s with heap := h', stack := st' } ∧
      LiveEq (callFrame st0 (vs.take req ++ [.ptr lst]) epc lc oc) st' ∧ SWF st' ∧
      VR3 D W h' S (.ptr lst) lv ∧ Step3 D s.heap S h' := by
  have hlen : vs.length = ws.length := All2.length_eq hvs
  obtain ⟨k0, k1, k2, k3, k4⟩ := callFrame_cells st0 vs epc lc oc hw0
  have spS : s.stack.sp = st0.sp + vs.length + 3 := by rw [← hst.1, callFrame_sp]
  have cell : ∀ i, i ≤ st0.sp + vs.length + 3 → s.stack.cells[i]? = (callFrame st0 vs epc lc oc).cells[i]? :=
    fun i hi => (hst.2 i (by rw [callFrame_sp]; exact hi)).symm
  have hargc : s.stack.cells[st0.sp + vs.length + 1]? = some (.argc vs.length) := by
    rw [cell _ (by omega)]; exact k2
  have hoff2 : s.stack.getOffset (-2) = .ok (.argc vs.length) :=
    getOffset_neg (k := 2) (by omega) hargc
  have hu : usub (req + 1) 1 "vararg: args.len() - 1" = .ok req := by unfold usub; simp
  have hnlt : ¬ vs.length < req := by omega
  have hL : ∀ lst : Nat, (vs.take req ++ [VCell.ptr lst]).length = req + 1 := by
    intro lst; simp [List.length_take]; omega
  unfold stepVarArg
  simp only [hinfo, hu, ok_bind, hoff2, asArgc, hnlt, if_false]
  by_cases heq : vs.length = req + 1
  · -- exactly one surplus operand: rewritten in place
    simp only [heq, if_true]
    obtain ⟨v, hv⟩ : ∃ v, vs[req]? = some v := ⟨vs[req], List.getElem?_eq_getElem (by omega)⟩
    have hcv : s.stack.cells[st0.sp + 1 + req]? = some v := by
      rw [cell _ (by omega), k1 _ (by omega)]; exact hv
    have hoff3 : s.stack.getOffset (-3) = .ok v := getOffset_neg (k := 3) (by omega) hcv
    obtain ⟨x, hwx, hvx⟩ := All2.get hvs req v hv
    have hd : ws.drop req = [x] := by
      obtain ⟨hlt, hx⟩ := List.getElem?_eq_some_iff.1 hwx
      rw [List.drop_eq_getElem_cons hlt, hx, List.drop_of_length_le (by omega)]
    rw [hd] at hlist
    cases hlist with
    | @cons l _ d _ hS ht =>
    cases ht
    obtain ⟨h1, a, e1, s1, p1, p2, p3⟩ := L.put_val s.heap S v W x hsrx hvx
    obtain ⟨h2, n, e2, s2, q1, _, _⟩ := L.put_val h1 S .nil W .nil s1.srx (.base (L.nil _ _))
    obtain ⟨h3, p, e3, s3, hd3⟩ := L.put_pair h2 S a n s2.srx
    have hlt : st0.sp + 1 + req < s.stack.cells.length := by unfold SWF at hw; omega
    have hset : s.stack.setOffset (-3) (.ptr p) =
        .ok { s.stack with cells := s.stack.cells.set (st0.sp + 1 + req) (.ptr p) } := by
      unfold Stack.setOffset
      have h0 : (0 : Int) ≤ (s.stack.sp : Int) + -3 := by omega
      simp only [h0, if_true]
      have e : ((s.stack.sp : Int) + -3).toNat = st0.sp + 1 + req := by omega
      rw [e]
      unfold Stack.set
      simp only [hlt, if_true]
    simp only [hoff3, ok_bind, e1, e2, asPtr, e3, hset]
    refine ⟨h3, p, _, rfl, ?_, ?_, ?_, (s1.trans s2).trans s3⟩
    · have ne : ∀ i, i ≠ st0.sp + 1 + req →
          (s.stack.cells.set (st0.sp + 1 + req) (.ptr p))[i]? = s.stack.cells[i]? :=
        fun i hi => List.getElem?_set_ne (Ne.symm hi)
      refine liveEq_callFrame hw0 ?_ ?_ ?_ ?_ ?_ ?_
      · show s.stack.sp = _
        rw [hL]; omega
      · intro i hi
        show (s.stack.cells.set (st0.sp + 1 + req) (.ptr p))[i]? = _
        rw [ne i (by omega), cell i (by omega), k0 i hi]
      · intro j hj
        rw [hL] at hj
        show (s.stack.cells.set (st0.sp + 1 + req) (.ptr p))[st0.sp + 1 + j]? = _
        by_cases c : j = req
        · subst c
          rw [List.getElem?_set_self hlt, List.getElem?_append_right (by simp [List.length_take]; omega)]
          have : j - (List.take j vs).length = 0 := by simp [List.length_take]; omega
          rw [this]; rfl
        · rw [ne _ (by omega), cell _ (by omega), k1 _ (by omega),
            List.getElem?_append_left (by simp [List.length_take]; omega), List.getElem?_take_of_lt (by omega)]
      · show (s.stack.cells.set (st0.sp + 1 + req) (.ptr p))[_]? = _
        rw [hL, ne _ (by omega), ← heq]; exact hargc
      · show (s.stack.cells.set (st0.sp + 1 + req) (.ptr p))[_]? = _
        rw [hL, ne _ (by omega), ← heq, cell _ (by omega)]; exact k3
      · show (s.stack.cells.set (st0.sp + 1 + req) (.ptr p))[_]? = _
        rw [hL, ne _ (by omega), ← heq, cell _ (by omega)]; exact k4
    · show s.stack.sp < (s.stack.cells.set (st0.sp + 1 + req) (.ptr p)).length
      rw [List.length_set]; exact hw
    · have hx1 : VR3 D W h1 S (.ptr a) x := hvx.put s1 p1 p2 p3
      have s23 := s2.trans s3
      exact .pair hS hd3 (hx1.mono s23.ext (World.le_refl _))
        ((VR3.base (q1 _ (L.nil _ _))).mono s3.ext (World.le_refl _))
  · -- the loop
    simp only [heq, if_false]
    have hA := pushAll_swf st0 vs hw0
    have hB := push_swf (pushAll st0 vs) (.argc vs.length)
    have hC := push_swf ((pushAll st0 vs).push (.argc vs.length)) (.envPtr epc)
    unfold callFrame at hst
    obtain ⟨st1, pp1, l1, w1⟩ := pop_push' hst hC hw
    obtain ⟨st2, pp2, l2, w2⟩ := pop_push' l1 hB w1
    obtain ⟨st3, pp3, l3, w3⟩ := pop_push' l2 hA w2
    obtain ⟨h1, n, e1, s1, q1, _, _⟩ := L.put_val s.heap S .nil W .nil hsrx (.base (L.nil _ _))
    have hwa : SWF (pushAll st0 (vs.take req)) := pushAll_swf _ _ hw0
    obtain ⟨h', lst, b', hc, hl', hw', hv', s'⟩ := collect_ok (W := W) (lv := lv) L (vs.drop req).reverse
      (ws.drop req).reverse (pushAll st0 (vs.take req)) st3 h1 n .nil
      (all2_rev (all2_drop req (All2.vr3_mono hvs s1.ext (World.le_refl _)))) s1.srx
      (.base (q1 _ (L.nil _ _))) (by rw [List.reverse_reverse]; exact ListTl.of_listIn hlist)
      (by rw [List.reverse_reverse, ← pushAll_append, List.take_append_drop]; exact l3) hwa w3
    have hk : ((vs.drop req).reverse).length = vs.length - req := by simp
    rw [hk] at hc
    simp only [pp1, ok_bind, pp2, pp3, e1, asPtr, hc]
    refine ⟨h', lst, _, rfl, ?_, push_swf _ _, hv', s1.trans s'⟩
    unfold callFrame
    rw [hL, pushAll_append]
    change LiveEq (((((pushAll st0 (vs.take req)).push (.ptr lst)).push (.argc (req + 1))).push (.envPtr epc)).push
      (.instrPtr lc oc)) _
    exact (((hl'.push hwa hw' _).push (push_swf _ _) (push_swf _ _) _).push (push_swf _ _) (push_swf _ _) _).push
      (push_swf _ _) (push_swf _ _) _

/-- VARARG in the state CALL/TCALL leaves (operands `vs`, their number, `%ep`, the return address): the operands
    beyond the `req` required ones are collected into a fresh list that represents `lv`, and the frame is
    rewritten to `req + 1` operands. -/
theorem varArg_ok (L : Laws3 D) {W : World} {s : MSt H} {S : Array Cell} {req : Nat} {vs : List VCell}
    {ws : List Val} {st0 : Stack} {epc lc oc : Nat} {lv : Val}
    (hl : ops.isLambda s.heap s.ipL = true) (h0 : ops.fetch s.heap s.ipL s.ipO = some (.opcode .varArg))
    (hinfo : ops.lambdaInfo s.heap s.ipL = some ⟨req + 1⟩) (hsrx : D.SRx s.heap S)
    (hvs : All2 (VR3 D W s.heap S) vs ws) (hreq : req ≤ vs.length) (hlist : ListIn S lv (ws.drop req))
    (hst : LiveEq (callFrame st0 vs epc lc oc) s.stack) (hw0 : SWF st0) (hw : SWF s.stack) :
    ∃ h' lst st', step ops s = .ok ({ s with heap := h', stack := st', ipO := s.ipO + 1 }, false) ∧
      LiveEq (callFrame st0 (vs.take req ++ [.ptr lst]) epc lc oc) st' ∧ SWF st' ∧
      VR3 D W h' S (.ptr lst) lv ∧ Step3 D s.heap S h' := by
  obtain ⟨h', lst, st', h1, h2, h3, h4, h5⟩ :=
    stepVarArg_ok (s := { s with ipO := s.ipO + 1 }) L hinfo hsrx hvs hreq hlist hst hw0 hw
  refine ⟨h', lst, st', ?_, h2, h3, h4, h5⟩
  unfold step
  rw [readOpcode_eq hl h0]
  simp only [ok_bind, h1]

end Marwood.Lemmas.CompileCorrect3
