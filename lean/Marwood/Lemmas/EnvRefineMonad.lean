import Marwood.Spec.Scope
import Marwood.Vm.EnvRun
import Marwood.Lemmas.EnvOneLevel
/-!
# T02.4, part 1: running the two interpreters as state transformers

`exec m s` is the outcome and final state of a computation of either interpreter
(`ExceptT Err (StateM St)`). The lemmas of this file characterise the primitive steps of the
specification interpreter (`Marwood.Spec.Scope`) and of the model evaluator (`Marwood.Vm.EnvRun`) as
equations on `exec`; the definitions themselves are untouched (they are tied to the real VM by the
correspondence streams of C02).
-/
namespace Marwood.Vm.EnvRefine
open Marwood Marwood.Scope Marwood.Vm.Env

variable {ε σ α β : Type}

abbrev X (ε σ : Type) := ExceptT ε (StateM σ)

/-- outcome and final state -/
def exec (m : X ε σ α) (s : σ) : Except ε α × σ := m.run.run s

@[simp] theorem exec_pure (a : α) (s : σ) : exec (pure a : X ε σ α) s = (.ok a, s) := rfl
@[simp] theorem exec_throw (e : ε) (s : σ) : exec (throw e : X ε σ α) s = (.error e, s) := rfl
@[simp] theorem exec_get (s : σ) : exec (get : X ε σ σ) s = (.ok s, s) := rfl
@[simp] theorem exec_set (s' s : σ) : exec (set s' : X ε σ PUnit) s = (.ok ⟨⟩, s') := rfl
@[simp] theorem exec_modify (f : σ → σ) (s : σ) : exec (modify f : X ε σ PUnit) s = (.ok ⟨⟩, f s) := rfl

theorem exec_bind (m : X ε σ α) (k : α → X ε σ β) (s : σ) :
    exec (m >>= k) s = match exec m s with
      | (.ok a, s1) => exec (k a) s1
      | (.error e, s1) => (.error e, s1) := by
  simp only [exec, ExceptT.run_bind, StateT.run_bind]
  rcases h : (m.run.run s) with ⟨r, s1⟩
  cases r <;> simp <;> rfl

theorem exec_bind_ok (m : X ε σ α) (k : α → X ε σ β) (s s1 : σ) (a : α) (h : exec m s = (.ok a, s1)) :
    exec (m >>= k) s = exec (k a) s1 := by
  rw [exec_bind, h]

theorem exec_bind_err (m : X ε σ α) (k : α → X ε σ β) (s s1 : σ) (e : ε) (h : exec m s = (.error e, s1)) :
    exec (m >>= k) s = (.error e, s1) := by
  rw [exec_bind, h]

abbrev SVal := Spec.Scope.Val
abbrev MVal := Vm.EnvRun.Val
abbrev SSt := Spec.Scope.St
abbrev MSt := Vm.EnvRun.St
abbrev SErr := Spec.Scope.Err
abbrev MErr := Vm.EnvRun.Err

/-! ## the specification interpreter's primitive steps -/
section spec
open Marwood.Spec.Scope

theorem exec_alloc (v : SVal) (s : SSt) :
    exec (alloc v) s = (.ok s.store.size, { s with store := s.store.push v }) := rfl

theorem exec_tick (s : SSt) :
    exec Spec.Scope.tick s = (.ok (.int (s.counter + 1)), { s with counter := s.counter + 1 }) := rfl

theorem exec_logEvent (e : Event) (s : SSt) :
    exec (logEvent e) s = (.ok ⟨⟩, { s with log := e :: s.log }) := rfl

theorem exec_writeLoc (l : Loc) (v : SVal) (s : SSt) :
    exec (writeLoc l v) s = (.ok ⟨⟩, { s with store := s.store.setIfInBounds l v }) := rfl

theorem exec_locOf_local (x : Name) (ρ : Chain) (s : SSt) (l : Loc) (h : resolve x ρ = some l) :
    exec (locOf x ρ) s = (.ok l, s) := by
  unfold locOf; simp [h]

theorem exec_locOf_global (x : Name) (ρ : Chain) (s : SSt) (l : Loc) (h : resolve x ρ = none)
    (hg : s.globals.find? x = some l) : exec (locOf x ρ) s = (.ok l, s) := by
  unfold locOf; simp [h, exec_bind, hg]

theorem exec_locOf_unbound (x : Name) (ρ : Chain) (s : SSt) (h : resolve x ρ = none)
    (hg : s.globals.find? x = none) : exec (locOf x ρ) s = (.error .unbound, s) := by
  unfold locOf; simp [h, exec_bind, hg]

/-- `locOf` never changes the state and fails only with `unbound` -/
theorem exec_locOf_cases (x : Name) (ρ : Chain) (s : SSt) :
    (∃ l, exec (locOf x ρ) s = (.ok l, s) ∧
      (resolve x ρ = some l ∨ (resolve x ρ = none ∧ s.globals.find? x = some l))) ∨
    exec (locOf x ρ) s = (.error .unbound, s) := by
  cases h : resolve x ρ with
  | some l => exact Or.inl ⟨l, exec_locOf_local x ρ s l h, Or.inl rfl⟩
  | none =>
    cases hg : s.globals.find? x with
    | some l => exact Or.inl ⟨l, exec_locOf_global x ρ s l h hg, Or.inr ⟨rfl, rfl⟩⟩
    | none => exact Or.inr (exec_locOf_unbound x ρ s h hg)

theorem exec_readLoc_ok (l : Loc) (s : SSt) (v : SVal) (h : s.store[l]? = some v) (hv : v ≠ .undef) :
    exec (readLoc l) s = (.ok v, s) := by
  unfold readLoc
  simp only [exec_bind, exec_get, h]
  cases v <;> simp_all

theorem exec_readLoc_undef (l : Loc) (s : SSt) (h : s.store[l]? = some .undef) :
    exec (readLoc l) s = (.error .unbound, s) := by
  unfold readLoc
  simp [exec_bind, h]

theorem exec_readLoc_none (l : Loc) (s : SSt) (h : s.store[l]? = none) :
    exec (readLoc l) s = (.error .unbound, s) := by
  unfold readLoc
  simp [exec_bind, h]

theorem exec_readLoc_cases (l : Loc) (s : SSt) :
    (∃ v, s.store[l]? = some v ∧ v ≠ .undef ∧ exec (readLoc l) s = (.ok v, s)) ∨
    exec (readLoc l) s = (.error .unbound, s) := by
  cases h : s.store[l]? with
  | none => exact Or.inr (exec_readLoc_none l s h)
  | some v =>
    by_cases hv : v = .undef
    · subst hv; exact Or.inr (exec_readLoc_undef l s h)
    · exact Or.inl ⟨v, rfl, hv, exec_readLoc_ok l s v h hv⟩

/-- the values `bindParams` stores, in order: the fixed arguments, then the list of the surplus
    ones for a rest parameter; `none`: wrong number of arguments -/
def paramVals : List Name → Option Name → List SVal → Option (List SVal)
  | [], none, [] => some []
  | [], none, _ :: _ => none
  | [], some _, vs => some [Val.ofList vs]
  | _ :: _, _, [] => none
  | _ :: ps, r, v :: vs => (paramVals ps r vs).map (v :: ·)

/-- the frame over consecutive locations starting at `n` -/
def frameAt : List Name → Nat → Frame
  | [], _ => []
  | x :: xs, n => (x, n) :: frameAt xs (n + 1)

theorem paramVals_length (ps : List Name) (r : Option Name) (vs vals : List SVal)
    (h : paramVals ps r vs = some vals) : vals.length = (ps ++ r.toList).length := by
  induction ps generalizing vs vals with
  | nil =>
    cases r with
    | none => cases vs <;> simp_all [paramVals]
    | some r => simp only [paramVals, Option.some.injEq] at h; subst h; simp
  | cons p ps ih =>
    cases vs with
    | nil => simp [paramVals] at h
    | cons v vs =>
      simp only [paramVals, Option.map_eq_some_iff] at h
      obtain ⟨vals', h', rfl⟩ := h
      simp [ih vs vals' h']

theorem array_append_push (a : Array α) (v : α) (l : List α) : a.push v ++ l.toArray = a ++ (v :: l).toArray := by
  apply Array.ext'
  simp

/-- `bindParams`: on success the store grows by exactly `paramVals` and the frame maps the formals
    to the new consecutive locations; on failure (`arity`) the store grew by some orphans -/
theorem exec_bindParams (ps : List Name) (r : Option Name) (vs : List SVal) (s : SSt) :
    match paramVals ps r vs with
    | some vals => exec (bindParams ps r vs) s =
        (.ok (frameAt (ps ++ r.toList) s.store.size), { s with store := s.store ++ vals.toArray })
    | none => ∃ extra : List SVal, exec (bindParams ps r vs) s =
        (.error .arity, { s with store := s.store ++ extra.toArray }) := by
  induction ps generalizing vs s with
  | nil =>
    cases r with
    | none =>
      cases vs with
      | nil => simp [paramVals, bindParams, frameAt]
      | cons v vs => exact ⟨[], by simp [bindParams]⟩
    | some r =>
      simp only [paramVals, bindParams, exec_bind, exec_alloc, exec_pure, List.nil_append, Option.toList,
        frameAt]
      congr 2
  | cons p ps ih =>
    cases vs with
    | nil => exact ⟨[], by simp [bindParams]⟩
    | cons v vs =>
      have := ih vs { s with store := s.store.push v }
      simp only [paramVals]
      cases hp : paramVals ps r vs with
      | some vals =>
        simp only [hp] at this
        simp only [Option.map_some, bindParams, exec_bind, exec_alloc, this, exec_pure, List.cons_append,
          frameAt, Array.size_push, array_append_push]
      | none =>
        simp only [hp] at this
        obtain ⟨extra, he⟩ := this
        refine ⟨v :: extra, ?_⟩
        simp only [bindParams, exec_bind, exec_alloc, he, array_append_push]

theorem exec_allocDefs : (ds : Defs) → (s : SSt) →
    exec (allocDefs ds) s =
      (.ok (frameAt ds.names s.store.size),
       { s with store := s.store ++ (ds.names.map fun _ => Val.undef).toArray })
  | .nil, s => by simp [allocDefs, Defs.names, frameAt]
  | .cons x sg e ds, s => by
    simp only [allocDefs, exec_bind, exec_alloc, exec_allocDefs ds, exec_pure, Defs.names, frameAt,
      Array.size_push, List.map_cons, array_append_push]

end spec

/-! ## the model evaluator's primitive steps -/
section model
open Marwood.Vm.EnvRun

theorem exec_mtick (t : MSt) :
    exec Vm.EnvRun.tick t = (.ok (.int (t.counter + 1)), { t with counter := t.counter + 1 }) := rfl

theorem exec_setGlobal (x : Name) (v : MVal) (t : MSt) :
    exec (setGlobal x v) t = (.ok ⟨⟩, { t with globals := (x, v) :: t.globals.filter (·.1 != x) }) := rfl

theorem exec_liftFault_ok (a : α) (t : MSt) : exec (liftFault (.ok a)) t = (.ok a, t) := rfl

/-- a load is a read of the slot the operand denotes -/
theorem load_eq_target (h : Envs α) (ep slot : Nat) :
    load h ep slot = (target h ep slot >>= fun r => h.getEnv r.1 >>= fun a => getSlot a r.2) := by
  simp only [load, target, bind, Except.bind]
  cases he : h.getEnv ep with
  | error e => rfl
  | ok a =>
    simp only
    cases hg : getSlot a slot with
    | error e => rfl
    | ok g =>
      cases g <;> simp [pure, Except.pure, he, hg]

theorem load_of_target (h : Envs α) (ep slot e i : Nat) (arr : Array (Slot α)) (g : Slot α)
    (ht : target h ep slot = .ok (e, i)) (ha : h.envs[e]? = some arr) (hg : arr[i]? = some g) :
    load h ep slot = .ok g := by
  rw [load_eq_target, ht]
  simp [bind, Except.bind, Envs.getEnv, ha, getSlot, hg]

end model

end Marwood.Vm.EnvRefine
