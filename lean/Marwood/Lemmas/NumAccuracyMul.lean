import Marwood.Lemmas.NumAccuracy
import Mathlib.Tactic.FieldSimp
import Mathlib.Tactic.NormNum
/-!
# Accuracy of the inexact answers of `*` and `/` (T08.2, second conjunct)

The fall-backs `flo2 Fl.mul a b`, `flo2 Fl.div a b` convert each exact operand by one correct
rounding and perform one IEEE operation (= exact product/quotient of the two doubles, rounded
once): three roundings.  A non-zero exact operand of the model has magnitude at least 2⁻³¹ (an
integer, or a ratio of i32 parts), so the two conversions are purely relative (2⁻⁵³); only the last
rounding may underflow, and its absolute term 2⁻¹⁰⁷⁵ is absorbed by `max |x| |y| ≥ 2⁻³¹`.
-/
namespace Marwood.Fl
open Marwood Marwood.NumSpec

theorem magRat_nonneg (f : F64) : 0 ≤ magRat f := by
  rw [magRat_eq]; positivity

theorem rndSigned_zero (s : Bool) : rndSigned s 0 = zero s := by
  cases s <;> simp [rndSigned, zero]

/-- rounding a positive magnitude with a sign attached is rounding the signed value -/
theorem rndSigned_sgn (s : Bool) {m : ℚ} (h : 0 < m) : rndSigned s m = rnd (sgn s m) := by
  have hn : 0 < m.num := Rat.num_pos.mpr h
  cases s with
  | false =>
    unfold rnd sgn
    simp only [Bool.false_eq_true, if_false]
    rw [if_neg (by omega)]
  | true =>
    unfold rnd sgn
    simp only [if_true]
    have : (-m).num < 0 := Rat.num_neg.mpr (by linarith)
    rw [if_pos this, neg_neg]

theorem sgn_mul (s t : Bool) (a b : ℚ) : sgn s a * sgn t b = sgn (s != t) (a * b) := by
  cases s <;> cases t <;> simp [sgn]

theorem sgn_div (s t : Bool) (a b : ℚ) : sgn s a / sgn t b = sgn (s != t) (a / b) := by
  cases s <;> cases t <;> simp [sgn, neg_div, div_neg]

/-- `Fl.mul` on finite doubles is the rounded exact product (a signed zero when it is zero) -/
theorem mul_eq {f g : F64} {p r : ℚ} (hf : toRat? f = some p) (hg : toRat? g = some r) :
    (p * r ≠ 0 ∧ Fl.mul f g = rnd (p * r)) ∨ (p * r = 0 ∧ ∃ s, Fl.mul f g = zero s) := by
  obtain ⟨c1, v1⟩ := classify_of_toRat hf
  obtain ⟨c2, v2⟩ := classify_of_toRat hg
  have ha := magRat_nonneg f
  have hb := magRat_nonneg g
  have hpr : p * r = sgn (signBit f != signBit g) (magRat f * magRat g) := by
    rw [← v1, ← v2, sgn_mul]
  unfold Fl.mul
  rw [c1, c2]
  simp only
  rcases eq_or_lt_of_le (mul_nonneg ha hb) with hz | hpos
  · right
    rw [← hz, rndSigned_zero]
    refine ⟨?_, _, rfl⟩
    rw [hpr, ← hz]; cases (signBit f != signBit g) <;> simp [sgn]
  · left
    rw [rndSigned_sgn _ hpos, ← hpr]
    refine ⟨?_, rfl⟩
    rw [hpr]
    cases (signBit f != signBit g) <;> simp only [sgn, Bool.false_eq_true, if_false, if_true]
    · exact hpos.ne'
    · exact neg_ne_zero.mpr hpos.ne'

/-- `Fl.div` on finite doubles with a non-zero divisor is the rounded exact quotient -/
theorem div_eq {f g : F64} {p r : ℚ} (hf : toRat? f = some p) (hg : toRat? g = some r)
    (hr : r ≠ 0) :
    (p / r ≠ 0 ∧ Fl.div f g = rnd (p / r)) ∨ (p / r = 0 ∧ ∃ s, Fl.div f g = zero s) := by
  obtain ⟨c1, v1⟩ := classify_of_toRat hf
  obtain ⟨c2, v2⟩ := classify_of_toRat hg
  have ha := magRat_nonneg f
  have hb := magRat_nonneg g
  have hb0 : magRat g ≠ 0 := by
    intro h0; apply hr; rw [← v2, h0]; cases signBit g <;> simp [sgn]
  have hbpos : 0 < magRat g := lt_of_le_of_ne hb (Ne.symm hb0)
  have hbn : ((magRat g).num == 0) = false := by
    simp only [beq_eq_false_iff_ne, ne_eq, Rat.num_eq_zero]; exact hb0
  have hpr : p / r = sgn (signBit f != signBit g) (magRat f / magRat g) := by
    rw [← v1, ← v2, sgn_div]
  unfold Fl.div
  rw [c1, c2]
  simp only [hbn, Bool.false_eq_true, if_false]
  rcases eq_or_lt_of_le (div_nonneg ha hb) with hz | hpos
  · right
    rw [← hz, rndSigned_zero]
    refine ⟨?_, _, rfl⟩
    rw [hpr, ← hz]; cases (signBit f != signBit g) <;> simp [sgn]
  · left
    rw [rndSigned_sgn _ hpos, ← hpr]
    refine ⟨?_, rfl⟩
    rw [hpr]
    cases (signBit f != signBit g) <;> simp only [sgn, Bool.false_eq_true, if_false, if_true]
    · exact hpos.ne'
    · exact neg_ne_zero.mpr hpos.ne'

/-- `Fl.mul` on finite doubles is finite below the overflow threshold and obeys the standard
    model with gradual underflow -/
theorem mul_val {f g : F64} {p r : ℚ} (hf : toRat? f = some p) (hg : toRat? g = some r)
    (hhi : |p * r| < 2 ^ (1023 : ℤ)) :
    ∃ v, toRat? (Fl.mul f g) = some v ∧ |v - p * r| ≤ uro * |p * r| + eta := by
  rcases mul_eq hf hg with ⟨_, h⟩ | ⟨h0, s, h⟩
  · rw [h]; exact rnd_err _ hhi
  · rw [h, h0]
    refine ⟨0, toRat_zero' _, ?_⟩
    simp; exact (two_zpow_pos _).le

theorem div_val {f g : F64} {p r : ℚ} (hf : toRat? f = some p) (hg : toRat? g = some r)
    (hr : r ≠ 0) (hhi : |p / r| < 2 ^ (1023 : ℤ)) :
    ∃ v, toRat? (Fl.div f g) = some v ∧ |v - p / r| ≤ uro * |p / r| + eta := by
  rcases div_eq hf hg hr with ⟨_, h⟩ | ⟨h0, s, h⟩
  · rw [h]; exact rnd_err _ hhi
  · rw [h, h0]
    refine ⟨0, toRat_zero' _, ?_⟩
    simp; exact (two_zpow_pos _).le

end Marwood.Fl

namespace Marwood.Arith
open Marwood Marwood.NumSpec

/-! ## the arithmetic of three roundings, in ℚ -/

/-- two factors perturbed relatively by `u ≤ 1/4` perturb the product by at most `9/4·u` relative -/
theorem mul_pert {x y xt yt u : ℚ} (hu0 : 0 ≤ u) (hu4 : u ≤ 1 / 4)
    (h1 : |xt - x| ≤ u * |x|) (h2 : |yt - y| ≤ u * |y|) :
    |xt * yt - x * y| ≤ 9 / 4 * (u * |x * y|) := by
  have e : xt * yt - x * y = (xt - x) * y + x * (yt - y) + (xt - x) * (yt - y) := by ring
  have t1 : |(xt - x) * y| ≤ u * |x * y| := by
    rw [abs_mul, abs_mul, ← mul_assoc]; exact mul_le_mul_of_nonneg_right h1 (abs_nonneg _)
  have t2 : |x * (yt - y)| ≤ u * |x * y| := by
    rw [abs_mul, abs_mul, mul_left_comm]; exact mul_le_mul_of_nonneg_left h2 (abs_nonneg _)
  have t3 : |(xt - x) * (yt - y)| ≤ u * (u * |x * y|) := by
    rw [abs_mul, abs_mul]
    calc |xt - x| * |yt - y| ≤ (u * |x|) * (u * |y|) :=
          mul_le_mul h1 h2 (abs_nonneg _) (mul_nonneg hu0 (abs_nonneg _))
      _ = u * (u * (|x| * |y|)) := by ring
  have t4 : u * (u * |x * y|) ≤ 1 / 4 * (u * |x * y|) :=
    mul_le_mul_of_nonneg_right hu4 (mul_nonneg hu0 (abs_nonneg _))
  rw [e]
  have := abs_add_three ((xt - x) * y) (x * (yt - y)) ((xt - x) * (yt - y))
  linarith

/-- numerator and (non-zero) denominator perturbed relatively by `u ≤ 1/4` perturb the quotient by
    at most `8/3·u` relative; the perturbed denominator is non-zero -/
theorem div_pert {x y xt yt u : ℚ} (hu4 : u ≤ 1 / 4) (hy : y ≠ 0)
    (h1 : |xt - x| ≤ u * |x|) (h2 : |yt - y| ≤ u * |y|) :
    yt ≠ 0 ∧ |xt / yt - x / y| ≤ 8 / 3 * (u * |x / y|) := by
  have hb : 0 < |y| := abs_pos.mpr hy
  have hyt : 3 / 4 * |y| ≤ |yt| := by
    have h3 := abs_sub_abs_le_abs_sub y yt
    rw [abs_sub_comm] at h3
    have : u * |y| ≤ 1 / 4 * |y| := mul_le_mul_of_nonneg_right hu4 (abs_nonneg _)
    linarith
  have hyt0 : yt ≠ 0 := by
    intro h; rw [h, abs_zero] at hyt; linarith
  refine ⟨hyt0, ?_⟩
  have e : (xt / yt - x / y) * (yt * y) = (xt - x) * y - x * (yt - y) := by
    field_simp; ring
  generalize xt / yt - x / y = D at e ⊢
  have hQ : |x| = |x / y| * |y| := by rw [abs_div, div_mul_cancel₀ _ hb.ne']
  generalize |x / y| = Q at hQ ⊢
  have n1 : |(xt - x) * y - x * (yt - y)| ≤ 2 * (u * Q) * (|y| * |y|) := by
    have t1 : |(xt - x) * y| ≤ u * |x| * |y| := by
      rw [abs_mul]; exact mul_le_mul_of_nonneg_right h1 (abs_nonneg _)
    have t2 : |x * (yt - y)| ≤ |x| * (u * |y|) := by
      rw [abs_mul]; exact mul_le_mul_of_nonneg_left h2 (abs_nonneg _)
    calc _ ≤ |(xt - x) * y| + |x * (yt - y)| := abs_sub _ _
      _ ≤ u * |x| * |y| + |x| * (u * |y|) := by linarith
      _ = _ := by rw [hQ]; ring
  have n2 : |D| * (3 / 4 * |y| * |y|) ≤ |D| * (|yt| * |y|) :=
    mul_le_mul_of_nonneg_left (mul_le_mul_of_nonneg_right hyt (abs_nonneg _)) (abs_nonneg _)
  have n3 : |D| * (|yt| * |y|) = |(xt - x) * y - x * (yt - y)| := by rw [← e, abs_mul, abs_mul]
  have n4 : (|D| * (3 / 4)) * (|y| * |y|) ≤ (2 * (u * Q)) * (|y| * |y|) := by
    calc _ = |D| * (3 / 4 * |y| * |y|) := by ring
      _ ≤ _ := by rw [n3] at n2; exact le_trans n2 n1
  have := le_of_mul_le_mul_right n4 (mul_pos hb hb)
  linarith

theorem uro_le_quarter : Fl.uro ≤ 1 / 4 := by
  calc Fl.uro = 2 ^ (-53 : ℤ) := rfl
    _ ≤ 2 ^ (-2 : ℤ) := Fl.two_zpow_mono (by norm_num)
    _ = 1 / 4 := by norm_num

/-- an exact result below 2¹⁰²², perturbed by at most `3·2⁻⁵³` relative, stays below the overflow
    threshold -/
theorem pert_lt_1023 {q qt : ℚ} (hq : |q| < 2 ^ (1022 : ℤ))
    (hp : |qt - q| ≤ 3 * (Fl.uro * |q|)) : |qt| < 2 ^ (1023 : ℤ) := by
  have h23 : (2 : ℚ) ^ (1023 : ℤ) = 2 * 2 ^ (1022 : ℤ) := by
    rw [show (1023 : ℤ) = 1 + 1022 by norm_num, Fl.two_zpow_add]; norm_num
  have a1 : Fl.uro * |q| ≤ 1 / 4 * |q| := mul_le_mul_of_nonneg_right uro_le_quarter (abs_nonneg _)
  have h3 := abs_sub_abs_le_abs_sub qt q
  have := abs_nonneg q
  rw [h23]
  clear h23
  generalize (2 : ℚ) ^ (1022 : ℤ) = A at *
  linarith

/-- the last of the three roundings: the exact result `q`, its perturbation `qt` (within `3·2⁻⁵³`
    relative) rounded to `v` by the standard model with gradual underflow -/
theorem final_round_bound {q qt v M : ℚ} (hqM : |q| ≤ M) (hM : (2 : ℚ) ^ (-1022 : ℤ) ≤ M)
    (hp : |qt - q| ≤ 3 * (Fl.uro * |q|)) (h3 : |v - qt| ≤ Fl.uro * |qt| + Fl.eta) :
    |v - q| ≤ 2 ^ (-50 : ℤ) * M := by
  have hu : Fl.uro = 2 ^ (-53 : ℤ) := rfl
  have hupos : 0 < Fl.uro := Fl.two_zpow_pos _
  have hu4 := uro_le_quarter
  have heta : Fl.eta ≤ Fl.uro * M := by
    have : Fl.eta = Fl.uro * 2 ^ (-1022 : ℤ) := by
      unfold Fl.eta Fl.uro; rw [← Fl.two_zpow_add]; norm_num
    rw [this]; exact mul_le_mul_of_nonneg_left hM hupos.le
  have h50 : (2 : ℚ) ^ (-50 : ℤ) = 8 * Fl.uro := by
    rw [hu, show (-50 : ℤ) = 3 + -53 by norm_num, Fl.two_zpow_add]; norm_num
  have a1 : Fl.uro * |q| ≤ Fl.uro * M := mul_le_mul_of_nonneg_left hqM hupos.le
  have a0 : 0 ≤ Fl.uro * |q| := mul_nonneg hupos.le (abs_nonneg _)
  have b1 : |qt| ≤ |q| + 3 * (Fl.uro * |q|) := by
    have := abs_sub_abs_le_abs_sub qt q; linarith
  have c1 : Fl.uro * |qt| ≤ Fl.uro * (|q| + 3 * (Fl.uro * |q|)) :=
    mul_le_mul_of_nonneg_left b1 hupos.le
  have c2 : Fl.uro * (Fl.uro * |q|) ≤ 1 / 4 * (Fl.uro * |q|) := mul_le_mul_of_nonneg_right hu4 a0
  have e : Fl.uro * (|q| + 3 * (Fl.uro * |q|)) = Fl.uro * |q| + 3 * (Fl.uro * (Fl.uro * |q|)) := by
    ring
  rw [e] at c1
  have d : |v - q| ≤ |v - qt| + |qt - q| := by
    have := abs_add_le (v - qt) (qt - q)
    rwa [show v - qt + (qt - q) = v - q by ring] at this
  rw [h50]
  linarith

/-- three roundings around a product: `x`, `y` converted with relative error 2⁻⁵³ (normal range),
    the exact product of the results rounded once more (possibly into the subnormal range) -/
theorem three_step_bound_mul {x y xt yt v M : ℚ} (hpM : |x * y| ≤ M)
    (hM : (2 : ℚ) ^ (-1022 : ℤ) ≤ M)
    (h1 : |xt - x| ≤ Fl.uro * |x|) (h2 : |yt - y| ≤ Fl.uro * |y|)
    (h3 : |v - xt * yt| ≤ Fl.uro * |xt * yt| + Fl.eta) :
    |v - x * y| ≤ 2 ^ (-50 : ℤ) * M := by
  have hupos : 0 < Fl.uro := Fl.two_zpow_pos _
  have hp := mul_pert hupos.le uro_le_quarter h1 h2
  have : 0 ≤ Fl.uro * |x * y| := mul_nonneg hupos.le (abs_nonneg _)
  exact final_round_bound hpM hM (by linarith) h3

/-- three roundings around a quotient -/
theorem three_step_bound_div {x y xt yt v M : ℚ} (hy : y ≠ 0) (hpM : |x / y| ≤ M)
    (hM : (2 : ℚ) ^ (-1022 : ℤ) ≤ M)
    (h1 : |xt - x| ≤ Fl.uro * |x|) (h2 : |yt - y| ≤ Fl.uro * |y|)
    (h3 : |v - xt / yt| ≤ Fl.uro * |xt / yt| + Fl.eta) :
    |v - x / y| ≤ 2 ^ (-50 : ℤ) * M := by
  have hupos : 0 < Fl.uro := Fl.two_zpow_pos _
  have hp := (div_pert uro_le_quarter hy h1 h2).2
  have : 0 ≤ Fl.uro * |x / y| := mul_nonneg hupos.le (abs_nonneg _)
  exact final_round_bound hpM hM (by linarith) h3

/-! ## the float fall-backs of `*` and `/` -/

/-- a non-zero exact operand of the model is an integer or a ratio of i32 parts: its magnitude is at
    least 2⁻³¹, far inside the doubles' normal range -/
theorem exact_val_lower {a : Num} (ha : a.WF = true) (hea : isExact a = true) {x : ℚ}
    (hx : val a = some x) : x = 0 ∨ (2 : ℚ) ^ (-1022 : ℤ) ≤ |x| := by
  have h1 : (2 : ℚ) ^ (-1022 : ℤ) ≤ 1 := by
    calc (2 : ℚ) ^ (-1022 : ℤ) ≤ 2 ^ (0 : ℤ) := Fl.two_zpow_mono (by norm_num)
      _ = 1 := by norm_num
  have hint : ∀ n : Int, (n : ℚ) = 0 ∨ (2 : ℚ) ^ (-1022 : ℤ) ≤ |(n : ℚ)| := by
    intro n
    by_cases hn : n = 0
    · left; rw [hn]; simp
    · right
      have : (1 : ℚ) ≤ |(n : ℚ)| := by
        rw [← Int.cast_abs]; exact_mod_cast Int.one_le_abs hn
      linarith
  cases a with
  | flo f => cases hea
  | fix n => simp only [val, Option.some.injEq] at hx; subst hx; exact hint n
  | big n => simp only [val, Option.some.injEq] at hx; subst hx; exact hint n
  | rat n d =>
    simp only [val, Option.some.injEq] at hx; subst hx
    have hd := wf_rat_pos ha
    have hq : (0 : ℚ) < d := by exact_mod_cast hd
    have hd32 := (inI32_iff d).mp (wf_rat_i32 ha).2
    have hdq : (d : ℚ) ≤ 2147483647 := by exact_mod_cast hd32.2
    by_cases hn : n = 0
    · left; rw [hn]; simp
    · right
      have hn1 : (1 : ℚ) ≤ |(n : ℚ)| := by
        rw [← Int.cast_abs]; exact_mod_cast Int.one_le_abs hn
      have h31 : (2 : ℚ) ^ (-1022 : ℤ) ≤ 1 / 2147483648 := by
        calc (2 : ℚ) ^ (-1022 : ℤ) ≤ 2 ^ (-31 : ℤ) := Fl.two_zpow_mono (by norm_num)
          _ = 1 / 2147483648 := by norm_num
      rw [abs_div, abs_of_pos hq, le_div_iff₀ hq]
      have : (2 : ℚ) ^ (-1022 : ℤ) * d ≤ 1 / 2147483648 * d :=
        mul_le_mul_of_nonneg_right h31 hq.le
      linarith

/-- conversion of an operand that is zero or in the normal range: finite, purely relative error -/
theorem rnd_rel {x : ℚ} (hx : x = 0 ∨ (2 : ℚ) ^ (-1022 : ℤ) ≤ |x|)
    (hmx : |x| < 2 ^ (1023 : ℤ)) :
    ∃ xt, Fl.toRat? (Fl.rnd x) = some xt ∧ |xt - x| ≤ Fl.uro * |x| := by
  rcases hx with h0 | hlo
  · subst h0
    exact ⟨0, by rw [Fl.rnd_zero]; exact Fl.toRat_zero, by simp⟩
  · exact Fl.rnd_relerr x hlo hmx

/-- an inexact product of exact operands is the double product of the converted operands -/
theorem mul_inexact_form (a b : Num) (hea : isExact a = true) (heb : isExact b = true)
    (he : isExact (mul a b) = false) :
    mul a b = .flo (Fl.mul (toF a) (toF b)) ∨ mul a b = .flo (Fl.mul (toF b) (toF a)) := by
  generalize hr : mul a b = r at he ⊢
  cases a <;> cases b <;> first | (cases hea; done) | (cases heb; done) | skip
  all_goals simp only [mul] at hr
  all_goals first
    | (subst hr; cases he)
    | (split at hr <;> subst hr <;> cases he; done)
    | (subst hr; exact Or.inl (ratArm_inexact he))
    | (split at hr
       · subst hr; exact Or.inl (ratArm_inexact he)
       · subst hr; exact Or.inl rfl)
    | (split at hr
       · subst hr; cases he
       · subst hr; first | exact Or.inl rfl | exact Or.inr rfl)

theorem asI32_eq {a : Num} {l : Int} (h : asI32 a = some l) : toF a = Fl.ofInt l := by
  cases a with
  | fix n =>
    simp only [asI32, chk32] at h
    split at h
    · cases h; rfl
    · cases h
  | big n =>
    simp only [asI32, chk32] at h
    split at h
    · cases h; rfl
    · cases h
  | rat n d => cases h
  | flo f => cases h

theorem ratioOfI32_inexact {l r : Int} {x : Num} (h : ratioOfI32 l r = .ok x)
    (he : isExact x = false) : x = .flo (Fl.div (Fl.ofInt l) (Fl.ofInt r)) := by
  unfold ratioOfI32 at h
  split at h
  · cases h
  · simp only at h
    split at h
    · cases h; cases he
    · split at h
      · cases h; cases he
      · cases h; rfl

/-- an inexact quotient of exact operands is the double quotient of the converted operands -/
theorem div_inexact_form (a b : Num) (hea : isExact a = true) (heb : isExact b = true) {r : Num}
    (h : div a b = .ok r) (he : isExact r = false) : r = .flo (Fl.div (toF a) (toF b)) := by
  have hro : ∀ q, ratOrFlo q a b = r → r = .flo (Fl.div (toF a) (toF b)) := by
    intro q hq; subst hq; exact ratArm_inexact he
  cases a <;> cases b <;> first | (cases hea; done) | (cases heb; done) | skip
  all_goals simp only [div] at h
  all_goals first
    | exact hro _ (Outcome.ok.inj h)
    | (split at h
       · first
         | exact hro _ (Outcome.ok.inj h)
         | (rename_i l r' hl hr'
            rw [asI32_eq hl, asI32_eq hr']; exact ratioOfI32_inexact h he)
       · cases h; rfl)

/-- the double product of two converted operands: each operand zero or in the normal range and
    below 2¹⁰²³, the exact product below 2¹⁰²² -/
theorem flmul_rnd_accurate {x y : ℚ} (hx : x = 0 ∨ (2 : ℚ) ^ (-1022 : ℤ) ≤ |x|)
    (hy : y = 0 ∨ (2 : ℚ) ^ (-1022 : ℤ) ≤ |y|) (hmx : |x| < 2 ^ (1023 : ℤ))
    (hmy : |y| < 2 ^ (1023 : ℤ)) (hmp : |x * y| < 2 ^ (1022 : ℤ)) :
    ∃ v, Fl.toRat? (Fl.mul (Fl.rnd x) (Fl.rnd y)) = some v ∧
      |v - x * y| ≤ 2 ^ (-50 : ℤ) * max |x| (max |y| |x * y|) := by
  obtain ⟨xt, hxt, ex⟩ := rnd_rel hx hmx
  obtain ⟨yt, hyt, ey⟩ := rnd_rel hy hmy
  have hxM : |x| ≤ max |x| (max |y| |x * y|) := le_max_left _ _
  have hyM : |y| ≤ max |x| (max |y| |x * y|) := le_trans (le_max_left _ _) (le_max_right _ _)
  have hpM : |x * y| ≤ max |x| (max |y| |x * y|) := le_trans (le_max_right _ _) (le_max_right _ _)
  have hupos : 0 < Fl.uro := Fl.two_zpow_pos _
  by_cases hM : (2 : ℚ) ^ (-1022 : ℤ) ≤ max |x| (max |y| |x * y|)
  · have hp := mul_pert hupos.le uro_le_quarter ex ey
    have h0 : 0 ≤ Fl.uro * |x * y| := mul_nonneg hupos.le (abs_nonneg _)
    obtain ⟨v, hv, ev⟩ := Fl.mul_val hxt hyt (pert_lt_1023 hmp (by linarith))
    exact ⟨v, hv, three_step_bound_mul hpM hM ex ey ev⟩
  · -- both operands are zero
    have hx0 : x = 0 := by
      rcases hx with h | h
      · exact h
      · exact absurd (le_trans h hxM) hM
    have hy0 : y = 0 := by
      rcases hy with h | h
      · exact h
      · exact absurd (le_trans h hyM) hM
    subst hx0; subst hy0
    have hz : Fl.toRat? (Fl.rnd 0) = some 0 := by rw [Fl.rnd_zero]; exact Fl.toRat_zero
    rcases Fl.mul_eq hz hz with ⟨hne, _⟩ | ⟨_, s, hs⟩
    · exact absurd (mul_zero (0 : ℚ)) hne
    · rw [hs]
      exact ⟨0, Fl.toRat_zero' s, by simp⟩

/-- the double quotient of two converted operands: the dividend zero or in the normal range, the
    divisor in the normal range, both below 2¹⁰²³, the exact quotient below 2¹⁰²² -/
theorem fldiv_rnd_accurate {x y : ℚ} (hx : x = 0 ∨ (2 : ℚ) ^ (-1022 : ℤ) ≤ |x|)
    (hy : (2 : ℚ) ^ (-1022 : ℤ) ≤ |y|) (hmx : |x| < 2 ^ (1023 : ℤ))
    (hmy : |y| < 2 ^ (1023 : ℤ)) (hmq : |x / y| < 2 ^ (1022 : ℤ)) :
    ∃ v, Fl.toRat? (Fl.div (Fl.rnd x) (Fl.rnd y)) = some v ∧
      |v - x / y| ≤ 2 ^ (-50 : ℤ) * max |x| (max |y| |x / y|) := by
  have hy0 : y ≠ 0 := by
    intro h; rw [h, abs_zero] at hy
    exact absurd hy (not_le.mpr (Fl.two_zpow_pos _))
  obtain ⟨xt, hxt, ex⟩ := rnd_rel hx hmx
  obtain ⟨yt, hyt, ey⟩ := rnd_rel (Or.inr hy) hmy
  have hyM : |y| ≤ max |x| (max |y| |x / y|) := le_trans (le_max_left _ _) (le_max_right _ _)
  have hqM : |x / y| ≤ max |x| (max |y| |x / y|) := le_trans (le_max_right _ _) (le_max_right _ _)
  have hupos : 0 < Fl.uro := Fl.two_zpow_pos _
  obtain ⟨hyt0, hp⟩ := div_pert uro_le_quarter hy0 ex ey
  have h0 : 0 ≤ Fl.uro * |x / y| := mul_nonneg hupos.le (abs_nonneg _)
  obtain ⟨v, hv, ev⟩ := Fl.div_val hxt hyt hyt0 (pert_lt_1023 hmq (by linarith))
  exact ⟨v, hv, three_step_bound_div hy0 hqM (le_trans hy hyM) ex ey ev⟩

/-- T08.2 (second conjunct) for `*`: an inexact product of exact operands with |x|, |y| < 2¹⁰²³ and
    |x·y| < 2¹⁰²² is finite and within 2⁻⁵⁰·max(|x|, |y|, |x·y|) of the exact product.  No lower
    bound is assumed: a non-zero exact operand has magnitude ≥ 2⁻³¹ (`exact_val_lower`), which
    also absorbs the underflow term of the last rounding; a zero operand gives a zero product. -/
theorem mul_inexact_accurate (a b : Num) (ha : a.WF = true) (hb : b.WF = true)
    (hea : isExact a = true) (heb : isExact b = true) {x y : ℚ} (hx : val a = some x)
    (hy : val b = some y) (hmx : |x| < 2 ^ (1023 : ℤ)) (hmy : |y| < 2 ^ (1023 : ℤ))
    (hmp : |x * y| < 2 ^ (1022 : ℤ)) (he : isExact (mul a b) = false) :
    ∃ v, val (mul a b) = some v ∧ |v - x * y| ≤ 2 ^ (-50 : ℤ) * max |x| (max |y| |x * y|) := by
  have lx := exact_val_lower ha hea hx
  have ly := exact_val_lower hb heb hy
  rcases mul_inexact_form a b hea heb he with hf | hf
  · rw [hf, toF_exact ha hea hx, toF_exact hb heb hy]
    exact flmul_rnd_accurate lx ly hmx hmy hmp
  · rw [hf, toF_exact ha hea hx, toF_exact hb heb hy]
    have := flmul_rnd_accurate ly lx hmy hmx (by rwa [mul_comm])
    rwa [mul_comm y x, max_left_comm] at this

/-- T08.2 (second conjunct) for `/`: an inexact quotient of exact operands with a non-zero divisor,
    |x|, |y| < 2¹⁰²³ and |x/y| < 2¹⁰²² is finite and within 2⁻⁵⁰·max(|x|, |y|, |x/y|) of the exact
    quotient.  No lower bound is assumed (see `mul_inexact_accurate`). -/
theorem div_inexact_accurate (a b : Num) (ha : a.WF = true) (hb : b.WF = true)
    (hea : isExact a = true) (heb : isExact b = true) {x y : ℚ} (hx : val a = some x)
    (hy : val b = some y) (hy0 : y ≠ 0) (hmx : |x| < 2 ^ (1023 : ℤ)) (hmy : |y| < 2 ^ (1023 : ℤ))
    (hmq : |x / y| < 2 ^ (1022 : ℤ)) {r : Num} (h : div a b = .ok r) (he : isExact r = false) :
    ∃ v, val r = some v ∧ |v - x / y| ≤ 2 ^ (-50 : ℤ) * max |x| (max |y| |x / y|) := by
  have lx := exact_val_lower ha hea hx
  have ly : (2 : ℚ) ^ (-1022 : ℤ) ≤ |y| := by
    rcases exact_val_lower hb heb hy with h0 | h0
    · exact absurd h0 hy0
    · exact h0
  rw [div_inexact_form a b hea heb h he, toF_exact ha hea hx, toF_exact hb heb hy]
  exact fldiv_rnd_accurate lx ly hmx hmy hmq

end Marwood.Arith
