import Marwood.Lemmas.EvalPromiseX
/-!
# T01.2 for `delay` / `force`: the statements about whole states

`delayX_eval` (zero forces), `forceX_done` (forcing a forced promise), `forceDelayX_ok` / `forceDelayX_err`
(`(force (delay e))` when `e` yields a value / fails), `forceDelayX_definite` (if the expansion is definite
at some fuel, so is the delayed expression: time-outs transfer). The work is in `EvalPromiseX.lean`.
-/
namespace Marwood.Spec.Eval.Derived
open Marwood Marwood.Spec.Eval Marwood.Spec.Eval.Prelude

theorem fr_push {σ σ0 : Array Cell} {l : Nat} (c : Cell) (hs : l < σ.size) (h : σ[l]? = σ0[l]?) :
    (σ.push c)[l]? = σ0[l]? := by
  rw [get_push_lt c hs]; exact h

theorem fr_set {σ σ0 : Array Cell} {l i : Nat} (c : Cell) (hne : i ≠ l) (h : σ[l]? = σ0[l]?) :
    (σ.setIfInBounds i c)[l]? = σ0[l]? := by
  rw [Array.getElem?_setIfInBounds, if_neg hne]; exact h

/-- a cell below is untouched by pushes and by overwrites elsewhere -/
syntax "fr" : tactic
macro_rules
  | `(tactic| fr) => `(tactic| first
      | with_reducible rfl
      | (with_reducible refine fr_push _ ?_ ?_
         · (try simp only [Array.size_push, Array.size_setIfInBounds, push4_size, updStore_size]) <;> omega
         · fr)
      | (with_reducible refine fr_set _ ?_ ?_
         · omega
         · fr))

/-- **zero forces**: what the fully expanded `delay` builds -/
theorem delayX_eval (k : Nat) (e : Datum) (ρ : Env) (st : St) (hl : LibSt st) (hρ2 : ρ.lookup k_makePromise = none) :
    (evalN (k + 5)).eval (delayFull e) ρ st = .ok (.pair (st.store.size + 3))
      { st with store := pushAll st.store [.var (.bool false), .var (thunkX e ρ), .pair (.bool false) (thunkX e ρ), .pair (.pair (st.store.size + 2)) .nil] } := by
  obtain ⟨g, σ, o⟩ := st
  exact delayX_eval' (Nat.le_add_left 5 k) e ρ hl.1 hρ2

/-- **forcing an already forced promise**: its value, three fresh cells, nothing else changes -/
theorem forceX_done (k : Nat) (p : Loc) (w : Val) (st : St) (hl : LibSt st) (hp : PromStruct st.store p true w) :
    ∃ s3, (evalN (k + 7)).apply cForce [.pair p] st = .ok w s3 ∧ s3.out = st.out ∧ s3.globals = st.globals ∧
      s3.store.size = st.store.size + 3 ∧ (∀ l, l < st.store.size → s3.store[l]? = st.store[l]?) := by
  obtain ⟨g, σ, o⟩ := st
  obtain ⟨b, hp1, hb1⟩ := hp
  refine ⟨_, force_done' (Nat.le_add_left 7 k) hl.1 hp1 hb1, rfl, rfl, ?_, ?_⟩
  · simp [Array.size_push]
  · intro l h
    have h : l < σ.size := h
    show (((σ.push _).push _).push _)[l]? = σ[l]?
    rw [get_push_lt _ (by simp only [Array.size_push]; omega), get_push_lt _ (by simp only [Array.size_push]; omega),
      get_push_lt _ h]

theorem preX_cells (e : Datum) (ρ : Env) (g : List (Text × Val)) (σ : Array Cell) (o : List (Bool × Datum)) :
    (preX e ρ ⟨g, σ, o⟩).store[σ.size + 2]? = some (.pair (.bool false) (thunkX e ρ)) ∧
    (preX e ρ ⟨g, σ, o⟩).store[σ.size + 3]? = some (.pair (.pair (σ.size + 2)) .nil) ∧
    (preX e ρ ⟨g, σ, o⟩).store[σ.size + 4]? = some (.var (.pair (σ.size + 3))) := by
  refine ⟨?_, ?_, ?_⟩
  · show (preStore σ (thunkX e ρ))[σ.size + 2]? = _
    lk
  · show (preStore σ (thunkX e ρ))[σ.size + 3]? = _
    lk
  · show (preStore σ (thunkX e ρ))[σ.size + 4]? = _
    lk

/-- **`(force (delay e))`, the delayed expression yields a value**: the same value, the state `e` left plus
    13 cells, the promise memoised (`BOX ↦ (#t . v)`). Fuel: the library needs 13 levels whatever `e` is
    (`promise-update!` runs 6 levels below the use and needs 7), so the offset is 12 (`m ≥ 1`), not 10. -/
theorem forceDelayX_ok (m : Nat) (e : Datum) (ρ : Env) (st s2 : St) (v : Val) (hl : LibSt st)
    (hρ1 : ρ.lookup k_force = none) (hρ2 : ρ.lookup k_makePromise = none)
    (he : (evalN m).eval e ρ (preX e ρ st) = .ok v s2)
    (hl2 : LibSt s2) (hgrow : (preX e ρ st).store.size ≤ s2.store.size)
    (hint : ∀ i, i < 7 → s2.store[st.store.size + i]? = (preX e ρ st).store[st.store.size + i]?) :
    ∃ s3, (evalN (m + 12)).eval (forceUse (delayFull e)) ρ st = .ok v s3 ∧ s3.out = s2.out ∧ s3.globals = s2.globals ∧
      s3.store.size = s2.store.size + 13 ∧
      (∀ l, l < s2.store.size → l ≠ st.store.size + 2 → s3.store[l]? = s2.store[l]?) ∧
      PromStruct s3.store (st.store.size + 3) true v := by
  obtain ⟨g, σ, o⟩ := st
  obtain ⟨g2, σ2, o2⟩ := s2
  cases m with
  | zero =>
    have h0 : (Res.timeout : Res Val) = Res.ok v _ := he
    cases h0
  | succ m =>
    obtain ⟨c2, c3, c4⟩ := preX_cells e ρ g σ o
    have hg : σ.size + 7 ≤ σ2.size := by
      have : (preX e ρ ⟨g, σ, o⟩).store.size = σ.size + 7 := by
        show (preStore σ (thunkX e ρ)).size = _
        simp only [Array.size_push]
      rw [this] at hgrow
      exact hgrow
    have h2 : σ2[σ.size + 2]? = _ := (hint 2 (by omega)).trans c2
    have h3 : σ2[σ.size + 3]? = _ := (hint 3 (by omega)).trans c3
    have h4 : σ2[σ.size + 4]? = _ := (hint 4 (by omega)).trans c4
    refine ⟨_, forceDelay_aux m e ρ hl.1 hl.2 hρ1 hρ2 he hl2.1 hl2.2 hg h2 h3 h4, rfl, rfl, ?_, ?_, ⟨σ.size + 2, ?_, ?_⟩⟩
    · show (finalStore σ2 σ.size v (thunkX e ρ)).size = σ2.size + 13
      simp only [Array.size_push, updStore_size]
    · intro l hl1 hl2
      have hl1 : l < σ2.size := hl1
      have hl2 : l ≠ σ.size + 2 := hl2
      show (finalStore σ2 σ.size v (thunkX e ρ))[l]? = σ2[l]?
      fr
    · show (finalStore σ2 σ.size v (thunkX e ρ))[σ.size + 3]? = _
      lk
    · show (finalStore σ2 σ.size v (thunkX e ρ))[σ.size + 2]? = _
      lk

/-- **… or fails**: the same failure in the same state -/
theorem forceDelayX_err (m : Nat) (e : Datum) (ρ : Env) (st s2 : St) (c : ErrClass) (hl : LibSt st)
    (hρ1 : ρ.lookup k_force = none) (hρ2 : ρ.lookup k_makePromise = none)
    (he : (evalN m).eval e ρ (preX e ρ st) = .err c s2) :
    (evalN (m + 10)).eval (forceUse (delayFull e)) ρ st = .err c s2 := by
  obtain ⟨g, σ, o⟩ := st
  rw [force_prefix m e ρ hl.1 hl.2 hρ1 hρ2]
  exact bind_err (apply_thunk_err (j := m+5) (m := m) (by omega) (by omega) he)

/-! ## converse bookkeeping: a definite run of the expansion reaches the delayed expression -/

theorem definite_bind {α β : Type} {m : M α} {f : α → M β} {st : St} (h : (m >>= f) st ≠ .timeout) :
    m st ≠ .timeout := by
  intro h'
  apply h
  show M.bind' m f st = _
  unfold M.bind'; rw [h']

/-- a definite evaluation has the value any other fuel gives -/
theorem of_def_eval {n J : Nat} {e : Datum} {ρ : Env} {st s1 : St} {v : Val}
    (hd : (evalN n).eval e ρ st ≠ .timeout) (h : (evalN J).eval e ρ st = .ok v s1) :
    (evalN n).eval e ρ st = .ok v s1 := by
  rcases Nat.le_total n J with hle | hle
  · rw [← evalN_mono hle e ρ st hd]; exact h
  · rw [evalN_mono hle e ρ st (by rw [h]; simp)]; exact h

theorem pos_eval {N : Nat} {e : Datum} {ρ : Env} {st : St} (hd : (evalN N).eval e ρ st ≠ .timeout) :
    ∃ n, N = n + 1 := by
  cases N with
  | zero => exact absurd rfl hd
  | succ n => exact ⟨n, rfl⟩

theorem pos_apply {N : Nat} {f : Val} {a : List Val} {st : St} (hd : (evalN N).apply f a st ≠ .timeout) :
    ∃ n, N = n + 1 := by
  cases N with
  | zero => exact absurd rfl hd
  | succ n => exact ⟨n, rfl⟩

/-- `(promise-done? promise)` / `(promise-value promise)` where `promise` is a local variable -/
theorem eval_doneForm {g : List (Text × Val)} {σ : Array Cell} {o : List (Bool × Datum)} (k : Nat) (hl : LibOK g)
    {lp p b : Loc} {done : Bool} {w : Val} {ρ' : Env} (hρ : ρ'.lookup k_promise = some lp)
    (hρd : ρ'.lookup k_promiseDone = none) (hv : σ[lp]? = some (.var (.pair p)))
    (hp : σ[p]? = some (.pair (.pair b) .nil)) (hb : σ[b]? = some (.pair (.bool done) w)) :
    (evalN (k+5)).eval (L [s k_promiseDone, s k_promise]) ρ' ⟨g, σ, o⟩ =
      .ok (.bool done) ⟨g, σ.push (.var (.pair p)), o⟩ :=
  (app1 (n := k+4) (nk (by decide)) (sym_local (by decide) hρ hv) (sym_global (by decide) hρd hl.done)).trans
    (apply_cDone (Nat.le_add_left 4 k) hl hp hb)

theorem eval_valueForm {g : List (Text × Val)} {σ : Array Cell} {o : List (Bool × Datum)} (k : Nat) (hl : LibOK g)
    {lp p b : Loc} {done : Bool} {w : Val} {ρ' : Env} (hρ : ρ'.lookup k_promise = some lp)
    (hρd : ρ'.lookup k_promiseValue = none) (hv : σ[lp]? = some (.var (.pair p)))
    (hp : σ[p]? = some (.pair (.pair b) .nil)) (hb : σ[b]? = some (.pair (.bool done) w)) :
    (evalN (k+5)).eval (L [s k_promiseValue, s k_promise]) ρ' ⟨g, σ, o⟩ = .ok w ⟨g, σ.push (.var (.pair p)), o⟩ :=
  (app1 (n := k+4) (nk (by decide)) (sym_local (by decide) hρ hv) (sym_global (by decide) hρd hl.value)).trans
    (apply_cValue (Nat.le_add_left 4 k) hl hp hb)

/-- **if the expansion is definite, so was the delayed expression** (with the same fuel; in fact with 7 levels less) -/
theorem forceDelayX_definite (N : Nat) (e : Datum) (ρ : Env) (st : St) (hl : LibSt st)
    (hρ1 : ρ.lookup k_force = none) (hρ2 : ρ.lookup k_makePromise = none)
    (hd : (evalN N).eval (forceUse (delayFull e)) ρ st ≠ .timeout) : (evalN N).eval e ρ (preX e ρ st) ≠ .timeout := by
  obtain ⟨g, σ, o⟩ := st
  -- (force d): the operand, the operator
  obtain ⟨N1, rfl⟩ := pos_eval hd
  rw [evalN_succ_eval, forceUse, native_app _ _ _ _ (nk (by decide)), evalArgs_one, bind_assoc] at hd
  have hA := of_def_eval (definite_bind hd)
    (delayX_eval' (g := g) (σ := σ) (o := o) (j := 5) (Nat.le_refl 5) e ρ hl.1 hρ2)
  rw [bind_ok hA, pure_bind] at hd
  have hF := of_def_eval (definite_bind hd)
    (sym_global (n := 0) (st := ⟨g, push4 σ (.bool false) (thunkX e ρ), o⟩) (by decide) hρ1 hl.2)
  rw [bind_ok hF] at hd
  -- the body of `force`: the test
  obtain ⟨N2, rfl⟩ := pos_apply hd
  rw [cForce, closure1 (body := bodyForce) (by decide), push4_size] at hd
  obtain ⟨N3, rfl⟩ := pos_eval hd
  rw [evalN_succ_eval, bodyForce, native_if3] at hd
  have hD := of_def_eval (definite_bind hd)
    (eval_doneForm (o := o) (σ := (push4 σ (.bool false) (thunkX e ρ)).push (.var (.pair (σ.size + 3)))) 0 hl.1
      (lp := σ.size + 4) (p := σ.size + 3) (b := σ.size + 2) (done := false) (w := thunkX e ρ) rfl rfl
      (by lk) (by lk) (by lk))
  rw [bind_ok hD] at hd
  have hd : (evalN N3).eval forceLet [(k_promise, σ.size + 4)]
      ⟨g, ((push4 σ (.bool false) (thunkX e ρ)).push (.var (.pair (σ.size + 3)))).push (.var (.pair (σ.size + 3))), o⟩ ≠
      .timeout := hd
  -- the `let`: `((promise-value promise))`
  obtain ⟨N4, rfl⟩ := pos_eval hd
  rw [evalN_succ_eval, forceLet_eval] at hd
  have hd1 : (evalN N4).eval (L [.pair (s k_promiseValue) (L [s k_promise])]) [(k_promise, σ.size + 4)]
      ⟨g, ((push4 σ (.bool false) (thunkX e ρ)).push (.var (.pair (σ.size + 3)))).push (.var (.pair (σ.size + 3))), o⟩ ≠
      .timeout := definite_bind hd
  obtain ⟨N5, rfl⟩ := pos_eval hd1
  rw [evalN_succ_eval, native_app_pair, evalArgs_nil, pure_bind] at hd1
  have hV := of_def_eval (definite_bind hd1)
    (eval_valueForm (o := o)
      (σ := ((push4 σ (.bool false) (thunkX e ρ)).push (.var (.pair (σ.size + 3)))).push (.var (.pair (σ.size + 3))))
      0 hl.1 (lp := σ.size + 4) (p := σ.size + 3) (b := σ.size + 2) (done := false) (w := thunkX e ρ) rfl rfl
      (by lk) (by lk) (by lk))
  rw [bind_ok hV] at hd1
  -- the thunk: `(make-promise #t e)`
  obtain ⟨N6, rfl⟩ := pos_apply hd1
  have hd2 : (evalN N6).eval (mkDone e) ρ ⟨g, preStore σ (thunkX e ρ), o⟩ ≠ .timeout := hd1
  obtain ⟨N7, rfl⟩ := pos_eval hd2
  rw [evalN_succ_eval, mkDone, native_app _ _ _ _ (nk (by decide)), evalArgs_two, bind_assoc] at hd2
  obtain ⟨N8, rfl⟩ := pos_eval (definite_bind hd2)
  have hb : (evalN (N8+1)).eval (.bool true) ρ ⟨g, preStore σ (thunkX e ρ), o⟩ =
      .ok (.bool true) ⟨g, preStore σ (thunkX e ρ), o⟩ := rfl
  rw [bind_ok hb, bind_assoc] at hd2
  have hd4 : (evalN (N8+1)).eval e ρ (preX e ρ ⟨g, σ, o⟩) ≠ .timeout := definite_bind hd2
  intro hto
  have hm : N8 + 1 ≤ N8 + 1 + 1 + 1 + 1 + 1 + 1 + 1 + 1 := by omega
  rw [evalN_mono hm e ρ _ hd4] at hto
  exact hd4 hto

end Marwood.Spec.Eval.Derived
