import Marwood.Lemmas.SimPrims
/-!
# Heap simulation: the non-allocating operations of `concreteOps`

reads (`getAt`, `deref`, `callee`, `lambdaAt`, `envGet`, `globGet`) give related results on related
heaps; writes (`setAt`, `envPut`, `globPut`) of related values keep the heaps related under the same `φ`.
-/
namespace Marwood.Lemmas.Sim
open Marwood Marwood.Vm Marwood.Vm.Concrete
open Marwood.Heap (GcState)

variable {φ : Inj} {h h' : CHeap}

theorem repr_rel {c c' : CCell} (r : CellRel φ c c') : VRel φ (repr c) (repr c') := by
  cases r with
  | val h1 => exact h1
  | lexEnv _ => exact .atom rfl
  | vector _ => exact .atom rfl
  | lambda _ _ _ => exact .atom rfl
  | cont _ => exact .atom rfl

theorem getAt_rel (hs : HeapSim φ h h') (ok : SizeOk h) (ok' : SizeOk h') {a b} (hab : AddrRel φ a b) :
    VRel φ (getAt h a) (getAt h' b) := by
  unfold getAt
  rcases hab.lookup hs ok ok' with ⟨e1, e2⟩ | ⟨_, c, c', e1, e2, r⟩
  · rw [e1, e2]; exact .atom rfl
  · rw [e1, e2]; exact repr_rel r

theorem deref_atom {v : VCell} (hf : addrFree v = true) (h : CHeap) : deref h v = v := by
  cases v <;> first | rfl | simp [addrFree] at hf

theorem deref_rel (hs : HeapSim φ h h') (ok : SizeOk h) (ok' : SizeOk h') {v v'} (hv : VRel φ v v') :
    VRel φ (deref h v) (deref h' v') := by
  cases hv with
  | ptr h1 => exact getAt_rel hs ok ok' h1
  | atom h1 => rw [deref_atom h1, deref_atom h1]; exact .atom h1
  | pair h1 h2 => exact .pair h1 h2
  | closure h1 h2 => exact .closure h1 h2
  | lexEnvPtr h1 => exact .lexEnvPtr h1
  | envPtr h1 => exact .envPtr h1
  | instrPtr h1 => exact .instrPtr h1

inductive CalleeRel (φ : Inj) : Callee → Callee → Prop
  | closure {l e l' e'} : AddrRel φ l l' → AddrRel φ e e' → CalleeRel φ (.closure l e) (.closure l' e')
  | lambda : CalleeRel φ .lambda .lambda
  | builtin {id} : CalleeRel φ (.builtin id) (.builtin id)
  | continuation {c c'} : ContRel φ c c' → CalleeRel φ (.continuation c) (.continuation c')
  | other : CalleeRel φ .other .other

theorem calleeOfCell_rel {c c' : CCell} (r : CellRel φ c c') : CalleeRel φ (calleeOfCell c) (calleeOfCell c') := by
  cases r with
  | val h1 =>
    cases h1 with
    | closure a b => exact .closure a b
    | atom hf => rename_i v; cases v <;> first | exact .other | exact .builtin | simp [addrFree] at hf
    | _ => exact .other
  | lexEnv _ => exact .other
  | vector _ => exact .other
  | lambda _ _ _ => exact .lambda
  | cont k => exact .continuation k

theorem callee_rel (hs : HeapSim φ h h') (ok : SizeOk h) (ok' : SizeOk h') {v v'} (hv : VRel φ v v') :
    CalleeRel φ (callee h v) (callee h' v') := by
  cases hv with
  | ptr h1 =>
    unfold callee
    rcases h1.lookup hs ok ok' with ⟨e1, e2⟩ | ⟨_, c, c', e1, e2, r⟩
    · simp only [e1, e2]; exact .other
    · simp only [e1, e2]; exact calleeOfCell_rel r
  | closure a b => exact .closure a b
  | atom hf => cases v <;> first | exact .other | exact .builtin | simp [addrFree] at hf
  | _ => exact .other

theorem lambdaAt_rel (hs : HeapSim φ h h') (ok : SizeOk h) (ok' : SizeOk h') {a b} (hab : AddrRel φ a b) :
    (lambdaAt h a = none ∧ lambdaAt h' b = none) ∨
    ∃ l l', lambdaAt h a = some l ∧ lambdaAt h' b = some l' ∧ BcRel φ l.bc l'.bc ∧ VsRel φ l.args l'.args ∧
      EnvmapRel φ l.envmap l'.envmap := by
  unfold lambdaAt
  rcases hab.lookup hs ok ok' with ⟨e1, e2⟩ | ⟨_, c, c', e1, e2, r⟩
  · left; simp [e1, e2]
  · rw [e1, e2]
    cases r with
    | lambda h1 h2 h3 => exact .inr ⟨_, _, rfl, rfl, h1, h2, h3⟩
    | _ => left; simp

theorem envAt_rel (hs : HeapSim φ h h') (ok : SizeOk h) (ok' : SizeOk h') {a b} (hab : AddrRel φ a b) :
    (envAt h a = none ∧ envAt h' b = none) ∨
    (φ a = some b ∧ ∃ ss ss', envAt h a = some ss ∧ envAt h' b = some ss' ∧ VsRel φ ss ss') := by
  unfold envAt
  rcases hab.lookup hs ok ok' with ⟨e1, e2⟩ | ⟨hφ, c, c', e1, e2, r⟩
  · left; simp [e1, e2]
  · rw [e1, e2]
    cases r with
    | lexEnv h1 => exact .inr ⟨hφ, _, _, rfl, rfl, h1⟩
    | _ => left; simp

/-- option results related -/
inductive OptRel {α β : Type} (R : α → β → Prop) : Option α → Option β → Prop
  | none : OptRel R none none
  | some {a b} : R a b → OptRel R (some a) (some b)

theorem VsRel.getOpt {l l'} (hl : VsRel φ l l') (i : Nat) : OptRel (VRel φ) l[i]? l'[i]? := by
  rcases hl.get i with ⟨e1, e2⟩ | ⟨v, v', e1, e2, r⟩
  · rw [e1, e2]; exact .none
  · rw [e1, e2]; exact .some r

theorem envGet_rel (hs : HeapSim φ h h') (ok : SizeOk h) (ok' : SizeOk h') {a b} (hab : AddrRel φ a b) (k : Nat) :
    OptRel (VRel φ) (envGet h a k) (envGet h' b k) := by
  unfold envGet
  rcases envAt_rel hs ok ok' hab with ⟨e1, e2⟩ | ⟨_, ss, ss', e1, e2, r⟩
  · rw [e1, e2]; exact .none
  · rw [e1, e2]; exact r.getOpt k

/-- overwrite a related pair of cells with related contents -/
theorem cwrite_sim (hs : HeapSim φ h h') {p p'} (hp : φ p = some p') {c c' : CCell} (hc : CellRel φ c c') :
    HeapSim φ (cwrite h p c) (cwrite h' p' c') := by
  obtain ⟨l1, l2, _, _⟩ := hs.dom_lt hp
  refine ⟨hs.inj, ?_, hs.globals, hs.globSyms, cwrite_inv _ hs.inv _ _, cwrite_inv _ hs.inv' _ _⟩
  intro a b hab
  obtain ⟨d, d', g1, g2, r, f1, f2⟩ := hs.cells a b hab
  by_cases e : a = p
  · subst e
    have : b = p' := by rw [hp] at hab; cases hab; rfl
    subst this
    exact ⟨c, c', by simp [cwrite, l1], by simp [cwrite, l2], hc, f1, f2⟩
  · have e' : b ≠ p' := fun eb => e (hs.inj a p p' (eb ▸ hab) hp)
    refine ⟨d, d', ?_, ?_, r, f1, f2⟩
    · simp only [cwrite]; rw [Array.getElem?_setIfInBounds_ne (Ne.symm e)]; exact g1
    · simp only [cwrite]; rw [Array.getElem?_setIfInBounds_ne (Ne.symm e')]; exact g2

/-- a write through a sentinel address is out of range in both heaps -/
theorem cwrite_sentinel (hs : HeapSim φ h h') (ok : SizeOk h) (ok' : SizeOk h') {p} (hp : 2 ^ 63 ≤ p)
    (c c' : CCell) : HeapSim φ (cwrite h p c) (cwrite h' p c') := by
  refine ⟨hs.inj, ?_, hs.globals, hs.globSyms, cwrite_inv _ hs.inv _ _, cwrite_inv _ hs.inv' _ _⟩
  intro a b hab
  obtain ⟨d, d', g1, g2, r, f1, f2⟩ := hs.cells a b hab
  have l1 := lt_of_get_some g1
  have l2 := lt_of_get_some g2
  unfold SizeOk at ok ok'
  refine ⟨d, d', ?_, ?_, r, f1, f2⟩
  · simp only [cwrite]; rw [Array.getElem?_setIfInBounds_ne (by omega)]; exact g1
  · simp only [cwrite]; rw [Array.getElem?_setIfInBounds_ne (by omega)]; exact g2

theorem setAt_sim (hs : HeapSim φ h h') (ok : SizeOk h) (ok' : SizeOk h') {p p'} (hp : AddrRel φ p p')
    {v v'} (hv : VRel φ v v') : HeapSim φ (cwrite h p (.val v)) (cwrite h' p' (.val v')) := by
  rcases hp with hp | ⟨rfl, hp⟩
  · exact cwrite_sim hs hp (.val hv)
  · exact cwrite_sentinel hs ok ok' hp _ _

theorem envPut_rel (hs : HeapSim φ h h') (ok : SizeOk h) (ok' : SizeOk h') {a b} (hab : AddrRel φ a b) (k : Nat)
    {v v'} (hv : VRel φ v v') : OptRel (HeapSim φ) (envPut h a k v) (envPut h' b k v') := by
  unfold envPut
  rcases envAt_rel hs ok ok' hab with ⟨e1, e2⟩ | ⟨hφ, ss, ss', e1, e2, r⟩
  · rw [e1, e2]; exact .none
  · rw [e1, e2]
    simp only
    rw [← r.length_eq]
    split
    · exact .some (cwrite_sim hs hφ (.lexEnv (r.set k hv)))
    · exact .none

theorem globGet_rel (hs : HeapSim φ h h') (n : Nat) :
    VRel φ (h.globals[n]?.getD .undefined) (h'.globals[n]?.getD .undefined) := by
  have := hs.globals.getOpt n
  rw [Array.getElem?_toList, Array.getElem?_toList] at this
  generalize h.globals[n]? = x at this
  generalize h'.globals[n]? = y at this
  cases this with
  | none => exact .atom rfl
  | some r => exact r

theorem globPut_sim (hs : HeapSim φ h h') (n : Nat) {v v'} (hv : VRel φ v v') :
    HeapSim φ { h with globals := h.globals.setIfInBounds n v }
      { h' with globals := h'.globals.setIfInBounds n v' } := by
  refine ⟨hs.inj, hs.cells, ?_, hs.globSyms, ⟨hs.inv.sizes, hs.inv.shape, hs.inv.free_iff, hs.inv.nodup, hs.inv.no_used⟩,
    ⟨hs.inv'.sizes, hs.inv'.shape, hs.inv'.free_iff, hs.inv'.nodup, hs.inv'.no_used⟩⟩
  simp only [Array.toList_setIfInBounds]
  exact hs.globals.set n hv

end Marwood.Lemmas.Sim
