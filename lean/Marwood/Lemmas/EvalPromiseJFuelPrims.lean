import Marwood.Lemmas.EvalPromiseJFuel
import Marwood.Lemmas.EvalPromiseJPrims
/-! Forward simulation with a frame (`SimJ`): mirror of `EvalExtraFuelPrims.lean` (see `EvalPromiseJ.lean`). -/
namespace Marwood.Spec.Eval.ExtraJ
open Marwood Marwood.Spec.Eval Marwood.Spec.Eval.Extra

variable {f : LMap} {J : Junk} {st st' : St}

theorem simJAt_length (r : StRelJ f J st st') {v v' : Val} (hv : VRel f v v')
    (hc : listCut (st.store.size + 1) st.store v = false) :
    ResRelJ f J (VRel f) (primPair .length [v] st) (primPair .length [v'] st') := by
  simp only [primPair]
  refine ResRelJ.bind (simJAt_getList r hv hc) (fun xs xs' s s' _ hx rs => ?_)
  rw [hx.length_eq]
  exact SimJ.pure _ _ (.int _) s s' rs

theorem simJAt_reverse (r : StRelJ f J st st') {v v' : Val} (hv : VRel f v v')
    (hc : listCut (st.store.size + 1) st.store v = false) :
    ResRelJ f J (VRel f) (primPair .reverse [v] st) (primPair .reverse [v'] st') := by
  simp only [primPair]
  refine ResRelJ.bind (simJAt_getList r hv hc) (fun xs xs' s s' _ hx rs => ?_)
  exact simJ_allocList hx.reverse s s' rs

theorem simJAt_listToVector (r : StRelJ f J st st') {v v' : Val} (hv : VRel f v v')
    (hc : listCut (st.store.size + 1) st.store v = false) :
    ResRelJ f J (VRel f) (primVec .listToVector [v] st) (primVec .listToVector [v'] st') := by
  simp only [primVec]
  refine ResRelJ.bind (simJAt_getList r hv hc) (fun xs xs' s s' _ hx rs => ?_)
  exact simJ_allocVec hx s s' rs

theorem simJAt_append2 (r : StRelJ f J st st') {a a' b b' : Val} (ha : VRel f a a') (hb : VRel f b b')
    (hc : listCut (st.store.size + 1) st.store a = false) :
    ResRelJ f J (VRel f) (primPair .append [a, b] st) (primPair .append [a', b'] st') := by
  simp only [primPair]
  refine ResRelJ.bind (simJAt_getList r ha hc) (fun xs xs' s s' _ hx rs => ?_)
  exact simJ_allocListTail hx hb s s' rs

theorem simJAt_append3 (r : StRelJ f J st st') {a a' b b' c c' : Val} (ha : VRel f a a') (hb : VRel f b b') (hcc : VRel f c c')
    (hc : listCut (st.store.size + 1) st.store a = false) (hc2 : listCut (st.store.size + 1) st.store b = false) :
    ResRelJ f J (VRel f) (primPair .append [a, b, c] st) (primPair .append [a', b', c'] st') := by
  simp only [primPair]
  refine ResRelJ.bind (simJAt_getList r ha hc) (fun xs xs' s s' hm hx rs => ?_)
  obtain ⟨rfl, _⟩ := getList_ok_state hm
  refine ResRelJ.bind (simJAt_getList rs hb hc2) (fun ys ys' s2 s2' _ hy rs2 => ?_)
  exact simJ_allocListTail (hx.append hy) hcc s2 s2' rs2

theorem simJAt_listP (r : StRelJ f J st st') {v v' : Val} (hv : VRel f v v')
    (hc : listCut (st.store.size + 1) st.store v = false) :
    ResRelJ f J (VRel f) (primPair .listP [v] st) (primPair .listP [v'] st') := by
  show ResRelJ f J (VRel f) (Res.ok (Val.bool (listOfVal (st.store.size + 1) st.store v).isSome) st)
    (Res.ok (Val.bool (listOfVal (st'.store.size + 1) st'.store v').isSome) st')
  have h := listOfVal_fuel_rel r.toStRel hv hc
  revert h
  generalize listOfVal (st.store.size + 1) st.store v = o
  generalize listOfVal (st'.store.size + 1) st'.store v' = o'
  intro h
  cases h with
  | none => exact ⟨.bool _, r⟩
  | some _ => exact ⟨.bool _, r⟩

theorem simJAt_mem (hf : Inj f) (r : StRelJ f J st st') (p : Prim) (assoc : Bool)
    (hp : ∀ (x l : Val) (s : St), primPair p [x, l] s = memWalk assoc x (s.store.size + 1) l s)
    {x x' l l' : Val} (hx : VRel f x x') (hl : VRel f l l')
    (hc : spineCut (st.store.size + 1) st.store l = false) :
    ResRelJ f J (VRel f) (primPair p [x, l] st) (primPair p [x', l'] st') := by
  rw [hp, hp]
  exact simJAt_memWalk hf assoc r hx hl hc

theorem simJAt_output (w : Bool) (r : StRelJ f J st st') {v v' : Val} (hv : VRel f v v')
    (hc : valCut (st.store.size + 1) st.store v = false) :
    ResRelJ f J (VRel f) ((do let d ← externalise v; emit w d; pure Val.void : M Val) st)
      ((do let d ← externalise v'; emit w d; pure Val.void : M Val) st') := by
  refine ResRelJ.bind (simJAt_externalise r hv hc) (fun d d' s s' _ hd rs => ?_)
  subst hd
  exact SimJ.bind (simJ_emit w _) (fun _ _ _ => SimJ.pure _ _ VRel.void) s s' rs

theorem simJAt_display (r : StRelJ f J st st') {v v' : Val} (hv : VRel f v v')
    (hc : valCut (st.store.size + 1) st.store v = false) :
    ResRelJ f J (VRel f) (primMisc .display [v] st) (primMisc .display [v'] st') := simJAt_output false r hv hc

theorem simJAt_write (r : StRelJ f J st st') {v v' : Val} (hv : VRel f v v')
    (hc : valCut (st.store.size + 1) st.store v = false) :
    ResRelJ f J (VRel f) (primMisc .write [v] st) (primMisc .write [v'] st') := simJAt_output true r hv hc

end Marwood.Spec.Eval.ExtraJ
