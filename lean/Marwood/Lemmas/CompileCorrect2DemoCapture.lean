import Marwood.Lemmas.CompileCorrect2Demo
/-!
# T01.3 stage 2 — a captured variable: `((lambda (x) ((lambda (y) x) 2)) 1)`

The inner procedure refers to the parameter `x` of the outer one: its environment map is
`[y ↦ Argument 0, x ↦ IofEnvironment]`, CLOSURE (run inside the outer activation) makes its slot for `x` a
`LexicalEnvPtr` to slot 0 of the outer activation's environment, ENTER copies that pointer into the inner
activation's environment, and the reference to `x` loads through it: one level of indirection. The call of the
inner procedure is a tail call (`TCALL`, equal argument counts). Every hypothesis of `compileExpr_correct2` is
discharged; the run ends with a representation of `1`.
-/
namespace Marwood.Lemmas.CompileCorrect2.Toy
open Marwood Marwood.Vm Marwood.Lemmas.CompileCorrect Marwood.Lemmas.CompileCorrect2
open Marwood.Spec.Eval (Val Cell evalN k_lambda k_if_)

def ky : Text := ['y']

def lamI : Datum := Datum.ofList [.sym k_lambda, Datum.ofList [.sym ky], .sym kx]
def lamO : Datum := Datum.ofList [.sym k_lambda, Datum.ofList [.sym kx], Datum.ofList [lamI, .num (.fix 2)]]
def progC : Datum := Datum.ofList [lamO, .num (.fix 1)]

def ctxI : Ctx := ⟨[ky], [(ky, .argument 0), (kx, .iofEnvironment)]⟩

def partsI : LambdaParts :=
  { formals := [ky], isVararg := false, ctx := ctxI, prologue := [.op .enter], body := Datum.ofList [.sym kx] }

def partsO : LambdaParts :=
  { formals := [kx], isVararg := false, ctx := lamCtx, prologue := [.op .enter],
    body := Datum.ofList [Datum.ofList [lamI, .num (.fix 2)]] }

def codeI : List BC := [.op .mov, .envSlot kx, .acc]

def codeO : List BC :=
  [.op .movImm, .datum (.num (.fix 2)), .acc, .op .pushAcc, .op .pushImm, .argc 1,
   .op .movImm, .lambda 0, .acc, .op .closureAcc, .op .tcallAcc]

def lamMI : LambdaM := lamOf partsI codeI
def lamMO : LambdaM := lamOf partsO codeO

def progCodeC : List BC :=
  [.op .movImm, .datum (.num (.fix 1)), .acc, .op .pushAcc, .op .pushImm, .argc 1,
   .op .movImm, .lambda 1, .acc, .op .closureAcc, .op .callAcc]

theorem partsO_ok : lambdaParts 18 c0 lamO false = .ok partsO := by rfl
theorem partsI_ok : lambdaParts 15 lamCtx lamI false = .ok partsI := by rfl

theorem compileC : compileExpr 20 {} c0 0 false progC = .ok ({ lambdas := [lamMI, lamMO] }, progCodeC) :=
  okIs_eq (by decide +kernel)

def cellsI : List VCell := [.opcode .enter, .opcode .mov, .lexEnvSlot 1, .acc, .opcode .ret]

def cellsO : List VCell :=
  [.opcode .enter, .opcode .movImm, .opaque "n2", .acc, .opcode .pushAcc, .opcode .pushImm, .argc 1,
   .opcode .movImm, .ptr 0, .acc, .opcode .closureAcc, .opcode .tcallAcc, .opcode .ret]

def cellsC : List VCell :=
  [.opcode .movImm, .opaque "n1", .acc, .opcode .pushAcc, .opcode .pushImm, .argc 1,
   .opcode .movImm, .ptr 1, .acc, .opcode .closureAcc, .opcode .callAcc]

def heapC : THeap :=
  { lams := [⟨cellsI, 1, [.arg 0, .iofEnv 0]⟩, ⟨cellsO, 1, [.arg 0]⟩, ⟨cellsC, 0, []⟩], envs := #[], clos := #[],
    globals := #[] }

def stateC : MSt THeap :=
  { heap := heapC, stack := ⟨List.replicate 8 .undefined, 0⟩, acc := .undefined, ep := 0, ipL := 2, ipO := 0,
    bp := 0 }

def stC' : SSt := { globals := [], store := #[.var (.int 1), .var (.int 2)], out := [] }

theorem evalC : (evalN 8).eval progC [] demoSt = .ok (.int 1) stC' := by rfl

abbrev dC : RepData2 tops := tD [lamMI, lamMO]

theorem fragC : F2 (fun _ => False) 20 c0 (bound []) false progC := by
  refine F2.app lamO _ ⟨by decide, by intro x h; cases h⟩ ?_ (F2L.cons _ _ (F2.num _) F2L.nil)
  refine F2.lambda (Datum.ofList [.sym kx]) _ partsO [kx] _ [] [] partsO_ok (by rfl) rfl rfl (by decide) (by rfl)
    (by intro e he; simp at he; subst he; rfl) rfl (by intro q hq; cases hq) ?_
  refine F2B.last _ (F2.app lamI _ ⟨by decide, by intro x h; cases h⟩ ?_ (F2L.cons _ _ (F2.num _) F2L.nil))
  refine F2.lambda (Datum.ofList [.sym ky]) _ partsI [ky] _ [] [(kx, .iofEnvironment)] partsI_ok (by rfl) rfl rfl
    (by decide) (by rfl) (by intro e he; simp at he; subst he; rfl) rfl ?_ ?_
  · intro q hq
    have : q = (kx, .iofEnvironment) := by simpa using hq
    subst this
    exact ⟨rfl, by decide⟩
  · exact F2B.last _ (F2.sym kx ⟨fun _ => .inr (.inl (by simp)), fun _ => by decide⟩)

theorem finalC_get {id : Nat} {lamM : LambdaM} (h : ([lamMI, lamMO] : List LambdaM)[id]? = some lamM) :
    (id = 0 ∧ lamM = lamMI) ∨ (id = 1 ∧ lamM = lamMO) := by
  match id, h with
  | 0, h => left; exact ⟨rfl, by injection h with e; exact e.symm⟩
  | 1, h => right; exact ⟨rfl, by injection h with e; exact e.symm⟩
  | n + 2, h => simp at h

theorem codeC_I (S : Array Cell) : CodeAt2 dC ctxI.envmap heapC S 0 0 lamMI.bc := by
  refine CodeAt2.ofAll2 cellsI rfl (fun i _ => by rw [Nat.zero_add]; rfl) ?_
  have hslot : Loads2 dC ctxI.envmap heapC S (.envSlot kx) (.lexEnvSlot 1) := ⟨1, by decide, rfl⟩
  exact .cons rfl (.cons rfl (.cons hslot (.cons rfl (.cons rfl .nil))))

theorem codeC_O (S : Array Cell) : CodeAt2 dC lamCtx.envmap heapC S 1 0 lamMO.bc := by
  refine CodeAt2.ofAll2 cellsO rfl (fun i _ => by rw [Nat.zero_add]; rfl) ?_
  have n2 : Loads2 dC lamCtx.envmap heapC S (.datum (.num (.fix 2))) (.opaque "n2") :=
    ⟨(by intro o e; cases e), .atom rfl (.base rfl)⟩
  have hl0 : Loads2 dC lamCtx.envmap heapC S (.lambda 0) (.ptr 0) := by
    refine ⟨rfl, fun lamM hl => ?_⟩
    rcases finalC_get hl with ⟨_, rfl⟩ | ⟨h, _⟩
    · exact ⟨rfl, rfl⟩
    · cases h
  exact .cons rfl (.cons rfl (.cons n2 (.cons rfl (.cons rfl (.cons rfl (.cons rfl (.cons rfl (.cons hl0
    (.cons rfl (.cons rfl (.cons rfl (.cons rfl .nil))))))))))))

theorem codeC_top (S : Array Cell) : CodeAt2 dC c0.envmap heapC S 2 0 progCodeC := by
  refine CodeAt2.ofAll2 cellsC rfl (fun i _ => by rw [Nat.zero_add]; rfl) ?_
  have n1 : Loads2 dC c0.envmap heapC S (.datum (.num (.fix 1))) (.opaque "n1") :=
    ⟨(by intro o e; cases e), .atom rfl (.base rfl)⟩
  have hl1 : Loads2 dC c0.envmap heapC S (.lambda 1) (.ptr 1) := by
    refine ⟨rfl, fun lamM hl => ?_⟩
    rcases finalC_get hl with ⟨h, _⟩ | ⟨_, rfl⟩
    · cases h
    · exact ⟨rfl, rfl⟩
  exact .cons rfl (.cons n1 (.cons rfl (.cons rfl (.cons rfl (.cons rfl (.cons rfl (.cons hl1 (.cons rfl
    (.cons rfl (.cons rfl .nil))))))))))

theorem invC : Inv2 dC W0 heapC demoSt := by
  refine ⟨(by intro x w h; cases h), (by intro x h; cases h), trivial, (by intro x h; cases h), ?_,
    (by intro e n l l' h; cases h), (by intro e n e' n' l h; cases h), (by intro e n l h; cases h)⟩
  intro id lamM hid
  rcases finalC_get hid with ⟨rfl, rfl⟩ | ⟨rfl, rfl⟩
  · exact ⟨codeC_I _, rfl⟩
  · exact ⟨codeC_O _, rfl⟩

/-- **Non-vacuity, captured variable**: the reference to `x` inside `(lambda (y) x)` goes through the one-level
    pointer CLOSURE and ENTER set up, and yields the outer argument. -/
theorem demo_capture_runs :
    ∃ W' s', Run2 dC W' stateC 11 demoSt stC' (.int 1) s' ∧ s'.acc = .opaque "n1" := by
  obtain ⟨W', s', _, r⟩ := compileExpr_correct2_nontail (laws [lamMI, lamMO]) 20 {} c0 0 progC _ progCodeC []
    fragC ctxOK_top compileC (List.prefix_refl _) 8 demoSt (.int 1) stC' evalC W0 stateC
    (codeC_top _) rfl invC (envRep_top _ _ _) (by show 0 < 8; omega)
  exact ⟨W', s', r, tVRc_int r.acc⟩

end Marwood.Lemmas.CompileCorrect2.Toy
