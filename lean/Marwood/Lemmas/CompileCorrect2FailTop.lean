import Marwood.Lemmas.CompileCorrect2FailMain
/-!
# T01.3 stage 2, ERROR case — applications, the failing closure call, the induction
-/
namespace Marwood.Lemmas.CompileCorrect2
open Marwood Marwood.Vm Marwood.Lemmas.CompileCorrect
open Marwood.Spec.Eval (Val Prim Cell Env ErrClass evalN evalStep applyStep evalArgs properList quoteVal kwOf insertG
  k_quote k_if_ k_setBang k_define k_lambda)

variable {H : Type} {ops : HeapOps H} {D : RepData2 ops}

/-- a failing application: an operand, the operator, or the call -/
theorem err2_app (L : Laws2 D) (LE : ErrLaws2 D) {n : Nat} (ih : ExprOK2 D n) (ihe : ExprErr2NT D n)
    (ihce : CallErr2 D n)
    {f : Nat} {cst cst' : CState} {c : Ctx} {base : Nat} {tail : Bool} {fn args : Datum} {code : List BC} {ρ : Env}
    (hh : AppHead fn) (hff : F2 D.setG f c (bound ρ) false fn) (hfr : F2L D.setG f c (bound ρ) args) (hcx : CtxOK c)
    (hcomp : compileExpr (f + 1) cst c base tail (.pair fn args) = .ok (cst', code))
    (hpre : cst'.lambdas <+: D.final) {σ σ' : SSt} {cl : ErrClass}
    (hev : evalStep (evalN n) (.pair fn args) ρ σ = .err cl σ') (hcs : cl ≠ .syntax)
    {W : World} {s : MSt H} {fr : Frame}
    (hc : CodeAt2 D c.envmap s.heap σ.store s.ipL base code) (hip : s.ipO = base)
    (hi : Inv2 D W s.heap σ) (her : EnvRep ops W s.heap c s.ep ρ) (hw : SWF s.stack)
    (hfrm : tail = true → FrameAt s.stack s.bp fr) :
    ∃ W' sf e', W.le W' ∧ ErrRun2 D W' s (errBase tail s fr) σ σ' cl sf e' := by
  obtain ⟨cst1, code1, k, pcode, hca, hcf, hcode⟩ := compile_app_inv2 hh hcomp
  subst hcode
  subst hip
  have hcA := hc.left.left.left
  have hcP := hc.left.left.right
  have hcF := hc.left.right
  have hcC := hc.right
  have hpre1 : cst1.lambdas <+: D.final := ((monoOK _ f).1 _ _ _ _ _ _ _ _ hff hcf).trans hpre
  rcases evalStep_app_err_inv hh hev with h | ⟨es, hpl, hcase⟩
  · exact absurd h hcs
  rcases hcase with h | ⟨ws, σ1, hea, hcase⟩
  · obtain ⟨W', sf, e', hw', r⟩ := argsErr2 L ih ihe es _ _ _ _ _ _ _ _ ρ hfr hcx hca hpre1 hpl σ cl σ' h hcs W s hcA rfl
      hi her hw
    exact ⟨W', sf, e', hw', r.lift hfrm (.refl _) (Ext2.refl L _ _) (StackExt.refl _)⟩
  -- the operands succeed
  obtain ⟨W1, s1, vs, hw1, r1, hk⟩ := args2_ok L ih es _ _ _ _ _ _ _ _ ρ hfr hcx hca hpre1 hpl σ ws σ1 hea W s hcA rfl
    hi her hw
  subst hk
  have hcP1 : CodeAt2 D c.envmap s1.heap σ1.store s1.ipL s1.ipO [BC.op .pushImm, BC.argc vs.length] :=
    (r1.codeAfter hcP).cast r1.ipO.symm
  have hp := step_pushImm hcP1.1 (hcP1.op 0 rfl) (hcP1.argcCell 1 rfl) (by intro o h; cases h)
  have hcF2 : CodeAt2 D c.envmap s1.heap σ1.store s1.ipL (s.ipO + code1.length + 2) pcode :=
    (r1.codeAfter hcF).cast (by simp only [List.length_append, List.length_cons, List.length_nil]; omega)
  have her1 : EnvRep ops W1 s1.heap c s1.ep ρ := by rw [r1.ep]; exact her.ext r1.ext hw1
  have hext1 : StackExt s.stack (s1.stack.push (.argc vs.length)) :=
    ((StackExt.pushAll _ vs hw).trans r1.stack.ext).trans (StackExt.push _ _ r1.swf)
  rcases hcase with h | ⟨fv, σ2, hef, hap⟩
  · -- the operator fails
    obtain ⟨W3, sf, e', hw3, r3⟩ := ihe _ _ _ _ _ _ _ _ hff hcx hcf hpre σ1 cl σ' h hcs W1
      { s1 with stack := s1.stack.push (.argc vs.length), ipO := s1.ipO + 2 } hcF2
      (by show s1.ipO + 2 = _; rw [r1.ipO]) r1.inv her1 (push_swf _ _)
    exact ⟨W3, sf, e', World.le_trans hw1 hw3,
      r3.after (r1.steps.trans (Steps.one hp)) r1.ext ((errBase_le hfrm).trans hext1)⟩
  -- the call fails
  obtain ⟨W3, s3, hw3, r3⟩ := ih _ _ _ _ _ _ _ _ hff hcx hcf hpre σ1 fv σ2 hef W1
    { s1 with stack := s1.stack.push (.argc vs.length), ipO := s1.ipO + 2 } hcF2
    (by show s1.ipO + 2 = _; rw [r1.ipO]) r1.inv her1 (push_swf _ _)
  have e13 : Ext2 D s.heap σ.store s3.heap σ2.store := r1.ext.trans r3.ext
  have hvals : All2 (VR2 D W3 s3.heap σ2.store) vs ws := All2.vr2_mono r1.vals r3.ext hw3
  have hst : LiveEq ((pushAll s.stack vs).push (.argc vs.length)) s3.stack :=
    (r1.stack.push (pushAll_swf _ _ hw) r1.swf (.argc vs.length)).trans r3.stack
  have hipL : s3.ipL = s.ipL := r3.ipL.trans r1.ipL
  have hipO : s3.ipO = s.ipO + code1.length + 2 + pcode.length := by
    have h3 : s3.ipO = s1.ipO + 2 + pcode.length := r3.ipO
    rw [h3, r1.ipO]
  have hcC3 : CodeAt2 D c.envmap s3.heap σ2.store s3.ipL s3.ipO
      [BC.op (if tail = true then .tcallAcc else .callAcc)] := by
    rw [hipL]
    exact (hcC.ext e13).cast (by
      rw [hipO]; simp only [List.length_append, List.length_cons, List.length_nil]; omega)
  have hbp : s3.bp = s.bp := r3.bp.trans r1.bp
  have hsteps : Steps ops s s3 := r1.steps.trans (.cons hp r3.steps)
  have hw13 : W.le W3 := World.le_trans hw1 hw3
  have hext3 : StackExt s.stack s3.stack := hext1.trans r3.stack.ext
  cases n with
  | zero => cases hap
  | succ m =>
    have failHere : ∀ e', step ops s3 = .err e' → machClass e' = specClass cl → Inv2 D W3 s3.heap σ' →
        Ext2 D s3.heap σ2.store s3.heap σ'.store →
        ∃ W' sf e', W.le W' ∧ ErrRun2 D W' s (errBase tail s fr) σ σ' cl sf e' :=
      fun e' hf hc' hinv hx => ⟨W3, s3, e', hw13, ⟨hsteps, hf, hc', (errBase_le hfrm).trans hext3, r3.swf, hinv,
        e13.trans hx⟩⟩
    have notProc : (∀ p, fv ≠ .prim p) → (∀ a b c d, fv ≠ .closure a b c d) →
        ∃ W' sf e', W.le W' ∧ ErrRun2 D W' s (errBase tail s fr) σ σ' cl sf e' := by
      intro hp' hcl'
      have hthrow : applyStep (evalN m) fv ws σ2 = .err .notProcedure σ2 := by
        cases fv <;> first | rfl | exact absurd rfl (hp' _) | exact absurd rfl (hcl' _ _ _ _)
      have hap' : applyStep (evalN m) fv ws σ2 = .err cl σ' := hap
      rw [hthrow] at hap'
      injection hap' with h1 h2
      subst h1 h2
      have hvr : D.VR s3.heap σ2.store s3.acc fv := by
        have := r3.acc
        cases fv <;> first | exact this | exact absurd rfl (hcl' _ _ _ _)
      have hoth := LE.callee_other _ _ _ _ hvr hp'
      exact failHere _ (step_call_other hcC3.1 (hcC3.op 0 rfl) hoth) rfl r3.inv (Ext2.refl L _ _)
    cases fv with
    | closure ps rest body ρc =>
      obtain ⟨hrest, lam, cenv, hcal, hok⟩ := r3.acc
      subst hrest
      cases tail with
      | false =>
        have hcall := step_call_closure hcC3.1 (hcC3.op 0 rfl) hcal
        have hst4 : LiveEq (callFrame s.stack vs s3.ep s3.ipL (s3.ipO + 1))
            ((s3.stack.push (.envPtr s3.ep)).push (.instrPtr s3.ipL (s3.ipO + 1))) := by
          unfold callFrame
          exact ((hst.push (push_swf _ _) r3.swf _).push (push_swf _ _) (push_swf _ _) _)
        obtain ⟨W5, sf, e', hw5, r5⟩ :=
          ihce ps body ρc ws σ2 cl σ' hap hcs W3
            { s3 with stack := (s3.stack.push (.envPtr s3.ep)).push (.instrPtr s3.ipL (s3.ipO + 1)),
                      ipL := lam, ipO := 0 }
            lam cenv vs s.stack s3.ep s3.ipL (s3.ipO + 1) hcal hok r3.inv hvals rfl rfl hst4 hw (push_swf _ _)
        exact ⟨W5, sf, e', World.le_trans hw13 hw5, r5.after (hsteps.trans (Steps.one hcall)) e13 (StackExt.refl _)⟩
      | true =>
        have hfr0 := hfrm rfl
        obtain ⟨st4, htc, hst4, hw4⟩ := step_tcall_closure (fr := fr) hcC3.1 (hcC3.op 0 rfl) hcal
          (by rw [hbp]; exact hfr0) hw hst r3.swf
        obtain ⟨W5, sf, e', hw5, r5⟩ :=
          ihce ps body ρc ws σ2 cl σ' hap hcs W3 { s3 with stack := st4, bp := fr.bpc, ipL := lam, ipO := 0 }
            lam cenv vs fr.st0 fr.epc fr.lc fr.oc hcal hok r3.inv hvals rfl rfl hst4 hfr0.swf0 hw4
        exact ⟨W5, sf, e', World.le_trans hw13 hw5, r5.after (hsteps.trans (Steps.one htc)) e13 (StackExt.refl _)⟩
    | prim p =>
      have hvf : D.VR s3.heap σ2.store s3.acc (.prim p) := r3.acc
      obtain ⟨id, e', hcal, hkind, hres, hcl', hinv, hx⟩ :=
        LE.call_err (m + 1) W3 s3.heap σ2 s3.acc p vs ws cl σ' r3.inv hvf hvals hap hcs
      exact failHere e' (step_call_builtin_err hcC3.1 (hcC3.op 0 rfl) hcal hkind hst hw r3.swf hres) hcl' hinv hx
    | bool b => exact notProc (by intro p e; cases e) (by intro a b c d e; cases e)
    | char ch => exact notProc (by intro p e; cases e) (by intro a b c d e; cases e)
    | nil => exact notProc (by intro p e; cases e) (by intro a b c d e; cases e)
    | int i => exact notProc (by intro p e; cases e) (by intro a b c d e; cases e)
    | str t => exact notProc (by intro p e; cases e) (by intro a b c d e; cases e)
    | sym t => exact notProc (by intro p e; cases e) (by intro a b c d e; cases e)
    | void => exact notProc (by intro p e; cases e) (by intro a b c d e; cases e)
    | pair a => exact notProc (by intro p e; cases e) (by intro a b c d e; cases e)
    | vec a => exact notProc (by intro p e; cases e) (by intro a b c d e; cases e)
    | promise a => exact notProc (by intro p e; cases e) (by intro a b c d e; cases e)
    | undef => exact notProc (by intro p e; cases e) (by intro a b c d e; cases e)

/-- a failing closure call: wrong number of arguments (`ENTER` fails), or the body fails -/
theorem callErr2_succ (L : Laws2 D) {n : Nat} (ih : ExprOK2 D n) (ihe : ExprErr2NT D n) (ihet : ExprErr2 D n) :
    CallErr2 D (n + 1) := by
  intro ps body ρc ws σ cl σ' hap hcs W s lam cenv vs st0 epc lc oc hcal hclos hi hvs hipL hipO hst hw0 hw
  change applyStep (evalN n) (.closure ps none body ρc) ws σ = _ at hap
  have hst0 : StackExt st0 s.stack := by
    obtain ⟨k0, _⟩ := callFrame_cells st0 vs epc lc oc hw0
    refine ⟨by rw [← hst.1, callFrame_sp]; omega, fun i hi' => ?_⟩
    rw [← hst.2 i (by rw [callFrame_sp]; omega), k0 i hi']
  rcases applyStep_closure_err_inv hap with hb | ⟨ρ', σ1, hbind, hbody⟩
  · -- wrong number of arguments
    obtain ⟨rfl, hne, hg, hsz, hpre⟩ := bindArgs_err_inv _ _ _ _ _ _ hb
    obtain ⟨f, cst, cst1, co, formals, bodyD, p, bcode, caps, a1, a2, a3, a4, a5, a6, a7, a8, a9, a10, a11, a12, a13,
      a14, a15, a16, a17, _⟩ := hclos
    obtain ⟨hpb, hpa, hpro⟩ := lambdaParts_inv a1
    have hpro1 : p.prologue = [.op .enter] := by rw [hpro, a3]; rfl
    obtain ⟨hcode, hinfo⟩ := hi.loaded _ _ a8
    have hbc : (lamOf p bcode).bc = [.op .enter] ++ bcode ++ [.op .ret] := by simp [lamOf, hpro1]
    have hargsl : (lamOf p bcode).args.length = ps.length := by simp [lamOf, a2]
    rw [hbc, ← a10] at hcode
    rw [hargsl, ← a10] at hinfo
    have hfetch0 : ops.fetch s.heap s.ipL s.ipO = some (.opcode .enter) := by
      have := hcode.left.left.op 0 (o := .enter) rfl
      rw [hipL, hipO]; simpa using this
    obtain ⟨_, _, k2, _, _⟩ := callFrame_cells st0 vs epc lc oc hw0
    have hsp : s.stack.sp = st0.sp + vs.length + 3 := by rw [← hst.1, callFrame_sp]
    have hargc : s.stack.cells[s.stack.sp - 2]? = some (.argc vs.length) := by
      rw [show s.stack.sp - 2 = st0.sp + vs.length + 1 by omega, ← hst.2 _ (by rw [callFrame_sp]; omega), k2]
    have hvl : vs.length ≠ ps.length := by rw [All2.length_eq hvs]; exact hne
    have hs := step_enter_arity (s := s) (by rw [hipL]; exact a11) hfetch0 hcal hinfo (by omega) hargc hvl
    have hse : StoreExt σ.store σ'.store := StoreExt.ofPrefix hsz hpre
    have hx : Ext2 D s.heap σ.store s.heap σ'.store := Ext2.storeOnly L _ hse
    have hinv : Inv2 D W s.heap σ' :=
      hi.frame hx (L.srx_store _ _ _ hse hi.extra) hg (fun _ => rfl) (fun e n l hW => ⟨rfl, by
        obtain ⟨_, u, _, _, h3, _⟩ := hi.vars e n l hW
        have hlt : l < σ.store.size := by
          rcases Nat.lt_or_ge l σ.store.size with h1 | h1
          · exact h1
          · simp [Array.getElem?_eq_none h1] at h3
        exact hpre l hlt⟩)
    exact ⟨W, s, _, World.le_refl _, ⟨.refl _, hs, rfl, hst0, hw, hinv, hx⟩⟩
  · -- the body fails
    obtain ⟨f, cst, cst1, p, bodyD, bcode, h', a, W', stE, hsE, hwW, hi1, her1, hcx, a12, a7, a9, a5, a6, hcodeE, hwE,
      hfrE, hx1⟩ := enter_closure L hbind hcal hclos hi hvs hipL hipO hst hw0 hw
    obtain ⟨b0, bs0, hb0⟩ : ∃ b0 bs0, body = b0 :: bs0 := by
      cases body with
      | nil =>
        exfalso
        cases a12 with
        | last x _ => simp [properList] at a5
        | cons x y rest _ _ =>
          obtain ⟨es', _, h⟩ := properList_pair_inv a5
          cases h
      | cons b0 bs0 => exact ⟨b0, bs0, rfl⟩
    subst hb0
    rw [evalBody_noDefs (a6 b0 List.mem_cons_self)] at hbody
    let sE : MSt H := { s with heap := h', ep := a, stack := stE, bp := st0.sp + vs.length, ipO := s.ipO + 1 }
    have hcodeB : CodeAt2 D p.ctx.envmap sE.heap σ1.store sE.ipL 1 bcode := by
      have := hcodeE.left.right.cast (show 0 + [BC.op .enter].length = 1 by rfl)
      show CodeAt2 D p.ctx.envmap h' σ1.store s.ipL 1 bcode
      rw [hipL]; exact this
    obtain ⟨W2, sf, e', hw2, r2⟩ := bodyErr2 L ih ihe ihet _ _ _ _ _ _ _ _ ρ' true a12 hcx a7 a9 a5 a6 σ1 cl σ' hbody hcs
      W' sE ⟨vs.length, epc, lc, oc, s.bp, st0⟩ hcodeB (by show s.ipO + 1 = 1; omega) hi1 her1 hwE hfrE
    exact ⟨W2, sf, e', World.le_trans hwW hw2, r2.after (Steps.one hsE) hx1 (StackExt.refl _)⟩

theorem exprErr2_succ (L : Laws2 D) (LE : ErrLaws2 D) {n : Nat} (iht : ExprOKT D n) (ihet : ExprErr2 D n)
    (ihce : CallErr2 D n) : ExprErr2 D (n + 1) := by
  have ih : ExprOK2 D n := iht.nontail
  have ihe : ExprErr2NT D n := ihet.nontail
  intro f cst c base tail e cst' code ρ hf hcx hcomp hpre σ cl σ' hev hcs W s fr hc hip hi her hw hfrm
  change evalStep (evalN n) e ρ σ = .err cl σ' at hev
  cases hf with
  | bool b => exact absurd (quoteVal_atom_err (d := .bool b) (.inl rfl) hev) hcs
  | char ch => exact absurd (quoteVal_atom_err (d := .char ch) (.inl rfl) hev) hcs
  | num m => exact absurd (quoteVal_atom_err (d := .num m) (.inr ⟨m, rfl⟩) hev) hcs
  | str t => exact absurd (quoteVal_atom_err (d := .str t) (.inl rfl) hev) hcs
  | quote d rest =>
    rw [evalStep_quote] at hev
    exact absurd ((quoteVal_err_syntax d).1 _ _ _ hev) hcs
  | vecc e0 => exact absurd ((quoteVal_err_syntax (.vec e0)).1 _ _ _ hev) hcs
  | sym x hsc => exact err2_sym L hsc hcx hcomp hev hcs hc hip hi her hw hfrm
  | setBang x e hsc hG hfe => exact err2_setBang L ih ihe hsc hG hfe hcx hcomp hpre hev hcs hc hip hi her hw hfrm
  | if2 t cn hft hfc => exact err2_if2 L ih ihe ihet hft hfc hcx hcomp hpre hev hcs hc hip hi her hw hfrm
  | if3 t cn a hft hfc hfa => exact err2_if3 L ih ihe ihet hft hfc hfa hcx hcomp hpre hev hcs hc hip hi her hw hfrm
  | app fn args hh hff hfr => exact err2_app L LE ih ihe ihce hh hff hfr hcx hcomp hpre hev hcs hc hip hi her hw hfrm
  | lambda formals body p ps b bs caps h1 h2 h3 h4 h5 h6 h7 h8 h9 h10 =>
    exact absurd hev (evalStep_lambda_ne_err h2 h6)

theorem bothErr2_ok (L : Laws2 D) (LE : ErrLaws2 D) : ∀ n, ExprErr2 D n ∧ CallErr2 D n
  | 0 => ⟨(by intro f cst c base tail e cst' code ρ _ _ _ _ σ cl σ' hev; cases hev),
          (by intro ps body ρc ws σ cl σ' hap; cases hap)⟩
  | n + 1 =>
    have ih := bothErr2_ok L LE n
    have ok := both2_ok L n
    ⟨exprErr2_succ L LE ok.1 ih.1 ih.2, callErr2_succ L ok.1.nontail ih.1.nontail ih.1⟩

/-- **Compiler correctness, stage 2, ERROR case.** -/
theorem compileExpr_correct2_err (L : Laws2 D) (LE : ErrLaws2 D) (f : Nat) (cst : CState) (c : Ctx) (base : Nat)
    (tail : Bool) (e : Datum) (cst' : CState) (code : List BC) (ρ : Env) (hf : F2 D.setG f c (bound ρ) tail e)
    (hcx : CtxOK c) (hcomp : compileExpr f cst c base tail e = .ok (cst', code)) (hpre : cst'.lambdas <+: D.final)
    (n : Nat) (σ : SSt) (cl : ErrClass) (σ' : SSt) (hev : (evalN n).eval e ρ σ = .err cl σ') (hcs : cl ≠ .syntax)
    (W : World) (s : MSt H) (fr : Frame) (hc : CodeAt2 D c.envmap s.heap σ.store s.ipL base code)
    (hip : s.ipO = base) (hi : Inv2 D W s.heap σ) (her : EnvRep ops W s.heap c s.ep ρ) (hw : SWF s.stack)
    (hfr : tail = true → FrameAt s.stack s.bp fr) :
    ∃ W' sf e', W.le W' ∧ ErrRun2 D W' s (errBase tail s fr) σ σ' cl sf e' :=
  (bothErr2_ok L LE n).1 f cst c base tail e cst' code ρ hf hcx hcomp hpre σ cl σ' hev hcs W s fr hc hip hi her hw hfr

/-- … the failing call of a closure value -/
theorem closureCall_correct2_err (L : Laws2 D) (LE : ErrLaws2 D) (n : Nat) : CallErr2 D n := (bothErr2_ok L LE n).2

end Marwood.Lemmas.CompileCorrect2
