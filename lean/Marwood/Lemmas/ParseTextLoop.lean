import Marwood.Lemmas.ParseTextShift
import Marwood.Lemmas.ParseTextNoPanic
/-!
# `parse_text` and the read loop (used by C11, T11.4)

* `parseText_round`: one call of `parse_text` in terms of the tokens: the remaining text is the
  suffix at the first remaining token and re-scans to the remaining tokens, shifted.
* `readToksF`: the read loop on the *one* token list of the whole text (a specification-level
  function: parse, continue with what is left). `readAll_eq_readToks`: the loop the callers of
  `eval_text` run over the remaining *texts* (`readAllF`, model) computes exactly that.
* `readToksF_total`: the loop ends within `max 1 |tokens|` rounds.
* `parseText_noPanic`: `parse_text` has no panic outcome.
-/
namespace Marwood
namespace ParseText

/-! ## one call of `parse_text` -/

theorem parseTokens_rest_lt (fo : FloatOps) {text : Text} {ts rest : List Token} {d : Datum}
    (h : parseTokens fo text ts = .ok (d, rest)) : rest.length < ts.length := by
  have hf := parseTokens_fuel fo text ts
  rw [h] at hf
  exact parseF_rest_lt fo text hf

theorem parseTokens_rest_suffix (fo : FloatOps) {text : Text} {ts rest : List Token} {d : Datum}
    (h : parseTokens fo text ts = .ok (d, rest)) : ∃ pre, pre ≠ [] ∧ ts = pre ++ rest := by
  have hf := parseTokens_fuel fo text ts
  rw [h] at hf
  obtain ⟨pre, hne, hts, _, _⟩ := (consumes_all fo text _).1 _ _ _ hf
  exact ⟨pre, hne, hts⟩

theorem parseTokens_nil (fo : FloatOps) (text : Text) :
    parseTokens fo text [] = .err .incomplete :=
  parseTokens_of_fuel fo text (f := 1) rfl

theorem parseText_lexErr (fo : FloatOps) {text : Text} {e : LexErr} (h : scan text = .error e) :
    parseText fo text = .err (.lex e) := by
  simp [parseText, h]

theorem parseText_err (fo : FloatOps) {text : Text} {ts : List Token} {e : ParseErr}
    (hs : scan text = .ok ts) (hp : parseTokens fo text ts = .err e) :
    parseText fo text = .err e := by
  simp [parseText, hs, hp]

theorem parseText_panic (fo : FloatOps) {text : Text} {ts : List Token} {m : String}
    (hs : scan text = .ok ts) (hp : parseTokens fo text ts = .panic m) :
    parseText fo text = .panic m := by
  simp [parseText, hs, hp]

theorem parseText_last (fo : FloatOps) {text : Text} {ts : List Token} {d : Datum}
    (hs : scan text = .ok ts) (hp : parseTokens fo text ts = .ok (d, [])) :
    parseText fo text = .ok (d, none) := by
  simp [parseText, hs, hp]

/-- a datum was read and tokens remain: the remaining text is the suffix of the text at the first
    remaining token; scanning it yields the remaining tokens, shifted by the length of what was
    cut off -/
theorem parseText_more (fo : FloatOps) {text : Text} {ts : List Token} {d : Datum} {t : Token}
    {rest : List Token} (hs : scan text = .ok ts)
    (hp : parseTokens fo text ts = .ok (d, t :: rest)) :
    ∃ (p sfx : Text) (ts0 : List Token), text = p ++ sfx ∧ t.lo = byteLen p ∧
      dropBytes t.lo text = some sfx ∧ parseText fo text = .ok (d, some sfx) ∧
      scan sfx = .ok ts0 ∧ t :: rest = ts0.map (Token.shift (byteLen p)) := by
  obtain ⟨pre, _, hts⟩ := parseTokens_rest_suffix fo hp
  obtain ⟨p, sfx, ts0, he, hlo, hsc, hmap⟩ := scan_suffix hs hts
  have hdrop : dropBytes t.lo text = some sfx := by rw [he, hlo]; exact dropBytes_append _ _
  refine ⟨p, sfx, ts0, he, hlo, hdrop, ?_, hsc, by rw [← hlo]; exact hmap⟩
  simp [parseText, hs, hp, hdrop]

/-! ## the read loop on the token list of the whole text -/

/-- the read loop, specification level: parse one datum from the tokens, continue with the tokens
    that are left (same text throughout); `fuel` bounds the rounds -/
def readToksF (fo : FloatOps) (text : Text) :
    Nat → List Token → Option (List Datum × Option (PRes Unit))
  | 0, _ => none
  | f+1, ts =>
    match parseTokens fo text ts with
    | .err e => some ([], some (.err e))
    | .panic m => some ([], some (.panic m))
    | .ok (d, []) => some ([d], none)
    | .ok (d, t :: rest) =>
      match readToksF fo text f (t :: rest) with
      | none => none
      | some (ds, fin) => some (d :: ds, fin)

theorem readToksF_relabel (fo : FloatOps) {text' text : Text} {sh : Token → Token}
    (R : Relabel text' text sh) : ∀ (f : Nat) (ts : List Token),
    readToksF fo text' f (ts.map sh) = readToksF fo text f ts := by
  intro f
  induction f with
  | zero => intro ts; rfl
  | succ f ih =>
    intro ts
    rw [readToksF, readToksF, parseTokens_relabel fo R]
    cases parseTokens fo text ts with
    | err e => rfl
    | panic m => rfl
    | ok v =>
      obtain ⟨d, rest⟩ := v
      cases rest with
      | nil => rfl
      | cons t rest =>
        simp only [mapP, List.map_cons]
        have := ih (t :: rest)
        rw [List.map_cons] at this
        rw [this]

/-- the loop over the remaining texts is the loop over the remaining tokens -/
theorem readAll_eq_readToks (fo : FloatOps) : ∀ (f : Nat) (text : Text) (ts : List Token),
    scan text = .ok ts → readAllF fo f text = readToksF fo text f ts := by
  intro f
  induction f with
  | zero => intro text ts _; rfl
  | succ f ih =>
    intro text ts hs
    rw [readAllF, readToksF]
    cases hp : parseTokens fo text ts with
    | err e => rw [parseText_err fo hs hp]
    | panic m => rw [parseText_panic fo hs hp]
    | ok v =>
      obtain ⟨d, rest⟩ := v
      cases rest with
      | nil => rw [parseText_last fo hs hp]
      | cons t rest =>
        obtain ⟨p, sfx, ts0, he, _, _, hpt, hsc, hmap⟩ := parseText_more fo hs hp
        rw [hpt]
        simp only
        rw [ih sfx ts0 hsc, hmap, he, readToksF_relabel fo (relabel_shift p sfx)]
        cases readToksF fo sfx f ts0 with
        | none => rfl
        | some x => obtain ⟨ds, fin⟩ := x; rfl

theorem readAllF_lexErr (fo : FloatOps) (f : Nat) {text : Text} {e : LexErr}
    (h : scan text = .error e) : readAllF fo (f + 1) text = some ([], some (.err (.lex e))) := by
  rw [readAllF, parseText_lexErr fo h]

/-! ## termination within `max 1 |tokens|` rounds -/

theorem readToksF_succ (fo : FloatOps) (text : Text) : ∀ (f : Nat) (ts : List Token)
    (r : List Datum × Option (PRes Unit)),
    readToksF fo text f ts = some r → readToksF fo text (f + 1) ts = some r := by
  intro f
  induction f with
  | zero => intro ts r h; simp [readToksF] at h
  | succ f ih =>
    intro ts r h
    rw [readToksF] at h ⊢
    cases hp : parseTokens fo text ts with
    | err e => rw [hp] at h; exact h
    | panic m => rw [hp] at h; exact h
    | ok v =>
      obtain ⟨d, rest⟩ := v
      rw [hp] at h
      cases rest with
      | nil => exact h
      | cons t rest =>
        simp only at h ⊢
        cases hr : readToksF fo text f (t :: rest) with
        | none => simp [hr] at h
        | some x => rw [ih _ _ hr]; rw [hr] at h; exact h

theorem readToksF_mono (fo : FloatOps) (text : Text) {f f' : Nat} {ts : List Token}
    {r : List Datum × Option (PRes Unit)} (hle : f ≤ f') (h : readToksF fo text f ts = some r) :
    readToksF fo text f' ts = some r := by
  induction hle with
  | refl => exact h
  | step _ ih => exact readToksF_succ fo text _ _ _ ih

/-- every round with a successor strictly decreases the number of remaining tokens, so the loop
    ends within `max 1 |ts|` rounds, having read at most `|ts|` data -/
theorem readToksF_total (fo : FloatOps) (text : Text) : ∀ (f : Nat) (ts : List Token),
    0 < f → ts.length ≤ f →
    ∃ ds fin, readToksF fo text f ts = some (ds, fin) ∧ ds.length ≤ ts.length := by
  intro f
  induction f with
  | zero => intro ts h; omega
  | succ f ih =>
    intro ts _ hlen
    rw [readToksF]
    cases hp : parseTokens fo text ts with
    | err e => exact ⟨[], _, rfl, by simp⟩
    | panic m => exact ⟨[], _, rfl, by simp⟩
    | ok v =>
      obtain ⟨d, rest⟩ := v
      have hlt := parseTokens_rest_lt fo hp
      cases rest with
      | nil => exact ⟨[d], none, rfl, by simp at hlt ⊢; omega⟩
      | cons t rest =>
        simp only [List.length_cons] at hlt
        obtain ⟨ds, fin, hr, hds⟩ := ih (t :: rest) (by omega) (by simp only [List.length_cons]; omega)
        simp only [List.length_cons] at hds
        exact ⟨d :: ds, fin, by simp [hr], by simp only [List.length_cons]; omega⟩

/-! ## each token belongs to exactly one datum -/

/-- `ReadsAs fo text ts ds fin`: `ts` splits into consecutive non-empty groups, one per datum of
    `ds`, in order, each group parsing on its own to its datum with nothing left; what follows the
    groups is nothing (`fin = none`) or a token list on which `parse` fails with the outcome `fin` -/
inductive ReadsAs (fo : FloatOps) (text : Text) :
    List Token → List Datum → Option (PRes Unit) → Prop
  | last {g : List Token} {d : Datum} : g ≠ [] → parseTokens fo text g = .ok (d, []) →
      ReadsAs fo text g [d] none
  | stopErr {tail : List Token} {e : ParseErr} : parseTokens fo text tail = .err e →
      ReadsAs fo text tail [] (some (.err e))
  | stopPanic {tail : List Token} {m : String} : parseTokens fo text tail = .panic m →
      ReadsAs fo text tail [] (some (.panic m))
  | more {g rest : List Token} {d : Datum} {ds : List Datum} {fin : Option (PRes Unit)} :
      g ≠ [] → rest ≠ [] → parseTokens fo text g = .ok (d, []) → ReadsAs fo text rest ds fin →
      ReadsAs fo text (g ++ rest) (d :: ds) fin

theorem parseTokens_group (fo : FloatOps) {text : Text} {ts rest : List Token} {d : Datum}
    (h : parseTokens fo text ts = .ok (d, rest)) :
    ∃ g, g ≠ [] ∧ ts = g ++ rest ∧ parseTokens fo text g = .ok (d, []) := by
  have hf := parseTokens_fuel fo text ts
  rw [h] at hf
  obtain ⟨pre, hne, hts, hall, _⟩ := (consumes_all fo text _).1 _ _ _ hf
  have := parseTokens_of_fuel fo text (hall [])
  rw [List.append_nil] at this
  exact ⟨pre, hne, hts, this⟩

theorem readToksF_readsAs (fo : FloatOps) (text : Text) : ∀ (f : Nat) (ts : List Token)
    (ds : List Datum) (fin : Option (PRes Unit)),
    readToksF fo text f ts = some (ds, fin) → ReadsAs fo text ts ds fin := by
  intro f
  induction f with
  | zero => intro ts ds fin h; simp [readToksF] at h
  | succ f ih =>
    intro ts ds fin h
    rw [readToksF] at h
    cases hp : parseTokens fo text ts with
    | err e =>
      rw [hp] at h
      simp only [Option.some.injEq, Prod.mk.injEq] at h
      rw [← h.1, ← h.2]; exact .stopErr hp
    | panic m =>
      rw [hp] at h
      simp only [Option.some.injEq, Prod.mk.injEq] at h
      rw [← h.1, ← h.2]; exact .stopPanic hp
    | ok v =>
      obtain ⟨d, rest⟩ := v
      rw [hp] at h
      obtain ⟨g, hne, hts, hg⟩ := parseTokens_group fo hp
      cases rest with
      | nil =>
        simp only [Option.some.injEq, Prod.mk.injEq] at h
        rw [← h.1, ← h.2, hts, List.append_nil]
        exact .last hne hg
      | cons t rest =>
        simp only at h
        cases hr : readToksF fo text f (t :: rest) with
        | none => simp [hr] at h
        | some x =>
          obtain ⟨ds', fin'⟩ := x
          rw [hr] at h
          simp only [Option.some.injEq, Prod.mk.injEq] at h
          rw [← h.1, ← h.2, hts]
          exact .more hne (by simp) hg (ih _ _ _ hr)

/-! ## `parse_text` has no panic outcome -/

theorem dropBytes_of_slice {lo hi : Nat} {text body : Text}
    (h : sliceBytes lo hi text = some body) : ∃ r, dropBytes lo text = some r := by
  unfold sliceBytes at h
  split at h
  · cases hd : dropBytes lo text with
    | none => simp [hd] at h
    | some r => exact ⟨r, rfl⟩
  · cases h

theorem parseText_noPanic (fo : FloatOps) (text : Text) (m : String) :
    parseText fo text ≠ .panic m := by
  cases hs : scan text with
  | error e => rw [parseText_lexErr fo hs]; simp
  | ok ts =>
    have hall := scan_bodies hs
    cases hp : parseTokens fo text ts with
    | panic m' => exact absurd hp (parseTokens_noPanic fo hall m')
    | err e => rw [parseText_err fo hs hp]; simp
    | ok v =>
      obtain ⟨d, rest⟩ := v
      cases rest with
      | nil => rw [parseText_last fo hs hp]; simp
      | cons t rest =>
        obtain ⟨_, sfx, _, _, _, _, hpt, _, _⟩ := parseText_more fo hs hp
        rw [hpt]; simp

theorem readAllF_noPanic (fo : FloatOps) : ∀ (f : Nat) (text : Text) (ds : List Datum)
    (fin : Option (PRes Unit)), readAllF fo f text = some (ds, fin) →
    ∀ m, fin ≠ some (.panic m) := by
  intro f
  induction f with
  | zero => intro text ds fin h; simp [readAllF] at h
  | succ f ih =>
    intro text ds fin h m
    rw [readAllF] at h
    cases hp : parseText fo text with
    | panic m' => exact absurd hp (parseText_noPanic fo text m')
    | err e =>
      rw [hp] at h
      simp only [Option.some.injEq, Prod.mk.injEq] at h
      rw [← h.2]; simp
    | ok v =>
      obtain ⟨d, r⟩ := v
      rw [hp] at h
      cases r with
      | none =>
        simp only [Option.some.injEq, Prod.mk.injEq] at h
        rw [← h.2]; simp
      | some rest =>
        simp only at h
        cases hr : readAllF fo f rest with
        | none => simp [hr] at h
        | some x =>
          obtain ⟨ds', fin'⟩ := x
          rw [hr] at h
          simp only [Option.some.injEq, Prod.mk.injEq] at h
          rw [← h.2]
          exact ih rest ds' fin' hr m

end ParseText
end Marwood
