import Marwood.Lemmas.EvalMonoMain
/-!
# The store-size-fuelled helpers of `Spec.Eval`: detecting the fuel bound, stability, a guarded evaluator

Four helpers of `Spec.Eval` take their fuel from the size of the store (`st.size + 1`): `listOfVal`
(through `getList`, and in `list?`), `valToDatum` (through `externalise`: `display`, `write`, `eval`),
`equalVal` (`equal?`), `memWalk` (`memv memq assv assq`); `zipArgs` in `map` / `for-each`. None of them
signals that it ran out of fuel. Here:

* `valCut`, `listCut`, `eqCut`, `spineCut`: the helper reaches fuel 0 where it would have gone on;
* `*_stable`: if the bound is not hit with fuel `m`, every larger fuel gives the same result;
* `guardN`: the evaluator that times out where a store-size-fuelled primitive would hit its bound;
* `guardN_le_evalN`: `evalN n` refines `guardN n`.
-/
namespace Marwood.Spec.Eval
open Marwood

/-! ## `valToDatum` -/

/-- `valToDatum` reaches fuel 0 on a pair / vector / promise -/
def valCut : Nat → Array Cell → Val → Bool
  | 0, _, .pair _ | 0, _, .vec _ | 0, _, .promise _ => true
  | fuel+1, st, .pair l =>
    match st[l]? with
    | some (.pair a d) => valCut fuel st a || valCut fuel st d
    | _ => false
  | fuel+1, st, .vec l =>
    match st[l]? with
    | some (.vec xs) => xs.any (valCut fuel st)
    | _ => false
  | fuel+1, st, .promise l =>
    match st[l]? with
    | some (.promise _ v) => valCut fuel st v
    | _ => false
  | _, _, _ => false

theorem valToDatum_stable (st : Array Cell) : ∀ (m k : Nat) (v : Val),
    valCut m st v = false → valToDatum (m + k) st v = valToDatum m st v := by
  intro m
  induction m with
  | zero =>
    intro k v h
    cases v <;> first | (simp [valCut] at h; done) | (cases k <;> simp [valToDatum])
  | succ m ih =>
    intro k v h
    have e : m + 1 + k = (m + k) + 1 := by omega
    rw [e]
    cases v with
    | pair l =>
      simp only [valCut] at h
      simp only [valToDatum]
      cases hc : st[l]? with
      | none => rfl
      | some c =>
        cases c with
        | pair a d =>
          simp only [hc, Bool.or_eq_false_iff] at h
          simp only [ih k a h.1, ih k d h.2]
        | _ => rfl
    | vec l =>
      simp only [valCut] at h
      simp only [valToDatum]
      cases hc : st[l]? with
      | none => rfl
      | some c =>
        cases c with
        | vec xs =>
          simp only [hc, List.any_eq_false] at h
          have : xs.map (valToDatum (m + k) st) = xs.map (valToDatum m st) :=
            List.map_congr_left (fun x hx => ih k x (by simpa using h x hx))
          simp only [this]
        | _ => rfl
    | promise l =>
      simp only [valCut] at h
      simp only [valToDatum]
      cases hc : st[l]? with
      | none => rfl
      | some c =>
        cases c with
        | promise dn v =>
          simp only [hc] at h
          simp only [ih k v h]
        | _ => rfl
    | _ => simp [valToDatum]

/-! ## `listOfVal` -/

/-- `listOfVal` reaches fuel 0 on a pair -/
def listCut : Nat → Array Cell → Val → Bool
  | 0, _, .pair _ => true
  | fuel+1, st, .pair l =>
    match st[l]? with
    | some (.pair _ d) => listCut fuel st d
    | _ => false
  | _, _, _ => false

theorem listOfVal_stable (st : Array Cell) : ∀ (m k : Nat) (v : Val),
    listCut m st v = false → listOfVal (m + k) st v = listOfVal m st v := by
  intro m
  induction m with
  | zero =>
    intro k v h
    cases v <;> first | (simp [listCut] at h; done) | (cases k <;> simp [listOfVal])
  | succ m ih =>
    intro k v h
    have e : m + 1 + k = (m + k) + 1 := by omega
    rw [e]
    cases v with
    | pair l =>
      simp only [listCut] at h
      simp only [listOfVal]
      cases hc : st[l]? with
      | none => rfl
      | some c =>
        cases c with
        | pair a d =>
          simp only [hc] at h
          simp only [ih k d h]
        | _ => rfl
    | _ => simp [listOfVal]

theorem listOfVal_length_le (st : Array Cell) : ∀ (m : Nat) (v : Val) (xs : List Val),
    listOfVal m st v = some xs → xs.length ≤ m := by
  intro m
  induction m with
  | zero =>
    intro v xs h
    cases v <;> simp [listOfVal] at h
    subst h; simp
  | succ m ih =>
    intro v xs h
    cases v with
    | nil => simp [listOfVal] at h; subst h; simp
    | pair l =>
      simp only [listOfVal] at h
      cases hc : st[l]? with
      | none => simp [hc] at h
      | some c =>
        cases c with
        | pair a d =>
          simp only [hc] at h
          cases hd : listOfVal m st d with
          | none => simp [hd] at h
          | some ys =>
            simp [hd] at h
            subst h
            have := ih d ys hd
            simp; omega
        | _ => simp [hc] at h
    | _ => simp [listOfVal] at h

/-! ## `equalVal` -/

/-- `equalVal` reaches fuel 0 on two pairs, two vectors or two strings (NB
    `equalVal 0 _ (.str a) (.str b) = eqv … = false` but `equalVal (n+1) _ (.str a) (.str b) = (a == b)`) -/
def eqCut : Nat → Array Cell → Val → Val → Bool
  | 0, _, .pair _, .pair _ | 0, _, .vec _, .vec _ | 0, _, .str _, .str _ => true
  | fuel+1, st, .pair a, .pair b =>
    match st[a]?, st[b]? with
    | some (.pair a1 d1), some (.pair a2 d2) => eqCut fuel st a1 a2 || eqCut fuel st d1 d2
    | _, _ => false
  | fuel+1, st, .vec a, .vec b =>
    match st[a]?, st[b]? with
    | some (.vec xs), some (.vec ys) => (xs.zip ys).any fun p => eqCut fuel st p.1 p.2
    | _, _ => false
  | _, _, _, _ => false

/-- off the (pair,pair), (vec,vec) diagonal `equalVal` does not look at its fuel, provided it has some -/
theorem equalVal_succ_flat (st : Array Cell) (n n' : Nat) (a b : Val)
    (hp : ∀ x y, a = .pair x → b = .pair y → False) (hv : ∀ x y, a = .vec x → b = .vec y → False) :
    equalVal (n + 1) st a b = equalVal (n' + 1) st a b := by
  cases a <;> cases b <;> first
    | (exact absurd rfl (fun h => hp _ _ rfl rfl))
    | (exact (hp _ _ rfl rfl).elim)
    | (exact (hv _ _ rfl rfl).elim)
    | simp [equalVal]

theorem equalVal_stable (st : Array Cell) : ∀ (m k : Nat) (a b : Val),
    eqCut m st a b = false → equalVal (m + k) st a b = equalVal m st a b := by
  intro m
  induction m with
  | zero =>
    intro k a b h
    cases k with
    | zero => rfl
    | succ k =>
      cases a <;> cases b <;> first | (simp [eqCut] at h; done) | simp [equalVal, eqv]
  | succ m ih =>
    intro k a b h
    have e : m + 1 + k = (m + k) + 1 := by omega
    rw [e]
    cases a with
    | pair x =>
      cases b with
      | pair y =>
        simp only [eqCut] at h
        simp only [equalVal]
        cases hx : st[x]? with
        | none => rfl
        | some cx =>
          cases hy : st[y]? with
          | none => cases cx <;> rfl
          | some cy =>
            cases cx <;> cases cy <;> try rfl
            rename_i a1 d1 a2 d2
            simp only [hx, hy, Bool.or_eq_false_iff] at h
            simp only [ih k a1 a2 h.1, ih k d1 d2 h.2]
      | _ => exact equalVal_succ_flat st _ _ _ _ (by intro _ _ _ h; cases h) (by intro _ _ h; cases h)
    | vec x =>
      cases b with
      | vec y =>
        simp only [eqCut] at h
        simp only [equalVal]
        cases hx : st[x]? with
        | none => rfl
        | some cx =>
          cases hy : st[y]? with
          | none => cases cx <;> rfl
          | some cy =>
            cases cx <;> cases cy <;> try rfl
            rename_i xs ys
            simp only [hx, hy, List.any_eq_false] at h
            have : ((xs.zip ys).all fun (p : Val × Val) => equalVal (m + k) st p.1 p.2)
                = ((xs.zip ys).all fun (p : Val × Val) => equalVal m st p.1 p.2) := by
              have hp : ∀ p ∈ xs.zip ys, equalVal (m + k) st p.1 p.2 = equalVal m st p.1 p.2 :=
                fun p hp => ih k p.1 p.2 (by simpa using h p hp)
              rw [Bool.eq_iff_iff]
              simp only [List.all_eq_true]
              constructor <;> intro H p hm
              · rw [← hp p hm]; exact H p hm
              · rw [hp p hm]; exact H p hm
            simp only at this ⊢
            rw [this]
      | _ => exact equalVal_succ_flat st _ _ _ _ (by intro _ _ h; cases h) (by intro _ _ _ h; cases h)
    | _ => exact equalVal_succ_flat st _ _ _ _ (by intro _ _ h; cases h) (by intro _ _ h; cases h)

/-! ## `memWalk` -/

/-- `memWalk` reaches fuel 0 (it throws `.type` there whatever the value, even `.nil`) -/
def spineCut : Nat → Array Cell → Val → Bool
  | 0, _, _ => true
  | fuel+1, st, .pair l =>
    match st[l]? with
    | some (.pair _ d) => spineCut fuel st d
    | _ => false
  | _+1, _, _ => false

theorem memWalk_stable (assoc : Bool) (x : Val) : ∀ (m k : Nat) (l : Val) (st : St),
    spineCut m st.store l = false → memWalk assoc x (m + k) l st = memWalk assoc x m l st := by
  intro m
  induction m with
  | zero => intro k l st h; simp [spineCut] at h
  | succ m ih =>
    intro k l st h
    have e : m + 1 + k = (m + k) + 1 := by omega
    rw [e]
    cases l with
    | pair loc =>
      simp only [spineCut] at h
      simp only [memWalk]
      show M.bind' _ _ st = M.bind' _ _ st
      unfold M.bind'
      cases hc : st.store[loc]? with
      | none => simp [readPair, readCell, hc, bind, M.bind']
      | some c =>
        cases c with
        | pair a d =>
          have hrp : readPair (.pair loc) st = .ok (a, d) st := by
            simp [readPair, readCell, hc, bind, M.bind', pure, M.pure']
          simp only [hc] at h
          simp only [hrp]
          cases assoc with
          | true =>
            simp only [if_true]
            cases a with
            | pair la =>
              simp only
              show M.bind' _ _ st = M.bind' _ _ st
              unfold M.bind'
              cases hr2 : readPair (.pair la) st with
              | ok p s2 =>
                have : s2 = st := by
                  simp only [readPair, readCell, bind, M.bind'] at hr2
                  cases h2 : st.store[la]? with
                  | none => simp [h2] at hr2
                  | some c2 =>
                    cases c2 <;> simp [h2, pure, M.pure', throw] at hr2
                    exact hr2.2.symm
                subst this
                simp only
                split
                · rfl
                · exact ih k d _ h
              | err e s2 => rfl
              | timeout => rfl
            | _ => exact ih k d st h
          | false =>
            simp only [Bool.false_eq_true, if_false]
            split
            · rfl
            · exact ih k d st h
        | _ => simp [readPair, readCell, hc, bind, M.bind', throw]
    | _ => simp [memWalk]

/-! ## `zipArgs` -/

theorem zipArgs_nil : ∀ (m : Nat), zipArgs m [] = []
  | 0 => rfl
  | _+1 => by simp [zipArgs]

theorem zipArgs_stable : ∀ (m k : Nat) (ls : List (List Val)),
    (∃ l ∈ ls, l.length ≤ m) → zipArgs (m + k) ls = zipArgs m ls := by
  intro m
  induction m with
  | zero =>
    intro k ls h
    obtain ⟨l, hl, hlen⟩ := h
    have hl0 : l = [] := by cases l <;> simp at hlen ⊢
    subst hl0
    cases k with
    | zero => rfl
    | succ k =>
      have : ls.any List.isEmpty = true := List.any_eq_true.mpr ⟨[], hl, rfl⟩
      simp [zipArgs, this]
  | succ m ih =>
    intro k ls h
    have e : m + 1 + k = (m + k) + 1 := by omega
    rw [e]
    simp only [zipArgs]
    split
    · rfl
    · rename_i hne
      obtain ⟨l, hl, hlen⟩ := h
      rw [ih k (ls.map List.tail) ⟨l.tail, List.mem_map_of_mem hl, by simp; omega⟩]

/-! ## the guarded evaluator -/

/-- the application `f args` would run a store-size-fuelled helper into its bound in store `σ` -/
def helperCut (f : Val) (args : List Val) (σ : Array Cell) : Bool :=
  match f, args with
  | .prim .display, [v] | .prim .write, [v] | .prim .eval, [v] => valCut (σ.size + 1) σ v
  | .prim .equalP, [a, b] => eqCut (σ.size + 1) σ a b
  | .prim .length, [v] | .prim .reverse, [v] | .prim .listToVector, [v] | .prim .listP, [v] =>
    listCut (σ.size + 1) σ v
  | .prim .append, [a, _] => listCut (σ.size + 1) σ a
  | .prim .append, [a, b, _] => listCut (σ.size + 1) σ a || listCut (σ.size + 1) σ b
  | .prim .apply, _ :: a :: as => listCut (σ.size + 1) σ ((a :: as).getLast?.getD .nil)
  | .prim .map, _ :: l :: ls | .prim .forEach, _ :: l :: ls => (l :: ls).any (listCut (σ.size + 1) σ)
  | .prim .memv, [_, l] | .prim .memq, [_, l] | .prim .assv, [_, l] | .prim .assq, [_, l] =>
    spineCut (σ.size + 1) σ l
  | _, _ => false

@[simp] theorem helperCut_display (v : Val) (σ : Array Cell) :
    helperCut (.prim .display) [v] σ = valCut (σ.size + 1) σ v := rfl
@[simp] theorem helperCut_write (v : Val) (σ : Array Cell) :
    helperCut (.prim .write) [v] σ = valCut (σ.size + 1) σ v := rfl
@[simp] theorem helperCut_eval (v : Val) (σ : Array Cell) :
    helperCut (.prim .eval) [v] σ = valCut (σ.size + 1) σ v := rfl
@[simp] theorem helperCut_equalP (a b : Val) (σ : Array Cell) :
    helperCut (.prim .equalP) [a, b] σ = eqCut (σ.size + 1) σ a b := rfl
@[simp] theorem helperCut_length (v : Val) (σ : Array Cell) :
    helperCut (.prim .length) [v] σ = listCut (σ.size + 1) σ v := rfl
@[simp] theorem helperCut_reverse (v : Val) (σ : Array Cell) :
    helperCut (.prim .reverse) [v] σ = listCut (σ.size + 1) σ v := rfl
@[simp] theorem helperCut_listToVector (v : Val) (σ : Array Cell) :
    helperCut (.prim .listToVector) [v] σ = listCut (σ.size + 1) σ v := rfl
@[simp] theorem helperCut_listP (v : Val) (σ : Array Cell) :
    helperCut (.prim .listP) [v] σ = listCut (σ.size + 1) σ v := rfl
@[simp] theorem helperCut_append2 (a b : Val) (σ : Array Cell) :
    helperCut (.prim .append) [a, b] σ = listCut (σ.size + 1) σ a := rfl
@[simp] theorem helperCut_append3 (a b c : Val) (σ : Array Cell) :
    helperCut (.prim .append) [a, b, c] σ = (listCut (σ.size + 1) σ a || listCut (σ.size + 1) σ b) := rfl
@[simp] theorem helperCut_apply (g a : Val) (as : List Val) (σ : Array Cell) :
    helperCut (.prim .apply) (g :: a :: as) σ = listCut (σ.size + 1) σ ((a :: as).getLast?.getD .nil) := rfl
@[simp] theorem helperCut_map (g l : Val) (ls : List Val) (σ : Array Cell) :
    helperCut (.prim .map) (g :: l :: ls) σ = (l :: ls).any (listCut (σ.size + 1) σ) := rfl
@[simp] theorem helperCut_forEach (g l : Val) (ls : List Val) (σ : Array Cell) :
    helperCut (.prim .forEach) (g :: l :: ls) σ = (l :: ls).any (listCut (σ.size + 1) σ) := rfl
@[simp] theorem helperCut_memv (x l : Val) (σ : Array Cell) :
    helperCut (.prim .memv) [x, l] σ = spineCut (σ.size + 1) σ l := rfl
@[simp] theorem helperCut_memq (x l : Val) (σ : Array Cell) :
    helperCut (.prim .memq) [x, l] σ = spineCut (σ.size + 1) σ l := rfl
@[simp] theorem helperCut_assv (x l : Val) (σ : Array Cell) :
    helperCut (.prim .assv) [x, l] σ = spineCut (σ.size + 1) σ l := rfl
@[simp] theorem helperCut_assq (x l : Val) (σ : Array Cell) :
    helperCut (.prim .assq) [x, l] σ = spineCut (σ.size + 1) σ l := rfl
@[simp] theorem helperCut_closure (ps : List Text) (r : Option Text) (b : List Datum) (ρ : Env)
    (args : List Val) (σ : Array Cell) : helperCut (.closure ps r b ρ) args σ = false := by
  simp [helperCut]
@[simp] theorem helperCut_force (args : List Val) (σ : Array Cell) :
    helperCut (.prim .force) args σ = false := by
  simp [helperCut]

/-- `applyStep` guarded: time out instead of running a helper into its fuel bound -/
def guardApply (r : Rec) (f : Val) (args : List Val) : M Val := fun st =>
  if helperCut f args st.store then .timeout else applyStep r f args st

/-- the evaluator in which a helper time-out is a time-out -/
def guardN : Nat → Rec
  | 0 => { eval := fun _ _ => timeoutM, apply := fun _ _ => timeoutM }
  | n+1 => { eval := evalStep (guardN n), apply := guardApply (guardN n) }

theorem guardApply_of_not_cut (r : Rec) (f : Val) (args : List Val) (st : St)
    (h : helperCut f args st.store = false) : guardApply r f args st = applyStep r f args st := by
  simp [guardApply, h]

theorem guardApply_of_cut (r : Rec) (f : Val) (args : List Val) (st : St)
    (h : helperCut f args st.store = true) : guardApply r f args st = .timeout := by
  simp [guardApply, h]

theorem helperCut_of_guardApply_ne_timeout (r : Rec) (f : Val) (args : List Val) (st : St)
    (h : guardApply r f args st ≠ .timeout) : helperCut f args st.store = false := by
  cases hc : helperCut f args st.store with
  | false => rfl
  | true => exact absurd (guardApply_of_cut r f args st hc) h

variable {r r' : Rec}

/-- the guard only removes outcomes -/
theorem le_guardApply_applyStep (hr : RecLe r r') (f : Val) (args : List Val) :
    Le (guardApply r f args) (applyStep r' f args) := by
  intro st h
  have hc := helperCut_of_guardApply_ne_timeout r f args st h
  rw [guardApply_of_not_cut r f args st hc] at h ⊢
  exact le_applyStep hr f args st h

theorem le_guardApply (hr : RecLe r r') (f : Val) (args : List Val) :
    Le (guardApply r f args) (guardApply r' f args) := by
  intro st h
  have hc := helperCut_of_guardApply_ne_timeout r f args st h
  rw [guardApply_of_not_cut r f args st hc] at h ⊢
  rw [guardApply_of_not_cut r' f args st hc]
  exact le_applyStep hr f args st h

theorem guardN_le_evalN : ∀ n, RecLe (guardN n) (evalN n)
  | 0 => ⟨fun _ _ => Le.timeout _, fun _ _ => Le.timeout _⟩
  | n+1 => ⟨fun e ρ => le_evalStep (guardN_le_evalN n) e ρ,
            fun f args => le_guardApply_applyStep (guardN_le_evalN n) f args⟩

theorem guardN_succ : ∀ (n : Nat), RecLe (guardN n) (guardN (n + 1))
  | 0 => ⟨fun _ _ => Le.timeout _, fun _ _ => Le.timeout _⟩
  | n+1 => ⟨fun e ρ => le_evalStep (guardN_succ n) e ρ,
            fun f args => le_guardApply (guardN_succ n) f args⟩

theorem guardN_mono {n m : Nat} (h : n ≤ m) : RecLe (guardN n) (guardN m) := by
  induction h with
  | refl => exact RecLe.refl _
  | step _ ih => exact ih.trans (guardN_succ _)

/-- spelled out -/
theorem guardN_eval_evalN (n : Nat) (e : Datum) (ρ : Env) (st : St)
    (h : (guardN n).eval e ρ st ≠ .timeout) :
    (evalN n).eval e ρ st = (guardN n).eval e ρ st :=
  (guardN_le_evalN n).eval e ρ st h

theorem guardN_apply_evalN (n : Nat) (f : Val) (args : List Val) (st : St)
    (h : (guardN n).apply f args st ≠ .timeout) :
    (evalN n).apply f args st = (guardN n).apply f args st :=
  (guardN_le_evalN n).apply f args st h

theorem guardN_evalTop_evalN (n : Nat) (d : Datum) (st : St)
    (h : evalTop (guardN n) d st ≠ .timeout) :
    evalTop (evalN n) d st = evalTop (guardN n) d st :=
  le_evalTop (guardN_le_evalN n) d st h

/-! ## sanity -/

/-- a one-pair cyclic list: `(1 . #0#)` -/
def cyclicStore : Array Cell := #[Cell.pair (.int 1) (.pair 0)]
/-- the proper list `(1)` -/
def properStore : Array Cell := #[Cell.pair (.int 1) .nil]

example : valCut 2 cyclicStore (.pair 0) = true := by decide
example : listCut 2 cyclicStore (.pair 0) = true := by decide
example : spineCut 2 cyclicStore (.pair 0) = true := by decide
example : eqCut 2 cyclicStore (.pair 0) (.pair 0) = true := by decide
example : valCut 2 properStore (.pair 0) = false := by decide
example : listCut 2 properStore (.pair 0) = false := by decide
example : spineCut 2 properStore (.pair 0) = false := by decide
example : eqCut 2 properStore (.pair 0) (.pair 0) = false := by decide
example : listOfVal 2 properStore (.pair 0) = some [.int 1] := by decide
example : helperCut (.prim .display) [.pair 0] cyclicStore = true := by decide
example : helperCut (.prim .display) [.pair 0] properStore = false := by decide
example : helperCut (.prim .length) [.pair 0] cyclicStore = true := by decide
example : helperCut (.prim .memv) [.int 2, .pair 0] cyclicStore = true := by decide
example : helperCut (.prim .car) [.pair 0] cyclicStore = false := by decide

/-- the fuel of `valToDatum` matters on cyclic structure: the cut is one level deeper with one more
    unit of fuel (the concrete counterexample to unguarded fuel invariance of `display`/`write`/`eval`) -/
theorem valToDatum_cyclic_fuel_matters :
    valToDatum 2 cyclicStore (.pair 0) ≠ valToDatum 3 cyclicStore (.pair 0) := by decide

/-- … whereas `equal?` at fuel 0 is `eqv?`: two equal strings are not `eqv?` -/
theorem equalVal_zero_fuel_matters :
    equalVal 0 #[] (.str ['a']) (.str ['a']) ≠ equalVal 1 #[] (.str ['a']) (.str ['a']) := by decide

end Marwood.Spec.Eval
