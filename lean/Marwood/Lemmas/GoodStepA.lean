import Marwood.Lemmas.GoodHeapOps
/-!
# `Safe` as an invariant: the heap part of `run_one`, opcode by opcode (1)

`HG` and "`acc` holds a value" across JMP JNT MOV MOVIMM PUSH PUSHIMM PUSHACC HALT RET CONS VPUSH CLOSURE.
The roots clause (`RootsOk` of the successor state) is not proved opcode by opcode: it is read off the
simulation lemma applied to the state and itself (`roots_of_sim`, used in Lemmas/GoodMain.lean).

`ExtGood` is the law of the non-modelled parameters (`ExtOps`) for this invariant, next to `ExtLaws`.
-/
namespace Marwood.Lemmas.Good
open Marwood Marwood.Vm Marwood.Vm.Concrete Marwood.Lemmas.Sim
open Marwood.Heap (GcState WFHeap RootsOk vrefs vrefsList crefs)

/-! ## `RootsOk` from a self-simulation -/

theorem All2.mem_left {α β : Type} {R : α → β → Prop} {l l'} (h : All2 R l l') : ∀ a ∈ l, ∃ b, R a b := by
  induction h with
  | nil => intro a ha; cases ha
  | cons h1 _ ih =>
    intro a ha
    rcases List.mem_cons.mp ha with rfl | ha
    · exact ⟨_, h1⟩
    · exact ih a ha

theorem vrel_refs {ψ : Inj} {v v' : VCell} (h : VRel ψ v v') :
    ∀ y ∈ vrefs true (eraseV v), ∃ y', AddrRel ψ y y' := by
  intro y hy
  cases h with
  | pair h1 h2 =>
    simp only [eraseV, vrefs, List.mem_cons, List.not_mem_nil, or_false] at hy
    rcases hy with rfl | rfl
    · exact ⟨_, h1⟩
    · exact ⟨_, h2⟩
  | closure h1 h2 =>
    simp only [eraseV, vrefs, List.mem_cons, List.not_mem_nil, or_false] at hy
    rcases hy with rfl | rfl
    · exact ⟨_, h1⟩
    · exact ⟨_, h2⟩
  | lexEnvPtr h1 => simp only [eraseV, vrefs, List.mem_cons, List.not_mem_nil, or_false] at hy; subst hy; exact ⟨_, h1⟩
  | envPtr h1 => simp only [eraseV, vrefs, List.mem_cons, List.not_mem_nil, or_false] at hy; subst hy; exact ⟨_, h1⟩
  | instrPtr h1 => simp only [eraseV, vrefs, List.mem_cons, List.not_mem_nil, or_false] at hy; subst hy; exact ⟨_, h1⟩
  | ptr h1 => simp only [eraseV, vrefs, List.mem_cons, List.not_mem_nil, or_false] at hy; subst hy; exact ⟨_, h1⟩
  | atom h1 => rw [vrefs_addrFree h1] at hy; cases hy

theorem nf_of_addrRel {ψ : Inj} {h h' : CHeap} (hs : HeapSim ψ h h') {y y' : Nat} (r : AddrRel ψ y y') : NF h y := by
  rcases r with r | ⟨_, r⟩
  · obtain ⟨c, _, e1, _, _, f1, _⟩ := hs.cells y y' r
    left
    have hlt : y < h.gc.size := by rw [hs.inv.sizes]; exact lt_of_get_some e1
    have hnf : h.gc[y]? ≠ some GcState.free := fun e => f1 ((hs.inv.free_iff y).mpr e)
    have hnu := hs.inv.no_used y
    show (toHeap h).gc[y]? = some GcState.allocated ∨ (toHeap h).gc[y]? = some GcState.used
    show h.gc[y]? = some GcState.allocated ∨ h.gc[y]? = some GcState.used
    rw [Array.getElem?_eq_getElem hlt] at hnf hnu ⊢
    cases hg : h.gc[y] with
    | free => rw [hg] at hnf; exact absurd rfl hnf
    | allocated => left; rfl
    | used => right; rfl
  · exact .inr r

theorem eraseV_asPtr {v : VCell} {y : Nat} (he : (eraseV v).asPtr? = some y) : v = .ptr y := by
  cases v with
  | «opaque» tag => simp only [eraseV] at he; split at he <;> cases he
  | ptr a => simp only [eraseV, Heap.VCell.asPtr?] at he; cases he; rfl
  | _ => simp [eraseV, Heap.VCell.asPtr?] at he

/-- the roots of a state that simulates itself are allocated -/
theorem roots_of_sim {ψ : Inj} {s : St CHeap} (h : Sim ψ s s) :
    RootsOk (toHeap s.heap) ((rootsOf s).refs true) := by
  intro y hy
  show NF s.heap y
  simp only [Heap.Roots.refs, rootsOf, List.mem_append, List.mem_cons, List.not_mem_nil, or_false] at hy
  rcases hy with (((hy | hy) | hy) | hy) | hy
  · obtain ⟨b, hb⟩ := All2.mem_left h.heap.globSyms y hy
    exact nf_of_addrRel h.heap hb
  · obtain ⟨c, hc, he⟩ := List.mem_filterMap.mp hy
    obtain ⟨v, hv, rfl⟩ := List.mem_map.mp hc
    have hv' : v = .ptr y := eraseV_asPtr he
    subst hv'
    obtain ⟨w, hw⟩ := All2.mem_left h.heap.globals _ hv
    obtain ⟨y', hy'⟩ := vrel_refs hw y (by simp [eraseV, vrefs])
    exact nf_of_addrRel h.heap hy'
  · obtain ⟨c, hc, hx⟩ := vrefsList_mem_iff.mp hy
    obtain ⟨i, hi⟩ := List.mem_iff_getElem?.mp hc
    rw [List.getElem?_take] at hi
    split at hi
    · rename_i hlt
      obtain ⟨y', hy'⟩ := vrel_refs (h.stack.2.2 i (by omega) c c hi hi) y hx
      exact nf_of_addrRel h.heap hy'
    · cases hi
  · obtain ⟨y', hy'⟩ := vrel_refs h.acc y hy
    exact nf_of_addrRel h.heap hy'
  · rcases hy with rfl | rfl
    · exact nf_of_addrRel h.heap h.ipL
    · exact nf_of_addrRel h.heap h.ep

/-! ## the law of the non-modelled parameters -/

/-- what the builtin procedures, `eval`'s compiler and VPUSH's push preserve: the heap invariant; cells stay
    allocated; what they return mentions only allocated cells and is not a bare `LexicalEnvPtr` /
    `InstructionPointer`; VPUSH succeeds only on a vector -/
structure ExtGood (ext : ExtOps) : Prop where
  eval : ∀ (h : CHeap) (id : Nat) (args : List VCell) (h' : CHeap) (v : VCell), HG h → (∀ a ∈ args, VOk h a) →
    ext.builtinEval h id args = .ok (h', v) → Small h' → HG h' ∧ Mono h h' ∧ plainVal v = true ∧ VRefsOk h' v
  compile : ∀ (h : CHeap) (d : VCell) (h' : CHeap) (v : VCell), HG h → VRefsOk h d →
    ext.compileEval h d = .ok (h', v) → Small h' → HG h' ∧ Mono h h' ∧ plainVal v = true ∧ VRefsOk h' v
  vpush : ∀ (h : CHeap) (vec a : VCell) (h' : CHeap), HG h → VRefsOk h vec → VOk h a →
    ext.vectorPush h vec a = .ok h' → Small h' → HG h' ∧ Mono h h' ∧ plainGlob vec = true

/-! ## reading cells -/

theorem getAt_ok {h : CHeap} (g : HG h) {p : Nat} (hn : NF h p) : VRefsOk h (getAt h p) ∧ plainVal (getAt h p) = true := by
  unfold getAt
  cases hc : h.cells[p]? with
  | none => exact ⟨.of_addrFree _ rfl, rfl⟩
  | some c =>
    have hnf := hn.nonFree g.wf hc
    have hcl := g.closed hnf hc
    cases c with
    | val v =>
      have hp := g.plain.cells p v hc
      exact ⟨fun y hy => hcl y (vrefs_sub_crefs hp y hy), hp⟩
    | lexEnv _ => exact ⟨.of_addrFree _ rfl, rfl⟩
    | vector _ => exact ⟨.of_addrFree _ rfl, rfl⟩
    | lambda _ => exact ⟨.of_addrFree _ rfl, rfl⟩
    | cont _ => exact ⟨.of_addrFree _ rfl, rfl⟩

theorem deref_ok {h : CHeap} (g : HG h) {v : VCell} (hv : VRefsOk h v) (hp : plainVal v = true) :
    VRefsOk h (deref h v) ∧ plainVal (deref h v) = true := by
  cases v with
  | ptr p => exact getAt_ok g (VRefsOk.ptr.mp hv)
  | _ => exact ⟨hv, hp⟩

/-! ## fetch -/

theorem readOperand_inv {ext : ExtOps} {s s1 : St CHeap} {v : VCell}
    (h : readOperand (concreteOps ext) s = .ok (v, s1)) :
    s1 = { s with ipO := s.ipO + 1 } ∧ ∃ l, lambdaAt s.heap s.ipL = some l ∧ l.bc[s.ipO]? = some v := by
  rw [readOperand_eq] at h
  simp only [concreteOps] at h
  cases hl : lambdaAt s.heap s.ipL with
  | none => simp [hl] at h
  | some l =>
    simp only [hl, Option.isSome_some, Bool.not_true, Bool.false_eq_true, if_false] at h
    cases hf : l.bc[s.ipO]? with
    | none => simp [hf] at h
    | some c =>
      simp only [hf] at h
      cases ho : opOf c with
      | some op => simp [ho] at h
      | none => simp only [ho] at h; cases h; exact ⟨rfl, l, rfl, hf⟩

/-- an operand of the current lambda's code (not a jump offset) mentions allocated cells only -/
theorem code_operand_ok {s : St CHeap} (g : GoodI s) {l : CLambda} (hl : lambdaAt s.heap s.ipL = some l)
    {j : Nat} {op : Op} (hop : l.bc[j]? = some (.opcode op)) (hnj : isJumpOp (.opcode op) = false)
    {v : VCell} (hv : l.bc[j + 1]? = some v) : VRefsOk s.heap v := by
  have hc := lambdaAt_cell hl
  have hnf := (roots_ipL g.roots).nonFree g.hg.wf hc
  have hcl := g.hg.closed hnf hc
  intro y hy
  refine hcl y ?_
  simp only [eraseC, crefs, Heap.lambdaRefs, if_true, List.mem_append]
  left; left
  refine bcRefs_mem l.bc false false (by intro h; cases h) (j + 1) v hv ?_ y hy
  simp only [prevFrom, hop]
  exact hnj

/-! ## operands -/

section
variable {ext : ExtOps} {s : St CHeap}

/-- `load_operand` of a `MOV` whose source is not a `Ptr`: the loaded cell is a value -/
theorem loadOperand_val (g : GoodI s)
    (hsrc : ∀ l, lambdaAt s.heap s.ipL = some l → opndAll notPtr l.bc[s.ipO]? = true)
    (live : BpLive s)
    (hbp : ∀ l off v, lambdaAt s.heap s.ipL = some l → l.bc[s.ipO]? = some (VCell.bpOffset off) →
      0 ≤ (s.bp : Int) + off → s.stack.cells[((s.bp : Int) + off).toNat]? = some v → plainGlob v = true)
    {v : VCell} {s1 : St CHeap} (hr : loadOperand (concreteOps ext) s = .ok (v, s1)) :
    VOk s.heap v ∧ s1 = { s with ipO := s.ipO + 1 } := by
  unfold loadOperand at hr
  obtain ⟨⟨c0, s2⟩, hro, hr⟩ := bind_ok hr
  obtain ⟨rfl, l, hl, hc0⟩ := readOperand_inv hro
  simp only at hr
  have hs := hsrc l hl
  rw [hc0] at hs
  cases c0 with
  | acc => simp only at hr; cases hr; exact ⟨g.accOk, rfl⟩
  | ptr p => simp [opndAll, notPtr] at hs
  | bpOffset off =>
    simp only at hr
    split at hr
    · rename_i hnn
      obtain ⟨w, hw, hr⟩ := bind_ok hr
      cases hr
      unfold Stack.get at hw
      cases hw' : s.stack.cells[((s.bp : Int) + off).toNat]? with
      | none => rw [hw'] at hw; cases hw
      | some w' =>
        rw [hw'] at hw
        cases hw
        have hlive := live l off hl hc0
        exact ⟨⟨hbp l off _ hl hc0 hnn hw', roots_stack g.roots (by omega) hw'⟩, rfl⟩
    · cases hr
  | globSlot n =>
    simp only [concreteOps] at hr
    have hmem : ∀ w, s.heap.globals[n]? = some w → VOk s.heap w := fun w hw =>
      roots_glob g.roots g.hg.plain (by simpa using List.mem_of_getElem? (l := s.heap.globals.toList) (by simpa using hw))
    cases hg : s.heap.globals[n]? with
    | none => rw [hg] at hr; simp at hr
    | some w =>
      rw [hg] at hr
      simp only [Option.getD_some] at hr
      have := hmem w hg
      split at hr
      · cases hr
      · cases hr; exact ⟨this, rfl⟩
  | lexEnvSlot n =>
    simp only [concreteOps] at hr
    cases h1 : envGet s.heap s.ep n with
    | none => rw [h1] at hr; cases hr
    | some w =>
      rw [h1] at hr
      obtain ⟨k1, k2, _⟩ := envLoad_ok g.hg (roots_ep g.roots) h1
      by_cases hp : ∃ e k, w = .lexEnvPtr e k
      · obtain ⟨e, k, rfl⟩ := hp
        simp only at hr
        cases h2 : envGet s.heap e k with
        | none => rw [h2] at hr; cases hr
        | some w' =>
          rw [h2] at hr
          cases hr
          exact ⟨k1 e k rfl _ h2, rfl⟩
      · have : v = w ∧ s1 = { s with ipO := s.ipO + 1 } := by
          cases w <;> simp only at hr <;> first | (cases hr; exact ⟨rfl, rfl⟩) | (exact absurd ⟨_, _, rfl⟩ hp)
        obtain ⟨rfl, rfl⟩ := this
        exact ⟨k2 (fun e k he => hp ⟨e, k, he⟩), rfl⟩
  | _ => cases hr

/-- `store_operand` of a value through a destination that is not a `Ptr` -/
theorem storeOperand_hg (g : GoodI s)
    (hdst : ∀ l, lambdaAt s.heap s.ipL = some l → opndAll notPtr l.bc[s.ipO]? = true)
    {v : VCell} (hv : VOk s.heap v) {s' : St CHeap} (hr : storeOperand (concreteOps ext) s v = .ok s') :
    HG s'.heap ∧ plainGlob s'.acc = true := by
  unfold storeOperand at hr
  obtain ⟨⟨c0, s2⟩, hro, hr⟩ := bind_ok hr
  obtain ⟨rfl, l, hl, hc0⟩ := readOperand_inv hro
  simp only at hr
  have hs := hdst l hl
  rw [hc0] at hs
  cases c0 with
  | acc => simp only at hr; cases hr; exact ⟨g.hg, hv.1⟩
  | ptr p => simp [opndAll, notPtr] at hs
  | bpOffset off =>
    simp only at hr
    obtain ⟨st, _, hr⟩ := bind_ok hr
    cases hr
    exact ⟨g.hg, g.accv⟩
  | globSlot n =>
    simp only [concreteOps] at hr
    cases hr
    exact ⟨(globPut_hg g.hg n hv.1).1, g.accv⟩
  | lexEnvSlot n =>
    simp only [concreteOps] at hr
    cases h1 : envGet s.heap s.ep n with
    | none => rw [h1] at hr; cases hr
    | some w =>
      rw [h1] at hr
      by_cases hp : ∃ e k, w = .lexEnvPtr e k
      · obtain ⟨e, k, rfl⟩ := hp
        simp only at hr
        cases h2 : envPut s.heap e k v with
        | none => rw [h2] at hr; cases hr
        | some h' =>
          rw [h2] at hr
          cases hr
          exact ⟨(envPut_hg g.hg hv h2).1, g.accv⟩
      · have : ∃ h', envPut s.heap s.ep n v = some h' ∧ s' = { s with ipO := s.ipO + 1, heap := h' } := by
          cases w <;> simp only at hr <;>
            first
            | (exact absurd ⟨_, _, rfl⟩ hp)
            | (cases h2 : envPut s.heap s.ep n v with
               | none => rw [h2] at hr; cases hr
               | some h' => rw [h2] at hr; cases hr; exact ⟨h', rfl, rfl⟩)
        obtain ⟨h', h2, rfl⟩ := this
        exact ⟨(envPut_hg g.hg hv h2).1, g.accv⟩
  | _ => cases hr

end

/-! ## the instructions -/

section
variable {ext : ExtOps} {s0 : St CHeap}

/-- the state after the opcode has been read -/
abbrev nx (s : St CHeap) : St CHeap := { s with ipO := s.ipO + 1 }

theorem GoodI.nx {s : St CHeap} (g : GoodI s) : GoodI (nx s) := ⟨g.hg, g.roots, g.accv⟩

theorem hg_jmp {s' : St CHeap} {b : Bool} (g : GoodI s0) (hx : exec (concreteOps ext) .jmp (nx s0) = .ok (s', b)) :
    HG s'.heap ∧ plainGlob s'.acc = true := by
  unfold exec at hx
  obtain ⟨⟨v, s1⟩, h1, hx⟩ := bind_ok hx
  obtain ⟨rfl, _⟩ := readOperand_inv h1
  obtain ⟨o, _, hx⟩ := bind_ok hx
  cases hx
  exact ⟨g.hg, g.accv⟩

theorem hg_jnt {s' : St CHeap} {b : Bool} (g : GoodI s0) (hx : exec (concreteOps ext) .jnt (nx s0) = .ok (s', b)) :
    HG s'.heap ∧ plainGlob s'.acc = true := by
  unfold exec at hx
  obtain ⟨⟨v, s1⟩, h1, hx⟩ := bind_ok hx
  obtain ⟨rfl, _⟩ := readOperand_inv h1
  obtain ⟨o, _, hx⟩ := bind_ok hx
  simp only at hx
  split at hx <;> (cases hx; exact ⟨g.hg, g.accv⟩)

theorem hg_mov {s' : St CHeap} {b : Bool} (g : GoodI s0) (sd : StackDisc s0) (hop : opAt s0 .mov)
    (hx : exec (concreteOps ext) .mov (nx s0) = .ok (s', b)) : HG s'.heap ∧ plainGlob s'.acc = true := by
  unfold exec at hx
  obtain ⟨l, hl, hop⟩ := hop
  have lo := (g.hg.lam _ l (lambdaAt_cell hl)).mov s0.ipO hop
  obtain ⟨⟨v, s1⟩, h1, hx⟩ := bind_ok hx
  have hv := loadOperand_val (ext := ext) g.nx
    (fun l' hl' => by have : l' = l := by rw [hl] at hl'; exact (Option.some.inj hl').symm
                      subst this; exact lo.1)
    sd.bpLive
    (fun l' off w hl' hc hnn hw => by
      have : l' = l := by rw [hl] at hl'; exact (Option.some.inj hl').symm
      subst this
      exact sd.src l' off w hl hop hc hnn hw) h1
  obtain ⟨hv, rfl⟩ := hv
  obtain ⟨s2, h2, hx⟩ := bind_ok hx
  cases hx
  have g1 : GoodI (nx (nx s0)) := g.nx.nx
  exact storeOperand_hg (ext := ext) g1
    (fun l' hl' => by have : l' = l := by rw [hl] at hl'; exact (Option.some.inj hl').symm
                      subst this; exact lo.2) hv h2

theorem hg_movImm {s' : St CHeap} {b : Bool} (g : GoodI s0) (hop : opAt s0 .movImm)
    (hx : exec (concreteOps ext) .movImm (nx s0) = .ok (s', b)) : HG s'.heap ∧ plainGlob s'.acc = true := by
  unfold exec at hx
  obtain ⟨l, hl, hop⟩ := hop
  have lo := (g.hg.lam _ l (lambdaAt_cell hl)).movImm s0.ipO hop
  obtain ⟨⟨v, s1⟩, h1, hx⟩ := bind_ok hx
  obtain ⟨rfl, l', hl', hv⟩ := readOperand_inv h1
  have : l' = l := by rw [show lambdaAt (nx s0).heap (nx s0).ipL = lambdaAt s0.heap s0.ipL from rfl, hl] at hl'
                      exact (Option.some.inj hl').symm
  subst this
  have hv' : l'.bc[s0.ipO + 1]? = some v := hv
  have hpl : plainGlob v = true := by have := lo.1; rw [hv'] at this; exact this
  have hvo : VOk s0.heap v := ⟨hpl, code_operand_ok g hl hop rfl hv'⟩
  obtain ⟨s2, h2, hx⟩ := bind_ok hx
  cases hx
  have g1 : GoodI (nx (nx s0)) := g.nx.nx
  exact storeOperand_hg (ext := ext) g1
    (fun l2 hl2 => by have : l2 = l' := by rw [hl] at hl2; exact (Option.some.inj hl2).symm
                      subst this; exact lo.2) hvo h2

theorem hg_push {s' : St CHeap} {b : Bool} (g : GoodI s0) (hx : exec (concreteOps ext) .push (nx s0) = .ok (s', b)) :
    HG s'.heap ∧ plainGlob s'.acc = true := by
  unfold exec at hx
  obtain ⟨⟨v, s1⟩, h1, hx⟩ := bind_ok hx
  cases hx
  -- `load_operand` changes `ip.1` only
  unfold loadOperand at h1
  obtain ⟨⟨c0, s2⟩, hro, h1⟩ := bind_ok h1
  obtain ⟨rfl, _⟩ := readOperand_inv hro
  have key : s1.heap = s0.heap ∧ s1.acc = s0.acc := by
    simp only at h1
    repeat' split at h1
    all_goals first | (cases h1; exact ⟨rfl, rfl⟩) | (cases h1; done) | skip
    all_goals (obtain ⟨w, _, h1⟩ := bind_ok h1; cases h1; exact ⟨rfl, rfl⟩)
  show HG s1.heap ∧ plainGlob s1.acc = true
  rw [key.1, key.2]
  exact ⟨g.hg, g.accv⟩

theorem hg_pushImm {s' : St CHeap} {b : Bool} (g : GoodI s0)
    (hx : exec (concreteOps ext) .pushImm (nx s0) = .ok (s', b)) : HG s'.heap ∧ plainGlob s'.acc = true := by
  unfold exec at hx
  obtain ⟨⟨v, s1⟩, h1, hx⟩ := bind_ok hx
  obtain ⟨rfl, _⟩ := readOperand_inv h1
  cases hx
  exact ⟨g.hg, g.accv⟩

theorem hg_pushAcc {s' : St CHeap} {b : Bool} (g : GoodI s0)
    (hx : exec (concreteOps ext) .pushAcc (nx s0) = .ok (s', b)) : HG s'.heap ∧ plainGlob s'.acc = true := by
  unfold exec at hx
  cases hx
  exact ⟨g.hg, g.accv⟩

theorem hg_halt {s' : St CHeap} {b : Bool} (g : GoodI s0)
    (hx : exec (concreteOps ext) .halt (nx s0) = .ok (s', b)) : HG s'.heap ∧ plainGlob s'.acc = true := by
  unfold exec at hx
  cases hx
  exact ⟨g.hg, g.accv⟩

theorem hg_ret {s' : St CHeap} {b : Bool} (g : GoodI s0)
    (hx : exec (concreteOps ext) .ret (nx s0) = .ok (s', b)) : HG s'.heap ∧ plainGlob s'.acc = true := by
  unfold exec at hx
  obtain ⟨s1, h1, hx⟩ := bind_ok hx
  cases hx
  unfold stepRet at h1
  obtain ⟨n, _, h1⟩ := bind_ok h1
  obtain ⟨sp, _, h1⟩ := bind_ok h1
  obtain ⟨ep, _, h1⟩ := bind_ok h1
  obtain ⟨⟨l, o⟩, _, h1⟩ := bind_ok h1
  obtain ⟨bp, _, h1⟩ := bind_ok h1
  cases h1
  exact ⟨g.hg, g.accv⟩

end

end Marwood.Lemmas.Good
