import Marwood.Lemmas.CompileCorrect2Main
/-!
# T01.3 stage 2 — the laws are satisfiable: a small heap on which every field of `Laws2` is a theorem

`THeap`: an immutable table of code objects (address = index; bytecode, arity, the sources of the environment
map), a growing table of lexical environments, a growing table of closure cells, and the global slots.
Allocation never reuses an address (no collector here — GC transparency is C03's subject). CLOSURE and ENTER
are implemented as run.rs does (`build_closure_environment`, `build_lexical_environment`). Values are
immediate: booleans, `()`, void, small integers (tag `n<decimal>`); there is no builtin, so the `call` law is
vacuous and every other law is proved.
-/
namespace Marwood.Lemmas.CompileCorrect2.Toy
open Marwood Marwood.Vm Marwood.Lemmas.CompileCorrect Marwood.Lemmas.CompileCorrect2
open Marwood.Spec.Eval (Val Cell)

structure TLam where
  bc : List VCell
  nargs : Nat
  srcs : List RSrc

structure THeap where
  lams : List TLam
  envs : Array (List VCell)
  clos : Array (Nat × Nat)
  globals : Array VCell

def tEnvGet (h : THeap) (e k : Nat) : Option VCell := (h.envs[e]?).bind (·[k]?)

def tCloSlot (h : THeap) (ep : Nat) : RSrc → VCell
  | .iofEnv k => match tEnvGet h ep k with
    | some (.lexEnvPtr e n) => .lexEnvPtr e n
    | _ => .lexEnvPtr ep k
  | _ => .undefined

def tActSlot (cenv bp nargs : Nat) (st : Stack) (olds : List VCell) (j : Nat) : RSrc → VCell
  | .arg i => st.cells[bp - (nargs - i) + 1]?.getD .undefined
  | .iofEnv _ => actCaptured cenv j olds[j]?
  | .iofArg _ => actCaptured cenv j olds[j]?
  | .internal => olds[j]?.getD .undefined

def tops : HeapOps THeap where
  fetch h l o := (h.lams[l]?).bind (·.bc[o]?)
  isLambda h l := (h.lams[l]?).isSome
  callee h v := match v with
    | .ptr p => match h.clos[p]? with
      | some (l, e) => .closure l e
      | none => .other
    | _ => .other
  lambdaInfo h l := (h.lams[l]?).map fun t => ⟨t.nargs⟩
  deref _ v := v
  getAt _ _ := .undefined
  setAt h _ _ := h
  put h v := (h, v)
  maybePut h v := (h, v)
  newCont h _ := (h, .undefined)
  globGet h n := h.globals[n]?.getD .undefined
  globPut h n v := { h with globals := h.globals.setIfInBounds n v }
  envGet := tEnvGet
  envPut h e k v := match h.envs[e]? with
    | some ss => if k < ss.length then some { h with envs := h.envs.setIfInBounds e (ss.set k v) } else none
    | none => none
  makeClosure h lam ep _ _ := match h.lams[lam]? with
    | none => .err .expectedType
    | some t =>
      .ok ({ h with envs := h.envs.push (t.srcs.map (tCloSlot h ep)), clos := h.clos.push (lam, h.envs.size) },
           .ptr h.clos.size)
  makeActivation h lam cenv bp st := match h.lams[lam]? with
    | some t =>
      .ok ({ h with envs := h.envs.push (t.srcs.zipIdx.map fun (src, j) =>
                      tActSlot cenv bp t.nargs st ((h.envs[cenv]?).getD []) j src) },
           h.envs.size)
    | none => .err .expectedType
  vectorPush _ _ _ := .err .expectedType
  builtinKind _ _ := .generic
  builtinEval _ _ _ := .err .invalidSyntax
  compileEval _ _ := .err .invalidSyntax
  isProcedure _ _ := false

/-- immediate values -/
def tVR (v : VCell) : Val → Prop
  | .bool b => v = .bool b
  | .nil => v = .nil
  | .void => v = .void
  | .int n => v = .opaque ("n" ++ toString n)
  | _ => False

/-- immediate values, closed under heap pairs (a pair cell is its own `heap.get`; there are no vectors) -/
abbrev tVRc (h : THeap) (S : Array Cell) (v : VCell) (w : Val) : Prop :=
  ClosedVR tops (fun _ _ => none) (fun _ v w => tVR v w) h S v w

def tD (final : List LambdaM) : RepData2 tops :=
  { named := fun _ => False, slot := fun _ => 0, VR := tVRc, SRx := fun _ _ => True,
    vecElems := fun _ _ => none, envOK := fun _ _ => True,
    lamSrcs := fun h l => (h.lams[l]?).map (·.srcs), LM := id, final := final,
    setG := fun _ => False }

mutual
/-- the representation does not look at the heap at all (`heap.get` is the identity here), and of the store
    only at pair cells -/
theorem tVRc_move {h h' : THeap} {S S' : Array Cell}
    (keep : ∀ (l : Nat) (c : Cell), S[l]? = some c → (∀ v, c ≠ .var v) → S'[l]? = some c) :
    ∀ {v w}, tVRc h S v w → tVRc h' S' v w
  | _, _, .base hb => .base hb
  | _, _, .pair hs hd h1 h2 =>
    .pair (keep _ _ hs (by intro v e; cases e)) hd (tVRc_move keep h1) (tVRc_move keep h2)
  | _, _, .vec hs hv hall => .vec (keep _ _ hs (by intro v e; cases e)) hv (tVRc_moveAll keep hall)
theorem tVRc_moveAll {h h' : THeap} {S S' : Array Cell}
    (keep : ∀ (l : Nat) (c : Cell), S[l]? = some c → (∀ v, c ≠ .var v) → S'[l]? = some c) :
    ∀ {ps xs}, All2 (tVRc h S) ps xs → All2 (tVRc h' S') ps xs
  | _, _, .nil => .nil
  | _, _, .cons a t => .cons (tVRc_move keep a) (tVRc_moveAll keep t)
end

theorem tVRc_heap {h h' : THeap} {S : Array Cell} {v : VCell} {w : Val} (x : tVRc h S v w) : tVRc h' S v w :=
  tVRc_move (fun _ _ hc _ => hc) x

theorem tCloSlot_eq (h : THeap) (ep : Nat) (src : RSrc) : tCloSlot h ep src = cloSlot tops h ep src := by
  cases src <;> rfl

/-- a step that leaves code, closures and environments alone -/
theorem ext_same (final : List LambdaM) (h h' : THeap) (S : Array Cell) (hl : h'.lams = h.lams)
    (hc : ∀ (p : Nat) (v : Nat × Nat), h.clos[p]? = some v → h'.clos[p]? = some v)
    (hp : ∀ e k a b, tEnvGet h e k = some (.lexEnvPtr a b) → tEnvGet h' e k = some (.lexEnvPtr a b))
    (hv : ∀ e k v, tEnvGet h e k = some v → isEnvPtr v = false → ∃ v', tEnvGet h' e k = some v' ∧ isEnvPtr v' = false) :
    Ext2 (tD final) h S h' S := by
  refine ⟨StoreExt.refl _, fun _ _ x => tVRc_heap x,
    fun _ _ x => DatumAt.transport (D := (tD final).toRepData) (vecElems := (tD final).vecElems) (h := h) (h' := h')
      (S := S) (S' := S) (fun _ _ y => tVRc_heap y) (fun _ _ _ y => y) (fun _ _ y => y) x,
    fun l x => ?_, fun v l e x => ?_, fun _ _ => trivial, hp, hv⟩
  · show (h'.lams[l]?).isSome = true ∧ (∀ o, (h'.lams[l]?).bind _ = (h.lams[l]?).bind _) ∧
      (h'.lams[l]?).map _ = (h.lams[l]?).map _ ∧ (h'.lams[l]?).map _ = (h.lams[l]?).map _
    rw [hl]
    exact ⟨x, fun _ => rfl, rfl, rfl⟩
  · cases v with
    | ptr p =>
      have x' : (match h.clos[p]? with | some (l, e) => Callee.closure l e | none => Callee.other) = .closure l e := x
      show (match h'.clos[p]? with | some (l, e) => Callee.closure l e | none => Callee.other) = .closure l e
      cases hcp : h.clos[p]? with
      | none => rw [hcp] at x'; cases x'
      | some q =>
        rw [hcp] at x'
        rw [hc p q hcp]
        exact x'
    | _ => cases x

theorem push_old {α : Type} (a : Array α) (x : α) (i : Nat) (v : α) (h : a[i]? = some v) :
    (a.push x)[i]? = some v := by
  have hlt : i < a.size := by
    rcases Nat.lt_or_ge i a.size with h1 | h1
    · exact h1
    · simp [Array.getElem?_eq_none h1] at h
  simp [Array.getElem?_push, Nat.ne_of_lt hlt, h]

theorem push_ne {α : Type} (a : Array α) (x : α) (i : Nat) (h : i ≠ a.size) : (a.push x)[i]? = a[i]? := by
  simp [Array.getElem?_push, h]

theorem tEnvGet_push_ne (h : THeap) (ss : List VCell) (c : Array (Nat × Nat)) (e k : Nat) (he : e ≠ h.envs.size) :
    tEnvGet { h with envs := h.envs.push ss, clos := c } e k = tEnvGet h e k := by
  unfold tEnvGet
  show ((h.envs.push ss)[e]?).bind _ = _
  rw [push_ne _ _ _ he]

theorem tEnvGet_fresh (h : THeap) (k : Nat) : tEnvGet h h.envs.size k = none := by
  unfold tEnvGet
  simp

theorem tEnvGet_some_lt {h : THeap} {e k : Nat} {v : VCell} (hv : tEnvGet h e k = some v) : e ≠ h.envs.size := by
  intro e0; subst e0
  rw [tEnvGet_fresh] at hv; cases hv

theorem laws (final : List LambdaM) : Laws2 (tD final) where
  slot_inj := by intro a b h; cases h
  truth := by
    intro h S v w hv
    show v = .bool false ↔ _
    cases hv with
    | base hb =>
      cases w <;> simp only [tVR] at hb <;> first
        | (subst hb; simp)
        | cases hb
    | pair hs hd _ _ =>
      have : v = .pair _ _ := hd
      subst this
      exact ⟨(fun e => by cases e), (fun e => by cases e)⟩
    | vec hs hv' _ => cases hv'
  ne_undefined := by
    intro h S v w hv
    cases hv with
    | base hb =>
      cases w <;> simp only [tVR] at hb <;> first
        | (subst hb; intro e; cases e)
        | cases hb
    | pair hs hd _ _ =>
      have : v = .pair _ _ := hd
      subst this
      intro e; cases e
    | vec hs hv' _ => cases hv'
  not_envptr := by
    intro h S v w hv
    cases hv with
    | base hb =>
      cases w <;> simp only [tVR] at hb <;> first
        | (subst hb; rfl)
        | cases hb
    | pair hs hd _ _ =>
      have : v = .pair _ _ := hd
      subst this
      rfl
    | vec hs hv' _ => cases hv'
  void := fun _ _ => .base rfl
  vr_pair := fun _ _ _ _ _ _ _ _ hs hd h1 h2 => .pair hs hd h1 h2
  vr_vec := fun _ _ _ _ _ _ hs hv hall => .vec hs hv hall
  clos_true := by
    intro h v l e hc
    show v ≠ _
    intro e0; subst e0
    cases hc
  clos_ne_undefined := by
    intro h v l e hc e0; subst e0
    cases hc
  clos_not_envptr := by
    intro h v l e hc
    cases v <;> first | rfl | cases hc
  vr_store := fun _ _ _ _ _ hx x => tVRc_move hx.keep x
  srx_store := fun _ _ _ _ _ => trivial
  glob_get_put := by intro h S x v m _ hn; cases hn
  globPut_ext := by
    intro h S n u _
    exact ⟨ext_same final h _ S rfl (fun _ _ x => x) (fun _ _ _ _ x => x) (fun _ _ v x y => ⟨v, x, y⟩), trivial,
      fun _ _ => rfl⟩
  envPut_ok := by
    intro h S e k old u _ hget hold hu
    have hget' : tEnvGet h e k = some old := hget
    unfold tEnvGet at hget'
    cases hes : h.envs[e]? with
    | none => rw [hes] at hget'; cases hget'
    | some ss =>
      rw [hes] at hget'
      have hss : ss[k]? = some old := hget'
      have hk : k < ss.length := by
        rcases Nat.lt_or_ge k ss.length with h1 | h1
        · exact h1
        · rw [List.getElem?_eq_none h1] at hss; cases hss
      have helt : e < h.envs.size := by
        rcases Nat.lt_or_ge e h.envs.size with h1 | h1
        · exact h1
        · simp [Array.getElem?_eq_none h1] at hes
      let h' : THeap := { h with envs := h.envs.setIfInBounds e (ss.set k u) }
      have hgetAll : ∀ e' k', tEnvGet h' e' k' = if e' = e ∧ k' = k then some u else tEnvGet h e' k' := by
        intro e' k'
        unfold tEnvGet
        show ((h.envs.setIfInBounds e (ss.set k u))[e']?).bind _ = _
        by_cases he : e' = e
        · subst he
          simp only [Array.getElem?_setIfInBounds, helt, if_true, Option.bind, hes, true_and]
          by_cases hk' : k' = k
          · subst hk'; simp [hk]
          · have : ¬ k = k' := fun x => hk' x.symm
            simp [hk', this]
        · have : ¬ e = e' := fun x => he x.symm
          simp [he, this]
      refine ⟨h', ?_, ?_, trivial, hgetAll, fun _ => rfl⟩
      · show (match h.envs[e]? with | some ss => _ | none => none) = _
        rw [hes]; simp only [hk, if_true]; rfl
      · refine ext_same final h h' S rfl (fun _ _ x => x) ?_ ?_
        · intro e' k' a b hx
          rw [hgetAll]
          by_cases hsame : e' = e ∧ k' = k
          · obtain ⟨rfl, rfl⟩ := hsame
            have hget2 : tEnvGet h e' k' = some old := hget
            rw [hget2] at hx; cases hx; cases hold
          · simp [hsame, hx]
        · intro e' k' v hx hv
          rw [hgetAll]
          by_cases hsame : e' = e ∧ k' = k
          · exact ⟨u, by simp [hsame], hu⟩
          · exact ⟨v, by simp [hsame, hx], hv⟩
  closure_ok := by
    intro h S lam ep bp st srcs _ _ hsrc _ _
    have hsrc' : (h.lams[lam]?).map (·.srcs) = some srcs := hsrc
    cases hl : h.lams[lam]? with
    | none => rw [hl] at hsrc'; cases hsrc'
    | some t =>
      rw [hl] at hsrc'
      have ht : t.srcs = srcs := by simpa using hsrc'
      let h' : THeap := { h with envs := h.envs.push (t.srcs.map (tCloSlot h ep)), clos := h.clos.push (lam, h.envs.size) }
      refine ⟨h', h.clos.size, h.envs.size, ?_, ?_, tEnvGet_fresh h, ?_, ?_, fun _ => rfl, ?_, trivial, trivial⟩
      · show (match h.lams[lam]? with | none => _ | some t => _) = _
        rw [hl]
      · show (match (h.clos.push (lam, h.envs.size))[h.clos.size]? with | some (l, e) => _ | none => _) = _
        simp
      · intro j src hj
        show tEnvGet h' h.envs.size j = _
        unfold tEnvGet
        show ((h.envs.push _)[h.envs.size]?).bind _ = _
        simp only [Array.getElem?_push_size, Option.bind, List.getElem?_map, ht, hj, Option.map]
        rw [tCloSlot_eq]
      · intro e k he
        exact tEnvGet_push_ne h _ _ e k he
      · refine ext_same final h h' S rfl (fun p v x => push_old _ _ _ _ x) ?_ ?_
        · intro e k a b hx
          rw [show tEnvGet h' e k = tEnvGet h e k from tEnvGet_push_ne h _ _ e k (tEnvGet_some_lt hx)]; exact hx
        · intro e k v hx hv
          exact ⟨v, by rw [show tEnvGet h' e k = tEnvGet h e k from tEnvGet_push_ne h _ _ e k (tEnvGet_some_lt hx)]; exact hx, hv⟩
  activation_ok := by
    intro h S lam cenv bp st srcs nargs _ _ hsrc hinfo _ _ _
    have hsrc' : (h.lams[lam]?).map (·.srcs) = some srcs := hsrc
    have hinfo' : (h.lams[lam]?).map (fun t => (⟨t.nargs⟩ : LambdaInfo)) = some ⟨nargs⟩ := hinfo
    cases hl : h.lams[lam]? with
    | none => rw [hl] at hsrc'; cases hsrc'
    | some t =>
      rw [hl] at hsrc' hinfo'
      have ht : t.srcs = srcs := by simpa using hsrc'
      have hn : t.nargs = nargs := by
        have : (⟨t.nargs⟩ : LambdaInfo) = ⟨nargs⟩ := by simpa using hinfo'
        injection this
      let olds := (h.envs[cenv]?).getD []
      let slots := t.srcs.zipIdx.map fun (src, j) => tActSlot cenv bp t.nargs st olds j src
      let h' : THeap := { h with envs := h.envs.push slots }
      have hslot : ∀ j src, srcs[j]? = some src →
          tEnvGet h' h.envs.size j = some (tActSlot cenv bp nargs st olds j src) := by
        intro j src hj
        unfold tEnvGet
        show ((h.envs.push slots)[h.envs.size]?).bind _ = _
        simp only [Array.getElem?_push_size, Option.bind]
        show slots[j]? = _
        simp only [slots, List.getElem?_map, List.getElem?_zipIdx, ht, hj, Option.map, hn, Nat.zero_add]
      have hold : ∀ j, tEnvGet h cenv j = olds[j]? := by
        intro j; unfold tEnvGet
        show (h.envs[cenv]?).bind _ = ((h.envs[cenv]?).getD [])[j]?
        cases h.envs[cenv]? <;> simp
      refine ⟨h', h.envs.size, ?_, tEnvGet_fresh h, ?_, ?_, ?_, fun _ => rfl, ?_, trivial⟩
      · show (match h.lams[lam]? with | some t => _ | none => _) = _
        rw [hl]
      · intro j i v hj hv
        rw [show tops.envGet h' h.envs.size j = tEnvGet h' h.envs.size j from rfl, hslot j _ hj]
        simp [tActSlot, hv]
      · intro j k hj
        rw [show tops.envGet h' h.envs.size j = tEnvGet h' h.envs.size j from rfl, hslot j _ hj]
        show some (actCaptured cenv j olds[j]?) = some (actCaptured cenv j (tEnvGet h cenv j))
        rw [hold]
      · intro e k he
        exact tEnvGet_push_ne h _ h.clos e k he
      · refine ext_same final h h' S rfl (fun _ _ x => x) ?_ ?_
        · intro e k a b hx
          rw [show tEnvGet h' e k = tEnvGet h e k from tEnvGet_push_ne h _ h.clos e k (tEnvGet_some_lt hx)]; exact hx
        · intro e k v hx hv
          exact ⟨v, by rw [show tEnvGet h' e k = tEnvGet h e k from tEnvGet_push_ne h _ h.clos e k (tEnvGet_some_lt hx)]; exact hx, hv⟩
  call := by
    intro n W h σ vf p vs ws w σ' _ hvf
    cases hvf with
    | base hb => cases hb

end Marwood.Lemmas.CompileCorrect2.Toy
