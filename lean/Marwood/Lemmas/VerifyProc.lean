import Marwood.Lemmas.VerifyBlk
/-!
# Procedure code `[VARARG] ENTER <structured body> RET` and entry code pass the forward pass
-/
namespace Marwood.Vm.Verify
open Marwood.Vm

theorem encList_spec : ∀ {code : List BC} {cells : List VCell}, EncList code cells →
    cells.length = code.length ∧ ∀ (i : Nat) (b : BC), code[i]? = some b → ∃ v, cells[i]? = some v ∧ Enc b v
  | [], [], _ => ⟨rfl, fun i b h => by simp at h⟩
  | [], _ :: _, h => by simp [EncList] at h
  | _ :: _, [], h => by simp [EncList] at h
  | b :: bs, v :: vs, h => by
    obtain ⟨h1, h2⟩ := h
    obtain ⟨hl, hi⟩ := encList_spec h2
    refine ⟨by simp [hl], ?_⟩
    intro i b' hb
    cases i with
    | zero => simp at hb; subst hb; exact ⟨v, by simp, h1⟩
    | succ j => simpa using hi j b' (by simpa using hb)

theorem encList_cellsAt {code : List BC} {cells : List VCell} (h : EncList code cells) : CellsAt cells 0 code := by
  intro i b hb
  simpa using (encList_spec h).2 i b hb

/-- no `BasePointerOffset` operand -/
def BC.noBp : BC → Bool
  | .bpOffset _ => false
  | _ => true

theorem blk_noBp {b : Nat} {code : List BC} {p q : List ACell} (h : Blk b code p q) :
    ∀ x ∈ code, BC.noBp x = true := by
  induction h with
  | nil => intro x hx; cases hx
  | seq _ _ ih1 ih2 => intro x hx; rcases List.mem_append.1 hx with h | h; exact ih1 x h; exact ih2 x h
  | frame _ _ ih => exact ih
  | mov b src dst hs hd =>
    intro x hx
    simp only [List.mem_cons, List.not_mem_nil, or_false] at hx
    rcases hx with rfl | rfl | rfl
    · rfl
    · cases x <;> simp [locB] at hs <;> rfl
    · cases x <;> simp [locB] at hd <;> rfl
  | movImm b imm dst hs hd =>
    intro x hx
    simp only [List.mem_cons, List.not_mem_nil, or_false] at hx
    rcases hx with rfl | rfl | rfl
    · rfl
    · cases x <;> simp [immB] at hs <;> rfl
    · cases x <;> simp [locB] at hd <;> rfl
  | ite tj tm _ _ _ _ _ iht ihc iha =>
    intro x hx
    simp only [List.mem_append, List.mem_cons, List.not_mem_nil, or_false] at hx
    rcases hx with (((h | h | h) | h) | h | h) | h
    · exact iht x h
    · subst h; rfl
    · subst h; rfl
    · exact ihc x h
    · subst h; rfl
    · subst h; rfl
    · exact iha x h
  | call b tail vs hv =>
    intro x hx
    simp only [List.mem_cons, List.not_mem_nil, or_false] at hx
    subst hx; rfl
  | _ =>
    intro x hx
    simp only [List.mem_cons, List.not_mem_nil, or_false] at hx
    first
      | (subst hx; rfl)
      | (rcases hx with rfl | rfl <;> rfl)

theorem enc_noBp {b : BC} {v : VCell} (hb : BC.noBp b = true) (he : Enc b v) : ∀ off, v ≠ .bpOffset off := by
  intro off hv
  subst hv
  cases b <;> simp [Enc, dataCell, BC.noBp] at he hb

/-- the scan of `<structured body> RET` from the end of the prologue; the final scan state `F s0` does not
    depend on the loading -/
theorem scan_body_ret {body : List BC} {k : Nat} (hblk : Blk k body [] []) :
    ∃ F : Scan → Scan, ∀ {cells : List VCell} (_ : NoBp cells), CellsAt cells k body →
      cells[k + body.length]? = some (.opcode .ret) → cells.length = k + body.length + 1 →
      ∀ s0 : Scan, s0.o = k → s0.cur = some [] → s0.pend = [] →
      scanAll cells false (cells.length + 1) s0 = .ok (F s0) ∧ (F s0).cur = none ∧ (F s0).pend = [] := by
  obtain ⟨F1, k1⟩ := blk_scan hblk []
  refine ⟨fun s => applyEffect (F1 s) (.body [], 1, none, [], 0), ?_⟩
  intro cells hnb hcb hret hlen s0 h0 hc hp
  simp only []
  have hr0 : Ready s0 ([] ++ []) [] := ⟨.inl hc, by simp [hp], by simp⟩
  obtain ⟨st1, ho1, hr1⟩ := k1 hnb s0 [] hcb h0 hr0 (by simp)
  generalize F1 s0 = s1 at st1 ho1 hr1 ⊢
  simp only [List.append_nil] at hr1
  rw [← ho1] at hret
  have he : instrEffect cells false s1.o [] .ret = .ok (.body [], 1, none, [], 0) := by simp [instrEffect]
  obtain ⟨h1, h2⟩ := scanOne_ready hr1 (by simp) hret (bpSrcOk_of_noBp hnb false _) he
  have st2 : Steps cells false s1 (applyEffect s1 (.body [], 1, none, [], 0)) := Steps.one (by omega) h1
  obtain ⟨f', _, hf'⟩ := scanAll_steps (st1.trans st2) (cells.length + 1) (by omega)
  refine ⟨?_, rfl, ?_⟩
  · rw [hf']
    exact scanAll_done (by rw [applyEffect_o]; simp only; omega) _
  · rw [List.eq_nil_iff_forall_not_mem]
    intro p hp
    simpa using (h2 p).1 hp

theorem procShape_noBp {l : LambdaM} {cells : List VCell} (hs : ProcShape l) (he : EncList l.bc cells) :
    NoBp cells := by
  obtain ⟨body, hbc, hblk, _⟩ := hs
  obtain ⟨hlen, hget⟩ := encList_spec he
  intro i off hi
  have hlt : i < l.bc.length := by
    rw [← hlen]
    rcases Nat.lt_or_ge i cells.length with h | h
    · exact h
    · rw [List.getElem?_eq_none h] at hi; cases hi
  have hb := List.getElem?_eq_getElem hlt
  generalize l.bc[i] = b at hb
  obtain ⟨v, hv, hev⟩ := hget i b hb
  rw [hi] at hv
  cases hv
  have hmem : b ∈ l.bc := List.mem_of_getElem? hb
  refine enc_noBp ?_ hev off rfl
  rw [hbc] at hmem
  simp only [List.mem_append, List.mem_cons, List.not_mem_nil, or_false] at hmem
  rcases hmem with ((h | h) | h) | h
  · split at h
    · simp only [List.mem_cons, List.not_mem_nil, or_false] at h; rw [h]; rfl
    · cases h
  · rw [h]; rfl
  · exact blk_noBp hblk _ h
  · rw [h]; rfl

/-- procedure code with a structured body passes the forward pass, in every loading, and the assignment
    (abstract stack per offset, maximal number of temporaries) is the same in every loading -/
theorem proc_infer {l : LambdaM} (hs : ProcShape l) :
    ∃ tm h, ∀ cells, EncList l.bc cells → isEntryCode cells = false ∧ infer cells false = .ok (tm, h) := by
  have hs' := hs
  obtain ⟨body, hbc, hblk, _⟩ := hs
  cases hva : l.isVararg
  · -- ENTER body RET
    simp only [hva, Bool.false_eq_true, if_false, List.nil_append] at hbc hblk
    obtain ⟨F, hF⟩ := scan_body_ret hblk
    refine ⟨(F ⟨1, some [], [], [some .pre], 0⟩).tm.reverse, (F ⟨1, some [], [], [some .pre], 0⟩).maxH, ?_⟩
    intro cells he
    have hnb := procShape_noBp hs' he
    obtain ⟨hlen, _⟩ := encList_spec he
    have hca := encList_cellsAt he
    rw [hbc] at hca hlen
    obtain ⟨hc1, hcr⟩ := hca.append
    obtain ⟨⟨v0, h0, e0⟩, hcb⟩ := hc1.head
    simp only [Enc] at e0; subst e0
    obtain ⟨⟨v1, hr, er⟩, _⟩ := hcr.head
    simp only [Enc] at er; subst er
    simp only [List.length_append, List.length_cons, List.length_nil, Nat.zero_add] at hlen hr hcb
    obtain ⟨hsf, hcur, hpend⟩ := hF hnb hcb hr (by omega) ⟨1, some [], [], [some .pre], 0⟩ rfl rfl rfl
    refine ⟨by simp [isEntryCode, h0], ?_⟩
    simp only [infer, h0, Bool.false_eq_true, if_false, hsf, hcur, hpend]
  · -- VARARG ENTER body RET
    simp only [hva, if_true] at hbc hblk
    obtain ⟨F, hF⟩ := scan_body_ret hblk
    refine ⟨(F ⟨2, some [], [], [some .pre, some .pre], 0⟩).tm.reverse,
      (F ⟨2, some [], [], [some .pre, some .pre], 0⟩).maxH, ?_⟩
    intro cells he
    have hnb := procShape_noBp hs' he
    obtain ⟨hlen, _⟩ := encList_spec he
    have hca := encList_cellsAt he
    rw [hbc] at hca hlen
    obtain ⟨hc1, hcr⟩ := hca.append
    obtain ⟨hc2, hcb⟩ := hc1.append
    obtain ⟨v0, v1, h0, e0, h1, e1⟩ := CellsAt.two (c := []) hc2
    simp only [Enc] at e0 e1; subst e0; subst e1
    obtain ⟨⟨v2, hr, er⟩, _⟩ := hcr.head
    simp only [Enc] at er; subst er
    simp only [List.length_append, List.length_cons, List.length_nil, Nat.zero_add] at hlen hr hcb
    obtain ⟨hsf, hcur, hpend⟩ := hF hnb hcb hr (by omega) ⟨2, some [], [], [some .pre, some .pre], 0⟩ rfl rfl rfl
    refine ⟨by simp [isEntryCode, h0], ?_⟩
    simp only [infer, h0, h1, Bool.false_eq_true, if_false, hsf, hcur, hpend]

/-- entry code passes the verifier, in every loading -/
theorem entry_verify {id : Nat} {cells : List VCell} (he : EncList (entryCode id) cells) :
    ∃ t h, verify cells = .ok (t, h) ∧ t.entry = true := by
  match cells, he with
  | [v0, v1, v2, v3, v4, v5, v6], he =>
    simp only [entryCode, EncList, Enc, and_true] at he
    obtain ⟨rfl, rfl, rfl, ⟨a, rfl⟩, rfl, rfl, rfl⟩ := he
    exact ⟨_, _, rfl, rfl⟩

end Marwood.Vm.Verify
