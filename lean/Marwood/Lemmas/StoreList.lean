import Marwood.Lemmas.Store
/-! # Lemmas about pairs, list views (`IsList`, `Spine`, `Chain`) and the list procedures -/
namespace Marwood.Store
open Outcome

theorem car_ok {s : Store} {v : VCell} {a d : Nat} (h : s.get v = .ok (.pair a d)) :
    car s [v] = .ok (s, .ptr a) := by
  simp only [car, h, bind_ok]

theorem cdr_ok {s : Store} {v : VCell} {a d : Nat} (h : s.get v = .ok (.pair a d)) :
    cdr s [v] = .ok (s, .ptr d) := by
  simp only [cdr, h, bind_ok]

theorem car_err {s : Store} {v c : VCell} (h : s.get v = .ok c) (hc : c.isPair = false) :
    car s [v] = .err .pair := by
  simp only [car, h, bind_ok]
  cases c <;> first | rfl | simp [VCell.isPair] at hc

theorem cdr_err {s : Store} {v c : VCell} (h : s.get v = .ok c) (hc : c.isPair = false) :
    cdr s [v] = .err .pair := by
  simp only [cdr, h, bind_ok]
  cases c <;> first | rfl | simp [VCell.isPair] at hc

theorem Denotes.mono {s s' : Store} (h : Extends s s') {w : Nat} {v : VCell} (hd : Denotes s w v) :
    Denotes s' w v := by
  rcases hd with hd | ⟨h1, h2⟩
  · exact Or.inl hd
  · exact Or.inr ⟨h1, h.cell h2⟩

theorem setCell_spec {s : Store} {q : Nat} (h : q < s.cells.length) (c : VCell) :
    ∃ s', s.setCell q c = .ok s' ∧ s'.cells[q]? = some c ∧ s'.cells.length = s.cells.length ∧
      (∀ i, i ≠ q → s'.cells[i]? = s.cells[i]?) ∧ s'.vecs = s.vecs ∧ s'.strs = s.strs := by
  refine ⟨{ s with cells := s.cells.set q c }, by simp [Store.setCell, h], by simp [h], by simp,
    fun i hi => ?_, rfl, rfl⟩
  simp [Ne.symm hi]

theorem lt_of_cell {s : Store} {q : Nat} {c : VCell} (h : s.cells[q]? = some c) :
    q < s.cells.length := by
  rcases Nat.lt_or_ge q s.cells.length with h1 | h1
  · exact h1
  · rw [List.getElem?_eq_none h1] at h; cases h

/-! ## views are stable under extension -/

theorem IsList.mono {s s' : Store} (h : Extends s s') {v : VCell} {as : List Nat}
    (hl : IsList s v as) : IsList s' v as := by
  induction hl with
  | nil hg => exact .nil (h.get hg)
  | cons hg _ ih => exact .cons (h.get hg) ih

theorem Spine.mono {s s' : Store} (h : Extends s s') {v c : VCell} {as : List Nat}
    (hl : Spine s v as c) : Spine s' v as c := by
  induction hl with
  | done hg hc => exact .done (h.get hg) hc
  | cons hg _ ih => exact .cons (h.get hg) ih

theorem Chain.mono {s s' : Store} (h : Extends s s') {p q : Nat} {ls : List (Nat × Nat)}
    (hc : Chain s p ls q) : Chain s' p ls q := by
  induction hc with
  | nil => exact .nil
  | cons hg _ ih => exact .cons (h.cell hg) ih

/-- a chain depends only on the cells it visits -/
theorem Chain.congr {s s' : Store} {p q : Nat} {ls : List (Nat × Nat)} (hc : Chain s p ls q)
    (h : ∀ x ∈ ls, s'.cells[x.1]? = s.cells[x.1]?) : Chain s' p ls q := by
  induction hc with
  | nil => exact .nil
  | cons hg _ ih =>
    refine .cons ?_ (ih fun x hx => h x (List.mem_cons_of_mem _ hx))
    rw [h _ (List.mem_cons_self ..)]; exact hg

theorem Chain.isList {s : Store} {p q : Nat} {ls : List (Nat × Nat)} (hc : Chain s p ls q)
    (hq : s.cells[q]? = some .nil) : IsList s (.ptr p) (ls.map Prod.snd) := by
  induction hc with
  | nil => exact .nil (get_of_cell hq)
  | cons hg _ ih => exact .cons (get_of_cell hg) (ih hq)

theorem Chain.isListTail {s : Store} {p q : Nat} {ls : List (Nat × Nat)} {as : List Nat}
    (hc : Chain s p ls q) (hq : IsList s (.ptr q) as) :
    IsList s (.ptr p) (ls.map Prod.snd ++ as) := by
  induction hc with
  | nil => simpa using hq
  | cons hg _ ih => exact .cons (get_of_cell hg) (ih hq)

theorem Chain.append {s : Store} {p q r : Nat} {l1 l2 : List (Nat × Nat)}
    (h1 : Chain s p l1 q) (h2 : Chain s q l2 r) : Chain s p (l1 ++ l2) r := by
  induction h1 with
  | nil => simpa using h2
  | cons hg _ ih => exact .cons hg (ih h2)

/-- views are functional: a value denotes at most one list -/
theorem IsList.unique {s : Store} {v : VCell} {as bs : List Nat}
    (h1 : IsList s v as) (h2 : IsList s v bs) : as = bs := by
  induction h1 generalizing bs with
  | nil hg =>
    cases h2 with
    | nil _ => rfl
    | cons hg' _ => rw [hg] at hg'; cases hg'
  | cons hg _ ih =>
    cases h2 with
    | nil hg' => rw [hg] at hg'; cases hg'
    | cons hg' ht =>
      rw [hg] at hg'; cases hg'
      rw [ih ht]

theorem IsList.toSpine {s : Store} {v : VCell} {as : List Nat} (h : IsList s v as) :
    Spine s v as .nil := by
  induction h with
  | nil hg => exact .done hg rfl
  | cons hg _ ih => exact .cons hg ih

/-! ## reverse -/

theorem reverseLoop_spec (n0 : Nat) : ∀ (rest : List Nat) (fuel : Nat) (s : Store) (a d tail q0 : Nat)
    (acc : List (Nat × Nat)),
    IsList s (.ptr d) rest → Chain s tail acc q0 → FreshFrom n0 acc → n0 ≤ s.cells.length →
    rest.length < fuel →
    ∃ s' r ls, reverseLoop fuel s (.pair a d) (.ptr tail) = .ok (s', .ptr r) ∧
      Chain s' r ls q0 ∧ ls.map Prod.snd = rest.reverse ++ a :: acc.map Prod.snd ∧
      FreshFrom n0 ls ∧ Extends s s' := by
  intro rest
  induction rest with
  | nil =>
    intro fuel s a d tail q0 acc hl hc hf hn hfuel
    obtain ⟨f, rfl⟩ : ∃ f, fuel = f + 1 := ⟨fuel - 1, by simp at hfuel; omega⟩
    cases hl with
    | nil hg =>
      have hext := alloc_extends s (.pair a tail)
      refine ⟨(s.alloc (.pair a tail)).1, s.cells.length, (s.cells.length, a) :: acc, ?_, ?_, by simp, ?_, hext⟩
      · simp only [reverseLoop, VCell.asCar_pair, VCell.asPtr_ptr, bind_ok, put_pair, VCell.asCdr_pair]
        have : (s.alloc (.pair a tail)).1.get (.ptr d) = .ok .nil := hext.get hg
        simp only [Store.alloc] at this
        rw [this]
        rfl
      · exact .cons (alloc_cell s _) (hc.mono hext)
      · intro x hx
        rcases List.mem_cons.mp hx with rfl | hx
        · exact hn
        · exact hf x hx
  | cons a2 rest2 ih =>
    intro fuel s a d tail q0 acc hl hc hf hn hfuel
    obtain ⟨f, rfl⟩ : ∃ f, fuel = f + 1 := ⟨fuel - 1, by simp at hfuel; omega⟩
    cases hl with
    | cons hg ht =>
      rename_i d2
      have hext := alloc_extends s (.pair a tail)
      have hacc : Chain (s.alloc (.pair a tail)).1 s.cells.length ((s.cells.length, a) :: acc) q0 :=
        .cons (alloc_cell s _) (hc.mono hext)
      have hfr : FreshFrom n0 ((s.cells.length, a) :: acc) := by
        intro x hx
        rcases List.mem_cons.mp hx with rfl | hx
        · exact hn
        · exact hf x hx
      obtain ⟨s', r, ls, h1, h2, h3, h4, h5⟩ := ih f (s.alloc (.pair a tail)).1 a2 d2 s.cells.length q0
        ((s.cells.length, a) :: acc) (ht.mono hext) hacc hfr (by simp; omega) (by simp at hfuel; omega)
      refine ⟨s', r, ls, ?_, h2, by simp [h3], h4, hext.trans h5⟩
      simp only [reverseLoop, VCell.asCar_pair, VCell.asPtr_ptr, bind_ok, put_pair, VCell.asCdr_pair]
      have : (s.alloc (.pair a tail)).1.get (.ptr d) = .ok (.pair a2 d2) := hext.get hg
      simp only [Store.alloc] at this
      rw [this]
      simp only [bind_ok, VCell.isPair_pair, if_true]
      exact h1


theorem reverseLoop_err {c : VCell} (hnil : c.isNil = false) :
    ∀ (rest : List Nat) (fuel : Nat) (s : Store) (a d tail : Nat),
    Spine s (.ptr d) rest c → rest.length < fuel →
    ∃ e, reverseLoop fuel s (.pair a d) (.ptr tail) = .err e := by
  intro rest
  induction rest with
  | nil =>
    intro fuel s a d tail hl hfuel
    obtain ⟨f, rfl⟩ : ∃ f, fuel = f + 1 := ⟨fuel - 1, by simp at hfuel; omega⟩
    cases hl with
    | done hg hp =>
      have hext := alloc_extends s (.pair a tail)
      have : (s.alloc (.pair a tail)).1.get (.ptr d) = .ok c := hext.get hg
      simp only [Store.alloc] at this
      simp only [reverseLoop, VCell.asCar_pair, VCell.asPtr_ptr, bind_ok, put_pair, VCell.asCdr_pair,
        this, hp, hnil, Bool.false_eq_true, if_false]
      exact ⟨_, rfl⟩
  | cons a2 rest2 ih =>
    intro fuel s a d tail hl hfuel
    obtain ⟨f, rfl⟩ : ∃ f, fuel = f + 1 := ⟨fuel - 1, by simp at hfuel; omega⟩
    cases hl with
    | cons hg ht =>
      rename_i d2
      have hext := alloc_extends s (.pair a tail)
      have : (s.alloc (.pair a tail)).1.get (.ptr d) = .ok (.pair a2 d2) := hext.get hg
      simp only [Store.alloc] at this
      obtain ⟨e, he⟩ := ih f (s.alloc (.pair a tail)).1 a2 d2 s.cells.length (ht.mono hext)
        (by simp at hfuel; omega)
      simp only [reverseLoop, VCell.asCar_pair, VCell.asPtr_ptr, bind_ok, put_pair, VCell.asCdr_pair,
        this, VCell.isPair_pair, if_true]
      exact ⟨e, he⟩

theorem denotes_forall₂_mono {s s' : Store} (h : Extends s s') {as : List Nat} {vs : List VCell}
    (hf : DenotesAll s as vs) : DenotesAll s' as vs := by
  induction hf with
  | nil => exact .nil
  | cons hd _ ih => exact .cons (hd.mono h) ih

theorem DenotesAll.length {s : Store} {as : List Nat} {vs : List VCell}
    (hf : DenotesAll s as vs) : as.length = vs.length := by
  induction hf with
  | nil => rfl
  | cons _ _ ih => simp [ih]

/-! ## list (the VARARG list) -/

theorem listLoop_spec : ∀ (xs : List VCell) (s : Store) (acc : Nat) (accAs : List Nat)
    (accVs : List VCell), IsList s (.ptr acc) accAs → DenotesAll s accAs accVs →
    ∃ s' p as, listLoop s xs acc = .ok (s', p) ∧ IsList s' (.ptr p) as ∧
      DenotesAll s' as (xs.reverse ++ accVs) ∧ Extends s s' ∧
      s'.vecs = s.vecs ∧ s'.strs = s.strs := by
  intro xs
  induction xs with
  | nil =>
    intro s acc accAs accVs hl hf
    exact ⟨s, acc, accAs, rfl, hl, by simpa using hf, Extends.refl s, rfl, rfl⟩
  | cons x xs ih =>
    intro s acc accAs accVs hl hf
    obtain ⟨w, h1, h2, h3, h4, h5, _⟩ := put_spec s x
    rcases hp : s.put x with ⟨s1, o⟩
    rw [hp] at h1 h2 h3 h4 h5
    simp only at h1 h2 h3 h4 h5
    subst h1
    have hext := alloc_extends s1 (.pair w acc)
    have hl2 : IsList (s1.alloc (.pair w acc)).1 (.ptr s1.cells.length) (w :: accAs) :=
      .cons (get_of_cell (alloc_cell s1 _)) ((hl.mono h2).mono hext)
    have hf2 : DenotesAll (s1.alloc (.pair w acc)).1 (w :: accAs) (x :: accVs) :=
      .cons (h3.mono hext) (denotes_forall₂_mono (h2.trans hext) hf)
    obtain ⟨s', p, as, e1, e2, e3, e4, e5, e6⟩ := ih _ _ _ _ hl2 hf2
    refine ⟨s', p, as, ?_, e2, by simpa using e3, (h2.trans hext).trans e4, by rw [e5]; simpa using h4,
      by rw [e6]; simpa using h5⟩
    simp only [listLoop, hp, VCell.asPtr_ptr, bind_ok, put_pair]
    exact e1

/-! ## vector->list -/

theorem vecToListLoop_spec : ∀ (xs : List VCell) (s : Store) (acc : Nat) (accAs : List Nat)
    (accVs : List VCell), IsList s (.ptr acc) accAs → DenotesAll s accAs accVs →
    ∃ s' p as, vecToListLoop s xs (.ptr acc) = .ok (s', .ptr p) ∧ IsList s' (.ptr p) as ∧
      DenotesAll s' as (xs.reverse ++ accVs) ∧ Extends s s' ∧ s'.vecs = s.vecs := by
  intro xs
  induction xs with
  | nil =>
    intro s acc accAs accVs hl hf
    exact ⟨s, acc, accAs, rfl, hl, by simpa using hf, Extends.refl s, rfl⟩
  | cons x xs ih =>
    intro s acc accAs accVs hl hf
    obtain ⟨w, h1, h2, h3, h4, h5, _⟩ := put_spec s x
    rcases hp : s.put x with ⟨s1, o⟩
    rw [hp] at h1 h2 h3 h4 h5
    simp only at h1 h2 h3 h4 h5
    subst h1
    have hext := alloc_extends s1 (.pair w acc)
    have hl2 : IsList (s1.alloc (.pair w acc)).1 (.ptr s1.cells.length) (w :: accAs) :=
      .cons (get_of_cell (alloc_cell s1 _)) ((hl.mono h2).mono hext)
    have hf2 : DenotesAll (s1.alloc (.pair w acc)).1 (w :: accAs) (x :: accVs) :=
      .cons (h3.mono hext) (denotes_forall₂_mono (h2.trans hext) hf)
    obtain ⟨s', p, as, e1, e2, e3, e4, e5⟩ := ih _ _ _ _ hl2 hf2
    refine ⟨s', p, as, ?_, e2, by simpa using e3, (h2.trans hext).trans e4, by rw [e5]; simpa using h4⟩
    simp only [vecToListLoop, hp, VCell.asPtr_ptr, bind_ok, put_pair]
    exact e1

/-! ## list->vector -/

theorem collectCars_spec {s : Store} {c : VCell} : ∀ (rest : List Nat) (fuel a d : Nat)
    (acc : List VCell), Spine s (.ptr d) rest c → rest.length + 1 < fuel →
    collectCars fuel s (.pair a d) acc = .ok (acc ++ (a :: rest).map VCell.ptr, c) := by
  intro rest
  induction rest with
  | nil =>
    intro fuel a d acc hl hfuel
    obtain ⟨f, rfl⟩ : ∃ f, fuel = f + 2 := ⟨fuel - 2, by simp at hfuel; omega⟩
    cases hl with
    | done hg hp =>
      simp only [collectCars, VCell.isPair_pair, if_true, VCell.asCar_pair, VCell.asCdr_pair, bind_ok,
        hg, hp, Bool.false_eq_true, if_false, List.map_cons, List.map_nil]
  | cons a2 rest2 ih =>
    intro fuel a d acc hl hfuel
    obtain ⟨f, rfl⟩ : ∃ f, fuel = f + 1 := ⟨fuel - 1, by simp at hfuel; omega⟩
    cases hl with
    | cons hg ht =>
      rename_i d2
      simp only [collectCars, VCell.isPair_pair, if_true, VCell.asCar_pair, VCell.asCdr_pair, bind_ok, hg]
      rw [ih f a2 d2 _ ht (by simp at hfuel; omega)]
      simp

/-! ## length, list? -/

theorem nullP_of_get {s : Store} {v c : VCell} (h : s.get v = .ok c) : nullP s v = .ok c.isNil := by
  simp only [nullP, h, bind_ok]

theorem pairP_of_get {s : Store} {v c : VCell} (h : s.get v = .ok c) : pairP s v = .ok c.isPair := by
  simp only [pairP, h, bind_ok]

theorem carV_ok {s : Store} {v : VCell} {a d : Nat} (h : s.get v = .ok (.pair a d)) :
    carV s v = .ok (.ptr a) := by simp only [carV, car_ok h, bind_ok]

theorem cdrV_ok {s : Store} {v : VCell} {a d : Nat} (h : s.get v = .ok (.pair a d)) :
    cdrV s v = .ok (.ptr d) := by simp only [cdrV, cdr_ok h, bind_ok]

theorem carV_err {s : Store} {v c : VCell} (h : s.get v = .ok c) (hc : c.isPair = false) :
    carV s v = .err .pair := by simp only [carV, car_err h hc, bind_err]

theorem cdrV_err {s : Store} {v c : VCell} (h : s.get v = .ok c) (hc : c.isPair = false) :
    cdrV s v = .err .pair := by simp only [cdrV, cdr_err h hc, bind_err]

theorem isListLoop_spec {s : Store} {c : VCell} : ∀ (rest : List Nat) (fuel a d : Nat),
    Spine s (.ptr d) rest c → rest.length + 1 < fuel →
    isListLoop fuel s (.pair a d) = .ok c.isNil := by
  intro rest
  induction rest with
  | nil =>
    intro fuel a d hl hfuel
    obtain ⟨f, rfl⟩ : ∃ f, fuel = f + 2 := ⟨fuel - 2, by simp at hfuel; omega⟩
    cases hl with
    | done hg hp =>
      simp only [isListLoop, VCell.isPair_pair, Bool.not_true, Bool.false_eq_true, if_false,
        VCell.asCdr_pair, bind_ok, hg, hp, Bool.not_false, if_true]
  | cons a2 rest2 ih =>
    intro fuel a d hl hfuel
    obtain ⟨f, rfl⟩ : ∃ f, fuel = f + 1 := ⟨fuel - 1, by simp at hfuel; omega⟩
    cases hl with
    | cons hg ht =>
      rename_i d2
      simp only [isListLoop, VCell.isPair_pair, Bool.not_true, Bool.false_eq_true, if_false,
        VCell.asCdr_pair, bind_ok, hg]
      exact ih f a2 d2 ht (by simp at hfuel; omega)

/-! ## list-tail, list-ref -/

theorem getListTail_ok {s : Store} {v t : VCell} {k : Nat} (h : NthCdr s v k t) :
    getListTail s v k = .ok t := by
  induction h with
  | zero => rfl
  | succ hg _ ih =>
    simp only [getListTail, hg, bind_ok, VCell.isPair_pair, Bool.not_true, Bool.false_and, VCell.isNil,
      Bool.or_self, Bool.false_eq_true, if_false, VCell.asCdr_pair]
    exact ih

/-- running out of pairs before `k` cdrs have been taken is an error -/
theorem getListTail_err {s : Store} {v c : VCell} {as : List Nat} (hl : Spine s v as c) :
    ∀ k, as.length < k → ∃ e, getListTail s v k = .err e := by
  induction hl with
  | done hg hp =>
    intro k hk
    obtain ⟨j, rfl⟩ : ∃ j, k = j + 1 := ⟨k - 1, by simp at hk; omega⟩
    rename_i v c
    simp only [getListTail, hg, bind_ok, hp, Bool.not_false, Bool.true_and]
    by_cases h1 : ((j != 0) || c.isNil) = true
    · rw [if_pos h1]; exact ⟨_, rfl⟩
    · rw [if_neg h1]
      cases c <;> first | exact ⟨_, rfl⟩ | simp [VCell.isPair] at hp
  | cons hg _ ih =>
    intro k hk
    obtain ⟨j, rfl⟩ : ∃ j, k = j + 1 := ⟨k - 1, by simp at hk; omega⟩
    obtain ⟨e, he⟩ := ih j (by simp at hk; omega)
    simp only [getListTail, hg, bind_ok, VCell.isPair_pair, Bool.not_true, Bool.false_and, VCell.isNil,
      Bool.or_self, Bool.false_eq_true, if_false, VCell.asCdr_pair]
    exact ⟨e, he⟩

theorem Spine.nthCdr {s : Store} {v c : VCell} {as : List Nat} (hl : Spine s v as c) :
    ∀ k, k ≤ as.length → ∃ t, NthCdr s v k t ∧ Spine s t (as.drop k) c := by
  induction hl with
  | done hg hp =>
    intro k hk
    have : k = 0 := by simpa using hk
    subst this
    exact ⟨_, .zero, .done hg hp⟩
  | cons hg ht ih =>
    intro k hk
    cases k with
    | zero => exact ⟨_, .zero, .cons hg ht⟩
    | succ j =>
      obtain ⟨t, h1, h2⟩ := ih j (by simpa using hk)
      exact ⟨t, .succ hg h1, by simpa using h2⟩

/-- the first cell of a spine: a pair or the final cell -/
theorem Spine.head {s : Store} {v c : VCell} {as : List Nat} (hl : Spine s v as c) :
    ∃ c0, s.get v = .ok c0 ∧ (c0.isPair = true ∨ c0 = c) := by
  cases hl with
  | done hg _ => exact ⟨_, hg, Or.inr rfl⟩
  | cons hg _ => exact ⟨_, hg, Or.inl rfl⟩

/-! ## eqv? on the keys where it is fully specified -/

theorem eqvCells_key {s : Store} {k c : VCell} (hk : k.isKeyScalar = true) :
    eqvCells s k c = .ok (decide (k = c)) := by
  cases k <;> simp [VCell.isKeyScalar] at hk <;> cases c <;> simp [eqvCells] <;> rfl

/-! ## memq / memv / member -/

/-! ## assq / assv / assoc -/

/-! ## clone_list and append -/

theorem isNil_ptr (a : Nat) : (VCell.ptr a).isNil = false := rfl
theorem isNil_pair (a d : Nat) : (VCell.pair a d).isNil = false := rfl

/-- `setCell` at a cell allocated after `s0` keeps `Extends s0` -/
theorem Extends.setCell {s0 s s' : Store} {q : Nat} {c : VCell} (h : Extends s0 s)
    (hq : s0.cells.length ≤ q) (hs : s.setCell q c = .ok s') : Extends s0 s' := by
  unfold Store.setCell at hs
  split at hs
  · cases hs
    refine ⟨fun i hi => ?_, h.vecs, h.strs⟩
    have : q ≠ i := by omega
    simp only [List.getElem?_set_ne this]
    exact h.cells i hi
  · cases hs

/-- the loop of `clone_list` once `head`/`tail` are set: `ls` is the part of the copy already
    linked (from `hp` up to, not including, `tp`), `tp` is its last pair -/
theorem cloneLoop_steady {s0 : Store} {c : VCell} (nilp : Nat) :
    ∀ (rest : List Nat) (fuel : Nat) (s : Store) (a d hp tp lastcar : Nat) (ls : List (Nat × Nat)),
    Spine s0 (.ptr d) rest c → Extends s0 s → s0.cells.length ≤ tp →
    Chain s hp ls tp → (∀ x ∈ ls, s0.cells.length ≤ x.1 ∧ x.1 < tp) →
    s.cells[tp]? = some (.pair lastcar nilp) → rest.length < fuel →
    (c = .nil → ∃ s' tp' ls' lastcar',
        cloneLoop fuel s (.pair a d) nilp (.ptr hp) (.ptr tp) = .ok (s', .ptr hp, .ptr tp') ∧
        Extends s0 s' ∧ Chain s' hp ls' tp' ∧ s'.cells[tp']? = some (.pair lastcar' nilp) ∧
        ls'.map Prod.snd ++ [lastcar'] = ls.map Prod.snd ++ lastcar :: a :: rest ∧
        (∀ x ∈ ls', s0.cells.length ≤ x.1 ∧ x.1 < tp') ∧ s0.cells.length ≤ tp') ∧
    (c ≠ .nil → ∃ e, cloneLoop fuel s (.pair a d) nilp (.ptr hp) (.ptr tp) = .err e) := by
  intro rest
  induction rest with
  | nil =>
    intro fuel s a d hp tp lastcar ls hsp hext htp hch hfr hlast hfuel
    obtain ⟨f, rfl⟩ : ∃ f, fuel = f + 1 := ⟨fuel - 1, by simp at hfuel; omega⟩
    -- one step
    have hext1 := alloc_extends s (.pair a nilp)
    have htp1 : tp < (s.alloc (.pair a nilp)).1.cells.length := by
      have := lt_of_cell hlast; simp; omega
    obtain ⟨s2, e1, e2, e3, e4, e5, e6⟩ := setCell_spec htp1 (.pair lastcar s.cells.length)
    have hext2 : Extends s0 s2 := (hext.trans hext1).setCell htp e1
    have hne : s.cells.length ≠ tp := by have := lt_of_cell hlast; omega
    have hnew : s2.cells[s.cells.length]? = some (.pair a nilp) := by
      rw [e4 _ hne]; exact alloc_cell s _
    have hch2 : Chain s2 hp (ls ++ [(tp, lastcar)]) s.cells.length := by
      refine Chain.append ((hch.mono hext1).congr fun x hx => ?_) (.cons e2 .nil)
      exact e4 _ (by have := (hfr x hx).2; omega)
    cases hsp with
    | done hg hp' =>
      have hg2 : s2.get (.ptr d) = .ok c := hext2.get hg
      have hstep : cloneLoop (f + 1) s (.pair a d) nilp (.ptr hp) (.ptr tp) =
          (if c.isNil then .ok (s2, .ptr hp, .ptr s.cells.length) else .err .syntax) := by
        simp only [cloneLoop, VCell.asCar_pair, VCell.asPtr_ptr, bind_ok, put_pair, isNil_ptr,
          Bool.false_eq_true, if_false, VCell.asCdr_pair]
        have hl1 : ({ s with cells := s.cells ++ [.pair a nilp] } : Store).get (.ptr tp) =
            .ok (.pair lastcar nilp) := hext1.get (get_of_cell hlast)
        rw [hl1]
        simp only [bind_ok, VCell.asCar_pair, VCell.asPtr_ptr]
        have e1' : ({ s with cells := s.cells ++ [.pair a nilp] } : Store).setCell tp
            (.pair lastcar s.cells.length) = .ok s2 := e1
        rw [e1']
        simp only [bind_ok, hg2, hp', Bool.false_eq_true, if_false]
      refine ⟨fun hc => ?_, fun hc => ?_⟩
      · subst hc
        refine ⟨s2, s.cells.length, ls ++ [(tp, lastcar)], a, by rw [hstep]; rfl, hext2, hch2, hnew,
          by simp, ?_, Nat.le_trans htp (Nat.le_of_lt (lt_of_cell hlast))⟩
        intro x hx
        rcases List.mem_append.mp hx with hx | hx
        · have := hfr x hx; have := lt_of_cell hlast; omega
        · simp at hx; subst hx; have := lt_of_cell hlast; simp; omega
      · have : c.isNil = false := by cases c <;> first | rfl | exact absurd rfl hc
        rw [hstep, this]; exact ⟨_, rfl⟩
  | cons a2 rest2 ih =>
    intro fuel s a d hp tp lastcar ls hsp hext htp hch hfr hlast hfuel
    obtain ⟨f, rfl⟩ : ∃ f, fuel = f + 1 := ⟨fuel - 1, by simp at hfuel; omega⟩
    have hext1 := alloc_extends s (.pair a nilp)
    have htp1 : tp < (s.alloc (.pair a nilp)).1.cells.length := by
      have := lt_of_cell hlast; simp; omega
    obtain ⟨s2, e1, e2, e3, e4, e5, e6⟩ := setCell_spec htp1 (.pair lastcar s.cells.length)
    have hext2 : Extends s0 s2 := (hext.trans hext1).setCell htp e1
    have hne : s.cells.length ≠ tp := by have := lt_of_cell hlast; omega
    have hnew : s2.cells[s.cells.length]? = some (.pair a nilp) := by
      rw [e4 _ hne]; exact alloc_cell s _
    have hch2 : Chain s2 hp (ls ++ [(tp, lastcar)]) s.cells.length := by
      refine Chain.append ((hch.mono hext1).congr fun x hx => ?_) (.cons e2 .nil)
      exact e4 _ (by have := (hfr x hx).2; omega)
    cases hsp with
    | cons hg ht =>
      rename_i d2
      have hg2 : s2.get (.ptr d) = .ok (.pair a2 d2) := hext2.get hg
      have hstep : cloneLoop (f + 1) s (.pair a d) nilp (.ptr hp) (.ptr tp) =
          cloneLoop f s2 (.pair a2 d2) nilp (.ptr hp) (.ptr s.cells.length) := by
        simp only [cloneLoop, VCell.asCar_pair, VCell.asPtr_ptr, bind_ok, put_pair, isNil_ptr,
          Bool.false_eq_true, if_false, VCell.asCdr_pair]
        have hl1 : ({ s with cells := s.cells ++ [.pair a nilp] } : Store).get (.ptr tp) =
            .ok (.pair lastcar nilp) := hext1.get (get_of_cell hlast)
        rw [hl1]
        simp only [bind_ok, VCell.asCar_pair, VCell.asPtr_ptr]
        have e1' : ({ s with cells := s.cells ++ [.pair a nilp] } : Store).setCell tp
            (.pair lastcar s.cells.length) = .ok s2 := e1
        rw [e1']
        simp only [bind_ok, hg2, VCell.isPair_pair, if_true]
      have hfr2 : ∀ x ∈ ls ++ [(tp, lastcar)], s0.cells.length ≤ x.1 ∧ x.1 < s.cells.length := by
        intro x hx
        rcases List.mem_append.mp hx with hx | hx
        · have := hfr x hx; have := lt_of_cell hlast; omega
        · simp at hx; subst hx; have := lt_of_cell hlast; simp; omega
      have hn0 : s0.cells.length ≤ s.cells.length := Nat.le_trans htp (Nat.le_of_lt (lt_of_cell hlast))
      obtain ⟨ihok, iherr⟩ := ih f s2 a2 d2 hp s.cells.length a (ls ++ [(tp, lastcar)]) ht hext2 hn0
        hch2 hfr2 hnew (by simp at hfuel; omega)
      refine ⟨fun hc => ?_, fun hc => ?_⟩
      · obtain ⟨s', tp', ls', lastcar', r1, r2, r3, r4, r5, r6, r7⟩ := ihok hc
        exact ⟨s', tp', ls', lastcar', by rw [hstep]; exact r1, r2, r3, r4, by simpa using r5, r6, r7⟩
      · obtain ⟨e, he⟩ := iherr hc
        exact ⟨e, by rw [hstep]; exact he⟩


/-- `clone_list` of a proper list `a :: rest`: a fresh chain `hp … tp` carrying the same element
    references, `tp` its last pair; nothing that existed is touched. Improper: an error. -/
theorem cloneList_spec {s : Store} {c : VCell} {a d : Nat} {rest : List Nat} {fuel : Nat}
    (hsp : Spine s (.ptr d) rest c) (hfuel : rest.length + 1 < fuel) :
    (c = .nil → ∃ s' hp tp ls lastcar x,
        cloneList fuel s (.pair a d) = .ok (s', .ptr hp, .ptr tp) ∧ Extends s s' ∧
        Chain s' hp ls tp ∧ s'.cells[tp]? = some (.pair lastcar x) ∧
        ls.map Prod.snd ++ [lastcar] = a :: rest ∧
        (∀ y ∈ ls, s.cells.length ≤ y.1 ∧ y.1 < tp) ∧ s.cells.length ≤ tp) ∧
    (c ≠ .nil → ∃ e, cloneList fuel s (.pair a d) = .err e) := by
  obtain ⟨f, rfl⟩ : ∃ f, fuel = f + 1 := ⟨fuel - 1, by omega⟩
  -- s0: after the shared nil cell; s1: after the first pair of the copy
  have hx0 := alloc_extends s .nil
  have hx1 := alloc_extends (s.alloc .nil).1 (.pair a s.cells.length)
  have hunf : cloneList (f + 1) s (.pair a d) =
      (do
        let rest' ← ((s.alloc .nil).1.alloc (.pair a s.cells.length)).1.get (.ptr d)
        if rest'.isPair then
          cloneLoop f ((s.alloc .nil).1.alloc (.pair a s.cells.length)).1 rest' s.cells.length
            (.ptr (s.cells.length + 1)) (.ptr (s.cells.length + 1))
        else if rest'.isNil then
          .ok (((s.alloc .nil).1.alloc (.pair a s.cells.length)).1, .ptr (s.cells.length + 1),
            .ptr (s.cells.length + 1))
        else .err .syntax) := by
    simp only [cloneList, VCell.isPair_pair, Bool.not_true, Bool.false_eq_true, if_false, put_nil,
      VCell.asPtr_ptr, bind_ok, cloneLoop, VCell.asCar_pair, put_pair, VCell.isNil_nil, if_true,
      VCell.asCdr_pair, Store.alloc, List.length_append, List.length_cons, List.length_nil]
  have hcell1 : ((s.alloc .nil).1.alloc (.pair a s.cells.length)).1.cells[s.cells.length + 1]? =
      some (.pair a s.cells.length) := by
    have := alloc_cell (s.alloc .nil).1 (.pair a s.cells.length)
    simpa using this
  cases hsp with
  | done hg hp' =>
    have hg1 := (hx0.trans hx1).get hg
    refine ⟨fun hc => ?_, fun hc => ?_⟩
    · subst hc
      refine ⟨_, s.cells.length + 1, s.cells.length + 1, [], a, s.cells.length, ?_, hx0.trans hx1, .nil,
        hcell1, by simp, by simp, by omega⟩
      rw [hunf, hg1]; rfl
    · have : c.isNil = false := by cases c <;> first | rfl | exact absurd rfl hc
      rw [hunf, hg1]
      simp only [bind_ok, hp', Bool.false_eq_true, if_false, this]
      exact ⟨_, rfl⟩
  | cons hg ht =>
    rename_i a2 d2 rest2
    have hg1 := (hx0.trans hx1).get hg
    have hst := cloneLoop_steady (s0 := (s.alloc .nil).1) (c := c) s.cells.length rest2 f
      ((s.alloc .nil).1.alloc (.pair a s.cells.length)).1 a2 d2 (s.cells.length + 1)
      (s.cells.length + 1) a [] (ht.mono hx0) hx1 (by simp) .nil (by simp) hcell1
      (by simp at hfuel; omega)
    refine ⟨fun hc => ?_, fun hc => ?_⟩
    · obtain ⟨s', tp', ls', lastcar', r1, r2, r3, r4, r5, r6, r7⟩ := hst.1 hc
      refine ⟨s', s.cells.length + 1, tp', ls', lastcar', s.cells.length, ?_, hx0.trans r2, r3, r4,
        by simpa using r5, fun y hy => ?_, by simp at r7; omega⟩
      · rw [hunf, hg1]
        simp only [bind_ok, VCell.isPair_pair, if_true]
        exact r1
      · have := r6 y hy; simp at this; omega
    · obtain ⟨e, he⟩ := hst.2 hc
      refine ⟨e, ?_⟩
      rw [hunf, hg1]
      simp only [bind_ok, VCell.isPair_pair, if_true]
      exact he


theorem AllLists.mono {s s' : Store} (h : Extends s s') {vs : List VCell} {ass : List (List Nat)}
    (hl : AllLists s vs ass) : AllLists s' vs ass := by
  induction hl with
  | nil => exact .nil
  | cons h1 _ ih => exact .cons (h1.mono h) ih

theorem AllLists.snoc {s : Store} {vs : List VCell} {ass : List (List Nat)} {v : VCell}
    {as : List Nat} (hl : AllLists s vs ass) (h : IsList s v as) :
    AllLists s (vs ++ [v]) (ass ++ [as]) := by
  induction hl with
  | nil => exact .cons h .nil
  | cons h1 _ ih => exact .cons h1 ih

theorem AllLists.reverse {s : Store} {vs : List VCell} {ass : List (List Nat)}
    (hl : AllLists s vs ass) : AllLists s vs.reverse ass.reverse := by
  induction hl with
  | nil => exact .nil
  | cons h1 _ ih => simpa using ih.snoc h1

theorem appendLoop_spec {fuel : Nat} : ∀ (revArgs : List VCell) (revViews : List (List Nat))
    (s : Store) (tailp : Nat), AllLists s revArgs revViews →
    (∀ as ∈ revViews, as.length + 1 < fuel) →
    ∃ s' r ls, appendLoop fuel s revArgs (.ptr tailp) = .ok (s', .ptr r) ∧ Chain s' r ls tailp ∧
      ls.map Prod.snd = revViews.reverse.flatten ∧ (∀ y ∈ ls, s.cells.length ≤ y.1) ∧
      Extends s s' := by
  intro revArgs
  induction revArgs with
  | nil =>
    intro revViews s tailp hl _
    cases hl
    exact ⟨s, tailp, [], rfl, .nil, by simp, by simp, Extends.refl s⟩
  | cons v vs ih =>
    intro revViews s tailp hl hfuel
    cases hl with
    | cons h1 h2 =>
      rename_i as ass
      cases h1 with
      | nil hg =>
        obtain ⟨s', r, ls, e1, e2, e3, e4, e5⟩ := ih ass s tailp h2
          (fun x hx => hfuel x (List.mem_cons_of_mem _ hx))
        refine ⟨s', r, ls, ?_, e2, by simpa using e3, e4, e5⟩
        simp only [appendLoop, hg, bind_ok]
        exact e1
      | cons hg ht =>
        rename_i a d rest
        have hf := hfuel (a :: rest) (List.mem_cons_self ..)
        obtain ⟨s1, hp, tp, ls1, lastcar, x, c1, c2, c3, c4, c5, c6, c7⟩ :=
          (cloneList_spec (a := a) (fuel := fuel) ht.toSpine (by simp at hf; omega)).1 rfl
        obtain ⟨s2, d1, d2, d3, d4, d5, d6⟩ := setCell_spec (lt_of_cell c4) (.pair lastcar tailp)
        have hx2 : Extends s s2 := c2.setCell c7 d1
        have hch : Chain s2 hp (ls1 ++ [(tp, lastcar)]) tailp := by
          refine Chain.append (c3.congr fun y hy => ?_) (.cons d2 .nil)
          exact d4 _ (by have := (c6 y hy).2; omega)
        obtain ⟨s', r, ls2, e1, e2, e3, e4, e5⟩ := ih ass s2 hp (h2.mono hx2)
          (fun x hx => hfuel x (List.mem_cons_of_mem _ hx))
        refine ⟨s', r, ls2 ++ (ls1 ++ [(tp, lastcar)]), ?_, e2.append (hch.mono e5), ?_, ?_,
          hx2.trans e5⟩
        · simp only [appendLoop, hg, bind_ok, c1, get_of_cell c4, VCell.asCar_pair, VCell.asPtr_ptr, d1]
          exact e1
        · simp only [List.map_append, e3, List.map_cons, List.map_nil, List.reverse_cons,
            List.flatten_append, List.flatten_cons, List.flatten_nil, List.append_nil]
          rw [c5]
        · intro y hy
          rcases List.mem_append.mp hy with hy | hy
          · exact Nat.le_trans hx2.len (e4 y hy)
          · rcases List.mem_append.mp hy with hy | hy
            · exact (c6 y hy).1
            · simp at hy; subst hy; exact c7

end Marwood.Store
