import Marwood.Symbol
import Marwood.Lemmas.Digits
/-!
# `symbol->string` inverts `string->symbol` (C18, T18.3/T18.4) and string escapes (used by C10)

The decoder is `unescapeGo` of `Parse.lean` (`parse::parse_string`). Hex escapes: the digits of
`natDigits 16 n` drive the `.hex` state from `0` to `n`.
-/
namespace Marwood

deriving instance DecidableEq for Except

/-- unfolding `natDigits` (well-founded recursion does not reduce in the kernel) -/
theorem natDigits_lt {r n : Nat} (h : n < r) : natDigits r n = [digitChar n] := by
  rw [natDigits]; simp [h]

theorem natDigits_ge {r n : Nat} (h1 : ¬ n < r) (h2 : 2 ≤ r) :
    natDigits r n = natDigits r (n / r) ++ [digitChar (n % r)] := by
  rw [natDigits]
  have : ¬ (n < r ∨ r < 2) := by omega
  simp [this]

theorem digitChar_hex : ∀ d, d < 16 →
    isAsciiHex (digitChar d) = true ∧ digitChar d ≠ ';' ∧ digitVal (digitChar d) = some d := by decide

/-- one hex digit in state `.hex acc` -/
theorem unescapeGo_hex_digit {d acc : Nat} (hd : d < 16) (hb : acc * 16 + d ≤ u32Max) (cs : Text) :
    unescapeGo (.hex acc) (digitChar d :: cs) = unescapeGo (.hex (acc * 16 + d)) cs := by
  obtain ⟨h1, h2, h3⟩ := digitChar_hex d hd
  rw [unescapeGo]
  simp only [h2, if_false, h1, if_true, h3, hb]

/-- the lowercase hex digits of `n` take the `.hex` state from `0` to `n` -/
theorem unescapeGo_hex_natDigits : ∀ (n : Nat), n ≤ u32Max → ∀ tail : Text,
    unescapeGo (.hex 0) (natDigits 16 n ++ tail) = unescapeGo (.hex n) tail := by
  intro n
  induction n using Nat.strongRecOn with
  | _ n ih =>
    intro hn tail
    unfold natDigits
    split
    · rename_i h
      have hlt : n < 16 := by omega
      simp only [List.singleton_append]
      rw [unescapeGo_hex_digit hlt (by omega)]
      simp
    · rename_i h
      have hge : ¬ n < 16 := fun x => h (Or.inl x)
      have hlt : n / 16 < n := Nat.div_lt_self (by omega) (by omega)
      rw [List.append_assoc, ih _ hlt (by omega)]
      simp only [List.singleton_append]
      have hm : n % 16 < 16 := Nat.mod_lt _ (by omega)
      rw [unescapeGo_hex_digit hm (by omega)]
      congr 2
      omega

theorem charOfNat?_toNat (c : Char) : charOfNat? c.toNat = some c := by
  unfold charOfNat?
  have h : c.toNat.isValidChar := c.valid
  simp only [h, dite_true]
  congr 1

theorem char_toNat_le_u32Max (c : Char) : c.toNat ≤ u32Max := by
  have h := c.valid
  unfold u32Max
  rcases h with h | ⟨_, h⟩ <;> (simp only [Char.toNat, UInt32.toNat] at *; omega)

/-- what the decoder does to the rest after one decoded character -/
def consRes (c : Char) : Except ParseErr Text → Except ParseErr Text
  | .ok r => .ok (c :: r)
  | .error e => .error e

theorem unescapeGo_norm_plain {c : Char} (hc : c ≠ '\\') (cs : Text) :
    unescapeGo .norm (c :: cs) = consRes c (unescapeGo .norm cs) := by
  rw [unescapeGo]
  simp only [hc, if_false]
  cases unescapeGo .norm cs <;> rfl

/-- `\x<hex of c>;` decodes to `c`, whatever follows -/
theorem unescapeGo_hexEscape (c : Char) (rest : Text) :
    unescapeGo .norm ('\\' :: 'x' :: (hexOf c ++ (';' :: rest))) = consRes c (unescapeGo .norm rest) := by
  rw [unescapeGo]
  simp only [if_true]
  rw [unescapeGo]
  simp only [if_true]
  unfold hexOf
  rw [unescapeGo_hex_natDigits _ (char_toNat_le_u32Max c)]
  rw [unescapeGo]
  simp only [if_true, charOfNat?_toNat]
  cases unescapeGo .norm rest <;> rfl

theorem unescapeGo_symEscape (c : Char) (rest : Text) :
    unescapeGo .norm (symEscape c ++ rest) = consRes c (unescapeGo .norm rest) := by
  have : symEscape c ++ rest = '\\' :: 'x' :: (hexOf c ++ (';' :: rest)) := by
    simp [symEscape]
  rw [this, unescapeGo_hexEscape]

/-- every arm of the repaired encoder decodes to the character it encodes -/
theorem unescapeGo_encodeSymChar (first : Bool) (c : Char) (rest : Text) :
    unescapeGo .norm (encodeSymChar false first c ++ rest) = consRes c (unescapeGo .norm rest) := by
  unfold encodeSymChar
  by_cases hb : c = '\\'
  · simp only [hb, Bool.not_false, Bool.true_and, decide_true, if_true]
    exact unescapeGo_symEscape _ _
  · simp only [hb, decide_false, Bool.and_false, Bool.false_eq_true, if_false]
    split
    · exact unescapeGo_norm_plain hb _
    · split
      · exact unescapeGo_norm_plain hb _
      · exact unescapeGo_symEscape _ _

theorem unescapeGo_encodeSymTail (s : Text) :
    unescapeGo .norm (encodeSymTail false s) = .ok s := by
  induction s with
  | nil => rfl
  | cons c cs ih =>
    simp only [encodeSymTail]
    rw [unescapeGo_encodeSymChar, ih]
    rfl

/-- **T18.3** `(symbol->string (string->symbol s)) = s` for every string -/
theorem symbolToString_stringToSymbol (s : Text) : symbolToString (stringToSymbol s) = .ok s := by
  unfold symbolToString stringToSymbol
  cases s with
  | nil => rfl
  | cons c cs =>
    simp only [stringToSymbolP]
    rw [unescapeGo_encodeSymChar, unescapeGo_encodeSymTail]
    rfl

/-! ## plain identifiers are fixed points of both directions -/

theorem unescapeGo_plainTail : ∀ y : Text, plainTail y = true → unescapeGo .norm y = .ok y := by
  intro y
  induction y with
  | nil => intro _; rfl
  | cons c cs ih =>
    intro h
    simp only [plainTail, Bool.and_eq_true, bne_iff_ne, ne_eq] at h
    rw [unescapeGo_norm_plain h.1.2, ih h.2]
    rfl

theorem encodeSymTail_plainTail : ∀ y : Text, plainTail y = true → encodeSymTail false y = y := by
  intro y
  induction y with
  | nil => intro _; rfl
  | cons c cs ih =>
    intro h
    simp only [plainTail, Bool.and_eq_true, bne_iff_ne, ne_eq] at h
    simp only [encodeSymTail, ih h.2]
    unfold encodeSymChar
    simp [h.1.1, h.1.2]

theorem plainIdent_fixed (y : Text) (h : plainIdent y = true) :
    symbolToString y = .ok y ∧ stringToSymbol y = y := by
  cases y with
  | nil => cases h
  | cons c cs =>
    simp only [plainIdent, Bool.and_eq_true, bne_iff_ne, ne_eq] at h
    constructor
    · unfold symbolToString
      rw [unescapeGo_norm_plain h.1.2, unescapeGo_plainTail cs h.2]
      rfl
    · unfold stringToSymbol
      simp only [stringToSymbolP, encodeSymTail_plainTail cs h.2]
      unfold encodeSymChar
      simp [h.1.1, h.1.2]

end Marwood
