import Marwood.Lemmas.NumUnary
import Marwood.Lemmas.NumFold
/-!
# The procedures of builtin/number.rs: argument checks, totality, absence of panics
-/
namespace Marwood.Arith
open Marwood Marwood.NumSpec

theorem isInteger_of_intVal {a : Num} {x : Int} (h : intVal? a = some x) : isInteger a = true := by
  cases a with
  | fix n => rfl
  | big n => rfl
  | rat n d => obtain ⟨h1, _⟩ := intVal_rat h; subst h1; rfl
  | flo f => simp [intVal?] at h

theorem beq_eq_decide_int (n : Int) : (n == 0) = decide (n = 0) := by
  by_cases h : n = 0 <;> simp [h]

theorem isZero_of_intVal {a : Num} {x : Int} (h : intVal? a = some x) : isZero a = decide (x = 0) := by
  cases a with
  | fix n => simp only [intVal?, Option.some.injEq] at h; subst h; exact beq_eq_decide_int n
  | big n => simp only [intVal?, Option.some.injEq] at h; subst h; exact beq_eq_decide_int n
  | rat n d => obtain ⟨_, h2⟩ := intVal_rat h; subst h2; exact beq_eq_decide_int x
  | flo f => simp [intVal?] at h

/-- the procedures `quotient remainder modulo` on exact integers: an error for a zero divisor,
    otherwise the value the direct operation gives — never a panic -/
theorem scmIntOp_spec (op : Num → Num → Option (Outcome (Option Num))) (a b : Num) {x y : Int}
    (hx : intVal? a = some x) (hy : intVal? b = some y) :
    (y = 0 → scmIntOp op [a, b] = some (.err "syntax")) ∧
    (y ≠ 0 → ∀ r, op a b = some (.ok (some r)) → scmIntOp op [a, b] = some (.ok r)) := by
  have h1 := isInteger_of_intVal hx
  have h2 := isInteger_of_intVal hy
  have h3 := isZero_of_intVal hy
  constructor
  · intro h0
    simp [scmIntOp, h1, h2, h3, h0]
  · intro h0 r hr
    simp [scmIntOp, h1, h2, h3, h0, hr]

/-- `asI32` of a divisor that is not zero is not zero -/
theorem asI32_ne_zero {b : Num} {r : Int} (h : asI32 b = some r) (hz : isZero b = false) : r ≠ 0 := by
  cases b with
  | fix n => simp only [asI32] at h; rw [(chk32_some h).1]; simpa [isZero] using hz
  | big n => simp only [asI32] at h; rw [(chk32_some h).1]; simpa [isZero] using hz
  | rat n d => cases h
  | flo f => cases h

theorem ratioOfI32_no_panic {l r : Int} (hr : r ≠ 0) : ∃ x, ratioOfI32 l r = .ok x := by
  unfold ratioOfI32
  simp only [beq_iff_eq, hr, if_false]
  split
  · exact ⟨_, rfl⟩
  · split <;> exact ⟨_, rfl⟩

/-- `/` on `Number` never panics for a divisor that is not an exact or inexact zero -/
theorem div_no_panic (a b : Num) (hz : isZero b = false) : ∃ x, div a b = .ok x := by
  cases a <;> cases b <;> simp only [div] <;> (try exact ⟨_, rfl⟩)
  case fix.fix l r =>
    cases hl : asI32 (Num.fix l) <;> cases hr : asI32 (Num.fix r) <;> simp only <;> (try exact ⟨_, rfl⟩)
    exact ratioOfI32_no_panic (asI32_ne_zero hr hz)
  case fix.big l r =>
    cases hl : asI32 (Num.fix l) <;> cases hr : asI32 (Num.big r) <;> simp only <;> (try exact ⟨_, rfl⟩)
    exact ratioOfI32_no_panic (asI32_ne_zero hr hz)
  case big.fix l r =>
    cases hl : asI32 (Num.big l) <;> cases hr : asI32 (Num.fix r) <;> simp only <;> (try exact ⟨_, rfl⟩)
    exact ratioOfI32_no_panic (asI32_ne_zero hr hz)
  case big.big l r =>
    cases hl : asI32 (Num.big l) <;> cases hr : asI32 (Num.big r) <;> simp only <;> (try exact ⟨_, rfl⟩)
    exact ratioOfI32_no_panic (asI32_ne_zero hr hz)
  case fix.rat l n d => cases asI32 (Num.fix l) <;> exact ⟨_, rfl⟩
  case big.rat l n d => cases asI32 (Num.big l) <;> exact ⟨_, rfl⟩
  case rat.fix n d r => cases asI32 (Num.fix r) <;> exact ⟨_, rfl⟩
  case rat.big n d r => cases asI32 (Num.big r) <;> exact ⟨_, rfl⟩

/-- the procedure `/` never panics, whatever the arguments -/
theorem scmDivide_no_panic (args : List Num) (s : String) : scmDivide args ≠ .panic s := by
  unfold scmDivide
  split
  · rename_i y
    cases hz : isZero y
    · obtain ⟨x, hx⟩ := div_no_panic (.fix 1) y hz
      simp [hx]
    · simp
  · rename_i x y
    cases hz : isZero y
    · obtain ⟨r, hr⟩ := div_no_panic x y hz
      simp [hr]
    · simp
  · simp

end Marwood.Arith
