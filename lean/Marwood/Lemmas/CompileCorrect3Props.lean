import Marwood.Lemmas.CompileCorrect3Main
import Marwood.Lemmas.CompileCorrect3ConcreteList
import Marwood.Lemmas.CompileCorrect3ConcreteDemo
import Marwood.Lemmas.CompileCorrect3ErrTop
import Marwood.Lemmas.CompileCorrect3ErrDemo
import Marwood.Lemmas.CompileCorrect3ConcreteErr
import Marwood.Lemmas.CompileCorrect3RecDemo
/-!
# C01 / T01.3 STAGE 3, continued — property-level statements (to be imported by `Proofs/C01.lean`)

Three additions to stage 3 (`Proofs/C01.lean`, section "T01.3 STAGE 3"); all theorems are in the namespace
`Marwood.Proofs.C01`.

**0. What changed in the ASSUMED laws (`Laws3`, `Lemmas/CompileCorrect3Defs.lean`).** On the real heap ENTER
(`build_lexical_environment`, `Vm/ConcreteHeap.lean: activationSlot`) does not write `Undefined` into the slots of
the internal definitions: it COPIES them from the closure environment, where CLOSURE (`build_closure_environment`)
left `Undefined`. "ENTER leaves internal slots `Undefined`" is therefore true only because nothing ever writes into
a closure environment — and the stage-3 laws as first stated (`envPut_ok` for ANY slot that holds a value) were
not provable for `concreteOps`. The abstract development now tracks it: `D.envOK h e` means "`e` is a closure
environment"; `Inv3.wact`: a variable location is never a slot of a closure environment; `Ext3.undefOK`/`okBack`;
`ClosOK3` records that the internal slots of the closure environment hold `Undefined`; `Laws3.envPut_ok` is about
slots outside closure environments; `Laws3.activation_ok` takes the `Undefined` internal slots of the closure
environment as a premise and concludes that the new environment is not a closure environment; `Laws3.put_val`
is about REPRESENTED values (an immediate closure value is put only if its environment is a closure environment).
The statements of the stage-3 theorems in `Proofs/C01.lean` are unchanged; the toy heap proves the new laws
(`laws3_toy`).

**1. `Laws3` and `ListLaws` on the CONCRETE heap** (`laws3_concrete`, `listLaws3_concrete`): every field except the
behaviour of the builtins (`call`) is a theorem for `concreteOps ext` — the collector's heap with the real allocator
(free list head first, growth by chunks, addresses reused), symbol interning in `put`, CLOSURE/ENTER as run.rs —
with the invariant `CInv ∧ FreeInv ∧ named global slots exist ∧ every closure cell refers to an environment ∧
HInv ∧ SymOk`; and every hypothesis of the main theorem is discharged on a `CHeap` for `((lambda (a . r) r) 1 2 3)`
and `((lambda (x) (define y (if x 1 2)) y) #t)` (`demo_concrete_stage3_*`).

**2. ERROR CASE of stage 3** (`compile_correct_stage3_error_partial`, `closure_call_stage3_error_partial`).

**3. RECURSION THROUGH INTERNAL DEFINITIONS** (`compile_correct_stage3_rec_partial`, `body_stage3_rec_block_partial`).
The fragment `F3` itself was extended (so `compile_correct_stage3_partial` of `Proofs/C01.lean` covers it too; `F3R`
is a name for the extended fragment): a body may contain BLOCKS `F3B.block Bs` of consecutive definitions whose
initialisers are `lambda` expressions — `(define g (lambda formals body …))` (`F3K.defl`) or
`(define (g . formals) body …)` (`F3K.defc`) — and the lambda bodies of a block may mention EVERY name of the block
(the earlier ones, themselves, the later ones) besides the names readable before the block. Everything else is as
before: a non-`lambda` initialiser and the expressions of the body may mention only names defined earlier.
Why this is sound and the naive rule is not: evaluating a `lambda` expression does not READ the captured variables,
CLOSURE only stores their locations; and between the first and the last definition of a block nothing is
evaluated but `lambda` expressions, so no closure of the block can be CALLED before every name of the block is
initialised. `(define (g) z) (define y (g)) (define z 1)` (`lambda_initialiser_rule_unsound`) is rejected: `z` is
neither readable before the block `[g]` nor a name of it. The rule is a decidable syntactic condition on the
program (maximal runs of `lambda`-initialised definitions are the blocks), carried — like the rest of `F3` — as
computed facts about the compiler model. It is more restrictive than necessary:
`(define (g) z) (define z 1) (define y (g))` is rejected although no variable is read too early (a block may
not be interrupted by a non-`lambda` definition).
Inside a block `Inv3` does NOT hold (the slot of `g₁` holds a closure that captured the `Undefined` slot of `g₂`);
the block is proved as a unit with the weaker invariant `BlkInv` (`Lemmas/CompileCorrect3Rec*.lean`) and `Inv3` is
re-established behind its last definition.
-/
namespace Marwood.Proofs.C01
open Marwood Marwood.Vm Marwood.Vm.Concrete
open Marwood.Lemmas.CompileCorrect Marwood.Lemmas.CompileCorrect2 Marwood.Lemmas.CompileCorrect3
open Marwood.Spec.Eval (Val Env evalN properList)

/-! ## 1. the laws of stage 3 on the concrete heap model -/

/-- **`Laws3` on the concrete heap model** (`concreteOps ext` over `CHeap`: free list, chunk growth, symbol
    interning; CLOSURE and ENTER as in run.rs), for the representation `cD3` (`Lemmas/CompileCorrect3ConcreteRep.lean`:
    values = the store-free atoms closed under heap pairs; `envOK` = "a lexical environment a closure cell refers
    to"; heap invariant `CInv ∧ FreeInv ∧ named global slots exist ∧ ClosEnv ∧ HInv ∧ SymOk`). Every field is a
    theorem except `call`, the behaviour of the first-order builtins (hypothesis `hcall`: the builtins are
    parameters `ExtOps` of the concrete machine); `hE`: the atom encoding represents no re-dispatching builtin. -/
theorem laws3_concrete {ext : ExtOps} {E : AtomEnc} {named : Text → Prop} {slot : Text → Nat} {LM : Nat → Nat}
    {final : List LambdaM} {setG : Text → Prop}
    (hinj : ∀ a b, named a → named b → slot a = slot b → a = b)
    (hE : ∀ p, Redisp p → E.prim p = none)
    (hcall : ∀ n W h (σ : Spec.Eval.St) vf p vs ws w (σ' : Spec.Eval.St),
      Inv3 (Conc.cD3 ext E named slot LM final setG) W h σ →
      (Conc.cD3 ext E named slot LM final setG).VR h σ.store vf (.prim p) →
      All2 (VR3 (Conc.cD3 ext E named slot LM final setG) W h σ.store) vs ws →
      (evalN n).apply (.prim p) ws σ = .ok w σ' →
      ∃ id h' r, (concreteOps ext).callee h vf = .builtin id ∧ (concreteOps ext).builtinKind h id = .generic ∧
        builtinResult (concreteOps ext) h id vs.reverse = .ok (h', r) ∧
        VR3 (Conc.cD3 ext E named slot LM final setG) W h' σ'.store r w ∧
        Inv3 (Conc.cD3 ext E named slot LM final setG) W h' σ' ∧
        Ext3 (Conc.cD3 ext E named slot LM final setG) h σ.store h' σ'.store) :
    Laws3 (Conc.cD3 ext E named slot LM final setG) :=
  Conc.concrete_laws3 hinj hE hcall

/-- **`ListLaws` (the `apply` re-dispatch) on the concrete heap model**: no hypothesis. -/
theorem listLaws3_concrete {ext : ExtOps} {E : AtomEnc} {named : Text → Prop} {slot : Text → Nat} {LM : Nat → Nat}
    {final : List LambdaM} {setG : Text → Prop} : ListLaws (Conc.cD3 ext E named slot LM final setG) :=
  Conc.concrete_listLaws3

/-- **Stage 3 on the concrete heap model, rest parameter**: every hypothesis of the main theorem discharged on a
    `CHeap` (one chunk of 4 cells: the two code objects, two free cells; VARARG's `put`s and ENTER take the free cells
    and then grow the heap by chunks) for `((lambda (a . r) r) 1 2 3)`, for every choice `ext` of the unmodelled
    operations: the run exists and ends with a representation of the list `(2 3)` in `acc`. -/
theorem demo_concrete_stage3_rest_runs (ext : ExtOps) :
    ∃ W' s', Run3 (Conc.c3dR ext) W' Conc.c3StateR 19 Marwood.Lemmas.CompileCorrect3.Toy.demoSt
      Toy.demoStR' (.pair 2) s' :=
  Conc.demo_concrete_rest_runs ext

/-- **Stage 3 on the concrete heap model, internal definition**: the same for
    `((lambda (x) (define y (if x 1 2)) y) #t)` — the slot of `y` in the activation environment is `Undefined`
    because ENTER copied it from the closure environment CLOSURE built. -/
theorem demo_concrete_stage3_define_runs (ext : ExtOps) :
    ∃ W' s', Run3 (Conc.c3dD ext) W' Conc.c3StateD 11 Marwood.Lemmas.CompileCorrect3.Toy.demoSt
      Toy.demoStD' (.int 1) s' :=
  Conc.demo_concrete_define_runs ext

/-! ## 2. the error case of stage 3 -/

/-- **T01.3 stage 3, ERROR case, partial.** The statement of `compile_correct_stage2_error_partial` for the fragment
    `F3` (rest parameters, internal definitions, blocks of recursive definitions): if `Spec.Eval` ends the evaluation
    of `e` with an error of class `cl ≠ syntax` in state `σ'` — an unbound variable, a non-procedure in operator
    position, a closure called with the wrong number of arguments (fixed arity: ENTER fails; rest parameter with too
    few arguments: VARARG fails), a failing primitive — inside an expression of a body, inside the INITIALISER of an
    internal definition (nothing is stored into its variable), behind any number of completed definitions, at any
    depth of calls of closures with or without rest parameter, then the machine runs without failing to a state
    `sf` in which `run_one` returns an error of the matching class; the heap of `sf` represents `σ'`; the live stack
    of the start (in tail position: of the caller of the current activation) is intact below the frames of the
    calls in progress. ASSUMED besides `Laws3`: `ErrLaws3` (a failing first-order primitive is a generic builtin
    failing with the same class; a represented non-procedure value and a heap pair are `other` for the dispatch) —
    proved on the toy heap (`errLaws3_toy`), its dispatch part on the concrete heap (`errLaws3_concrete`). -/
theorem compile_correct_stage3_error_partial {H : Type} {ops : HeapOps H} {D : RepData2 ops} (L : Laws3 D)
    (LE : ErrLaws3 D) (f : Nat) (cst : CState) (c : Ctx) (base : Nat) (tail : Bool) (e : Datum) (cst' : CState)
    (code : List BC) (ρ : Env) (us : Text → Prop) (hf : F3 D.setG f c (bound ρ) us tail e) (hcx : CtxOK c)
    (hcomp : compileExpr f cst c base tail e = .ok (cst', code)) (hpre : cst'.lambdas <+: D.final)
    (n : Nat) (σ : Spec.Eval.St) (cl : Spec.Eval.ErrClass) (σ' : Spec.Eval.St)
    (hev : (evalN n).eval e ρ σ = .err cl σ') (hcs : cl ≠ .syntax) (W : World) (s : Vm.St H) (fr : Frame)
    (hc : CodeAt2 D c.envmap s.heap σ.store s.ipL base code) (hip : s.ipO = base) (hi : Inv3 D W s.heap σ)
    (her : EnvRep3 ops W s.heap c s.ep ρ us) (hw : SWF s.stack) (hfr : tail = true → FrameAt s.stack s.bp fr) :
    ∃ W' sf e', W.le W' ∧ ErrRun3 D W' s (errBase tail s fr) σ σ' cl sf e' :=
  compileExpr_correct3_err L LE f cst c base tail e cst' code ρ us hf hcx hcomp hpre n σ cl σ' hev hcs W s fr hc hip hi
    her hw hfr

/-- the failing call of a stage-3 closure (any formals), from the state `CALL`/`TCALL` leaves: the arity errors of
    `bindArgs` (ENTER / VARARG fail with `InvalidNumArgs`) and every error inside the body -/
theorem closure_call_stage3_error_partial {H : Type} {ops : HeapOps H} {D : RepData2 ops} (L : Laws3 D)
    (LE : ErrLaws3 D) (n : Nat) : CallErr3 D n :=
  closureCall_correct3_err L LE n

/-- `ErrLaws3` is satisfiable: a theorem on the toy heap -/
theorem errLaws3_toy (final : List LambdaM) : ErrLaws3 (Toy.tD3 final) := Toy.errLaws3_toy final

/-- `ErrLaws3` on the concrete heap model: the dispatch part is a theorem, the failing builtins (`call_err`) are the
    hypothesis -/
theorem errLaws3_concrete {ext : ExtOps} {E : AtomEnc} {named : Text → Prop} {slot : Text → Nat} {LM : Nat → Nat}
    {final : List LambdaM} {setG : Text → Prop}
    (hcall : ∀ n W h (σ : Spec.Eval.St) vf p vs ws c (σ' : Spec.Eval.St),
      Inv3 (Conc.cD3 ext E named slot LM final setG) W h σ →
      (Conc.cD3 ext E named slot LM final setG).VR h σ.store vf (.prim p) →
      All2 (VR3 (Conc.cD3 ext E named slot LM final setG) W h σ.store) vs ws →
      (evalN n).apply (.prim p) ws σ = .err c σ' → c ≠ .syntax →
      ∃ id e', (concreteOps ext).callee h vf = .builtin id ∧ (concreteOps ext).builtinKind h id = .generic ∧
        builtinResult (concreteOps ext) h id vs.reverse = .err e' ∧ machClass e' = specClass c ∧
        Inv3 (Conc.cD3 ext E named slot LM final setG) W h σ' ∧
        Ext3 (Conc.cD3 ext E named slot LM final setG) h σ.store h σ'.store) :
    ErrLaws3 (Conc.cD3 ext E named slot LM final setG) :=
  Conc.concrete_errLaws3 hcall

/-- **Non-vacuity of the error case**: `((lambda (x) (define y (x)) y) #t)` — calling `#t` fails with
    `InvalidProcedure` inside the initialiser of the internal definition of `y`, in the activation of the closure;
    every hypothesis of `compile_correct_stage3_error_partial` discharged on the toy heap; in the failure state of
    the specification the variable of `y` still holds `#<undefined>` (nothing was stored). -/
theorem demo_stage3_define_init_fails :
    ∃ W' sf e', ErrRun3 Toy.demoDE W' Toy.demoStateE Toy.demoStateE.stack Marwood.Lemmas.CompileCorrect3.Toy.demoSt
      Toy.demoStE' .notProcedure sf e' ∧
      e' = .invalidProcedure :=
  Toy.demo_define_init_fails

/-! ## 3. recursion through internal definitions -/

/-- the extended fragment (it IS `F3`: the constructors `F3B.block`, `F3K.defl`, `F3K.defc`, `F3K.done` were added
    to the mutual definition in `Lemmas/CompileCorrect3Defs.lean`) -/
abbrev F3R := @F3
/-- bodies of the extended fragment -/
abbrev F3RB := @F3B
/-- the inside of a block of `lambda`-initialised definitions -/
abbrev F3RK := @F3K

/-- the introduction rule for a block: `Bs` are the names the block defines, in order (`todo` = all of them at the
    start); the rest of the body follows the last definition (`F3K.done`) and may read the names of the block -/
theorem stage3_rec_block_intro {G : Text → Prop} {f : Nat} {c : Ctx} {ns us : Text → Prop} {Bs ints : List Text}
    {body : Datum} (hne : Bs ≠ []) (hK : F3RK G f c ns us Bs Bs ints body) : F3RB G f c ns us ints body :=
  F3B.block Bs ints body hne hK

/-- **T01.3 stage 3 with recursion through internal definitions, partial.** The statement of
    `compile_correct_stage3_partial` for the fragment `F3R` = `F3` + blocks of `lambda`-initialised internal
    definitions whose lambda bodies mention any name of the block (self recursion, mutual recursion): if
    `Spec.Eval` evaluates `e` to `w`, `σ'`, the machine runs to a state that represents `(w, σ')` (`Run3`), or, after a
    tail call of a closure, to the state the `RET` of the current activation would have left (`Ret3`). -/
theorem compile_correct_stage3_rec_partial {H : Type} {ops : HeapOps H} {D : RepData2 ops} (L : Laws3 D)
    (f : Nat) (cst : CState) (c : Ctx) (base : Nat) (tail : Bool) (e : Datum) (cst' : CState) (code : List BC)
    (ρ : Env) (us : Text → Prop) (hf : F3R D.setG f c (bound ρ) us tail e) (hcx : CtxOK c)
    (hcomp : compileExpr f cst c base tail e = .ok (cst', code)) (hpre : cst'.lambdas <+: D.final)
    (n : Nat) (σ : Spec.Eval.St) (w : Val) (σ' : Spec.Eval.St) (hev : (evalN n).eval e ρ σ = .ok w σ')
    (W : World) (s : Vm.St H) (fr : Frame) (hc : CodeAt2 D c.envmap s.heap σ.store s.ipL base code)
    (hip : s.ipO = base) (hi : Inv3 D W s.heap σ) (her : EnvRep3 ops W s.heap c s.ep ρ us) (hw : SWF s.stack)
    (hfr : tail = true → FrameAt s.stack s.bp fr) :
    ∃ W' s', W.le W' ∧ Out3 D W' s code.length σ σ' w tail fr s' :=
  compileExpr_correct3 L f cst c base tail e cst' code ρ us hf hcx hcomp hpre n σ w σ' hev W s fr hc hip hi her hw hfr

/-- **A block of mutually recursive internal definitions runs as a unit.** In an activation whose environment
    represents `ρ` (`EnvRep3 … us`: the names of the block are not readable yet) the code of
    `(define g₁ (lambda …)) … (define gₘ (lambda …))` / `(define (gᵢ . formals) …)` — for each: `MOV-IMMEDIATE <lambda>
    %acc; CLOSURE; MOV %acc <slot gᵢ>; MOV-IMMEDIATE void %acc` — runs to a state that represents the specification
    state after the `m` definitions (`Run3 … σ σ₁ void`), in which the names of the block ARE readable
    (`EnvRep3 … (us minus Bs)`); compilation and evaluation of the rest of the body continue from there. No premise
    about the order in which the lambda bodies mention the names of the block. -/
theorem body_stage3_rec_block_partial {H : Type} {ops : HeapOps H} {D : RepData2 ops} (L : Laws3 D) {n : Nat}
    {f : Nat} {cst cst' : CState} {c : Ctx} {base : Nat} {bodyD : Datum} {code : List BC} {ρ : Env}
    {us : Text → Prop} {ints Bs : List Text} {body : List Datum}
    (hne : Bs ≠ []) (hK : F3RK D.setG f c (bound ρ) us Bs Bs ints bodyD) (hcx : CtxOK c)
    (hcomp : compileBody f cst c base bodyD = .ok (cst', code)) (hpre : cst'.lambdas <+: D.final)
    (hpl : properList bodyD = some body) {σ σ' : Spec.Eval.St} {w : Val}
    (hev : Spec.Eval.evalBodyForms (evalN n) ρ true body σ = .ok w σ')
    {W : World} {s : Vm.St H} (hc : CodeAt2 D c.envmap s.heap σ.store s.ipL base code) (hip : s.ipO = base)
    (hi : Inv3 D W s.heap σ) (her : EnvRep3 ops W s.heap c s.ep ρ us) (hw : SWF s.stack) :
    ∃ (s1 : Vm.St H) (σ1 : Spec.Eval.St) (f1 : Nat) (cst1 : CState) (restD : Datum) (rest : List Datum)
      (code1 code2 : List BC) (ints1 : List Text),
      Run3 D W s code1.length σ σ1 .void s1 ∧ EnvRep3 ops W s1.heap c s1.ep ρ (fun z => us z ∧ z ∉ Bs) ∧
      code = code1 ++ code2 ∧ compileBody f1 cst1 c (base + code1.length) restD = .ok (cst', code2) ∧
      F3RB D.setG f1 c (bound ρ) (fun z => us z ∧ z ∉ Bs) ints1 restD ∧ properList restD = some rest ∧
      rest.length < body.length ∧ Spec.Eval.evalBodyForms (evalN n) ρ true rest σ1 = .ok w σ' :=
  block3_ok L hne hK hcx hcomp hpre hpl hev hc hip hi her hw

/-- **Non-vacuity, SELF recursion** (`(define (f . formals) body)` form): every hypothesis of the main theorem
    discharged on the toy heap for `((lambda (n) (define (loop i) (if i (loop #f) 7)) (loop n)) #t)` — `loop #t` calls
    `loop #f`, which returns `7`; the closure of `loop` has captured the location of `loop` itself. (Real VM: `7`.) -/
theorem demo_stage3_selfrec_runs :
    ∃ W' s', Run3 Toy.demoDS W' Toy.demoStateS 11 Marwood.Lemmas.CompileCorrect3.Toy.demoSt
      Toy.demoStS' (.int 7) s' ∧
      Toy.tDeref s'.heap s'.acc = .opaque "n7" :=
  Toy.demo_selfrec_acc

/-- **Non-vacuity, MUTUAL recursion** (`(define x (lambda …))` form; the first lambda mentions a name defined LATER):
    `((lambda (b) (define ev (lambda (x) (if x (od #f) 1))) (define od (lambda (x) (if x (ev #f) 2))) (ev b)) #t)` —
    `ev #t` calls `od #f`, which returns `2`. (Real VM: `2`.) -/
theorem demo_stage3_mutrec_runs :
    ∃ W' s', Run3 Toy.demoDM W' Toy.demoStateM 11 Marwood.Lemmas.CompileCorrect3.Toy.demoSt
      Toy.demoStM' (.int 2) s' ∧
      Toy.tDeref s'.heap s'.acc = .opaque "n2" :=
  Toy.demo_mutrec_acc

end Marwood.Proofs.C01
