import Marwood.Vm.ListExt
import Marwood.Lemmas.ListExtCode
import Marwood.Lemmas.NoPanicDefs
/-!
# `ExtNoPanic (listExtWith eqTag)`: the real builtins never panic and create neither continuation nor lambda cells

`ExtNoPanic` (Lemmas/NoPanicDefs.lean) is what T06.6 on the concrete machine asks of the unmodelled operations. For
the table of `Vm/ListExt.lean` it holds WITHOUT the premises the law offers (`HG h`, allocated value arguments):

* `builtinEval_np` — no builtin of the table has a panic site: `car` / `cdr` / `set-car!` / `set-cdr!` dispatch on the
  dereferenced cell (a missing cell reads as `Undefined` and fails with an error), `cons` allocates (`heap.put` grows
  the heap when the free list is empty), the predicates and `eq?` / `eqv?` only read (`evalPrim_np`);
* `builtinEval_cont`, `builtinEval_lam` — the heap a builtin returns is reached by `heap.put`s and overwrites with `val`
  cells (`Eff` of Lemmas/ListExtCode.lean): a clause about continuation cells or lambda cells that held of every cell
  before holds of every cell after (`Eff.all`);
* `eval`'s compiler and VPUSH's push fail in `listExtWith`, as in `failingExt`.
-/
namespace Marwood.Lemmas.Good
open Marwood Marwood.Vm Marwood.Vm.Verify Marwood.Vm.Concrete Marwood.Vm.Concrete.ListExt Marwood.Lemmas.Sim

/-! ## no panic site -/

section
variable (eqTag : String → String → Bool)

theorem evalCar_np (first : Bool) (h : CHeap) (x : VCell) : Outcome.NoPanic (evalCar first h x) := by
  intro m e
  unfold evalCar at e
  split at e <;> cases e

theorem evalCons_np (h : CHeap) (d a : VCell) : Outcome.NoPanic (evalCons h d a) := by
  simp only [evalCons]
  refine pin_bind (asPtr_np _) (fun dp _ => ?_)
  refine pin_bind (asPtr_np _) (fun ap _ => ?_)
  exact pin_ok _

theorem evalSetPair_np (first : Bool) (h : CHeap) (obj pair : VCell) :
    Outcome.NoPanic (evalSetPair first h obj pair) := by
  simp only [evalSetPair]
  split
  · refine pin_bind (asPtr_np _) (fun o _ => ?_)
    refine pin_bind (asPtr_np _) (fun p _ => ?_)
    exact pin_ok _
  · exact pin_err _

/-- **no builtin of the table panics, on any heap and any argument list** -/
theorem evalPrim_np (p : Prim) (h : CHeap) (args : List VCell) : Outcome.NoPanic (evalPrim eqTag p h args) := by
  match args with
  | [] => cases p <;> exact pin_err _
  | [x] =>
    cases p with
    | car => exact evalCar_np true h x
    | cdr => exact evalCar_np false h x
    | pred q => exact pin_ok _
    | _ => exact pin_err _
  | [x, y] =>
    cases p with
    | cons => exact evalCons_np h x y
    | setCar => exact evalSetPair_np true h x y
    | setCdr => exact evalSetPair_np false h x y
    | eq => exact pin_ok _
    | _ => exact pin_err _
  | _ :: _ :: _ :: _ => cases p <;> exact pin_err _

theorem builtinEval_np (h : CHeap) (id : Nat) (args : List VCell) :
    Outcome.NoPanic ((listExtWith eqTag).builtinEval h id args) := by
  show Outcome.NoPanic (ListExt.builtinEval eqTag h id args)
  unfold ListExt.builtinEval
  cases primOf id with
  | none => exact pin_err _
  | some p => exact evalPrim_np eqTag p h args

end

/-! ## cell clauses that do not constrain `val` cells are kept -/

theorem Eff.all {Q : CCell → Prop} (q : QFree Q) {h h' : CHeap} (e : Eff h h') (a : AllCells Q h) :
    AllCells Q h' := by
  induction e with
  | refl h => exact a
  | put v _ ih => exact ih (putV_all q a v)
  | write p w _ _ ih => exact ih (cwrite_all a p (q.val w))

/-- **`ExtNoPanic` for the table of real builtins** -/
theorem listExtWith_noPanic (eqTag : String → String → Bool) : ExtNoPanic (listExtWith eqTag) where
  builtinEval_np := fun h id args _ _ => builtinEval_np eqTag h id args
  compileEval_np := fun _ _ _ _ => pin_err _
  vectorPush_np := fun _ _ _ _ _ _ => pin_err _
  builtinEval_cont := fun n he a => Eff.all (contQ_free n) (builtinEval_eff eqTag he) a
  compileEval_cont := fun _ h => (by cases h)
  vectorPush_cont := fun _ h => (by cases h)
  builtinEval_lam := fun he a => Eff.all lamQ_free (builtinEval_eff eqTag he) a
  compileEval_lam := fun h => (by cases h)
  vectorPush_lam := fun h => (by cases h)

theorem listExt_noPanic : ExtNoPanic listExt := listExtWith_noPanic _

end Marwood.Lemmas.Good
