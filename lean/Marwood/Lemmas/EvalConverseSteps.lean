import Marwood.Lemmas.EvalConverse
/-! Converse simulation (`SimR`): mirror of `EvalExtraSteps.lean` (see `EvalConverse.lean`). -/
namespace Marwood.Spec.Eval.Conv
open Marwood Marwood.Spec.Eval Marwood.Spec.Eval.Extra

variable {f : LMap}

/-- what one level of evaluation may assume about the levels below -/
structure RecSimR (f : LMap) (r r' : Rec) : Prop where
  eval : ∀ e ρ ρ' B, EnvRel f B ρ ρ' → CleanB B e → SimR f (VRel f) (r.eval e ρ) (r'.eval e ρ')
  apply : ∀ g g' args args', VRel f g g' → VsRel f args args' → SimR f (VRel f) (r.apply g args) (r'.apply g' args')

variable {r r' : Rec} {B : List Text} {ρ ρ' : Env}

theorem simR_evalArgs (hr : RecSimR f r r') (he : EnvRel f B ρ ρ') : ∀ es, CleanBs B es →
    SimR f (VsRel f) (evalArgs r ρ es) (evalArgs r' ρ' es)
  | [], _ => SimR.pure _ _ .nil
  | e :: es, h => by
    rw [cleanBs_cons] at h
    simp only [evalArgs]
    refine SimR.bind (hr.eval e ρ ρ' B he h.1) (fun v v' hv => ?_)
    refine SimR.bind (simR_evalArgs hr he es h.2) (fun vs vs' hvs => ?_)
    exact SimR.pure _ _ (.cons hv hvs)

theorem simR_evalExprs (hr : RecSimR f r r') (he : EnvRel f B ρ ρ') : ∀ es, CleanBs B es →
    SimR f (VRel f) (evalExprs r ρ es) (evalExprs r' ρ' es)
  | [], _ => SimR.throw _
  | [e], h => by rw [cleanBs_cons] at h; simpa [evalExprs] using hr.eval e ρ ρ' B he h.1
  | e :: e' :: es, h => by
    rw [cleanBs_cons] at h
    simp only [evalExprs]
    refine SimR.bind (hr.eval e ρ ρ' B he h.1) (fun _ _ _ => ?_)
    exact simR_evalExprs hr he (e' :: es) h.2

theorem simR_evalAnd (hr : RecSimR f r r') (he : EnvRel f B ρ ρ') : ∀ es, CleanBs B es →
    SimR f (VRel f) (evalAnd r ρ es) (evalAnd r' ρ' es)
  | [], _ => SimR.pure _ _ (.bool true)
  | [e], h => by rw [cleanBs_cons] at h; simpa [evalAnd] using hr.eval e ρ ρ' B he h.1
  | e :: e' :: es, h => by
    rw [cleanBs_cons] at h
    simp only [evalAnd]
    refine SimR.bind (hr.eval e ρ ρ' B he h.1) (fun v v' hv => ?_)
    rw [hv.truthy]
    split
    · exact simR_evalAnd hr he (e' :: es) h.2
    · exact SimR.pure _ _ hv

theorem simR_evalOr (hr : RecSimR f r r') (he : EnvRel f B ρ ρ') : ∀ es, CleanBs B es →
    SimR f (VRel f) (evalOr r ρ es) (evalOr r' ρ' es)
  | [], _ => SimR.pure _ _ (.bool false)
  | [e], h => by rw [cleanBs_cons] at h; simpa [evalOr] using hr.eval e ρ ρ' B he h.1
  | e :: e' :: es, h => by
    rw [cleanBs_cons] at h
    simp only [evalOr]
    refine SimR.bind (hr.eval e ρ ρ' B he h.1) (fun v v' hv => ?_)
    rw [hv.truthy]
    split
    · exact SimR.pure _ _ hv
    · exact simR_evalOr hr he (e' :: es) h.2

theorem simR_readVar {l l' : Loc} (hl : f l = l') : SimR f (VRel f) (readVar l) (readVar l') := by
  unfold readVar
  refine SimR.bind (simR_readCell hl) (fun c c' hc => ?_)
  cases hc with
  | var hv => exact SimR.pure _ _ hv
  | _ => exact SimR.throw _

theorem simR_readPair {v v' : Val} (hv : VRel f v v') :
    SimR f (fun p p' => VRel f p.1 p'.1 ∧ VRel f p.2 p'.2) (readPair v) (readPair v') := by
  cases hv with
  | pair l =>
    unfold readPair
    refine SimR.bind (simR_readCell rfl) (fun c c' hc => ?_)
    cases hc with
    | pair ha hd => exact SimR.pure _ _ ⟨ha, hd⟩
    | _ => exact SimR.throw _
  | _ => exact SimR.throw _

theorem simR_readVec {v v' : Val} (hv : VRel f v v') :
    SimR f (fun p p' => f p.1 = p'.1 ∧ VsRel f p.2 p'.2) (readVec v) (readVec v') := by
  cases hv with
  | vec l =>
    unfold readVec
    refine SimR.bind (simR_readCell rfl) (fun c c' hc => ?_)
    cases hc with
    | vec hx => exact SimR.pure _ _ ⟨rfl, hx⟩
    | _ => exact SimR.throw _
  | _ => exact SimR.throw _

theorem simR_cons {a a' d d' : Val} (ha : VRel f a a') (hd : VRel f d d') : SimR f (VRel f) (cons a d) (cons a' d') := by
  unfold cons
  refine SimR.bind (simR_allocCell (.pair ha hd)) (fun l l' hl => ?_)
  subst hl
  exact SimR.pure _ _ (.pair l)

theorem simR_allocVec {xs xs' : List Val} (h : VsRel f xs xs') : SimR f (VRel f) (allocVec xs) (allocVec xs') := by
  unfold allocVec
  refine SimR.bind (simR_allocCell (.vec h)) (fun l l' hl => ?_)
  subst hl
  exact SimR.pure _ _ (.vec l)

theorem simR_allocListTail {vs vs' : List Val} (h : VsRel f vs vs') {t t' : Val} (ht : VRel f t t') :
    SimR f (VRel f) (allocListTail vs t) (allocListTail vs' t') := by
  induction h with
  | nil => exact SimR.pure _ _ ht
  | cons hv _ ih =>
    simp only [allocListTail]
    exact SimR.bind ih (fun r r' hr => simR_cons hv hr)

theorem simR_allocList {vs vs' : List Val} (h : VsRel f vs vs') : SimR f (VRel f) (allocList vs) (allocList vs') := by
  induction h with
  | nil => exact SimR.pure _ _ .nil
  | cons hv _ ih =>
    simp only [allocList]
    exact SimR.bind ih (fun r r' hr => simR_cons hv hr)

theorem simR_quote : ∀ (d : Datum), SimR f (VRel f) (quoteVal d) (quoteVal d) ∧ SimR f (VsRel f) (quoteElems d) (quoteElems d) := by
  intro d
  induction d with
  | bool b => exact ⟨SimR.pure _ _ (.bool b), SimR.pure _ _ .nil⟩
  | char c => exact ⟨SimR.pure _ _ (.char c), SimR.pure _ _ .nil⟩
  | nil => exact ⟨SimR.pure _ _ .nil, SimR.pure _ _ .nil⟩
  | num n =>
    refine ⟨?_, SimR.pure _ _ .nil⟩
    simp only [quoteVal]
    cases intOfNum n with
    | none => exact SimR.throw _
    | some i => exact SimR.pure _ _ (.int i)
  | str s => exact ⟨SimR.pure _ _ (.str s), SimR.pure _ _ .nil⟩
  | sym s => exact ⟨SimR.pure _ _ (.sym s), SimR.pure _ _ .nil⟩
  | pair a d iha ihd =>
    refine ⟨?_, ?_⟩
    · simp only [quoteVal]
      refine SimR.bind iha.1 (fun a' a'' ha => ?_)
      refine SimR.bind ihd.1 (fun d' d'' hd => ?_)
      exact simR_cons ha hd
    · simp only [quoteElems]
      refine SimR.bind iha.1 (fun a' a'' ha => ?_)
      refine SimR.bind ihd.2 (fun d' d'' hd => ?_)
      exact SimR.pure _ _ (.cons ha hd)
  | vec e ih =>
    refine ⟨?_, SimR.pure _ _ .nil⟩
    simp only [quoteVal]
    exact SimR.bind ih.2 (fun xs xs' hx => simR_allocVec hx)
  | continuation => exact ⟨SimR.throw _, SimR.pure _ _ .nil⟩
  | macro_ => exact ⟨SimR.throw _, SimR.pure _ _ .nil⟩
  | procedure d => exact ⟨SimR.throw _, SimR.pure _ _ .nil⟩
  | undefined => exact ⟨SimR.pure _ _ .undef, SimR.pure _ _ .nil⟩
  | void => exact ⟨SimR.pure _ _ .void, SimR.pure _ _ .nil⟩

theorem simR_quoteVal (d : Datum) : SimR f (VRel f) (quoteVal d) (quoteVal d) := (simR_quote d).1

end Marwood.Spec.Eval.Conv
