import Marwood.Heap.Worklist
import Marwood.Spec.Reach
/-!
# The worklist marker computes exactly the reachable set (generic part of T03.1)

For any array of node states, any "is marked" test `isM`, any marked value `m` with `isM m`, any
child function: if `markLoop` returns, the marked nodes of the result are the previously marked
ones plus everything reachable from the worklist (soundness), all of those are marked and the
marked set is closed under children provided the start was (completeness), every other entry is
untouched (frame), and fuel `|work| + Σ_{unmarked x} |children x|` always suffices (adequacy).
-/
namespace Marwood.Lemmas.GcMark
open Marwood.Heap Marwood.Spec

variable {α : Type} (isM : α → Bool) (m : α) (children : Nat → List Nat)

/-- node `x` exists and is marked -/
def Marked (a : Array α) (x : Nat) : Prop := ∃ s, a[x]? = some s ∧ isM s = true

theorem reach_mono {n : Nat} {r₁ r₂ : List Nat}
    (h : ∀ x ∈ r₁, x < n → Reach children n r₂ x) :
    ∀ {x}, Reach children n r₁ x → Reach children n r₂ x := by
  intro x hx
  induction hx with
  | root hm hl => exact h _ hm hl
  | step _ hc hl ih => exact Reach.step ih hc hl

theorem reach_lt {n : Nat} {r : List Nat} {x : Nat} (h : Reach children n r x) : x < n := by
  cases h with
  | root _ hl => exact hl
  | step _ _ hl => exact hl

theorem markLoop_size : ∀ (f : Nat) (w : List Nat) (a r : Array α),
    markLoop isM m children f w a = some r → r.size = a.size := by
  intro f
  induction f with
  | zero =>
    intro w a r h
    cases w with
    | nil => simp [markLoop] at h; subst h; rfl
    | cons x w => simp [markLoop] at h
  | succ f ih =>
    intro w a r h
    cases w with
    | nil => simp [markLoop] at h; subst h; rfl
    | cons x w =>
      simp only [markLoop] at h
      split at h
      · exact ih _ _ _ h
      · split at h
        · exact ih _ _ _ h
        · rw [ih _ _ _ h, Array.size_setIfInBounds]

/-- frame: an entry is either unchanged, or it was an unmarked in-range node and now holds `m` -/
theorem markLoop_frame : ∀ (f : Nat) (w : List Nat) (a r : Array α),
    markLoop isM m children f w a = some r →
    ∀ x, r[x]? = a[x]? ∨ (r[x]? = some m ∧ ¬ Marked isM a x ∧ x < a.size) := by
  intro f
  induction f with
  | zero =>
    intro w a r h x
    cases w with
    | nil => simp [markLoop] at h; subst h; exact Or.inl rfl
    | cons y w => simp [markLoop] at h
  | succ f ih =>
    intro w a r h x
    cases w with
    | nil => simp [markLoop] at h; subst h; exact Or.inl rfl
    | cons y w =>
      simp only [markLoop] at h
      split at h
      · exact ih _ _ _ h x
      · rename_i s hs
        split at h
        · exact ih _ _ _ h x
        · rename_i hns
          have hy : y < a.size := by
            rcases Array.getElem?_eq_some_iff.mp hs with ⟨hlt, _⟩; exact hlt
          rcases ih _ _ _ h x with h1 | ⟨h1, h2, h3⟩
          · by_cases hxy : y = x
            · subst hxy
              right
              refine ⟨?_, ?_, hy⟩
              · rw [h1, Array.getElem?_setIfInBounds_self]; simp [hy]
              · rintro ⟨s', hs', hm'⟩
                rw [hs] at hs'; cases hs'; exact hns hm'
            · left; rw [h1, Array.getElem?_setIfInBounds_ne hxy]
          · by_cases hxy : y = x
            · subst hxy
              right
              refine ⟨h1, ?_, hy⟩
              rintro ⟨s', hs', hm'⟩
              rw [hs] at hs'; cases hs'; exact hns hm'
            · right
              refine ⟨h1, ?_, by simpa [Array.size_setIfInBounds] using h3⟩
              intro hc
              apply h2
              rcases hc with ⟨s', hs', hm'⟩
              exact ⟨s', by rw [Array.getElem?_setIfInBounds_ne hxy]; exact hs', hm'⟩

variable (hm : isM m = true)
include hm

theorem marked_set_self {a : Array α} {x : Nat} (hx : x < a.size) :
    Marked isM (a.setIfInBounds x m) x :=
  ⟨m, by rw [Array.getElem?_setIfInBounds_self]; simp [hx], hm⟩

theorem marked_set_of_marked {a : Array α} {x y : Nat} (h : Marked isM a y) :
    Marked isM (a.setIfInBounds x m) y := by
  by_cases hxy : x = y
  · subst hxy
    rcases h with ⟨s, hs, _⟩
    have : x < a.size := by
      rcases Array.getElem?_eq_some_iff.mp hs with ⟨hlt, _⟩; exact hlt
    exact marked_set_self isM m hm this
  · rcases h with ⟨s, hs, hms⟩
    exact ⟨s, by rw [Array.getElem?_setIfInBounds_ne hxy]; exact hs, hms⟩

omit hm in
theorem marked_set_inv {a : Array α} {x y : Nat} (h : Marked isM (a.setIfInBounds x m) y) :
    y = x ∨ Marked isM a y := by
  by_cases hxy : x = y
  · exact Or.inl hxy.symm
  · right
    rcases h with ⟨s, hs, hms⟩
    exact ⟨s, by rw [Array.getElem?_setIfInBounds_ne hxy] at hs; exact hs, hms⟩

omit hm in
/-- soundness: everything marked in the result was already marked or is reachable from the worklist -/
theorem markLoop_sound : ∀ (f : Nat) (w : List Nat) (a r : Array α),
    markLoop isM m children f w a = some r →
    ∀ x, Marked isM r x → Marked isM a x ∨ Reach children a.size w x := by
  intro f
  induction f with
  | zero =>
    intro w a r h x hx
    cases w with
    | nil => simp [markLoop] at h; subst h; exact Or.inl hx
    | cons y w => simp [markLoop] at h
  | succ f ih =>
    intro w a r h x hx
    cases w with
    | nil => simp [markLoop] at h; subst h; exact Or.inl hx
    | cons y w =>
      simp only [markLoop] at h
      have weaken : Reach children a.size w x → Reach children a.size (y :: w) x :=
        reach_mono children (fun z hz hl => Reach.root (List.mem_cons_of_mem _ hz) hl)
      split at h
      · rcases ih _ _ _ h x hx with h1 | h1
        · exact Or.inl h1
        · exact Or.inr (weaken h1)
      · rename_i s hs
        split at h
        · rcases ih _ _ _ h x hx with h1 | h1
          · exact Or.inl h1
          · exact Or.inr (weaken h1)
        · have hy : y < a.size := by
            rcases Array.getElem?_eq_some_iff.mp hs with ⟨hlt, _⟩; exact hlt
          rcases ih _ _ _ h x hx with h1 | h1
          · rcases marked_set_inv isM m h1 with h2 | h2
            · subst h2; exact Or.inr (Reach.root List.mem_cons_self hy)
            · exact Or.inl h2
          · rw [Array.size_setIfInBounds] at h1
            refine Or.inr (reach_mono children ?_ h1)
            intro z hz hl
            rcases List.mem_append.mp hz with h3 | h3
            · exact Reach.step (Reach.root List.mem_cons_self hy) h3 hl
            · exact Reach.root (List.mem_cons_of_mem _ h3) hl

/-- every in-range child of a marked node is marked or waiting on the worklist -/
def ClosedIn (w : List Nat) (a : Array α) : Prop :=
  ∀ x, Marked isM a x → ∀ y ∈ children x, y < a.size → Marked isM a y ∨ y ∈ w

/-- completeness -/
theorem markLoop_complete : ∀ (f : Nat) (w : List Nat) (a r : Array α),
    markLoop isM m children f w a = some r → ClosedIn isM children w a →
    (∀ x, Marked isM a x → Marked isM r x) ∧ (∀ x ∈ w, x < a.size → Marked isM r x) ∧
      ClosedIn isM children [] r := by
  intro f
  induction f with
  | zero =>
    intro w a r h hinv
    cases w with
    | nil =>
      simp [markLoop] at h; subst h
      exact ⟨fun _ h => h, by simp, hinv⟩
    | cons y w => simp [markLoop] at h
  | succ f ih =>
    intro w a r h hinv
    cases w with
    | nil =>
      simp [markLoop] at h; subst h
      exact ⟨fun _ h => h, by simp, hinv⟩
    | cons y w =>
      simp only [markLoop] at h
      split at h
      · -- y out of range
        rename_i hnone
        have hge : a.size ≤ y := by
          rcases Nat.lt_or_ge y a.size with hlt | hge
          · rw [Array.getElem?_eq_getElem hlt] at hnone; cases hnone
          · exact hge
        have hinv' : ClosedIn isM children w a := by
          intro x hx z hz hl
          rcases hinv x hx z hz hl with h1 | h1
          · exact Or.inl h1
          · rcases List.mem_cons.mp h1 with h2 | h2
            · subst h2; omega
            · exact Or.inr h2
        obtain ⟨h1, h2, h3⟩ := ih _ _ _ h hinv'
        refine ⟨h1, ?_, h3⟩
        intro x hx hl
        rcases List.mem_cons.mp hx with h4 | h4
        · subst h4; omega
        · exact h2 x h4 hl
      · rename_i s hs
        split at h
        · -- y already marked
          rename_i hms
          have hym : Marked isM a y := ⟨s, hs, hms⟩
          have hinv' : ClosedIn isM children w a := by
            intro x hx z hz hl
            rcases hinv x hx z hz hl with h1 | h1
            · exact Or.inl h1
            · rcases List.mem_cons.mp h1 with h2 | h2
              · subst h2; exact Or.inl hym
              · exact Or.inr h2
          obtain ⟨h1, h2, h3⟩ := ih _ _ _ h hinv'
          refine ⟨h1, ?_, h3⟩
          intro x hx hl
          rcases List.mem_cons.mp hx with h4 | h4
          · subst h4; exact h1 _ hym
          · exact h2 x h4 hl
        · -- y newly marked
          have hy : y < a.size := by
            rcases Array.getElem?_eq_some_iff.mp hs with ⟨hlt, _⟩; exact hlt
          have hinv' : ClosedIn isM children (children y ++ w) (a.setIfInBounds y m) := by
            intro x hx z hz hl
            rw [Array.size_setIfInBounds] at hl
            rcases marked_set_inv isM m hx with h1 | h1
            · subst h1; exact Or.inr (List.mem_append.mpr (Or.inl hz))
            · rcases hinv x h1 z hz hl with h2 | h2
              · exact Or.inl (marked_set_of_marked isM m hm h2)
              · rcases List.mem_cons.mp h2 with h3 | h3
                · subst h3; exact Or.inl (marked_set_self isM m hm hy)
                · exact Or.inr (List.mem_append.mpr (Or.inr h3))
          obtain ⟨h1, h2, h3⟩ := ih _ _ _ h hinv'
          refine ⟨fun x hx => h1 x (marked_set_of_marked isM m hm hx), ?_, h3⟩
          intro x hx hl
          rcases List.mem_cons.mp hx with h4 | h4
          · subst h4; exact h1 _ (marked_set_self isM m hm hy)
          · exact h2 x (List.mem_append.mpr (Or.inr h4)) (by rw [Array.size_setIfInBounds]; exact hl)

/-- **marking = reachability**: started with nothing marked, the marked set of the result is exactly
the set reachable from the worklist -/
theorem markLoop_exact (f : Nat) (w : List Nat) (a r : Array α)
    (h : markLoop isM m children f w a = some r) (h0 : ∀ x, ¬ Marked isM a x) :
    ∀ x, Marked isM r x ↔ Reach children a.size w x := by
  intro x
  constructor
  · intro hx
    rcases markLoop_sound isM m children f w a r h x hx with h1 | h1
    · exact absurd h1 (h0 x)
    · exact h1
  · intro hx
    obtain ⟨_, h2, h3⟩ := markLoop_complete isM m children hm f w a r h
      (by intro x hx; exact absurd hx (h0 x))
    have hsz := markLoop_size isM m children f w a r h
    induction hx with
    | root hmem hl => exact h2 _ hmem hl
    | step _ hc hl ih =>
      rcases h3 _ ih _ hc (by rw [hsz]; exact hl) with h4 | h4
      · exact h4
      · simp at h4

omit hm

/-! ## fuel adequacy -/

/-- number of references leaving unmarked in-range nodes -/
def weight (a : Array α) : Nat :=
  ((List.range a.size).map fun x =>
    match a[x]? with
    | some s => if isM s then 0 else (children x).length
    | none => 0).sum

theorem sum_map_range_update (n : Nat) (f g : Nat → Nat) (x : Nat) (hx : x < n)
    (hfg : ∀ y, y ≠ x → g y = f y) :
    ((List.range n).map g).sum + f x = ((List.range n).map f).sum + g x := by
  induction n with
  | zero => omega
  | succ n ih =>
    rw [List.range_succ]
    simp only [List.map_append, List.sum_append, List.map_cons, List.map_nil, List.sum_cons,
      List.sum_nil, Nat.add_zero]
    by_cases hxn : x = n
    · subst hxn
      have : (List.range x).map g = (List.range x).map f := by
        apply List.map_congr_left
        intro y hy
        exact hfg y (by have := List.mem_range.mp hy; omega)
      rw [this]; omega
    · have := ih (by omega)
      have h2 := hfg n (by omega)
      omega

theorem weight_set (a : Array α) (x : Nat) (s : α) (hs : a[x]? = some s) (hns : ¬ isM s = true)
    (hm : isM m = true) :
    weight isM children (a.setIfInBounds x m) + (children x).length = weight isM children a := by
  have hx : x < a.size := by
    rcases Array.getElem?_eq_some_iff.mp hs with ⟨hlt, _⟩; exact hlt
  unfold weight
  rw [Array.size_setIfInBounds]
  have := sum_map_range_update a.size
    (fun y => match a[y]? with
      | some s => if isM s then 0 else (children y).length
      | none => 0)
    (fun y => match (a.setIfInBounds x m)[y]? with
      | some s => if isM s then 0 else (children y).length
      | none => 0) x hx
    (by intro y hy; show (match (a.setIfInBounds x m)[y]? with | some s => if isM s then 0 else (children y).length | none => 0) = _; rw [Array.getElem?_setIfInBounds_ne (Ne.symm hy)])
  rw [hs, Array.getElem?_setIfInBounds_self] at this
  simp [hx, hm, hns] at this
  omega

/-- fuel `|work| + weight` always suffices -/
theorem markLoop_fuel (hm : isM m = true) : ∀ (f : Nat) (w : List Nat) (a : Array α),
    w.length + weight isM children a ≤ f → ∃ r, markLoop isM m children f w a = some r := by
  intro f
  induction f with
  | zero =>
    intro w a h
    cases w with
    | nil => exact ⟨a, by simp [markLoop]⟩
    | cons x w => simp at h
  | succ f ih =>
    intro w a h
    cases w with
    | nil => exact ⟨a, by simp [markLoop]⟩
    | cons x w =>
      simp only [markLoop]
      simp only [List.length_cons] at h
      split
      · exact ih _ _ (by omega)
      · rename_i s hs
        split
        · exact ih _ _ (by omega)
        · rename_i hns
          apply ih
          have := weight_set isM m children a x s hs hns hm
          simp only [List.length_append]
          omega

theorem weight_le_total (a : Array α) :
    weight isM children a ≤ ((List.range a.size).map fun x => (children x).length).sum := by
  unfold weight
  generalize List.range a.size = l
  induction l with
  | nil => simp
  | cons y l ih =>
    simp only [List.map_cons, List.sum_cons]
    have : (match a[y]? with
      | some s => if isM s then 0 else (children y).length
      | none => 0) ≤ (children y).length := by
      split
      · split <;> omega
      · omega
    omega

end Marwood.Lemmas.GcMark
