import Marwood.Lemmas.EvalExtraMain
/-!
# Extra-cell invariance WITH A FRAME: the cells of the larger store outside the image stay as they are

`StRel f st st'` (`EvalExtra.lean`) says where the cells of the smaller store are in the larger one; it
says nothing about the OTHER cells of the larger store. The promise theorems need them: the prelude's
`force` allocates the promise structure and its call frames BEFORE the delayed expression runs and
reads them again afterwards (and natively the promise cell is read again after the thunk returns).
`J : Loc → Option Cell` lists cells of the larger store that are outside the image of `f`
(`joff`); `StRelJ f J` = `StRel f` + "these cells hold what `J` says" (`junk`). The simulation
(`SimJ`, `recSimJ`, `extra_cell_invariance_frame`) is the forward one of `EvalExtra*.lean` re-run with
this stronger state relation: every write of the larger run goes to an image location or to the
allocation frontier.
-/
namespace Marwood.Spec.Eval.ExtraJ
open Marwood Marwood.Spec.Eval Marwood.Spec.Eval.Extra

abbrev Junk := Nat → Option Cell

structure StRelJ (f : LMap) (J : Junk) (st st' : St) : Prop extends StRel f st st' where
  junk : ∀ l' c, J l' = some c → st'.store[l']? = some c
  joff : ∀ l, J (f l) = none

instance {f : LMap} {J : Junk} {st st' : St} : CoeOut (StRelJ f J st st') (StRel f st st') := ⟨StRelJ.toStRel⟩

def ResRelJ {α α' : Type} (f : LMap) (J : Junk) (R : α → α' → Prop) : Res α → Res α' → Prop
  | .ok a s, .ok a' s' => R a a' ∧ StRelJ f J s s'
  | .err e s, .err e' s' => e = e' ∧ StRelJ f J s s'
  | .timeout, _ => True
  | _, _ => False

def SimJ {α α' : Type} (f : LMap) (J : Junk) (R : α → α' → Prop) (m : M α) (m' : M α') : Prop :=
  ∀ st st', StRelJ f J st st' → ResRelJ f J R (m st) (m' st')

variable {f : LMap} {J : Junk} {α α' β β' : Type}

theorem ResRelJ.ok_inv {R : α → α' → Prop} {a : α} {s : St} {res' : Res α'} (h : ResRelJ f J R (.ok a s) res') :
    ∃ a' s', res' = .ok a' s' ∧ R a a' ∧ StRelJ f J s s' := by
  cases res' with
  | ok a' s' => exact ⟨a', s', rfl, h.1, h.2⟩
  | err e s' => exact h.elim
  | timeout => exact h.elim

theorem ResRelJ.err_inv {R : α → α' → Prop} {e : ErrClass} {s : St} {res' : Res α'} (h : ResRelJ f J R (.err e s) res') :
    ∃ s', res' = .err e s' ∧ StRelJ f J s s' := by
  cases res' with
  | ok a' s' => exact h.elim
  | err e' s' => obtain ⟨rfl, h2⟩ := h; exact ⟨s', rfl, h2⟩
  | timeout => exact h.elim

theorem ResRelJ.mono {R Q : α → α' → Prop} {res : Res α} {res' : Res α'} (h : ResRelJ f J R res res')
    (hq : ∀ a a', R a a' → Q a a') : ResRelJ f J Q res res' := by
  cases res with
  | ok a s => obtain ⟨a', s', rfl, h1, h2⟩ := h.ok_inv; exact ⟨hq _ _ h1, h2⟩
  | err e s => obtain ⟨s', rfl, h2⟩ := h.err_inv; exact ⟨rfl, h2⟩
  | timeout => trivial

/-- sequencing, from one pair of states -/
theorem ResRelJ.bind {R : α → α' → Prop} {Q : β → β' → Prop} {m : M α} {m' : M α'} {k : α → M β} {k' : α' → M β'}
    {st st' : St} (hm : ResRelJ f J R (m st) (m' st'))
    (hk : ∀ a a' s s', m st = .ok a s → R a a' → StRelJ f J s s' → ResRelJ f J Q (k a s) (k' a' s')) :
    ResRelJ f J Q ((m >>= k) st) ((m' >>= k') st') := by
  show ResRelJ f J Q (M.bind' m k st) (M.bind' m' k' st')
  unfold M.bind'
  cases h1 : m st with
  | ok a s =>
    rw [h1] at hm
    obtain ⟨a', s', h2, ra, rs⟩ := hm.ok_inv
    simp only [h2]
    exact hk a a' s s' h1 ra rs
  | err e s =>
    rw [h1] at hm
    obtain ⟨s', h2, rs⟩ := hm.err_inv
    simp only [h2]
    exact ⟨rfl, rs⟩
  | timeout => trivial

theorem SimJ.bind {R : α → α' → Prop} {Q : β → β' → Prop} {m : M α} {m' : M α'} {k : α → M β} {k' : α' → M β'}
    (hm : SimJ f J R m m') (hk : ∀ a a', R a a' → SimJ f J Q (k a) (k' a')) : SimJ f J Q (m >>= k) (m' >>= k') := by
  intro st st' r
  exact ResRelJ.bind (hm st st' r) (fun a a' s s' _ ra rs => hk a a' ra s s' rs)

theorem SimJ.pure {R : α → α' → Prop} (a : α) (a' : α') (h : R a a') : SimJ f J R (pure a : M α) (pure a' : M α') := by
  intro st st' r; exact ⟨h, r⟩

theorem SimJ.throw {R : α → α' → Prop} (e : ErrClass) : SimJ f J R (throw e : M α) (throw e : M α') := by
  intro st st' r; exact ⟨rfl, r⟩

theorem SimJ.timeout {R : α → α' → Prop} (m' : M α') : SimJ f J R (timeoutM : M α) m' := by
  intro st st' _; trivial

theorem SimJ.mono {R Q : α → α' → Prop} {m : M α} {m' : M α'} (hm : SimJ f J R m m')
    (hq : ∀ a a', R a a' → Q a a') : SimJ f J Q m m' := fun st st' r => (hm st st' r).mono hq

/-- the forward relation follows -/
theorem ResRelJ.to_fwd {R : α → α' → Prop} {res : Res α} {res' : Res α'} (h : ResRelJ f J R res res') :
    ResRel f R res res' := by
  cases res with
  | ok a s => obtain ⟨a', s', rfl, h1, h2⟩ := h.ok_inv; exact ⟨h1, h2.toStRel⟩
  | err e s => obtain ⟨s', rfl, h2⟩ := h.err_inv; exact ⟨rfl, h2.toStRel⟩
  | timeout => trivial

/-! ## lifting the leaf lemmas: a forward simulation whose second computation keeps the junk cells -/

/-- the junk cells are in place -/
def JunkAt (J : Junk) (σ : Array Cell) : Prop := ∀ l' c, J l' = some c → σ[l']? = some c

/-- the state a definite outcome ends in -/
def resState {α : Type} : Res α → Option St
  | .ok _ s => some s
  | .err _ s => some s
  | .timeout => none

/-- `m'` does not touch the cells listed in `J` -/
def PresJ {α' : Type} (J : Junk) (m' : M α') : Prop :=
  ∀ st' s', resState (m' st') = some s' → JunkAt J st'.store → JunkAt J s'.store

theorem SimJ.of_sim {R : α → α' → Prop} {m : M α} {m' : M α'} (h : Extra.Sim f R m m')
    (hp : (∀ l, J (f l) = none) → PresJ J m') : SimJ f J R m m' := by
  intro st st' r
  have h1 := h st st' r.toStRel
  have h2 := hp r.joff st'
  cases hm : m st with
  | ok a s =>
    rw [hm] at h1
    obtain ⟨a', s', e2, ra, rs⟩ := h1.ok_inv
    rw [e2] at h2 ⊢
    exact ⟨ra, ⟨rs, h2 s' rfl r.junk, r.joff⟩⟩
  | err e s =>
    rw [hm] at h1
    obtain ⟨s', e2, rs⟩ := h1.err_inv
    rw [e2] at h2 ⊢
    exact ⟨rfl, ⟨rs, h2 s' rfl r.junk, r.joff⟩⟩
  | timeout => trivial

theorem presJ_of_same_store {α' : Type} {m' : M α'} (h : ∀ st' s', resState (m' st') = some s' → s'.store = st'.store) :
    PresJ J m' := by
  intro st' s' hs hj
  rw [h st' s' hs]; exact hj

theorem presJ_allocCell (c' : Cell) : PresJ J (allocCell c') := by
  intro st' s' hs hj l' c hl
  simp only [allocCell, resState, Option.some.injEq] at hs
  subst hs
  have h := hj l' c hl
  have hlt : l' < st'.store.size := by
    rcases Nat.lt_or_ge l' st'.store.size with h' | h'
    · exact h'
    · rw [Array.getElem?_eq_none h'] at h; cases h
  have hne : ¬ l' = st'.store.size := by omega
  simp only [Array.getElem?_push, if_neg hne]
  exact h

theorem presJ_readCell (l : Loc) : PresJ J (readCell l) := by
  apply presJ_of_same_store
  intro st' s' hs
  simp only [readCell] at hs
  cases h : st'.store[l]? <;> simp [h, resState] at hs <;> exact hs ▸ rfl

theorem presJ_writeCell {l' : Loc} (c' : Cell) (h0 : J l' = none) : PresJ J (writeCell l' c') := by
  intro st' s' hs hj
  simp only [writeCell] at hs
  by_cases hlt : l' < st'.store.size
  · simp only [if_pos hlt, resState, Option.some.injEq] at hs
    subst hs
    intro l2 c hl
    have hne : l' ≠ l2 := by intro e; subst e; rw [h0] at hl; cases hl
    simp only [Array.getElem?_setIfInBounds, if_neg hne]
    exact hj l2 c hl
  · simp only [if_neg hlt, resState, Option.some.injEq] at hs
    subst hs; exact hj

theorem presJ_getGlobal (s : Text) : PresJ J (getGlobal s) := by
  apply presJ_of_same_store
  intro st' s' hs
  simp only [getGlobal] at hs
  cases h : st'.globals.lookup s <;> simp [h, resState] at hs <;> exact hs ▸ rfl

theorem presJ_putGlobal (s : Text) (v : Val) : PresJ J (putGlobal s v) := by
  apply presJ_of_same_store
  intro st' s' hs
  simp only [putGlobal, resState, Option.some.injEq] at hs
  exact hs ▸ rfl

theorem presJ_setGlobal (s : Text) (v : Val) : PresJ J (setGlobal s v) := by
  apply presJ_of_same_store
  intro st' s' hs
  simp only [setGlobal] at hs
  cases h : st'.globals.lookup s <;> simp [h, resState] at hs <;> exact hs ▸ rfl

theorem presJ_emit (w : Bool) (d : Datum) : PresJ J (emit w d) := by
  apply presJ_of_same_store
  intro st' s' hs
  simp only [emit, resState, Option.some.injEq] at hs
  exact hs ▸ rfl

/-! ## the state operations -/

theorem simJ_allocCell {c c' : Cell} (hc : CellRel f c c') :
    SimJ f J (fun l l' => f l = l') (allocCell c) (allocCell c') :=
  SimJ.of_sim (sim_allocCell hc) (fun _ => presJ_allocCell c')

theorem simJ_readCell {l l' : Loc} (hl : f l = l') : SimJ f J (CellRel f) (readCell l) (readCell l') :=
  SimJ.of_sim (sim_readCell hl) (fun _ => presJ_readCell l')

theorem simJ_writeCell (hf : Inj f) {l l' : Loc} {c c' : Cell} (hl : f l = l') (hc : CellRel f c c') :
    SimJ f J (fun _ _ => True) (writeCell l c) (writeCell l' c') :=
  SimJ.of_sim (sim_writeCell hf hl hc) (fun h => presJ_writeCell c' (hl ▸ h l))

theorem simJ_getGlobal (s : Text) : SimJ f J (VRel f) (getGlobal s) (getGlobal s) :=
  SimJ.of_sim (sim_getGlobal s) (fun _ => presJ_getGlobal s)

theorem simJ_putGlobal (s : Text) {v v' : Val} (hv : VRel f v v') :
    SimJ f J (fun _ _ => True) (putGlobal s v) (putGlobal s v') :=
  SimJ.of_sim (sim_putGlobal s hv) (fun _ => presJ_putGlobal s v')

theorem simJ_setGlobal (s : Text) {v v' : Val} (hv : VRel f v v') :
    SimJ f J (fun _ _ => True) (setGlobal s v) (setGlobal s v') :=
  SimJ.of_sim (sim_setGlobal s hv) (fun _ => presJ_setGlobal s v')

theorem simJ_emit (w : Bool) (d : Datum) : SimJ f J (fun _ _ => True) (emit w d) (emit w d) :=
  SimJ.of_sim (sim_emit w d) (fun _ => presJ_emit w d)

end Marwood.Spec.Eval.ExtraJ
