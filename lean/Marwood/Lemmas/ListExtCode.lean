import Marwood.Vm.ListExt
import Marwood.Lemmas.ConcreteLawsVal
import Marwood.Lemmas.MachineGarbage
import Marwood.Lemmas.PolicyAllocBound
/-!
# `ExtCodeLawsG V`, `ExtCodePlain`, `ExtAllocOnly` for `listExtWith eqTag`

The three laws that only look at WHAT a builtin does to the heap (not at the values): the heap a builtin of the
table returns is reached from the heap it was given by `heap.put`s and overwrites of non-lambda cells with `val`
cells (`Eff`; one inversion lemma per builtin, `evalPrim_eff`). Such a sequence

* keeps every lambda cell, creates none and keeps the value-typed invariant `CInvG V` (`Grows NoCont`:
  `Lemmas/ConcreteLawsOps.lean`) — `ExtCodeLawsG V`, in particular `ExtCodeLawsV` and `ExtCodeLaws`;
* creates no code object (`LamSub`: `Lemmas/MachineGarbage.lean`) — `ExtCodePlain`;
* changes `(capacity, used)` only through `Heap::alloc` and keeps the allocator invariant (`AllocsLe`:
  `Lemmas/PolicyAllocBound.lean`) — `ExtAllocOnly`.
-/
namespace Marwood.Vm.Concrete
open Marwood Marwood.Vm Marwood.Vm.Concrete.ListExt

/-- `h'` is reached from `h` by `heap.put`s and overwrites of non-lambda cells with `val` cells -/
inductive Eff : CHeap → CHeap → Prop
  | refl (h : CHeap) : Eff h h
  | put {h h1 : CHeap} (v : VCell) : Eff (putV h v).1 h1 → Eff h h1
  | write {h h1 : CHeap} (p : Nat) (w : VCell) : (∀ lam, h.cells[p]? ≠ some (CCell.lambda lam)) →
      Eff (cwrite h p (.val w)) h1 → Eff h h1

/-- what `heap.get(Ptr(p))` returns is a `Pair` only if cell `p` holds that pair -/
theorem getAt_pair_cell {h : CHeap} {p a d : Nat} (e : getAt h p = .pair a d) :
    h.cells[p]? = some (CCell.val (.pair a d)) := by
  unfold getAt at e
  cases hc : h.cells[p]? with
  | none => rw [hc] at e; cases e
  | some c =>
    rw [hc] at e
    cases c with
    | val v => simp only [repr] at e; rw [e]
    | _ => simp [repr] at e

theorem asPtr_ok {v : VCell} {p : Nat} (h : asPtr v = .ok p) : v = .ptr p := by
  cases v <;> simp only [asPtr] at h <;> cases h; rfl

section
variable (eqTag : String → String → Bool) {h h' : CHeap} {v : VCell}

theorem evalCar_eff {first : Bool} {x : VCell} (he : evalCar first h x = .ok (h', v)) : h' = h := by
  unfold evalCar at he
  split at he
  · cases he; rfl
  · cases he

theorem evalCons_eff {d a : VCell} (he : evalCons h d a = .ok (h', v)) : Eff h h' := by
  simp only [evalCons] at he
  obtain ⟨dp, _, he⟩ := bind_inv he
  obtain ⟨ap, _, he⟩ := bind_inv he
  cases he
  exact .put d (.put a (.refl _))

theorem evalSetPair_eff {first : Bool} {obj pair : VCell} (he : evalSetPair first h obj pair = .ok (h', v)) :
    Eff h h' := by
  simp only [evalSetPair] at he
  cases hd : deref h pair with
  | pair a d =>
    rw [hd] at he
    simp only at he
    obtain ⟨o, _, he⟩ := bind_inv he
    obtain ⟨p, h2, he⟩ := bind_inv he
    cases he
    have := asPtr_ok h2
    subst this
    have hcell := getAt_pair_cell (show getAt h p = .pair a d from hd)
    refine .put obj (.write p _ ?_ (.refl _))
    intro lam hl
    have := Lemmas.MachineGarbage.putV_lamSub h obj p lam hl
    rw [hcell] at this; cases this
  | _ => rw [hd] at he; cases he

theorem evalPrim_eff (p : Prim) {args : List VCell} (he : evalPrim eqTag p h args = .ok (h', v)) : Eff h h' := by
  match args with
  | [] => cases p <;> cases he
  | [x] =>
    cases p with
    | car => rw [evalCar_eff he]; exact .refl _
    | cdr => rw [evalCar_eff he]; exact .refl _
    | pred q => cases he; exact .refl _
    | _ => cases he
  | [x, y] =>
    cases p with
    | cons => exact evalCons_eff he
    | setCar => exact evalSetPair_eff he
    | setCdr => exact evalSetPair_eff he
    | eq => cases he; exact .refl _
    | _ => cases he
  | _ :: _ :: _ :: _ => cases p <;> cases he

theorem builtinEval_eff {id : Nat} {args : List VCell} (he : (listExtWith eqTag).builtinEval h id args = .ok (h', v)) :
    Eff h h' := by
  have he' : ListExt.builtinEval eqTag h id args = .ok (h', v) := he
  unfold ListExt.builtinEval at he'
  cases hp : primOf id with
  | none => rw [hp] at he'; cases he'
  | some p => rw [hp] at he'; exact evalPrim_eff eqTag p he'

end

/-! ## `ExtCodeLawsG` -/

theorem Eff.grows {V : VCell → Prop} {h h' : CHeap} (e : Eff h h') (inv : CInvG V h) : Grows NoCont h h' := by
  induction e with
  | refl h => exact .refl inv
  | put v _ ih =>
    have g := putV_grows inv v
    exact g.trans (ih (g.inv inv (fun c hc => hc.elim)))
  | write p w hp _ ih =>
    have g : Grows NoCont _ _ := cwrite_grows inv hp (val_not_lambda w) (val_not_cont w)
    exact g.trans (ih (g.inv inv (fun c hc => hc.elim)))

/-- **`ExtCodeLawsG V` for the table of real builtins**, for every value predicate `V` -/
theorem listExtWith_codeLawsG (eqTag : String → String → Bool) (V : VCell → Prop) :
    ExtCodeLawsG V (listExtWith eqTag) where
  builtinEval := by
    intro h h' id args v inv he
    have g := (builtinEval_eff eqTag he).grows inv
    exact ⟨g.inv inv (fun c hc => hc.elim), fun l bc hc => g.code hc⟩
  compileEval := fun _ h => (by cases h)
  vectorPush := fun _ h => (by cases h)

theorem listExtWith_codeLawsV (eqTag : String → String → Bool) : ExtCodeLawsV (listExtWith eqTag) :=
  listExtWith_codeLawsG eqTag _

theorem listExtWith_codeLaws (eqTag : String → String → Bool) : ExtCodeLaws (listExtWith eqTag) :=
  listExtWith_codeLawsG eqTag _

theorem listExt_codeLawsV : ExtCodeLawsV listExt := listExtWith_codeLawsV _
theorem listExt_codeLaws : ExtCodeLaws listExt := listExtWith_codeLaws _

end Marwood.Vm.Concrete

/-! ## `ExtCodePlain` -/

namespace Marwood.Lemmas.MachineGarbage
open Marwood Marwood.Vm Marwood.Vm.Concrete

theorem Eff.lamSub {h h' : CHeap} (e : Eff h h') : LamSub h h' := by
  induction e with
  | refl h => exact .refl h
  | put v _ ih => exact (putV_lamSub _ v).trans ih
  | write p w _ _ ih => exact (cwrite_lamSub _ p (c := .val w) (by intro l e; cases e)).trans ih

/-- **`ExtCodePlain` for the table of real builtins** -/
theorem listExtWith_codePlain (eqTag : String → String → Bool) : ExtCodePlain (listExtWith eqTag) where
  builtinEval := fun cp he => (Eff.lamSub (builtinEval_eff eqTag he)).codePlain cp
  compileEval := fun _ h => (by cases h)
  vectorPush := fun _ h => (by cases h)

theorem listExt_codePlain : ExtCodePlain listExt := listExtWith_codePlain _

end Marwood.Lemmas.MachineGarbage

/-! ## `ExtAllocOnly` -/

namespace Marwood.Lemmas.PolicyAlloc
open Marwood Marwood.Vm Marwood.Vm.Concrete Marwood.Lemmas.Sim

theorem Eff.allocsLe {h h' : CHeap} (e : Eff h h') : ∃ k, AllocsLe h h' k := by
  induction e with
  | refl h => exact ⟨0, .refl h⟩
  | put v _ ih =>
    obtain ⟨k, hk⟩ := ih
    exact ⟨1 + k, (putV_allocs _ v).trans hk⟩
  | write p w _ _ ih =>
    obtain ⟨k, hk⟩ := ih
    exact ⟨0 + k, (cwrite_allocs _ p _).trans hk⟩

/-- **`ExtAllocOnly` for the table of real builtins**: they change `(capacity, used)` through `Heap::alloc` only -/
theorem listExtWith_allocOnly (eqTag : String → String → Bool) : ExtAllocOnly (listExtWith eqTag) where
  builtinEval := by
    intro h id args h' v he inv
    obtain ⟨k, hk⟩ := Eff.allocsLe (builtinEval_eff eqTag he)
    obtain ⟨inv', j, _, aj⟩ := hk inv
    exact ⟨inv', j, aj⟩
  compileEval := fun h => (by cases h)
  vectorPush := fun h => (by cases h)

theorem listExt_allocOnly : ExtAllocOnly listExt := listExtWith_allocOnly _

/-- what one call of a table builtin allocates: `cons` at most 2 cells (+1 for the pair by the `maybe_put` of
    `runBuiltin`), `set-car!` / `set-cdr!` at most 1, everything else 0 -/
theorem evalCons_allocs {h h' : CHeap} {d a v : VCell} (he : ListExt.evalCons h d a = .ok (h', v)) : AllocsLe h h' 2 := by
  simp only [ListExt.evalCons] at he
  obtain ⟨dp, _, he⟩ := bind_inv he
  obtain ⟨ap, _, he⟩ := bind_inv he
  cases he
  exact (putV_allocs h d).trans (putV_allocs _ a)

end Marwood.Lemmas.PolicyAlloc
