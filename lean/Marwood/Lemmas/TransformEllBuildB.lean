import Marwood.Lemmas.TransformEllBuildA
/-!
# `Pattern::build`: the induction over `buildLoop`

`buildLoop_spec`: started with `variables = vs` (duplicate-free) a successful run of the loop over
proper, vector-free `items` ends with `variables = vs ++ patVars items` (still duplicate-free) and
`expanded` grown by exactly `ellVars items`.
-/
namespace Marwood.Transform
open Marwood Marwood.Spec.Match

/-- conclusion of the induction -/
structure BuildSpec (s : Setup) (p p' : Pattern) (vs : List Text) (items : List Datum) : Prop where
  vars : p'.variables = (vs ++ patVars s.ctx (Datum.ofList items)).map Datum.sym
  nodup : (vs ++ patVars s.ctx (Datum.ofList items)).Nodup
  exp : ExpGrow p p' (ellVars s.ctx (Datum.ofList items))

/-- one element handled (`expanded` grew by `E1`, `variables` by `patVars it`), then the rest -/
theorem BuildSpec.cons {s : Setup} {p p1 p' : Pattern} {vs : List Text} {it : Datum} {rest : List Datum}
    {E1 : List Text} (h1 : ExpGrow p p1 E1)
    (hE : ∀ x, x ∈ ellVars s.ctx (Datum.ofList (it :: rest)) ↔
      x ∈ E1 ∨ x ∈ ellVars s.ctx (Datum.ofList rest))
    (h2 : BuildSpec s p1 p' (vs ++ patVars s.ctx it) rest) : BuildSpec s p p' vs (it :: rest) := by
  refine ⟨?_, ?_, ?_⟩
  · rw [h2.vars, patVars_ofList_cons, List.append_assoc]
  · rw [patVars_ofList_cons, ← List.append_assoc]; exact h2.nodup
  · exact (h1.trans h2.exp).congr (fun x => by rw [hE x, List.mem_append])

/-- an accepted list has no two consecutive ellipses -/
theorem buildLoop_no_double (s : Setup) {f : Nat} {imp : Bool} {len idx : Nat} {rest : List Datum}
    {ct : Nat} {p p' : Pattern} (he : p.ellipsis = s.ell) (hp : ∀ it ∈ rest, properP it = true)
    (h : buildLoop f imp len idx rest ct p = .ok p') (hpk : peekIs s.ell rest = true) :
    peekIs s.ell rest.tail = false := by
  obtain ⟨r', rfl⟩ := (peekIs_ell_iff s rest).1 hpk
  have h1 := (buildLoop_place s.es f imp len idx _ ct p p' he hp h).1
  simp only [Setup.ell] at h1
  rw [plS_ofList_cons_ell] at h1
  simp only [Bool.and_eq_true] at h1
  have h2 := h1.2
  simp only [List.tail_cons]
  cases r' with
  | nil => rfl
  | cons q qs =>
    by_cases hq : q = .sym s.es
    · subst hq; rw [plS_ofList_cons_ell] at h2; simp at h2
    · simp [peekIs, Setup.ell, hq]

/-- membership in `ellVars` of `it :: rest`, `rest` not starting with the ellipsis -/
theorem mem_ellVars_cons_ne (s : Setup) (it : Datum) (rest : List Datum) (h : peekIs s.ell rest = false)
    (x : Text) : x ∈ ellVars s.ctx (Datum.ofList (it :: rest)) ↔
      x ∈ ellVars s.ctx it ∨ x ∈ ellVars s.ctx (Datum.ofList rest) := by
  rw [ellVars_ofList_cons_ne s it rest h, List.mem_append]

/-- membership in `ellVars` of `it <ellipsis> rest'` -/
theorem mem_ellVars_cons_ell (s : Setup) (it : Datum) (rest : List Datum) (h : peekIs s.ell rest = true)
    (h2 : peekIs s.ell rest.tail = false)
    (x : Text) : x ∈ ellVars s.ctx (Datum.ofList (it :: rest)) ↔
      x ∈ patVars s.ctx it ∨ x ∈ ellVars s.ctx (Datum.ofList rest) := by
  obtain ⟨r', rfl⟩ := (peekIs_ell_iff s rest).1 h
  simp only [List.tail_cons] at h2
  rw [ellVars_ofList_cons_ell, ellVars_ofList_cons_ne s s.ell r' h2, List.mem_append]
  simp [Setup.ell, ellVars]

/-- an element that contributes nothing (`_`, a literal, the ellipsis itself, a datum) -/
theorem BuildSpec.skip {s : Setup} {p p' : Pattern} {vs : List Text} {it : Datum} {rest : List Datum}
    (hpv : patVars s.ctx it = []) (hev : ellVars s.ctx it = [])
    (hpk : peekIs s.ell rest = true → peekIs s.ell rest.tail = false)
    (h2 : BuildSpec s p p' vs rest) : BuildSpec s p p' vs (it :: rest) := by
  refine BuildSpec.cons (ExpGrow.refl p) ?_ (by rw [hpv, List.append_nil]; exact h2)
  intro x
  by_cases hk : peekIs s.ell rest = true
  · rw [mem_ellVars_cons_ell s it rest hk (hpk hk), hpv]
  · rw [mem_ellVars_cons_ne s it rest (by simpa using hk), hev]

theorem buildLoop_spec (s : Setup) : ∀ (f : Nat) (imp : Bool) (len idx : Nat) (items : List Datum)
    (ct : Nat) (p p' : Pattern) (vs : List Text), p.ellipsis = s.ell → p.literals = s.lits →
    (∀ it ∈ items, properP it = true) → p.variables = vs.map Datum.sym → vs.Nodup →
    buildLoop f imp len idx items ct p = .ok p' → BuildSpec s p p' vs items := by
  intro f
  induction f with
  | zero => intro imp len idx items ct p p' vs _ _ _ _ _ h; simp [buildLoop] at h
  | succ f ih =>
    intro imp len idx items ct p p' vs he hl hprop hvars hnd h
    cases items with
    | nil =>
      simp only [buildLoop] at h
      cases h
      exact ⟨by simp [Datum.ofList, patVars, hvars], by simpa [Datum.ofList, patVars] using hnd,
        by simpa [Datum.ofList, ellVars] using ExpGrow.refl p⟩
    | cons it rest =>
      have hprest : ∀ x ∈ rest, properP x = true := fun x hx => hprop x (List.mem_cons_of_mem _ hx)
      have h0 := h
      unfold buildLoop at h
      simp only at h
      cases hit : it with
      | sym x =>
        rw [hit] at h h0
        simp only at h
        by_cases hx : x = s.es
        · -- the ellipsis itself
          subst hx
          have hisE : p.isEllipsis (.sym s.es) = true := by simp [Pattern.isEllipsis, he, Setup.ell]
          have hno : peekIs s.ell rest = false :=
            buildLoop_no_double s he (by rw [← hit]; exact hprop) h0 (by simp [peekIs, Setup.ell])
          simp only [hisE, if_true] at h
          split at h
          · cases h
          · split at h
            · cases h
            · split at h
              · cases h
              · split at h
                · cases h
                · have hr := ih _ _ _ _ _ _ _ vs he hl hprest hvars hnd h
                  exact BuildSpec.skip (patVars_ell s) (by simp [ellVars]) (fun hk => by simp [hno] at hk) hr
        · have hisE : p.isEllipsis (.sym x) = false := by
            simp [Pattern.isEllipsis, he, Setup.ell, hx]
          simp only [hisE, Bool.false_eq_true, if_false, isVariableCandidate_sym' s p x he hl] at h
          by_cases hv : s.ctx.isVar x = true
          · have hpv : patVars s.ctx (.sym x) = [x] := by simp [patVars, hv]
            simp only [hv, if_true] at h
            by_cases hdup : p.isVariable (.sym x) = true
            · simp [hdup] at h
            · simp only [hdup, Bool.false_eq_true, if_false] at h
              have hxvs : x ∉ vs := by
                simpa [Pattern.isVariable, hvars, anySym_mem] using hdup
              have hnd1 : (vs ++ [x]).Nodup := by
                rw [List.nodup_append]
                refine ⟨hnd, by simp, ?_⟩
                intro a ha b hb; simp only [List.mem_singleton] at hb; subst hb
                intro hab; subst hab; exact hxvs ha
              by_cases hpk : peekIs s.ell rest = true
              · have hpkP : peekIs p.ellipsis rest = true := by rw [he]; exact hpk
                simp only [hpkP, if_true] at h
                split at h
                · rename_i p2 hfe
                  have hfs := findExpanded_spec s f (.sym x) _ p2 (by exact he) (by exact hl) rfl hfe
                  have hp2 := findExpanded_pres _ _ _ _ hfe
                  have hno := buildLoop_no_double s (by rw [hp2.ell]; exact he) hprest h hpk
                  have hr := ih _ _ _ _ _ _ _ (vs ++ [x]) (by rw [hp2.ell]; exact he)
                    (by rw [hp2.lits]; exact hl) hprest (by rw [hfs.vars]; simp [hvars]) hnd1 h
                  refine BuildSpec.cons (E1 := patVars s.ctx (.sym x)) hfs.exp
                    (mem_ellVars_cons_ell s _ rest hpk hno) (by rw [hpv]; exact hr)
                all_goals cases h
              · have hpk' : peekIs s.ell rest = false := by simpa using hpk
                have hpkP : peekIs p.ellipsis rest = false := by rw [he]; exact hpk'
                simp only [hpkP, Bool.false_eq_true, if_false] at h
                have hr := ih _ _ _ _ _ _ _ (vs ++ [x]) (by exact he) (by exact hl) hprest
                  (by simp [hvars]) hnd1 h
                refine BuildSpec.cons (E1 := []) (p1 := { p with variables := p.variables ++ [Datum.sym x] })
                  (ExpGrow.refl p) ?_ (by rw [hpv]; exact hr)
                intro y
                rw [mem_ellVars_cons_ne s _ rest hpk']
                simp [ellVars]
          · have hpv : patVars s.ctx (.sym x) = [] := by simp [patVars, hv]
            simp only [hv, Bool.false_eq_true, if_false] at h
            by_cases hpk : peekIs s.ell rest = true
            · have hpkP : peekIs p.ellipsis rest = true := by rw [he]; exact hpk
              simp [hpkP] at h
            · have hpk' : peekIs s.ell rest = false := by simpa using hpk
              have hpkP : peekIs p.ellipsis rest = false := by rw [he]; exact hpk'
              simp only [hpkP, Bool.false_eq_true, if_false] at h
              have hr := ih _ _ _ _ _ _ _ vs he hl hprest hvars hnd h
              exact BuildSpec.skip hpv (by simp [ellVars]) (fun hk => by simp [hpk'] at hk) hr
      | pair a d =>
        rw [hit] at h hprop
        simp only at h
        have hpit : properP (.pair a d) = true := hprop _ (by simp)
        obtain ⟨hiteq, hitel⟩ := properP_iter hpit
        by_cases hpk : peekIs s.ell rest = true
        · have hpkP : peekIs p.ellipsis rest = true := by rw [he]; exact hpk
          simp only [hpkP, if_true] at h
          split at h
          · rename_i p1 hfe
            have hfs := findExpanded_spec s f _ p p1 he hl hpit hfe
            have hp1 := findExpanded_pres _ _ _ _ hfe
            split at h
            · rename_i p2 hn
              have hnest := ih _ _ _ _ _ _ _ vs (by rw [hp1.ell]; exact he) (by rw [hp1.lits]; exact hl)
                hitel (by rw [hfs.vars]; exact hvars) hnd hn
              have hp2 := buildLoop_pres _ _ _ _ _ _ _ _ hn
              have hv2 := hnest.vars
              have hnd2 := hnest.nodup
              have hx2 := hnest.exp
              rw [hiteq] at hv2 hnd2 hx2
              have hno := buildLoop_no_double s (by rw [hp2.ell, hp1.ell]; exact he) hprest h hpk
              have hr := ih _ _ _ _ _ _ _ (vs ++ patVars s.ctx (.pair a d))
                (by rw [hp2.ell, hp1.ell]; exact he) (by rw [hp2.lits, hp1.lits]; exact hl) hprest hv2 hnd2 h
              refine BuildSpec.cons (hfs.exp.trans hx2) ?_ hr
              intro y
              rw [mem_ellVars_cons_ell s _ rest hpk hno, List.mem_append]
              constructor
              · rintro (h | h)
                · exact Or.inl (Or.inl h)
                · exact Or.inr h
              · rintro ((h | h) | h)
                · exact Or.inl h
                · exact Or.inl (ellVars_sub _ _ _ h)
                · exact Or.inr h
            all_goals cases h
          all_goals cases h
        · have hpk' : peekIs s.ell rest = false := by simpa using hpk
          have hpkP : peekIs p.ellipsis rest = false := by rw [he]; exact hpk'
          simp only [hpkP, Bool.false_eq_true, if_false] at h
          split at h
          · rename_i p2 hn
            have hnest := ih _ _ _ _ _ _ _ vs he hl hitel hvars hnd hn
            have hp2 := buildLoop_pres _ _ _ _ _ _ _ _ hn
            have hv2 := hnest.vars
            have hnd2 := hnest.nodup
            have hx2 := hnest.exp
            rw [hiteq] at hv2 hnd2 hx2
            have hr := ih _ _ _ _ _ _ _ (vs ++ patVars s.ctx (.pair a d))
              (by rw [hp2.ell]; exact he) (by rw [hp2.lits]; exact hl) hprest hv2 hnd2 h
            exact BuildSpec.cons hx2 (mem_ellVars_cons_ne s _ rest hpk') hr
          all_goals cases h
      | vec v =>
        rw [hit] at hprop
        have := hprop (.vec v) (by simp)
        simp [properP] at this
      | _ =>
        rw [hit] at h
        simp only at h
        have hr := ih _ _ _ _ _ _ _ vs he hl hprest hvars hnd h
        exact BuildSpec.skip (by simp [patVars]) (by simp [ellVars])
          (fun hk => buildLoop_no_double s he hprest h hk) hr

end Marwood.Transform
