import Marwood.Lemmas.SimStepF
/-!
# Heap simulation, lemma (b) part 7: builtin procedures and VPUSH

The three re-dispatching builtins are modelled in `Machine.lean` and are proved here: `apply` (no
allocation), `call/cc` (allocates the continuation object: `φ` is extended), `eval` (up to the compiler).
What is *not* modelled — the effect of a generic builtin (`ExtOps.builtinEval`, 139 Rust procedures),
`eval`'s compiler (`compileEval`), `VPUSH`'s push through an aliased `Rc` (`vectorPush`), and the
classification `builtinKind` — is constrained by the law structure `ExtLaws`, stated once: related inputs
give the same error / panic or related results under an extension of `φ` (and keep the symbol tables
interned, so that the following `maybe_put` is covered). `BuiltinLaw` (the builtin branch of CALL / TCALL)
and VPUSH then follow.
-/
namespace Marwood.Lemmas.Sim
open Marwood Marwood.Vm Marwood.Vm.Concrete

/-- result of a non-modelled heap operation: related under an extension of `φ` -/
def ExtPost (φ : Inj) (a b : CHeap × VCell) : Prop :=
  ∃ ψ, φ.le ψ ∧ HeapSim ψ a.1 b.1 ∧ VRel ψ a.2 b.2 ∧ SymOk a.1 ∧ SymOk b.1

/-- **the law of the non-modelled parameters** ("respects the simulation") -/
structure ExtLaws (ext : ExtOps) : Prop where
  kind : ∀ (φ : Inj) (h h' : CHeap) (id : Nat), HeapSim φ h h' → ext.builtinKind h id = ext.builtinKind h' id
  eval : ∀ (φ : Inj) (h h' : CHeap) (id : Nat) (args args' : List VCell), HeapSim φ h h' → SizeOk h → SizeOk h' →
    SymOk h → SymOk h' → VsRel φ args args' →
    ORel (ExtPost φ) (ext.builtinEval h id args) (ext.builtinEval h' id args')
  compile : ∀ (φ : Inj) (h h' : CHeap) (v v' : VCell), HeapSim φ h h' → SizeOk h → SizeOk h' →
    SymOk h → SymOk h' → VRel φ v v' → ORel (ExtPost φ) (ext.compileEval h v) (ext.compileEval h' v')
  vpush : ∀ (φ : Inj) (h h' : CHeap) (vec vec' a a' : VCell), HeapSim φ h h' → SizeOk h → SizeOk h' →
    VRel φ vec vec' → VRel φ a a' → ORel (HeapSim φ) (ext.vectorPush h vec a) (ext.vectorPush h' vec' a')

/-- what a builtin returns to `runBuiltin`: the new state and the value for `acc` -/
def BPost (φ : Inj) (a b : St CHeap × VCell) : Prop :=
  ∃ ψ, φ.le ψ ∧ Sim ψ a.1 b.1 ∧ VRel ψ a.2 b.2 ∧ SymOk a.1.heap ∧ SymOk b.1.heap

section
variable (ext : ExtOps) {φ : Inj} {s t : St CHeap}

/-! ## VPUSH -/

theorem exec_vpush (el : ExtLaws ext) (h : Sim φ s t) (ok : SizeOk s.heap) (ok' : SizeOk t.heap) :
    ORel (PostB φ) (exec (concreteOps ext) .vpushAcc s) (exec (concreteOps ext) .vpushAcc t) := by
  unfold exec
  refine (h.stack.pop (Nat.le_refl _)).bind ?_
  rintro ⟨v, st1⟩ ⟨v', st1'⟩ ⟨hv, hst1, hsp1, _, _⟩
  simp only at hv hst1 hsp1 ⊢
  simp only [concreteOps]
  have hvec := deref_rel h.heap ok ok' hv
  refine (el.vpush φ _ _ _ _ _ _ h.heap ok ok' hvec h.acc).bind ?_
  intro h1 h1' hh
  exact .ok ⟨rfl, φ, φ.le_refl, hh, hst1.weaken (by show st1.sp ≤ s.stack.sp; omega), hv, h.ep, h.ipL, h.ipO, h.bp⟩

/-! ## the tail of `runBuiltin`: `maybe_put` of the result -/

/-- the tail of `runBuiltin` -/
def finishB (ops : HeapOps CHeap) (s : St CHeap) (v : VCell) : Outcome (St CHeap) :=
  match v with
  | .ptr p => .ok { s with acc := .ptr p }
  | v => let (h, r) := ops.maybePut s.heap v; .ok { s with heap := h, acc := r }

theorem finish_eq (s : St CHeap) (v : VCell) :
    finishB (concreteOps ext) s v =
    Outcome.ok { s with heap := (maybePutV s.heap v).1, acc := (maybePutV s.heap v).2 } := by
  cases v <;> rfl

theorem finish_rel {s1 t1 : St CHeap} {v v' : VCell} (hb : BPost φ (s1, v) (t1, v')) :
    Post φ { s1 with heap := (maybePutV s1.heap v).1, acc := (maybePutV s1.heap v).2 }
      { t1 with heap := (maybePutV t1.heap v').1, acc := (maybePutV t1.heap v').2 } := by
  obtain ⟨ψ, le, hs, hv, so, so'⟩ := hb
  simp only at hs hv so so'
  obtain ⟨χ, le2, hh, hr, _, _⟩ := maybePutV_sim hs.heap so so' hv
  exact ⟨χ, Inj.le_trans le le2, hh, StackRelK.mono le2 hs.stack, hr, hs.ep.mono le2, hs.ipL.mono le2, hs.ipO, hs.bp⟩

/-! ## generic builtins -/

theorem popN_rel {K : Nat} : ∀ (n : Nat) {st st' : Stack}, StackRelK φ K st st' → st.sp ≤ K →
    ORel (fun a b => VsRel φ a.1 b.1 ∧ StackRelK φ K a.2 b.2 ∧ a.2.sp ≤ st.sp) (popN n st) (popN n st') := by
  intro n
  induction n with
  | zero => intro st st' h _; exact .ok ⟨.nil, h, Nat.le_refl _⟩
  | succ n ih =>
    intro st st' h hk
    simp only [popN]
    refine (h.pop hk).bind ?_
    rintro ⟨v, st1⟩ ⟨v', st1'⟩ ⟨hv, hst1, hsp1, _, _⟩
    simp only at hv hst1 hsp1 ⊢
    refine (ih hst1 (by omega)).bind ?_
    rintro ⟨vs, st2⟩ ⟨vs', st2'⟩ ⟨hvs, hst2, hsp2⟩
    simp only at hvs hst2 hsp2 ⊢
    exact .ok ⟨.cons hv hvs, hst2, by show st2.sp ≤ st.sp; omega⟩

theorem builtinGeneric_rel (el : ExtLaws ext) (id : Nat) (h : Sim φ s t) (ok : SizeOk s.heap) (ok' : SizeOk t.heap)
    (so : SymOk s.heap) (so' : SymOk t.heap) :
    ORel (BPost φ) (builtinGeneric (concreteOps ext) id s) (builtinGeneric (concreteOps ext) id t) := by
  unfold builtinGeneric
  refine (h.stack.pop (Nat.le_refl _)).bind ?_
  rintro ⟨a, st1⟩ ⟨a', st1'⟩ ⟨ha, hst1, hsp1, _, _⟩
  simp only at ha hst1 hsp1 ⊢
  refine (asArgc_rel ha).bind ?_
  intro n n' e
  subst e
  refine (popN_rel n hst1 (by omega)).bind ?_
  rintro ⟨args, st2⟩ ⟨args', st2'⟩ ⟨hargs, hst2, hsp2⟩
  simp only at hargs hst2 hsp2 ⊢
  simp only [concreteOps]
  refine (el.eval φ _ _ id _ _ h.heap ok ok' so so' hargs).bind ?_
  rintro ⟨h1, v⟩ ⟨h1', v'⟩ ⟨ψ, le, hh, hv, s1, s1'⟩
  refine .ok ⟨ψ, le, ⟨hh, ?_, h.acc.mono le, h.ep.mono le, h.ipL.mono le, h.ipO, h.bp⟩, hv, s1, s1'⟩
  exact (hst2.mono le).weaken (by show st2.sp ≤ s.stack.sp; omega)

/-! ## eval -/

theorem builtinEvalProc_rel (el : ExtLaws ext) (h : Sim φ s t) (ok : SizeOk s.heap) (ok' : SizeOk t.heap)
    (so : SymOk s.heap) (so' : SymOk t.heap) :
    ORel (BPost φ) (builtinEvalProc (concreteOps ext) s) (builtinEvalProc (concreteOps ext) t) := by
  unfold builtinEvalProc
  rw [show t.ipO = s.ipO from h.ipO.symm]
  refine (h.stack.pop (Nat.le_refl _)).bind ?_
  rintro ⟨a, st1⟩ ⟨a', st1'⟩ ⟨ha, hst1, hsp1, _, _⟩
  simp only at ha hst1 hsp1 ⊢
  refine (asArgc_rel ha).bind ?_
  intro n n' e
  subst e
  split
  · exact .err
  · refine (hst1.pop (by omega)).bind ?_
    rintro ⟨e, st2⟩ ⟨e', st2'⟩ ⟨he, hst2, hsp2, _, _⟩
    simp only at he hst2 hsp2 ⊢
    simp only [concreteOps]
    refine (el.compile φ _ _ _ _ h.heap ok ok' so so' (deref_rel h.heap ok ok' he)).bind ?_
    rintro ⟨h1, lam⟩ ⟨h1', lam'⟩ ⟨ψ, le, hh, hl, s1, s1'⟩
    simp only at hh hl s1 s1' ⊢
    obtain ⟨K1, k1, kk1, _⟩ := pushK (hst2.mono le) (by omega) (v := .argc 0) (v' := .argc 0) (.atom rfl)
    refine (usub_rel s.ipO 1 _).bind ?_
    intro o o' e
    subst e
    exact .ok ⟨ψ, le, ⟨hh, k1.weaken kk1, h.acc.mono le, h.ep.mono le, h.ipL.mono le, rfl, h.bp⟩, hl, s1, s1'⟩

/-! ## call/cc -/

theorem isProcedure_rel {v v'} (hv : VRel φ v v') : isProcedure v = isProcedure v' := by
  cases hv <;> rfl

theorem capture_rel {K : Nat} {st st' : Stack} (h : StackRelK φ K st st') (hk : st.sp ≤ K) :
    ORel (fun a b => StackRel φ a b ∧ a.sp < a.cells.length) (st.capture) (st'.capture) := by
  unfold Stack.capture
  rw [← h.1, ← h.2.1]
  split
  · rename_i hle
    refine .ok ⟨⟨rfl, by simp [h.2.1], ?_⟩, ?_⟩
    · intro i hi v v' h1 h2
      simp only at hi h1 h2
      rw [List.getElem?_take] at h1 h2
      simp only [Nat.lt_succ_of_le hi, if_true] at h1 h2
      exact h.2.2 i (by omega) v v' h1 h2
    · simp only [List.length_take]; omega
  · exact .panic

theorem builtinCallcc_rel (h : Sim φ s t) (ok : SizeOk s.heap) (ok' : SizeOk t.heap)
    (so : SymOk s.heap) (so' : SymOk t.heap) :
    ORel (BPost φ) (builtinCallcc (concreteOps ext) s) (builtinCallcc (concreteOps ext) t) := by
  unfold builtinCallcc
  rw [show t.ipO = s.ipO from h.ipO.symm, show t.bp = s.bp from h.bp.symm]
  refine (h.stack.pop (Nat.le_refl _)).bind ?_
  rintro ⟨a, st1⟩ ⟨a', st1'⟩ ⟨ha, hst1, hsp1, _, _⟩
  simp only at ha hst1 hsp1 ⊢
  refine (asArgc_rel ha).bind ?_
  intro n n' e
  subst e
  split
  · exact .err
  · refine (hst1.pop (by omega)).bind ?_
    rintro ⟨proc, st2⟩ ⟨proc', st2'⟩ ⟨hp, hst2, hsp2, _, _⟩
    simp only at hp hst2 hsp2 ⊢
    have eproc := isProcedure_rel (deref_rel h.heap ok ok' hp)
    simp only [concreteOps]
    by_cases hp1 : isProcedure (deref s.heap proc) = true
    case neg =>
      have hp1 : isProcedure (deref s.heap proc) = false := by simpa using hp1
      have hp2 : isProcedure (deref t.heap proc') = false := by rw [← eproc]; exact hp1
      simp only [hp1, hp2, Bool.not_false, if_true]; exact .err
    case pos =>
      have hp2 : isProcedure (deref t.heap proc') = true := by rw [← eproc]; exact hp1
      simp only [hp1, hp2, Bool.not_true, Bool.false_eq_true, if_false]
      refine (capture_rel hst2 (by omega)).bind ?_
      rintro cst cst' ⟨hc, hfull⟩
      obtain ⟨ψ, le, hpq, hh⟩ := cput_sim h.heap
        (c := .cont { stack := cst, ep := s.ep, ipL := s.ipL, ipO := s.ipO, bp := s.bp })
        (c' := .cont { stack := cst', ep := t.ep, ipL := t.ipL, ipO := s.ipO, bp := s.bp })
        (fun ψ hle _ => .cont ⟨StackRelK.mono hle hc, hfull, h.ep.mono hle, h.ipL.mono hle, rfl, rfl⟩)
      have ns : ∀ (c : Cont) name, ¬ isSymCell (.cont c) name := by
        rintro c name ⟨tag, e, _⟩; cases e
      have s1 := cput_symOk_plain so h.heap.inv _ (ns { stack := cst, ep := s.ep, ipL := s.ipL, ipO := s.ipO, bp := s.bp })
      have s1' := cput_symOk_plain so' h.heap.inv' _
        (ns { stack := cst', ep := t.ep, ipL := t.ipL, ipO := s.ipO, bp := s.bp })
      obtain ⟨K1, k1, kk1, _⟩ := pushK (hst2.mono le) (by omega) (.ptr (.inl hpq))
      obtain ⟨K2, k2, kk2, _⟩ := pushK k1 kk1 (v := .argc 1) (v' := .argc 1) (.atom rfl)
      refine (usub_rel s.ipO 1 _).bind ?_
      intro o o' e
      subst e
      exact .ok ⟨ψ, le, ⟨hh, k2.weaken kk2, h.acc.mono le, h.ep.mono le, h.ipL.mono le, rfl, rfl⟩, hp.mono le, s1, s1'⟩

/-! ## apply -/

theorem shift_rel {K : Nat} : ∀ (k : Nat) {st st' : Stack}, StackRelK φ K st st' → st.sp ≤ K →
    ORel (fun a b => StackRelK φ K a b ∧ a.sp = st.sp) (builtinApply.shift k st) (builtinApply.shift k st') := by
  intro k
  induction k with
  | zero => intro st st' h _; exact .ok ⟨h, rfl⟩
  | succ k ih =>
    intro st st' h hk
    simp only [builtinApply.shift]
    refine (h.getOffset hk (by omega)).bind ?_
    intro v v' hv
    refine (h.setOffset _ hv).bind ?_
    rintro st1 st1' ⟨h1, hsp⟩
    refine (ih h1 (by omega)).imp ?_
    rintro a b ⟨h2, hsp2⟩
    exact ⟨h2, by omega⟩

theorem pushList_rel (hh : HeapSim φ s.heap t.heap) (ok : SizeOk s.heap) (ok' : SizeOk t.heap) :
    ∀ (fuel : Nat) {rest rest' : VCell} (n : Nat) {K : Nat} {st st' : Stack}, VRel φ rest rest' →
      StackRelK φ K st st' → st.sp ≤ K →
      ORel (fun a b => a.1 = b.1 ∧ ∃ K', StackRelK φ K' a.2 b.2 ∧ a.2.sp ≤ K')
        (builtinApply.pushList (concreteOps ext) s fuel rest n st)
        (builtinApply.pushList (concreteOps ext) t fuel rest' n st') := by
  intro fuel
  induction fuel with
  | zero => intro rest rest' n K st st' _ _ _; exact .panic
  | succ fuel ih =>
    intro rest rest' n K st st' hr hst hk
    simp only [builtinApply.pushList]
    cases hr with
    | pair ha hd =>
      simp only [concreteOps]
      obtain ⟨K1, k1, kk1, _⟩ := pushK hst hk (.ptr ha)
      exact ih (n + 1) (deref_rel hh ok ok' (.ptr hd)) k1 kk1
    | atom hf => cases rest <;> first | exact .ok ⟨rfl, K, hst, hk⟩ | exact .err | simp [addrFree] at hf
    | _ => exact .err

set_option hygiene false in
/-- the part of `apply` after the shape test (used for the `Pair` and the `Nil` shape) -/
local macro "apply_tail" : tactic => `(tactic|
  (refine (hst2.getOffset (by omega) (by omega)).bind ?_
   intro proc proc' hproc
   refine (shift_rel (argc - 2) hst2 (by omega)).bind ?_
   rintro st3 st3' ⟨hst3, hsp3⟩
   refine (hst3.pop (by omega)).bind ?_
   rintro ⟨_, st4⟩ ⟨_, st4'⟩ ⟨_, hst4, hsp4, _, _⟩
   simp only at hst4 hsp4 ⊢
   refine (pushList_rel ext h.heap ok ok' 100000 (argc - 2) hrest hst4 (by omega)).bind ?_
   rintro ⟨n, st5⟩ ⟨n', st5'⟩ ⟨e, K5, hst5, hk5⟩
   simp only at e hst5 hk5 ⊢
   subst e
   obtain ⟨K6, k6, kk6, _⟩ := pushK hst5 hk5 (v := .argc n) (v' := .argc n) (.atom rfl)
   refine (usub_rel s.ipO 1 _).bind ?_
   intro o o' e
   subst e
   exact .ok ⟨φ, φ.le_refl, ⟨h.heap, k6.weaken kk6, h.acc, h.ep, h.ipL, rfl, h.bp⟩, hproc, so, so'⟩))

theorem builtinApply_rel (h : Sim φ s t) (ok : SizeOk s.heap) (ok' : SizeOk t.heap)
    (so : SymOk s.heap) (so' : SymOk t.heap) :
    ORel (BPost φ) (builtinApply (concreteOps ext) s) (builtinApply (concreteOps ext) t) := by
  unfold builtinApply
  rw [show t.ipO = s.ipO from h.ipO.symm]
  refine (h.stack.pop (Nat.le_refl _)).bind ?_
  rintro ⟨a, st1⟩ ⟨a', st1'⟩ ⟨ha, hst1, hsp1, _, _⟩
  simp only at ha hst1 hsp1 ⊢
  refine (asArgc_rel ha).bind ?_
  intro argc argc' e
  subst e
  split
  · exact .err
  · refine (hst1.pop (by omega)).bind ?_
    rintro ⟨top, st2⟩ ⟨top', st2'⟩ ⟨htop, hst2, hsp2, _, _⟩
    simp only at htop hst2 hsp2 ⊢
    have hrest : VRel φ ((concreteOps ext).deref s.heap top) ((concreteOps ext).deref t.heap top') :=
      deref_rel h.heap ok ok' htop
    generalize (concreteOps ext).deref s.heap top = rest at hrest ⊢
    generalize (concreteOps ext).deref t.heap top' = rest' at hrest ⊢
    cases hrest with
    | pair ha hd =>
      have hrest : VRel φ (.pair _ _) (.pair _ _) := .pair ha hd
      simp only [Bool.not_true, Bool.false_eq_true, if_false]
      apply_tail
    | atom hf =>
      cases rest with
      | nil =>
        have hrest : VRel φ .nil .nil := .atom rfl
        simp only [Bool.not_true, Bool.false_eq_true, if_false]
        apply_tail
      | pair _ _ => simp [addrFree] at hf
      | closure _ _ => simp [addrFree] at hf
      | lexEnvPtr _ _ => simp [addrFree] at hf
      | envPtr _ => simp [addrFree] at hf
      | instrPtr _ _ => simp [addrFree] at hf
      | ptr _ => simp [addrFree] at hf
      | _ => simp only [Bool.not_false, if_true]; exact .err
    | _ => simp only [Bool.not_false, if_true]; exact .err

/-! ## `runBuiltin`: the builtin branch of CALL / TCALL -/

theorem finish_rel' {s1 t1 : St CHeap} {v v' : VCell} (hb : BPost φ (s1, v) (t1, v')) :
    ORel (Post φ) (finishB (concreteOps ext) s1 v) (finishB (concreteOps ext) t1 v') := by
  rw [finish_eq, finish_eq]
  exact .ok (finish_rel hb)

theorem runBuiltin_rel (el : ExtLaws ext) (id : Nat) (h : Sim φ s t) (ok : SizeOk s.heap) (ok' : SizeOk t.heap)
    (so : SymOk s.heap) (so' : SymOk t.heap) :
    ORel (Post φ) (runBuiltin (concreteOps ext) id s) (runBuiltin (concreteOps ext) id t) := by
  unfold runBuiltin
  have hk : (concreteOps ext).builtinKind t.heap id = (concreteOps ext).builtinKind s.heap id :=
    (el.kind φ _ _ id h.heap).symm
  rw [hk]
  cases (concreteOps ext).builtinKind s.heap id with
  | apply =>
    refine (builtinApply_rel ext h ok ok' so so').bind ?_
    rintro ⟨s1, v⟩ ⟨t1, v'⟩ hb
    exact finish_rel' ext hb
  | callcc =>
    refine (builtinCallcc_rel ext h ok ok' so so').bind ?_
    rintro ⟨s1, v⟩ ⟨t1, v'⟩ hb
    exact finish_rel' ext hb
  | eval =>
    refine (builtinEvalProc_rel ext el h ok ok' so so').bind ?_
    rintro ⟨s1, v⟩ ⟨t1, v'⟩ hb
    exact finish_rel' ext hb
  | generic =>
    refine (builtinGeneric_rel ext el id h ok ok' so so').bind ?_
    rintro ⟨s1, v⟩ ⟨t1, v'⟩ hb
    exact finish_rel' ext hb

/-- **`BuiltinLaw` follows from the law of the non-modelled parameters** -/
theorem builtinLaw_of_ext (el : ExtLaws ext) : BuiltinLaw ext :=
  fun _ _ _ id h ok ok' so so' => runBuiltin_rel ext el id h ok ok' so so'

end

end Marwood.Lemmas.Sim
