import Marwood.Spec.EvalK
/-!
# Theorems about the CPS specification with first-class continuations (`Spec.EvalK`)

Capture (`call/cc`), throw (applying a continuation value), what a captured continuation remembers (the operand
values computed before the capture), what a throw keeps (the whole current store) and forgets (the current
continuation), re-entry any number of times (the continuation table is append-only), fuel monotonicity of the
runner, and the relation of the machine with and without `call/cc`.
-/
namespace Marwood.Lemmas.EvalK
open Marwood Marwood.Spec.Eval Marwood.Spec.EvalK

/-! ## Fuel -/

theorem runNext_halt (kOn : Bool) (n : Nat) (o : Outcome) (σ : St) (ks : Array Kont) :
    runNext kOn n (.halt o σ ks) = some (o, σ, ks) := by cases n <;> rfl

theorem runNext_stuck (kOn : Bool) (n : Nat) : runNext kOn n .stuck = none := by cases n <;> rfl

/-- more fuel never changes an outcome -/
theorem runNext_mono (kOn : Bool) : ∀ (n k : Nat) (x : Next) (res : Outcome × St × Array Kont),
    runNext kOn n x = some res → runNext kOn (n + k) x = some res := by
  intro n
  induction n with
  | zero =>
    intro k x res h
    cases x with
    | run s => simp [runNext] at h
    | halt o σ ks => rw [runNext_halt] at h ⊢; exact h
    | stuck => rw [runNext_stuck] at h; cases h
  | succ n ih =>
    intro k x res h
    cases x with
    | run s =>
      rw [Nat.add_right_comm]
      simp only [runNext] at h ⊢
      exact ih k _ res h
    | halt o σ ks => rw [runNext_halt] at h ⊢; exact h
    | stuck => rw [runNext_stuck] at h; cases h

theorem runK_mono (n k : Nat) (s : State) (res : Outcome × St × Array Kont)
    (h : runK n s = some res) : runK (n + k) s = some res := runNext_mono true n k (.run s) res h

/-- a definite outcome does not depend on the fuel it was found with -/
theorem runK_deterministic (n m : Nat) (s : State) (r1 r2 : Outcome × St × Array Kont)
    (h1 : runK n s = some r1) (h2 : runK m s = some r2) : r1 = r2 := by
  have a := runK_mono n m s r1 h1
  have b := runK_mono m n s r2 h2
  rw [Nat.add_comm] at b
  rw [a] at b
  exact Option.some.inj b

theorem runK_succ (n : Nat) (s : State) : runK (n + 1) s = runNext true n (stepK s) := rfl

/-! ## Capture -/

theorem special_callcc : special callccVal = some .callcc := rfl
theorem special_cont (i : Nat) : special (contVal i) = some (.cont i) := rfl

/-- **capture**: `call/cc` applied to a procedure `f` in continuation `κ`: `κ` is appended to the table and `f` is
    applied to the new continuation value IN THE SAME continuation `κ` — from here on the machine is in the state
    of an ordinary call of `f` with one argument (`callcc_is_ordinary_call`) -/
theorem callcc_captures (f : Val) (κ : Kont) (σ : St) (ks : Array Kont) (hf : isProcedure f = true) :
    stepK ⟨.app callccVal [f], κ, σ, ks⟩ = .run ⟨.app f [contVal ks.size], κ, σ, ks.push κ⟩ := by
  simp [stepK, step, appGo, special_callcc, hf, appTo]

theorem captured_is_current (κ : Kont) (ks : Array Kont) : (ks.push κ)[ks.size]? = some κ := by
  simp

/-- a `call/cc` whose receiver returns normally behaves like an ordinary call: the run of `(call/cc f)` in `κ` is one
    step followed by the run of the ordinary application `(f k)` in the same continuation, store unchanged -/
theorem callcc_is_ordinary_call (n : Nat) (f : Val) (κ : Kont) (σ : St) (ks : Array Kont)
    (hf : isProcedure f = true) :
    runK (n + 1) ⟨.app callccVal [f], κ, σ, ks⟩ = runK n ⟨.app f [contVal ks.size], κ, σ, ks.push κ⟩ := by
  rw [runK_succ, callcc_captures f κ σ ks hf]; rfl

/-! ## Throw -/

/-- **throw**: applying the continuation value number `i` to `v` (the last of one or more arguments) from ANY
    current continuation `κ` yields `ret v` to the captured continuation, on the CURRENT store and table -/
theorem throw_discards_context (i : Nat) (κ' : Kont) (args : List Val) (v : Val) (κ : Kont) (σ : St)
    (ks : Array Kont) (hi : ks[i]? = some κ') (hv : args.getLast? = some v) :
    stepK ⟨.app (contVal i) args, κ, σ, ks⟩ = .run ⟨.ret v, κ', σ, ks⟩ := by
  simp [stepK, step, appGo, special_cont, hi, hv, retTo]

/-- the result of a throw does not depend on the abandoned context -/
theorem throw_result_independent_of_context (n i : Nat) (κ' : Kont) (v : Val) (κ₁ κ₂ : Kont) (σ : St)
    (ks : Array Kont) (hi : ks[i]? = some κ') :
    runK (n + 1) ⟨.app (contVal i) [v], κ₁, σ, ks⟩ = runK (n + 1) ⟨.app (contVal i) [v], κ₂, σ, ks⟩
    ∧ runK (n + 1) ⟨.app (contVal i) [v], κ₁, σ, ks⟩ = runK n ⟨.ret v, κ', σ, ks⟩ := by
  have h1 := throw_discards_context i κ' [v] v κ₁ σ ks hi rfl
  have h2 := throw_discards_context i κ' [v] v κ₂ σ ks hi rfl
  refine ⟨?_, ?_⟩
  · rw [runK_succ, runK_succ, h1, h2]
  · rw [runK_succ, h1]; rfl

/-- **mutations survive a throw**: the store (variables, pairs, vectors, globals, output) after the throw is the
    store at the throw — nothing is rolled back to the time of capture -/
theorem mutations_survive_throw (i : Nat) (args : List Val) (κ : Kont) (σ : St) (ks : Array Kont) (s' : State)
    (h : stepK ⟨.app (contVal i) args, κ, σ, ks⟩ = .run s') : s'.σ = σ ∧ s'.ks = ks := by
  simp only [stepK, step, appGo, special_cont, if_true] at h
  split at h
  · simp [failWith] at h
  · split at h
    · simp only [retTo, Next.run.injEq] at h; subst h; exact ⟨rfl, rfl⟩
    · simp [failWith] at h

/-- no value, an error; several values, the last one (R7RS leaves both unspecified; the implementation's choice) -/
theorem throw_no_value (i : Nat) (κ : Kont) (σ : St) (ks : Array Kont) :
    stepK ⟨.app (contVal i) [], κ, σ, ks⟩ = .halt (.err .syntax) σ ks := by
  simp [stepK, step, appGo, special_cont, failWith]

/-- a receiver that returns `v` normally to the continuation of its `call/cc` and an invocation `(k v)` from any
    context coincide: both are `ret v` to the captured continuation -/
theorem receiver_return_equals_invocation (i : Nat) (κ' κ : Kont) (v : Val) (σ : St) (ks : Array Kont)
    (hi : ks[i]? = some κ') :
    stepK ⟨.app (contVal i) [v], κ, σ, ks⟩ = .run ⟨.ret v, κ', σ, ks⟩ :=
  throw_discards_context i κ' [v] v κ σ ks hi rfl

/-! ## Operands evaluated before the capture -/

/-- **operands evaluated before the capture are kept**: a continuation captured while the operand after the values
    `done` was being evaluated is the operand frame holding `done`; throwing `v` to it from anywhere goes on with the
    NEXT operand `e` (two steps), the frame now holding `v :: done` — `done` is not evaluated again -/
theorem operands_evaluated_before_capture_are_kept (i : Nat) (ρ : Env) (done : List Val) (e : Datum)
    (es : List Datum) (th : ArgsThen) (κ₀ κ : Kont) (v : Val) (σ : St) (ks : Array Kont)
    (hi : ks[i]? = some (.args ρ done (e :: es) th :: κ₀)) :
    runK 2 ⟨.app (contVal i) [v], κ, σ, ks⟩ = runK 0 ⟨.ev e ρ, .args ρ (v :: done) es th :: κ₀, σ, ks⟩
    ∧ ∀ n, runK (n + 2) ⟨.app (contVal i) [v], κ, σ, ks⟩
        = runK n ⟨.ev e ρ, .args ρ (v :: done) es th :: κ₀, σ, ks⟩ := by
  have h1 := throw_discards_context i _ [v] v κ σ ks hi rfl
  have h2 : stepK ⟨.ret v, .args ρ done (e :: es) th :: κ₀, σ, ks⟩
      = .run ⟨.ev e ρ, .args ρ (v :: done) es th :: κ₀, σ, ks⟩ := by
    simp [stepK, step, retGo, argsGo, evalIn]
  refine ⟨?_, fun n => ?_⟩
  · rw [runK_succ, h1]; show runNext true 1 (.run _) = _; simp only [runNext]; rw [show step true _ = stepK _ from rfl, h2]; rfl
  · rw [runK_succ, h1]; show runNext true (n + 1) (.run _) = _; simp only [runNext]; rw [show step true _ = stepK _ from rfl, h2]; rfl

/-- the last operand: throwing `v` to the frame of an application whose operands are all evaluated evaluates the
    operator next, the operand values being `done` (in order) followed by `v` -/
theorem operands_kept_last (i : Nat) (ρ : Env) (done : List Val) (f : Datum) (κ₀ κ : Kont) (v : Val) (σ : St)
    (ks : Array Kont) (hi : ks[i]? = some (.args ρ done [] (.call f) :: κ₀)) (n : Nat) :
    runK (n + 2) ⟨.app (contVal i) [v], κ, σ, ks⟩
      = runK n ⟨.ev f ρ, .fn (done.reverse ++ [v]) :: κ₀, σ, ks⟩ := by
  have h1 := throw_discards_context i _ [v] v κ σ ks hi rfl
  have h2 : stepK ⟨.ret v, .args ρ done [] (.call f) :: κ₀, σ, ks⟩
      = .run ⟨.ev f ρ, .fn (done.reverse ++ [v]) :: κ₀, σ, ks⟩ := by
    simp [stepK, step, retGo, argsGo, argsDone, evalIn]
  rw [runK_succ, h1]; show runNext true (n + 1) (.run _) = _; simp only [runNext]
  rw [show step true _ = stepK _ from rfl, h2]; rfl

/-! ## With and without `call/cc` -/

/-- the two machines differ only when one of the two extra procedure values is applied -/
theorem step_eq_of_not_special (s : State)
    (h : ∀ f args, s.c = .app f args → special f = none) : step true s = step false s := by
  cases s with
  | mk c κ σ ks =>
    cases c with
    | ev e ρ => rfl
    | ret v => rfl
    | app f args =>
      have := h f args rfl
      simp [step, appGo, this]

end Marwood.Lemmas.EvalK
