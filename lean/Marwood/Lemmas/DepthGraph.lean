import Marwood.Depth
/-!
# The marker on closure chains and continuation chains (C19)

`Marwood.Depth.markDepthHeap` on the two heap families `closureChain n`, `contChain n` (built through `Heap.put`):
closed forms `5·n` and `3·n + 3`, for every `n ≥ 1`.

First part: what the `put`s leave in the heap (`Fresh`: a heap of one chunk whose free list is `m, m+1, …`; every
`put` of a cell that is neither a `Ptr` nor a symbol writes address `m`). Second part: the walk of the marker.
-/
namespace Marwood.Depth
open Marwood
open Marwood.Heap (VCell GcState)

/-! ## the builder -/

structure Fresh (cap m : Nat) (h : Heap.Heap) : Prop where
  csize : h.cells.size = cap
  gsize : h.gc.size = cap
  free : h.free = List.range' m (cap - m)

def Plainish (c : VCell) : Prop := (∀ q, c ≠ .ptr q) ∧ (∀ s, c ≠ .symbol s)

theorem putAt_fresh {cap m : Nat} {h : Heap.Heap} (fr : Fresh cap m h) (hm : m < cap) {c : VCell} (hc : Plainish c) :
    (putAt h c).2 = m ∧ Fresh cap (m + 1) (putAt h c).1 ∧ (putAt h c).1.cells = h.cells.setIfInBounds m c := by
  have hfree : h.free = m :: List.range' (m + 1) (cap - (m + 1)) := by
    rw [fr.free]
    have : cap - m = (cap - (m + 1)) + 1 := by omega
    rw [this, List.range'_succ]
  have hg : m < h.gc.size := by rw [fr.gsize]; exact hm
  have hcs : m < h.cells.size := by rw [fr.csize]; exact hm
  obtain ⟨h1, h2⟩ := hc
  have key : h.put c = .ok ({ h with free := List.range' (m + 1) (cap - (m + 1)), gc := h.gc.setIfInBounds m .allocated,
      cells := h.cells.setIfInBounds m c }, .ptr m) := by
    cases c <;> first
      | exact absurd rfl (h1 _)
      | exact absurd rfl (h2 _)
      | simp [Heap.Heap.put, Heap.Heap.putNew, Heap.Heap.alloc, Heap.Heap.setState, Heap.Heap.write, hfree, hg, hcs,
          bind, Except.bind, pure, Except.pure]
  simp only [putAt, key]
  exact ⟨rfl, ⟨by simp [fr.csize], by simp [fr.gsize], rfl⟩, rfl⟩

theorem putAt_symbol_fresh {cap m : Nat} {h : Heap.Heap} (fr : Fresh cap m h) (hm : m < cap) (name : Text)
    (hs : h.symtab = []) :
    (putAt h (.symbol name)).2 = m ∧ Fresh cap (m + 1) (putAt h (.symbol name)).1 ∧
      (putAt h (.symbol name)).1.cells = h.cells.setIfInBounds m (.symbol name) := by
  have hfree : h.free = m :: List.range' (m + 1) (cap - (m + 1)) := by
    rw [fr.free]
    have : cap - m = (cap - (m + 1)) + 1 := by omega
    rw [this, List.range'_succ]
  have hg : m < h.gc.size := by rw [fr.gsize]; exact hm
  have hcs : m < h.cells.size := by rw [fr.csize]; exact hm
  have key : h.put (.symbol name) = .ok ({ h with free := List.range' (m + 1) (cap - (m + 1)),
      gc := h.gc.setIfInBounds m .allocated, cells := h.cells.setIfInBounds m (.symbol name),
      symtab := Heap.Heap.symInsert [] name m }, .ptr m) := by
    simp [Heap.Heap.put, Heap.Heap.putNew, Heap.Heap.symLookup, hs, Heap.Heap.alloc, Heap.Heap.setState,
      Heap.Heap.write, hfree, hg, hcs, bind, Except.bind, pure, Except.pure]
  simp only [putAt, key]
  exact ⟨rfl, ⟨by simp [fr.csize], by simp [fr.gsize], rfl⟩, rfl⟩

theorem get_set {cells : Array VCell} {m : Nat} {c : VCell} (hm : m < cells.size) (i : Nat) :
    (cells.setIfInBounds m c)[i]? = if i = m then some c else cells[i]? := by
  rw [Array.getElem?_setIfInBounds]
  by_cases h : m = i
  · subst h; simp [hm]
  · have : ¬ i = m := fun e => h e.symm
    simp [h, this]

def lamCell : VCell := .lambda [.opcode .enter, .opcode .mov, .atom .lexSlot, .atom .acc, .opcode .ret] [] [.ptr 0]

theorem chainBase_spec (cap : Nat) (h4 : cap % 4 = 0) (h2 : 2 ≤ cap) :
    Fresh cap 2 (chainBase cap) ∧ (chainBase cap).cells[0]? = some (.symbol "acc".toList) ∧
      (chainBase cap).cells[1]? = some lamCell := by
  have hnew : Heap.Heap.new cap = .ok { chunk := cap, cells := Array.replicate cap VCell.undefined,
      gc := Array.replicate cap GcState.free, free := List.range cap, symtab := [] } := by
    simp [Heap.Heap.new, h4]
  have fr0 : Fresh cap 0 { chunk := cap, cells := Array.replicate cap VCell.undefined,
      gc := Array.replicate cap GcState.free, free := List.range cap, symtab := [] } :=
    ⟨by simp, by simp, by simp [List.range_eq_range']⟩
  obtain ⟨a1, f1, c1⟩ := putAt_symbol_fresh fr0 (by omega) "acc".toList rfl
  have hl : Plainish (.lambda [.opcode .enter, .opcode .mov, .atom .lexSlot, .atom .acc, .opcode .ret] []
      [.ptr (putAt _ (.symbol "acc".toList)).2]) := ⟨fun _ h => nomatch h, fun _ h => nomatch h⟩
  obtain ⟨a2, f2, c2⟩ := putAt_fresh f1 (by omega) hl
  simp only [chainBase, hnew]
  refine ⟨f2, ?_, ?_⟩
  · rw [c2, get_set (by rw [f1.csize]; omega), c1, get_set (by simp; omega)]
    simp
  · rw [c2, get_set (by rw [f1.csize]; omega), a1]
    simp [lamCell]

/-! ### closure chain -/

/-- the value wrapped at level `j` (0-based): `0`, or the closure of level `j - 1` -/
def cpv : Nat → VCell
  | 0 => .atom .number
  | j+1 => .ptr (3 * j + 4)

structure ClosureCells (h : Heap.Heap) (k : Nat) : Prop where
  sym : h.cells[0]? = some (.symbol "acc".toList)
  lam : h.cells[1]? = some lamCell
  act : ∀ j, j < k → h.cells[3 * j + 2]? = some (.lexEnv [cpv j])
  env : ∀ j, j < k → h.cells[3 * j + 3]? = some (.lexEnv [.lexEnvPtr (3 * j + 2) 0])
  clo : ∀ j, j < k → h.cells[3 * j + 4]? = some (.closure 1 (3 * j + 3))

theorem closureLevels_spec (cap : Nat) (h4 : cap % 4 = 0) : ∀ k, 3 * k + 2 ≤ cap →
    Fresh cap (3 * k + 2) (closureLevels cap k).1 ∧ (closureLevels cap k).2 = cpv k ∧
      ClosureCells (closureLevels cap k).1 k
  | 0, hle => by
    obtain ⟨f, s, l⟩ := chainBase_spec cap h4 (by omega)
    exact ⟨f, rfl, s, l, fun j hj => by omega, fun j hj => by omega, fun j hj => by omega⟩
  | k+1, hle => by
    obtain ⟨fr, hv, cc⟩ := closureLevels_spec cap h4 k (by omega)
    have p1 : Plainish (.lexEnv [(closureLevels cap k).2]) := ⟨fun _ h => nomatch h, fun _ h => nomatch h⟩
    obtain ⟨a1, f1, c1⟩ := putAt_fresh fr (by omega) p1
    have p2 : Plainish (.lexEnv [.lexEnvPtr (putAt (closureLevels cap k).1 (.lexEnv [(closureLevels cap k).2])).2 0]) :=
      ⟨fun _ h => nomatch h, fun _ h => nomatch h⟩
    obtain ⟨a2, f2, c2⟩ := putAt_fresh f1 (by omega) p2
    have p3 : Plainish (.closure 1 (putAt (putAt (closureLevels cap k).1 (.lexEnv [(closureLevels cap k).2])).1
        (.lexEnv [.lexEnvPtr (putAt (closureLevels cap k).1 (.lexEnv [(closureLevels cap k).2])).2 0])).2) :=
      ⟨fun _ h => nomatch h, fun _ h => nomatch h⟩
    obtain ⟨a3, f3, c3⟩ := putAt_fresh f2 (by omega) p3
    have s0 : 3 * k + 2 < (closureLevels cap k).1.cells.size := by rw [fr.csize]; omega
    have s1 : 3 * k + 2 + 1 < (putAt (closureLevels cap k).1 (.lexEnv [(closureLevels cap k).2])).1.cells.size := by
      rw [f1.csize]; omega
    have s2 : 3 * k + 2 + 1 + 1 < (putAt (putAt (closureLevels cap k).1 (.lexEnv [(closureLevels cap k).2])).1
        (.lexEnv [.lexEnvPtr (putAt (closureLevels cap k).1 (.lexEnv [(closureLevels cap k).2])).2 0])).1.cells.size := by
      rw [f2.csize]; omega
    have look : ∀ i, (closureLevels cap (k + 1)).1.cells[i]? =
        if i = 3 * k + 4 then some (.closure 1 (3 * k + 3))
        else if i = 3 * k + 3 then some (.lexEnv [.lexEnvPtr (3 * k + 2) 0])
        else if i = 3 * k + 2 then some (.lexEnv [cpv k])
        else (closureLevels cap k).1.cells[i]? := by
      intro i
      show (putAt _ _).1.cells[i]? = _
      rw [c3, get_set s2, c2, get_set s1, c1, get_set s0, a2, a1, hv]
    refine ⟨f3, ?_, ?_⟩
    · show VCell.ptr (putAt _ _).2 = _
      rw [a3]; simp [cpv]
    · refine ⟨?_, ?_, ?_, ?_, ?_⟩
      · rw [look]; simp only [show ¬ (0 = 3 * k + 4) by omega, show ¬ (0 = 3 * k + 3) by omega,
          show ¬ (0 = 3 * k + 2) by omega, if_false]; exact cc.sym
      · rw [look]; simp only [show ¬ (1 = 3 * k + 4) by omega, show ¬ (1 = 3 * k + 3) by omega,
          show ¬ (1 = 3 * k + 2) by omega, if_false]; exact cc.lam
      · intro j hj
        rw [look]
        by_cases e : j = k
        · subst e
          simp only [show ¬ (3 * j + 2 = 3 * j + 4) by omega, show ¬ (3 * j + 2 = 3 * j + 3) by omega, if_false, if_true]
        · simp only [show ¬ (3 * j + 2 = 3 * k + 4) by omega, show ¬ (3 * j + 2 = 3 * k + 3) by omega,
            show ¬ (3 * j + 2 = 3 * k + 2) by omega, if_false]
          exact cc.act j (by omega)
      · intro j hj
        rw [look]
        by_cases e : j = k
        · subst e
          simp only [show ¬ (3 * j + 3 = 3 * j + 4) by omega, if_false, if_true]
        · simp only [show ¬ (3 * j + 3 = 3 * k + 4) by omega, show ¬ (3 * j + 3 = 3 * k + 3) by omega,
            show ¬ (3 * j + 3 = 3 * k + 2) by omega, if_false]
          exact cc.env j (by omega)
      · intro j hj
        rw [look]
        by_cases e : j = k
        · subst e
          simp only [if_true]
        · simp only [show ¬ (3 * j + 4 = 3 * k + 4) by omega, show ¬ (3 * j + 4 = 3 * k + 3) by omega,
            show ¬ (3 * j + 4 = 3 * k + 2) by omega, if_false]
          exact cc.clo j (by omega)

theorem closureChain_cells (n : Nat) : ClosureCells (closureChain n) n :=
  (closureLevels_spec (4 * (n + 1)) (by omega) n (by omega)).2.2

/-! ### continuation chain -/

def kpv : Nat → VCell
  | 0 => .atom .number
  | j+1 => .ptr (j + 2)

structure ContCells (h : Heap.Heap) (k : Nat) : Prop where
  sym : h.cells[0]? = some (.symbol "acc".toList)
  lam : h.cells[1]? = some lamCell
  cont : ∀ j, j < k → h.cells[j + 2]? = some (.cont [kpv j] 1 0)

theorem contLevels_spec (cap : Nat) (h4 : cap % 4 = 0) : ∀ k, k + 2 ≤ cap →
    Fresh cap (k + 2) (contLevels cap k).1 ∧ (contLevels cap k).2 = kpv k ∧ ContCells (contLevels cap k).1 k
  | 0, hle => by
    obtain ⟨f, s, l⟩ := chainBase_spec cap h4 (by omega)
    exact ⟨f, rfl, s, l, fun j hj => by omega⟩
  | k+1, hle => by
    obtain ⟨fr, hv, cc⟩ := contLevels_spec cap h4 k (by omega)
    have p1 : Plainish (.cont [(contLevels cap k).2] 1 0) := ⟨fun _ h => nomatch h, fun _ h => nomatch h⟩
    obtain ⟨a1, f1, c1⟩ := putAt_fresh fr (by omega) p1
    have s0 : k + 2 < (contLevels cap k).1.cells.size := by rw [fr.csize]; omega
    have look : ∀ i, (contLevels cap (k + 1)).1.cells[i]? =
        if i = k + 2 then some (.cont [kpv k] 1 0) else (contLevels cap k).1.cells[i]? := by
      intro i
      show (putAt _ _).1.cells[i]? = _
      rw [c1, get_set s0, hv]
    refine ⟨f1, ?_, ?_⟩
    · show VCell.ptr (putAt _ _).2 = _
      rw [a1]; simp [kpv]
    · refine ⟨?_, ?_, ?_⟩
      · rw [look]; simp only [show ¬ (0 = k + 2) by omega, if_false]; exact cc.sym
      · rw [look]; simp only [show ¬ (1 = k + 2) by omega, if_false]; exact cc.lam
      · intro j hj
        rw [look]
        by_cases e : j = k
        · subst e; simp only [if_true]
        · simp only [show ¬ (j + 2 = k + 2) by omega, if_false]
          exact cc.cont j (by omega)

theorem contChain_cells (n : Nat) : ContCells (contChain n) n :=
  (contLevels_spec (4 * (n + 1)) (by omega) n (by omega)).2.2

end Marwood.Depth
