import Marwood.Depth
/-!
# The marker on closure chains and continuation chains (C19)

`Marwood.Depth.markDepthHeap` on the two heap families `closureChain n`, `contChain n` (built through `Heap.put`):
closed forms `5·n` and `3·n + 3`, for every `n ≥ 1`.

First part: what the `put`s leave in the heap (`Fresh`: a heap of one chunk whose free list is `m, m+1, …`; every
`put` of a cell that is neither a `Ptr` nor a symbol writes address `m`). Second part: the walk of the marker.
-/
namespace Marwood.Depth
open Marwood
open Marwood.Heap (VCell GcState)

/-! ## the builder -/

structure Fresh (cap m : Nat) (h : Heap.Heap) : Prop where
  csize : h.cells.size = cap
  gsize : h.gc.size = cap
  free : h.free = List.range' m (cap - m)

/-- the heap after a `put` that wrote `c` to address `m` -/
def putRes (h : Heap.Heap) (m : Nat) (c : VCell) (rest : List Nat) (tab : List (Text × Nat)) : Heap.Heap :=
  { h with free := rest, gc := h.gc.setIfInBounds m GcState.allocated, cells := h.cells.setIfInBounds m c, symtab := tab }

def Plainish (c : VCell) : Prop := (∀ q, c ≠ .ptr q) ∧ (∀ s, c ≠ .symbol s)

theorem putAt_fresh {cap m : Nat} {h : Heap.Heap} (fr : Fresh cap m h) (hm : m < cap) {c : VCell} (hc : Plainish c) :
    (putAt h c).2 = m ∧ Fresh cap (m + 1) (putAt h c).1 ∧ (putAt h c).1.cells = h.cells.setIfInBounds m c := by
  have hfree : h.free = m :: List.range' (m + 1) (cap - (m + 1)) := by
    rw [fr.free]
    have : cap - m = (cap - (m + 1)) + 1 := by omega
    rw [this, List.range'_succ]
  have hg : m < h.gc.size := by rw [fr.gsize]; exact hm
  have hcs : m < h.cells.size := by rw [fr.csize]; exact hm
  obtain ⟨h1, h2⟩ := hc
  have key : h.put c = .ok (putRes h m c (List.range' (m + 1) (cap - (m + 1))) h.symtab, .ptr m) := by
    cases c <;> first
      | exact absurd rfl (h1 _)
      | exact absurd rfl (h2 _)
      | simp [Heap.Heap.put, Heap.Heap.putNew, Heap.Heap.alloc, Heap.Heap.setState, Heap.Heap.write, hfree, hg, hcs,
          bind, Except.bind, pure, Except.pure, putRes]
  have e : putAt h c = (putRes h m c (List.range' (m + 1) (cap - (m + 1))) h.symtab, m) := by simp only [putAt, key]
  rw [e]
  exact ⟨rfl, ⟨by simp [putRes, fr.csize], by simp [putRes, fr.gsize], rfl⟩, rfl⟩

theorem putAt_symbol_fresh {cap m : Nat} {h : Heap.Heap} (fr : Fresh cap m h) (hm : m < cap) (name : Text)
    (hs : h.symtab = []) :
    (putAt h (.symbol name)).2 = m ∧ Fresh cap (m + 1) (putAt h (.symbol name)).1 ∧
      (putAt h (.symbol name)).1.cells = h.cells.setIfInBounds m (.symbol name) := by
  have hfree : h.free = m :: List.range' (m + 1) (cap - (m + 1)) := by
    rw [fr.free]
    have : cap - m = (cap - (m + 1)) + 1 := by omega
    rw [this, List.range'_succ]
  have hg : m < h.gc.size := by rw [fr.gsize]; exact hm
  have hcs : m < h.cells.size := by rw [fr.csize]; exact hm
  have key : h.put (.symbol name) =
      .ok (putRes h m (.symbol name) (List.range' (m + 1) (cap - (m + 1))) (Heap.Heap.symInsert [] name m), .ptr m) := by
    simp [Heap.Heap.put, Heap.Heap.putNew, Heap.Heap.symLookup, hs, Heap.Heap.alloc, Heap.Heap.setState,
      Heap.Heap.write, hfree, hg, hcs, bind, Except.bind, pure, Except.pure, putRes]
  have e : putAt h (.symbol name) =
      (putRes h m (.symbol name) (List.range' (m + 1) (cap - (m + 1))) (Heap.Heap.symInsert [] name m), m) := by
    simp only [putAt, key]
  rw [e]
  exact ⟨rfl, ⟨by simp [putRes, fr.csize], by simp [putRes, fr.gsize], rfl⟩, rfl⟩

theorem get_set {cells : Array VCell} {m : Nat} {c : VCell} (hm : m < cells.size) (i : Nat) :
    (cells.setIfInBounds m c)[i]? = if i = m then some c else cells[i]? := by
  rw [Array.getElem?_setIfInBounds]
  by_cases h : m = i
  · subst h; simp [hm]
  · have : ¬ i = m := fun e => h e.symm
    simp [h, this]

theorem plainish_lambda (bc args em : List VCell) : Plainish (.lambda bc args em) :=
  ⟨fun _ h => (nomatch h), fun _ h => (nomatch h)⟩
theorem plainish_lexEnv (ss : List VCell) : Plainish (.lexEnv ss) := ⟨fun _ h => (nomatch h), fun _ h => (nomatch h)⟩
theorem plainish_closure (l e : Nat) : Plainish (.closure l e) := ⟨fun _ h => (nomatch h), fun _ h => (nomatch h)⟩
theorem plainish_cont (stk : List VCell) (l e : Nat) : Plainish (.cont stk l e) :=
  ⟨fun _ h => (nomatch h), fun _ h => (nomatch h)⟩

def newRes (cap : Nat) : Heap.Heap :=
  { chunk := cap, cells := Array.replicate cap VCell.undefined, gc := Array.replicate cap GcState.free, free := List.range cap, symtab := [] }

def lamCell : VCell := .lambda [.opcode .enter, .opcode .mov, .atom .lexSlot, .atom .acc, .opcode .ret] [] [.ptr 0]

theorem chainBase_spec (cap : Nat) (h4 : cap % 4 = 0) (h2 : 2 ≤ cap) :
    Fresh cap 2 (chainBase cap) ∧ (chainBase cap).cells[0]? = some (.symbol "acc".toList) ∧
      (chainBase cap).cells[1]? = some lamCell := by
  have hnew : Heap.Heap.new cap = .ok (newRes cap) := by
    simp [Heap.Heap.new, h4, newRes]
  have fr0 : Fresh cap 0 (newRes cap) :=
    ⟨by simp [newRes], by simp [newRes], by simp [newRes, List.range_eq_range']⟩
  obtain ⟨a1, f1, c1⟩ := putAt_symbol_fresh fr0 (by omega) "acc".toList rfl
  obtain ⟨a2, f2, c2⟩ := putAt_fresh f1 (by omega)
    (plainish_lambda [.opcode .enter, .opcode .mov, .atom .lexSlot, .atom .acc, .opcode .ret] []
      [.ptr (putAt (newRes cap) (.symbol "acc".toList)).2])
  simp only [chainBase, hnew]
  refine ⟨f2, ?_, ?_⟩
  · rw [c2, get_set (by rw [f1.csize]; omega), c1, get_set (by show 0 < (newRes cap).cells.size; rw [fr0.csize]; omega)]
    simp
  · rw [c2, get_set (by rw [f1.csize]; omega), a1]
    simp [lamCell]

/-! ### closure chain -/

/-- the value wrapped at level `j` (0-based): `0`, or the closure of level `j - 1` -/
def cpv : Nat → VCell
  | 0 => .atom .number
  | j+1 => .ptr (3 * j + 4)

structure ClosureCells (h : Heap.Heap) (k : Nat) : Prop where
  sym : h.cells[0]? = some (.symbol "acc".toList)
  lam : h.cells[1]? = some lamCell
  act : ∀ j, j < k → h.cells[3 * j + 2]? = some (.lexEnv [cpv j])
  env : ∀ j, j < k → h.cells[3 * j + 3]? = some (.lexEnv [.lexEnvPtr (3 * j + 2) 0])
  clo : ∀ j, j < k → h.cells[3 * j + 4]? = some (.closure 1 (3 * j + 3))

theorem closureLevels_spec (cap : Nat) (h4 : cap % 4 = 0) : ∀ k, 3 * k + 2 ≤ cap →
    Fresh cap (3 * k + 2) (closureLevels cap k).1 ∧ (closureLevels cap k).2 = cpv k ∧
      ClosureCells (closureLevels cap k).1 k
  | 0, hle => by
    obtain ⟨f, s, l⟩ := chainBase_spec cap h4 (by omega)
    exact ⟨f, rfl, s, l, fun j hj => by omega, fun j hj => by omega, fun j hj => by omega⟩
  | k+1, hle => by
    obtain ⟨fr, hv, cc⟩ := closureLevels_spec cap h4 k (by omega)
    obtain ⟨a1, f1, c1⟩ := putAt_fresh fr (by omega) (plainish_lexEnv [(closureLevels cap k).2])
    obtain ⟨a2, f2, c2⟩ := putAt_fresh f1 (by omega)
      (plainish_lexEnv [.lexEnvPtr (putAt (closureLevels cap k).1 (.lexEnv [(closureLevels cap k).2])).2 0])
    obtain ⟨a3, f3, c3⟩ := putAt_fresh f2 (by omega)
      (plainish_closure 1 (putAt (putAt (closureLevels cap k).1 (.lexEnv [(closureLevels cap k).2])).1
        (.lexEnv [.lexEnvPtr (putAt (closureLevels cap k).1 (.lexEnv [(closureLevels cap k).2])).2 0])).2)
    have s0 : 3 * k + 2 < (closureLevels cap k).1.cells.size := by rw [fr.csize]; omega
    have s1 : 3 * k + 2 + 1 < (putAt (closureLevels cap k).1 (.lexEnv [(closureLevels cap k).2])).1.cells.size := by
      rw [f1.csize]; omega
    have s2 : 3 * k + 2 + 1 + 1 < (putAt (putAt (closureLevels cap k).1 (.lexEnv [(closureLevels cap k).2])).1
        (.lexEnv [.lexEnvPtr (putAt (closureLevels cap k).1 (.lexEnv [(closureLevels cap k).2])).2 0])).1.cells.size := by
      rw [f2.csize]; omega
    have look : ∀ i, (closureLevels cap (k + 1)).1.cells[i]? =
        if i = 3 * k + 4 then some (.closure 1 (3 * k + 3))
        else if i = 3 * k + 3 then some (.lexEnv [.lexEnvPtr (3 * k + 2) 0])
        else if i = 3 * k + 2 then some (.lexEnv [cpv k])
        else (closureLevels cap k).1.cells[i]? := by
      intro i
      show (putAt _ _).1.cells[i]? = _
      rw [c3, get_set s2, c2, get_set s1, c1, get_set s0, a2, a1, hv]
    refine ⟨f3, ?_, ?_⟩
    · show VCell.ptr (putAt _ _).2 = _
      rw [a3]; simp [cpv]
    · refine ⟨?_, ?_, ?_, ?_, ?_⟩
      · rw [look]; simp only [show ¬ (0 = 3 * k + 4) by omega, show ¬ (0 = 3 * k + 3) by omega,
          show ¬ (0 = 3 * k + 2) by omega, if_false]; exact cc.sym
      · rw [look]; simp only [show ¬ (1 = 3 * k + 4) by omega, show ¬ (1 = 3 * k + 3) by omega,
          show ¬ (1 = 3 * k + 2) by omega, if_false]; exact cc.lam
      · intro j hj
        rw [look]
        by_cases e : j = k
        · subst e
          simp only [show ¬ (3 * j + 2 = 3 * j + 4) by omega, show ¬ (3 * j + 2 = 3 * j + 3) by omega, if_false, if_true]
        · simp only [show ¬ (3 * j + 2 = 3 * k + 4) by omega, show ¬ (3 * j + 2 = 3 * k + 3) by omega,
            show ¬ (3 * j + 2 = 3 * k + 2) by omega, if_false]
          exact cc.act j (by omega)
      · intro j hj
        rw [look]
        by_cases e : j = k
        · subst e
          simp only [show ¬ (3 * j + 3 = 3 * j + 4) by omega, if_false, if_true]
        · simp only [show ¬ (3 * j + 3 = 3 * k + 4) by omega, show ¬ (3 * j + 3 = 3 * k + 3) by omega,
            show ¬ (3 * j + 3 = 3 * k + 2) by omega, if_false]
          exact cc.env j (by omega)
      · intro j hj
        rw [look]
        by_cases e : j = k
        · subst e
          simp only [if_true]
        · simp only [show ¬ (3 * j + 4 = 3 * k + 4) by omega, show ¬ (3 * j + 4 = 3 * k + 3) by omega,
            show ¬ (3 * j + 4 = 3 * k + 2) by omega, if_false]
          exact cc.clo j (by omega)

theorem closureChain_cells (n : Nat) : ClosureCells (closureChain n) n :=
  (closureLevels_spec (4 * (n + 1)) (by omega) n (by omega)).2.2

/-! ### continuation chain -/

def kpv : Nat → VCell
  | 0 => .atom .number
  | j+1 => .ptr (j + 2)

structure ContCells (h : Heap.Heap) (k : Nat) : Prop where
  sym : h.cells[0]? = some (.symbol "acc".toList)
  lam : h.cells[1]? = some lamCell
  cont : ∀ j, j < k → h.cells[j + 2]? = some (.cont [kpv j] 1 0)

theorem contLevels_spec (cap : Nat) (h4 : cap % 4 = 0) : ∀ k, k + 2 ≤ cap →
    Fresh cap (k + 2) (contLevels cap k).1 ∧ (contLevels cap k).2 = kpv k ∧ ContCells (contLevels cap k).1 k
  | 0, hle => by
    obtain ⟨f, s, l⟩ := chainBase_spec cap h4 (by omega)
    exact ⟨f, rfl, s, l, fun j hj => by omega⟩
  | k+1, hle => by
    obtain ⟨fr, hv, cc⟩ := contLevels_spec cap h4 k (by omega)
    obtain ⟨a1, f1, c1⟩ := putAt_fresh fr (by omega) (plainish_cont [(contLevels cap k).2] 1 0)
    have s0 : k + 2 < (contLevels cap k).1.cells.size := by rw [fr.csize]; omega
    have look : ∀ i, (contLevels cap (k + 1)).1.cells[i]? =
        if i = k + 2 then some (.cont [kpv k] 1 0) else (contLevels cap k).1.cells[i]? := by
      intro i
      show (putAt _ _).1.cells[i]? = _
      rw [c1, get_set s0, hv]
    refine ⟨f1, ?_, ?_⟩
    · show VCell.ptr (putAt _ _).2 = _
      rw [a1]; simp [kpv]
    · refine ⟨?_, ?_, ?_⟩
      · rw [look]; simp only [show ¬ (0 = k + 2) by omega, if_false]; exact cc.sym
      · rw [look]; simp only [show ¬ (1 = k + 2) by omega, if_false]; exact cc.lam
      · intro j hj
        rw [look]
        by_cases e : j = k
        · subst e; simp only [if_true]
        · simp only [show ¬ (j + 2 = k + 2) by omega, if_false]
          exact cc.cont j (by omega)

theorem contChain_cells (n : Nat) : ContCells (contChain n) n :=
  (contLevels_spec (4 * (n + 1)) (by omega) n (by omega)).2.2


theorem closureChain_size (n : Nat) : (closureChain n).cells.size = 4 * (n + 1) :=
  (closureLevels_spec (4 * (n + 1)) (by omega) n (by omega)).1.csize

theorem contChain_size (n : Nat) : (contChain n).cells.size = 4 * (n + 1) :=
  (contLevels_spec (4 * (n + 1)) (by omega) n (by omega)).1.csize

/-! ## the walk of the marker -/

section walk
variable {h : Heap.Heap}

theorem markAt_marked {c : VCell} {p : Nat} (f : Nat) (ms : List Nat) (d : Nat) (hc : h.cells[p]? = some c)
    (hm : p ∈ ms) : markAt h f ms d p = (d, ms) := by
  cases f with
  | zero => simp [markAt]
  | succ f => simp [markAt, hc, hm]

theorem markV_lexEnvPtr (f : Nat) (ms : List Nat) (d q s : Nat) :
    markV h (f + 1) ms d (.lexEnvPtr q s) = markAt h f ms (d + 1) q := by simp [markV]

theorem markV_ptr (f : Nat) (ms : List Nat) (d q : Nat) :
    markV h (f + 1) ms d (.ptr q) = markAt h f ms (d + 1) q := by simp [markV]

theorem markV_atom (f : Nat) (ms : List Nat) (d : Nat) (a : Heap.Atom) :
    markV h f ms d (.atom a) = (d, ms) := by
  cases f <;> simp [markV]

theorem markVs_nil (f : Nat) (ms : List Nat) (d : Nat) : markVs h f ms d [] = (d, ms) := by
  cases f <;> simp [markVs]

/-- an environment with one slot -/
theorem markAt_lexEnv1 {p : Nat} {v : VCell} (f : Nat) (ms : List Nat) (d : Nat)
    (hc : h.cells[p]? = some (.lexEnv [v])) (hm : p ∉ ms) :
    markAt h (f + 3) ms d p =
      (max (markV h (f + 1) (p :: ms) (d + 1) v).1 d, (markV h (f + 1) (p :: ms) (d + 1) v).2) := by
  simp [markAt, hc, hm, markVs]

theorem markAt_closure {p l e : Nat} (f : Nat) (ms : List Nat) (d : Nat)
    (hc : h.cells[p]? = some (.closure l e)) (hm : p ∉ ms) :
    markAt h (f + 1) ms d p =
      (max (markAt h f (p :: ms) (d + 1) l).1 (markAt h f (markAt h f (p :: ms) (d + 1) l).2 (d + 1) e).1,
        (markAt h f (markAt h f (p :: ms) (d + 1) l).2 (d + 1) e).2) := by
  simp [markAt, hc, hm]

theorem notMem_of {ms : List Nat} {b q : Nat} (hall : ∀ x ∈ ms, x ≤ 1 ∨ b ≤ x) (h1 : 1 < q) (h2 : q < b) : q ∉ ms := by
  intro hc
  have := hall q hc
  omega

/-- marking the code object and its symbol, both unmarked: three frames below the frame of `mark(code)` -/
theorem markAt_lam {f : Nat} {ms : List Nat} {d : Nat} (hl : h.cells[1]? = some lamCell)
    (hs : h.cells[0]? = some (.symbol "acc".toList)) (h1 : 1 ∉ ms) (h0 : 0 ∉ ms) :
    markAt h (f + 12) ms d 1 = (d + 3, 0 :: 1 :: ms) := by
  simp [markAt, markLamAt, markBc, markVs, markV, hl, hs, lamCell, h1, h0, VCell.isJumpOp, Heap.Op.isJump]

/-! ### closure chain -/

theorem closure_env_walk {n : Nat} (cc : ClosureCells h n) : ∀ j, j < n → ∀ f, 7 * j + 7 ≤ f → ∀ (ms : List Nat) (d : Nat),
    1 ∈ ms → (∀ x ∈ ms, x ≤ 1 ∨ 3 * j + 4 ≤ x) → (markAt h f ms d (3 * j + 3)).1 = d + 5 * j + 3 := by
  intro j
  induction j with
  | zero =>
    intro hj f hf ms d _ hall
    obtain ⟨g, rfl⟩ : ∃ g, f = g + 7 := ⟨f - 7, by omega⟩
    have e0 : (3 * 0 + 3) ∉ ms := notMem_of hall (by omega) (by omega)
    have e1 : (3 * 0 + 2) ∉ ((3 * 0 + 3) :: ms) := by
      have := notMem_of hall (q := 2) (by omega) (by omega)
      simp [this]
    rw [show g + 7 = (g + 4) + 3 from rfl, markAt_lexEnv1 _ _ _ (cc.env 0 hj) e0, markV_lexEnvPtr,
      show g + 4 = (g + 1) + 3 from rfl, markAt_lexEnv1 _ _ _ (cc.act 0 hj) e1]
    simp only [cpv, markV_atom]
    omega
  | succ j ih =>
    intro hj f hf ms d h1 hall
    obtain ⟨g, rfl⟩ : ∃ g, f = g + 7 := ⟨f - 7, by omega⟩
    have e0 : (3 * (j + 1) + 3) ∉ ms := notMem_of hall (by omega) (by omega)
    have e1 : (3 * (j + 1) + 2) ∉ ((3 * (j + 1) + 3) :: ms) := by
      have := notMem_of hall (q := 3 * (j + 1) + 2) (by omega) (by omega)
      simp [this]
    have e2 : (3 * j + 4) ∉ ((3 * (j + 1) + 2) :: (3 * (j + 1) + 3) :: ms) := by
      have := notMem_of hall (q := 3 * j + 4) (by omega) (by omega)
      simp only [List.mem_cons, this, or_false, not_or]
      omega
    have e3 : 1 ∈ ((3 * j + 4) :: (3 * (j + 1) + 2) :: (3 * (j + 1) + 3) :: ms) := by
      simp only [List.mem_cons, h1, or_true]
    rw [show g + 7 = (g + 4) + 3 from rfl, markAt_lexEnv1 _ _ _ (cc.env (j + 1) hj) e0, markV_lexEnvPtr,
      show g + 4 = (g + 1) + 3 from rfl, markAt_lexEnv1 _ _ _ (cc.act (j + 1) hj) e1]
    simp only [cpv]
    rw [markV_ptr, markAt_closure _ _ _ (cc.clo j (by omega)) e2, markAt_marked _ _ _ cc.lam e3]
    simp only
    have := ih (by omega) g (by omega) ((3 * j + 4) :: (3 * (j + 1) + 2) :: (3 * (j + 1) + 3) :: ms) (d + 1 + 1 + 1 + 1 + 1) e3
      (by
        intro x hx
        simp only [List.mem_cons] at hx
        rcases hx with rfl | rfl | rfl | hx
        · omega
        · omega
        · omega
        · have := hall x hx; omega)
    rw [this]
    omega

/-- **closure chain, closed form**: marking the outermost closure of a chain of `n ≥ 1` closures holds `5·n` frames -/
theorem markDepth_closureChain (m : Nat) : markDepthHeap (closureChain (m + 1)) [closureRoot (m + 1)] = 5 * (m + 1) := by
  have cc := closureChain_cells (m + 1)
  have hsz := closureChain_size (m + 1)
  have hfuel : 32 * (m + 1) + 40 ≤ markGraphFuel (closureChain (m + 1)) := by
    unfold markGraphFuel; rw [hsz]; omega
  obtain ⟨g, hg⟩ : ∃ g, markGraphFuel (closureChain (m + 1)) = (g + 12) + 1 :=
    ⟨markGraphFuel (closureChain (m + 1)) - 13, by omega⟩
  have hroot : closureRoot (m + 1) = 3 * m + 4 := by simp [closureRoot]; omega
  simp only [markDepthHeap, markRoots, hg, hroot]
  have e0 : (3 * m + 4) ∉ ([] : List Nat) := by simp
  rw [markAt_closure _ _ _ (cc.clo m (by omega)) e0,
    markAt_lam cc.lam cc.sym (by simp <;> omega) (by simp)]
  simp only
  have := closure_env_walk cc m (by omega) (g + 12) (by omega) [0, 1, 3 * m + 4] (1 + 1) (by simp)
    (by intro x hx; simp only [List.mem_cons, List.not_mem_nil, or_false] at hx; omega)
  rw [this]
  omega

/-! ### continuation chain -/

theorem notMem_ge {ms : List Nat} {b q : Nat} (hall : ∀ x ∈ ms, b ≤ x) (h2 : q < b) : q ∉ ms := by
  intro hc
  have := hall q hc
  omega

theorem markAt_cont1 {p l e : Nat} {v : VCell} (f : Nat) (ms : List Nat) (d : Nat)
    (hc : h.cells[p]? = some (.cont [v] l e)) (hm : p ∉ ms) :
    markAt h (f + 3) ms d p =
      (max (max (markV h f (p :: ms) (d + 1 + 1) v).1 (d + 1))
        (max (markAt h (f + 1) (markV h f (p :: ms) (d + 1 + 1) v).2 (d + 1 + 1) l).1
          (markAt h (f + 1) (markAt h (f + 1) (markV h f (p :: ms) (d + 1 + 1) v).2 (d + 1 + 1) l).2 (d + 1 + 1) e).1),
        (markAt h (f + 1) (markAt h (f + 1) (markV h f (p :: ms) (d + 1 + 1) v).2 (d + 1 + 1) l).2 (d + 1 + 1) e).2) := by
  have hm' : ms.contains p = false := by simpa using hm
  rw [show f + 3 = (f + 2) + 1 from rfl, markAt]
  simp only [hc, hm', Bool.false_eq_true, if_false]
  rw [markContAt, markVs, markVs_nil]

theorem cont_walk {n : Nat} (cc : ContCells h n) : ∀ j, j < n → ∀ f, 4 * j + 16 ≤ f → ∀ (ms : List Nat) (d : Nat),
    (∀ x ∈ ms, j + 3 ≤ x) →
    ∃ ms', markAt h f ms d (j + 2) = (d + 3 * j + 5, ms') ∧ 1 ∈ ms' ∧ 0 ∈ ms' ∧ ∀ x ∈ ms', x ∈ ms ∨ x ≤ j + 2 := by
  intro j
  induction j with
  | zero =>
    intro hj f hf ms d hall
    obtain ⟨g, rfl⟩ : ∃ g, f = (g + 12) + 1 + 3 := ⟨f - 16, by omega⟩
    have e0 : (0 + 2) ∉ ms := notMem_ge hall (by omega)
    rw [markAt_cont1 _ _ _ (cc.cont 0 hj) e0]
    simp only [kpv, markV_atom]
    have e1 : 1 ∉ ((0 + 2) :: ms) := by
      have := notMem_ge hall (q := 1) (by omega); simp [this]
    have e2 : 0 ∉ ((0 + 2) :: ms) := by
      have := notMem_ge hall (q := 0) (by omega); simp [this]
    rw [show g + 12 + 1 + 1 = (g + 2) + 12 from by omega, markAt_lam cc.lam cc.sym e1 e2,
      markAt_marked _ _ _ cc.sym (by simp)]
    refine ⟨_, by congr 1; omega, by simp, by simp, ?_⟩
    intro x hx
    simp only [List.mem_cons] at hx
    rcases hx with rfl | rfl | rfl | hx
    · right; omega
    · right; omega
    · right; omega
    · left; exact hx
  | succ j ih =>
    intro hj f hf ms d hall
    obtain ⟨g, rfl⟩ : ∃ g, f = (g + 1) + 3 := ⟨f - 4, by omega⟩
    have e0 : (j + 1 + 2) ∉ ms := notMem_ge hall (by omega)
    rw [markAt_cont1 _ _ _ (cc.cont (j + 1) hj) e0]
    simp only [kpv, markV_ptr]
    obtain ⟨ms', hw, m1, m0, hsub⟩ := ih (by omega) g (by omega) ((j + 1 + 2) :: ms) (d + 1 + 1 + 1) (by
      intro x hx
      rcases List.mem_cons.mp hx with rfl | hx
      · omega
      · have := hall x hx; omega)
    rw [hw]
    simp only
    rw [markAt_marked _ _ _ cc.lam m1, markAt_marked _ _ _ cc.sym m0]
    refine ⟨ms', by congr 1; omega, m1, m0, ?_⟩
    intro x hx
    rcases hsub x hx with h1 | h1
    · rcases List.mem_cons.mp h1 with rfl | h2
      · right; omega
      · left; exact h2
    · right; omega

/-- **continuation chain, closed form**: marking the newest of `n ≥ 1` continuations, each captured while the
    previous one was on the stack, holds `3·n + 3` frames -/
theorem markDepth_contChain (m : Nat) : markDepthHeap (contChain (m + 1)) [contRoot (m + 1)] = 3 * (m + 1) + 3 := by
  have cc := contChain_cells (m + 1)
  have hsz := contChain_size (m + 1)
  have hfuel : 32 * (m + 1) + 40 ≤ markGraphFuel (contChain (m + 1)) := by
    unfold markGraphFuel; rw [hsz]; omega
  have hroot : contRoot (m + 1) = m + 2 := by simp [contRoot]
  simp only [markDepthHeap, markRoots, hroot]
  obtain ⟨ms', hw, _⟩ := cont_walk cc m (by omega) (markGraphFuel (contChain (m + 1))) (by omega) [] 1 (by simp)
  rw [hw]
  simp only
  omega

end walk

end Marwood.Depth
