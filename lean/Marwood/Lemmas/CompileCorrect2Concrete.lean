import Marwood.Lemmas.ConcreteLawsOps
/-!
# T01.3 stage 2 on the concrete heap — what an allocation does to the cells

`Vm/ConcreteHeap.lean`'s allocator reuses addresses (free list, head first; growth by whole chunks). For the
representation of stage 2 to survive an allocation, the address it returns must not be in use. The invariant
that guarantees this is the one the real heap maintains: **a free cell holds `Undefined`** (`Heap::free`
overwrites, `Heap::grow` fills) and the free list has no duplicates (`FreeInv`). Under it an allocation
`cput h c` returns an address whose cell was `Undefined` (or did not exist), writes `c` there, and changes no
other cell (`Alloc`); every cell that was not `Undefined` is kept, and the only new non-`Undefined` cell is the
allocated one.
-/
namespace Marwood.Vm.Concrete
open Marwood Marwood.Vm
open Marwood.Heap (GcState)

/-- free cells are `Undefined`; no address is free twice -/
structure FreeInv (h : CHeap) : Prop where
  undef : ∀ p ∈ h.free, h.cells[p]? = some (CCell.val .undefined)
  nodup : h.free.Nodup

/-- `h'` is `h` with `c` written to the cell `p`, which was `Undefined` or did not exist; cells that did not
    exist in `h` and are not `p` are `Undefined` -/
structure Alloc (h h' : CHeap) (p : Nat) (c : CCell) : Prop where
  cell : h'.cells[p]? = some c
  was : h.cells[p]? = some (CCell.val .undefined) ∨ h.cells.size ≤ p
  old : ∀ i, i ≠ p → i < h.cells.size → h'.cells[i]? = h.cells[i]?
  fresh : ∀ i c', i ≠ p → h.cells.size ≤ i → h'.cells[i]? = some c' → c' = CCell.val .undefined
  size : h.cells.size ≤ h'.cells.size
  globals : h'.globals = h.globals
  globSyms : h'.globSyms = h.globSyms

theorem grown_gt {h : CHeap} (inv : CInv h) : h.cells.size < Heap.Heap.grownSize h.chunk h.cells.size := by
  obtain ⟨hc, _, k, hk, hsize⟩ := inv.shape
  unfold Heap.Heap.grownSize
  rw [hsize, Nat.mul_div_cancel _ hc]
  exact Nat.mul_lt_mul_of_pos_right (by omega) hc

theorem cgrow_size {h : CHeap} (inv : CInv h) :
    (cgrow h).cells.size = Heap.Heap.grownSize h.chunk h.cells.size := by
  have := grown_gt inv
  simp [cgrow]; omega

theorem cgrow_new_undef (h : CHeap) {i : Nat} (hi : h.cells.size ≤ i) (hlt : i < (cgrow h).cells.size) :
    (cgrow h).cells[i]? = some (CCell.val .undefined) := by
  have hsz : (cgrow h).cells.size = h.cells.size + (Heap.Heap.grownSize h.chunk h.cells.size - h.cells.size) := by
    simp [cgrow]
  simp only [cgrow]
  rw [Array.getElem?_append_right hi, Array.getElem?_replicate]
  have : i - h.cells.size < Heap.Heap.grownSize h.chunk h.cells.size - h.cells.size := by omega
  simp [this]

/-- growing an exhausted heap: the new cells are the free list -/
theorem cgrow_freeInv {h : CHeap} (inv : CInv h) (hf : h.free = []) :
    FreeInv (cgrow h) ∧ (cgrow h).free ≠ [] ∧ ∀ p ∈ (cgrow h).free, h.cells.size ≤ p := by
  have hgt := grown_gt inv
  have hsz := cgrow_size inv
  have hfree : (cgrow h).free =
      (List.range' h.cells.size (Heap.Heap.grownSize h.chunk h.cells.size - h.cells.size)).reverse := by
    simp [cgrow, hf]
  have hmem : ∀ p ∈ (cgrow h).free, h.cells.size ≤ p ∧ p < (cgrow h).cells.size := by
    intro p hp
    rw [hfree, List.mem_reverse, List.mem_range'_1] at hp
    omega
  refine ⟨⟨fun p hp => cgrow_new_undef h (hmem p hp).1 (hmem p hp).2, ?_⟩, ?_, fun p hp => (hmem p hp).1⟩
  · rw [hfree]
    exact List.pairwise_reverse.mpr (List.Pairwise.imp (fun h => Ne.symm h) List.nodup_range')
  · rw [hfree]
    intro hnil
    have : (List.range' h.cells.size (Heap.Heap.grownSize h.chunk h.cells.size - h.cells.size)).length = 0 := by
      rw [← List.length_reverse, hnil]; rfl
    simp at this
    omega

theorem getElem?_lt {α : Type} {a : Array α} {i : Nat} {v : α} (h : a[i]? = some v) : i < a.size := by
  rcases Nat.lt_or_ge i a.size with h1 | h1
  · exact h1
  · simp [Array.getElem?_eq_none h1] at h

/-- taking the head of the free list -/
theorem takeFree_spec {h : CHeap} (fi : FreeInv h) {p : Nat} {rest : List Nat} (hf : h.free = p :: rest) :
    (takeFree h p rest).1.cells = h.cells ∧ FreeInv (takeFree h p rest).1 ∧ p ∉ (takeFree h p rest).1.free ∧
    h.cells[p]? = some (CCell.val .undefined) := by
  have hnd := fi.nodup
  rw [hf] at hnd
  have hp : p ∉ rest := (List.nodup_cons.mp hnd).1
  refine ⟨rfl, ⟨fun q hq => ?_, (List.nodup_cons.mp hnd).2⟩, hp, fi.undef p (by rw [hf]; simp)⟩
  exact fi.undef q (by rw [hf]; exact List.mem_cons_of_mem _ hq)

/-- `Heap::alloc` followed by the write of `c` -/
theorem cput_alloc {h : CHeap} (inv : CInv h) (fi : FreeInv h) (c : CCell) :
    Alloc h (cput h c).1 (cput h c).2 c ∧ FreeInv (cput h c).1 := by
  unfold cput calloc
  cases hf : h.free with
  | cons p rest =>
    obtain ⟨hcells, fi1, hp, hund⟩ := takeFree_spec fi hf
    have hlt : p < h.cells.size := getElem?_lt hund
    simp only
    refine ⟨⟨?_, .inl hund, ?_, ?_, ?_, rfl, rfl⟩, ⟨fun q hq => ?_, fi1.nodup⟩⟩
    · show (h.cells.setIfInBounds p c)[p]? = some c
      simp [hlt]
    · intro i hi _
      have hi' : i ≠ p := hi
      show (h.cells.setIfInBounds p c)[i]? = h.cells[i]?
      rw [Array.getElem?_setIfInBounds_ne (fun e => hi' e.symm)]
    · intro i c' hi hge hc'
      have : (h.cells.setIfInBounds p c)[i]? = some c' := hc'
      have := getElem?_lt this
      simp at this; omega
    · show h.cells.size ≤ (h.cells.setIfInBounds p c).size
      simp
    · have hq' : q ∈ rest := hq
      have hne : p ≠ q := fun e => hp (e ▸ hq')
      show (h.cells.setIfInBounds p c)[q]? = _
      rw [Array.getElem?_setIfInBounds_ne hne]
      exact fi1.undef q hq
  | nil =>
    obtain ⟨fg, hne, hge⟩ := cgrow_freeInv inv hf
    have ginv : CInv (cgrow h) := (cgrow_grows (P := NoCont) inv).inv inv (fun c hc => hc.elim)
    simp only
    cases hg : (cgrow h).free with
    | nil => exact absurd hg hne
    | cons p rest =>
      obtain ⟨hcells, fi1, hp, hund⟩ := takeFree_spec fg hg
      have hlt : p < (cgrow h).cells.size := getElem?_lt hund
      have hpge : h.cells.size ≤ p := hge p (by rw [hg]; simp)
      simp only
      refine ⟨⟨?_, .inr hpge, ?_, ?_, ?_, rfl, rfl⟩, ⟨fun q hq => ?_, fi1.nodup⟩⟩
      · show ((cgrow h).cells.setIfInBounds p c)[p]? = some c
        simp [hlt]
      · intro i hi hil
        have hi' : i ≠ p := hi
        show ((cgrow h).cells.setIfInBounds p c)[i]? = h.cells[i]?
        rw [Array.getElem?_setIfInBounds_ne (fun e => hi' e.symm)]
        exact cgrow_cells_old h hil
      · intro i c' hi hge' hc'
        have hi' : i ≠ p := hi
        have h1 : ((cgrow h).cells.setIfInBounds p c)[i]? = some c' := hc'
        rw [Array.getElem?_setIfInBounds_ne (fun e => hi' e.symm)] at h1
        exact cgrow_cells_new h hge' h1
      · show h.cells.size ≤ ((cgrow h).cells.setIfInBounds p c).size
        simp; omega
      · have hq' : q ∈ rest := hq
        have hne' : p ≠ q := fun e => hp (e ▸ hq')
        show ((cgrow h).cells.setIfInBounds p c)[q]? = _
        rw [Array.getElem?_setIfInBounds_ne hne']
        exact fi1.undef q hq

/-! ## consequences for the cells -/

/-- every cell that was not `Undefined` is kept -/
theorem Alloc.kept {h h' : CHeap} {p : Nat} {c : CCell} (a : Alloc h h' p c) {i : Nat} {c0 : CCell}
    (hc : h.cells[i]? = some c0) (hne : c0 ≠ CCell.val .undefined) : h'.cells[i]? = some c0 := by
  have hlt := getElem?_lt hc
  have hip : i ≠ p := by
    intro e; subst e
    rcases a.was with h1 | h1
    · rw [h1] at hc; cases hc; exact hne rfl
    · omega
  rw [a.old i hip hlt]; exact hc

/-- the only new cell that is not `Undefined` is the allocated one -/
theorem Alloc.onlyNew {h h' : CHeap} {p : Nat} {c : CCell} (a : Alloc h h' p c) {i : Nat} {c' : CCell}
    (hc : h'.cells[i]? = some c') (hne : c' ≠ CCell.val .undefined) : i = p ∨ h.cells[i]? = some c' := by
  by_cases hip : i = p
  · exact .inl hip
  · right
    by_cases hlt : i < h.cells.size
    · rw [← a.old i hip hlt]; exact hc
    · exact absurd (a.fresh i c' hip (by omega) hc) hne

/-- the allocated address was not in use -/
theorem Alloc.unused {h h' : CHeap} {p : Nat} {c : CCell} (a : Alloc h h' p c) {c0 : CCell}
    (hc : h.cells[p]? = some c0) : c0 = CCell.val .undefined := by
  rcases a.was with h1 | h1
  · rw [h1] at hc; cases hc; rfl
  · have := getElem?_lt hc; omega

end Marwood.Vm.Concrete
