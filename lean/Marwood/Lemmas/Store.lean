import Marwood.Spec.StoreViews
/-!
# Basic lemmas about the store model: `get`/`put`/`alloc`/`setCell`, the typed poppers, `finish`,
and the frame relations.
-/
namespace Marwood.Store
open Outcome

/-- a value that may travel on the stack: a reference or an immediate scalar -/
def VCell.isValue : VCell → Bool
  | .ptr _ | .bool _ | .char _ | .nil | .num _ | .void | .undef => true
  | _ => false

theorem finish_value {s : Store} {v : VCell} (h : v.isValue = true) :
    finish (.ok (s, v)) = .ok (s, v) := by
  cases v <;> simp [VCell.isValue] at h <;> rfl

@[simp] theorem finish_ptr (s : Store) (a : Nat) : finish (.ok (s, .ptr a)) = .ok (s, .ptr a) := rfl
@[simp] theorem finish_void (s : Store) : finish (.ok (s, .void)) = .ok (s, .void) := rfl
@[simp] theorem finish_num (s : Store) (n : Int) : finish (.ok (s, .num n)) = .ok (s, .num n) := rfl
@[simp] theorem finish_bool (s : Store) (b : Bool) : finish (.ok (s, .bool b)) = .ok (s, .bool b) := rfl
@[simp] theorem finish_err (e : Err) : finish (.err e) = .err e := rfl

/-! ## get -/

@[simp] theorem get_ptr (s : Store) (a : Nat) :
    s.get (.ptr a) = ofOption "heap index out of bounds" s.cells[a]? := rfl

theorem get_of_cell {s : Store} {a : Nat} {c : VCell} (h : s.cells[a]? = some c) :
    s.get (.ptr a) = .ok c := by simp [h]

theorem cell_of_get {s : Store} {a : Nat} {c : VCell} (h : s.get (.ptr a) = .ok c) :
    s.cells[a]? = some c := by
  simp only [get_ptr] at h
  cases hc : s.cells[a]? with
  | none => simp [hc, ofOption] at h
  | some x => simp [hc, ofOption] at h; simp [h]

/-- `get` depends on the heap cells only -/
theorem get_congr {s s' : Store} (h : s'.cells = s.cells) (v : VCell) : s'.get v = s.get v := by
  cases v <;> simp [Store.get, h]

theorem get_imm {s : Store} {v : VCell} (h : v.isPtr = false) : s.get v = .ok v := by
  cases v <;> simp [VCell.isPtr] at h <;> rfl

/-! ## Extends -/

theorem Extends.refl (s : Store) : Extends s s := ⟨fun _ _ => rfl, fun _ _ => rfl, fun _ _ => rfl⟩

theorem Extends.len {s s' : Store} (h : Extends s s') : s.cells.length ≤ s'.cells.length := by
  rcases Nat.lt_or_ge s'.cells.length s.cells.length with hlt | hge
  · have := h.cells s'.cells.length hlt
    rw [List.getElem?_eq_none (Nat.le_refl _)] at this
    have h2 := List.getElem?_eq_none_iff.mp this.symm
    omega
  · exact hge

theorem Extends.vlen {s s' : Store} (h : Extends s s') : s.vecs.length ≤ s'.vecs.length := by
  rcases Nat.lt_or_ge s'.vecs.length s.vecs.length with hlt | hge
  · have := h.vecs s'.vecs.length hlt
    rw [List.getElem?_eq_none (Nat.le_refl _)] at this
    have h2 := List.getElem?_eq_none_iff.mp this.symm
    omega
  · exact hge

theorem Extends.slen {s s' : Store} (h : Extends s s') : s.strs.length ≤ s'.strs.length := by
  rcases Nat.lt_or_ge s'.strs.length s.strs.length with hlt | hge
  · have := h.strs s'.strs.length hlt
    rw [List.getElem?_eq_none (Nat.le_refl _)] at this
    have h2 := List.getElem?_eq_none_iff.mp this.symm
    omega
  · exact hge

theorem Extends.trans {a b c : Store} (h1 : Extends a b) (h2 : Extends b c) : Extends a c := by
  refine ⟨fun i hi => ?_, fun i hi => ?_, fun i hi => ?_⟩
  · rw [h2.cells i (Nat.lt_of_lt_of_le hi h1.len), h1.cells i hi]
  · rw [h2.vecs i (Nat.lt_of_lt_of_le hi h1.vlen), h1.vecs i hi]
  · rw [h2.strs i (Nat.lt_of_lt_of_le hi h1.slen), h1.strs i hi]

theorem Extends.cell {s s' : Store} (h : Extends s s') {a : Nat} {c : VCell}
    (hc : s.cells[a]? = some c) : s'.cells[a]? = some c := by
  have hlt : a < s.cells.length := by
    rcases Nat.lt_or_ge a s.cells.length with h1 | h1
    · exact h1
    · rw [List.getElem?_eq_none h1] at hc; cases hc
  rw [h.cells a hlt, hc]

theorem Extends.get {s s' : Store} (h : Extends s s') {v c : VCell} (hg : s.get v = .ok c) :
    s'.get v = .ok c := by
  cases v with
  | ptr a => exact get_of_cell (h.cell (cell_of_get hg))
  | _ => simpa [Store.get] using hg

theorem Extends.vec {s s' : Store} (h : Extends s s') {i : Nat} {xs : List VCell}
    (hc : s.vecs[i]? = some xs) : s'.vecs[i]? = some xs := by
  have hlt : i < s.vecs.length := by
    rcases Nat.lt_or_ge i s.vecs.length with h1 | h1
    · exact h1
    · rw [List.getElem?_eq_none h1] at hc; cases hc
  rw [h.vecs i hlt, hc]

theorem Extends.str {s s' : Store} (h : Extends s s') {i : Nat} {t : Text}
    (hc : s.strs[i]? = some t) : s'.strs[i]? = some t := by
  have hlt : i < s.strs.length := by
    rcases Nat.lt_or_ge i s.strs.length with h1 | h1
    · exact h1
    · rw [List.getElem?_eq_none h1] at hc; cases hc
  rw [h.strs i hlt, hc]

/-! ## alloc / put -/

theorem alloc_extends (s : Store) (c : VCell) : Extends s (s.alloc c).1 := by
  refine ⟨fun i hi => ?_, fun _ _ => rfl, fun _ _ => rfl⟩
  simp [Store.alloc, List.getElem?_append_left hi]

@[simp] theorem alloc_cell (s : Store) (c : VCell) :
    (s.alloc c).1.cells[(s.alloc c).2]? = some c := by
  simp [Store.alloc]

@[simp] theorem alloc_snd (s : Store) (c : VCell) : (s.alloc c).2 = s.cells.length := rfl
@[simp] theorem alloc_len (s : Store) (c : VCell) :
    (s.alloc c).1.cells.length = s.cells.length + 1 := by simp [Store.alloc]
@[simp] theorem alloc_vecs (s : Store) (c : VCell) : (s.alloc c).1.vecs = s.vecs := rfl
@[simp] theorem alloc_strs (s : Store) (c : VCell) : (s.alloc c).1.strs = s.strs := rfl

theorem findSym_some {s : Store} {name : Text} {a : Nat} (h : s.findSym name = some a) :
    s.cells[a]? = some (.sym name) := by
  unfold Store.findSym at h
  simp only at h
  split at h
  · rename_i hlt
    cases h
    rw [List.getElem?_eq_getElem hlt]
    simp
  · cases h

/-- `heap.put v` returns a reference `ptr w` that denotes `v`, and only allocates -/
theorem put_spec (s : Store) (v : VCell) :
    ∃ w, (s.put v).2 = .ptr w ∧ Extends s (s.put v).1 ∧ Denotes (s.put v).1 w v ∧
      (s.put v).1.vecs = s.vecs ∧ (s.put v).1.strs = s.strs ∧
      (v.isPtr = false → (s.put v).1.cells[w]? = some v) := by
  cases v with
  | ptr a => exact ⟨a, rfl, Extends.refl s, Or.inl rfl, rfl, rfl, by simp [VCell.isPtr]⟩
  | sym name =>
    simp only [Store.put]
    cases hf : s.findSym name with
    | some a =>
      exact ⟨a, rfl, Extends.refl s, Or.inr ⟨rfl, findSym_some hf⟩, rfl, rfl,
        fun _ => findSym_some hf⟩
    | none =>
      exact ⟨s.cells.length, rfl, alloc_extends s _, Or.inr ⟨rfl, alloc_cell s _⟩, rfl, rfl,
        fun _ => alloc_cell s _⟩
  | bool b => exact ⟨s.cells.length, rfl, alloc_extends s _, Or.inr ⟨rfl, alloc_cell s _⟩, rfl, rfl, fun _ => alloc_cell s _⟩
  | char b => exact ⟨s.cells.length, rfl, alloc_extends s _, Or.inr ⟨rfl, alloc_cell s _⟩, rfl, rfl, fun _ => alloc_cell s _⟩
  | nil => exact ⟨s.cells.length, rfl, alloc_extends s _, Or.inr ⟨rfl, alloc_cell s _⟩, rfl, rfl, fun _ => alloc_cell s _⟩
  | num b => exact ⟨s.cells.length, rfl, alloc_extends s _, Or.inr ⟨rfl, alloc_cell s _⟩, rfl, rfl, fun _ => alloc_cell s _⟩
  | void => exact ⟨s.cells.length, rfl, alloc_extends s _, Or.inr ⟨rfl, alloc_cell s _⟩, rfl, rfl, fun _ => alloc_cell s _⟩
  | undef => exact ⟨s.cells.length, rfl, alloc_extends s _, Or.inr ⟨rfl, alloc_cell s _⟩, rfl, rfl, fun _ => alloc_cell s _⟩
  | pair a d => exact ⟨s.cells.length, rfl, alloc_extends s _, Or.inr ⟨rfl, alloc_cell s _⟩, rfl, rfl, fun _ => alloc_cell s _⟩
  | str b => exact ⟨s.cells.length, rfl, alloc_extends s _, Or.inr ⟨rfl, alloc_cell s _⟩, rfl, rfl, fun _ => alloc_cell s _⟩
  | vec b => exact ⟨s.cells.length, rfl, alloc_extends s _, Or.inr ⟨rfl, alloc_cell s _⟩, rfl, rfl, fun _ => alloc_cell s _⟩
  | builtin b => exact ⟨s.cells.length, rfl, alloc_extends s _, Or.inr ⟨rfl, alloc_cell s _⟩, rfl, rfl, fun _ => alloc_cell s _⟩

/-- putting a pair (or any non-symbol aggregate) allocates exactly one fresh cell -/
theorem put_pair (s : Store) (a d : Nat) :
    s.put (.pair a d) = ({ s with cells := s.cells ++ [.pair a d] }, .ptr s.cells.length) := rfl

theorem put_nil (s : Store) :
    s.put .nil = ({ s with cells := s.cells ++ [.nil] }, .ptr s.cells.length) := rfl

/-! ## typed poppers -/

theorem toUsize_natCast {k : Nat} (h : k < usizeLimit) : toUsize (k : Int) = some k := by
  show (if k < usizeLimit then some k else none) = some k
  rw [if_pos h]

theorem popIndex_of_isIndex {s : Store} {v : VCell} {k : Nat} (h : IsIndex s v k) :
    popIndex s v = .ok k := by
  simp only [popIndex, h.1, bind_ok, toUsize_natCast h.2, orErr_some]

theorem popIndex_of_notIndex {s : Store} {v : VCell} (h : NotIndex s v) :
    ∃ e, popIndex s v = .err e := by
  obtain ⟨c, hc, hne⟩ := h
  unfold popIndex
  simp only [hc, bind_ok]
  cases c with
  | num n =>
    cases n with
    | ofNat k =>
      by_cases hk : k < usizeLimit
      · exact absurd rfl (hne k hk)
      · refine ⟨.syntax, ?_⟩
        show orErr .syntax (if k < usizeLimit then some k else none) = _
        rw [if_neg hk]; rfl
    | negSucc k => exact ⟨_, rfl⟩
  | _ => exact ⟨_, rfl⟩

theorem popVector_of_isVec {s : Store} {v : VCell} {id : Nat} {xs : List VCell}
    (h : IsVec s v id xs) : popVector s v = .ok id := by
  unfold popVector; simp [h.1]

theorem vecGet_of_isVec {s : Store} {v : VCell} {id : Nat} {xs : List VCell}
    (h : IsVec s v id xs) : s.vecGet id = .ok xs := by
  unfold Store.vecGet; simp [h.2]

theorem isVec_lt {s : Store} {v : VCell} {id : Nat} {xs : List VCell}
    (h : IsVec s v id xs) : id < s.vecs.length := by
  rcases Nat.lt_or_ge id s.vecs.length with h1 | h1
  · exact h1
  · have := h.2; rw [List.getElem?_eq_none h1] at this; cases this

theorem vecSet_spec {s : Store} {id : Nat} (h : id < s.vecs.length) (ys : List VCell) :
    ∃ s', s.vecSet id ys = .ok s' ∧ OnlyVec s s' id ∧ s'.vecs[id]? = some ys := by
  refine ⟨{ s with vecs := s.vecs.set id ys }, by simp [Store.vecSet, h], ⟨rfl, by simp, ?_, rfl⟩, by simp [h]⟩
  intro i hi
  simp [Ne.symm hi]

theorem OnlyVec.get {s s' : Store} {id : Nat} (h : OnlyVec s s' id) (v : VCell) :
    s'.get v = s.get v := get_congr h.cells v

theorem OnlyVec.isIndex {s s' : Store} {id : Nat} (h : OnlyVec s s' id) {v : VCell} {k : Nat}
    (hi : IsIndex s v k) : IsIndex s' v k := ⟨by rw [h.get]; exact hi.1, hi.2⟩

theorem putRange_length (vals : List VCell) : ∀ (xs : List VCell) (at_ : Nat),
    (putRange xs at_ vals).length = xs.length := by
  induction vals with
  | nil => intro xs at_; rfl
  | cons v vals ih =>
    intro xs at_
    simp only [putRange]
    split
    · rw [ih]; simp
    · rw [ih]

/-- `putRange` changes exactly the positions `at ≤ i < at + |vals|` -/
theorem putRange_getElem? (vals : List VCell) : ∀ (xs : List VCell) (at_ i : Nat),
    at_ + vals.length ≤ xs.length →
    (putRange xs at_ vals)[i]? =
      if at_ ≤ i ∧ i < at_ + vals.length then vals[i - at_]? else xs[i]? := by
  induction vals with
  | nil =>
    intro xs at_ i _
    have : ¬ (at_ ≤ i ∧ i < at_ + ([] : List VCell).length) := by simp
    simp only [putRange, if_neg this]
  | cons v vals ih =>
    intro xs at_ i h
    simp only [List.length_cons] at h
    have hlt : at_ < xs.length := by omega
    simp only [putRange, if_pos hlt]
    rw [ih (xs.set at_ v) (at_ + 1) i (by simp; omega)]
    by_cases h1 : at_ + 1 ≤ i ∧ i < at_ + 1 + vals.length
    · have h2 : at_ ≤ i ∧ i < at_ + (v :: vals).length := by simp; omega
      rw [if_pos h1, if_pos h2]
      have : i - at_ = (i - (at_ + 1)) + 1 := by omega
      rw [this, List.getElem?_cons_succ]
    · rw [if_neg h1]
      by_cases h3 : i = at_
      · subst h3
        have h2 : i ≤ i ∧ i < i + (v :: vals).length := by simp
        rw [if_pos h2]
        simp [hlt]
      · have h2 : ¬ (at_ ≤ i ∧ i < at_ + (v :: vals).length) := by simp; omega
        rw [if_neg h2]
        simp [Ne.symm h3]

theorem usub_ok {site : String} {a b : Nat} (h : b ≤ a) : usub site a b = .ok (a - b) := by
  simp [usub, h]

/-- (a)(c) the body of `vector-copy!` on valid arguments: slots `a ≤ i < a + (en - st)` of the target
    receive the *original* source elements `st + (i - a)` (also when source and target are the same
    vector), every other slot and every other object is unchanged -/
theorem vectorCopyBang_go_ok {s : Store} {to at_ from_ : VCell} {tid fid a : Nat}
    {txs fxs : List VCell} (start end_ : Option Nat)
    (hto : IsVec s to tid txs) (hfrom : IsVec s from_ fid fxs) (hat : IsIndex s at_ a)
    (h1 : start.getD 0 ≤ end_.getD fxs.length) (h2 : end_.getD fxs.length ≤ fxs.length)
    (h3 : a + (end_.getD fxs.length - start.getD 0) ≤ txs.length) :
    ∃ s' ys, vectorCopyBang.go s to at_ from_ start end_ = .ok (s', .void) ∧ OnlyVec s s' tid ∧
      s'.vecs[tid]? = some ys ∧ ys.length = txs.length ∧
      ∀ i, ys[i]? = if a ≤ i ∧ i < a + (end_.getD fxs.length - start.getD 0)
                    then fxs[start.getD 0 + (i - a)]? else txs[i]? := by
  let st := start.getD 0
  let en := end_.getD fxs.length
  let vals := (fxs.drop st).take (en - st)
  have hvl : vals.length = en - st := by
    simp only [vals, List.length_take, List.length_drop]; omega
  obtain ⟨s', hs1, hs2, hs3⟩ := vecSet_spec (isVec_lt hto) (putRange txs a vals)
  refine ⟨s', putRange txs a vals, ?_, hs2, hs3, putRange_length _ _ _, ?_⟩
  · have c1 : ¬ (a > txs.length) := by omega
    have c2 : optExceeds start fxs.length = false := by
      cases start with
      | none => rfl
      | some x => simp only [Option.getD_some] at h1; simp [optExceeds]; omega
    have c3 : optExceeds end_ fxs.length = false := by
      cases end_ with
      | none => rfl
      | some x => simp only [Option.getD_some] at h2; simp [optExceeds]; omega
    have c4 : optInverted start end_ = false := by
      cases start with
      | none => cases end_ <;> rfl
      | some x => cases end_ with
        | none => rfl
        | some y => simp only [Option.getD_some] at h1; simp [optInverted]; omega
    have c5 : ¬ (en - st > txs.length - a) := by omega
    simp only [vectorCopyBang.go, popVector_of_isVec hfrom, popIndex_of_isIndex hat,
      popVector_of_isVec hto, vecGet_of_isVec hfrom, vecGet_of_isVec hto, bind_ok, if_neg c1, c2, c3,
      c4, Bool.false_eq_true, if_false, usub_ok h1, usub_ok (show a ≤ txs.length by omega)]
    rw [if_neg (show ¬ (end_.getD fxs.length - start.getD 0 > txs.length - a) from c5)]
    show (s.vecSet tid (putRange txs a vals) >>= fun s => Outcome.ok (s, VCell.void)) = _
    rw [hs1]; rfl
  · intro i
    rw [putRange_getElem? vals txs a i (by omega), hvl]
    by_cases hc : a ≤ i ∧ i < a + (en - st)
    · rw [if_pos hc, if_pos hc]
      simp only [vals, List.getElem?_take, List.getElem?_drop]
      rw [if_pos (by omega)]
    · rw [if_neg hc, if_neg hc]

theorem vectorCopyBang_go_err {s : Store} {to at_ from_ : VCell} {tid fid a : Nat}
    {txs fxs : List VCell} (start end_ : Option Nat)
    (hto : IsVec s to tid txs) (hfrom : IsVec s from_ fid fxs) (hat : IsIndex s at_ a)
    (hbad : ¬ (start.getD 0 ≤ end_.getD fxs.length ∧ end_.getD fxs.length ≤ fxs.length ∧
      a + (end_.getD fxs.length - start.getD 0) ≤ txs.length)) :
    ∃ e, vectorCopyBang.go s to at_ from_ start end_ = .err e := by
  simp only [vectorCopyBang.go, popVector_of_isVec hfrom, popIndex_of_isIndex hat,
      popVector_of_isVec hto, vecGet_of_isVec hfrom, vecGet_of_isVec hto, bind_ok]
  by_cases c1 : a > txs.length
  · exact ⟨_, by rw [if_pos c1]⟩
  rw [if_neg c1]
  by_cases c2 : optExceeds start fxs.length = true
  · exact ⟨_, by rw [if_pos c2]⟩
  rw [if_neg c2]
  by_cases c3 : optExceeds end_ fxs.length = true
  · exact ⟨_, by rw [if_pos c3]⟩
  rw [if_neg c3]
  by_cases c4 : optInverted start end_ = true
  · exact ⟨_, by rw [if_pos c4]⟩
  rw [if_neg c4]
  have e1 : start.getD 0 ≤ end_.getD fxs.length := by
    cases start with
    | none => simp
    | some x => cases end_ with
      | none => simp [optExceeds] at c2; simpa using c2
      | some y => simp [optInverted] at c4; simpa using c4
  have e2 : end_.getD fxs.length ≤ fxs.length := by
    cases end_ with
    | none => simp
    | some y => simp [optExceeds] at c3; simpa using c3
  have e3 : ¬ (a + (end_.getD fxs.length - start.getD 0) ≤ txs.length) := fun h => hbad ⟨e1, e2, h⟩
  rw [usub_ok e1, usub_ok (show a ≤ txs.length by omega)]
  simp only [bind_ok]
  have c5 : end_.getD fxs.length - start.getD 0 > txs.length - a := by omega
  exact ⟨_, by rw [if_pos c5]⟩

/-- a fresh vector: a new identity holding exactly `xs` -/
theorem newVec_finish (s : Store) (xs : List VCell) :
    ∃ s' p, finish (.ok (s.newVec xs)) = .ok (s', .ptr p) ∧ IsVec s' (.ptr p) s.vecs.length xs ∧
      Extends s s' := by
  refine ⟨{ cells := s.cells ++ [.vec s.vecs.length], vecs := s.vecs ++ [xs], strs := s.strs },
    s.cells.length, rfl, ⟨?_, ?_⟩, ⟨fun i hi => ?_, fun i hi => ?_, fun _ _ => rfl⟩⟩
  · simp [Store.get, ofOption]
  · simp
  · simp [List.getElem?_append_left hi]
  · simp [List.getElem?_append_left hi]

end Marwood.Store
