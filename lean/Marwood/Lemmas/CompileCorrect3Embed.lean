import Marwood.Lemmas.CompileCorrect3Defs
/-!
# T01.3 stage 3 — the stage-2 fragment is part of the stage-3 fragment

`F2 ⊆ F3`: a stage-2 expression is a stage-3 expression in which every bound name is readable
(`us = fun _ => False`); a stage-2 lambda is a stage-3 lambda without rest parameter and without internal
definitions. By induction on the fuel index (every constructor decreases it by one).
-/
namespace Marwood.Lemmas.CompileCorrect3
open Marwood Marwood.Vm Marwood.Lemmas.CompileCorrect Marwood.Lemmas.CompileCorrect2
open Marwood.Spec.Eval (properList isDefine)

theorem properList_pair_inv {a d : Datum} {es : List Datum} (h : properList (.pair a d) = some es) :
    ∃ es', properList d = some es' ∧ es = a :: es' := by
  unfold properList at h
  cases hd : properList d with
  | none => rw [hd] at h; cases h
  | some es' =>
    rw [hd] at h
    have h' : some (a :: es') = some es := h
    injection h' with h'
    exact ⟨es', rfl, h'.symm⟩

/-- the three statements at fuel `f` -/
def Emb (G : Text → Prop) (f : Nat) : Prop :=
  (∀ c ns t e, F2 G f c ns t e → F3 G f c ns (fun _ => False) t e) ∧
  (∀ c ns e, F2L G f c ns e → F3L G f c ns (fun _ => False) e) ∧
  (∀ c ns e es, F2B G f c ns e → properList e = some es → (∀ x ∈ es, isDefine x = false) →
    F3B G f c ns (fun _ => False) [] e)

theorem emb (G : Text → Prop) (f : Nat) : Emb G f := by
  induction f with
  | zero =>
    unfold Emb
    refine ⟨?_, ?_, ?_⟩
    · intro c ns t e h; cases h
    · intro c ns e h; cases h
    · intro c ns e es h; cases h
  | succ f ih =>
    obtain ⟨i1, i2, i3⟩ := ih
    unfold Emb
    refine ⟨?_, ?_, ?_⟩
    · intro c ns t e h
      cases h with
      | bool b => exact .bool b
      | char ch => exact .char ch
      | num n => exact .num n
      | str s => exact .str s
      | quote d rest => exact .quote d rest
      | vecc e => exact .vecc e
      | sym x hx => exact .sym x hx (fun h => h)
      | setBang x e hx hg he => exact .setBang x e hx hg (i1 _ _ _ _ he)
      | if2 tst cn h1 h2 => exact .if2 tst cn (i1 _ _ _ _ h1) (i1 _ _ _ _ h2)
      | if3 tst cn al h1 h2 h3 => exact .if3 tst cn al (i1 _ _ _ _ h1) (i1 _ _ _ _ h2) (i1 _ _ _ _ h3)
      | app fn args ha h1 h2 => exact .app fn args ha (i1 _ _ _ _ h1) (i2 _ _ _ h2)
      | lambda formals body p ps b bs caps h1 h2 h3 h4 h5 h6 h7 h8 h9 h10 =>
        have hb := i3 _ _ _ _ h10 h6 h7
        refine .lambda formals body p ps none [] caps h1 h2 (by simp [h3]) (by simp [h4]) (by simpa using h5)
          (by simp [em3, h8]) (fun q hq => ⟨(h9 q hq).1, (h9 q hq).2, fun x => x⟩) ?_
        have e1 : (fun x => x ∈ ps ++ (none : Option Text).toList ++ [] ∨ ns x) = (fun x => x ∈ ps ∨ ns x) := by
          funext x; simp
        have e2 : (fun x : Text => x ∈ ([] : List Text)) = fun _ => False := by
          funext x; simp
        rw [e1, e2]; exact hb
    · intro c ns e h
      cases h with
      | nil => exact .nil
      | cons a d h1 h2 => exact .cons a d (i1 _ _ _ _ h1) (i2 _ _ _ h2)
    · intro c ns e es h hp hd
      cases h with
      | last x hx =>
        obtain ⟨es', _, rfl⟩ := properList_pair_inv hp
        exact .last x (hd x (by simp)) (i1 _ _ _ _ hx)
      | cons x y rest hx hr =>
        obtain ⟨es', hp', rfl⟩ := properList_pair_inv hp
        exact .cons x y rest (hd x (by simp)) (i1 _ _ _ _ hx)
          (i3 _ _ _ _ hr hp' (fun z hz => hd z (by simp [hz])))

/-- **`F2 ⊆ F3`** -/
theorem F2.toF3 {G : Text → Prop} {f : Nat} {c : Ctx} {ns : Text → Prop} {t : Bool} {e : Datum}
    (h : F2 G f c ns t e) : F3 G f c ns (fun _ => False) t e := (emb G f).1 c ns t e h

theorem F2L.toF3L {G : Text → Prop} {f : Nat} {c : Ctx} {ns : Text → Prop} {e : Datum}
    (h : F2L G f c ns e) : F3L G f c ns (fun _ => False) e := (emb G f).2.1 c ns e h

/-- a stage-2 body whose expressions are not definitions is a stage-3 body without internal definitions -/
theorem F2B.toF3B {G : Text → Prop} {f : Nat} {c : Ctx} {ns : Text → Prop} {e : Datum} {es : List Datum}
    (h : F2B G f c ns e) (hp : properList e = some es) (hd : ∀ x ∈ es, isDefine x = false) :
    F3B G f c ns (fun _ => False) [] e := (emb G f).2.2 c ns e es h hp hd

end Marwood.Lemmas.CompileCorrect3
