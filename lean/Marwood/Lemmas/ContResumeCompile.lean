import Marwood.Lemmas.EvalOperandOrder
/-!
# The code the compiler model emits at a `(call/cc e)` site

`compile_callcc_site`: for `(call/cc e)` — any operator that is not a special form, one operand — in
operand or tail position the emitted code is exactly

    <code of e> ; PUSH ; PUSHIMM argc 1 ; <code of the operator> ; CALL | TCALL

(T01.4 `application_operand_order` specialised to one operand; re-derived here from
`compileArgs_operandCodes` so that C05 does not depend on `Proofs/C01.lean`). So at the CALL the
stack holds, on top of whatever the enclosing expression has pushed (the operands of pending
applications already evaluated), the value of `e` and `argc 1`: the machine state `s0` of
`Lemmas/ContResume.lean`. "The application `(call/cc e)` has evaluated to `v`" is then, by the
calling convention (`builtin_call_pops`, `ret_of_receiver_frame`): `ip` behind that CALL, those two
cells popped, `acc = v` — which is `Resume s0 v h`.
-/
namespace Marwood.Vm
open Marwood

def callccName : Text := ['c','a','l','l','/','c','c']
def callccLongName : Text :=
  ['c','a','l','l','-','w','i','t','h','-','c','u','r','r','e','n','t','-','c','o','n','t','i','n','u','a','t','i','o','n']

/-- a one-operand application site -/
theorem one_operand_site (fuel : Nat) (st : CState) (c : Ctx) (base : Nat) (tail : Bool)
    (proc e : Datum) (st' : CState) (code : List BC)
    (hn : ∀ kw ∈ specialForms, proc.isSymStr kw = false)
    (h : compileExpr (fuel + 3) st c base tail (.pair proc (.pair e .nil)) = .ok (st', code)) :
    ∃ st1 ecode pcode,
      compileExpr (fuel + 1) st c base false e = .ok (st1, ecode) ∧
      compileExpr (fuel + 2) st1 c (base + ecode.length + 1 + 2) false proc = .ok (st', pcode) ∧
      code = ecode ++ [.op .pushAcc, .op .pushImm, .argc 1] ++ pcode
              ++ [.op (if tail then .tcallAcc else .callAcc)] := by
  unfold compileExpr at h
  have k1 := hn ['d','e','f','i','n','e'] (by simp [specialForms])
  have k2 := hn ['d','e','f','i','n','e','-','s','y','n','t','a','x'] (by simp [specialForms])
  have k3 := hn ['l','a','m','b','d','a'] (by simp [specialForms])
  have k4 := hn ['λ'] (by simp [specialForms])
  have k5 := hn ['q','u','a','s','i','q','u','o','t','e'] (by simp [specialForms])
  have k6 := hn ['q','u','o','t','e'] (by simp [specialForms])
  have k7 := hn ['i','f'] (by simp [specialForms])
  have k8 := hn ['s','e','t','!'] (by simp [specialForms])
  simp only [k1, k2, k3, k4, k5, k6, k7, k8, Bool.false_eq_true, if_false, Bool.or_self] at h
  cases h1 : compileArgs (fuel + 2) st c base (.pair e .nil) with
  | error e => simp [h1] at h
  | ok r1 =>
    obtain ⟨st1, code1, n⟩ := r1
    simp only [h1] at h
    cases h2 : compileExpr (fuel + 2) st1 c (base + code1.length + 2) false proc with
    | error e => simp [h2] at h
    | ok r2 =>
      obtain ⟨st2, pcode⟩ := r2
      simp only [h2] at h
      obtain ⟨segs, hs, hc, hnn⟩ := compileArgs_operandCodes (fuel + 2) _ _ _ _ _ _ _ h1
      injection h with h
      injection h with h3 h4
      subst h3 h4 hc hnn
      cases hs with
      | done _ _ _ _ _ hh => exact absurd rfl (hh e .nil)
      | cons _ _ _ _ _ _ st1' ecode _ rest he hrest =>
        cases hrest with
        | done _ _ _ _ _ _ =>
          refine ⟨st1, ecode, pcode, he, ?_, ?_⟩
          · have e1 : base + (pushed [ecode]).length + 2 = base + ecode.length + 1 + 2 := by
              simp [pushed]; omega
            rw [← e1]; exact h2
          · simp [pushed]

/-- the `(call/cc e)` site, under either name of the procedure -/
theorem compile_callcc_site (fuel : Nat) (st : CState) (c : Ctx) (base : Nat) (tail : Bool)
    (name : Text) (hname : name = callccName ∨ name = callccLongName)
    (e : Datum) (st' : CState) (code : List BC)
    (h : compileExpr (fuel + 3) st c base tail (.pair (.sym name) (.pair e .nil)) = .ok (st', code)) :
    ∃ st1 ecode pcode,
      compileExpr (fuel + 1) st c base false e = .ok (st1, ecode) ∧
      compileExpr (fuel + 2) st1 c (base + ecode.length + 1 + 2) false (.sym name) = .ok (st', pcode) ∧
      code = ecode ++ [.op .pushAcc, .op .pushImm, .argc 1] ++ pcode
              ++ [.op (if tail then .tcallAcc else .callAcc)] := by
  refine one_operand_site fuel st c base tail (.sym name) e st' code ?_ h
  rcases hname with rfl | rfl <;> decide

end Marwood.Vm
