import Marwood.Lemmas.CompileCorrect
import Marwood.Vm.Eval
/-!
# T01.3 stage 1 — `Steps` in terms of the run loop of `Vm/RunLoop.lean`

`Steps ops s s'` is exactly "the collection-free reference loop `pureN` over `vmStep ops` (= `run_one`)
pauses in `s'` after some number of instructions".
-/
namespace Marwood.Lemmas.CompileCorrect
open Marwood Marwood.Vm

variable {H : Type} {ops : HeapOps H}

theorem Steps.pureN (gc : MSt H → MSt H) {s s' : MSt H} (h : Steps ops s s') :
    ∃ k, Vm.pureN ⟨vmStep ops, gc⟩ k s = .paused s' := by
  induction h with
  | refl => exact ⟨0, rfl⟩
  | cons h _ ih =>
    obtain ⟨k, hk⟩ := ih
    refine ⟨k + 1, ?_⟩
    simp only [Vm.pureN, vmStep, h, hk]

/-- the conclusion of `compileExpr_correct` on the reference loop -/
theorem ExprRun.pureN {D : RepData ops} (gc : MSt H → MSt H) {s s' : MSt H} {len : Nat} {σ σ' : SSt}
    {w : Spec.Eval.Val} (r : ExprRun D s len σ σ' w s') :
    ∃ k, Vm.pureN ⟨vmStep ops, gc⟩ k s = .paused s' := r.steps.pureN gc

end Marwood.Lemmas.CompileCorrect
