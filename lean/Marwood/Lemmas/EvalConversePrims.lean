import Marwood.Lemmas.EvalConverseSteps
/-! Converse simulation (`SimR`): mirror of `EvalExtraPrims.lean` (see `EvalConverse.lean`). -/
namespace Marwood.Spec.Eval.Conv
open Marwood Marwood.Spec.Eval Marwood.Spec.Eval.Extra

variable {f : LMap}

theorem simR_boolV (b : Bool) : SimR f (VRel f) (boolV b) (boolV b) := SimR.pure _ _ (.bool b)

theorem simR_listTailWalk : ∀ (k : Nat) {l l' : Val}, VRel f l l' → SimR f (VRel f) (listTailWalk k l) (listTailWalk k l')
  | 0, _, _, hl => SimR.pure _ _ hl
  | k+1, _, _, hl => by
    simp only [listTailWalk]
    refine SimR.bind (simR_readPair hl) (fun p p' hp => ?_)
    exact simR_listTailWalk k hp.2

-- keep the unifier from unfolding the monad operations when a closing lemma does not apply
attribute [local irreducible] M.bind' M.pure'

/-- closes the goals of the numeric primitives once both sides compute on the same integers -/
local macro "simR_leaf" : tactic => `(tactic| (
  repeat' (first
    | exact SimR.throw _
    | exact simR_boolV _
    | (refine SimR.pure _ _ ?_; first | assumption | constructor)
    | split)))

theorem simR_primNum (p : Prim) {args args' : List Val} (ha : VsRel f args args') :
    SimR f (VRel f) (primNum p args) (primNum p args') := by
  have hi := intArgs_rel ha
  cases p
  case zeroP | abs =>
    rcases ha with _ | ⟨h1, _ | ⟨h2, ht⟩⟩
    · simp only [primNum]; simR_leaf
    · cases h1 <;> simp only [primNum] <;> simR_leaf
    · simp only [primNum]; simR_leaf
  all_goals (rcases ha with _ | ⟨h1, _ | ⟨h2, ht⟩⟩ <;> simp only [primNum, hi] <;> simR_leaf)

set_option hygiene false in
/-- split the shape of both argument lists: 0, 1, 2, 3, ≥ 4 arguments -/
local macro "shapes" : tactic => `(tactic| rcases ha with _ | ⟨h1, _ | ⟨h2, _ | ⟨h3, _ | ⟨h4, ht⟩⟩⟩⟩)

/-- one `readPair` on both sides -/
local macro "simR_rp" : tactic => `(tactic| (
  refine SimR.bind (simR_readPair (by assumption)) ?_
  rintro ⟨_, _⟩ ⟨_, _⟩ ⟨_, _⟩
  dsimp only))

theorem simR_setCar (hf : Inj f) {l : Loc} {v v' : Val} (hv : VRel f v v') :
    SimR f (VRel f) (primPair .setCar [.pair l, v]) (primPair .setCar [.pair (f l), v']) := by
  simp only [primPair]
  refine SimR.bind (simR_readCell rfl) (fun c c' hc => ?_)
  cases hc with
  | pair ha hd => exact SimR.bind (simR_writeCell hf rfl (.pair hv hd)) (fun _ _ _ => SimR.pure _ _ .void)
  | _ => exact SimR.throw _

theorem simR_setCdr (hf : Inj f) {l : Loc} {v v' : Val} (hv : VRel f v v') :
    SimR f (VRel f) (primPair .setCdr [.pair l, v]) (primPair .setCdr [.pair (f l), v']) := by
  simp only [primPair]
  refine SimR.bind (simR_readCell rfl) (fun c c' hc => ?_)
  cases hc with
  | pair ha hd => exact SimR.bind (simR_writeCell hf rfl (.pair ha hv)) (fun _ _ _ => SimR.pure _ _ .void)
  | _ => exact SimR.throw _

theorem simR_primPair (hf : Inj f) (p : Prim) (hp : pairNoFuel p = true) {args args' : List Val} (ha : VsRel f args args') :
    SimR f (VRel f) (primPair p args) (primPair p args') := by
  cases p
  case length | append | reverse | listP | memv | memq | assv | assq => cases hp
  case list => simp only [primPair]; exact simR_allocList ha
  case car | cdr =>
    shapes <;> simp only [primPair] <;> first | exact SimR.throw _ | skip
    simR_rp; exact SimR.pure _ _ (by assumption)
  case cadr | cddr | caar | cdar =>
    shapes <;> simp only [primPair] <;> first | exact SimR.throw _ | skip
    simR_rp; simR_rp; exact SimR.pure _ _ (by assumption)
  case cons =>
    shapes <;> simp only [primPair] <;> first | exact SimR.throw _ | skip
    exact simR_cons h1 h2
  case nullP =>
    shapes <;> simp only [primPair] <;> first | exact SimR.throw _ | skip
    rw [h1.beq_nil]; exact simR_boolV _
  case pairP =>
    shapes <;> simp only [primPair] <;> first | exact SimR.throw _ | skip
    cases h1 <;> exact simR_boolV _
  case setCar =>
    shapes
    case cons.cons.nil => cases h1 <;> first | exact simR_setCar hf h2 | (simp only [primPair]; exact SimR.throw _)
    all_goals (simp only [primPair]; exact SimR.throw _)
  case setCdr =>
    shapes
    case cons.cons.nil => cases h1 <;> first | exact simR_setCdr hf h2 | (simp only [primPair]; exact SimR.throw _)
    all_goals (simp only [primPair]; exact SimR.throw _)
  case listTail =>
    shapes
    case cons.cons.nil =>
      cases h2 <;> simp only [primPair] <;> first | exact SimR.throw _ | skip
      split
      · exact SimR.throw _
      · exact simR_listTailWalk _ h1
    all_goals (simp only [primPair]; exact SimR.throw _)
  all_goals (simp only [primPair]; exact SimR.throw _)

set_option hygiene false in
/-- one `readVec` on both sides -/
local macro "simR_rv" : tactic => `(tactic| (
  refine SimR.bind (simR_readVec (by assumption)) ?_
  rintro ⟨l, xs⟩ ⟨l', xs'⟩ ⟨hl, hx⟩
  dsimp only at hl hx ⊢))

theorem simR_primVec (hf : Inj f) (p : Prim) (hp : p ≠ .listToVector) {args args' : List Val} (ha : VsRel f args args') :
    SimR f (VRel f) (primVec p args) (primVec p args') := by
  cases p
  case listToVector => exact absurd rfl hp
  case vector => simp only [primVec]; exact simR_allocVec ha
  case makeVector =>
    shapes
    case cons.cons.nil =>
      cases h1 <;> simp only [primVec] <;> first | exact SimR.throw _ | skip
      split
      · exact SimR.throw _
      · exact simR_allocVec (VsRel.replicate _ h2)
    all_goals (simp only [primVec]; exact SimR.throw _)
  case vectorRef =>
    shapes
    case cons.cons.nil =>
      cases h2 <;> simp only [primVec] <;> first | exact SimR.throw _ | skip
      rename_i i
      simR_rv
      split
      · exact SimR.throw _
      · have hg := hx.getElem? i.toNat
        revert hg
        generalize xs[i.toNat]? = o
        generalize xs'[i.toNat]? = o'
        intro hg
        cases o <;> cases o' <;> simp only at hg <;> first | exact SimR.throw _ | exact SimR.pure _ _ hg | exact hg.elim
    all_goals (simp only [primVec]; exact SimR.throw _)
  case vectorSet =>
    shapes
    case cons.cons.cons.nil =>
      cases h2 <;> simp only [primVec] <;> first | exact SimR.throw _ | skip
      simR_rv
      rw [hx.length_eq]
      split
      · exact SimR.throw _
      · exact SimR.bind (simR_writeCell hf hl (.vec (hx.set _ h3))) (fun _ _ _ => SimR.pure _ _ .void)
    all_goals (simp only [primVec]; exact SimR.throw _)
  case vectorLength =>
    shapes <;> simp only [primVec] <;> first | exact SimR.throw _ | skip
    simR_rv
    rw [hx.length_eq]; exact SimR.pure _ _ (.int _)
  case vectorToList =>
    shapes <;> simp only [primVec] <;> first | exact SimR.throw _ | skip
    simR_rv
    exact simR_allocList hx
  all_goals (simp only [primVec]; exact SimR.throw _)

theorem simR_primPred (hf : Inj f) (p : Prim) (hp : p ≠ .equalP) {args args' : List Val} (ha : VsRel f args args') :
    SimR f (VRel f) (primPred p args) (primPred p args') := by
  cases p
  case equalP => exact absurd rfl hp
  case eqP | eqvP =>
    shapes <;> simp only [primPred] <;> first | exact SimR.throw _ | skip
    rw [VRel.eqv hf h1 h2]; exact simR_boolV _
  case not =>
    shapes <;> simp only [primPred] <;> first | exact SimR.throw _ | skip
    rw [h1.truthy]; exact simR_boolV _
  case vectorP | symbolP | stringP | charP | integerP | numberP | booleanP | procedureP =>
    shapes <;> simp only [primPred] <;> first | exact SimR.throw _ | skip
    cases h1 <;> exact simR_boolV _
  case stringLength | charToInteger =>
    shapes
    case cons.nil =>
      cases h1 <;> simp only [primPred] <;> first | exact SimR.throw _ | exact SimR.pure _ _ (.int _)
    all_goals (simp only [primPred]; exact SimR.throw _)
  case stringEq | charEq =>
    shapes
    case cons.cons.nil =>
      cases h1 <;> cases h2 <;> simp only [primPred] <;> first | exact SimR.throw _ | exact simR_boolV _
    all_goals (simp only [primPred]; exact SimR.throw _)
  all_goals (simp only [primPred]; exact SimR.throw _)

theorem simR_primMisc_error {args args' : List Val} : SimR f (VRel f) (primMisc .error args) (primMisc .error args') := by
  simp only [primMisc]; exact SimR.throw _
end Marwood.Spec.Eval.Conv
