import Marwood.Lemmas.SimDefs
/-!
# Heap simulation: allocation

`calloc` on two related heaps hands out addresses that are outside the domain / range of `φ` (they come
from the free list or from the fresh chunk), so `φ` can be extended at the pair of fresh addresses. The
two addresses differ in general: after a collection the free lists of the two heaps differ.
-/
namespace Marwood.Lemmas.Sim
open Marwood Marwood.Vm Marwood.Vm.Concrete
open Marwood.Heap (GcState)

theorem lt_of_get_some {α} {a : Array α} {i : Nat} {v : α} (h : a[i]? = some v) : i < a.size := by
  false_or_by_contra
  rw [Array.getElem?_eq_none (by omega)] at h; cases h

theorem nodup_reverse' {l : List Nat} (h : l.Nodup) : l.reverse.Nodup := by
  unfold List.Nodup at *; rw [List.pairwise_reverse]; exact h.imp (fun h => h.symm)

/-! ## one heap -/

/-- what an allocation changes -/
structure AllocSpec (h h1 : CHeap) (p : Nat) : Prop where
  p_lt : p < h1.cells.size
  p_fresh : p ∈ h.free ∨ h.cells.size ≤ p
  p_notfree : p ∉ h1.free
  size_le : h.cells.size ≤ h1.cells.size
  cells_old : ∀ i, i < h.cells.size → h1.cells[i]? = h.cells[i]?
  free_sub : ∀ i, i ∈ h1.free → i ∈ h.free ∨ h.cells.size ≤ i
  free_sup : ∀ i, i ∈ h.free → i = p ∨ i ∈ h1.free
  cells_new : ∀ i, h.cells.size ≤ i → i < h1.cells.size → h1.cells[i]? = some (CCell.val .undefined)
  globals : h1.globals = h.globals
  globSyms : h1.globSyms = h.globSyms
  symtab : h1.symtab = h.symtab
  inv : HInv h1

theorem takeFree_spec (h : CHeap) (inv : HInv h) (p : Nat) (rest : List Nat) (hf : h.free = p :: rest) :
    AllocSpec h (takeFree h p rest).1 p := by
  have hp : h.gc[p]? = some GcState.free := (inv.free_iff p).mp (by rw [hf]; simp)
  have hplt : p < h.gc.size := lt_of_get_some hp
  have hnd : p ∉ rest ∧ rest.Nodup := by
    have := inv.nodup; rw [hf] at this; exact List.nodup_cons.mp this
  refine ⟨by simp [takeFree]; rw [← inv.sizes]; exact hplt, .inl (by rw [hf]; simp), by simpa [takeFree] using hnd.1,
    Nat.le_refl _, fun i _ => rfl, ?_, ?_, ?_, rfl, rfl, rfl, ?_⟩
  · intro i hi
    left; rw [hf]; simp only [takeFree] at hi; exact List.mem_cons_of_mem _ hi
  · intro i hi
    rw [hf] at hi
    simp only [takeFree]
    rcases List.mem_cons.mp hi with h1 | h1
    · exact .inl h1
    · exact .inr h1
  · intro i h1 h2
    simp only [takeFree] at h2
    omega
  · refine ⟨by simp [takeFree, inv.sizes], inv.shape, ?_, hnd.2, ?_⟩
    · intro i
      simp only [takeFree]
      by_cases hip : i = p
      · subst hip
        simp [hnd.1, hplt]
      · rw [Array.getElem?_setIfInBounds_ne (Ne.symm hip), ← inv.free_iff i, hf]
        simp [hip]
    · intro i
      simp only [takeFree]
      by_cases hip : i = p
      · subst hip; simp [hplt]
      · rw [Array.getElem?_setIfInBounds_ne (Ne.symm hip)]; exact inv.no_used i

theorem grownSize_gt' (chunk k : Nat) (hc : 0 < chunk) (hk : 0 < k) :
    k * chunk < Heap.Heap.grownSize chunk (k * chunk) := by
  unfold Heap.Heap.grownSize
  rw [Nat.mul_div_cancel _ hc]
  have : k + 1 ≤ (3 * k + 1) / 2 := by omega
  calc k * chunk < (k + 1) * chunk := by rw [Nat.add_mul]; omega
    _ ≤ (3 * k + 1) / 2 * chunk := Nat.mul_le_mul_right _ this

structure GrowSpec (h g : CHeap) : Prop where
  lt : h.cells.size < g.cells.size
  cells_old : ∀ i, i < h.cells.size → g.cells[i]? = h.cells[i]?
  cells_new : ∀ i, h.cells.size ≤ i → i < g.cells.size → g.cells[i]? = some (CCell.val .undefined)
  free : g.free = (List.range' h.cells.size (g.cells.size - h.cells.size)).reverse ++ h.free
  globals : g.globals = h.globals
  globSyms : g.globSyms = h.globSyms
  symtab : g.symtab = h.symtab
  inv : HInv g

theorem cgrow_spec (h : CHeap) (inv : HInv h) : GrowSpec h (cgrow h) := by
  obtain ⟨hc, h4, k, hk, hsize⟩ := inv.shape
  have hgt := grownSize_gt' h.chunk k hc hk
  rw [← hsize] at hgt
  have hsz : (cgrow h).cells.size = Heap.Heap.grownSize h.chunk h.cells.size := by
    simp [cgrow]; omega
  have hgc : ∀ x : Nat, (cgrow h).gc[x]? = some GcState.free ↔
      (h.gc[x]? = some GcState.free ∨ (h.cells.size ≤ x ∧ x < (cgrow h).cells.size)) := by
    intro x
    rw [hsz]
    simp only [cgrow]
    by_cases hx : x < h.cells.size
    · rw [Array.getElem?_append_left (by rw [inv.sizes]; exact hx)]
      constructor
      · exact Or.inl
      · rintro (h1 | h1)
        · exact h1
        · omega
    · have hn : h.gc[x]? = none := Array.getElem?_eq_none (by rw [inv.sizes]; omega)
      rw [Array.getElem?_append_right (by rw [inv.sizes]; omega), hn, Array.getElem?_replicate, inv.sizes]
      simp
      omega
  refine ⟨by rw [hsz]; exact hgt, ?_, ?_, ?_, rfl, rfl, rfl, ?_⟩
  · intro i hi
    simp only [cgrow]
    exact Array.getElem?_append_left hi
  · intro i h1 h2
    rw [hsz] at h2
    simp only [cgrow]
    rw [Array.getElem?_append_right h1, Array.getElem?_replicate]
    simp
    omega
  · rw [hsz]; simp [cgrow]
  · refine ⟨?_, ?_, ?_, ?_, ?_⟩
    · simp [cgrow, inv.sizes]
    · refine ⟨hc, h4, (3 * k + 1) / 2, by omega, ?_⟩
      rw [hsz]
      unfold Heap.Heap.grownSize
      rw [hsize, Nat.mul_div_cancel _ hc]
      rfl
    · intro i
      rw [hgc i, hsz]
      simp only [cgrow]
      rw [List.mem_append, List.mem_reverse, List.mem_range'_1, inv.free_iff i]
      constructor
      · rintro (h1 | h1)
        · right; omega
        · exact Or.inl h1
      · rintro (h1 | h1)
        · exact Or.inr h1
        · left; omega
    · simp only [cgrow]
      rw [List.nodup_append]
      refine ⟨nodup_reverse' (List.nodup_range' (step := 1)), inv.nodup, ?_⟩
      intro a ha b hb' hab
      subst hab
      rw [List.mem_reverse, List.mem_range'_1] at ha
      have := lt_of_get_some ((inv.free_iff a).mp hb')
      have := inv.sizes
      omega
    · intro i
      simp only [cgrow]
      by_cases hx : i < h.cells.size
      · rw [Array.getElem?_append_left (by rw [inv.sizes]; exact hx)]; exact inv.no_used i
      · rw [Array.getElem?_append_right (by rw [inv.sizes]; omega), Array.getElem?_replicate]
        split <;> simp

theorem calloc_spec (h : CHeap) (inv : HInv h) : AllocSpec h (calloc h).1 (calloc h).2 := by
  unfold calloc
  cases hf : h.free with
  | cons p rest => exact takeFree_spec h inv p rest hf
  | nil =>
    simp only
    have gs := cgrow_spec h inv
    have hlt := gs.lt
    cases hgf : (cgrow h).free with
    | nil =>
      exfalso
      have := gs.free
      rw [hgf, hf] at this
      have hl := congrArg List.length this
      simp at hl
      omega
    | cons p rest =>
      simp only
      have a := takeFree_spec (cgrow h) gs.inv p rest hgf
      have hpg : p ∈ (cgrow h).free := by rw [hgf]; simp
      have hfree' : ∀ i, i ∈ (cgrow h).free → h.cells.size ≤ i := by
        intro i hi
        rw [gs.free, hf, List.append_nil, List.mem_reverse, List.mem_range'_1] at hi
        exact hi.1
      refine ⟨a.p_lt, .inr (hfree' p hpg), a.p_notfree, Nat.le_trans (Nat.le_of_lt hlt) a.size_le, ?_, ?_, ?_, ?_,
        by rw [a.globals, gs.globals], by rw [a.globSyms, gs.globSyms], by rw [a.symtab, gs.symtab], a.inv⟩
      · intro i hi
        rw [a.cells_old i (by omega), gs.cells_old i hi]
      · intro i hi
        rcases a.free_sub i hi with h1 | h1
        · exact .inr (hfree' i h1)
        · right; omega
      · intro i hi; rw [hf] at hi; cases hi
      · intro i h1 h2
        by_cases h3 : i < (cgrow h).cells.size
        · rw [a.cells_old i h3]; exact gs.cells_new i h1 h3
        · exact a.cells_new i (by omega) h2

theorem cwrite_inv (h : CHeap) (inv : HInv h) (p : Nat) (c : CCell) : HInv (cwrite h p c) :=
  ⟨by simp [cwrite, inv.sizes], by simpa [cwrite] using inv.shape, inv.free_iff, inv.nodup, inv.no_used⟩

/-! ## two heaps -/

/-- extend `φ` by one pair -/
def ext (φ : Inj) (p q : Nat) : Inj := fun x => if x = p then some q else φ x

theorem ext_le (φ : Inj) (p q : Nat) (hp : φ p = none) : φ.le (ext φ p q) := by
  intro a b h
  unfold ext
  split
  · rename_i e; subst e; rw [hp] at h; cases h
  · exact h

theorem ext_self (φ : Inj) (p q : Nat) : ext φ p q p = some q := by simp [ext]

theorem addrsRel_mono {φ ψ : Inj} (hle : φ.le ψ) {l l' : List Nat} (h : All2 (AddrRel φ) l l') :
    All2 (AddrRel ψ) l l' := by
  induction h with
  | nil => exact .nil
  | cons h1 _ ih => exact .cons (h1.mono hle) ih

/-- the domain of `φ` lies inside the heap and off the free list -/
theorem HeapSim.dom_lt {φ : Inj} {h h' : CHeap} (hs : HeapSim φ h h') {a b} (hab : φ a = some b) :
    a < h.cells.size ∧ b < h'.cells.size ∧ a ∉ h.free ∧ b ∉ h'.free := by
  obtain ⟨c, c', e1, e2, _, f1, f2⟩ := hs.cells a b hab
  exact ⟨lt_of_get_some e1, lt_of_get_some e2, f1, f2⟩

/-- **allocation respects the simulation**: storing related cells into freshly allocated cells of two
    related heaps gives related heaps under `φ` extended at the two fresh addresses -/
theorem cput_sim {φ : Inj} {h h' : CHeap} (hs : HeapSim φ h h') {c c' : CCell}
    (hc : ∀ ψ, φ.le ψ → ψ (cput h c).2 = some (cput h' c').2 → CellRel ψ c c') :
    ∃ ψ, φ.le ψ ∧ ψ (cput h c).2 = some (cput h' c').2 ∧ HeapSim ψ (cput h c).1 (cput h' c').1 := by
  have a := calloc_spec h hs.inv
  have a' := calloc_spec h' hs.inv'
  simp only [cput]
  generalize hp : (calloc h).2 = p at a
  generalize hq : (calloc h').2 = q at a'
  generalize hh1 : (calloc h).1 = h1 at a
  generalize hh1' : (calloc h').1 = h1' at a'
  have hc' : ∀ ψ, φ.le ψ → ψ p = some q → CellRel ψ c c' := by
    intro ψ h1 h2; apply hc ψ h1; simp only [cput, hp, hq]; exact h2
  have hpdom : φ p = none := by
    cases hφ : φ p with
    | none => rfl
    | some b =>
      obtain ⟨l1, _, l3, _⟩ := hs.dom_lt hφ
      rcases a.p_fresh with h1 | h1
      · exact absurd h1 l3
      · omega
  have hqran : ∀ x, φ x ≠ some q := by
    intro x hφ
    obtain ⟨_, l2, _, l4⟩ := hs.dom_lt hφ
    rcases a'.p_fresh with h1 | h1
    · exact absurd h1 l4
    · omega
  have hle := ext_le φ p q hpdom
  refine ⟨ext φ p q, hle, ext_self φ p q, ?_⟩
  refine ⟨?_, ?_, ?_, ?_, cwrite_inv _ a.inv _ _, cwrite_inv _ a'.inv _ _⟩
  · intro x x' b h1 h2
    unfold ext at h1 h2
    by_cases e1 : x = p <;> by_cases e2 : x' = p <;> simp only [e1, e2, if_true, if_false] at h1 h2
    · exact e1.trans e2.symm
    · cases h1; exact absurd h2 (hqran x')
    · cases h2; exact absurd h1 (hqran x)
    · exact hs.inj x x' b h1 h2
  · intro x b hxb
    unfold ext at hxb
    by_cases e1 : x = p
    · rw [e1] at hxb ⊢
      simp only [if_true] at hxb
      have ebq : b = q := by cases hxb; rfl
      rw [ebq]
      refine ⟨c, c', ?_, ?_, hc' _ hle (ext_self φ p q), a.p_notfree, a'.p_notfree⟩
      · simp [cwrite, a.p_lt]
      · simp [cwrite, a'.p_lt]
    · simp only [e1, if_false] at hxb
      obtain ⟨d, d', g1, g2, r, f1, f2⟩ := hs.cells x b hxb
      have hbq : b ≠ q := fun e => hqran x (e ▸ hxb)
      have l1 := lt_of_get_some g1
      have l2 := lt_of_get_some g2
      refine ⟨d, d', ?_, ?_, r.mono hle, ?_, ?_⟩
      · simp only [cwrite]
        rw [Array.getElem?_setIfInBounds_ne (Ne.symm e1), a.cells_old x l1]; exact g1
      · simp only [cwrite]
        rw [Array.getElem?_setIfInBounds_ne (Ne.symm hbq), a'.cells_old b l2]; exact g2
      · intro hm
        rcases a.free_sub x hm with h1 | h1
        · exact f1 h1
        · omega
      · intro hm
        rcases a'.free_sub b hm with h1 | h1
        · exact f2 h1
        · omega
  · simp only [cwrite]; rw [a.globals, a'.globals]; exact VsRel.mono hle hs.globals
  · simp only [cwrite]; rw [a.globSyms, a'.globSyms]
    exact addrsRel_mono hle hs.globSyms

end Marwood.Lemmas.Sim
