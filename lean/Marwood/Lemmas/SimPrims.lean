import Marwood.Lemmas.SimAlloc
/-!
# Heap simulation: outcomes, the stack, and the heap reads / writes of `concreteOps`

`ORel R x y`: two outcomes agree — both `ok` with `R`-related results, or the same error, or the same
panic. `ORel.bind` makes the step lemmas follow the `do` blocks of `Machine.lean` line by line.
-/
namespace Marwood.Lemmas.Sim
open Marwood Marwood.Vm Marwood.Vm.Concrete
open Marwood.Heap (GcState)

inductive ORel {α β : Type} (R : α → β → Prop) : Outcome α → Outcome β → Prop
  | ok {a b} : R a b → ORel R (.ok a) (.ok b)
  | err {e} : ORel R (.err e) (.err e)
  | panic {s} : ORel R (.panic s) (.panic s)

theorem ORel.bind {α β γ δ : Type} {R : α → β → Prop} {Q : γ → δ → Prop} {x : Outcome α} {y : Outcome β}
    {f : α → Outcome γ} {g : β → Outcome δ} (h : ORel R x y) (hf : ∀ a b, R a b → ORel Q (f a) (g b)) :
    ORel Q (x >>= f) (y >>= g) := by
  cases h with
  | ok r => exact hf _ _ r
  | err => exact .err
  | panic => exact .panic

theorem ORel.imp {α β : Type} {R Q : α → β → Prop} {x y} (h : ORel R x y) (hq : ∀ a b, R a b → Q a b) :
    ORel Q x y := by
  cases h with
  | ok r => exact .ok (hq _ _ r)
  | err => exact .err
  | panic => exact .panic

theorem usub_rel (a b : Nat) (site : String) : ORel Eq (usub a b site) (usub a b site) := by
  unfold usub; split
  · exact .ok rfl
  · exact .panic

/-! ## decoding of frame cells -/

theorem asPtr_rel {φ : Inj} {v v'} (h : VRel φ v v') : ORel (AddrRel φ) (asPtr v) (asPtr v') := by
  cases h with
  | ptr h1 => exact .ok h1
  | atom h1 => cases v <;> first | exact .err | simp [addrFree] at h1
  | _ => exact .err

theorem asArgc_rel {φ : Inj} {v v'} (h : VRel φ v v') : ORel Eq (asArgc v) (asArgc v') := by
  cases h with
  | atom h1 => cases v <;> first | exact .err | exact .ok rfl
  | _ => exact .err

theorem asBp_rel {φ : Inj} {v v'} (h : VRel φ v v') : ORel Eq (asBp v) (asBp v') := by
  cases h with
  | atom h1 => cases v <;> first | exact .err | exact .ok rfl
  | _ => exact .err

theorem asEp_rel {φ : Inj} {v v'} (h : VRel φ v v') : ORel (AddrRel φ) (asEp v) (asEp v') := by
  cases h with
  | envPtr h1 => exact .ok h1
  | atom h1 => cases v <;> first | exact .err | simp [addrFree] at h1
  | _ => exact .err

theorem asIp_rel {φ : Inj} {v v'} (h : VRel φ v v') :
    ORel (fun p q => AddrRel φ p.1 q.1 ∧ p.2 = q.2) (asIp v) (asIp v') := by
  cases h with
  | instrPtr h1 => exact .ok ⟨h1, rfl⟩
  | atom h1 => cases v <;> first | exact .err | simp [addrFree] at h1
  | _ => exact .err

/-! ## stack -/

theorem StackRelK.get {φ : Inj} {K st st'} (h : StackRelK φ K st st') {i : Nat} (hi : i ≤ K) :
    ORel (VRel φ) (st.get i) (st'.get i) := by
  unfold Stack.get
  cases e1 : st.cells[i]? with
  | none =>
    have : st'.cells[i]? = none := by
      rw [List.getElem?_eq_none_iff] at e1 ⊢; rw [← h.2.1]; exact e1
    rw [this]; exact .err
  | some v =>
    have hl : i < st'.cells.length := by
      rw [← h.2.1]; exact (List.getElem?_eq_some_iff.mp e1).1
    rw [List.getElem?_eq_getElem hl]
    exact .ok (h.2.2 i hi _ _ e1 (List.getElem?_eq_getElem hl))

theorem StackRelK.getOffset {φ : Inj} {K st st'} (h : StackRelK φ K st st') (hk : st.sp ≤ K) {off : Int}
    (ho : off ≤ 0) : ORel (VRel φ) (st.getOffset off) (st'.getOffset off) := by
  unfold Stack.getOffset
  rw [← h.1]
  simp only
  split
  · exact h.get (by omega)
  · exact .err

theorem StackRelK.set {φ : Inj} {K st st'} (h : StackRelK φ K st st') (i : Nat) {v v'} (hv : VRel φ v v') :
    ORel (fun a b => StackRelK φ K a b ∧ a.sp = st.sp) (st.set i v) (st'.set i v') := by
  unfold Stack.set
  rw [← h.2.1]
  split
  · refine .ok ⟨⟨h.1, by simp [h.2.1], ?_⟩, rfl⟩
    intro j hj w w' h1 h2
    simp only at h1 h2
    by_cases e : i = j
    · subst e
      rename_i hlt
      rw [List.getElem?_set_self hlt] at h1
      rw [List.getElem?_set_self (by rw [← h.2.1]; exact hlt)] at h2
      cases h1; cases h2; exact hv
    · rw [List.getElem?_set_ne e] at h1 h2
      exact h.2.2 j hj w w' h1 h2
  · exact .err

theorem StackRelK.setOffset {φ : Inj} {K st st'} (h : StackRelK φ K st st') (off : Int) {v v'}
    (hv : VRel φ v v') :
    ORel (fun a b => StackRelK φ K a b ∧ a.sp = st.sp) (st.setOffset off v) (st'.setOffset off v') := by
  unfold Stack.setOffset
  rw [← h.1]
  simp only
  split
  · exact h.set _ hv
  · exact .err

theorem getElem?_set_append {α} (l r : List α) (i : Nat) (v : α) (j : Nat) :
    ((l ++ r).set i v)[j]? = if i = j ∧ j < (l ++ r).length then some v else (l ++ r)[j]? := by
  generalize l ++ r = m
  rw [List.getElem?_set]
  by_cases e : i = j
  · subst e
    by_cases hl : i < m.length
    · simp [hl]
    · have hn2 : m[i]? = none := by rw [List.getElem?_eq_none_iff]; omega
      simp [hl, hn2]
  · simp [e]

/-- `push` keeps `[0..K]` related and adds the new top -/
theorem StackRelK.push {φ : Inj} {K st st'} (h : StackRelK φ K st st') (hk : st.sp ≤ K) {v v'}
    (hv : VRel φ v v') : StackRelK φ (max K (st.sp + 1)) (st.push v) (st'.push v') ∧ (st.push v).sp = st.sp + 1 := by
  unfold Stack.push
  rw [← h.1, ← h.2.1]
  have key : ∀ (pad : List VCell), (∀ w ∈ pad, w = VCell.undefined) → StackRelK φ (max K (st.sp + 1))
      { cells := (st.cells ++ pad).set (st.sp + 1) v, sp := st.sp + 1 }
      { cells := (st'.cells ++ pad).set (st.sp + 1) v', sp := st.sp + 1 } := by
    intro pad hpad
    refine ⟨rfl, by simp [h.2.1], ?_⟩
    intro j hj w w' h1 h2
    simp only at h1 h2
    rw [getElem?_set_append] at h1 h2
    have hlen : (st.cells ++ pad).length = (st'.cells ++ pad).length := by simp [h.2.1]
    by_cases e : st.sp + 1 = j ∧ j < (st.cells ++ pad).length
    · rw [if_pos e] at h1
      rw [if_pos ⟨e.1, by rw [← hlen]; exact e.2⟩] at h2
      cases h1; cases h2; exact hv
    · rw [if_neg e] at h1
      rw [if_neg (by rw [← hlen]; exact e)] at h2
      by_cases hjs : j = st.sp + 1
      · -- index `sp + 1` beyond the padded capacity cannot hold a value
        exfalso
        apply e
        refine ⟨hjs.symm, ?_⟩
        exact (List.getElem?_eq_some_iff.mp h1).1
      · have hjK : j ≤ K := by omega
        by_cases hjl : j < st.cells.length
        · rw [List.getElem?_append_left hjl] at h1
          rw [List.getElem?_append_left (by rw [← h.2.1]; exact hjl)] at h2
          exact h.2.2 j hjK w w' h1 h2
        · rw [List.getElem?_append_right (by omega)] at h1
          rw [List.getElem?_append_right (by rw [← h.2.1]; omega)] at h2
          rw [← h.2.1] at h2
          rw [h1] at h2; cases h2
          -- padding cells are `Undefined`
          have : w = VCell.undefined := hpad w (List.mem_of_getElem? h1)
          rw [this]; exact .atom rfl
  split
  · have := key [] (by intro w hw; cases hw)
    simp only [List.append_nil] at this
    exact ⟨this, rfl⟩
  · exact ⟨key _ (by intro w hw; exact (List.mem_replicate.mp hw).2), rfl⟩

end Marwood.Lemmas.Sim
