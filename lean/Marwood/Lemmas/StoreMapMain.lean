import Marwood.Lemmas.StoreMapSteps
/-!
# `map-all` / `for-each-all` and `map` / `for-each` against the plan of the walk

`mapAll_step` unfolds one round of the Scheme body (`any? null?`, `(map1 car xss)`, `(apply f …)`,
`(map1 cdr xss)`); `mapAll_plan` / `forEachAll_plan` follow a `Plan` derivation; `map_plan` /
`forEach_plan` add the prologue (`VARARG` list of the remaining lists, `(cons xs xss)`).
-/
namespace Marwood.Store
open Outcome

theorem any_ended_false {views : List (List Nat × VCell)} (h : views.any noPair = false) :
    views.any ended = false := by
  induction views with
  | nil => rfl
  | cons v vs ih =>
    rw [List.any_cons, Bool.or_eq_false_iff] at h ⊢
    refine ⟨?_, ih h.2⟩
    have := h.1
    unfold noPair at this
    unfold ended; rw [this]; rfl

theorem length_map_hd (views : List (List Nat × VCell)) : (views.map hd).length = views.length := by
  simp

/-- one round of `map-all` / `for-each-all` when every list still has a pair -/
theorem mapAll_step {g : Callee} {M : Nat → Prop} {I : Store → Prop} {s : Store} {xss : VCell}
    {ws : List Nat} {views : List (List Nat × VCell)} {f : Nat}
    (hx : SpineOff M s xss ws .nil) (hh : HeadsOff M s ws views)
    (hM : ∀ i, M i → i < s.cells.length) (hne : views.any noPair = false) (hf : ws.length < f)
    (hI : I s) (hgrow : ∀ t t', I t → Extends t t' → I t')
    (hcall : ∀ t, I t → ∃ u y, g t ((views.map hd).map VCell.ptr) = .ok (u, y) ∧ Keeps M t u ∧ I u) :
    ∃ s1 u y s3 cdrs ds, Extends s s1 ∧ g s1 ((views.map hd).map VCell.ptr) = .ok (u, y) ∧
      Keeps M s1 u ∧ Extends u s3 ∧ I s3 ∧ SpineOff M s3 cdrs ds .nil ∧
      HeadsOff M s3 ds (views.map tl) ∧
      mapAll g (f+1) s xss = (do let (s4, r) ← mapAll g f s3 cdrs; cons s4 [y, r]) ∧
      forEachAll g (f+1) s xss = (do let (s4, _) ← forEachAll g f s3 cdrs; .ok (s4, .void)) := by
  have hany := anyNull_spec hx hh hf
  rw [any_ended_false hne] at hany
  obtain ⟨pc, _⟩ := heads_step hh hne
  obtain ⟨s1, cars, e1, x1, fr1⟩ := map1_proj hx pc hf
  have hle : listElems f s1 cars = .ok ((views.map hd).map VCell.ptr) :=
    listElems_spec fr1.isList (by rw [length_map_hd, ← hh.length]; exact hf)
  obtain ⟨u, y, hgu, hk, hIu⟩ := hcall s1 (hgrow s s1 hI x1)
  have hku : Keeps M s u := (x1.keeps M).trans hk
  obtain ⟨_, ds, pd, ht⟩ := heads_step (hh.keeps hku) hne
  obtain ⟨s3, cdrs, e3, x3, fr3⟩ := map1_proj (hx.keeps hku) pd hf
  have hMu : ∀ i, M i → i < u.cells.length := fun i hi => Nat.lt_of_lt_of_le (hM i hi) hku.len
  refine ⟨s1, u, y, s3, cdrs, ds, x1, hgu, hk, x3, hgrow u s3 hIu x3, fr3.weaken hMu,
    ht.keeps (x3.keeps M), ?_, ?_⟩
  · simp only [mapAll, hany, bind_ok, Bool.false_eq_true, if_false, e1, hle, hgu, e3]
  · simp only [forEachAll, hany, bind_ok, Bool.false_eq_true, if_false, e1, hle, hgu, e3]

theorem argsOf_cons (t : List Nat) (ts : List (List Nat)) :
    argsOf (t :: ts) = t.map VCell.ptr :: argsOf ts := rfl

/-- `map-all` follows the plan: when the walk ends at the end of a list the result is a fresh proper
    list of what the calls returned; when it runs into a non-pair the answer is the `expected pair`
    error of `car` -/
theorem mapAll_plan {g : Callee} {M : Nat → Prop} {I : Store → Prop}
    {views : List (List Nat × VCell)} {tuples : List (List Nat)} {b : Bool}
    (hp : Plan views tuples b) : ∀ {s : Store} {xss : VCell} {ws : List Nat} {fuel : Nat},
    SpineOff M s xss ws .nil → HeadsOff M s ws views → (∀ i, M i → i < s.cells.length) → I s →
    MapCallee g M I (argsOf tuples) → tuples.length + views.length + 2 ≤ fuel →
    (b = true → ∃ s' r ys rs, mapAll g fuel s xss = .ok (s', r) ∧
        MapRun g s (argsOf tuples) s' ys ∧ SpineOff (· < s.cells.length) s' r rs .nil ∧
        DenotesAll s' rs ys ∧ Keeps M s s' ∧ I s') ∧
    (b = false → mapAll g fuel s xss = .err .pair) := by
  induction hp with
  | @stop views hend =>
    intro s xss ws fuel hx hh hM hI hg hfuel
    obtain ⟨f, rfl⟩ : ∃ f, fuel = f + 1 := ⟨fuel - 1, by omega⟩
    have hany := anyNull_spec (fuel := f) hx hh (by rw [hh.length]; omega)
    rw [hend] at hany
    refine ⟨fun _ => ⟨s, .nil, [], [], ?_, .nil (Extends.refl s), .imm rfl rfl, .nil,
      Keeps.refl M s, hI⟩, fun h => by cases h⟩
    simp only [mapAll, hany, bind_ok, if_true]
  | @stuck views hend hno =>
    intro s xss ws fuel hx hh hM hI hg hfuel
    obtain ⟨f, rfl⟩ : ∃ f, fuel = f + 1 := ⟨fuel - 1, by omega⟩
    have hf : ws.length < f := by rw [hh.length]; omega
    have hany := anyNull_spec hx hh hf
    rw [hend] at hany
    refine ⟨fun h => (by cases h), fun _ => ?_⟩
    simp only [mapAll, hany, bind_ok, Bool.false_eq_true, if_false, map1_car_err hx hh hno hf,
      bind_err]
  | @step views tuples b hne _ ih =>
    intro s xss ws fuel hx hh hM hI hg hfuel
    obtain ⟨f, rfl⟩ : ∃ f, fuel = f + 1 := ⟨fuel - 1, by omega⟩
    simp only [List.length_cons] at hfuel
    have hf : ws.length < f := by rw [hh.length]; omega
    obtain ⟨s1, u, y, s3, cdrs, ds, x1, hgu, hk, x3, hI3, hx3, hh3, emap, _⟩ :=
      mapAll_step (g := g) (I := I) hx hh hM hne hf hI hg.grow
        (fun t ht => hg.call t _ ht (by rw [argsOf_cons]; exact List.mem_cons_self ..))
    have hlen3 : s.cells.length ≤ s3.cells.length :=
      Nat.le_trans x1.len (Nat.le_trans hk.len x3.len)
    obtain ⟨ihok, iherr⟩ := ih (fuel := f) hx3 hh3
      (fun i hi => Nat.lt_of_lt_of_le (hM i hi) hlen3) hI3 hg.tail
      (by simp only [List.length_map]; omega)
    refine ⟨fun hb => ?_, fun hb => ?_⟩
    · obtain ⟨s4, r, ys, rs, e4, run, fr, hden, hk4, hI4⟩ := ihok hb
      have hlen4 : s.cells.length ≤ s4.cells.length := Nat.le_trans hlen3 hk4.len
      obtain ⟨s5, p, ay, c1, x5, hbx, fr5⟩ := cons_fresh (n := s.cells.length) hlen4 y
        (fr.weaken (M := (· < s3.cells.length)) fun i hi => Nat.lt_of_lt_of_le hi hlen3)
      refine ⟨s5, .ptr p, y :: ys, ay :: rs, ?_, ?_, fr5, .cons hbx.denotes
        (denotes_forall₂_mono x5 hden), ?_, hg.grow s4 s5 hI4 x5⟩
      · rw [emap, e4]; exact c1
      · rw [argsOf_cons]
        exact .cons x1 hgu ((run.extend_left x3).extend_right x5)
      · exact (((x1.keeps M).trans hk).trans ((x3.keeps M).trans hk4)).trans (x5.keeps M)
    · rw [emap, iherr hb]; rfl

/-- `for-each-all` follows the plan -/
theorem forEachAll_plan {g : Callee} {M : Nat → Prop} {I : Store → Prop}
    {views : List (List Nat × VCell)} {tuples : List (List Nat)} {b : Bool}
    (hp : Plan views tuples b) : ∀ {s : Store} {xss : VCell} {ws : List Nat} {fuel : Nat},
    SpineOff M s xss ws .nil → HeadsOff M s ws views → (∀ i, M i → i < s.cells.length) → I s →
    MapCallee g M I (argsOf tuples) → tuples.length + views.length + 2 ≤ fuel →
    (b = true → ∃ s' ys, forEachAll g fuel s xss = .ok (s', .void) ∧
        MapRun g s (argsOf tuples) s' ys ∧ Keeps M s s' ∧ I s') ∧
    (b = false → forEachAll g fuel s xss = .err .pair) := by
  induction hp with
  | @stop views hend =>
    intro s xss ws fuel hx hh hM hI hg hfuel
    obtain ⟨f, rfl⟩ : ∃ f, fuel = f + 1 := ⟨fuel - 1, by omega⟩
    have hany := anyNull_spec (fuel := f) hx hh (by rw [hh.length]; omega)
    rw [hend] at hany
    refine ⟨fun _ => ⟨s, [], ?_, .nil (Extends.refl s), Keeps.refl M s, hI⟩, fun h => by cases h⟩
    simp only [forEachAll, hany, bind_ok, if_true]
  | @stuck views hend hno =>
    intro s xss ws fuel hx hh hM hI hg hfuel
    obtain ⟨f, rfl⟩ : ∃ f, fuel = f + 1 := ⟨fuel - 1, by omega⟩
    have hf : ws.length < f := by rw [hh.length]; omega
    have hany := anyNull_spec hx hh hf
    rw [hend] at hany
    refine ⟨fun h => (by cases h), fun _ => ?_⟩
    simp only [forEachAll, hany, bind_ok, Bool.false_eq_true, if_false,
      map1_car_err hx hh hno hf, bind_err]
  | @step views tuples b hne _ ih =>
    intro s xss ws fuel hx hh hM hI hg hfuel
    obtain ⟨f, rfl⟩ : ∃ f, fuel = f + 1 := ⟨fuel - 1, by omega⟩
    simp only [List.length_cons] at hfuel
    have hf : ws.length < f := by rw [hh.length]; omega
    obtain ⟨s1, u, y, s3, cdrs, ds, x1, hgu, hk, x3, hI3, hx3, hh3, _, efor⟩ :=
      mapAll_step (g := g) (I := I) hx hh hM hne hf hI hg.grow
        (fun t ht => hg.call t _ ht (by rw [argsOf_cons]; exact List.mem_cons_self ..))
    have hlen3 : s.cells.length ≤ s3.cells.length :=
      Nat.le_trans x1.len (Nat.le_trans hk.len x3.len)
    obtain ⟨ihok, iherr⟩ := ih (fuel := f) hx3 hh3
      (fun i hi => Nat.lt_of_lt_of_le (hM i hi) hlen3) hI3 hg.tail
      (by simp only [List.length_map]; omega)
    refine ⟨fun hb => ?_, fun hb => ?_⟩
    · obtain ⟨s4, ys, e4, run, hk4, hI4⟩ := ihok hb
      refine ⟨s4, y :: ys, ?_, ?_, ?_, hI4⟩
      · rw [efor, e4]; rfl
      · rw [argsOf_cons]
        exact .cons x1 hgu (run.extend_left x3)
      · exact ((x1.keeps M).trans hk).trans ((x3.keeps M).trans hk4)
    · rw [efor, iherr hb]; rfl

/-! ## the prologue: `(map f xs . xss)` conses `xs` onto the rest-argument list -/

theorem boxedAll_heads {M : Nat → Prop} {n0 : Nat} (hM : ∀ i, M i → i < n0) {s s' : Store}
    (he : Extends s s') {as : List Nat} {ls : List VCell} (hb : BoxedAll n0 s' as ls) :
    ∀ {vs : List (List Nat × VCell)}, AllSpinesOff M s ls vs → HeadsOff M s' as vs := by
  induction hb with
  | nil => intro vs h; cases h; exact .nil
  | cons h1 _ ih =>
    intro vs h
    cases h with
    | cons g1 g2 => exact .cons (h1.spineOff hM he g1) (ih g2)

/-- the list of lists `map` / `for-each` hand to their local loop -/
theorem map_prologue {M : Nat → Prop} {s : Store} {xs : VCell} {rest : List VCell}
    {views : List (List Nat × VCell)} (hl : AllSpinesOff M s (xs :: rest) views)
    (hM : ∀ i, M i → i < s.cells.length) :
    ∃ s1 r s2 xss ws, list s rest = .ok (s1, r) ∧ cons s1 [xs, r] = .ok (s2, xss) ∧ Extends s s2 ∧
      SpineOff M s2 xss ws .nil ∧ HeadsOff M s2 ws views := by
  cases hl with
  | @cons _ v _ vs h1 h2 =>
    obtain ⟨s1, p, as, e1, fr1, hb1, x1⟩ := list_fresh s rest
    obtain ⟨s2, q, pa, pd, e2, hcell, hba, hbd, x2, hq⟩ := cons_boxed s1 xs (.ptr p)
    have hpd : pd = p := by
      rcases hbd with hbd | ⟨hbd, _⟩
      · cases hbd; rfl
      · simp [VCell.isPtr] at hbd
    subst hpd
    have hM1 : ∀ i, M i → i < s1.cells.length := fun i hi => Nat.lt_of_lt_of_le (hM i hi) x1.len
    refine ⟨s1, .ptr pd, s2, .ptr q, pa :: as, e1, e2, x1.trans x2, ?_, ?_⟩
    · exact .cons (fun hm => by have := hM1 _ hm; omega) hcell ((fr1.weaken hM).mono x2)
    · exact .cons (hba.spineOff hM1 (x1.trans x2) h1)
        (boxedAll_heads hM x1 hb1 h2 |>.keeps (x2.keeps M))

/-- `(map f l₁ … lₖ)`, `k ≥ 1`, on the plan of the views of `l₁ … lₖ` -/
theorem map_plan {g : Callee} {M : Nat → Prop} {I : Store → Prop} {s : Store} {xs : VCell}
    {rest : List VCell} {views : List (List Nat × VCell)} {tuples : List (List Nat)} {b : Bool}
    {fuel : Nat} (hl : AllSpinesOff M s (xs :: rest) views) (hM : ∀ i, M i → i < s.cells.length)
    (hI : I s) (hg : MapCallee g M I (argsOf tuples)) (hp : Plan views tuples b)
    (hfuel : tuples.length + (xs :: rest).length + 2 ≤ fuel) :
    (b = true → ∃ s' r ys rs, map g fuel s (xs :: rest) = .ok (s', r) ∧
        MapRun g s (argsOf tuples) s' ys ∧ SpineOff (· < s.cells.length) s' r rs .nil ∧
        DenotesAll s' rs ys ∧ AllSpinesOff M s' (xs :: rest) views ∧ Keeps M s s' ∧ I s') ∧
    (b = false → map g fuel s (xs :: rest) = .err .pair) := by
  obtain ⟨s1, r0, s2, xss, ws, e1, e2, x2, hx, hh⟩ := map_prologue hl hM
  have hunf : map g fuel s (xs :: rest) = mapAll g fuel s2 xss := by
    simp only [map, e1, bind_ok, e2]
  obtain ⟨hok, herr⟩ := mapAll_plan (g := g) (I := I) hp hx hh
    (fun i hi => Nat.lt_of_lt_of_le (hM i hi) x2.len) (hg.grow s s2 hI x2) hg
    (by rw [← hl.length]; exact hfuel)
  refine ⟨fun hb => ?_, fun hb => by rw [hunf]; exact herr hb⟩
  obtain ⟨s', r, ys, rs, e, run, fr, hden, hk, hI'⟩ := hok hb
  have hks : Keeps M s s' := (x2.keeps M).trans hk
  exact ⟨s', r, ys, rs, by rw [hunf]; exact e, run.extend_left x2,
    fr.weaken (M := (· < s2.cells.length)) (fun i hi => Nat.lt_of_lt_of_le hi x2.len), hden,
    hl.keeps hks, hks, hI'⟩

/-- `(for-each f l₁ … lₖ)`, `k ≥ 1`, on the plan of the views of `l₁ … lₖ` -/
theorem forEach_plan {g : Callee} {M : Nat → Prop} {I : Store → Prop} {s : Store} {xs : VCell}
    {rest : List VCell} {views : List (List Nat × VCell)} {tuples : List (List Nat)} {b : Bool}
    {fuel : Nat} (hl : AllSpinesOff M s (xs :: rest) views) (hM : ∀ i, M i → i < s.cells.length)
    (hI : I s) (hg : MapCallee g M I (argsOf tuples)) (hp : Plan views tuples b)
    (hfuel : tuples.length + (xs :: rest).length + 2 ≤ fuel) :
    (b = true → ∃ s' ys, forEach g fuel s (xs :: rest) = .ok (s', .void) ∧
        MapRun g s (argsOf tuples) s' ys ∧ AllSpinesOff M s' (xs :: rest) views ∧ Keeps M s s' ∧
        I s') ∧
    (b = false → forEach g fuel s (xs :: rest) = .err .pair) := by
  obtain ⟨s1, r0, s2, xss, ws, e1, e2, x2, hx, hh⟩ := map_prologue hl hM
  have hunf : forEach g fuel s (xs :: rest) = forEachAll g fuel s2 xss := by
    simp only [forEach, e1, bind_ok, e2]
  obtain ⟨hok, herr⟩ := forEachAll_plan (g := g) (I := I) hp hx hh
    (fun i hi => Nat.lt_of_lt_of_le (hM i hi) x2.len) (hg.grow s s2 hI x2) hg
    (by rw [← hl.length]; exact hfuel)
  refine ⟨fun hb => ?_, fun hb => by rw [hunf]; exact herr hb⟩
  obtain ⟨s', ys, e, run, hk, hI'⟩ := hok hb
  have hks : Keeps M s s' := (x2.keeps M).trans hk
  exact ⟨s', ys, by rw [hunf]; exact e, run.extend_left x2, hl.keeps hks, hks, hI'⟩

end Marwood.Store
