import Marwood.Lemmas.EvalConverseSteps
/-! Converse simulation (`SimR`): mirror of `EvalExtraForms.lean` (see `EvalConverse.lean`). -/
namespace Marwood.Spec.Eval.Conv
open Marwood Marwood.Spec.Eval Marwood.Spec.Eval.Extra

variable {f : LMap} {r r' : Rec} {B : List Text} {ρ ρ' : Env}

theorem simR_allocVars {xs xs'} (h : BindsRel f xs xs') : ∀ {ρ ρ'}, EnvRel f B ρ ρ' →
    SimR f (EnvRel f B) (allocVars xs ρ) (allocVars xs' ρ') := by
  induction h with
  | nil => intro ρ ρ' he; exact SimR.pure _ _ he
  | cons x hv _ ih =>
    intro ρ ρ' he
    simp only [allocVars]
    refine SimR.bind (simR_allocCell (.var hv)) (fun l l' hl => ?_)
    exact ih (he.cons x hl)

theorem simR_makeClosure (formals body : Datum) (he : EnvRel f B ρ ρ') (hb : CleanB B body) :
    SimR f (VRel f) (makeClosure formals body ρ) (makeClosure formals body ρ') := by
  unfold makeClosure
  split
  · rename_i ps rest b bs _ h2
    exact SimR.pure _ _ (.closure ps rest (b :: bs) ρ ρ' B he (cleanBs_properList h2 hb))
  · exact SimR.throw _

theorem simR_defineValue (hr : RecSimR f r r') (he : EnvRel f B ρ ρ') (d : Datum) (hd : CleanB B d) :
    SimR f (fun p p' => p'.1 = p.1 ∧ p.1 ∉ B ∧ VRel f p.2 p'.2) (defineValue r ρ d) (defineValue r' ρ' d) := by
  unfold defineValue
  split
  · rename_i y e
    simp only [cleanB_pair, cleanB_sym] at hd
    split
    · exact SimR.throw _
    · refine SimR.bind (hr.eval e ρ ρ' B he hd.2.2.1) (fun v v' hv => ?_)
      exact SimR.pure _ _ ⟨rfl, hd.2.1, hv⟩
  · rename_i g formals body
    simp only [cleanB_pair, cleanB_sym] at hd
    split
    · exact SimR.throw _
    · refine SimR.bind (simR_makeClosure formals body he hd.2.2) (fun v v' hv => ?_)
      exact SimR.pure _ _ ⟨rfl, hd.2.1.1, hv⟩
  · exact SimR.throw _

theorem simR_assignVar (hf : Inj f) (he : EnvRel f B ρ ρ') (y : Text) (hy : y ∉ B) {v v' : Val} (hv : VRel f v v') :
    SimR f (fun _ _ => True) (assignVar ρ y v) (assignVar ρ' y v') := by
  unfold assignVar
  have := he y hy
  revert this
  generalize List.lookup y ρ = o
  generalize List.lookup y ρ' = o'
  intro h
  cases h with
  | none => exact simR_setGlobal y hv
  | some l => exact simR_writeCell hf rfl (.var hv)

theorem simR_evalBodyForms (hf : Inj f) (hr : RecSimR f r r') (he : EnvRel f B ρ ρ') : ∀ (es : List Datum) (defs : Bool), CleanBs B es →
    SimR f (VRel f) (evalBodyForms r ρ defs es) (evalBodyForms r' ρ' defs es)
  | [], _, _ => by simp only [evalBodyForms]; exact SimR.throw _
  | [e], defs, h => by
    rw [cleanBs_cons] at h
    simp only [evalBodyForms]
    split
    · refine SimR.bind (simR_defineValue hr he e h.1) (fun p p' hp => ?_)
      obtain ⟨x, v⟩ := p
      obtain ⟨x', v'⟩ := p'
      simp only at hp
      obtain ⟨rfl, hx, hv⟩ := hp
      refine SimR.bind (simR_assignVar hf he x' hx hv) (fun _ _ _ => ?_)
      exact SimR.pure _ _ .void
    · exact hr.eval e ρ ρ' B he h.1
  | e :: e' :: es, defs, h => by
    rw [cleanBs_cons] at h
    simp only [evalBodyForms]
    split
    · refine SimR.bind (simR_defineValue hr he e h.1) (fun p p' hp => ?_)
      obtain ⟨x, v⟩ := p
      obtain ⟨x', v'⟩ := p'
      simp only at hp
      obtain ⟨rfl, hx, hv⟩ := hp
      refine SimR.bind (simR_assignVar hf he x' hx hv) (fun _ _ _ => ?_)
      exact simR_evalBodyForms hf hr he (e' :: es) true h.2
    · refine SimR.bind (hr.eval e ρ ρ' B he h.1) (fun _ _ _ => ?_)
      exact simR_evalBodyForms hf hr he (e' :: es) false h.2

theorem simR_evalBody (hf : Inj f) (hr : RecSimR f r r') (he : EnvRel f B ρ ρ') (body : List Datum) (h : CleanBs B body) :
    SimR f (VRel f) (evalBody r ρ body) (evalBody r' ρ' body) := by
  unfold evalBody
  refine SimR.bind (simR_allocVars (bindsRel_const (fun x => x) .undef _) he) (fun ρ1 ρ1' he1 => ?_)
  exact simR_evalBodyForms hf hr he1 body true h

theorem simR_bindArgs : ∀ (ps : List Text) (rest : Option Text) {args args' : List Val}, VsRel f args args' → ∀ {ρ ρ'}, EnvRel f B ρ ρ' →
    SimR f (EnvRel f B) (bindArgs ps rest args ρ) (bindArgs ps rest args' ρ') := by
  intro ps
  induction ps with
  | nil =>
    intro rest args args' ha ρ ρ' he
    cases rest with
    | none =>
      cases ha with
      | nil => simp only [bindArgs]; exact SimR.pure _ _ he
      | cons _ _ => simp only [bindArgs]; exact SimR.throw _
    | some rr =>
      simp only [bindArgs]
      refine SimR.bind (simR_allocList ha) (fun lst lst' hl => ?_)
      refine SimR.bind (simR_allocCell (.var hl)) (fun l l' hl' => ?_)
      exact SimR.pure _ _ (he.cons rr hl')
  | cons p ps ih =>
    intro rest args args' ha ρ ρ' he
    cases ha with
    | nil => simp only [bindArgs]; exact SimR.throw _
    | cons hv hvs =>
      simp only [bindArgs]
      refine SimR.bind (simR_allocCell (.var hv)) (fun l l' hl => ?_)
      exact ih rest hvs (he.cons p hl)

theorem simR_qq (hr : RecSimR f r r') (he : EnvRel f B ρ ρ') : ∀ (n : Nat) (d : Datum) (depth : Nat), dsz d ≤ n → CleanB B d →
    SimR f (VRel f) (qq r ρ d depth) (qq r' ρ' d depth) ∧ SimR f (VsRel f) (qqElems r ρ d depth) (qqElems r' ρ' d depth) := by
  intro n
  induction n with
  | zero => intro d depth hn; cases d <;> simp [dsz] at hn
  | succ n ih =>
    intro d depth hn hc
    refine ⟨?_, ?_⟩
    · unfold qq
      split
      · rename_i s y
        simp only [cleanB_pair, cleanB_sym] at hc
        simp only [dsz] at hn
        have hy : ∀ k, SimR f (VRel f) (qq r ρ y k) (qq r' ρ' y k) := fun k => (ih y k (by omega) hc.2.1).1
        have hl : ∀ {w w' : Val}, VRel f w w' → SimR f (VRel f) (allocList [.sym s, w]) (allocList [.sym s, w']) :=
          fun h => simR_allocList (.cons (.sym s) (.cons h .nil))
        split
        · split
          · exact hr.eval y ρ ρ' B he hc.2.1
          · exact SimR.bind (hy _) (fun w w' hw => hl hw)
        · split
          · exact SimR.bind (hy _) (fun w w' hw => hl hw)
          · exact SimR.bind (hy _) (fun w w' hw => hl hw)
      · rename_i a d2 _
        simp only [cleanB_pair] at hc
        simp only [dsz] at hn
        refine SimR.bind (ih a _ (by omega) hc.1).1 (fun a1 a2 ha => ?_)
        refine SimR.bind (ih d2 _ (by omega) hc.2).1 (fun t1 t2 ht => ?_)
        exact simR_cons ha ht
      · rename_i e
        simp only [cleanB_vec] at hc
        simp only [dsz] at hn
        refine SimR.bind (ih e _ (by omega) hc).2 (fun xs xs' hxs => ?_)
        exact simR_allocVec hxs
      · exact simR_quoteVal _
    · unfold qqElems
      split
      · rename_i a d2
        simp only [cleanB_pair] at hc
        simp only [dsz] at hn
        refine SimR.bind (ih a _ (by omega) hc.1).1 (fun a1 a2 ha => ?_)
        refine SimR.bind (ih d2 _ (by omega) hc.2).2 (fun t1 t2 ht => ?_)
        exact SimR.pure _ _ (.cons ha ht)
      · exact SimR.pure _ _ .nil

theorem simR_evalCond (hr : RecSimR f r r') (he : EnvRel f B ρ ρ') : ∀ (cs : List Datum), CleanBs B cs →
    SimR f (VRel f) (evalCond r ρ cs) (evalCond r' ρ' cs)
  | [], _ => SimR.pure _ _ .void
  | c :: cs, h => by
    rw [cleanBs_cons] at h
    simp only [evalCond]
    split
    · rename_i t body hp
      have hcl := cleanBs_properList hp h.1
      rw [cleanBs_cons] at hcl
      split
      · split
        · exact simR_evalExprs hr he body hcl.2
        · exact SimR.throw _
      · refine SimR.bind (hr.eval t ρ ρ' B he hcl.1) (fun v v' hv => ?_)
        rw [hv.truthy]
        split
        · split
          · exact SimR.pure _ _ hv
          · rename_i arrow g
            have hb := hcl.2
            simp only [cleanBs_cons] at hb
            split
            · refine SimR.bind (hr.eval g ρ ρ' B he hb.2.1) (fun fv fv' hfv => ?_)
              exact hr.apply _ _ _ _ hfv (.cons hv .nil)
            · exact simR_evalExprs hr he _ hcl.2
          · exact simR_evalExprs hr he body hcl.2
        · exact simR_evalCond hr he cs h.2
    · exact SimR.throw _

theorem simR_evalCase (hr : RecSimR f r r') (he : EnvRel f B ρ ρ') {key key' : Val} (hk : VRel f key key') : ∀ (cs : List Datum), CleanBs B cs →
    SimR f (VRel f) (evalCase r ρ key cs) (evalCase r' ρ' key' cs)
  | [], _ => SimR.pure _ _ .void
  | c :: cs, h => by
    rw [cleanBs_cons] at h
    have ek : eqvDatum key' = eqvDatum key := funext (fun d => hk.eqvDatum d)
    simp only [evalCase, ek]
    split
    · rename_i sel bodyD
      have hc := h.1
      simp only [cleanB_pair] at hc
      split
      · rename_i body hp
        have hb : CleanBs B body := cleanBs_properList hp hc.2
        split
        · exact SimR.throw _
        · exact simR_evalCase hr he hk cs h.2
        · split
          · rename_i arrow g
            have hb' := hb
            simp only [cleanBs_cons] at hb'
            split
            · refine SimR.bind (hr.eval g ρ ρ' B he hb'.2.1) (fun fv fv' hfv => ?_)
              exact hr.apply _ _ _ _ hfv (.cons hk .nil)
            · exact simR_evalExprs hr he _ hb
          · exact simR_evalExprs hr he body hb
      · exact SimR.throw _
    · exact SimR.throw _

theorem simR_evalLetStar (hf : Inj f) (hr : RecSimR f r r') (body : List Datum) (hb : CleanBs B body) : ∀ (bs : List (Text × Datum)) {ρ ρ'}, EnvRel f B ρ ρ' →
    (∀ b ∈ bs, CleanB B b.2) → SimR f (VRel f) (evalLetStar r body bs ρ) (evalLetStar r' body bs ρ')
  | [], ρ, ρ', he, _ => by simp only [evalLetStar]; exact simR_evalBody hf hr he body hb
  | (y, e) :: bs, ρ, ρ', he, h => by
    simp only [evalLetStar]
    refine SimR.bind (hr.eval e ρ ρ' B he (h (y, e) (by simp))) (fun v v' hv => ?_)
    refine SimR.bind (simR_allocCell (.var hv)) (fun l l' hl => ?_)
    exact simR_evalLetStar hf hr body hb bs (he.cons y hl) (fun b hb' => h b (by simp [hb']))

theorem simR_evalVar (he : EnvRel f B ρ ρ') (s : Text) (hs : s ∉ B) : SimR f (VRel f) (evalVar s ρ) (evalVar s ρ') := by
  unfold evalVar
  split
  · exact SimR.throw _
  · have := he s hs
    revert this
    generalize List.lookup s ρ = o
    generalize List.lookup s ρ' = o'
    intro h
    cases h with
    | none => exact simR_getGlobal s
    | some l => exact simR_readVar rfl

theorem simR_evalLetrecInits (hf : Inj f) (hr : RecSimR f r r') (he : EnvRel f B ρ ρ') : ∀ (bs : List (Text × Datum)),
    (∀ b ∈ bs, b.1 ∉ B ∧ CleanB B b.2) → SimR f (fun _ _ => True) (evalLetrecInits r ρ bs) (evalLetrecInits r' ρ' bs)
  | [], _ => SimR.pure _ _ trivial
  | (y, e) :: bs, h => by
    simp only [evalLetrecInits]
    have h1 := h (y, e) (by simp)
    refine SimR.bind (hr.eval e ρ ρ' B he h1.2) (fun v v' hv => ?_)
    refine SimR.bind (simR_assignVar hf he y h1.1 hv) (fun _ _ _ => ?_)
    exact simR_evalLetrecInits hf hr he bs (fun b hb => h b (by simp [hb]))

theorem simR_evalKw (hf : Inj f) (hr : RecSimR f r r') (he : EnvRel f B ρ ρ') (k : Kw) (rest : Datum) (hc : CleanB B rest) :
    SimR f (VRel f) (evalKw r ρ k rest) (evalKw r' ρ' k rest) := by
  cases k with
  | quote =>
    simp only [evalKw]
    split
    · exact simR_quoteVal _
    · exact SimR.throw _
  | quasiquote =>
    simp only [evalKw]
    split
    · simp only [cleanB_pair] at hc; exact (simR_qq hr he _ _ _ (Nat.le_refl _) hc.1).1
    · exact SimR.throw _
  | unquote => exact SimR.throw _
  | define => exact SimR.throw _
  | lambda =>
    simp only [evalKw]
    split
    · simp only [cleanB_pair] at hc; exact simR_makeClosure _ _ he hc.2
    · exact SimR.throw _
  | setBang =>
    simp only [evalKw]
    split
    · rename_i y e hp
      have hd := cleanBs_properList hp hc
      simp only [cleanBs_cons, cleanB_sym] at hd
      split
      · exact SimR.throw _
      · refine SimR.bind (hr.eval e ρ ρ' B he hd.2.1) (fun v v' hv => ?_)
        refine SimR.bind (simR_assignVar hf he y hd.1 hv) (fun _ _ _ => ?_)
        exact SimR.pure _ _ .void
    · exact SimR.throw _
  | if_ =>
    simp only [evalKw]
    split
    · rename_i t c hp
      have hd := cleanBs_properList hp hc
      simp only [cleanBs_cons] at hd
      refine SimR.bind (hr.eval t ρ ρ' B he hd.1) (fun v v' hv => ?_)
      rw [hv.truthy]
      split
      · exact hr.eval c ρ ρ' B he hd.2.1
      · exact SimR.pure _ _ .void
    · rename_i t c a hp
      have hd := cleanBs_properList hp hc
      simp only [cleanBs_cons] at hd
      refine SimR.bind (hr.eval t ρ ρ' B he hd.1) (fun v v' hv => ?_)
      rw [hv.truthy]
      split
      · exact hr.eval c ρ ρ' B he hd.2.1
      · exact hr.eval a ρ ρ' B he hd.2.2.1
    · exact SimR.throw _
  | let_ =>
    simp only [evalKw]
    split
    · rename_i name bindings bodyD
      simp only [cleanB_pair, cleanB_sym] at hc
      split
      · rename_i bs b body hb hp
        have hbs := cleanB_parseBindings hb hc.2.1
        have hbody := cleanBs_properList hp hc.2.2
        split
        · exact SimR.throw _
        · refine SimR.bind (simR_evalArgs hr he _ (cleanBs_map_snd hbs)) (fun vs vs' hvs => ?_)
          refine SimR.bind (simR_allocCell (.var .undef)) (fun l l' hl => ?_)
          have hclo : VRel f (Val.closure (bs.map (·.1)) none (b :: body) ((name, l) :: ρ))
              (Val.closure (bs.map (·.1)) none (b :: body) ((name, l') :: ρ')) :=
            .closure _ _ _ _ _ B (he.cons name hl) hbody
          refine SimR.bind (simR_writeCell hf hl (.var hclo)) (fun _ _ _ => ?_)
          exact hr.apply _ _ _ _ hclo hvs
      · exact SimR.throw _
    · rename_i bindings bodyD _
      simp only [cleanB_pair] at hc
      split
      · rename_i bs b body hb hp
        have hbs := cleanB_parseBindings hb hc.1
        have hbody := cleanBs_properList hp hc.2
        refine SimR.bind (simR_evalArgs hr he _ (cleanBs_map_snd hbs)) (fun vs vs' hvs => ?_)
        refine SimR.bind (simR_allocVars (bindsRel_zip _ hvs) he) (fun ρ1 ρ1' he1 => ?_)
        exact simR_evalBody hf hr he1 _ hbody
      · exact SimR.throw _
    · exact SimR.throw _
  | letStar =>
    simp only [evalKw]
    split
    · rename_i bindings bodyD
      simp only [cleanB_pair] at hc
      split
      · rename_i bs b body hb hp
        have hbs := cleanB_parseBindings hb hc.1
        have hbody := cleanBs_properList hp hc.2
        exact simR_evalLetStar hf hr _ hbody bs he (fun b' hb' => (hbs b' hb').2)
      · exact SimR.throw _
    · exact SimR.throw _
  | letrec =>
    simp only [evalKw]
    split
    · rename_i bindings bodyD
      simp only [cleanB_pair] at hc
      split
      · rename_i bs b body hb hp
        have hbs := cleanB_parseBindings hb hc.1
        have hbody := cleanBs_properList hp hc.2
        refine SimR.bind (simR_allocVars (bindsRel_undef_pairs bs) he) (fun ρ1 ρ1' he1 => ?_)
        refine SimR.bind (simR_evalLetrecInits hf hr he1 bs hbs) (fun _ _ _ => ?_)
        exact simR_evalBody hf hr he1 _ hbody
      · exact SimR.throw _
    · exact SimR.throw _
  | begin_ =>
    simp only [evalKw]
    split
    · rename_i es hp
      exact simR_evalExprs hr he es (cleanBs_properList hp hc)
    · exact SimR.throw _
  | cond =>
    simp only [evalKw]
    split
    · rename_i c cs hp
      exact simR_evalCond hr he _ (cleanBs_properList hp hc)
    · exact SimR.throw _
  | case_ =>
    simp only [evalKw]
    split
    · rename_i keyE clauses
      simp only [cleanB_pair] at hc
      split
      · rename_i c cs hp
        refine SimR.bind (hr.eval keyE ρ ρ' B he hc.1) (fun key key' hk => ?_)
        exact simR_evalCase hr he hk _ (cleanBs_properList hp hc.2)
      · exact SimR.throw _
    · exact SimR.throw _
  | and_ =>
    simp only [evalKw]
    split
    · rename_i es hp
      exact simR_evalAnd hr he es (cleanBs_properList hp hc)
    · exact SimR.throw _
  | or_ =>
    simp only [evalKw]
    split
    · rename_i es hp
      exact simR_evalOr hr he es (cleanBs_properList hp hc)
    · exact SimR.throw _
  | when_ =>
    simp only [evalKw]
    split
    · rename_i t b body hp
      have hd := cleanBs_properList hp hc
      rw [cleanBs_cons] at hd
      refine SimR.bind (hr.eval t ρ ρ' B he hd.1) (fun v v' hv => ?_)
      rw [hv.truthy]
      split
      · exact simR_evalExprs hr he _ hd.2
      · exact SimR.pure _ _ .void
    · exact SimR.throw _
  | unless_ =>
    simp only [evalKw]
    split
    · rename_i t b body hp
      have hd := cleanBs_properList hp hc
      rw [cleanBs_cons] at hd
      refine SimR.bind (hr.eval t ρ ρ' B he hd.1) (fun v v' hv => ?_)
      rw [hv.truthy]
      split
      · exact SimR.pure _ _ .void
      · exact simR_evalExprs hr he _ hd.2
    · exact SimR.throw _
  | delay =>
    simp only [evalKw]
    split
    · rename_i e hp
      have hd := cleanBs_properList hp hc
      refine SimR.bind (simR_allocCell (.promise false (.closure [] none [e] ρ ρ' B he hd))) (fun l l' hl => ?_)
      subst hl
      exact SimR.pure _ _ (.promise l)
    · exact SimR.throw _

end Marwood.Spec.Eval.Conv
