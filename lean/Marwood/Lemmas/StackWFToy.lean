import Marwood.Lemmas.StackWFRun
/-!
# A concrete instance of `CodeLaws`, for the non-vacuity examples of C04 / C05 / C07

Heap-less machine with three code objects, shaped as compile.rs emits them:
* 1 — entry code `PUSHIMM argc0; MOVIMM λ2 acc; CALL; HALT`
* 2 — `ENTER; MOVIMM void acc; RET`                           (a procedure that returns)
* 3 — `ENTER; PUSHIMM argc0; MOVIMM c5 acc; TCALL; RET`       (a procedure that tail-calls itself forever;
      heap cell 5 is the closure of lambda 3)
* 4 — entry code `PUSHIMM argc0; MOVIMM c5 acc; CALL; HALT`
-/
namespace Marwood.Vm.Toy
open Marwood.Vm Verify

def code1 : List VCell := [.opcode .pushImm, .argc 0, .opcode .movImm, .ptr 2, .acc, .opcode .callAcc, .opcode .halt]
def code2 : List VCell := [.opcode .enter, .opcode .movImm, .void, .acc, .opcode .ret]
def code3 : List VCell := [.opcode .enter, .opcode .pushImm, .argc 0, .opcode .movImm, .ptr 5, .acc,
  .opcode .tcallAcc, .opcode .ret]
def code4 : List VCell := [.opcode .pushImm, .argc 0, .opcode .movImm, .ptr 5, .acc, .opcode .callAcc, .opcode .halt]

/-- entry code passing one argument to the closure in heap cell 6 (of lambda 8, a copy of 2 with one
    parameter): the shape `call/cc` leaves when it re-dispatches to its receiver -/
def code7 : List VCell := [.opcode .pushImm, .void, .opcode .pushImm, .argc 1, .opcode .movImm, .ptr 6, .acc,
  .opcode .callAcc, .opcode .halt]

def code (l : Nat) : Option (List VCell) :=
  if l = 1 then some code1 else if l = 2 then some code2 else if l = 3 then some code3
  else if l = 4 then some code4 else if l = 7 then some code7 else if l = 8 then some code2 else none

def ops : HeapOps Unit where
  fetch _ l o := (code l).bind (·[o]?)
  isLambda _ l := (code l).isSome
  callee _ v := match v with
    | .ptr 2 => .lambda
    | .ptr 5 => .closure 3 0
    | .ptr 6 => .closure 8 0
    | _ => .other
  lambdaInfo _ l := if l = 2 ∨ l = 3 then some ⟨0⟩ else if l = 8 then some ⟨1⟩ else none
  deref _ v := v
  getAt _ _ := .undefined
  setAt h _ _ := h
  put h v := (h, v)
  maybePut h v := (h, v)
  newCont h _ := (h, .undefined)
  globGet _ _ := .undefined
  globPut h _ _ := h
  envGet _ _ _ := none
  envPut _ _ _ _ := none
  makeClosure _ _ _ _ _ := .err .invalidBytecode
  makeActivation _ _ _ _ _ := .ok ((), 0)
  vectorPush _ _ _ := .err .expectedType
  builtinKind _ _ := .generic
  builtinEval _ _ _ := .err .invalidSyntax
  compileEval _ _ := .err .invalidSyntax
  isProcedure _ _ := false

theorem ver1 : (verifyLam code1).map (·.entry) = some true := by decide +kernel
theorem ver2 : (verifyLam code2).map (·.entry) = some false := by decide +kernel
theorem ver3 : (verifyLam code3).map (·.entry) = some false := by decide +kernel
theorem ver4 : (verifyLam code4).map (·.entry) = some true := by decide +kernel
theorem ver7 : (verifyLam code7).map (·.entry) = some true := by decide +kernel

def laws : CodeLaws ops where
  e := 0
  code _ l := code l
  HInv _ := True
  Val _ := True
  val_imm := fun _ _ => trivial
  put_val := fun _ _ => trivial
  maybePut_val := fun _ _ => trivial
  newCont_val := fun _ _ => trivial
  makeClosure_val := fun _ => trivial
  vectorPush_val := fun _ => trivial
  globGet_val := fun _ _ => trivial
  envGet_val := fun _ _ => trivial
  envGet_val2 := fun _ _ => trivial
  info_code := by
    intro h l bc info _ hc hi
    have hi' : (if l = 2 ∨ l = 3 then some (⟨0⟩ : LambdaInfo) else if l = 8 then some ⟨1⟩ else none) = some info := hi
    have hc' : code l = some bc := hc
    by_cases h2 : l = 2
    · subst h2
      rw [show code 2 = some code2 from rfl] at hc'
      cases hc'; cases hi'; decide
    · by_cases h3 : l = 3
      · subst h3
        rw [show code 3 = some code3 from rfl] at hc'
        cases hc'; cases hi'; decide
      · by_cases h8 : l = 8
        · subst h8
          rw [show code 8 = some code2 from rfl] at hc'
          cases hc'; cases hi'; decide
        · exact absurd hi' (by simp [h2, h3, h8])
  fetch_code := by
    intro h l bc _ hc o
    show (code l).bind (·[o]?) = _
    rw [hc]; rfl
  step_inv := fun _ _ => trivial
  step_code := fun _ _ hc => hc
  callee_closure := by
    intro h v lam env _ hc
    simp only [ops] at hc
    split at hc
    · cases hc
    · cases hc
      have := ver3
      cases hv : verifyLam code3 with
      | none => rw [hv] at this; cases this
      | some t =>
        rw [hv] at this
        exact ⟨t, by show (code 3).bind verifyLam = _; exact hv, by simpa using this⟩
    · cases hc
      have := ver2
      cases hv : verifyLam code2 with
      | none => rw [hv] at this; cases this
      | some t =>
        rw [hv] at this
        exact ⟨t, by show (code 8).bind verifyLam = _; exact hv, by simpa using this⟩
    · cases hc
  callee_lambda := by
    intro h lam _ hc
    simp only [ops] at hc
    split at hc
    · rename_i heq; cases heq
      have := ver2
      cases hv : verifyLam code2 with
      | none => rw [hv] at this; cases this
      | some t =>
        rw [hv] at this
        exact ⟨t, by show (code 2).bind verifyLam = _; exact hv, by simpa using this⟩
    · cases hc
    · cases hc
    · cases hc
  cont_wf := by
    intro h v c _ hc
    simp only [ops] at hc
    split at hc <;> cases hc
  newCont_inv := fun _ _ => trivial
  newCont_code := fun _ hc => hc

def gcLaws : GcLaws laws id :=
  ⟨fun _ => ⟨rfl, rfl, rfl, rfl⟩, fun _ => rfl, fun _ _ h => h, fun _ h => h, fun _ _ _ _ hc _ => hc⟩

/-- an idle machine with 16 stack cells -/
def idle : St Unit :=
  { heap := (), stack := { cells := List.replicate 16 .undefined, sp := 0 }, acc := .undefined,
    ep := usizeMax, ipL := 0, ipO := 0, bp := 0 }

theorem entry1 : ∃ t, tyOf (laws.code ()) 1 = some t ∧ t.entry = true := by
  have := ver1
  cases hv : verifyLam code1 with
  | none => rw [hv] at this; cases this
  | some t => rw [hv] at this; exact ⟨t, hv, by simpa using this⟩

theorem entry4 : ∃ t, tyOf (laws.code ()) 4 = some t ∧ t.entry = true := by
  have := ver4
  cases hv : verifyLam code4 with
  | none => rw [hv] at this; cases this
  | some t => rw [hv] at this; exact ⟨t, hv, by simpa using this⟩

theorem entry7 : ∃ t, tyOf (laws.code ()) 7 = some t ∧ t.entry = true := by
  have := ver7
  cases hv : verifyLam code7 with
  | none => rw [hv] at this; cases this
  | some t => rw [hv] at this; exact ⟨t, hv, by simpa using this⟩

theorem wf_start7 : WFS laws (prepare idle 7) [] := by
  obtain ⟨t, ht, he⟩ := entry7
  exact WFS.initial (cl := laws) trivial ht he rfl (by decide) trivial

/-- the initial state of the evaluation of entry code 1 is WF -/
theorem wf_start1 : WFS laws (prepare idle 1) [] := by
  obtain ⟨t, ht, he⟩ := entry1
  exact WFS.initial (cl := laws) trivial ht he rfl (by decide) trivial

theorem wf_start4 : WFS laws (prepare idle 4) [] := by
  obtain ⟨t, ht, he⟩ := entry4
  exact WFS.initial (cl := laws) trivial ht he rfl (by decide) trivial

/-- run `k` instructions (none of them halting) -/
def runK (k : Nat) (s : St Unit) : Option (St Unit) :=
  match k with
  | 0 => some s
  | k + 1 => match step ops s with
    | .ok (s', false) => runK k s'
    | _ => none

theorem runK_wf : ∀ (k : Nat) (s s' : St Unit) (K : List FDesc), WFS laws s K → runK k s = some s' →
    ∃ K', WFS laws s' K' := by
  intro k
  induction k with
  | zero => intro s s' K hw h; simp only [runK] at h; cases h; exact ⟨K, hw⟩
  | succ k ih =>
    intro s s' K hw h
    simp only [runK] at h
    split at h
    · rename_i s1 hs
      obtain ⟨K1, hw1, _⟩ := step_preserves hw hs
      exact ih s1 s' K1 hw1 h
    · cases h

/-- the `k`-th state of the evaluation of entry code 4 (which calls the looping procedure 3) -/
def nth (k : Nat) : St Unit := (runK k (prepare idle 4)).getD idle

/-- the `k`-th state of the evaluation of entry code 7 (which passes one argument to a closure that returns) -/
def nthR (k : Nat) : St Unit := (runK k (prepare idle 7)).getD idle

end Marwood.Vm.Toy
