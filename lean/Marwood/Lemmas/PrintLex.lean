import Marwood.Lemmas.PrintAtoms
import Marwood.Lemmas.LexSpans
/-!
# Printed atoms are self-delimiting tokens (C10)

`ScansAs sp ty rest`: the scanner, looking at `sp ++ rest`, produces one token of type `ty` spelled
exactly `sp` and continues with `rest`. Punctuation, booleans and strings are self-delimiting whatever
follows; characters, numbers and symbols need what the printer always puts after an atom: the end of
the text, a space or a closing parenthesis (`Delim`).
`ScanTo pos cs ts`: scanning `cs` whose head is at byte `pos` yields the tokens `ts`.
-/
namespace Marwood

/-- what may follow a printed atom -/
def Delim : Text → Prop
  | [] => True
  | c :: _ => c = ' ' ∨ c = ')'

def ScansAs (sp : Text) (ty : TokType) (rest : Text) : Prop :=
  ∃ c cs, sp = c :: cs ∧ scanPiece c (cs ++ rest) = .tok sp ty rest

/-! ## scanning with enough fuel -/

theorem scanFuel_succ : ∀ (f pos : Nat) (cs : Text) (r : Except LexErr (List Token)),
    scanFuel f pos cs = some r → scanFuel (f + 1) pos cs = some r := by
  intro f
  induction f with
  | zero => intro pos cs r h; simp [scanFuel] at h
  | succ f ih =>
    intro pos cs r h
    cases cs with
    | nil => simpa [scanFuel] using h
    | cons c cs =>
      rw [scanFuel] at h ⊢
      split
      · rename_i e he; simp only [he] at h; exact h
      · rename_i a r' he
        simp only [he] at h
        exact ih _ _ _ h
      · rename_i a ty r' he
        simp only [he] at h
        cases hr : scanFuel f (pos + byteLen a) r' with
        | none => simp [hr] at h
        | some x =>
          rw [ih _ _ _ hr]
          simp only [hr] at h
          exact h

theorem scanFuel_mono {f f' pos : Nat} {cs : Text} {r : Except LexErr (List Token)} (hle : f ≤ f')
    (h : scanFuel f pos cs = some r) : scanFuel f' pos cs = some r := by
  induction hle with
  | refl => exact h
  | step _ ih => exact scanFuel_succ _ _ _ _ ih

def ScanTo (pos : Nat) (cs : Text) (ts : List Token) : Prop :=
  ∃ f, scanFuel f pos cs = some (.ok ts)

theorem ScanTo.nil (pos : Nat) : ScanTo pos [] [] := ⟨1, rfl⟩

theorem ScanTo.tok {pos : Nat} {sp rest : Text} {ty : TokType} {ts : List Token}
    (hs : ScansAs sp ty rest) (h : ScanTo (pos + byteLen sp) rest ts) :
    ScanTo pos (sp ++ rest) (⟨pos, pos + byteLen sp, ty⟩ :: ts) := by
  obtain ⟨c, cs, rfl, hp⟩ := hs
  obtain ⟨f, hf⟩ := h
  refine ⟨f + 1, ?_⟩
  simp only [List.cons_append, scanFuel, hp, hf]

theorem scanPiece_space (rest : Text) : scanPiece ' ' rest = .skip [' '] rest := by
  have : scanOther ' ' rest = .skip [' '] rest := by
    unfold scanOther
    have a : isInitialIdentifier ' ' = false := by decide
    have b : isInitialNumber ' ' = false := by decide
    have c : isWhitespaceL1 ' ' = true := by decide
    simp [a, b, c]
  unfold scanPiece
  have h1 : isOpenChar ' ' = false := by decide
  have h2 : isCloseChar ' ' = false := by decide
  simp [h1, h2, this]

theorem ScanTo.space {pos : Nat} {rest : Text} {ts : List Token} (h : ScanTo (pos + 1) rest ts) :
    ScanTo pos (' ' :: rest) ts := by
  obtain ⟨f, hf⟩ := h
  refine ⟨f + 1, ?_⟩
  have hb : byteLen [' '] = 1 := by decide
  simp only [scanFuel, scanPiece_space, hb, hf]

/-- `lex::scan` agrees with any fuel that produced an answer -/
theorem scan_of_scanTo {cs : Text} {ts : List Token} (h : ScanTo 0 cs ts) : scan cs = .ok ts := by
  obtain ⟨f, hf⟩ := h
  unfold scan scanFrom
  have htot := scanFuel_total (cs.length + 1) 0 cs (by omega)
  cases hp : scanFuel (cs.length + 1) 0 cs with
  | none => exact absurd hp htot
  | some r =>
    simp only
    have h1 := scanFuel_mono (Nat.le_max_left f (cs.length + 1)) hf
    have h2 := scanFuel_mono (Nat.le_max_right f (cs.length + 1)) hp
    rw [h1] at h2
    exact (Option.some.inj h2).symm

/-! ## punctuation, booleans, strings: self-delimiting whatever follows -/

theorem scansAs_lparen (rest : Text) : ScansAs ['('] .leftParen rest :=
  ⟨'(', [], rfl, by simp [scanPiece, isOpenChar]⟩

theorem scansAs_rparen (rest : Text) : ScansAs [')'] .rightParen rest :=
  ⟨')', [], rfl, by
    have h1 : isOpenChar ')' = false := by decide
    have h2 : isCloseChar ')' = true := by decide
    simp [scanPiece, h1, h2]⟩

theorem scansAs_quote (rest : Text) : ScansAs ['\''] .singleQuote rest :=
  ⟨'\'', [], rfl, by
    have h1 : isOpenChar '\'' = false := by decide
    have h2 : isCloseChar '\'' = false := by decide
    simp [scanPiece, h1, h2]⟩

theorem scanPiece_hash (cs : Text) : scanPiece '#' cs = scanHash '#' cs := by
  have h1 : isOpenChar '#' = false := by decide
  have h2 : isCloseChar '#' = false := by decide
  simp [scanPiece, h1, h2]

theorem scansAs_hashParen (rest : Text) : ScansAs ['#', '('] .hashParen rest :=
  ⟨'#', ['('], rfl, by rw [scanPiece_hash]; simp [scanHash]⟩

theorem scansAs_true (rest : Text) : ScansAs ['#', 't'] .true_ rest :=
  ⟨'#', ['t'], rfl, by rw [scanPiece_hash]; simp [scanHash]⟩

theorem scansAs_false (rest : Text) : ScansAs ['#', 'f'] .false_ rest :=
  ⟨'#', ['f'], rfl, by rw [scanPiece_hash]; simp [scanHash]⟩

/-- the dot the printer writes is always followed by a space -/
theorem scansAs_dot (rest : Text) : ScansAs ['.'] .dot (' ' :: rest) :=
  ⟨'.', [], rfl, by
    have h1 : isOpenChar '.' = false := by decide
    have h2 : isCloseChar '.' = false := by decide
    have h3 : isSubsequentNumber ' ' = false := by decide
    have h4 : isSubsequentIdentifier ' ' = false := by decide
    simp [scanPiece, h1, h2, scanDot, h3, h4]⟩

theorem scansAs_string (s rest : Text) : ScansAs (writeString s) .string rest := by
  refine ⟨'"', escapeStr s ++ ['"'], rfl, ?_⟩
  have h1 : isOpenChar '"' = false := by decide
  have h2 : isCloseChar '"' = false := by decide
  have e : escapeStr s ++ ['"'] ++ rest = escapeStr s ++ '"' :: rest := by simp
  simp only [scanPiece, h1, h2, Bool.false_eq_true, if_false]
  simp only [show ('"' : Char) ≠ '\'' by decide, show ('"' : Char) ≠ '`' by decide,
    show ('"' : Char) ≠ ',' by decide, show ('"' : Char) ≠ '#' by decide,
    show ('"' : Char) ≠ '.' by decide, beq_iff_eq, if_false, if_true]
  unfold scanString
  rw [e, stringTail_escapeStr]
  rfl

/-! ## characters -/

theorem spanWhile_delim (p : Char → Bool) (hsp : p ' ' = false) (hrp : p ')' = false) :
    ∀ (ds rest : Text), (∀ x ∈ ds, p x = true) → Delim rest → spanWhile p (ds ++ rest) = (ds, rest) := by
  intro ds
  induction ds with
  | nil =>
    intro rest _ hd
    cases rest with
    | nil => rfl
    | cons c cs =>
      have : p c = false := by
        rcases hd with h | h <;> subst h <;> assumption
      simp [spanWhile, this]
  | cons d ds ih =>
    intro rest h hd
    have hdp : p d = true := h d (by simp)
    simp only [List.cons_append, spanWhile, hdp, if_true]
    rw [ih rest (fun x hx => h x (by simp [hx])) hd]

theorem digitChar_alnum : ∀ d, d < 16 → isAsciiAlnum (digitChar d) = true := by decide

theorem hexOf_alnum (c : Char) : ∀ x ∈ hexOf c, isAsciiAlnum x = true := by
  intro x hx
  obtain ⟨d, hd, rfl⟩ := natDigits_chars (r := 16) (by omega) _ x hx
  exact digitChar_alnum d hd

theorem scansAs_char_of_tail {body rest : Text}
    (h : charTail (body ++ rest) = some (body, rest)) : ScansAs ('#' :: '\\' :: body) .char rest := by
  refine ⟨'#', '\\' :: body, rfl, ?_⟩
  rw [scanPiece_hash]
  have e1 : (('\\' : Char) == 't') = false := by decide
  have e2 : (('\\' : Char) == 'f') = false := by decide
  have e3 : (('\\' : Char) == '(') = false := by decide
  have e4 : (('\\' : Char) == 'e' || ('\\' : Char) == 'i' || ('\\' : Char) == 'b' || ('\\' : Char) == 'o'
      || ('\\' : Char) == 'd' || ('\\' : Char) == 'x') = false := by decide
  have e5 : (('\\' : Char) == '\\') = true := by decide
  simp only [List.cons_append, scanHash, e1, e2, e3, e4, e5, Bool.false_eq_true, if_false, if_true, h]

/-- an all-alphanumeric body beginning with a letter (`space`, `newline`, `x1f`) -/
theorem charTail_word (c : Char) (ds rest : Text) (hc : isAsciiAlpha c = true)
    (hds : ∀ x ∈ ds, isAsciiAlnum x = true) (hd : Delim rest) :
    charTail (c :: ds ++ rest) = some (c :: ds, rest) := by
  simp only [List.cons_append, charTail, hc, Bool.not_true, Bool.false_eq_true, if_false]
  rw [spanWhile_delim isAsciiAlnum (by decide) (by decide) ds rest hds hd]

theorem scansAs_char (c : Char) (rest : Text) (hd : Delim rest) :
    ScansAs (writeEscapedChar c) .char rest := by
  unfold writeEscapedChar
  split
  · exact scansAs_char_of_tail (body := "space".toList)
      (charTail_word 's' "pace".toList rest (by decide) (by decide) hd)
  split
  · exact scansAs_char_of_tail (body := "newline".toList)
      (charTail_word 'n' "ewline".toList rest (by decide) (by decide) hd)
  split
  · exact scansAs_char_of_tail (body := 'x' :: hexOf c)
      (charTail_word 'x' (hexOf c) rest (by decide) (hexOf_alnum c) hd)
  · rename_i hsp hnl hctl
    have hn : ¬ (c.toNat ≤ 0x1F ∨ (0x7F ≤ c.toNat ∧ c.toNat ≤ 0x9F)) := by
      rw [← isControl_iff]; simpa using hctl
    have h7 : c.toNat ≠ 0x7 := by omega
    have h8 : c.toNat ≠ 0x8 := by omega
    have h7f : c.toNat ≠ 0x7f := by omega
    have h1b : c.toNat ≠ 0x1b := by omega
    have h0 : c.toNat ≠ 0x0 := by omega
    have hdd : c.toNat ≠ 0xd := by omega
    have h9 : c.toNat ≠ 0x9 := by omega
    simp only [h7, h8, h7f, h1b, h0, hdd, h9, if_false]
    apply scansAs_char_of_tail (body := [c])
    by_cases ha : isAsciiAlpha c = true
    · exact charTail_word c [] rest ha (by simp) hd
    · simp [charTail, ha]

/-! ## numbers -/

theorem numberTail_delim : ∀ (ds rest : Text) (m d k : Bool), (∀ x ∈ ds, isSubsequentNumber x = true) →
    Delim rest → numberTail m d k (ds ++ rest) = (ds, rest, false) := by
  intro ds
  induction ds with
  | nil =>
    intro rest m d k _ hd
    cases rest with
    | nil => rfl
    | cons c cs =>
      have h1 : isSubsequentNumber c = false := by
        rcases hd with h | h <;> subst h <;> decide
      have h2 : isSubsequentIdentifier c = false := by
        rcases hd with h | h <;> subst h <;> decide
      have h3 : (c == '+' || c == '-') = false := by
        rcases hd with h | h <;> subst h <;> decide
      simp [numberTail, h1, h2, h3]
  | cons x ds ih =>
    intro rest m d k h hd
    have hdp : isSubsequentNumber x = true := h x (by simp)
    simp only [List.cons_append, numberTail, hdp, Bool.true_or, if_true]
    rw [ih rest _ _ _ (fun y hy => h y (by simp [hy])) hd]

/-- the first character of a number token: none of the punctuation arms, not an identifier start -/
abbrev NumStart (c : Char) : Prop :=
  isOpenChar c = false ∧ isCloseChar c = false ∧ c ≠ '\'' ∧ c ≠ '`' ∧ c ≠ ',' ∧ c ≠ '#' ∧ c ≠ '.' ∧
    c ≠ '"' ∧ isInitialIdentifier c = false ∧ isInitialNumber c = true

theorem scansAs_number (c : Char) (ds rest : Text) (hc : NumStart c)
    (hds : ∀ x ∈ ds, isSubsequentNumber x = true) (hd : Delim rest) :
    ScansAs (c :: ds) .number rest := by
  refine ⟨c, ds, rfl, ?_⟩
  obtain ⟨h1, h2, h3, h4, h5, h6, h7, h8, h9, h10⟩ := hc
  simp only [scanPiece, h1, h2, h3, h4, h5, h6, h7, h8, beq_iff_eq, Bool.false_eq_true, if_false]
  simp only [scanOther, h9, h10, Bool.false_eq_true, if_false, if_true]
  rw [numberTail_delim ds rest _ _ _ hds hd]
  rfl

theorem digitChar_numStart : ∀ d, d < 10 → NumStart (digitChar d) := by decide

theorem minus_numStart : NumStart '-' := by decide

theorem digitChar_subsequentNumber : ∀ d, d < 16 → isSubsequentNumber (digitChar d) = true := by decide

theorem natDigits10_subsequent (n : Nat) : ∀ x ∈ natDigits 10 n, isSubsequentNumber x = true := by
  intro x hx
  obtain ⟨d, hd, rfl⟩ := natDigits_chars (r := 10) (by omega) _ x hx
  exact digitChar_subsequentNumber d (by omega)

theorem natDigits10_head (n : Nat) : ∃ c cs, natDigits 10 n = c :: cs ∧ NumStart c := by
  cases h : natDigits 10 n with
  | nil => exact absurd h (natDigits_ne_nil _ _)
  | cons c cs =>
    obtain ⟨d, hd, rfl⟩ := natDigits_chars (r := 10) (by omega) n c (by rw [h]; simp)
    exact ⟨_, _, rfl, digitChar_numStart d hd⟩

/-- a text that scans as one number token when a delimiter follows: a number start, then only
subsequent-number characters -/
def NumberShape (sp : Text) : Prop :=
  ∃ c ds, sp = c :: ds ∧ NumStart c ∧ ∀ x ∈ ds, isSubsequentNumber x = true

theorem scansAs_numberShape {sp : Text} (h : NumberShape sp) (rest : Text) (hd : Delim rest) :
    ScansAs sp .number rest := by
  obtain ⟨c, ds, rfl, hc, hds⟩ := h
  exact scansAs_number c ds rest hc hds hd

theorem intDigits10_shape (n : Int) : NumberShape (intDigits 10 n) := by
  unfold intDigits
  split
  · exact ⟨'-', _, rfl, minus_numStart, natDigits10_subsequent _⟩
  · obtain ⟨c, cs, h, hc⟩ := natDigits10_head n.natAbs
    refine ⟨c, cs, h, hc, ?_⟩
    intro x hx
    exact natDigits10_subsequent n.natAbs x (by rw [h]; simp [hx])

theorem NumberShape.append {a b : Text} (ha : NumberShape a) (hb : ∀ x ∈ b, isSubsequentNumber x = true) :
    NumberShape (a ++ b) := by
  obtain ⟨c, ds, rfl, hc, hds⟩ := ha
  refine ⟨c, ds ++ b, rfl, hc, ?_⟩
  intro x hx
  rcases List.mem_append.mp hx with h | h
  · exact hds x h
  · exact hb x h

theorem intDigits10_subsequent (n : Int) (hn : 0 ≤ n) : ∀ x ∈ intDigits 10 n, isSubsequentNumber x = true := by
  unfold intDigits
  have : ¬ n < 0 := by omega
  simp only [this, if_false]
  exact natDigits10_subsequent _

theorem ratDigits10_shape (n d : Int) (hd : 1 ≤ d) : NumberShape (ratDigits 10 n d) := by
  unfold ratDigits
  split
  · exact intDigits10_shape n
  · apply NumberShape.append (intDigits10_shape n)
    intro x hx
    rcases List.mem_cons.mp hx with h | h
    · subst h; decide
    · exact intDigits10_subsequent d (by omega) x h

/-! ## plain identifiers -/

theorem initial_not_special {c : Char} (h : isInitialIdentifier c = true) :
    isOpenChar c = false ∧ isCloseChar c = false ∧ c ≠ '\'' ∧ c ≠ '`' ∧ c ≠ ',' ∧ c ≠ '#' ∧ c ≠ '.' ∧
      c ≠ '"' := by
  have key : ∀ x : Char, isInitialIdentifier x = false → c ≠ x := by
    intro x hx e
    subst e
    rw [h] at hx
    cases hx
  have o : isOpenChar c = false := by
    cases ho : isOpenChar c with
    | false => rfl
    | true =>
      simp only [isOpenChar, Bool.or_eq_true, beq_iff_eq] at ho
      rcases ho with (e | e) | e
      · exact absurd e (key _ (by decide))
      · exact absurd e (key _ (by decide))
      · exact absurd e (key _ (by decide))
  have cl : isCloseChar c = false := by
    cases ho : isCloseChar c with
    | false => rfl
    | true =>
      simp only [isCloseChar, Bool.or_eq_true, beq_iff_eq] at ho
      rcases ho with (e | e) | e
      · exact absurd e (key _ (by decide))
      · exact absurd e (key _ (by decide))
      · exact absurd e (key _ (by decide))
  exact ⟨o, cl, key _ (by decide), key _ (by decide), key _ (by decide), key _ (by decide),
    key _ (by decide), key _ (by decide)⟩

/-- an initial identifier character followed by subsequent identifier characters -/
def identShape : Text → Bool
  | [] => false
  | c :: cs => isInitialIdentifier c && cs.all isSubsequentIdentifier

theorem scansAs_ident {s : Text} (h : identShape s = true) (rest : Text) (hd : Delim rest) :
    ScansAs s .symbol rest := by
  cases s with
  | nil => cases h
  | cons c cs =>
    simp only [identShape, Bool.and_eq_true, List.all_eq_true] at h
    refine ⟨c, cs, rfl, ?_⟩
    obtain ⟨h1, h2, h3, h4, h5, h6, h7, h8⟩ := initial_not_special h.1
    simp only [scanPiece, h1, h2, h3, h4, h5, h6, h7, h8, beq_iff_eq, Bool.false_eq_true, if_false]
    simp only [scanOther, h.1, if_true, symbolTail]
    rw [spanWhile_delim isSubsequentIdentifier (by decide) (by decide) cs rest h.2 hd]

/-! ## number-initial symbols (`1+`, `-a`, `->x`, `12ab`): a `Number` token downgraded to `Symbol` -/

def contChar (x : Char) : Bool := isSubsequentNumber x || (isSubsequentIdentifier x && x != ';')

/-- whether the loop of `scan_number`, entered in state (`m`antissa, `d`igits, mar`k`er), turns the
token into a symbol while consuming `ds`: some character is neither a subsequent-number character
nor the sign directly after the exponent marker of a decimal mantissa (fix c1c04ca: `1e-7` stays a
number, `1+`, `1e--7`, `1ee-7` do not). The state is advanced exactly as in the Rust loop. -/
def numSymFlag (m d k : Bool) : Text → Bool
  | [] => false
  | x :: xs =>
    (!isSubsequentNumber x && !(k && (x == '+' || x == '-'))) ||
      numSymFlag (m && (isAsciiDigit x || x == '.')) (d || isAsciiDigit x) (m && d && (x == 'e' || x == 'E')) xs

/-- a digit or sign, then characters that continue a number token or an identifier (except `;`), at
least one of which does not continue a number (`numSymFlag`) -/
def numSymShape : Text → Bool
  | [] => false
  | c :: ds => (isAsciiDigit c || c == '+' || c == '-') && ds.all contChar &&
      numSymFlag true (isAsciiDigit c) false ds

/-- a sufficient condition that does not mention the scanner state: some character is neither a
subsequent-number character nor a sign -/
theorem numSymFlag_of_any (ds : Text) :
    ∀ (m d k : Bool), ds.any (fun x => !isSubsequentNumber x && x != '+' && x != '-') = true →
      numSymFlag m d k ds = true := by
  induction ds with
  | nil => intro m d k h; simp at h
  | cons x xs ih =>
    intro m d k h
    simp only [List.any_cons, Bool.or_eq_true] at h
    simp only [numSymFlag, Bool.or_eq_true]
    rcases h with h | h
    · left
      simp only [Bool.and_eq_true, Bool.not_eq_true', bne_iff_ne, ne_eq] at h
      obtain ⟨⟨h1, h2⟩, h3⟩ := h
      have e : (x == '+' || x == '-') = false := by simp [h2, h3]
      simp [h1, e]
    · right; exact ih _ _ _ h

/-- before the first exponent marker nothing is a sign position: a sign as the first subsequent
character (`1+`, `-+5`, `+-`) makes the token a symbol -/
theorem numSymFlag_sign_first (m d : Bool) (x : Char) (xs : Text) (hx : x = '+' ∨ x = '-') :
    numSymFlag m d false (x :: xs) = true := by
  have h1 : isSubsequentNumber '+' = false := by decide
  have h2 : isSubsequentNumber '-' = false := by decide
  rcases hx with rfl | rfl <;> simp [numSymFlag, h1, h2]

theorem numberTail_cont : ∀ (ds rest : Text) (m d k : Bool), (∀ x ∈ ds, contChar x = true) → Delim rest →
    numberTail m d k (ds ++ rest) = (ds, rest, numSymFlag m d k ds) := by
  intro ds
  induction ds with
  | nil =>
    intro rest m d k _ hd
    have := numberTail_delim [] rest m d k (by simp) hd
    simpa [numSymFlag] using this
  | cons x ds ih =>
    intro rest m d k h hd
    have hdc : contChar x = true := h x (by simp)
    have ih' := fun m d k => ih rest m d k (fun y hy => h y (by simp [hy])) hd
    simp only [List.cons_append, numberTail, numSymFlag]
    by_cases hn : (isSubsequentNumber x || (k && (x == '+' || x == '-'))) = true
    · simp only [hn, if_true, ih']
      rcases Bool.or_eq_true _ _ |>.mp hn with h1 | h1
      · simp [h1]
      · simp [h1]
    · have hn' : (isSubsequentNumber x || (k && (x == '+' || x == '-'))) = false := by simpa using hn
      have hn1 : isSubsequentNumber x = false := by
        cases hh : isSubsequentNumber x <;> simp [hh] at hn' ⊢
      have hn2 : (k && (x == '+' || x == '-')) = false := by
        cases hh : (k && (x == '+' || x == '-')) <;> simp [hh, hn1] at hn' ⊢
      have hid : (isSubsequentIdentifier x && x != ';') = true := by
        simpa [contChar, hn1] using hdc
      simp [hid, ih', hn1, hn2]

theorem digit_numStart {c : Char} (h : isAsciiDigit c = true) : NumStart c := by
  simp only [isAsciiDigit, Bool.and_eq_true, decide_eq_true_eq] at h
  have hc : c = digitChar (c.toNat - 48) := by
    have : digitChar (c.toNat - 48) = Char.ofNat (48 + (c.toNat - 48)) := by
      unfold digitChar
      have : c.toNat - 48 < 10 := by omega
      simp [this]
    rw [this]
    have e : 48 + (c.toNat - 48) = c.toNat := by omega
    rw [e, Char.ofNat_toNat]
  rw [hc]
  exact digitChar_numStart _ (by omega)

theorem scansAs_numSym {s : Text} (h : numSymShape s = true) (rest : Text) (hd : Delim rest) :
    ScansAs s .symbol rest := by
  cases s with
  | nil => cases h
  | cons c ds =>
    simp only [numSymShape, Bool.and_eq_true, Bool.or_eq_true, beq_iff_eq, List.all_eq_true] at h
    obtain ⟨⟨hc, hall⟩, hany⟩ := h
    have hs : NumStart c := by
      rcases hc with (hc | hc) | hc
      · exact digit_numStart hc
      · subst hc; decide
      · subst hc; decide
    refine ⟨c, ds, rfl, ?_⟩
    obtain ⟨h1, h2, h3, h4, h5, h6, h7, h8, h9, h10⟩ := hs
    simp only [scanPiece, h1, h2, h3, h4, h5, h6, h7, h8, beq_iff_eq, Bool.false_eq_true, if_false]
    simp only [scanOther, h9, h10, Bool.false_eq_true, if_false, if_true]
    rw [numberTail_cont ds rest _ _ _ hall hd]
    simp only [hany, if_true]

end Marwood
