import Marwood.Lemmas.EvalKAgreeForms
/-! # `Spec.EvalK` without `call/cc` is `Spec.Eval` — quasiquote templates -/
namespace Marwood.Lemmas.EvalKAgree
open Marwood Marwood.Spec.Eval Marwood.Spec.EvalK

variable {r : Rec}

/-- the statement of `sim_qq_then` for one template -/
def QqThen (r : Rec) (ρ : Env) (ks : Array Kont) (κ : Kont) (t : Datum) : Prop :=
  ∀ (depth : Nat) (κ' : Kont) (f : Val → M Val) (σ : St),
    (∀ v σ', Sim (retTo v κ' σ' ks) (f v σ') κ ks) →
    Sim (qqGo ρ t depth κ' σ ks) ((qq r ρ t depth >>= f) σ) κ ks

/-- `(s x)`: the sub-template is instantiated with frame `qqWrapK s` pushed -/
theorem sim_qq_wrap (ρ : Env) (ks : Array Kont) (κ : Kont) (x : Datum) (hx : QqThen r ρ ks κ x)
    (s : Text) (depth : Nat) (κ' : Kont) (f : Val → M Val) (σ : St)
    (h : ∀ v σ', Sim (retTo v κ' σ' ks) (f v σ') κ ks) :
    Sim (qqGo ρ x depth (.qqWrapK s :: κ') σ ks)
      (((qq r ρ x depth >>= fun x' => allocList [.sym s, x']) >>= f) σ) κ ks := by
  rw [bind_assoc_M]
  apply hx
  intro v σ'
  apply Sim.ret
  show Sim (withM (allocList [.sym s, v]) σ' ks fun r σ'' => retTo r κ' σ'' ks) _ κ ks
  apply Sim.withM
  intro a σ'' _
  exact h a σ''

/-- the elements of a quasiquoted vector: a value `v` arrives at frame `qqVecK` -/
theorem sim_qq_vec (ρ : Env) (ks : Array Kont) (κ : Kont) (depth : Nat) (κ' : Kont) (f : Val → M Val)
    (h : ∀ v σ', Sim (retTo v κ' σ' ks) (f v σ') κ ks) (n : Nat)
    (ih : ∀ t, sizeOf t < n → QqThen r ρ ks κ t) :
    ∀ (rest : Datum), sizeOf rest < n → ∀ (done : List Val) (v : Val) (σ : St),
      Sim (retGo (.qqVecK ρ done rest depth) v κ' σ ks)
        ((qqElems r ρ rest depth >>= fun xs => allocVec ((v :: done).reverse ++ xs) >>= f) σ) κ ks := by
  intro rest
  induction rest with
  | pair a d _ ihd =>
    intro hsz done v σ
    have ha : sizeOf a < n := by simp at hsz; omega
    have hd : sizeOf d < n := by simp at hsz; omega
    show Sim (qqGo ρ a depth (.qqVecK ρ (v :: done) d depth :: κ') σ ks) _ κ ks
    unfold qqElems
    rw [bind_assoc_M]
    apply ih a ha
    intro a' σ'
    apply Sim.ret
    have := ihd hd (v :: done) a' σ'
    simp only [bind_assoc_M, pure_bind_M]
    simpa using this
  | _ =>
    intro _ done v σ
    unfold qqElems
    rw [pure_bind_M, List.append_nil]
    show Sim (withM (allocVec (v :: done).reverse) σ ks fun r σ' => retTo r κ' σ' ks) _ κ ks
    apply Sim.withM
    intro a σ' _
    exact h a σ'

theorem sim_qq_aux (hr : SimRec r) (ρ : Env) (ks : Array Kont) (κ : Kont) :
    ∀ (n : Nat) (t : Datum), sizeOf t < n → QqThen r ρ ks κ t := by
  intro n
  induction n with
  | zero => intro t ht; omega
  | succ n ih =>
    intro t ht depth κ' f σ h
    unfold qqGo
    split
    · -- `(s x)`
      rename_i s x
      have hx : QqThen r ρ ks κ x := ih x (by simp at ht; omega)
      unfold qq
      split
      · split
        · exact Sim.evalThen hr _ _ _ _ _ _ _ (fun v σ' _ => h v σ')
        · exact sim_qq_wrap ρ ks κ x hx _ _ _ _ _ h
      · split
        · exact sim_qq_wrap ρ ks κ x hx _ _ _ _ _ h
        · exact sim_qq_wrap ρ ks κ x hx _ _ _ _ _ h
    · -- a pair
      rename_i a d hns
      have ha : QqThen r ρ ks κ a := ih a (by simp at ht; omega)
      have hd : QqThen r ρ ks κ d := ih d (by simp at ht; omega)
      rw [qq.eq_3 _ _ _ _ _ hns, bind_assoc_M]
      apply ha
      intro a' σ'
      apply Sim.ret
      show Sim (qqGo ρ d _ (.qqCdrK a' :: κ') σ' ks) _ κ ks
      rw [bind_assoc_M]
      apply hd
      intro d' σ''
      apply Sim.ret
      show Sim (withM (cons a' d') σ'' ks fun r σ' => retTo r κ' σ' ks) _ κ ks
      apply Sim.withM
      intro v σ3 _
      exact h v σ3
    · -- a non-empty vector
      rename_i a d
      rw [qq.eq_4, qqElems.eq_1]
      simp only [bind_assoc_M, pure_bind_M]
      apply ih a (by simp at ht; omega)
      intro a' σ'
      apply Sim.ret
      have := sim_qq_vec ρ ks κ depth κ' f h n ih d (by simp at ht; omega) [] a' σ'
      simpa using this
    · -- an empty vector
      rename_i e hne
      rw [qq.eq_4, qqElems.eq_2 _ _ _ _ hne, pure_bind_M]
      apply Sim.withM
      intro v σ' _
      exact h v σ'
    · -- anything else
      rename_i h1 h2 _ h4
      rw [qq.eq_5 _ _ _ _ h1 h2 h4]
      apply Sim.withM
      intro v σ' _
      exact h v σ'

/-- general form: the template is instantiated in ANY continuation κ'; `f` = what happens (in `Spec.Eval`'s terms)
    once its value has been returned to κ'; the final result goes to κ -/
theorem sim_qq_then (hr : SimRec r) (ρ : Env) (ks : Array Kont) (κ : Kont) :
    ∀ (t : Datum) (depth : Nat) (κ' : Kont) (f : Val → M Val) (σ : St),
      (∀ v σ', Sim (retTo v κ' σ' ks) (f v σ') κ ks) →
      Sim (qqGo ρ t depth κ' σ ks) ((qq r ρ t depth >>= f) σ) κ ks :=
  fun t => sim_qq_aux hr ρ ks κ (sizeOf t + 1) t (Nat.lt_succ_self _)

theorem sim_qq (hr : SimRec r) (ρ : Env) (t : Datum) (depth : Nat) (σ : St) (κ : Kont) (ks : Array Kont) :
    Sim (qqGo ρ t depth κ σ ks) (qq r ρ t depth σ) κ ks := by
  have := sim_qq_then hr ρ ks κ t depth κ (fun v => pure v) σ (fun v σ' => Sim.pure v κ σ' ks)
  rwa [bind_pure_M] at this

end Marwood.Lemmas.EvalKAgree
