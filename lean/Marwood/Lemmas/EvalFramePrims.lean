import Marwood.Lemmas.EvalFrameForms
/-!
# T01.1 — primitives, application, the fuel induction
-/
namespace Marwood.Spec.Eval
open Marwood

variable {x : Text} {r : Rec}

theorem resp_boolV (b : Bool) : Resp x (boolV b) (CleanVal x) := Resp.pure _ (by simp [CleanVal])

theorem cleanVals_append {xs ys : List Val} (hx : CleanVals x xs) (hy : CleanVals x ys) :
    CleanVals x (xs ++ ys) := by
  intro v hv
  simp only [List.mem_append] at hv
  rcases hv with h | h
  · exact hx v h
  · exact hy v h

theorem cleanVals_reverse {xs : List Val} (hx : CleanVals x xs) : CleanVals x xs.reverse := by
  intro v hv; exact hx v (by simpa using hv)

theorem cleanVals_replicate (n : Nat) (v : Val) (hv : CleanVal x v) : CleanVals x (List.replicate n v) := by
  intro w hw
  have := List.eq_of_mem_replicate hw
  subst this; exact hv

theorem cleanVals_set {xs : List Val} (hx : CleanVals x xs) (i : Nat) (v : Val) (hv : CleanVal x v) :
    CleanVals x (xs.set i v) := by
  intro w hw
  rcases List.mem_or_eq_of_mem_set hw with h | h
  · exact hx w h
  · subst h; exact hv

theorem cleanVals_getElem? {xs : List Val} (hx : CleanVals x xs) (i : Nat) (v : Val) (h : xs[i]? = some v) :
    CleanVal x v := hx v (List.mem_of_getElem? h)

theorem cleanVals_dropLast {xs : List Val} (hx : CleanVals x xs) : CleanVals x xs.dropLast := by
  intro v hv; exact hx v (List.dropLast_subset xs hv)

theorem resp_memWalk (assoc : Bool) (y : Val) : ∀ (fuel : Nat) (l : Val), CleanVal x l →
    Resp x (memWalk assoc y fuel l) (CleanVal x)
  | 0, _, _ => by simp only [memWalk]; exact Resp.throw _
  | fuel+1, l, hl => by
    simp only [memWalk]
    split
    · exact Resp.pure _ (by simp [CleanVal])
    · refine Resp.bind (resp_readPair _) (fun p hp => ?_)
      split
      · split
        · refine Resp.bind (resp_readPair _) (fun q _ => ?_)
          split
          · exact Resp.pure _ hp.1
          · exact resp_memWalk assoc y fuel _ hp.2
        · exact resp_memWalk assoc y fuel _ hp.2
      · split
        · exact Resp.pure _ hl
        · exact resp_memWalk assoc y fuel _ hp.2
    · exact Resp.throw _

theorem resp_listTailWalk : ∀ (k : Nat) (l : Val), CleanVal x l → Resp x (listTailWalk k l) (CleanVal x)
  | 0, l, hl => Resp.pure _ hl
  | k+1, l, _ => by
    simp only [listTailWalk]
    refine Resp.bind (resp_readPair _) (fun p hp => ?_)
    exact resp_listTailWalk k _ hp.2


-- keep the unifier from unfolding the monad operations when a closing lemma does not apply
attribute [local irreducible] M.bind' M.pure'

/-- cleanliness side conditions -/
macro "clean_side" : tactic => `(tactic| focus first
  | assumption
  | exact cleanVals_reverse (by assumption)
  | exact cleanVals_append (by assumption) (by assumption)
  | exact cleanVals_replicate _ _ (by simp_all [CleanVals])
  | exact cleanVals_set (by assumption) _ _ (by simp_all [CleanVals])
  | exact cleanVals_getElem? (by assumption) _ _ (by assumption)
  | (simp [CleanVal]; done)
  | (simp_all [CleanVal, CleanCell]; done)
  | (simp_all [CleanVal, CleanVals, CleanCell]; done))

/-- closes the goals left by splitting a first-order primitive -/
macro "resp_prim" : tactic => `(tactic| (
  repeat' (first
    | exact Resp.throw _
    | exact resp_boolV _
    | (refine Resp.pure _ ?_; clean_side)
    | (refine resp_cons _ _ ?_ ?_ <;> clean_side)
    | (refine resp_allocList _ ?_; clean_side)
    | (refine resp_allocVec _ ?_; clean_side)
    | (refine resp_allocListTail _ _ ?_ ?_ <;> clean_side)
    | (refine resp_memWalk _ _ _ _ ?_; clean_side)
    | (refine resp_listTailWalk _ _ ?_; clean_side)
    | refine Resp.bind (resp_readPair _) (fun _ _ => ?_)
    | refine Resp.bind (resp_readVec _) (fun _ _ => ?_)
    | refine Resp.bind (resp_getList _) (fun _ _ => ?_)
    | refine Resp.bind resp_getStore (fun _ _ => ?_)
    | refine Resp.bind (resp_readCell _) (fun _ _ => ?_)
    | (refine Resp.bind (resp_externalise _ ?_) (fun _ _ => ?_); clean_side)
    | refine Resp.bind (resp_emit _ _) (fun _ _ => ?_)
    | (refine Resp.bind (resp_writeCell _ _ ?_) (fun _ _ => ?_); clean_side)
    | split)))

theorem resp_primNum (p : Prim) (args : List Val) (h : CleanVals x args) :
    Resp x (primNum p args) (CleanVal x) := by
  unfold primNum
  split <;> resp_prim

theorem resp_primPair (p : Prim) (args : List Val) (h : CleanVals x args) :
    Resp x (primPair p args) (CleanVal x) := by
  unfold primPair
  split <;> resp_prim

theorem resp_primVec (p : Prim) (args : List Val) (h : CleanVals x args) :
    Resp x (primVec p args) (CleanVal x) := by
  unfold primVec
  split <;> resp_prim

theorem resp_primPred (p : Prim) (args : List Val) (h : CleanVals x args) :
    Resp x (primPred p args) (CleanVal x) := by
  unfold primPred
  split <;> resp_prim

theorem resp_primMisc (p : Prim) (args : List Val) (h : CleanVals x args) :
    Resp x (primMisc p args) (CleanVal x) := by
  unfold primMisc
  split <;> resp_prim

theorem resp_applyPrim1 (p : Prim) (args : List Val) (h : CleanVals x args) :
    Resp x (applyPrim1 p args) (CleanVal x) := by
  unfold applyPrim1
  split
  · exact resp_primNum p args h
  · exact resp_primPair p args h
  · exact resp_primVec p args h
  · exact resp_primPred p args h
  · exact resp_primMisc p args h


/-! ## application -/

theorem clean_zipArgs : ∀ (fuel : Nat) (ls : List (List Val)), (∀ l ∈ ls, CleanVals x l) →
    ∀ a ∈ zipArgs fuel ls, CleanVals x a
  | 0, _, _ => by simp [zipArgs]
  | fuel+1, ls, h => by
    simp only [zipArgs]
    split
    · simp
    · rename_i hne
      intro a ha
      simp only [List.mem_cons] at ha
      rcases ha with rfl | ha
      · intro v hv
        simp only [List.mem_map] at hv
        obtain ⟨l, hl, rfl⟩ := hv
        cases l with
        | nil =>
          exfalso
          apply hne
          simp only [Bool.or_eq_true, List.any_eq_true]
          exact Or.inr ⟨[], hl, rfl⟩
        | cons w ws => exact h _ hl w (by simp)
      · refine clean_zipArgs fuel _ ?_ a ha
        intro l hl
        simp only [List.mem_map] at hl
        obtain ⟨l', hl', rfl⟩ := hl
        intro v hv
        exact h l' hl' v (List.mem_of_mem_tail hv)

theorem resp_mapApply (hr : RecOK x r) (f : Val) (hf : CleanVal x f) : ∀ (as : List (List Val)),
    (∀ a ∈ as, CleanVals x a) → Resp x (mapApply r f as) (CleanVals x)
  | [], _ => Resp.pure _ (by simp)
  | a :: as, h => by
    simp only [mapApply]
    refine Resp.bind (hr.apply f a hf (h a (by simp))) (fun v hv => ?_)
    refine Resp.bind (resp_mapApply hr f hf as (fun a' ha' => h a' (by simp [ha']))) (fun vs hvs => ?_)
    exact Resp.pure _ (by simp [hv, hvs])

end Marwood.Spec.Eval
