import Marwood.Lemmas.PrintLex
import Marwood.Lemmas.Parse
/-!
# Radix-prefixed number literals (C16, T16.3)

What `number->string` prints for an exact number in radix 2, 8, 10 or 16, prefixed with `#b #o #d #x`,
is scanned as exactly two tokens — the prefix and one token spelling the digits — whatever
delimiter follows. The second token has scanner type `Number` when the spelling starts with a
sign or a decimal digit and `Symbol` when it starts with one of the hex digits `a`–`f`
(`parse_number` accepts both).
-/
namespace Marwood

/-- the prefix letter of a radix -/
def radixLetter (r : Nat) : Char :=
  if r = 2 then 'b' else if r = 8 then 'o' else if r = 16 then 'x' else 'd'

theorem prefixStep_radixLetter {r : Nat} (hr : r = 2 ∨ r = 8 ∨ r = 10 ∨ r = 16) (ex : Exactness)
    (r0 : Nat) : prefixStep ['#', radixLetter r] ex r0 = some (ex, r) := by
  rcases hr with rfl | rfl | rfl | rfl <;> rfl

theorem scansAs_radixPrefix {r : Nat} (hr : r = 2 ∨ r = 8 ∨ r = 10 ∨ r = 16) (rest : Text) :
    ScansAs ['#', radixLetter r] .numberPrefix rest := by
  refine ⟨'#', [radixLetter r], rfl, ?_⟩
  rw [scanPiece_hash]
  rcases hr with rfl | rfl | rfl | rfl
  · have e : radixLetter 2 = 'b' := by decide
    rw [e]
    simp only [List.singleton_append, scanHash]
    rfl
  · have e : radixLetter 8 = 'o' := by decide
    rw [e]
    simp only [List.singleton_append, scanHash]
    rfl
  · have e : radixLetter 10 = 'd' := by decide
    rw [e]
    simp only [List.singleton_append, scanHash]
    rfl
  · have e : radixLetter 16 = 'x' := by decide
    rw [e]
    simp only [List.singleton_append, scanHash]
    rfl

/-! ## the digit strings of radix ≤ 16 -/

theorem digitChar_subsequentIdentifier : ∀ d, d < 16 → isSubsequentIdentifier (digitChar d) = true := by
  decide

/-- a digit character is a number start (decimal digit) or an identifier start (`a`–`f`) -/
theorem digitChar_start : ∀ d, d < 16 → NumStart (digitChar d) ∨ isInitialIdentifier (digitChar d) = true := by
  decide

theorem natDigits_subsequentNumber {r : Nat} (h2 : 2 ≤ r) (h16 : r ≤ 16) (n : Nat) :
    ∀ x ∈ natDigits r n, isSubsequentNumber x = true := by
  intro x hx
  obtain ⟨d, hd, rfl⟩ := natDigits_chars h2 n x hx
  exact digitChar_subsequentNumber d (by omega)

theorem subsequentNumber_subsequentIdentifier_of_digit {r : Nat} (h2 : 2 ≤ r) (h16 : r ≤ 16) (n : Nat) :
    ∀ x ∈ natDigits r n, isSubsequentIdentifier x = true := by
  intro x hx
  obtain ⟨d, hd, rfl⟩ := natDigits_chars h2 n x hx
  exact digitChar_subsequentIdentifier d (by omega)

/-- a spelling that, followed by a delimiter, is one token of type `Number` or `Symbol` -/
def NumTokShape (sp : Text) : Prop := NumberShape sp ∨ identShape sp = true

theorem scansAs_numTokShape {sp : Text} (h : NumTokShape sp) (rest : Text) (hd : Delim rest) :
    ScansAs sp .number rest ∨ ScansAs sp .symbol rest := by
  rcases h with h | h
  · exact .inl (scansAs_numberShape h rest hd)
  · exact .inr (scansAs_ident h rest hd)

/-- `tail` may follow the digits of an integer inside one token -/
def TailOk (tail : Text) : Prop :=
  ∀ x ∈ tail, isSubsequentNumber x = true ∧ isSubsequentIdentifier x = true

theorem natDigits_tail_shape {r : Nat} (h2 : 2 ≤ r) (h16 : r ≤ 16) (n : Nat) (tail : Text)
    (ht : TailOk tail) : NumTokShape (natDigits r n ++ tail) := by
  cases h : natDigits r n with
  | nil => exact absurd h (natDigits_ne_nil r n)
  | cons c cs =>
    obtain ⟨d, hd, rfl⟩ := natDigits_chars h2 n c (by rw [h]; simp)
    have hcs : ∀ x ∈ cs, x ∈ natDigits r n := fun x hx => by rw [h]; simp [hx]
    rcases digitChar_start d (by omega) with hs | hi
    · refine .inl ⟨_, cs ++ tail, rfl, hs, ?_⟩
      intro x hx
      rcases List.mem_append.mp hx with hx | hx
      · exact natDigits_subsequentNumber h2 h16 n x (hcs x hx)
      · exact (ht x hx).1
    · refine .inr ?_
      simp only [List.cons_append, identShape, hi, Bool.true_and, List.all_eq_true]
      intro x hx
      rcases List.mem_append.mp hx with hx | hx
      · exact subsequentNumber_subsequentIdentifier_of_digit h2 h16 n x (hcs x hx)
      · exact (ht x hx).2

theorem intDigits_tail_shape {r : Nat} (h2 : 2 ≤ r) (h16 : r ≤ 16) (n : Int) (tail : Text)
    (ht : TailOk tail) : NumTokShape (intDigits r n ++ tail) := by
  unfold intDigits
  split
  · refine .inl ⟨'-', natDigits r n.natAbs ++ tail, rfl, minus_numStart, ?_⟩
    intro x hx
    rcases List.mem_append.mp hx with hx | hx
    · exact natDigits_subsequentNumber h2 h16 _ x hx
    · exact (ht x hx).1
  · exact natDigits_tail_shape h2 h16 _ tail ht

theorem tailOk_nil : TailOk [] := fun _ h => by cases h

theorem tailOk_slash_intDigits {r : Nat} (h2 : 2 ≤ r) (h16 : r ≤ 16) (d : Int) (hd : 0 ≤ d) :
    TailOk ('/' :: intDigits r d) := by
  intro x hx
  rcases List.mem_cons.mp hx with rfl | hx
  · exact ⟨by decide, by decide⟩
  · unfold intDigits at hx
    have : ¬ d < 0 := by omega
    simp only [this, if_false] at hx
    exact ⟨natDigits_subsequentNumber h2 h16 _ x hx,
      subsequentNumber_subsequentIdentifier_of_digit h2 h16 _ x hx⟩

theorem intDigits_shape {r : Nat} (h2 : 2 ≤ r) (h16 : r ≤ 16) (n : Int) : NumTokShape (intDigits r n) := by
  have := intDigits_tail_shape h2 h16 n [] tailOk_nil
  simpa using this

theorem ratDigits_shape {r : Nat} (h2 : 2 ≤ r) (h16 : r ≤ 16) (n d : Int) (hd : 1 ≤ d) :
    NumTokShape (ratDigits r n d) := by
  unfold ratDigits
  split
  · exact intDigits_shape h2 h16 n
  · exact intDigits_tail_shape h2 h16 n _ (tailOk_slash_intDigits h2 h16 d (by omega))

/-! ## prefix + one token -/

theorem tokSpan_at (pre sp post : Text) (ty : TokType) :
    tokSpan (pre ++ sp ++ post) ⟨byteLen pre, byteLen pre + byteLen sp, ty⟩ = .ok sp := by
  unfold tokSpan
  simp only [sliceBytes_append]

/-- the text `#<letter><spelling>` followed by `rest` scans as the prefix token, one token spelling
    `sp`, and the tokens of `rest` -/
theorem scan_prefixed_then {r : Nat} (hr : r = 2 ∨ r = 8 ∨ r = 10 ∨ r = 16) {sp rest : Text}
    {ty : TokType} {ts0 : List Token} (hs : ScansAs sp ty rest) (h : ScanTo (2 + byteLen sp) rest ts0) :
    scan ('#' :: radixLetter r :: (sp ++ rest)) =
      .ok (⟨0, 2, .numberPrefix⟩ :: ⟨2, 2 + byteLen sp, ty⟩ :: ts0) := by
  apply scan_of_scanTo
  have hb : byteLen ['#', radixLetter r] = 2 := by
    rcases hr with rfl | rfl | rfl | rfl <;> decide
  have h1 : ScanTo (0 + byteLen ['#', radixLetter r]) (sp ++ rest)
      (⟨0 + byteLen ['#', radixLetter r], 0 + byteLen ['#', radixLetter r] + byteLen sp, ty⟩ :: ts0) :=
    ScanTo.tok hs (by simpa [hb] using h)
  have h2 := ScanTo.tok (scansAs_radixPrefix hr (sp ++ rest)) h1
  simpa [hb] using h2

/-- the text `#<letter><spelling>` scans as the prefix token and one token spelling `sp` -/
theorem scan_prefixed {r : Nat} (hr : r = 2 ∨ r = 8 ∨ r = 10 ∨ r = 16) {sp : Text} {ty : TokType}
    (hs : ScansAs sp ty []) :
    scan ('#' :: radixLetter r :: sp) =
      .ok [⟨0, 2, .numberPrefix⟩, ⟨2, 2 + byteLen sp, ty⟩] := by
  have := scan_prefixed_then hr hs (ScanTo.nil _)
  simpa using this

end Marwood
