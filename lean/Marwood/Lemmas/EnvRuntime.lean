import Marwood.Vm.Env
/-!
# Lemmas for T02.3: run-time environments share / separate locations
-/
namespace Marwood.Vm.Env
open Marwood.Scope

variable {α : Type}

/-! ### CLOSURE -/

theorem closureSlots_get (h : Envs α) (ep : Nat) (args : List α) (em : Envmap) (ss : List (Slot α))
    (hs : closureSlots h ep args em = .ok ss) (i : Nat) (x : Name) (src : Source)
    (he : em[i]? = some (x, src)) :
    ∃ v, closureSlot h ep args src = .ok v ∧ ss[i]? = some v := by
  induction em generalizing i ss with
  | nil => simp at he
  | cons p em ih =>
    obtain ⟨y, s0⟩ := p
    simp only [closureSlots, bind, Except.bind] at hs
    cases h1 : closureSlot h ep args s0 with
    | error e => simp [h1] at hs
    | ok v0 =>
      cases h2 : closureSlots h ep args em with
      | error e => simp [h1, h2] at hs
      | ok ss' =>
        simp only [h1, h2, pure, Except.pure] at hs
        cases hs
        cases i with
        | zero =>
          simp at he
          obtain ⟨rfl, rfl⟩ := he
          exact ⟨v0, h1, by simp⟩
        | succ j =>
          simp at he
          obtain ⟨v, hv, hg⟩ := ih ss' h2 j he
          exact ⟨v, hv, by simpa using hg⟩

/-- what `target` computes, as a fact about the slot -/
theorem target_eq (h : Envs α) (e s : Nat) (a : Array (Slot α)) (g : Slot α)
    (ha : h.envs[e]? = some a) (hg : a[s]? = some g) :
    target h e s = .ok (match g with | .ptr p q => (p, q) | _ => (e, s)) := by
  simp only [target, Envs.getEnv, ha, getSlot, hg, bind, Except.bind]
  cases g <;> rfl

theorem target_ok_inv (h : Envs α) (e s : Nat) (r : Nat × Nat) (ht : target h e s = .ok r) :
    ∃ a g, h.envs[e]? = some a ∧ a[s]? = some g ∧ r = (match g with | .ptr p q => (p, q) | _ => (e, s)) := by
  simp only [target, Envs.getEnv, getSlot, bind, Except.bind] at ht
  cases ha : h.envs[e]? with
  | none => simp [ha] at ht
  | some a =>
    cases hg : a[s]? with
    | none => simp [ha, hg] at ht
    | some g =>
      refine ⟨a, g, rfl, hg, ?_⟩
      simp only [ha, hg] at ht
      cases g <;> simp_all [pure, Except.pure]

/-- CLOSURE, one captured variable: the closure environment's slot for an `IofEnvironment(k)` entry is
    a pointer to the location slot `k` of the creating activation denotes -/
theorem closureSlot_iofEnv (h : Envs α) (ep : Nat) (args : List α) (k : Nat) (r : Nat × Nat)
    (ht : target h ep k = .ok r) : closureSlot h ep args (.iofEnv k) = .ok (.ptr r.1 r.2) := by
  obtain ⟨a, g, ha, hg, rfl⟩ := target_ok_inv h ep k r ht
  simp only [closureSlot, Envs.getEnv, ha, getSlot, hg, bind, Except.bind]
  cases g <;> rfl

theorem push_get_new (h : Envs α) (a : Array (Slot α)) : (h.push a).1.envs[(h.push a).2]? = some a := by
  simp [Envs.push]

theorem push_get_old (h : Envs α) (a b : Array (Slot α)) (e : Nat) (he : h.envs[e]? = some b) :
    (h.push a).1.envs[e]? = some b := by
  have hlt : e < h.envs.size := by
    rcases Nat.lt_or_ge e h.envs.size with h' | h'
    · exact h'
    · simp [Array.getElem?_eq_none h'] at he
  simp [Envs.push, Array.getElem?_push, Nat.ne_of_lt hlt, he]

/-- **CLOSURE.** A closure created in the activation whose environment is `ep` holds, for a name
    its map takes from slot `k` of the enclosing map, a pointer to the location that slot denotes in
    the creating activation. -/
theorem closure_captures (h h1 : Envs α) (ep c : Nat) (args : List α) (em : Envmap)
    (hb : buildClosureEnvironment h ep args em = .ok (h1, c))
    (s : Nat) (x : Name) (k : Nat) (he : em[s]? = some (x, .iofEnv k))
    (r : Nat × Nat) (ht : target h ep k = .ok r) :
    c = h.envs.size ∧ ∃ a, h1.envs[c]? = some a ∧ a[s]? = some (.ptr r.1 r.2) := by
  simp only [buildClosureEnvironment, bind, Except.bind] at hb
  cases hs : closureSlots h ep args em with
  | error e => simp [hs] at hb
  | ok ss =>
    simp only [hs, pure, Except.pure, Except.ok.injEq, Prod.mk.injEq] at hb
    obtain ⟨rfl, rfl⟩ := hb
    obtain ⟨v, hv, hg⟩ := closureSlots_get h ep args em ss hs s x _ he
    rw [closureSlot_iofEnv h ep args k r ht] at hv
    cases hv
    exact ⟨rfl, ss.toArray, push_get_new h _, by simpa using hg⟩

/-! ### ENTER -/

theorem activationSlots_get (cenv : Nat) (args : List α) (i0 : Nat) (olds : List (Slot α)) (em : Envmap)
    (ss : List (Slot α)) (hs : activationSlots cenv args i0 olds em = .ok ss)
    (i : Nat) (x : Name) (src : Source) (old : Slot α)
    (he : em[i]? = some (x, src)) (ho : olds[i]? = some old) :
    ∃ v, activationSlot cenv args (i0 + i) old src = .ok v ∧ ss[i]? = some v := by
  induction em generalizing i i0 olds ss with
  | nil => simp at he
  | cons p em ih =>
    obtain ⟨y, s0⟩ := p
    cases olds with
    | nil => simp at ho
    | cons o olds' =>
      simp only [activationSlots, bind, Except.bind] at hs
      cases h1 : activationSlot cenv args i0 o s0 with
      | error e => simp [h1] at hs
      | ok v0 =>
        cases h2 : activationSlots cenv args (i0 + 1) olds' em with
        | error e => simp [h1, h2] at hs
        | ok ss' =>
          simp only [h1, h2, pure, Except.pure] at hs
          cases hs
          cases i with
          | zero =>
            simp at he ho
            obtain ⟨rfl, rfl⟩ := he
            subst ho
            exact ⟨v0, by simpa using h1, by simp⟩
          | succ j =>
            simp at he ho
            obtain ⟨v, hv, hg⟩ := ih (i0 + 1) olds' ss' h2 j he ho
            refine ⟨v, ?_, by simpa using hg⟩
            rw [← hv]; congr 1; omega

/-- **ENTER.** The activation's environment is a new one (its id is the next free id), and for
    every entry of the map its slot is: the argument for `Argument(n)`; the closure environment's
    pointer, unchanged, for a captured variable; the closure environment's (undefined) slot for an
    internal definition. -/
theorem activation_slots (h h1 : Envs α) (cenv a : Nat) (args : List α) (em : Envmap)
    (hb : buildLexicalEnvironment h cenv args em = .ok (h1, a))
    (s : Nat) (x : Name) (src : Source) (he : em[s]? = some (x, src))
    (c : Array (Slot α)) (hc : h.envs[cenv]? = some c) (old : Slot α) (ho : c[s]? = some old) :
    a = h.envs.size ∧ ∃ arr v, h1.envs[a]? = some arr ∧ arr[s]? = some v ∧
      activationSlot cenv args s old src = .ok v := by
  simp only [buildLexicalEnvironment, Envs.getEnv, hc, bind, Except.bind] at hb
  cases hs : activationSlots cenv args 0 c.toList em with
  | error e => simp [hs] at hb
  | ok ss =>
    simp only [hs, pure, Except.pure, Except.ok.injEq, Prod.mk.injEq] at hb
    obtain ⟨rfl, rfl⟩ := hb
    obtain ⟨v, hv, hg⟩ := activationSlots_get cenv args 0 c.toList em ss hs s x src old he (by simpa using ho)
    refine ⟨rfl, ss.toArray, v, push_get_new h _, by simpa using hg, by simpa using hv⟩

/-! ### heaps only grow, and a slot never changes between "pointer" and "value" -/

/-- `h'` is a later heap: every environment of `h` is still there with the same number of slots,
    its pointer slots are unchanged and its value slots are still value slots -/
def Evolves (h h' : Envs α) : Prop :=
  h.envs.size ≤ h'.envs.size ∧
  ∀ (e : Nat) (a : Array (Slot α)), h.envs[e]? = some a → ∃ a' : Array (Slot α), h'.envs[e]? = some a' ∧ a'.size = a.size ∧
    ∀ (i : Nat) (g : Slot α), a[i]? = some g → ∃ g' : Slot α, a'[i]? = some g' ∧
      (match g with | .ptr p q => g' = .ptr p q | _ => g'.isPtr = false)

theorem Evolves.refl (h : Envs α) : Evolves h h :=
  ⟨Nat.le_refl _, fun e a ha => ⟨a, ha, rfl, fun i g hg => ⟨g, hg, by cases g <;> simp [Slot.isPtr]⟩⟩⟩

theorem Evolves.trans {h1 h2 h3 : Envs α} (h12 : Evolves h1 h2) (h23 : Evolves h2 h3) : Evolves h1 h3 := by
  refine ⟨Nat.le_trans h12.1 h23.1, fun e a ha => ?_⟩
  obtain ⟨a2, ha2, hs2, hg2⟩ := h12.2 e a ha
  obtain ⟨a3, ha3, hs3, hg3⟩ := h23.2 e a2 ha2
  refine ⟨a3, ha3, hs3.trans hs2, fun i g hg => ?_⟩
  obtain ⟨g2, hg2', hm2⟩ := hg2 i g hg
  obtain ⟨g3, hg3', hm3⟩ := hg3 i g2 hg2'
  refine ⟨g3, hg3', ?_⟩
  cases g with
  | ptr p q => simp only at hm2; subst hm2; simpa using hm3
  | undef =>
    simp only at hm2
    cases g2 <;> simp_all [Slot.isPtr]
  | val v =>
    simp only at hm2
    cases g2 <;> simp_all [Slot.isPtr]

theorem Evolves.push (h : Envs α) (a : Array (Slot α)) : Evolves h (h.push a).1 := by
  refine ⟨by simp [Envs.push], fun e b hb => ⟨b, push_get_old h a b e hb, rfl, fun i g hg => ⟨g, hg, ?_⟩⟩⟩
  cases g <;> simp [Slot.isPtr]

theorem buildClosureEnvironment_evolves (h h1 : Envs α) (ep c : Nat) (args : List α) (em : Envmap)
    (hb : buildClosureEnvironment h ep args em = .ok (h1, c)) : Evolves h h1 := by
  simp only [buildClosureEnvironment, bind, Except.bind] at hb
  cases hs : closureSlots h ep args em with
  | error e => simp [hs] at hb
  | ok ss =>
    simp only [hs, pure, Except.pure, Except.ok.injEq, Prod.mk.injEq] at hb
    obtain ⟨rfl, rfl⟩ := hb
    exact Evolves.push h _

theorem buildLexicalEnvironment_evolves (h h1 : Envs α) (cenv a : Nat) (args : List α) (em : Envmap)
    (hb : buildLexicalEnvironment h cenv args em = .ok (h1, a)) : Evolves h h1 := by
  simp only [buildLexicalEnvironment, bind, Except.bind] at hb
  cases hc : h.getEnv cenv with
  | error e => simp [hc] at hb
  | ok c =>
    cases hs : activationSlots cenv args 0 c.toList em with
    | error e => simp [hc, hs] at hb
    | ok ss =>
      simp only [hc, hs, pure, Except.pure, Except.ok.injEq, Prod.mk.injEq] at hb
      obtain ⟨rfl, rfl⟩ := hb
      exact Evolves.push h _

/-- an assignment writes a value into the target slot; if that slot held a value (one level of
    indirection), no slot changes kind -/
theorem store_evolves (h h' : Envs α) (ep s : Nat) (v : α) (hs : store h ep s v = .ok h')
    (e t : Nat) (ht : target h ep s = .ok (e, t))
    (hone : ∀ a g, h.envs[e]? = some a → a[t]? = some g → g.isPtr = false) : Evolves h h' := by
  simp only [store, bind, Except.bind, ht] at hs
  cases ha : h.getEnv e with
  | error err => simp [ha] at hs
  | ok a =>
    simp only [ha, putSlot] at hs
    by_cases hlt : t < a.size
    · simp only [hlt, if_true, pure, Except.pure, Except.ok.injEq] at hs
      subst hs
      have ha' : h.envs[e]? = some a := by
        simp only [Envs.getEnv] at ha
        cases hh : h.envs[e]? with
        | none => simp [hh] at ha
        | some b => simp [hh] at ha; rw [ha]
      refine ⟨by simp, fun e0 a0 ha0 => ?_⟩
      by_cases hee : e = e0
      · subst hee
        rw [ha'] at ha0
        cases ha0
        have hlt' : e < h.envs.size := by
          rcases Nat.lt_or_ge e h.envs.size with h1 | h1
          · exact h1
          · simp [Array.getElem?_eq_none h1] at ha'
        refine ⟨a.setIfInBounds t (.val v), by simp [Array.getElem?_setIfInBounds, hlt'], by simp, fun i g hg => ?_⟩
        by_cases hti : t = i
        · subst hti
          refine ⟨.val v, by simp [Array.getElem?_setIfInBounds, hlt], ?_⟩
          have := hone a g ha' hg
          cases g <;> simp_all [Slot.isPtr]
        · refine ⟨g, by simp [Array.getElem?_setIfInBounds, hti, hg], ?_⟩
          cases g <;> simp [Slot.isPtr]
      · refine ⟨a0, by simp [Array.getElem?_setIfInBounds, hee, ha0], rfl, fun i g hg => ⟨g, hg, ?_⟩⟩
        cases g <;> simp [Slot.isPtr]
    · simp [hlt] at hs

/-- the location a slot denotes never changes while the heap evolves -/
theorem target_stable {h h' : Envs α} (hev : Evolves h h') (e s : Nat) (r : Nat × Nat)
    (ht : target h e s = .ok r) : target h' e s = .ok r := by
  obtain ⟨a, g, ha, hg, rfl⟩ := target_ok_inv h e s r ht
  obtain ⟨a', ha', _, hslots⟩ := hev.2 e a ha
  obtain ⟨g', hg', hm⟩ := hslots s g hg
  rw [target_eq h' e s a' g' ha' hg']
  cases g with
  | ptr p q => simp only at hm; subst hm; rfl
  | undef => simp only at hm; cases g' <;> simp_all [Slot.isPtr]
  | val v => simp only at hm; cases g' <;> simp_all [Slot.isPtr]

/-- a pointer slot is still the same pointer in every later heap -/
theorem ptr_stable {h h' : Envs α} (hev : Evolves h h') (e s p q : Nat) (a : Array (Slot α))
    (ha : h.envs[e]? = some a) (hg : a[s]? = some (.ptr p q)) :
    ∃ a', h'.envs[e]? = some a' ∧ a'[s]? = some (.ptr p q) := by
  obtain ⟨a', ha', _, hslots⟩ := hev.2 e a ha
  obtain ⟨g', hg', hm⟩ := hslots s _ hg
  simp only at hm
  subst hm
  exact ⟨a', ha', hg'⟩

end Marwood.Vm.Env
