import Marwood.Lex
/-!
# Span discipline of the scanner (used by C11 and C20)

`Lexed pos text tokens`: the text is `gap ++ body ++ rest` repeatedly, each token's offsets are
byte lengths of prefixes (hence on character boundaries), bodies are non-empty, and everything
that is not a token body is gap text (whitespace and `;` comments).
-/
namespace Marwood

theorem spanWhile_split (p : Char → Bool) (cs : Text) :
    (spanWhile p cs).1 ++ (spanWhile p cs).2 = cs := by
  induction cs with
  | nil => simp [spanWhile]
  | cons c cs ih => simp only [spanWhile]; split <;> simp_all

theorem takeComment_split (cs : Text) : (takeComment cs).1 ++ (takeComment cs).2 = cs := by
  induction cs with
  | nil => simp [takeComment]
  | cons c cs ih => simp only [takeComment]; split <;> simp_all

theorem takeComment_body (cs : Text) : ∀ x ∈ (takeComment cs).1.dropLast, x ≠ '\n' := by
  induction cs with
  | nil => simp [takeComment]
  | cons c cs ih =>
    simp only [takeComment]; split
    · simp
    · rename_i h
      intro x hx
      cases hA : (takeComment cs).1 with
      | nil => simp [hA] at hx
      | cons a as =>
        simp [hA, List.dropLast] at hx
        rcases hx with rfl | hx
        · simpa using h
        · exact ih x (by simpa [hA, List.dropLast] using hx)

theorem numberTail_split (m d k : Bool) (cs : Text) :
    (numberTail m d k cs).1 ++ (numberTail m d k cs).2.1 = cs := by
  induction cs generalizing m d k with
  | nil => simp [numberTail]
  | cons c cs ih =>
    simp only [numberTail]
    split
    · simp [ih]
    · split
      · simp [ih]
      · simp

theorem dotNumberTail_split (m d k : Bool) (cs : Text) :
    (dotNumberTail m d k cs).1 ++ (dotNumberTail m d k cs).2.1 = cs := by
  induction cs generalizing m d k with
  | nil => simp [dotNumberTail]
  | cons c cs ih =>
    simp only [dotNumberTail]
    split
    · simp [dotSymbolTail, spanWhile_split]
    · split
      · simp [ih]
      · simp

theorem stringTail_split : ∀ (cs : Text) (esc : Bool) (a r : Text),
    stringTail esc cs = some (a, r) → a ++ r = cs ∧ a ≠ [] := by
  intro cs
  induction cs with
  | nil => intro esc a r h; simp [stringTail] at h
  | cons c cs ih =>
    intro esc a r h
    simp only [stringTail] at h
    split at h
    · cases h; simp
    · split at h
      · rename_i a' r' hr
        cases h
        have := ih _ _ _ hr
        simp [this.1]
      · cases h

theorem charTail_split (cs a r : Text) (h : charTail cs = some (a, r)) : a ++ r = cs ∧ a ≠ [] := by
  cases cs with
  | nil => simp [charTail] at h
  | cons c cs =>
    simp only [charTail] at h
    split at h
    · cases h; simp
    · cases h; simp [spanWhile_split]

/-- a piece of text that may separate tokens -/
inductive GapPiece : Text → Prop
  | ws (c : Char) : isWhitespaceL1 c = true → GapPiece [c]
  | comment (b : Text) : (∀ x ∈ b.dropLast, x ≠ '\n') → GapPiece (';' :: b)

inductive Gap : Text → Prop
  | nil : Gap []
  | cons {a cs} : GapPiece a → Gap cs → Gap (a ++ cs)

/-- what every outcome of `scanPiece` satisfies -/
def Piece.Good (c : Char) (cs : Text) : Piece → Prop
  | .tok a _ r => a ++ r = c :: cs ∧ a ≠ []
  | .skip a r => a ++ r = c :: cs ∧ GapPiece a
  | .fail _ => True

theorem scanHash_good (c : Char) (cs : Text) : (scanHash c cs).Good c cs := by
  unfold scanHash
  repeat' split
  all_goals first
    | (simp [Piece.Good]; done)
    | skip
  · rename_i hr; have := charTail_split _ _ _ hr; simp [Piece.Good, this.1]

theorem scanDot_good (c : Char) (cs : Text) : (scanDot c cs).Good c cs := by
  unfold scanDot
  repeat' split
  all_goals simp [Piece.Good, spanWhile_split, dotSymbolTail, dotNumberTail_split]

theorem scanString_good (c : Char) (cs : Text) : (scanString c cs).Good c cs := by
  unfold scanString
  split
  · simp [Piece.Good]
  · rename_i hr; have := stringTail_split _ _ _ _ hr; simp [Piece.Good, this.1]

theorem scanOther_good (c : Char) (cs : Text) : (scanOther c cs).Good c cs := by
  unfold scanOther
  repeat' split
  all_goals first
    | (simp [Piece.Good, spanWhile_split, symbolTail, numberTail_split]; done)
    | skip
  · rename_i hsemi
    have hc : c = ';' := by simpa using hsemi
    subst hc
    exact ⟨by simp [takeComment_split], .comment _ (takeComment_body cs)⟩
  · rename_i hws
    exact ⟨by simp, .ws c hws⟩

theorem scanPiece_good (c : Char) (cs : Text) : (scanPiece c cs).Good c cs := by
  unfold scanPiece
  repeat' split
  all_goals first
    | (simp [Piece.Good]; done)
    | exact scanHash_good c cs
    | exact scanDot_good c cs
    | exact scanString_good c cs
    | exact scanOther_good c cs

theorem scanPiece_tok {c : Char} {cs a r : Text} {ty : TokType}
    (h : scanPiece c cs = .tok a ty r) : a ++ r = c :: cs ∧ a ≠ [] := by
  have := scanPiece_good c cs; rw [h] at this; exact this

theorem scanPiece_skip {c : Char} {cs a r : Text}
    (h : scanPiece c cs = .skip a r) : a ++ r = c :: cs ∧ GapPiece a := by
  have := scanPiece_good c cs; rw [h] at this; exact this

theorem GapPiece.ne_nil {a : Text} (h : GapPiece a) : a ≠ [] := by
  cases h <;> simp

inductive Lexed : Nat → Text → List Token → Prop
  | done {pos cs} : Gap cs → Lexed pos cs []
  | tok {pos g body rest t ts} : Gap g → body ≠ [] →
      t.lo = pos + byteLen g → t.hi = t.lo + byteLen body →
      Lexed t.hi rest ts → Lexed pos (g ++ body ++ rest) (t :: ts)

theorem Lexed.prepend_gap {pos a cs ts} (ha : GapPiece a)
    (h : Lexed (pos + byteLen a) cs ts) : Lexed pos (a ++ cs) ts := by
  cases h with
  | done hg => exact .done (.cons ha hg)
  | tok hg hb hlo hhi hrest =>
    rename_i g body rest t ts
    have : a ++ (g ++ body ++ rest) = (a ++ g) ++ body ++ rest := by simp
    rw [this]
    refine .tok (.cons ha hg) hb ?_ hhi hrest
    rw [hlo, byteLen_append]; omega

theorem scanFuel_lexed : ∀ (f pos : Nat) (cs : Text) (ts : List Token),
    scanFuel f pos cs = some (.ok ts) → Lexed pos cs ts := by
  intro f
  induction f with
  | zero => intro pos cs ts h; simp [scanFuel] at h
  | succ f ih =>
    intro pos cs ts h
    cases cs with
    | nil => simp [scanFuel] at h; subst h; exact .done .nil
    | cons c cs =>
      simp only [scanFuel] at h
      split at h
      · cases h
      · rename_i a r hp
        have ⟨hs, hg⟩ := scanPiece_skip hp
        rw [← hs]
        exact Lexed.prepend_gap hg (ih _ _ _ h)
      · rename_i a ty r hp
        have ⟨hs, hne⟩ := scanPiece_tok hp
        split at h
        · cases h
        · cases h
        · rename_i ts' hr
          cases h
          have := ih _ _ _ hr
          have e : c :: cs = [] ++ a ++ r := by simp [hs]
          rw [e]
          exact .tok .nil hne (by simp) (by simp) this

/-- fuel adequacy: `length + 1` is always enough -/
theorem scanFuel_total : ∀ (f pos : Nat) (cs : Text), cs.length < f → scanFuel f pos cs ≠ none := by
  intro f
  induction f with
  | zero => intro pos cs h; omega
  | succ f ih =>
    intro pos cs hlen
    cases cs with
    | nil => simp [scanFuel]
    | cons c cs =>
      simp only [scanFuel]
      split
      · simp
      · rename_i a r hp
        have ⟨hs, hg⟩ := scanPiece_skip hp
        have hne := hg.ne_nil
        apply ih
        have : (a ++ r).length = (c :: cs).length := by rw [hs]
        cases a with
        | nil => exact absurd rfl hne
        | cons x xs => simp at this hlen; omega
      · rename_i a ty r hp
        have ⟨hs, hne⟩ := scanPiece_tok hp
        have hr : scanFuel f (pos + byteLen a) r ≠ none := by
          apply ih
          have : (a ++ r).length = (c :: cs).length := by rw [hs]
          cases a with
          | nil => exact absurd rfl hne
          | cons x xs => simp at this hlen; omega
        split
        · rename_i h; exact absurd h hr
        · simp
        · simp

theorem scan_lexed {cs : Text} {ts : List Token} (h : scan cs = .ok ts) : Lexed 0 cs ts := by
  unfold scan scanFrom at h
  split at h
  · rename_i r hr; subst h; exact scanFuel_lexed _ _ _ _ hr
  · cases h

end Marwood
