import Marwood.Vm.ListExt
import Marwood.Lemmas.ListExtProc
import Marwood.Lemmas.ListExtGood
import Marwood.Lemmas.SimObs
import Marwood.Proofs.C03
/-!
# Non-vacuity for `listExt`: a program that conses, mutates and reads, on a state satisfying `VmOk ∧ PInv`

`sDemo` is the state an evaluation of `(define p (cons 1 2)) (set-car! p 3) (car p)` starts in: an eight-cell heap
whose cell 0 is the (hand-assembled) entry code, global slots holding the builtins `cons`, `set-car!`, `car` of
`listExt`, an empty stack. It satisfies every hypothesis of the closed machine-level theorems — `VmOk`, `PInv`,
`SizeBounded` (utilisation-tested collector: at most 5 of 8 cells are ever in use, so `run_gc` returns at its
utilisation test) — the collection-free run reaches HALT after 17 instructions with `3` in `acc`, and so do the runs
under two schedules of FORCED collections (every instruction; every third instruction), evaluated by the kernel.
-/
namespace Marwood.Lemmas.Good.LDemo
open Marwood Marwood.Vm Marwood.Vm.Verify Marwood.Vm.Concrete Marwood.Vm.Concrete.ListExt Marwood.Lemmas.Sim
open Marwood.Lemmas.Good
open Marwood.Heap (Heap GcState WFHeap RootsOk Roots vrefs vrefsList crefs)

/-- hand-assembled entry code for `(define p (cons 1 2)) (set-car! p 3) (car p)`; global slots 0 1 2 hold the
    builtins `cons`, `set-car!`, `car`, slot 3 is `p` -/
def bcDemo : List VCell :=
  [ .opcode .pushImm, .opaque "n1", .opcode .pushImm, .opaque "n2", .opcode .pushImm, .argc 2,
    .opcode .mov, .globSlot 0, .acc, .opcode .callAcc,
    .opcode .mov, .acc, .globSlot 3,
    .opcode .pushAcc, .opcode .pushImm, .opaque "n3", .opcode .pushImm, .argc 2,
    .opcode .mov, .globSlot 1, .acc, .opcode .callAcc,
    .opcode .mov, .globSlot 3, .acc, .opcode .pushAcc, .opcode .pushImm, .argc 1,
    .opcode .mov, .globSlot 2, .acc, .opcode .callAcc,
    .opcode .halt ]

def lamDemo : CLambda := { bc := bcDemo, args := [], envmap := [] }

def hDemo : CHeap :=
  { chunk := 4
    cells := #[.lambda lamDemo, .val .undefined, .val .undefined, .val .undefined, .val .undefined, .val .undefined,
      .val .undefined, .val .undefined]
    gc := #[.allocated, .free, .free, .free, .free, .free, .free, .free]
    free := [1, 2, 3, 4, 5, 6, 7], symtab := [], globSyms := []
    globals := #[.builtin idCons, .builtin idSetCar, .builtin idCar, .undefined] }

def sDemo : St CHeap :=
  { heap := hDemo, stack := { cells := List.replicate 8 .undefined, sp := 0 }, acc := .undefined, ep := usizeMax,
    ipL := 0, ipO := 0, bp := 0 }

/-! ## the heap invariant -/

theorem lt8 {i : Nat} (hi : i < 8) : i = 0 ∨ i = 1 ∨ i = 2 ∨ i = 3 ∨ i = 4 ∨ i = 5 ∨ i = 6 ∨ i = 7 := by omega

theorem gcD (i : Nat) : hDemo.gc[i]? =
    if i = 0 then some GcState.allocated else if i < 8 then some GcState.free else none := by
  by_cases hi : i < 8
  · rcases lt8 hi with h | h | h | h | h | h | h | h <;> subst h <;> decide
  · rw [Array.getElem?_eq_none (by simp [hDemo]; omega)]
    have : i ≠ 0 := by omega
    simp [this, hi]

theorem cellD (i : Nat) : hDemo.cells[i]? =
    if i = 0 then some (CCell.lambda lamDemo) else if i < 8 then some (CCell.val .undefined) else none := by
  by_cases hi : i < 8
  · rcases lt8 hi with h | h | h | h | h | h | h | h <;> subst h <;> decide
  · rw [Array.getElem?_eq_none (by simp [hDemo]; omega)]
    have : i ≠ 0 := by omega
    simp [this, hi]

theorem hDemo_cell {i : Nat} {c : CCell} (hc : hDemo.cells[i]? = some c) :
    (i = 0 ∧ c = .lambda lamDemo) ∨ c = .val .undefined := by
  rw [cellD] at hc
  split at hc
  · cases hc; exact .inl ⟨by assumption, rfl⟩
  · split at hc
    · cases hc; exact .inr rfl
    · cases hc

theorem egc (i : Nat) : (toHeap hDemo).gc[i]? = hDemo.gc[i]? := rfl

theorem nonFreeD (i : Nat) : (toHeap hDemo).NonFree i ↔ i = 0 := by
  unfold Heap.NonFree
  rw [egc, gcD]
  by_cases h0 : i = 0
  · simp [h0]
  · by_cases h8 : i < 8 <;> simp [h0, h8]

theorem childrenD : crefs true (eraseC (.lambda lamDemo)) = [] := by decide +kernel

theorem hDemo_wf : WFHeap true (toHeap hDemo) := by
  refine ⟨⟨by decide +kernel, ⟨by decide, by decide, 2, by decide, by decide +kernel⟩, by decide +kernel, ?_,
    by decide, ?_, ?_, ?_⟩, ?_⟩
  · intro i
    rw [egc, gcD]
    show i ∈ [1, 2, 3, 4, 5, 6, 7] ↔ _
    by_cases h0 : i = 0
    · subst h0; decide
    · by_cases h8 : i < 8
      · rcases lt8 h8 with h | h | h | h | h | h | h | h <;> subst h <;> simp at h0 ⊢
      · simp [h0, h8]; omega
  · intro i hi
    rw [egc, gcD] at hi
    rw [toHeap_cells_get, cellD]
    by_cases h0 : i = 0
    · simp [h0] at hi
    · by_cases h8 : i < 8
      · simp [h0, h8]; rfl
      · simp [h0, h8] at hi
  · intro name i
    have e : (toHeap hDemo).symLookup name = none := rfl
    rw [e]
    unfold Heap.AllocSym
    rw [nonFreeD, toHeap_cells_get, cellD]
    constructor
    · intro h; cases h
    · rintro ⟨h1, h2⟩
      subst h2
      simp only [if_true, Option.map_some, eraseC] at h1
      cases h1
  · intro i hi y hy
    rw [nonFreeD] at hi
    subst hi
    rw [toHeap_children, cellD] at hy
    simp only [if_true] at hy
    rw [childrenD] at hy
    cases hy
  · intro i
    rw [egc, gcD]
    by_cases h0 : i = 0
    · simp [h0]
    · by_cases h8 : i < 8 <;> simp [h0, h8]

theorem bcDemo_len : bcDemo.length = 33 := rfl

theorem lamDemo_ok : LamOk lamDemo := by
  have hmov : ∀ j, j < 33 → bcDemo[j]? = some (.opcode .mov) →
      opndAll notPtr bcDemo[j + 1]? = true ∧ opndAll notPtr bcDemo[j + 2]? = true := by decide +kernel
  have himm : ∀ j, j < 33 → bcDemo[j]? = some (.opcode .movImm) →
      opndAll plainGlob bcDemo[j + 1]? = true ∧ opndAll notPtr bcDemo[j + 2]? = true := by decide +kernel
  have hlt : ∀ (j : Nat) (c : VCell), bcDemo[j]? = some c → j < 33 := by
    intro j c hc
    have := (List.getElem?_eq_some_iff.mp hc).1
    rwa [bcDemo_len] at this
  refine ⟨fun p hp => by simp [lamDemo] at hp, fun j hj => hmov j (hlt j _ hj) hj, fun j hj => himm j (hlt j _ hj) hj⟩

theorem hDemo_hg : HG hDemo := by
  refine ⟨hDemo_wf, ⟨?_, by decide +kernel, ?_⟩, ?_, ?_⟩
  · intro i v hv
    rcases hDemo_cell hv with ⟨_, h⟩ | h
    · cases h
    · cases h; rfl
  · intro i c hc
    rcases hDemo_cell hc with ⟨_, h⟩ | h <;> cases h
  · intro i l hl
    rcases hDemo_cell hl with ⟨_, h⟩ | h
    · cases h; exact lamDemo_ok
    · cases h
  · intro i ss hs
    rcases hDemo_cell hs with ⟨_, h⟩ | h <;> cases h

theorem sDemo_goodI : GoodI sDemo := by
  refine ⟨hDemo_hg, ?_, rfl⟩
  intro y hy
  have : (rootsOf sDemo).refs true = [0, usizeMax] := by decide +kernel
  rw [this] at hy
  rcases List.mem_cons.mp hy with h | h
  · subst h; exact .inl ((nonFreeD 0).mpr rfl)
  · have : y = usizeMax := by simpa using h
    subst this; exact .inr (by unfold Heap.Sentinel usizeMax; decide)

/-! ## the bytecode verifier and WF-stack -/

theorem verDemo : (verifyLam bcDemo).isSome = true := by decide +kernel

theorem hDemo_cinv : CInvG IsValue hDemo := by
  refine ⟨by decide, ⟨by decide, by decide, 2, by decide, by decide⟩, ?_, ?_, ?_, ?_, ?_, ?_⟩
  · intro i
    rw [gcD]
    by_cases h0 : i = 0
    · simp [h0]
    · by_cases h8 : i < 8 <;> simp [h0, h8]
  · intro l lam hl
    rcases hDemo_cell hl with ⟨h0, _⟩ | h
    · subst h0; decide
    · cases h
  · intro l lam hl
    rcases hDemo_cell hl with ⟨_, h⟩ | h
    · cases h; exact verDemo
    · cases h
  · intro l lam hl
    rcases hDemo_cell hl with ⟨_, h⟩ | h
    · cases h; intro x hx; cases hx
    · cases h
  · intro l lam hl
    rcases hDemo_cell hl with ⟨_, h⟩ | h
    · cases h; decide +kernel
    · cases h
  · intro p c hc
    rcases hDemo_cell hc with ⟨_, h⟩ | h <;> cases h

theorem sDemo_wfs (ext : ExtOps) (ecl : ExtCodeLawsV ext) : WFS (concreteLawsV ext ecl) sDemo [] := by
  have hv := verDemo
  cases ht : verifyLam bcDemo with
  | none => rw [ht] at hv; cases hv
  | some t =>
    have hty : tyOf ((concreteLawsV ext ecl).code sDemo.heap) 0 = some t := by
      show (codeC hDemo 0).bind verifyLam = some t
      have : codeC hDemo 0 = some bcDemo := rfl
      rw [this]; exact ht
    have hent : t.entry = true := by rw [verifyLam_entry ht]; rfl
    exact WFS.initial (cl := concreteLawsV ext ecl) (s := sDemo) (entry := 0) hDemo_cinv hty hent rfl (by decide) rfl

/-- **the bundled invariant holds of the demo state**, for every parameter set -/
theorem sDemo_vmOk (ext : ExtOps) (ecl : ExtCodeLawsV ext) : VmOk ext ecl sDemo :=
  ⟨sDemo_goodI, .inl ⟨[], sDemo_wfs ext ecl⟩⟩

/-- … and so do the two clauses "no value leads to entry code" (through the executable check) -/
theorem sDemo_pinv : PInv sDemo := statePB_sound (by decide +kernel)

/-! ## the collection-free run -/

/-- the state after `k` instructions of the collection-free run -/
def st : Nat → St CHeap
  | 0 => sDemo
  | k+1 => match vmStep (concreteOps listExt) (st k) with
    | .next s => s
    | .halt s => s
    | .fail _ s => s

theorem st_zero : st 0 = sDemo := by rw [st]

theorem st_succ (k : Nat) : st (k + 1) = match vmStep (concreteOps listExt) (st k) with
    | .next s => s | .halt s => s | .fail _ s => s := by rw [st]

attribute [irreducible] st

theorem pureN_next {S E : Type} {m : Machine S E} {s s' : S} {n : Nat} (h : m.step s = .next s') :
    pureN m (n + 1) s = pureN m n s' := by rw [pureN, h]

theorem pureN_halt {S E : Type} {m : Machine S E} {s s' : S} {n : Nat} (h : m.step s = .halt s') :
    pureN m (n + 1) s = .done s' := by rw [pureN, h]

def isNext {S E : Type} : StepRes S E → Bool
  | .next _ => true
  | _ => false

def isHalt {S E : Type} : StepRes S E → Bool
  | .halt _ => true
  | _ => false

def isFail {S E : Type} : StepRes S E → Bool
  | .fail _ _ => true
  | _ => false

/-- sixteen instructions continue, the seventeenth is HALT, nothing runs after it -/
theorem st_next : ∀ k, k < 16 → isNext (vmStep (concreteOps listExt) (st k)) = true := by decide +kernel
theorem st_halt : isHalt (vmStep (concreteOps listExt) (st 16)) = true := by decide +kernel
theorem st_fail : isFail (vmStep (concreteOps listExt) (st 17)) = true := by decide +kernel

/-- along the run the heap keeps its eight cells and at most five are in use -/
theorem st_size : ∀ k, k ≤ 17 → (st k).heap.cells.size = 8 ∧ (st k).heap.free.length ≤ 8 ∧
    3 ≤ (st k).heap.free.length := by decide +kernel

theorem step_next {k : Nat} (hk : k < 16) : vmStep (concreteOps listExt) (st k) = .next (st (k + 1)) := by
  have h := st_next k hk
  have e := st_succ k
  cases hs : vmStep (concreteOps listExt) (st k) with
  | next s => rw [e, hs]
  | halt s => rw [hs] at h; cases h
  | fail x s => rw [hs] at h; cases h

theorem step_halt : vmStep (concreteOps listExt) (st 16) = .halt (st 17) := by
  have h := st_halt
  have e : st 17 = _ := st_succ 16
  cases hs : vmStep (concreteOps listExt) (st 16) with
  | next s => rw [hs] at h; cases h
  | halt s => rw [e, hs]
  | fail x s => rw [hs] at h; cases h

/-- **the collection-free run reaches HALT after 17 instructions** -/
theorem pure_done (force : Bool) : pureN (machine listExt force) 17 sDemo = .done (st 17) := by
  have key : ∀ i, i ≤ 16 → pureN (machine listExt force) (i + 1) (st (16 - i)) = .done (st 17) := by
    intro i
    induction i with
    | zero =>
      intro _
      exact pureN_halt (m := machine listExt force) step_halt
    | succ i ih =>
      intro hi
      have hk : 16 - (i + 1) < 16 := by omega
      rw [pureN_next (m := machine listExt force) (step_next hk)]
      have e : 16 - (i + 1) + 1 = 16 - i := by omega
      rw [e]
      exact ih (by omega)
  have := key 16 (Nat.le_refl _)
  rw [show 16 - 16 = 0 from rfl, st_zero] at this
  exact this

/-- the value: `3` -/
theorem st17_result : resultObs 5 (st 17) = .atom (.opaque "n3") := by
  have ha : (st 17).acc = .ptr 4 := by decide +kernel
  have hc : (st 17).heap.cells[4]? = some (CCell.val (.opaque "n3")) := by decide +kernel
  unfold resultObs
  rw [ha]
  simp only [readObs, hc]
  rfl

/-! ## every reachable state (utilisation-tested collector) -/

/-- `run_gc` returns at its utilisation test when less than three quarters of the heap are in use -/
theorem cgc_false_id (s : St CHeap) (h1 : s.heap.free.length ≤ s.heap.cells.size)
    (h2 : 4 * (s.heap.cells.size - s.heap.free.length) < 3 * s.heap.cells.size) : cgc false s = s := by
  unfold cgc Heap.runGc
  have hu : (toHeap s.heap).usedSize = .ok (s.heap.cells.size - s.heap.free.length) := by
    simp [Heap.usedSize, Heap.freeSize, Heap.capacity, toHeap, h1]
  have hl : Heap.utilAtLeast34 (s.heap.cells.size - s.heap.free.length) (toHeap s.heap).capacity = false := by
    simp only [Heap.utilAtLeast34, Heap.capacity, toHeap, Array.size_map, decide_eq_false_iff_not]
    omega
  simp [hu, hl, bind, Except.bind, pure, Except.pure]

theorem st_gc {k : Nat} (hk : k ≤ 17) : cgc false (st k) = st k := by
  obtain ⟨h1, h2, h3⟩ := st_size k hk
  exact cgc_false_id _ (by omega) (by omega)

theorem reaches_st {s' : St CHeap} (hr : Reaches (machine listExt false) sDemo s') : ∃ k, k ≤ 17 ∧ s' = st k := by
  induction hr with
  | refl => exact ⟨0, by omega, st_zero.symm⟩
  | @next s1 s2 _ e ih =>
    obtain ⟨k, hk, rfl⟩ := ih
    have e' : vmStep (concreteOps listExt) (st k) = .next s2 := e
    by_cases h16 : k < 16
    · rw [step_next h16] at e'; cases e'; exact ⟨k + 1, by omega, rfl⟩
    · have : k = 16 ∨ k = 17 := by omega
      rcases this with rfl | rfl
      · rw [step_halt] at e'; cases e'
      · have := st_fail; rw [e'] at this; cases this
  | @halt s1 s2 _ e ih =>
    obtain ⟨k, hk, rfl⟩ := ih
    have e' : vmStep (concreteOps listExt) (st k) = .halt s2 := e
    by_cases h16 : k < 16
    · rw [step_next h16] at e'; cases e'
    · have : k = 16 ∨ k = 17 := by omega
      rcases this with rfl | rfl
      · rw [step_halt] at e'; cases e'; exact ⟨17, by omega, rfl⟩
      · have := st_fail; rw [e'] at this; cases this
  | @gc s1 _ ih =>
    obtain ⟨k, hk, rfl⟩ := ih
    exact ⟨k, hk, st_gc hk⟩

/-- the physical size bound holds along every run from the demo state -/
theorem sDemo_sizeBounded : SizeBounded (machine listExt false) sDemo := by
  intro s' hr
  obtain ⟨k, hk, rfl⟩ := reaches_st hr
  have := (st_size k hk).1
  unfold Small
  rw [this]
  decide

/-! ## two schedules of FORCED collections, evaluated -/

/-- the payload tag of the value a completed run returns -/
def doneTag (r : Res (St CHeap) Fault) : Option String :=
  match r with
  | .done s => (match resultObs 5 s with | .atom (.opaque t) => some t | _ => none)
  | _ => none

theorem doneTag_some {r : Res (St CHeap) Fault} {t : String} (h : doneTag r = some t) :
    ∃ s, r = .done s ∧ resultObs 5 s = .atom (.opaque t) := by
  unfold doneTag at h
  cases r with
  | done s =>
    refine ⟨s, rfl, ?_⟩
    simp only at h
    cases ho : resultObs 5 s with
    | atom v =>
      rw [ho] at h
      cases v <;> simp only at h <;> cases h
      rfl
    | _ => rw [ho] at h; cases h
  | _ => cases h

open Marwood.Proofs.C03 in
/-- a collection (forced: mark, sweep) before EVERY instruction -/
theorem sched_all : doneTag (runSched (machine listExt true) (fun _ => true) 17 0 sDemo) = some "n3" := by
  decide +kernel

open Marwood.Proofs.C03 in
/-- a forced collection before every third instruction -/
theorem sched_third : doneTag (runSched (machine listExt true) (fun i => i % 3 == 1) 17 0 sDemo) = some "n3" := by
  decide +kernel

open Marwood.Proofs.C03 in
/-- the collector really collects in that run: the cell holding the overwritten `1` is back on the free list -/
theorem sched_all_collects :
    (match runSched (machine listExt true) (fun _ => true) 17 0 sDemo with
     | .done s => s.heap.free
     | _ => []) = [2, 5, 6, 7] := by decide +kernel

end Marwood.Lemmas.Good.LDemo
