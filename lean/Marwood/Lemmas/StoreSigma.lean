import Marwood.Lemmas.StoreStr
/-!
# `str::to_lowercase` (`strLowerCtx`) against the per-character folding (`strLower`)

Helper definitions and lemmas for the Final_Sigma part of C15 (`Marwood.Proofs.C15`).
-/
namespace Marwood.Store

/-- `R` holds between the two lists position by position (so they have the same length) -/
inductive All2 {α β : Type} (R : α → β → Prop) : List α → List β → Prop
  | nil : All2 R [] []
  | cons {a b as bs} : R a b → All2 R as bs → All2 R (a :: as) (b :: bs)

theorem All2.append {α β : Type} {R : α → β → Prop} {a₁ a₂ : List α} {b₁ b₂ : List β}
    (h1 : All2 R a₁ b₁) (h2 : All2 R a₂ b₂) : All2 R (a₁ ++ a₂) (b₁ ++ b₂) := by
  induction h1 with
  | nil => exact h2
  | cons h _ ih => exact .cons h ih

theorem All2.length_eq {α β : Type} {R : α → β → Prop} {a : List α} {b : List β}
    (h : All2 R a b) : a.length = b.length := by
  induction h with
  | nil => rfl
  | cons _ _ ih => simp [ih]

theorem All2.refl {α : Type} {R : α → α → Prop} (hR : ∀ x, R x x) (l : List α) : All2 R l l := by
  induction l with
  | nil => exact .nil
  | cons c l ih => exact .cons (hR c) ih

theorem All2.get {α β : Type} {R : α → β → Prop} {a : List α} {b : List β} (h : All2 R a b)
    (i : Nat) (ha : i < a.length) (hb : i < b.length) : R a[i] b[i] := by
  induction h generalizing i with
  | nil => cases ha
  | cons h0 _ ih =>
    cases i with
    | zero => exact h0
    | succ i => exact ih i (by simpa using ha) (by simpa using hb)

/-- what one source character may contribute to `str::to_lowercase`: a capital sigma one of the two
    small sigmas, every other character its own image -/
def CtxPiece (T : CaseTable) (c : Char) (p : List Char) : Prop :=
  if c = capSigma then p = [smallSigma] ∨ p = [finalSigma] else p = T.lower c

/-- two output characters are the same, or the first is the final and the second the non-final
    small sigma -/
def SigmaVariant (x y : Char) : Prop := x = y ∨ (x = finalSigma ∧ y = smallSigma)

theorem lowerCtxGo_no_sigma (T : CaseTable) (before cs : List Char) (h : capSigma ∉ cs) :
    lowerCtxGo T before cs = strLower T cs := by
  induction cs generalizing before with
  | nil => rfl
  | cons c cs ih =>
    have hc : c ≠ capSigma := fun e => h (by simp [e])
    have hcs : capSigma ∉ cs := fun e => h (by simp [e])
    simp only [lowerCtxGo, lowerCtxPiece, if_neg hc, ih _ hcs, strLower, List.flatMap_cons]

theorem lowerCtxGo_pieces (T : CaseTable) (before cs : List Char) :
    ∃ ps : List (List Char), lowerCtxGo T before cs = ps.flatten ∧ All2 (CtxPiece T) cs ps := by
  induction cs generalizing before with
  | nil => exact ⟨[], rfl, .nil⟩
  | cons c cs ih =>
    obtain ⟨ps, h1, h2⟩ := ih (c :: before)
    refine ⟨lowerCtxPiece T before c cs :: ps, by simp only [lowerCtxGo, h1, List.flatten_cons],
      .cons ?_ h2⟩
    unfold CtxPiece lowerCtxPiece sigmaImage
    by_cases hc : c = capSigma
    · simp only [hc, if_true]
      split
      · exact Or.inr rfl
      · exact Or.inl rfl
    · simp only [hc, if_false]

theorem lowerCtxGo_pointwise (T : CaseTable) (hσ : T.lower capSigma = [smallSigma])
    (before cs : List Char) :
    All2 SigmaVariant (lowerCtxGo T before cs) (strLower T cs) := by
  induction cs generalizing before with
  | nil => exact .nil
  | cons c cs ih =>
    simp only [lowerCtxGo, strLower, List.flatMap_cons]
    refine All2.append ?_ (ih _)
    unfold lowerCtxPiece sigmaImage
    by_cases hc : c = capSigma
    · subst hc
      simp only [if_true, hσ]
      split
      · exact .cons (Or.inr ⟨rfl, rfl⟩) .nil
      · exact .cons (Or.inl rfl) .nil
    · simp only [hc, if_false]
      exact All2.refl (R := SigmaVariant) (fun _ => Or.inl rfl) _

theorem cmpText_self (s : Text) : cmpText s s = .eq := by
  induction s with
  | nil => rfl
  | cons a s ih =>
    have h : ¬ a.val < a.val := UInt32.lt_irrefl _
    simp only [cmpText, h, if_false, ih]

theorem strLower_congr (T : CaseTable) {a b : Text}
    (h : All2 (fun x y => T.lower x = T.lower y) a b) : strLower T a = strLower T b := by
  induction h with
  | nil => rfl
  | cons h _ ih => simp only [strLower, List.flatMap_cons] at ih ⊢; rw [h, ih]

end Marwood.Store
