import Marwood.Lemmas.Stack
/-!
# The two copy loops of TCALL, specified through the functional view of the stack
-/
namespace Marwood.Vm
open Stack

/-- different-argc branch: `for it in (0..argc).rev() { push(stack[saved_sp - it - 1]) }` copies the
    `n` cells below `savedSp` to the cells above `st.sp`, provided the source block lies above the
    destination (which the frame layout guarantees). Nothing else changes. -/
theorem tcallCopyDiff_spec : ∀ (n savedSp : Nat) (st : Stack),
    savedSp < st.cells.length → st.sp + 1 + n ≤ savedSp →
    ∃ st', tcallCopyDiff n savedSp st = .ok st' ∧ st'.sp = st.sp + n ∧
      st.cells.length ≤ st'.cells.length ∧
      (∀ j, j < n → st'.cellAt (st.sp + 1 + j) = st.cellAt (savedSp - n + j)) ∧
      (∀ i, i ≤ st.sp → st'.cellAt i = st.cellAt i) ∧
      (∀ i, st.sp + n < i → st'.cellAt i = st.cellAt i) := by
  intro n
  induction n with
  | zero =>
    intro savedSp st _ _
    exact ⟨st, rfl, rfl, Nat.le_refl _, fun j hj => by omega, fun i _ => rfl, fun i _ => rfl⟩
  | succ n ih =>
    intro savedSp st hcap hsrc
    simp only [tcallCopyDiff]
    have hle : n + 1 ≤ savedSp := by omega
    simp only [usub, hle, if_true]
    have hi : savedSp - (n + 1) < st.cells.length := by omega
    show ∃ st', (do let v ← st.get (savedSp - (n + 1)); tcallCopyDiff n savedSp (st.push v)) = _ ∧ _
    rw [get_of_lt st _ hi]
    show ∃ st', tcallCopyDiff n savedSp (st.push (st.cellAt (savedSp - (n + 1)))) = _ ∧ _
    have hcap1 : savedSp < (st.push (st.cellAt (savedSp - (n + 1)))).cells.length :=
      Nat.lt_of_lt_of_le hcap (push_len _ _)
    obtain ⟨st', h1, h2, h3, h4, h5, h6⟩ :=
      ih savedSp (st.push (st.cellAt (savedSp - (n + 1)))) hcap1 (by simp; omega)
    refine ⟨st', h1, by simp at h2; omega, Nat.le_trans (push_len _ _) h3, ?_, ?_, ?_⟩
    · intro j hj
      cases j with
      | zero =>
        have := h5 (st.sp + 1) (by simp)
        rw [push_cellAt] at this
        simpa using this
      | succ j =>
        have := h4 j (by omega)
        simp only [push_sp] at this
        rw [push_cellAt] at this
        have hne : ¬ (savedSp - n + j = st.sp + 1) := by omega
        simp only [hne, if_false] at this
        have e1 : st.sp + 1 + (j + 1) = st.sp + 1 + 1 + j := by omega
        have e2 : savedSp - (n + 1) + (j + 1) = savedSp - n + j := by omega
        rw [e1, e2]; exact this
    · intro i hi'
      have := h5 i (by simp; omega)
      rw [push_cellAt] at this
      have hne : ¬ (i = st.sp + 1) := by omega
      simpa [hne] using this
    · intro i hi'
      have := h6 i (by simp; omega)
      rw [push_cellAt] at this
      have hne : ¬ (i = st.sp + 1) := by omega
      simpa [hne] using this

theorem getOffset_neg (st : Stack) (k : Nat) (h : k ≤ st.sp) (hcap : st.sp < st.cells.length) :
    st.getOffset (-(k : Int)) = .ok (st.cellAt (st.sp - k)) := by
  unfold getOffset
  have h0 : (0 : Int) ≤ (st.sp : Int) + -(k : Int) := by omega
  simp only [h0, if_true]
  have e : ((st.sp : Int) + -(k : Int)).toNat = st.sp - k := by omega
  rw [e]
  exact get_of_lt st _ (by omega)

/-- equal-argc branch: `stack[bp - it] = stack[sp - 1 - it]` for `it` in `from .. from + k` -/
theorem tcallCopySame_spec : ∀ (k from_ bp : Nat) (st : Stack),
    st.sp < st.cells.length → from_ + k ≤ bp → bp + k + from_ < st.sp →
    ∃ st', tcallCopySame k from_ bp st = .ok st' ∧ st'.sp = st.sp ∧
      st'.cells.length = st.cells.length ∧
      (∀ j, j < k → st'.cellAt (bp - from_ - j) = st.cellAt (st.sp - 1 - from_ - j)) ∧
      (∀ i, (i + from_ + k ≤ bp ∨ bp < i + from_) → st'.cellAt i = st.cellAt i) := by
  intro k
  induction k with
  | zero =>
    intro from_ bp st _ _ _
    exact ⟨st, rfl, rfl, rfl, fun j hj => by omega, fun i _ => rfl⟩
  | succ k ih =>
    intro from_ bp st hcap hbp hsp
    simp only [tcallCopySame]
    have e : (-1 - (from_ : Int)) = -((1 + from_ : Nat) : Int) := by omega
    rw [e, getOffset_neg st (1 + from_) (by omega) hcap]
    have hle : from_ ≤ bp := by omega
    simp only [usub, hle, if_true]
    have hidx : bp - from_ < st.cells.length := by omega
    show ∃ st', (do let st1 ← st.set (bp - from_) (st.cellAt (st.sp - (1 + from_)));
                    tcallCopySame k (from_ + 1) bp st1) = _ ∧ _
    rw [set_of_lt st _ _ hidx]
    show ∃ st', tcallCopySame k (from_ + 1) bp
        { st with cells := st.cells.set (bp - from_) (st.cellAt (st.sp - (1 + from_))) } = _ ∧ _
    obtain ⟨st', h1, h2, h3, h4, h5⟩ :=
      ih (from_ + 1) bp { st with cells := st.cells.set (bp - from_) (st.cellAt (st.sp - (1 + from_))) }
        (by simpa using hcap) (by omega) (by simp; omega)
    refine ⟨st', h1, by simpa using h2, by simpa using h3, ?_, ?_⟩
    · intro j hj
      cases j with
      | zero =>
        have := h5 (bp - from_) (.inr (by omega))
        rw [at_set_cells _ _ _ _ hidx] at this
        simp only [if_true] at this
        have e2 : st.sp - 1 - from_ - 0 = st.sp - (1 + from_) := by omega
        simpa [e2] using this
      | succ j =>
        have := h4 j (by omega)
        rw [at_set_cells _ _ _ _ hidx] at this
        simp only at this
        have hne : ¬ (st.sp - 1 - (from_ + 1) - j = bp - from_) := by omega
        simp only [hne, if_false] at this
        have e1 : bp - from_ - (j + 1) = bp - (from_ + 1) - j := by omega
        have e2 : st.sp - 1 - from_ - (j + 1) = st.sp - 1 - (from_ + 1) - j := by omega
        rw [e1, e2]; exact this
    · intro i hi'
      have := h5 i (by omega)
      rw [at_set_cells _ _ _ _ hidx] at this
      have hne : ¬ (i = bp - from_) := by omega
      simpa [hne] using this

end Marwood.Vm
