import Marwood.Lemmas.ContResume
/-!
# A concrete machine that really captures and re-enters a continuation (non-vacuity of C05)

Heap = the one continuation slot (`Option Cont`; the cell `Continuation(0)` refers to it). Code:
* 20 — entry code `PUSHIMM c6; PUSHIMM argc1; MOVIMM call/cc acc; CALL; HALT`   — `(call/cc c6)`
* 8  — `ENTER; MOVIMM void acc; RET`   — the receiver `c6 = closure of λ8` (one parameter, returns)
* 21 — entry code `PUSHIMM "v"; PUSHIMM argc1; MOVIMM k acc; CALL; HALT`   — a later evaluation: `(k "v")`
-/
namespace Marwood.Vm.CToy
open Marwood.Vm Verify

def code20 : List VCell := [.opcode .pushImm, .ptr 6, .opcode .pushImm, .argc 1, .opcode .movImm, .builtin 9, .acc,
  .opcode .callAcc, .opcode .halt]
def code8 : List VCell := [.opcode .enter, .opcode .movImm, .void, .acc, .opcode .ret]
def code21 : List VCell := [.opcode .pushImm, .opaque "v", .opcode .pushImm, .argc 1, .opcode .movImm,
  .continuation 0, .acc, .opcode .callAcc, .opcode .halt]

def code (l : Nat) : Option (List VCell) :=
  if l = 20 then some code20 else if l = 8 then some code8 else if l = 21 then some code21 else none

def ops : HeapOps (Option Cont) where
  fetch _ l o := (code l).bind (·[o]?)
  isLambda _ l := (code l).isSome
  callee h v := match v with
    | .ptr 6 => .closure 8 0
    | .builtin 9 => .builtin 9
    | .continuation 0 => (match h with | some c => .continuation c | none => .other)
    | _ => .other
  lambdaInfo _ l := if l = 8 then some ⟨1⟩ else none
  deref _ v := v
  getAt _ _ := .undefined
  setAt h _ _ := h
  put h v := (h, v)
  maybePut h v := (h, v)
  newCont _ c := (some c, .continuation 0)
  globGet _ _ := .undefined
  globPut h _ _ := h
  envGet _ _ _ := none
  envPut _ _ _ _ := none
  makeClosure _ _ _ _ _ := .err .invalidBytecode
  makeActivation h _ _ _ _ := .ok (h, 0)
  vectorPush _ _ _ := .err .expectedType
  builtinKind _ _ := .callcc
  builtinEval _ _ _ := .err .invalidSyntax
  compileEval _ _ := .err .invalidSyntax
  isProcedure _ v := decide (v = .ptr 6)

theorem ver20 : (verifyLam code20).map (·.entry) = some true := by decide +kernel
theorem ver8 : (verifyLam code8).map (·.entry) = some false := by decide +kernel
theorem ver21 : (verifyLam code21).map (·.entry) = some true := by decide +kernel

theorem ty_of {l : Nat} {bc : List VCell} {e : Bool} (hc : code l = some bc)
    (hv : (verifyLam bc).map (·.entry) = some e) : ∃ t, tyOf code l = some t ∧ t.entry = e := by
  cases hv' : verifyLam bc with
  | none => rw [hv'] at hv; cases hv
  | some t =>
    rw [hv'] at hv
    exact ⟨t, by show (code l).bind verifyLam = _; rw [hc]; exact hv', by simpa using hv⟩

def laws : CodeLaws ops where
  e := 0
  code _ l := code l
  HInv h := ∀ c, h = some c → ∃ K, ContWF (fun _ => True) (tyOf code) 0 c K
  Val _ := True
  val_imm := fun _ _ => trivial
  put_val := fun _ _ => trivial
  maybePut_val := fun _ _ => trivial
  newCont_val := fun _ _ => trivial
  makeClosure_val := fun _ => trivial
  vectorPush_val := fun _ => trivial
  globGet_val := fun _ _ => trivial
  envGet_val := fun _ _ => trivial
  envGet_val2 := fun _ _ => trivial
  info_code := by
    intro h l bc info _ hc hi
    have hi' : (if l = 8 then some (⟨1⟩ : LambdaInfo) else none) = some info := hi
    have hc' : code l = some bc := hc
    by_cases h8 : l = 8
    · subst h8
      rw [show code 8 = some code8 from rfl] at hc'
      cases hc'; cases hi'; decide
    · exact absurd hi' (by simp [h8])
  fetch_code := by
    intro h l bc _ hc o
    show (code l).bind (·[o]?) = _
    rw [hc]; rfl
  step_inv := by
    intro h h' hi hs
    cases hs with
    | put => exact hi
    | maybePut => exact hi
    | globPut => exact hi
    | envPut he => simp [ops] at he
    | makeClosure he => simp [ops] at he
    | makeActivation he => simp only [ops] at he; cases he; exact hi
    | vectorPush he => simp [ops] at he
    | builtinEval he => simp [ops] at he
    | compileEval he => simp [ops] at he
  step_code := fun _ _ hc => hc
  callee_closure := by
    intro h v lam env _ hc
    simp only [ops] at hc
    split at hc
    · cases hc; exact ty_of rfl ver8
    · cases hc
    · split at hc <;> cases hc
    · cases hc
  callee_lambda := by
    intro h lam _ hc
    simp only [ops] at hc
    split at hc
    · cases hc
    · cases hc
    · split at hc <;> cases hc
    · cases hc
  cont_wf := by
    intro h v c hi hc
    simp only [ops] at hc
    split at hc
    · cases hc
    · cases hc
    · split at hc
      · cases hc
        exact hi _ rfl
      · cases hc
    · cases hc
  newCont_inv := by
    intro h c K _ hcw c' hc'
    simp only [ops] at hc'
    cases hc'
    exact ⟨K, hcw⟩
  newCont_code := fun _ hc => hc

theorem liveLaws : LiveLaws laws := ⟨fun _ _ => rfl, fun _ _ _ => rfl⟩

/-- an idle machine with 16 stack cells and an empty continuation slot -/
def idle : St (Option Cont) :=
  { heap := none, stack := { cells := List.replicate 16 .undefined, sp := 0 }, acc := .undefined,
    ep := usizeMax, ipL := 0, ipO := 0, bp := 0 }

/-- run `k` instructions (none of them halting) -/
def runK (k : Nat) (s : St (Option Cont)) : Option (St (Option Cont)) :=
  match k with
  | 0 => some s
  | k + 1 => match step ops s with
    | .ok (s', false) => runK k s'
    | _ => none

theorem runK_wf : ∀ (k : Nat) (s s' : St (Option Cont)) (K : List FDesc), WFS laws s K → runK k s = some s' →
    ∃ K', WFS laws s' K' := by
  intro k
  induction k with
  | zero => intro s s' K hw h; simp only [runK] at h; cases h; exact ⟨K, hw⟩
  | succ k ih =>
    intro s s' K hw h
    simp only [runK] at h
    split at h
    · rename_i s1 hs
      obtain ⟨K1, hw1, _⟩ := step_preserves hw hs
      exact ih s1 s' K1 hw1 h
    · cases h

/-- the `k`-th state of the first evaluation, `(call/cc c6)` -/
def nthA (k : Nat) : St (Option Cont) := (runK k (prepare idle 20)).getD idle

/-- the `k`-th state of the second evaluation, `(k "v")`, started where the first one halted -/
def nthB (k : Nat) : St (Option Cont) := (runK k (prepare (nthA 8) 21)).getD idle

theorem wf_startA : WFS laws (prepare idle 20) [] := by
  obtain ⟨t, ht, he⟩ := ty_of (l := 20) rfl ver20
  exact WFS.initial (cl := laws) (fun c hc => by cases hc) ht he rfl (by decide) trivial

theorem wfA (k : Nat) (hk : k ≤ 8) : ∃ K, WFS laws (nthA k) K := by
  have h : ∀ k, k ≤ 8 → runK k (prepare idle 20) = some (nthA k) := by
    intro k hk
    have : k = 0 ∨ k = 1 ∨ k = 2 ∨ k = 3 ∨ k = 4 ∨ k = 5 ∨ k = 6 ∨ k = 7 ∨ k = 8 := by omega
    rcases this with rfl | rfl | rfl | rfl | rfl | rfl | rfl | rfl | rfl <;> rfl
  exact runK_wf k _ _ [] wf_startA (h k hk)

theorem wf_startB : WFS laws (prepare (nthA 8) 21) [] := by
  obtain ⟨t, ht, he⟩ := ty_of (l := 21) rfl ver21
  obtain ⟨K, hw⟩ := wfA 8 (by omega)
  exact WFS.initial (cl := laws) hw.inv ht he rfl (by decide) trivial

theorem wfB (k : Nat) (hk : k ≤ 4) : ∃ K, WFS laws (nthB k) K := by
  have h : ∀ k, k ≤ 4 → runK k (prepare (nthA 8) 21) = some (nthB k) := by
    intro k hk
    have : k = 0 ∨ k = 1 ∨ k = 2 ∨ k = 3 ∨ k = 4 := by omega
    rcases this with rfl | rfl | rfl | rfl | rfl <;> rfl
  exact runK_wf k _ _ [] wf_startB (h k hk)

theorem no_cont_A (k : Nat) (hk : k ≤ 7) : ∀ c, ops.callee (nthA k).heap (nthA k).acc ≠ .continuation c := by
  have : k = 0 ∨ k = 1 ∨ k = 2 ∨ k = 3 ∨ k = 4 ∨ k = 5 ∨ k = 6 ∨ k = 7 := by omega
  rcases this with rfl | rfl | rfl | rfl | rfl | rfl | rfl | rfl <;> intro c hc <;> cases hc

end Marwood.Vm.CToy
