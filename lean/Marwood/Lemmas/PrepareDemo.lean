import Marwood.Lemmas.PrepareCheckSound
import Marwood.Lemmas.PrepareMain
import Marwood.Proofs.C13
/-!
# `Installs` is inhabited: a concrete `prepare_eval` on the demo machine (non-vacuity)

On the idle demo machine `sHalt 0` (Lemmas/GoodDemo.lean: four cells, cell 0 = the code object `[HALT]`, free list
`[1, 2, 3]`) the form `#t` compiles (model: `compileRunnable (Datum.bool true) 20`) to an empty code-object table, the
top-level lambda `[ENTER, MOVIMM, #t, acc, RET]` and the entry lambda. `sT` is the state a loader leaves: cell 1 holds
a loading of the top-level lambda (the constant inline, `VCell.bool true` — the *canonical* loading `encodeLam` writes
`ptr 0` for a datum, which here would designate cell 0, entry code, and is rightly refused by `cellPB`), cell 2 the
entry lambda referring to cell 1. The executable checker accepts the pair (`installsB … = true`, evaluated by the
kernel: two replayed allocations on a four-cell heap), hence `Installs` by `installsB_sound`, hence the bundled
invariant of the prepared state by `prepare_vmOkP`.
-/
namespace Marwood.Lemmas.Good.Demo
open Marwood Marwood.Vm Marwood.Vm.Verify Marwood.Vm.Concrete Marwood.Lemmas.Sim Marwood.Lemmas.Good
open Marwood.Heap (GcState)

/-- the heap after `prepare_eval` of `#t` on `hHalt` -/
def hT : CHeap :=
  { chunk := 4
    cells := #[.lambda { bc := [.opcode .halt], args := [], envmap := [] },
      .lambda { bc := [.opcode .enter, .opcode .movImm, .bool true, .acc, .opcode .ret], args := [], envmap := [] },
      .lambda { bc := [.opcode .pushImm, .argc 0, .opcode .movImm, .ptr 1, .acc, .opcode .callAcc, .opcode .halt],
                args := [], envmap := [] },
      .val .undefined]
    gc := #[.allocated, .allocated, .allocated, .free], free := [3], symtab := [], globSyms := [], globals := #[] }

def sT : St CHeap := { sHalt 0 with heap := hT }

theorem demo_installsB : installsB (Datum.bool true) 20 (sHalt 0) sT 2 = true := by decide +kernel

/-- **`Installs` holds of a real instance** -/
theorem demo_installs : Installs (Datum.bool true) 20 (sHalt 0) sT 2 := installsB_sound demo_installsB

theorem demo_garbage : InstallsGarbage (sHalt 0) sT := garbageB_sound (by decide +kernel)

theorem demo_small : Small sT.heap := by unfold Small; decide

/-- the bundled invariant holds, for EVERY parameter set `ext`, of the state in which the evaluation of `#t` starts -/
theorem demo_prepared_vmOkP (ext : ExtOps) (ecl : ExtCodeLawsV ext) : VmOkP ext ecl (prepare sT 2) :=
  prepare_vmOkP (sHalt_vmOkP ext ecl) rfl (by decide) demo_installs demo_small

open Marwood.Proofs.C13 in
/-- … in particular for the parameter set of the C13 / C05 / C12 demos -/
example : VmOkP failingExt failingExt_codeLawsV (prepare sT 2) :=
  prepare_vmOkP (sHalt_vmOkP _ _) rfl (by decide) demo_installs (by unfold Small; decide)

end Marwood.Lemmas.Good.Demo
