import Marwood.Lemmas.StoreList
/-!
# Vocabulary of the `map` / `for-each` specification (C14)

* `Keeps M s s'` — the frame of a procedure argument: of the heap cells that existed in `s` only those
  at the addresses `M` may differ in `s'`; the heap never shrinks (vectors and strings are not
  constrained: a callee may `vector-set!`).
* `SpineOff M s v as c` — `Spine s v as c` (element references `as`, final non-pair cell `c`) whose
  spine cells (the pairs and the final cell, when they live in the heap) lie outside `M`: the list
  view survives every `Keeps M` step.  With `M = (· < n)` this says "every cell of the spine was
  allocated at or after heap size `n`": a FRESH list.
* `Plan views tuples b` — what `map-all` does on the list views: the tuples of j-th element references
  the callee is applied to, in order, and whether the walk then ends at the end of a list
  (`b = true`: some list is exhausted, `any? null?`) or runs into a non-pair that is not `()`
  (`b = false`).
* `MapRun g s tuples s' ys` — the calls: the store is threaded left to right through `g` on the
  tuples, the j-th call returns `ys[j]`; between two calls the store only grows (`Extends`: the
  pairs `map` itself allocates), so the only mutations of a run are those the callee performs.
* `MapCallee g M I tuples` — the law the procedure argument has to obey on this run.
Core Lean only.
-/
namespace Marwood.Store
open Outcome

/-! ## the callee's frame -/

structure Keeps (M : Nat → Prop) (s s' : Store) : Prop where
  len : s.cells.length ≤ s'.cells.length
  cells : ∀ i, i < s.cells.length → ¬ M i → s'.cells[i]? = s.cells[i]?

theorem Keeps.refl (M : Nat → Prop) (s : Store) : Keeps M s s := ⟨Nat.le_refl _, fun _ _ _ => rfl⟩

theorem Keeps.trans {M : Nat → Prop} {a b c : Store} (h1 : Keeps M a b) (h2 : Keeps M b c) :
    Keeps M a c :=
  ⟨Nat.le_trans h1.len h2.len, fun i hi hm => by
    rw [h2.cells i (Nat.lt_of_lt_of_le hi h1.len) hm, h1.cells i hi hm]⟩

theorem Extends.keeps {s s' : Store} (h : Extends s s') (M : Nat → Prop) : Keeps M s s' :=
  ⟨h.len, fun i hi _ => h.cells i hi⟩

theorem Keeps.cell {M : Nat → Prop} {s s' : Store} (h : Keeps M s s') {q : Nat} {c : VCell}
    (hm : ¬ M q) (hc : s.cells[q]? = some c) : s'.cells[q]? = some c := by
  rw [h.cells q (lt_of_cell hc) hm, hc]

/-- a callee that writes nothing that existed (`M` empty) and leaves vectors and strings alone
    extends the store -/
theorem Keeps.weaken {M M' : Nat → Prop} {s s' : Store} (h : Keeps M s s') (hm : ∀ i, M i → M' i) :
    Keeps M' s s' :=
  ⟨h.len, fun i hi hn => h.cells i hi (fun h' => hn (hm i h'))⟩

/-! ## list views outside the callee's reach -/

inductive SpineOff (M : Nat → Prop) (s : Store) : VCell → List Nat → VCell → Prop
  | imm {v : VCell} : v.isValue = true → v.isPtr = false → SpineOff M s v [] v
  | done {q : Nat} {c : VCell} : ¬ M q → s.cells[q]? = some c → c.isPair = false →
      SpineOff M s (.ptr q) [] c
  | cons {p a d : Nat} {as : List Nat} {c : VCell} : ¬ M p → s.cells[p]? = some (.pair a d) →
      SpineOff M s (.ptr d) as c → SpineOff M s (.ptr p) (a :: as) c

theorem isPair_of_isValue {v : VCell} (h : v.isValue = true) (hp : v.isPtr = false) :
    v.isPair = false := by
  cases v <;> first | rfl | simp [VCell.isValue] at h | simp [VCell.isPtr] at hp

theorem SpineOff.spine {M : Nat → Prop} {s : Store} {v c : VCell} {as : List Nat}
    (h : SpineOff M s v as c) : Spine s v as c := by
  induction h with
  | imm hv hp => exact .done (get_imm hp) (isPair_of_isValue hv hp)
  | done _ hc hp => exact .done (get_of_cell hc) hp
  | cons _ hc _ ih => exact .cons (get_of_cell hc) ih

theorem Spine.isList {s : Store} {v : VCell} {as : List Nat} (h : Spine s v as .nil) :
    IsList s v as := by
  generalize hc : VCell.nil = c at h
  induction h with
  | done hg _ => subst hc; exact .nil hg
  | cons hg _ ih => exact .cons hg (ih hc)

theorem SpineOff.isList {M : Nat → Prop} {s : Store} {v : VCell} {as : List Nat}
    (h : SpineOff M s v as .nil) : IsList s v as := h.spine.isList

theorem SpineOff.keeps {M : Nat → Prop} {s s' : Store} (hk : Keeps M s s') {v c : VCell}
    {as : List Nat} (h : SpineOff M s v as c) : SpineOff M s' v as c := by
  induction h with
  | imm hv hp => exact .imm hv hp
  | done hm hc hp => exact .done hm (hk.cell hm hc) hp
  | cons hm hc _ ih => exact .cons hm (hk.cell hm hc) ih

theorem SpineOff.mono {M : Nat → Prop} {s s' : Store} (he : Extends s s') {v c : VCell}
    {as : List Nat} (h : SpineOff M s v as c) : SpineOff M s' v as c := h.keeps (he.keeps M)

theorem SpineOff.weaken {M M' : Nat → Prop} {s : Store} (hm : ∀ i, M' i → M i) {v c : VCell}
    {as : List Nat} (h : SpineOff M s v as c) : SpineOff M' s v as c := by
  induction h with
  | imm hv hp => exact .imm hv hp
  | done hn hc hp => exact .done (fun h' => hn (hm _ h')) hc hp
  | cons hn hc _ ih => exact .cons (fun h' => hn (hm _ h')) hc ih

/-- a proper list held by a stack value is a `SpineOff` for the empty write set -/
theorem IsList.spineOff {s : Store} {v : VCell} {as : List Nat} (h : IsList s v as)
    (hv : v.isValue = true) : SpineOff (fun _ => False) s v as .nil := by
  induction h with
  | @nil v hg =>
    cases v with
    | ptr q => exact .done (fun h => h) (cell_of_get hg) rfl
    | nil => exact .imm rfl rfl
    | _ => first | (simp [Store.get] at hg; done) | simp [VCell.isValue] at hv
  | @cons v a d as hg _ ih =>
    cases v with
    | ptr q => exact .cons (fun h => h) (cell_of_get hg) (ih rfl)
    | _ => first | (simp [Store.get] at hg; done) | simp [VCell.isValue] at hv

theorem Spine.spineOff {s : Store} {v c : VCell} {as : List Nat} (h : Spine s v as c)
    (hv : v.isValue = true) : SpineOff (fun _ => False) s v as c := by
  induction h with
  | @done v c hg hp =>
    cases v with
    | ptr q => exact .done (fun h => h) (cell_of_get hg) hp
    | _ =>
      first
        | (simp [VCell.isValue] at hv; done)
        | (simp only [Store.get, Outcome.ok.injEq] at hg; subst hg; exact .imm rfl rfl)
  | @cons v a d as c hg _ ih =>
    cases v with
    | ptr q => exact .cons (fun h => h) (cell_of_get hg) (ih rfl)
    | _ => first | (simp [Store.get] at hg; done) | simp [VCell.isValue] at hv

/-- the cell a heap-resident spine starts with -/
theorem SpineOff.nullP {M : Nat → Prop} {s : Store} {w : Nat} {as : List Nat} {c : VCell}
    (h : SpineOff M s (.ptr w) as c) : nullP s (.ptr w) = .ok (as.isEmpty && c.isNil) := by
  cases h with
  | imm _ hp => simp [VCell.isPtr] at hp
  | done _ hc _ => rw [nullP_of_get (get_of_cell hc)]; rfl
  | cons _ hc _ => rw [nullP_of_get (get_of_cell hc)]; rfl

/-- the heads of the lists of lists: `ws` are the references of the lists with views `views` -/
inductive HeadsOff (M : Nat → Prop) (s : Store) : List Nat → List (List Nat × VCell) → Prop
  | nil : HeadsOff M s [] []
  | cons {w : Nat} {v : List Nat × VCell} {ws : List Nat} {vs : List (List Nat × VCell)} :
      SpineOff M s (.ptr w) v.1 v.2 → HeadsOff M s ws vs → HeadsOff M s (w :: ws) (v :: vs)

theorem HeadsOff.keeps {M : Nat → Prop} {s s' : Store} (hk : Keeps M s s') {ws : List Nat}
    {vs : List (List Nat × VCell)} (h : HeadsOff M s ws vs) : HeadsOff M s' ws vs := by
  induction h with
  | nil => exact .nil
  | cons h1 _ ih => exact .cons (h1.keeps hk) ih

theorem HeadsOff.length {M : Nat → Prop} {s : Store} {ws : List Nat}
    {vs : List (List Nat × VCell)} (h : HeadsOff M s ws vs) : ws.length = vs.length := by
  induction h with
  | nil => rfl
  | cons _ _ ih => simp [ih]

/-- the input lists of `map` / `for-each`: stack values with their views -/
inductive AllSpinesOff (M : Nat → Prop) (s : Store) : List VCell → List (List Nat × VCell) → Prop
  | nil : AllSpinesOff M s [] []
  | cons {l : VCell} {v : List Nat × VCell} {ls : List VCell} {vs : List (List Nat × VCell)} :
      SpineOff M s l v.1 v.2 → AllSpinesOff M s ls vs → AllSpinesOff M s (l :: ls) (v :: vs)

theorem AllSpinesOff.keeps {M : Nat → Prop} {s s' : Store} (hk : Keeps M s s') {ls : List VCell}
    {vs : List (List Nat × VCell)} (h : AllSpinesOff M s ls vs) : AllSpinesOff M s' ls vs := by
  induction h with
  | nil => exact .nil
  | cons h1 _ ih => exact .cons (h1.keeps hk) ih

theorem AllSpinesOff.length {M : Nat → Prop} {s : Store} {ls : List VCell}
    {vs : List (List Nat × VCell)} (h : AllSpinesOff M s ls vs) : ls.length = vs.length := by
  induction h with
  | nil => rfl
  | cons _ _ ih => simp [ih]

/-- proper lists: every view ends in `()` -/
theorem AllSpinesOff.allLists {M : Nat → Prop} {s : Store} {ls : List VCell} {ass : List (List Nat)}
    (h : AllSpinesOff M s ls (ass.map fun as => (as, VCell.nil))) : AllLists s ls ass := by
  induction ass generalizing ls with
  | nil => cases h; exact .nil
  | cons as ass ih =>
    cases h with
    | cons h1 h2 => exact .cons h1.isList (ih h2)

theorem AllLists.allSpinesOff {s : Store} {ls : List VCell} {ass : List (List Nat)}
    (h : AllLists s ls ass) (hv : ∀ l ∈ ls, l.isValue = true) :
    AllSpinesOff (fun _ => False) s ls (ass.map fun as => (as, VCell.nil)) := by
  induction h with
  | nil => exact .nil
  | cons h1 _ ih =>
    exact .cons (h1.spineOff (hv _ (List.mem_cons_self ..)))
      (ih fun l hl => hv l (List.mem_cons_of_mem _ hl))

/-! ## the walk over the views -/

/-- this list is exhausted: `(null? l)` -/
def ended (v : List Nat × VCell) : Bool := v.1.isEmpty && v.2.isNil
/-- this list has no pair left -/
def noPair (v : List Nat × VCell) : Bool := v.1.isEmpty
def hd (v : List Nat × VCell) : Nat := v.1.headD 0
def tl (v : List Nat × VCell) : List Nat × VCell := (v.1.tail, v.2)

inductive Plan : List (List Nat × VCell) → List (List Nat) → Bool → Prop
  | stop {views : List (List Nat × VCell)} : views.any ended = true → Plan views [] true
  | stuck {views : List (List Nat × VCell)} : views.any ended = false → views.any noPair = true →
      Plan views [] false
  | step {views : List (List Nat × VCell)} {tuples : List (List Nat)} {b : Bool} :
      views.any noPair = false → Plan (views.map tl) tuples b →
      Plan views (views.map hd :: tuples) b

/-- the argument tuples of proper lists: the j-th tuple holds the j-th element reference of every
    list, as long as every list has a j-th element (the first list's length bounds the walk) -/
def columnsN : Nat → List (List Nat) → List (List Nat)
  | 0, _ => []
  | n+1, ass =>
    if ass.any List.isEmpty then [] else ass.map (·.headD 0) :: columnsN n (ass.map List.tail)

def columns (ass : List (List Nat)) : List (List Nat) := columnsN (ass.headD []).length ass

/-- the values the callee receives for a tuple of element references: the references themselves -/
def argsOf (tuples : List (List Nat)) : List (List VCell) := tuples.map (·.map VCell.ptr)

/-! ## the run and the law -/

inductive MapRun (g : Callee) : Store → List (List VCell) → Store → List VCell → Prop
  | nil {s s' : Store} : Extends s s' → MapRun g s [] s' []
  | cons {s t u s' : Store} {args : List VCell} {tuples : List (List VCell)} {y : VCell}
      {ys : List VCell} : Extends s t → g t args = .ok (u, y) → MapRun g u tuples s' ys →
      MapRun g s (args :: tuples) s' (y :: ys)

theorem MapRun.length {g : Callee} {s s' : Store} {tuples : List (List VCell)} {ys : List VCell}
    (h : MapRun g s tuples s' ys) : ys.length = tuples.length := by
  induction h with
  | nil _ => rfl
  | cons _ _ _ ih => simp [ih]

theorem MapRun.extend_left {g : Callee} {s0 s s' : Store} {tuples : List (List VCell)}
    {ys : List VCell} (he : Extends s0 s) (h : MapRun g s tuples s' ys) : MapRun g s0 tuples s' ys := by
  cases h with
  | nil h1 => exact .nil (he.trans h1)
  | cons h1 h2 h3 => exact .cons (he.trans h1) h2 h3

theorem MapRun.extend_right {g : Callee} {s s' s'' : Store} {tuples : List (List VCell)}
    {ys : List VCell} (h : MapRun g s tuples s' ys) (he : Extends s' s'') :
    MapRun g s tuples s'' ys := by
  induction h with
  | nil h1 => exact .nil (h1.trans he)
  | cons h1 h2 _ ih => exact .cons h1 h2 (ih he)

/-- a run whose calls only allocate only allocates -/
theorem MapRun.extends {g : Callee} (hg : ∀ t args u y, g t args = .ok (u, y) → Extends t u)
    {s s' : Store} {tuples : List (List VCell)} {ys : List VCell} (h : MapRun g s tuples s' ys) :
    Extends s s' := by
  induction h with
  | nil h1 => exact h1
  | cons h1 h2 _ ih => exact (h1.trans (hg _ _ _ _ h2)).trans ih

/-- the law of the procedure argument on a run over `tuples`: `I` is an invariant of the store the
    caller chooses (it has to survive the allocations `map` itself performs); whenever it holds the
    callee returns on each of the tuples, writes (of what existed) only inside `M`, and re-establishes
    `I` -/
structure MapCallee (g : Callee) (M : Nat → Prop) (I : Store → Prop)
    (tuples : List (List VCell)) : Prop where
  grow : ∀ t t', I t → Extends t t' → I t'
  call : ∀ t args, I t → args ∈ tuples → ∃ u y, g t args = .ok (u, y) ∧ Keeps M t u ∧ I u

theorem MapCallee.tail {g : Callee} {M : Nat → Prop} {I : Store → Prop} {a : List VCell}
    {tuples : List (List VCell)} (h : MapCallee g M I (a :: tuples)) : MapCallee g M I tuples :=
  ⟨h.grow, fun t args hi hm => h.call t args hi (List.mem_cons_of_mem _ hm)⟩

/-- `w` is the reference `heap.put v` answered in a heap that had `n0` cells when it was asked: `v`
    itself when `v` is a reference, otherwise a cell holding `v`, which is new unless `v` is a symbol
    (the symbol table may hold it already) -/
def Boxed (n0 : Nat) (s : Store) (w : Nat) (v : VCell) : Prop :=
  v = .ptr w ∨ (v.isPtr = false ∧ s.cells[w]? = some v ∧ (v.isValue = true → n0 ≤ w))

theorem Boxed.denotes {n0 : Nat} {s : Store} {w : Nat} {v : VCell} (h : Boxed n0 s w v) :
    Denotes s w v := by
  rcases h with h | ⟨h1, h2, _⟩
  · exact Or.inl h
  · exact Or.inr ⟨h1, h2⟩

theorem Boxed.mono {n0 n1 : Nat} {s s' : Store} {w : Nat} {v : VCell} (h : Boxed n0 s w v)
    (he : Extends s s') (hn : n1 ≤ n0) : Boxed n1 s' w v := by
  rcases h with h | ⟨h1, h2, h3⟩
  · exact Or.inl h
  · exact Or.inr ⟨h1, he.cell h2, fun hv => Nat.le_trans hn (h3 hv)⟩

/-- element-wise `Boxed` -/
inductive BoxedAll (n0 : Nat) (s : Store) : List Nat → List VCell → Prop
  | nil : BoxedAll n0 s [] []
  | cons {w : Nat} {v : VCell} {as : List Nat} {vs : List VCell} :
      Boxed n0 s w v → BoxedAll n0 s as vs → BoxedAll n0 s (w :: as) (v :: vs)

theorem BoxedAll.mono {n0 n1 : Nat} {s s' : Store} {as : List Nat} {vs : List VCell}
    (h : BoxedAll n0 s as vs) (he : Extends s s') (hn : n1 ≤ n0) : BoxedAll n1 s' as vs := by
  induction h with
  | nil => exact .nil
  | cons hb _ ih => exact .cons (hb.mono he hn) ih

end Marwood.Store
