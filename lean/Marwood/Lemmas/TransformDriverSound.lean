import Marwood.Lemmas.TransformDriver
/-!
# T17.3a: the expansion driver is sound against `Spec.ExpandAll` on guarded forms (lock-step induction)
-/
namespace Marwood.Transform
open Marwood Marwood.Spec.Match Marwood.Spec.ExpandAll

/-- one expansion step of the model is the specification's, on the uses the guard lets through -/
def StepSound (M : MacroTable) : Prop :=
  ∀ s t u e, M.lookup s = some t → useOK ⟨ctxOf t, specRules t⟩ u = true →
    t.transform (useFuelT t u) u = .ok e → specExpand (ctxOf t) (specRules t) u = .ok e

@[simp] theorem all_uses : GuardSel.all.uses = true := rfl
@[simp] theorem all_binders : GuardSel.all.binders = true := rfl
@[simp] theorem all_templates : GuardSel.all.templates = true := rfl

section
variable (M : MacroTable) (re : Datum → Res Datum) (sre : STable → Datum → XRes)
  (gre : STable → Datum → Bool)

/-- the four statements of the lock-step induction at a datum -/
def Lock (d : Datum) : Prop :=
  (∀ e, gx .all gre (specTable M) d = true → walk M re d = .ok e → sx sre (specTable M) d = .ok e) ∧
  (∀ e, gxList .all gre (specTable M) d = true → walkList M re d = .ok e →
    sxList sre (specTable M) d = .ok e) ∧
  (∀ k e, gxQQ .all gre (specTable M) k d = true → walkQQ M re k d = .ok e →
    sxQQ sre (specTable M) k d = .ok e) ∧
  (∀ k e, gxQQVec .all gre (specTable M) k d = true → walkQQSpine M re k d = .ok e →
    sxQQVec sre (specTable M) k d = .ok e)

variable (hS : StepSound M)
  (hR : ∀ e e', gre (specTable M) e = true → re e = .ok e' → sre (specTable M) e = .ok e')
include hS hR

omit hS hR in
theorem lock_atom {d : Datum} (h : d.isPair = false) (h' : isVec d = false) : Lock M re sre gre d := by
  refine ⟨fun e _ hw => ?_, fun e _ hw => ?_, fun k e _ hw => ?_, fun k e _ hw => ?_⟩
  · rw [walk_nonpair M re h] at hw; rw [sx_nonpair sre _ h]; cases hw; rfl
  · rw [walkList_nonpair M re h] at hw; rw [sxList_nonpair sre _ h]; cases hw; rfl
  · rw [walkQQ_atom M re k h h'] at hw; rw [sxQQ_atom sre _ k h h']; cases hw; rfl
  · rw [walkQQSpine_nonpair M re k h] at hw; rw [sxQQVec_nonpair sre _ k h]; cases hw; rfl

omit hS hR in
/-- `elements`: head and operands, left to right -/
theorem lock_elements {a r : Datum} (La : Lock M re sre gre a) (Lr : Lock M re sre gre r) (e : Datum)
    (hg : (gx .all gre (specTable M) a && gxList .all gre (specTable M) r) = true)
    (hw : ((walk M re a).bind fun h => (walkList M re r).bind fun r' => .ok (.pair h r')) = .ok e) :
    ((sx sre (specTable M) a).bind fun h => (sxList sre (specTable M) r).bind fun r' => .ok (.pair h r'))
      = .ok e := by
  rw [Bool.and_eq_true] at hg
  obtain ⟨h, hh, hw⟩ := Res.bind_eq_ok.mp hw
  obtain ⟨r', hr, hw⟩ := Res.bind_eq_ok.mp hw
  cases hw
  rw [La.1 h hg.1 hh, XRes.bind_ok, Lr.2.1 r' hg.2 hr, XRes.bind_ok]

theorem lock_pair (n : Nat) (ih : ∀ d, dsize d ≤ n → Lock M re sre gre d) (a r : Datum)
    (hd : dsize (.pair a r) ≤ n + 1) : Lock M re sre gre (.pair a r) := by
  rw [dsize_pair] at hd
  have La := ih a (by omega)
  have Lr := ih r (by omega)
  refine ⟨?_, ?_, ?_, ?_⟩
  · -- walk
    intro e hg hw
    rw [gx] at hg; rw [walk] at hw; rw [sx]
    by_cases hs : ∃ s, a = .sym s
    · obtain ⟨s, rfl⟩ := hs
      by_cases h1 : s = Spec.ExpandAll.quoteN ∨ s = Spec.ExpandAll.defineSyntaxN
      · rw [walkPair_asIs M re h1] at hw
        rw [sxPair_asIs sre _ h1]; cases hw; rfl
      · -- the generic part
        have hgen : ∀ e, guardSym .all gre (specTable M) s r (fun _ => gx .all gre (specTable M) (.sym s))
              (fun _ => gxList .all gre (specTable M) r) (gxBody .all gre (specTable M) r) = true →
            genericSym M re s r (fun _ => walk M re (.sym s)) (fun _ => walkList M re r) = .ok e →
            generalSym sre (specTable M) s r (fun _ => sx sre (specTable M) (.sym s))
              (fun T' => sxList sre T' r) (sxBody sre r) = .ok e := by
          intro e hg hw
          unfold genericSym at hw; unfold generalSym; unfold guardSym at hg
          rw [lookup_specTable] at hg ⊢
          cases hl : M.lookup s with
          | some t =>
            rw [hl] at hw
            simp only [hl, Option.map_some, all_uses, Bool.not_true, Bool.false_or, Bool.and_eq_true] at hg ⊢
            obtain ⟨e0, ht, hre⟩ := Res.bind_eq_ok.mp hw
            have hsp := hS s t _ e0 hl hg.1 ht
            rw [hsp] at hg
            simp only [useOnce, hsp, XRes.bind_ok]
            exact hR e0 e hg.2 hre
          | none =>
            rw [hl] at hw
            simp only [hl, Option.map_none] at hg ⊢
            by_cases hb : isBinder s = true
            · simp only [hb, if_true] at hg ⊢
              cases r with
              | pair target body =>
                rw [dsize_pair] at hd
                have Lb := ih body (by omega)
                simp only [gxBody, all_binders, Bool.not_true, Bool.false_or, Bool.and_eq_true,
                  Bool.not_eq_true'] at hg
                simp only [sxBody]
                rw [shadow_id hg.1]
                rw [walk_nonpair M re rfl, Res.bind_ok', walkList, walk_noMention M re target hg.1,
                  Res.bind_ok'] at hw
                obtain ⟨q, hq, hw⟩ := Res.bind_eq_ok.mp hw
                obtain ⟨b, hb1, hq⟩ := Res.bind_eq_ok.mp hq
                cases hq; cases hw
                rw [Lb.2.1 b hg.2 hb1, XRes.bind_ok]
              | _ =>
                rw [sxBody_nonpair sre rfl]
                rw [walk_nonpair M re rfl, Res.bind_ok', walkList_nonpair M re rfl, Res.bind_ok'] at hw
                cases hw; rfl
            · simp only [hb, if_false, Bool.false_eq_true] at hg ⊢
              exact lock_elements M re sre gre La Lr e hg hw
        by_cases h2 : s = Spec.ExpandAll.quasiquoteN
        · cases r with
          | pair tpl r' =>
            rw [dsize_pair] at hd
            have Lt := ih tpl (by omega)
            rw [gxQQHead, gxPair_quasi _ _ _ h1 h2] at hg
            rw [walkQQHead, walkPair_quasi M re h1 h2] at hw
            rw [sxQQHead, sxPair_quasi sre _ h1 h2]
            obtain ⟨q, hq, hw⟩ := Res.bind_eq_ok.mp hw
            obtain ⟨t', ht, hq⟩ := Res.bind_eq_ok.mp hq
            cases hq; cases hw
            rw [Lt.2.2.1 0 t' hg ht, XRes.bind_ok, XRes.bind_ok]
          | _ =>
            rw [gxQQHead_nonpair _ _ _ rfl, gxPair_general _ _ _ h1 _ _ _ _ _ (Or.inr rfl)] at hg
            rw [walkQQHead_nonpair M re rfl, walkPair_generic M re h1 _ _ _ _ (Or.inr rfl)] at hw
            rw [sxQQHead_nonpair sre _ rfl, sxPair_general sre _ h1 _ _ _ _ _ (Or.inr rfl)]
            exact hgen e hg hw
        · rw [gxPair_general _ _ _ h1 _ _ _ _ _ (Or.inl h2)] at hg
          rw [walkPair_generic M re h1 _ _ _ _ (Or.inl h2)] at hw
          rw [sxPair_general sre _ h1 _ _ _ _ _ (Or.inl h2)]
          exact hgen e hg hw
    · have hns : ∀ s, a ≠ .sym s := fun s h => hs ⟨s, h⟩
      rw [gxPair_nonsym _ _ _ hns] at hg
      rw [walkPair_nonsym M re hns] at hw
      rw [sxPair_nonsym sre _ hns]
      exact lock_elements M re sre gre La Lr e hg hw
  · -- walkList
    intro e hg hw
    rw [gxList] at hg; rw [walkList] at hw; rw [sxList]
    exact lock_elements M re sre gre La Lr e hg hw
  · -- walkQQ
    intro k e hg hw
    rw [gxQQ] at hg; rw [walkQQ] at hw; rw [sxQQ]
    by_cases hu : a = .sym Spec.ExpandAll.unquoteN
    · have hu' : isUnquote a = true := (isUnquote_iff a).mpr hu
      cases k with
      | zero =>
        cases r with
        | pair unq rest =>
          rw [dsize_pair] at hd
          have Lu := ih unq (by omega)
          rw [gxUnq, gxQQPair_unq0_some _ hu] at hg
          rw [walkUnq, walkQQPair_unq0_some hu'] at hw
          rw [sxUnq, sxQQPair_unq0_some hu]
          obtain ⟨q, hq, hw⟩ := Res.bind_eq_ok.mp hw
          obtain ⟨u', hu1, hq⟩ := Res.bind_eq_ok.mp hq
          cases hq; cases hw
          rw [Lu.1 u' hg hu1, XRes.bind_ok, XRes.bind_ok]
        | _ =>
          rw [walkUnq_nonpair M re rfl, walkQQPair_unq0_none hu'] at hw
          rw [sxUnq_nonpair sre _ rfl, sxQQPair_unq0_none hu]
          cases hw; rfl
      | succ m =>
        rw [gxQQPair_unqS _ hu] at hg
        rw [walkQQPair_unqS hu'] at hw
        rw [sxQQPair_unqS hu]
        simp only [all_templates, Bool.not_true, Bool.false_or, Bool.and_eq_true] at hg
        obtain ⟨a', ha, hw2⟩ := Res.bind_eq_ok.mp hw
        obtain ⟨d', hd', hw3⟩ := Res.bind_eq_ok.mp hw2
        have haa : a' = a := by
          rw [hu] at ha ⊢; rw [walkQQ_atom M re m rfl rfl] at ha; cases ha; rfl
        rw [haa] at hw3
        cases hw3
        rw [sxQQ_eq_vec sre _ m r hg.1, Lr.2.2.2 m d' hg.2 hd', XRes.bind_ok]
    · have hu' : isUnquote a = false := isUnquote_false hu
      by_cases hq : a = .sym Spec.ExpandAll.quasiquoteN
      · have hq' : isQuasiquote a = true := (isQuasiquote_iff a).mpr hq
        rw [gxQQPair_quasi _ hu hq] at hg
        rw [walkQQPair_quasi hu' hq'] at hw
        rw [sxQQPair_quasi hu hq]
        simp only [all_templates, Bool.not_true, Bool.false_or, Bool.and_eq_true] at hg
        obtain ⟨a', ha, hw2⟩ := Res.bind_eq_ok.mp hw
        obtain ⟨d', hd', hw3⟩ := Res.bind_eq_ok.mp hw2
        have haa : a' = a := by
          rw [hq] at ha ⊢; rw [walkQQ_atom M re _ rfl rfl] at ha; cases ha; rfl
        rw [haa] at hw3
        cases hw3
        rw [sxQQ_eq_vec sre _ _ r hg.1, Lr.2.2.2 _ d' hg.2 hd', XRes.bind_ok]
      · have hq' : isQuasiquote a = false := isQuasiquote_false hq
        rw [gxQQPair_plain _ hu hq] at hg
        rw [walkQQPair_plain hu' hq'] at hw
        rw [sxQQPair_plain hu hq]
        simp only [all_templates, Bool.not_true, Bool.false_or, Bool.and_eq_true] at hg
        obtain ⟨a', ha, hw⟩ := Res.bind_eq_ok.mp hw
        obtain ⟨d', hd', hw⟩ := Res.bind_eq_ok.mp hw
        cases hw
        rw [La.2.2.1 k a' hg.1.2 ha, XRes.bind_ok, sxQQ_eq_vec sre _ k r hg.1.1,
          Lr.2.2.2 k d' hg.2 hd', XRes.bind_ok]
  · -- walkQQSpine
    intro k e hg hw
    rw [gxQQVec, Bool.and_eq_true] at hg; rw [walkQQSpine] at hw; rw [sxQQVec]
    obtain ⟨x', hx, hw⟩ := Res.bind_eq_ok.mp hw
    obtain ⟨r', hr, hw⟩ := Res.bind_eq_ok.mp hw
    cases hw
    rw [La.2.2.1 k x' hg.1 hx, XRes.bind_ok, Lr.2.2.2 k r' hg.2 hr, XRes.bind_ok]

theorem lock_all : ∀ n d, dsize d ≤ n → Lock M re sre gre d := by
  intro n
  induction n with
  | zero => intro d hd; cases d <;> simp [dsize] at hd
  | succ n ih =>
    intro d hd
    cases d with
    | pair a r => exact lock_pair M re sre gre hS hR n ih a r hd
    | vec el =>
      rw [dsize_vec] at hd
      have Le := ih el (by omega)
      refine ⟨fun e _ hw => ?_, fun e _ hw => ?_, fun k e hg hw => ?_, fun k e _ hw => ?_⟩
      · rw [walk_nonpair M re rfl] at hw; rw [sx_nonpair sre _ rfl]; cases hw; rfl
      · rw [walkList_nonpair M re rfl] at hw; rw [sxList_nonpair sre _ rfl]; cases hw; rfl
      · rw [gxQQ] at hg; rw [walkQQ] at hw; rw [sxQQ]
        obtain ⟨e', he, hw⟩ := Res.bind_eq_ok.mp hw
        cases hw
        rw [Le.2.2.2 k e' hg he, XRes.bind_ok]
      · rw [walkQQSpine_nonpair M re k rfl] at hw; rw [sxQQVec_nonpair sre _ k rfl]; cases hw; rfl
    | _ => exact lock_atom M re sre gre rfl rfl
end

/-- **T17.3a, generic form**: if every expansion step on a guarded use is the specification's
    (`StepSound`), a successful run of the driver model on a guarded form is the specification's run -/
theorem expandForm_sound (M : MacroTable) (hS : StepSound M) :
    ∀ (f : Nat) (d e : Datum), expandGuard f (specTable M) d = true →
      expandForm M f d = .ok e → specExpandAll f (specTable M) d = .ok e := by
  intro f
  induction f with
  | zero =>
    intro d e hg hw
    exact (lock_all M _ _ _ hS (fun e e' _ h => by cases h) (dsize d) d (Nat.le_refl _)).1 e hg hw
  | succ f ih =>
    intro d e hg hw
    exact (lock_all M _ _ _ hS (fun e e' hg h => ih e e' hg h) (dsize d) d (Nat.le_refl _)).1 e hg hw

end Marwood.Transform
