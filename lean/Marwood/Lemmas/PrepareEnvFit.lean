import Marwood.Lemmas.PreparePInv
import Marwood.Lemmas.PrepareEnvCode
import Marwood.Lemmas.EnvFitGc
/-!
# One allocator step of the loader (`InstStep`) keeps "environments fit the code they belong to" (`HF`)

`Lemmas/EnvFitDefs.lean: FStep / HF.step` describe how one INSTRUCTION changes the heap: the lambda cells stay the same
(`LamSame`). The loader allocates lambda cells, so that description does not apply. What holds of a loader step is
`CellsKept h h'`: no allocated cell is written (every cell at an allocated address — or at a sentinel address, where
neither heap has a cell — is the same). The clauses of `HF` inspect only cells the collector follows from the cell they
are stated of (`CellF.kept`: a closure's lambda and environment, the immediates of the `MOVIMM _ %acc; CLOSURE` sites of
a code object, the header pairs and the saved `(ep, ip.0)` of a continuation object), and those are allocated in a heap
satisfying the heap-simulation invariant (`HG.closed`); the new cell's clause is `LamEnvOk.sites` (a code object) or holds
trivially (pairs, address-free atoms, vectors, symbols: no closure, no code, no continuation).
-/
namespace Marwood.Lemmas.Good
open Marwood Marwood.Vm Marwood.Vm.Verify Marwood.Vm.Concrete Marwood.Lemmas.Sim
open Marwood.Heap (GcState WFHeap RootsOk vrefs vrefsList crefs bcRefs)

/-- no allocated cell is written -/
def CellsKept (h h' : CHeap) : Prop := ∀ q, NF h q → h'.cells[q]? = h.cells[q]?

theorem CellsKept.refl (h : CHeap) : CellsKept h h := fun _ _ => rfl

theorem CellsKept.trans {a b c : CHeap} (m : Mono a b) (x : CellsKept a b) (y : CellsKept b c) : CellsKept a c :=
  fun q hq => by rw [y q (hq.mono m), x q hq]

theorem CellsKept.of_cells {h h' : CHeap} (hc : h'.cells = h.cells) : CellsKept h h' := fun q _ => by rw [hc]

theorem CellsKept.lam {h h' : CHeap} (k : CellsKept h h') {q : Nat} (hq : NF h q) : lambdaAt h' q = lambdaAt h q := by
  unfold lambdaAt; rw [k q hq]

theorem CellsKept.env {h h' : CHeap} (k : CellsKept h h') {q : Nat} (hq : NF h q) : envAt h' q = envAt h q := by
  unfold envAt; rw [k q hq]

theorem CellsKept.fit {h h' : CHeap} (k : CellsKept h h') {e l : Nat} (he : NF h e) (hl : NF h l) (x : Fit h e l) :
    Fit h' e l := by
  intro lam ss h1 h2
  rw [k.lam hl] at h1
  rw [k.env he] at h2
  exact x lam ss h1 h2

theorem CellsKept.fitKeep {h h' : CHeap} (k : CellsKept h h') : FitKeep h h' := fun _ _ he hl x => k.fit he hl x

theorem CellsKept.childFit {h h' : CHeap} (k : CellsKept h h') {n : Nat} {v : VCell} (hv : VRefsOk h v)
    (x : ChildFit h n v) : ChildFit h' n v := by
  intro p lam' e hl
  subst e
  rw [k.lam (VRefsOk.ptr.mp hv)] at hl
  exact x p lam' rfl hl

theorem CellsKept.inPre {h h' : CHeap} (k : CellsKept h h') {l o : Nat} (hl : NF h l) : InPre h' l o ↔ InPre h l o := by
  unfold InPre
  rw [k.lam hl]

theorem CellsKept.callee_eq {h h' : CHeap} (k : CellsKept h h') {v : VCell} (hv : VRefsOk h v) :
    callee h' v = callee h v := by
  cases v <;> first | rfl | skip
  rename_i a
  unfold callee
  simp only
  rw [k a (VRefsOk.ptr.mp hv)]

theorem CellsKept.calleeLam_eq {h h' : CHeap} (k : CellsKept h h') {v : VCell} (hv : VRefsOk h v) :
    calleeLam h' v = calleeLam h v := by
  unfold calleeLam
  rw [k.callee_eq hv]

/-- the immediates of the sites of an allocated code object are allocated -/
theorem site_imm_refs {h : CHeap} {lam : CLambda} (hr : CRefsOk h (.lambda lam)) {j : Nat} {v : VCell}
    (hs : siteB lam.bc j = true) (hv : lam.bc[j + 1]? = some v) : VRefsOk h v := by
  obtain ⟨hop, _, _⟩ := siteB_parts hs
  intro y hy
  refine hr y ?_
  simp only [eraseC, crefs, Heap.lambdaRefs, if_true, List.mem_append]
  refine .inl (.inl (bcRefs_mem lam.bc false false (by intro h; cases h) (j + 1) v hv ?_ y hy))
  simp only [prevFrom, hop]
  rfl

theorem CellsKept.codeF {h h' : CHeap} (k : CellsKept h h') {lam : CLambda} (hr : CRefsOk h (.lambda lam))
    (x : CodeF h lam) : CodeF h' lam :=
  ⟨fun j v hs hv => k.childFit (site_imm_refs hr hs hv) (x.1 j v hs hv), x.2⟩

/-- **the clause of a cell whose references are allocated survives** -/
theorem CellF.kept {h h' : CHeap} (k : CellsKept h h') {c : CCell} (hr : CRefsOk h c) (x : CellF h c) : CellF h' c := by
  cases c with
  | val v =>
    intro l e he
    subst he
    exact k.fit (hr e (by simp [eraseC, eraseV, crefs])) (hr l (by simp [eraseC, eraseV, crefs])) (x l e rfl)
  | lambda lam => exact k.codeF hr x
  | cont c => exact ContF.keep k.fitKeep hr x
  | lexEnv _ => trivial
  | vector _ => trivial

theorem cellF_undef (h : CHeap) : CellF h (.val .undefined) := by
  intro l e he; cases he

/-- an old cell's clause in a later heap that kept the allocated cells -/
theorem CellF.kept_old {h h' : CHeap} (g : HG h) (k : CellsKept h h') {i : Nat} {c : CCell}
    (hc : h.cells[i]? = some c) (x : CellF h c) : CellF h' c := by
  by_cases hu : c = .val .undefined
  · subst hu; exact cellF_undef h'
  · exact x.kept k (g.closed (alloc_of_ne_undef g hc hu) hc)

/-! ## `cput` of any cell -/

theorem cput_kept {h : CHeap} (g : HG h) (c : CCell) (sm : Small (cput h c).1) : CellsKept h (cput h c).1 := by
  obtain ⟨_, k2, k3, _⟩ := cput_cells (h := h) c
  intro q hq
  rcases hq.cases g with ⟨hnf, hlt⟩ | hs
  · have hne : q ≠ (cput h c).2 := by
      intro e
      rcases k3 with h1 | h1
      · rw [← e] at h1; exact hnf h1
      · rw [← e] at h1; omega
    have hx : h.cells[q]? = some h.cells[q] := Array.getElem?_eq_getElem hlt
    rw [hx]
    exact k2 q _ hx hne
  · have h1 : h.cells.size ≤ q := by have := hg_bound g; omega
    have h2 : (cput h c).1.cells.size ≤ q := by unfold Small at sm; omega
    rw [Array.getElem?_eq_none h1, Array.getElem?_eq_none h2]

/-- **storing any cell — code included — in a fresh cell keeps `HF`**, when the new cell's references are allocated
    and its clause holds in the old heap -/
theorem cput_hf_any {h : CHeap} (g : HG h) (hf : HF h) {c : CCell} (hr : CRefsOk h c) (ok : CellF h c)
    (sm : Small (cput h c).1) : HF (cput h c).1 := by
  have k := cput_kept g c sm
  obtain ⟨k1, _, _, _⟩ := cput_cells (h := h) c
  intro i x hx
  rcases k1 i x hx with ⟨_, e⟩ | ⟨_, e⟩ | e
  · subst e; exact ok.kept k hr
  · exact (hf i x e).kept_old g k e
  · subst e; exact cellF_undef _

/-- `HF` looks at the cells only -/
theorem HF.of_cells {h h' : CHeap} (hc : h'.cells = h.cells) (hf : HF h) : HF h' := by
  have k : CellsKept h h' := .of_cells hc
  have lam : ∀ q, lambdaAt h' q = lambdaAt h q := fun q => by unfold lambdaAt; rw [hc]
  have env : ∀ q, envAt h' q = envAt h q := fun q => by unfold envAt; rw [hc]
  have fit : ∀ e l, Fit h e l → Fit h' e l := by
    intro e l x lam' ss h1 h2
    rw [lam] at h1; rw [env] at h2
    exact x lam' ss h1 h2
  intro i c hcell
  rw [hc] at hcell
  have x := hf i c hcell
  cases c with
  | val v => intro l e he; exact fit _ _ (x l e he)
  | lambda lm =>
    refine ⟨fun j v hs hv p lam' e hl => ?_, x.2⟩
    rw [lam] at hl
    exact x.1 j v hs hv p lam' e hl
  | cont kk =>
    exact ⟨fun i e l o hi he hl => fit _ _ (x.1 i e l o hi he hl), fit _ _ x.2⟩
  | lexEnv _ => trivial
  | vector _ => trivial

/-! ## one loader step -/

/-- the clause of a new data cell holds trivially -/
theorem newData_cellF {Q : CLambda → Prop} (h : CHeap) {c : CCell} (nc : NewCellOk Q c)
    (hl : ∀ cl, c = .lambda cl → CodeF h cl) : CellF h c := by
  cases nc with
  | pair a d => intro l e he; cases he
  | atom ha _ => intro l e he; subst he; simp [addrFree] at ha
  | vector es => trivial
  | lambda q => exact hl _ rfl

/-- **one loader step keeps `HF`, and writes no allocated cell** -/
theorem instStep_hf {Q : CHeap → CLambda → Prop} (hQ : ∀ h cl, Q h cl → LamEnvOk h cl) {h h' : CHeap}
    (st : InstStep Q h h') (g : HG h) (hf : HF h) (sm : Small h') : HF h' ∧ CellsKept h h' := by
  cases st with
  | @cell c nc hr _ _ =>
    refine ⟨cput_hf_any g hf hr (newData_cellF h nc ?_) sm, cput_kept g c sm⟩
    intro cl e
    subst e
    cases nc with
    | lambda q => exact sitesFB_sound (hQ _ _ q).sites
  | @sym v name hs hk =>
    have hc : (putNew h v).1.cells = (cput h (.val v)).1.cells := by
      unfold putNew
      simp only [hs, hk]
    have hsz : (cput h (.val v)).1.cells.size = (putNew h v).1.cells.size := by rw [hc]
    have sm' : Small (cput h (.val v)).1 := by unfold Small at sm ⊢; omega
    obtain ⟨tag, rfl, hsn⟩ := symOf_some hs
    have hr : CRefsOk h (.val (.opaque tag)) := by
      intro y hy; simp [eraseC, eraseV, crefs, vrefs, hsn] at hy
    have ok : CellF h (.val (.opaque tag)) := by intro l e he; cases he
    refine ⟨HF.of_cells hc (cput_hf_any g hf hr ok sm'), ?_⟩
    intro q hq
    rw [hc]
    exact cput_kept g _ sm' q hq
  | @glob y hy => exact ⟨HF.of_cells rfl hf, .of_cells rfl⟩
  | @resym tab gs _ _ => exact ⟨HF.of_cells rfl hf, .of_cells rfl⟩

end Marwood.Lemmas.Good
