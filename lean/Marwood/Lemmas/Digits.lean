import Marwood.Num.Text
/-!
# Digits: printing and reading naturals and integers in radix 2..36 are inverse (used by C16, C10)
-/
namespace Marwood

theorem digitVal_digitChar : ∀ d, d < 36 → digitVal (digitChar d) = some d := by decide

theorem digitChar_plain : ∀ d, d < 36 →
    digitChar d ≠ '+' ∧ digitChar d ≠ '-' ∧ digitChar d ≠ '_' ∧ digitChar d ≠ '/' ∧
    digitChar d ≠ '.' ∧ digitChar d ≠ '#' := by decide

theorem toDigit_digitChar {r d : Nat} (hd : d < r) (hr : r ≤ 36) :
    toDigit r (digitChar d) = some d := by
  unfold toDigit
  rw [digitVal_digitChar d (by omega)]
  simp [hd]

theorem digitsVal_append (r : Nat) : ∀ (xs ys : Text) (acc : Nat),
    digitsVal r acc (xs ++ ys) = (digitsVal r acc xs).bind (fun a => digitsVal r a ys) := by
  intro xs
  induction xs with
  | nil => intro ys acc; simp [digitsVal]
  | cons c cs ih =>
    intro ys acc
    simp only [List.cons_append, digitsVal]
    cases toDigit r c with
    | none => simp
    | some d => simp only; exact ih ys _

theorem natDigits_ne_nil (r n : Nat) : natDigits r n ≠ [] := by
  unfold natDigits
  split <;> simp

/-- T16.1 core: the digit string of `n` in radix `r` reads back as `n`, for every `n` -/
theorem digitsVal_natDigits {r : Nat} (h2 : 2 ≤ r) (h36 : r ≤ 36) :
    ∀ n, digitsVal r 0 (natDigits r n) = some n := by
  intro n
  induction n using Nat.strongRecOn with
  | _ n ih =>
    unfold natDigits
    split
    · rename_i h
      have hn : n < r := by omega
      simp [digitsVal, toDigit_digitChar hn h36]
    · rename_i h
      have hn : ¬ n < r := fun x => h (Or.inl x)
      have hlt : n / r < n := Nat.div_lt_self (by omega) (by omega)
      rw [digitsVal_append, ih _ hlt]
      have hm : n % r < r := Nat.mod_lt _ (by omega)
      simp only [Option.bind_some, digitsVal, toDigit_digitChar hm h36]
      congr 1
      exact Nat.div_add_mod' n r

theorem natDigits_chars {r : Nat} (h2 : 2 ≤ r) : ∀ n, ∀ c ∈ natDigits r n, ∃ d, d < r ∧ c = digitChar d := by
  intro n
  induction n using Nat.strongRecOn with
  | _ n ih =>
    unfold natDigits
    split
    · rename_i h
      intro c hc
      simp only [List.mem_singleton] at hc
      exact ⟨n, by omega, hc⟩
    · rename_i h
      have hn : ¬ n < r := fun x => h (Or.inl x)
      have hlt : n / r < n := Nat.div_lt_self (by omega) (by omega)
      intro c hc
      rcases List.mem_append.mp hc with hc | hc
      · exact ih _ hlt c hc
      · simp only [List.mem_singleton] at hc
        exact ⟨n % r, Nat.mod_lt _ (by omega), hc⟩

theorem parseNat_natDigits {r : Nat} (h2 : 2 ≤ r) (h36 : r ≤ 36) (n : Nat) :
    parseNat r (natDigits r n) = some n := by
  unfold parseNat
  have := natDigits_ne_nil r n
  cases h : natDigits r n with
  | nil => exact absurd h this
  | cons c cs => simp only; rw [← h]; exact digitsVal_natDigits h2 h36 n

/-- the first character of a digit string is a plain digit -/
theorem natDigits_head {r : Nat} (h2 : 2 ≤ r) (h36 : r ≤ 36) (n : Nat) :
    ∃ c cs, natDigits r n = c :: cs ∧ c ≠ '+' ∧ c ≠ '-' ∧ c ≠ '_' := by
  cases h : natDigits r n with
  | nil => exact absurd h (natDigits_ne_nil r n)
  | cons c cs =>
    obtain ⟨d, hd, rfl⟩ := natDigits_chars h2 n c (by rw [h]; simp)
    have := digitChar_plain d (by omega)
    exact ⟨_, _, rfl, this.1, this.2.1, this.2.2.1⟩

/-- `std::from_str_radix` reads a printed integer back, exactly when it is in range -/
theorem parseIntStd_intDigits {r : Nat} (h2 : 2 ≤ r) (h36 : r ≤ 36) (inR : Int → Bool) (n : Int) :
    parseIntStd inR r (intDigits r n) = if inR n then some n else none := by
  unfold intDigits
  obtain ⟨c, cs, hcs, hp, hm, _⟩ := natDigits_head h2 h36 n.natAbs
  have hpn := parseNat_natDigits h2 h36 n.natAbs
  by_cases hneg : n < 0
  · simp only [hneg, if_true, hcs]
    have hv : -((n.natAbs : Nat) : Int) = n := by omega
    unfold parseIntStd
    simp only [show ('-' : Char) ≠ '+' by decide, if_false, if_true]
    rw [← hcs, hpn]
    simp only [hv]
  · simp only [hneg, if_false, hcs]
    have hv : ((n.natAbs : Nat) : Int) = n := by omega
    unfold parseIntStd
    cases cs with
    | nil =>
      simp only [hp, hm, or_self, if_false]
      rw [← hcs, hpn]; simp only [hv]
    | cons x xs =>
      simp only [hp, hm, if_false]
      rw [← hcs, hpn]; simp only [hv]

theorem bigDigitsVal_eq_digitsVal (r : Nat) : ∀ (cs : Text) (acc : Nat), (∀ c ∈ cs, c ≠ '_') →
    bigDigitsVal r acc cs = digitsVal r acc cs := by
  intro cs
  induction cs with
  | nil => intro acc _; rfl
  | cons c cs ih =>
    intro acc h
    have hc : c ≠ '_' := h c (by simp)
    simp only [bigDigitsVal, digitsVal, hc, if_false]
    cases toDigit r c with
    | none => rfl
    | some d => exact ih _ (fun x hx => h x (by simp [hx]))

theorem natDigits_no_underscore {r : Nat} (h2 : 2 ≤ r) (h36 : r ≤ 36) (n : Nat) :
    ∀ c ∈ natDigits r n, c ≠ '_' := by
  intro c hc
  obtain ⟨d, hd, rfl⟩ := natDigits_chars h2 n c hc
  exact (digitChar_plain d (by omega)).2.2.1

theorem stripPlus_of_ne {c : Char} {cs : Text} (h : c ≠ '+') : stripPlus (c :: cs) = c :: cs := by
  unfold stripPlus
  split
  · rename_i heq; simp only [List.cons.injEq] at heq; exact absurd heq.1 h
  · rfl

theorem afterMinus_of_ne {c : Char} {cs : Text} (h : c ≠ '+') : afterMinus (c :: cs) = c :: cs := by
  unfold afterMinus
  split
  · rename_i heq; simp only [List.cons.injEq] at heq; exact absurd heq.1 h
  · rfl

theorem parseBigUint_natDigits {r : Nat} (h2 : 2 ≤ r) (h36 : r ≤ 36) (n : Nat) :
    parseBigUint r (natDigits r n) = some n := by
  obtain ⟨c, cs, hcs, hp, hm, hu⟩ := natDigits_head h2 h36 n
  unfold parseBigUint
  rw [hcs, stripPlus_of_ne hp]
  simp only [hu, if_false]
  rw [← hcs, bigDigitsVal_eq_digitsVal _ _ _ (natDigits_no_underscore h2 h36 n)]
  exact digitsVal_natDigits h2 h36 n

/-- `BigInt::from_str_radix` reads a printed integer back -/
theorem parseBigInt_intDigits {r : Nat} (h2 : 2 ≤ r) (h36 : r ≤ 36) (n : Int) :
    parseBigInt r (intDigits r n) = some n := by
  unfold intDigits
  obtain ⟨c, cs, hcs, hp, hm, _⟩ := natDigits_head h2 h36 n.natAbs
  have hpn := parseBigUint_natDigits h2 h36 n.natAbs
  by_cases hneg : n < 0
  · simp only [hneg, if_true]
    unfold parseBigInt
    simp only
    rw [hcs, afterMinus_of_ne hp, ← hcs, hpn]
    show some (-(Int.ofNat n.natAbs)) = some n
    congr 1
    rw [Int.ofNat_eq_natCast]
    omega
  · simp only [hneg, if_false]
    unfold parseBigInt
    rw [hcs]
    split
    · rename_i heq; simp only [List.cons.injEq] at heq; exact absurd heq.1 hm
    · rw [← hcs, hpn]
      show some (Int.ofNat n.natAbs) = some n
      congr 1
      rw [Int.ofNat_eq_natCast]
      omega

/-! ## spellings that are *not* integers: a character that is no digit makes every integer
parser fail; `/` splits a ratio spelling -/

theorem digitsVal_fail (r : Nat) {c : Char} (hc : toDigit r c = none) :
    ∀ (cs : Text) (acc : Nat), c ∈ cs → digitsVal r acc cs = none := by
  intro cs
  induction cs with
  | nil => intro acc h; simp at h
  | cons x xs ih =>
    intro acc h
    simp only [digitsVal]
    rcases List.mem_cons.mp h with rfl | h
    · rw [hc]
    · cases toDigit r x with
      | none => rfl
      | some d => exact ih _ h

theorem bigDigitsVal_fail (r : Nat) {c : Char} (hc : toDigit r c = none) (hu : c ≠ '_') :
    ∀ (cs : Text) (acc : Nat), c ∈ cs → bigDigitsVal r acc cs = none := by
  intro cs
  induction cs with
  | nil => intro acc h; simp at h
  | cons x xs ih =>
    intro acc h
    simp only [bigDigitsVal]
    rcases List.mem_cons.mp h with rfl | h
    · simp only [hu, if_false]; rw [hc]
    · split
      · exact ih _ h
      · cases toDigit r x with
        | none => rfl
        | some d => exact ih _ h

theorem parseNat_fail (r : Nat) {c : Char} (hc : toDigit r c = none) (cs : Text) (h : c ∈ cs) :
    parseNat r cs = none := by
  unfold parseNat
  cases cs with
  | nil => rfl
  | cons x xs => exact digitsVal_fail r hc _ _ h

theorem parseIntStd_fail (inR : Int → Bool) (r : Nat) {c : Char} (hc : toDigit r c = none)
    (hp : c ≠ '+') (hm : c ≠ '-') (s : Text) (h : c ∈ s) : parseIntStd inR r s = none := by
  cases s with
  | nil => simp at h
  | cons x rest =>
    cases rest with
    | nil =>
      simp only [List.mem_singleton] at h
      subst h
      simp only [parseIntStd, hp, hm, or_self, if_false]
      rw [parseNat_fail r hc _ (by simp)]
    | cons y ys =>
      simp only [parseIntStd]
      by_cases hxp : x = '+'
      · have : c ∈ y :: ys := by
          rcases List.mem_cons.mp h with h | h
          · exact absurd (h.trans hxp) hp
          · exact h
        simp only [hxp, if_true]
        rw [parseNat_fail r hc _ this]
      · by_cases hxm : x = '-'
        · have : c ∈ y :: ys := by
            rcases List.mem_cons.mp h with h | h
            · exact absurd (h.trans hxm) hm
            · exact h
          simp only [hxm, show ('-' : Char) ≠ '+' by decide, if_false, if_true]
          rw [parseNat_fail r hc _ this]
        · simp only [hxp, hxm, if_false]
          rw [parseNat_fail r hc _ h]

theorem parseBigUint_fail (r : Nat) {c : Char} (hc : toDigit r c = none) (hp : c ≠ '+')
    (hu : c ≠ '_') (s : Text) (h : c ∈ s) : parseBigUint r s = none := by
  unfold parseBigUint
  have hmem : c ∈ stripPlus s := by
    unfold stripPlus
    split
    · rename_i tail
      split
      · exact h
      · rcases List.mem_cons.mp h with h | h
        · exact absurd h hp
        · exact h
    · exact h
  cases hs : stripPlus s with
  | nil => rfl
  | cons x xs =>
    simp only
    split
    · rfl
    · rw [hs] at hmem
      exact bigDigitsVal_fail r hc hu _ _ hmem

theorem parseBigInt_fail (r : Nat) {c : Char} (hc : toDigit r c = none) (hp : c ≠ '+')
    (hm : c ≠ '-') (hu : c ≠ '_') (s : Text) (h : c ∈ s) : parseBigInt r s = none := by
  unfold parseBigInt
  split
  · rename_i tail
    have h1 : c ∈ tail := by
      rcases List.mem_cons.mp h with h | h
      · exact absurd h hm
      · exact h
    have h2 : c ∈ afterMinus tail := by
      unfold afterMinus
      split
      · exact List.mem_cons_of_mem _ h1
      · exact h1
    rw [parseBigUint_fail r hc hp hu _ h2]
  · rw [parseBigUint_fail r hc hp hu _ h]

theorem splitSlash_append (a b : Text) (ha : ∀ x ∈ a, x ≠ '/') :
    splitSlash (a ++ '/' :: b) = some (a, b) := by
  induction a with
  | nil => simp [splitSlash]
  | cons x xs ih =>
    have hx : x ≠ '/' := ha x (by simp)
    simp only [List.cons_append, splitSlash, hx, if_false]
    rw [ih (fun y hy => ha y (by simp [hy]))]

theorem splitSlash_none (s : Text) (h : ∀ x ∈ s, x ≠ '/') : splitSlash s = none := by
  induction s with
  | nil => rfl
  | cons x xs ih =>
    have hx : x ≠ '/' := h x (by simp)
    simp only [splitSlash, hx, if_false]
    rw [ih (fun y hy => h y (by simp [hy]))]

theorem intDigits_chars {r : Nat} (h2 : 2 ≤ r) (n : Int) :
    ∀ c ∈ intDigits r n, c = '-' ∨ ∃ d, d < r ∧ c = digitChar d := by
  intro c hc
  unfold intDigits at hc
  split at hc
  · rcases List.mem_cons.mp hc with h | h
    · exact .inl h
    · exact .inr (natDigits_chars h2 _ c h)
  · exact .inr (natDigits_chars h2 _ c hc)

theorem intDigits_no_slash {r : Nat} (h2 : 2 ≤ r) (h36 : r ≤ 36) (n : Int) :
    ∀ c ∈ intDigits r n, c ≠ '/' := by
  intro c hc
  rcases intDigits_chars h2 n c hc with rfl | ⟨d, hd, rfl⟩
  · decide
  · exact (digitChar_plain d (by omega)).2.2.2.1

theorem toDigit_slash (r : Nat) : toDigit r '/' = none := by
  unfold toDigit
  have : digitVal '/' = none := by decide
  rw [this]

theorem toDigit_dot (r : Nat) : toDigit r '.' = none := by
  unfold toDigit
  have : digitVal '.' = none := by decide
  rw [this]

theorem toDigit_e_10 : toDigit 10 'e' = none := by decide

end Marwood
