import Marwood.Lemmas.CompileCorrect3Arity
import Marwood.Lemmas.CompileCorrect2Fail
/-!
# T01.3 stage 3, ERROR case — definitions, inversion of `Spec.Eval` failures

As stage 2 (`CompileCorrect2Fail*.lean`): when `Spec.Eval` ends with a definite error while closures are being
called, the machine fails with the corresponding class somewhere inside the innermost activation; nothing is
unwound, the caller's live stack is intact below the frames of the calls in progress, and the heap represents the
specification's state at the failure.

* `ErrRun3` — what a failing run establishes (`ErrRun2` with `Inv3`, `Ext3`);
* `ErrLaws3` — ASSUMED: a failing first-order primitive is a generic builtin failing with the same class; a
  stage-1 value that is not a primitive procedure, and a heap pair, are no procedures for `CALL`'s dispatch;
* `ExprErr3`, `CallErr3` — the statements, at specification fuel `n`;
* inversion lemmas new in stage 3: `bindArgs` with a rest parameter, `evalBody` (the variables of the internal
  definitions are always allocated), a leading `(define x e)` (the initialiser fails, or the rest does).
-/
namespace Marwood.Lemmas.CompileCorrect3
open Marwood Marwood.Vm Marwood.Lemmas.CompileCorrect Marwood.Lemmas.CompileCorrect2
open Marwood.Spec.Eval (Val Prim Cell Env ErrClass evalN evalStep applyStep evalArgs properList quoteVal kwOf insertG
  k_quote k_if_ k_setBang k_define k_lambda)

variable {H : Type} {ops : HeapOps H} {D : RepData2 ops}

structure ErrRun3 (D : RepData2 ops) (W' : World) (s : MSt H) (base : Stack) (σ σ' : SSt) (c : ErrClass)
    (sf : MSt H) (e' : Err) : Prop where
  steps : Steps ops s sf
  fails : step ops sf = .err e'
  cls : machClass e' = specClass c
  stack : StackExt base sf.stack
  swf : SWF sf.stack
  inv : Inv3 D W' sf.heap σ'
  ext : Ext3 D s.heap σ.store sf.heap σ'.store

/-- a successful prefix in front of a failing run -/
theorem ErrRun3.after {W' : World} {s s1 sf : MSt H} {base base1 : Stack} {σ σ1 σ' : SSt} {c : ErrClass} {e' : Err}
    (hst : Steps ops s s1) (hx : Ext3 D s.heap σ.store s1.heap σ1.store) (hb : StackExt base base1)
    (r : ErrRun3 D W' s1 base1 σ1 σ' c sf e') : ErrRun3 D W' s base σ σ' c sf e' :=
  ⟨hst.trans r.steps, r.fails, r.cls, hb.trans r.stack, r.swf, r.inv, hx.trans r.ext⟩

/-- lift a failing run of a sub-expression in non-tail position -/
theorem ErrRun3.lift {W' : World} {s s1 sf : MSt H} {σ σ1 σ' : SSt} {c : ErrClass} {e' : Err} {tail : Bool}
    {fr : Frame} (hfr : tail = true → FrameAt s.stack s.bp fr) (hst : Steps ops s s1)
    (hx : Ext3 D s.heap σ.store s1.heap σ1.store) (hb : StackExt s.stack s1.stack)
    (r : ErrRun3 D W' s1 s1.stack σ1 σ' c sf e') : ErrRun3 D W' s (errBase tail s fr) σ σ' c sf e' :=
  r.after hst hx ((errBase_le hfr).trans hb)

/-- the ASSUMED laws of the error case of stage 3 -/
structure ErrLaws3 (D : RepData2 ops) : Prop where
  /-- a failing first-order primitive: a generic builtin that fails with the same class, on the same heap -/
  call_err : ∀ n W h (σ : SSt) vf p vs ws c (σ' : SSt), Inv3 D W h σ → D.VR h σ.store vf (.prim p) →
    All2 (VR3 D W h σ.store) vs ws → (evalN n).apply (.prim p) ws σ = .err c σ' → c ≠ .syntax →
    ∃ id e', ops.callee h vf = .builtin id ∧ ops.builtinKind h id = .generic ∧
      builtinResult ops h id vs.reverse = .err e' ∧ machClass e' = specClass c ∧
      Inv3 D W h σ' ∧ Ext3 D h σ.store h σ'.store
  /-- a stage-1 value that is not a primitive procedure is no procedure for the dispatch of `CALL` -/
  callee_other : ∀ h S v w, D.VR h S v w → (∀ p, w ≠ .prim p) → ops.callee h v = .other
  /-- a heap pair (`VR3.pair`: the lists `VARARG` builds) is no procedure -/
  pair_other : ∀ h v a d, ops.deref h v = .pair a d → ops.callee h v = .other

/-- statements, at specification fuel `n` -/
def ExprErr3 (D : RepData2 ops) (n : Nat) : Prop :=
  ∀ f cst c base tail e cst' code (ρ : Env) (us : Text → Prop), F3 D.setG f c (bound ρ) us tail e → CtxOK c →
  compileExpr f cst c base tail e = .ok (cst', code) → cst'.lambdas <+: D.final →
  ∀ (σ : SSt) cl (σ' : SSt), (evalN n).eval e ρ σ = .err cl σ' → cl ≠ .syntax →
  ∀ (W : World) (s : MSt H) (fr : Frame), CodeAt2 D c.envmap s.heap σ.store s.ipL base code → s.ipO = base →
    Inv3 D W s.heap σ → EnvRep3 ops W s.heap c s.ep ρ us → SWF s.stack →
    (tail = true → FrameAt s.stack s.bp fr) →
  ∃ W' sf e', W.le W' ∧ ErrRun3 D W' s (errBase tail s fr) σ σ' cl sf e'

def ExprErr3NT (D : RepData2 ops) (n : Nat) : Prop :=
  ∀ f cst c base e cst' code (ρ : Env) (us : Text → Prop), F3 D.setG f c (bound ρ) us false e → CtxOK c →
  compileExpr f cst c base false e = .ok (cst', code) → cst'.lambdas <+: D.final →
  ∀ (σ : SSt) cl (σ' : SSt), (evalN n).eval e ρ σ = .err cl σ' → cl ≠ .syntax →
  ∀ (W : World) (s : MSt H), CodeAt2 D c.envmap s.heap σ.store s.ipL base code → s.ipO = base →
    Inv3 D W s.heap σ → EnvRep3 ops W s.heap c s.ep ρ us → SWF s.stack →
  ∃ W' sf e', W.le W' ∧ ErrRun3 D W' s s.stack σ σ' cl sf e'

theorem ExprErr3.nontail {n : Nat} (h : ExprErr3 D n) : ExprErr3NT D n := by
  intro f cst c base e cst' code ρ us hf hcx hcomp hpre σ cl σ' hev hcs W s hc hip hi her hw
  exact h f cst c base false e cst' code ρ us hf hcx hcomp hpre σ cl σ' hev hcs W s ⟨0, 0, 0, 0, 0, s.stack⟩ hc hip hi
    her hw (by intro h; cases h)

def CallErr3 (D : RepData2 ops) (n : Nat) : Prop :=
  ∀ ps rest body ρc ws (σ : SSt) cl (σ' : SSt), (evalN n).apply (.closure ps rest body ρc) ws σ = .err cl σ' →
  cl ≠ .syntax →
  ∀ (W : World) (s : MSt H) lam cenv vs st0 epc lc oc, ops.callee s.heap s.acc = .closure lam cenv →
    ClosOK3 D W s.heap lam cenv ps rest body ρc → Inv3 D W s.heap σ → All2 (VR3 D W s.heap σ.store) vs ws →
    s.ipL = lam → s.ipO = 0 → LiveEq (callFrame st0 vs epc lc oc) s.stack → SWF st0 → SWF s.stack →
  ∃ W' sf e', W.le W' ∧ ErrRun3 D W' s st0 σ σ' cl sf e'

/-! ## inversion of failures -/

open Marwood.Spec.Eval in
theorem allocList_ne_err : ∀ (xs : List Val) (σ σ' : SSt) (c : ErrClass), allocList xs σ ≠ .err c σ'
  | [], _, _, _ => by simp only [allocList]; exact pure_ne_err
  | x :: xs, σ, σ', c => by
    intro h
    simp only [allocList] at h
    rcases bind_err_inv h with h1 | ⟨t, σ1, _, h2⟩
    · exact allocList_ne_err xs _ _ _ h1
    · unfold Spec.Eval.cons at h2
      rcases bind_err_inv h2 with h3 | ⟨l, σ2, _, h4⟩
      · unfold allocCell at h3; cases h3
      · exact absurd h4 pure_ne_err

open Marwood.Spec.Eval in
/-- binding fails only on a wrong number of arguments (fixed arity: a different number; rest parameter: too few);
    the store may have grown by unreferenced cells -/
theorem bindArgs3_err_inv : ∀ (ps : List Text) (rest : Option Text) (args : List Val) (ρ : Env) (σ σ' : SSt)
    (c : ErrClass), bindArgs ps rest args ρ σ = .err c σ' →
    c = .arity ∧ (rest = none → args.length ≠ ps.length) ∧ (rest.isSome = true → args.length < ps.length) ∧
    σ'.globals = σ.globals ∧ σ.store.size ≤ σ'.store.size ∧ ∀ l, l < σ.store.size → σ'.store[l]? = σ.store[l]? := by
  intro ps
  induction ps with
  | nil =>
    intro rest args ρ σ σ' c h
    cases rest with
    | none =>
      cases args with
      | nil => simp only [bindArgs] at h; exact absurd h pure_ne_err
      | cons a as =>
        simp only [bindArgs] at h
        obtain ⟨rfl, rfl⟩ := throw_err_inv h
        exact ⟨rfl, by simp, by simp, rfl, Nat.le_refl _, fun _ _ => rfl⟩
    | some rn =>
      exfalso
      simp only [bindArgs] at h
      rcases bind_err_inv h with h1 | ⟨lst, σ0, _, h2⟩
      · exact allocList_ne_err _ _ _ _ h1
      · rcases bind_err_inv h2 with h3 | ⟨l, σ2, _, h4⟩
        · unfold allocCell at h3; cases h3
        · exact absurd h4 pure_ne_err
  | cons p ps ih =>
    intro rest args ρ σ σ' c h
    cases args with
    | nil =>
      simp only [bindArgs] at h
      obtain ⟨rfl, rfl⟩ := throw_err_inv h
      exact ⟨rfl, by simp, by simp, rfl, Nat.le_refl _, fun _ _ => rfl⟩
    | cons a as =>
      simp only [bindArgs] at h
      rcases bind_err_inv h with h1 | ⟨l, σ0, h1, h2⟩
      · unfold allocCell at h1; cases h1
      · unfold allocCell at h1
        injection h1 with hl hσ
        subst hl hσ
        obtain ⟨e1, e2, e2', e3, e4, e5⟩ := ih rest as _ _ σ' c h2
        simp only [Array.size_push] at e4 e5
        refine ⟨e1, fun hr => by simpa using e2 hr, fun hr => by simpa using e2' hr, e3, by omega, fun l hl => ?_⟩
        rw [e5 l (by omega)]
        simp [Array.getElem?_push, Nat.ne_of_lt hl]

open Marwood.Spec.Eval in
theorem allocVars_ne_err : ∀ (xs : List (Text × Val)) (ρ : Env) (σ σ' : SSt) (c : ErrClass),
    allocVars xs ρ σ ≠ .err c σ'
  | [], _, _, _, _ => by simp only [allocVars]; exact pure_ne_err
  | (x, v) :: xs, ρ, σ, σ', c => by
    intro h
    simp only [allocVars] at h
    rcases bind_err_inv h with h1 | ⟨l, σ1, _, h2⟩
    · unfold allocCell at h1; cases h1
    · exact allocVars_ne_err xs _ _ _ _ h2

/-- a failing closure call (any formals): binding fails, or the forms of the body fail after the variables of the
    internal definitions have been allocated -/
theorem applyStep_closure_err_inv3 {r : Spec.Eval.Rec} {ps : List Text} {rest : Option Text} {body : List Datum}
    {ρc : Env} {args : List Val} {σ σ' : SSt} {c : ErrClass}
    (h : applyStep r (.closure ps rest body ρc) args σ = .err c σ') :
    Spec.Eval.bindArgs ps rest args ρc σ = .err c σ' ∨
      ∃ ρ' σ1 ρ2 σ2, Spec.Eval.bindArgs ps rest args ρc σ = .ok ρ' σ1 ∧
        Spec.Eval.allocVars ((Spec.Eval.leadingDefs body).map fun x => (x, Val.undef)) ρ' σ1 = .ok ρ2 σ2 ∧
        Spec.Eval.evalBodyForms r ρ2 true body σ2 = .err c σ' := by
  simp only [applyStep] at h
  rcases bind_err_inv h with h1 | ⟨ρ', σ1, h1, h2⟩
  · exact .inl h1
  · unfold Spec.Eval.evalBody at h2
    rcases bind_err_inv h2 with h3 | ⟨ρ2, σ2, h3, h4⟩
    · exact absurd h3 (allocVars_ne_err _ _ _ _ _)
    · exact .inr ⟨ρ', σ1, ρ2, σ2, h1, h3, h4⟩

open Marwood.Spec.Eval in
/-- a failing body that starts with `(define x e)`, `x` lexically bound: the initialiser fails; or it succeeds,
    the variable's cell is overwritten (or is missing), and the rest fails -/
theorem evalBodyForms_def_err_inv {r : Rec} {ρ : Env} {x : Text} {e e' : Datum} {es : List Datum} {σ σ' : SSt}
    {c : ErrClass} {l : Nat} (hl : ρ.lookup x = some l)
    (h : evalBodyForms r ρ true (defForm x e :: e' :: es) σ = .err c σ') :
    (reserved x = true ∧ c = .syntax) ∨ r.eval e ρ σ = .err c σ' ∨
      ∃ v σ1, r.eval e ρ σ = .ok v σ1 ∧ (¬ l < σ1.store.size ∨ (l < σ1.store.size ∧
        evalBodyForms r ρ true (e' :: es) { σ1 with store := σ1.store.setIfInBounds l (.var v) } = .err c σ')) := by
  simp only [evalBodyForms, isDefine_defForm, Bool.and_self, if_true] at h
  rcases bind_err_inv h with h1 | ⟨⟨x', v⟩, σ1, h1, h2⟩
  · simp only [defineValue, defForm] at h1
    split at h1
    · rename_i hr
      exact .inl ⟨hr, (throw_err_inv h1).1⟩
    · rcases bind_err_inv h1 with h3 | ⟨v0, σ0, _, h4⟩
      · exact .inr (.inl h3)
      · exact absurd h4 pure_ne_err
  · simp only [defineValue, defForm] at h1
    split at h1
    · exact absurd h1 throw_ne_ok
    · obtain ⟨v0, σ0, h3, h4⟩ := bind_ok_inv h1
      obtain ⟨hxv, rfl⟩ := pure_ok_inv h4
      injection hxv with hx hv
      subst hx hv
      refine .inr (.inr ⟨v, σ1, h3, ?_⟩)
      change (assignVar ρ x' v >>= fun _ => evalBodyForms r ρ true (e' :: es)) σ1 = _ at h2
      by_cases hlt : l < σ1.store.size
      · right
        refine ⟨hlt, ?_⟩
        rcases bind_err_inv h2 with h5 | ⟨u, σ2, h5, h6⟩
        · simp only [assignVar, hl] at h5
          unfold writeCell at h5
          simp only [hlt, if_true] at h5
          cases h5
        · simp only [assignVar, hl] at h5
          unfold writeCell at h5
          simp only [hlt, if_true] at h5
          injection h5 with _ h7
          subst h7
          exact h6
      · exact .inl hlt

open Marwood.Spec.Eval in
/-- a failing body that starts with `(define (x . formals) body …)`, `x` lexically bound, formals and body
    well-formed: the closure is built, the variable's cell is overwritten (or is missing), and the rest fails -/
theorem evalBodyForms_cur_err_inv {r : Rec} {ρ : Env} {x : Text} {formals lbody e' : Datum} {es : List Datum}
    {σ σ' : SSt} {c : ErrClass} {l : Nat} {ps : List Text} {rst : Option Text} {b : Datum} {bs : List Datum}
    (hl : ρ.lookup x = some l) (hres : reserved x = false) (hpf : parseFormals formals = some (ps, rst))
    (hpb : properList lbody = some (b :: bs))
    (h : evalBodyForms r ρ true (curForm x formals lbody :: e' :: es) σ = .err c σ') :
    ¬ l < σ.store.size ∨ (l < σ.store.size ∧
      evalBodyForms r ρ true (e' :: es)
        { σ with store := σ.store.setIfInBounds l (.var (.closure ps rst (b :: bs) ρ)) } = .err c σ') := by
  simp only [evalBodyForms, isDefine_curForm, Bool.and_self, if_true] at h
  rcases bind_err_inv h with h1 | ⟨⟨x', v⟩, σ1, h1, h2⟩
  · exfalso
    simp only [defineValue, curForm] at h1
    split at h1
    · rename_i hr
      rw [hres] at hr; cases hr
    · rcases bind_err_inv h1 with h3 | ⟨v0, σ0, _, h4⟩
      · simp only [makeClosure, hpf, hpb] at h3
        exact absurd h3 pure_ne_err
      · exact absurd h4 pure_ne_err
  · simp only [defineValue, curForm] at h1
    split at h1
    · exact absurd h1 throw_ne_ok
    · obtain ⟨v0, σ0, h3, h4⟩ := bind_ok_inv h1
      obtain ⟨hxv, rfl⟩ := pure_ok_inv h4
      injection hxv with hx hv
      subst hx hv
      simp only [makeClosure, hpf, hpb] at h3
      obtain ⟨rfl, rfl⟩ := pure_ok_inv h3
      change (assignVar ρ x' _ >>= fun _ => evalBodyForms r ρ true (e' :: es)) σ1 = _ at h2
      by_cases hlt : l < σ1.store.size
      · right
        refine ⟨hlt, ?_⟩
        rcases bind_err_inv h2 with h5 | ⟨u, σ2, h5, h6⟩
        · simp only [assignVar, hl] at h5
          unfold writeCell at h5
          simp only [hlt, if_true] at h5
          cases h5
        · simp only [assignVar, hl] at h5
          unfold writeCell at h5
          simp only [hlt, if_true] at h5
          injection h5 with _ h7
          subst h7
          exact h6
      · exact .inl hlt

/-- `lambda` never fails on the fragment -/
theorem evalStep_lambda_ne_err3 {r : Spec.Eval.Rec} {G : Text → Prop} {f : Nat} {c : Ctx} {ns us : Text → Prop}
    {ints : List Text} {formals body : Datum} {ps : List Text} {rest : Option Text} {ρ : Env} {σ σ' : SSt}
    {cl : ErrClass} (hf : Spec.Eval.parseFormals formals = some (ps, rest)) (hb : F3B G f c ns us ints body) :
    evalStep r (.pair (.sym k_lambda) (.pair formals body)) ρ σ ≠ .err cl σ' := by
  obtain ⟨bl, hbl⟩ := F3B_proper hb
  cases bl with
  | nil => exact absurd rfl (F3B_nonempty hb hbl)
  | cons b bs => exact evalStep_lambda_ne_err hf hbl

end Marwood.Lemmas.CompileCorrect3
