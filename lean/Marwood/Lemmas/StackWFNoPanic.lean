import Marwood.Lemmas.StackWFStep
import Marwood.Lemmas.StackWFToy
/-!
# T06.6 — `step` of a WF machine state does not panic (except at two named sites)

Every `usub`, slice and `expect` of `step` (Vm/Machine.lean, i.e. `run_one` of run.rs) is examined in
a state that satisfies `WFS` (the frame-chain invariant of `Lemmas/StackWF.lean` relative to the
bytecode verifier). The arithmetic sites — `bp - n` of RET, `sp - 4` of ENTER, `bp - it`,
`saved_sp - it - 1`, `bp - frame_argc` of TCALL, `ip.1 -= 1` of `apply` / `eval` / `call/cc`, the slice
of `to_continuation` — are excluded by the invariant. What the invariant cannot see is stated as
`PanicLaws` (facts about heap objects: `%ip` designates a lambda, a lambda whose code contains VARARG has
a rest parameter, and the heap-side operations — closure / activation construction, vector push,
generic builtins, `eval`'s compiler — do not panic: the last one is T06.2's business). Two sites
remain (`Residual`): the `split_at_mut` of `restore_continuation` (needs the temporal fact that a
continuation's snapshot is no longer than the current stack, which only grows) and the model's own
fuel guard in `apply`'s list walk (a cyclic argument list; the Rust loop would not return).
-/
namespace Marwood.Vm
open Verify Stack

variable {H : Type} {ops : HeapOps H}

/-- every panic `o` can produce is one of the sites `R` -/
def Outcome.PanicsIn {α : Type} (R : String → Prop) (o : Outcome α) : Prop := ∀ m, o = .panic m → R m

abbrev Outcome.NoPanic {α : Type} (o : Outcome α) : Prop := Outcome.PanicsIn (fun _ => False) o

theorem pin_ok {α : Type} {R : String → Prop} (a : α) : Outcome.PanicsIn R (.ok a) := by intro m h; cases h
theorem pin_err {α : Type} {R : String → Prop} (e : Err) : Outcome.PanicsIn R (.err e : Outcome α) := by
  intro m h; cases h

@[simp] theorem outcome_bind_panic {α β : Type} (m : String) (f : α → Outcome β) :
    (Outcome.panic m >>= f) = .panic m := rfl
@[simp] theorem outcome_bind_err {α β : Type} (e : Err) (f : α → Outcome β) :
    (Outcome.err e >>= f) = .err e := rfl

theorem pin_bind {α β : Type} {R : String → Prop} {x : Outcome α} {f : α → Outcome β}
    (hx : Outcome.PanicsIn R x) (hf : ∀ a, x = .ok a → Outcome.PanicsIn R (f a)) :
    Outcome.PanicsIn R (x >>= f) := by
  cases x with
  | ok a => exact hf a rfl
  | err e => exact pin_err e
  | panic m => intro m' h; rw [outcome_bind_panic] at h; cases h; exact hx m rfl

theorem Outcome.NoPanic.to {α : Type} {R : String → Prop} {o : Outcome α} (h : Outcome.NoPanic o) :
    Outcome.PanicsIn R o := fun m hm => (h m hm).elim

/-! ## the small operations -/

theorem get_np (st : Stack) (i : Nat) : Outcome.NoPanic (st.get i) := by
  intro m h; unfold Stack.get at h; split at h <;> cases h

theorem getOffset_np (st : Stack) (off : Int) : Outcome.NoPanic (st.getOffset off) := by
  unfold Stack.getOffset
  simp only
  split
  · exact get_np _ _
  · exact pin_err _

theorem set_np (st : Stack) (i : Nat) (v : VCell) : Outcome.NoPanic (st.set i v) := by
  intro m h; unfold Stack.set at h; split at h <;> cases h

theorem setOffset_np (st : Stack) (off : Int) (v : VCell) : Outcome.NoPanic (st.setOffset off v) := by
  unfold Stack.setOffset
  simp only
  split
  · exact set_np _ _ _
  · exact pin_err _

theorem pop_np (st : Stack) : Outcome.NoPanic st.pop := by
  intro m h; unfold Stack.pop at h
  split at h
  · split at h <;> cases h
  · cases h

theorem asPtr_np (v : VCell) : Outcome.NoPanic (asPtr v) := by cases v <;> (intro m h; cases h)
theorem asArgc_np (v : VCell) : Outcome.NoPanic (asArgc v) := by cases v <;> (intro m h; cases h)
theorem asBp_np (v : VCell) : Outcome.NoPanic (asBp v) := by cases v <;> (intro m h; cases h)
theorem asEp_np (v : VCell) : Outcome.NoPanic (asEp v) := by cases v <;> (intro m h; cases h)
theorem asIp_np (v : VCell) : Outcome.NoPanic (asIp v) := by cases v <;> (intro m h; cases h)

theorem usub_of_le {a b : Nat} (site : String) (h : b ≤ a) : usub a b site = .ok (a - b) := by
  simp [usub, h]

theorem popN_np : ∀ (k : Nat) (st : Stack), Outcome.NoPanic (popN k st)
  | 0, st => pin_ok _
  | k+1, st => by
    unfold popN
    refine pin_bind (pop_np st) (fun a _ => ?_)
    obtain ⟨v, st1⟩ := a
    refine pin_bind (popN_np k st1) (fun b _ => ?_)
    exact pin_ok _

theorem readOpcode_np {s : St H} (hl : ops.isLambda s.heap s.ipL = true) : Outcome.NoPanic (readOpcode ops s) := by
  intro m h
  unfold readOpcode at h
  simp only [hl, Bool.not_true, Bool.false_eq_true, if_false] at h
  split at h <;> cases h

theorem readOperand_np {s : St H} (hl : ops.isLambda s.heap s.ipL = true) : Outcome.NoPanic (readOperand ops s) := by
  intro m h
  unfold readOperand at h
  simp only [hl, Bool.not_true, Bool.false_eq_true, if_false] at h
  split at h <;> cases h

theorem loadOperand_np {s : St H} (hl : ops.isLambda s.heap s.ipL = true) : Outcome.NoPanic (loadOperand ops s) := by
  unfold loadOperand
  refine pin_bind (readOperand_np hl) (fun a _ => ?_)
  obtain ⟨opnd, s1⟩ := a
  simp only
  split
  · exact pin_ok _
  · exact pin_ok _
  · split
    · exact pin_bind (get_np _ _) (fun _ _ => pin_ok _)
    · exact pin_err _
  · split
    · exact pin_err _
    · exact pin_ok _
  · split
    · exact pin_err _
    · split
      · exact pin_err _
      · exact pin_ok _
    · exact pin_ok _
  · exact pin_err _

theorem storeOperand_np {s : St H} (v : VCell) (hl : ops.isLambda s.heap s.ipL = true) :
    Outcome.NoPanic (storeOperand ops s v) := by
  unfold storeOperand
  refine pin_bind (readOperand_np hl) (fun a _ => ?_)
  obtain ⟨opnd, s1⟩ := a
  simp only
  split
  · exact pin_ok _
  · exact pin_ok _
  · exact pin_bind (setOffset_np _ _ _) (fun _ _ => pin_ok _)
  · exact pin_ok _
  · split
    · exact pin_err _
    · split
      · exact pin_err _
      · exact pin_ok _
    · split
      · exact pin_err _
      · exact pin_ok _
  · exact pin_err _

/-! ## the laws the stack invariant cannot see -/

/-- facts about heap objects and heap-side operations (hypotheses, like `CodeLaws`):
    * `isLambda_code` — a cell that holds verified code is a lambda (`%ip` always designates one);
    * `vararg_info` — a lambda whose code contains VARARG has a formal list of length ≥ 1 (the rest
      parameter: `compile_lambda` emits VARARG exactly for those);
    * the remaining fields: the heap-side operations of `run_one` do not panic (for the generic
      builtins this is T06.2; for `eval` it is the compiler's totality). -/
structure PanicLaws (cl : CodeLaws ops) : Prop where
  isLambda_code : ∀ {h : H} {l : Nat} {bc : List VCell}, cl.HInv h → cl.code h l = some bc → ops.isLambda h l = true
  vararg_info : ∀ {h : H} {l : Nat} {bc : List VCell} {o : Nat}, cl.HInv h → cl.code h l = some bc →
    bc[o]? = some (.opcode .varArg) → ∃ info, ops.lambdaInfo h l = some info ∧ 1 ≤ info.argc
  makeClosure_np : ∀ {h : H} (lam ep bp : Nat) (st : Stack), cl.HInv h → Outcome.NoPanic (ops.makeClosure h lam ep bp st)
  makeActivation_np : ∀ {h : H} (lam env bp : Nat) (st : Stack), cl.HInv h →
    Outcome.NoPanic (ops.makeActivation h lam env bp st)
  vectorPush_np : ∀ {h : H} (vec v : VCell), cl.HInv h → Outcome.NoPanic (ops.vectorPush h vec v)
  builtinEval_np : ∀ {h : H} (id : Nat) (args : List VCell), cl.HInv h → Outcome.NoPanic (ops.builtinEval h id args)
  compileEval_np : ∀ {h : H} (v : VCell), cl.HInv h → Outcome.NoPanic (ops.compileEval h v)

/-- the two panic sites of `step` that remain -/
def Residual (m : String) : Prop :=
  m = "restore_continuation: split_at_mut out of range" ∨ m = "apply: list longer than fuel (cyclic list)"

/-! ## builtins and continuations -/

theorem invokeCont_pin (s : St H) (c : Cont) : Outcome.PanicsIn Residual (invokeCont s c) := by
  unfold invokeCont
  refine pin_bind (pop_np _).to (fun a _ => ?_)
  obtain ⟨a, st⟩ := a
  refine pin_bind (asArgc_np _).to (fun n _ => ?_)
  split
  · exact pin_err _
  · refine pin_bind (pop_np _).to (fun r _ => ?_)
    obtain ⟨result, st2⟩ := r
    refine pin_bind ?_ (fun s2 _ => pin_ok _)
    unfold restoreCont
    refine pin_bind ?_ (fun st3 _ => pin_ok _)
    intro m h
    unfold Stack.restore at h
    split at h
    · cases h
    · cases h; exact .inl rfl

theorem shift_np : ∀ (k : Nat) (st : Stack), Outcome.NoPanic (builtinApply.shift k st)
  | 0, st => pin_ok _
  | k+1, st => by
    unfold builtinApply.shift
    refine pin_bind (getOffset_np _ _) (fun v _ => ?_)
    refine pin_bind (setOffset_np _ _ _) (fun st2 _ => ?_)
    exact shift_np k st2

theorem pushList_pin (s : St H) : ∀ (fuel : Nat) (rest : VCell) (n : Nat) (st : Stack),
    Outcome.PanicsIn Residual (builtinApply.pushList ops s fuel rest n st)
  | 0, rest, n, st => by
    intro m h
    unfold builtinApply.pushList at h
    cases h; exact .inr rfl
  | fuel+1, rest, n, st => by
    unfold builtinApply.pushList
    split
    · exact pushList_pin s fuel _ _ _
    · exact pin_ok _
    · exact pin_err _

theorem builtinApply_pin (s : St H) (hip : 1 ≤ s.ipO) : Outcome.PanicsIn Residual (builtinApply ops s) := by
  unfold builtinApply
  refine pin_bind (pop_np _).to (fun a _ => ?_)
  obtain ⟨a, st⟩ := a
  refine pin_bind (asArgc_np _).to (fun argc _ => ?_)
  split
  · exact pin_err _
  · refine pin_bind (pop_np _).to (fun r _ => ?_)
    obtain ⟨top, st2⟩ := r
    simp only
    split
    all_goals simp only [Bool.not_true, Bool.not_false, Bool.false_eq_true, ↓reduceIte]
    all_goals first
      | exact pin_err _
      | (refine pin_bind (getOffset_np _ _).to (fun proc _ => ?_)
         refine pin_bind (shift_np _ _).to (fun st3 _ => ?_)
         refine pin_bind (pop_np _).to (fun r2 _ => ?_)
         obtain ⟨_, st4⟩ := r2
         refine pin_bind (pushList_pin s _ _ _ _) (fun r3 _ => ?_)
         obtain ⟨n, st5⟩ := r3
         simp only [usub_of_le _ hip, outcome_bind_ok]
         exact pin_ok _)

theorem builtinCallcc_np (s : St H) (hip : 1 ≤ s.ipO) (hcap : s.stack.sp < s.stack.cells.length) :
    Outcome.NoPanic (builtinCallcc ops s) := by
  unfold builtinCallcc
  cases hp1 : s.stack.pop with
  | ok r1 =>
    obtain ⟨a, st⟩ := r1
    obtain ⟨p1, p2, _⟩ := pop_ok hp1
    simp only [outcome_bind_ok]
    refine pin_bind (asArgc_np _) (fun argc _ => ?_)
    split
    · exact pin_err _
    · cases hp2 : st.pop with
      | ok r2 =>
        obtain ⟨proc, st2⟩ := r2
        obtain ⟨q1, q2, _⟩ := pop_ok hp2
        simp only [outcome_bind_ok]
        split
        · exact pin_err _
        · have hc : st2.capture = .ok { cells := st2.cells.take (st2.sp + 1), sp := st2.sp } := by
            unfold Stack.capture
            have : st2.sp + 1 ≤ st2.cells.length := by rw [q2, p2]; omega
            simp [this]
          simp only [hc, outcome_bind_ok, usub_of_le _ hip]
          exact pin_ok _
      | err e => exact pin_err _
      | panic m => exact absurd rfl (fun h => pop_np st m (hp2.trans h))
  | err e => exact pin_err _
  | panic m => exact absurd rfl (fun h => pop_np s.stack m (hp1.trans h))

theorem builtinEvalProc_np {cl : CodeLaws ops} (pl : PanicLaws cl) (s : St H) (hi : cl.HInv s.heap)
    (hip : 1 ≤ s.ipO) : Outcome.NoPanic (builtinEvalProc ops s) := by
  unfold builtinEvalProc
  refine pin_bind (pop_np _) (fun a _ => ?_)
  obtain ⟨a, st⟩ := a
  refine pin_bind (asArgc_np _) (fun argc _ => ?_)
  split
  · exact pin_err _
  · refine pin_bind (pop_np _) (fun r _ => ?_)
    obtain ⟨e, st2⟩ := r
    refine pin_bind (pl.compileEval_np _ hi) (fun r2 _ => ?_)
    obtain ⟨h, lam⟩ := r2
    simp only [usub_of_le _ hip, outcome_bind_ok]
    exact pin_ok _

theorem builtinGeneric_np {cl : CodeLaws ops} (pl : PanicLaws cl) (id : Nat) (s : St H) (hi : cl.HInv s.heap) :
    Outcome.NoPanic (builtinGeneric ops id s) := by
  unfold builtinGeneric
  refine pin_bind (pop_np _) (fun a _ => ?_)
  obtain ⟨a, st⟩ := a
  refine pin_bind (asArgc_np _) (fun argc _ => ?_)
  refine pin_bind (popN_np _ _) (fun r _ => ?_)
  obtain ⟨args, st2⟩ := r
  refine pin_bind (pl.builtinEval_np _ _ hi) (fun r2 _ => ?_)
  exact pin_ok _

theorem runBuiltin_pin {cl : CodeLaws ops} (pl : PanicLaws cl) (id : Nat) (s : St H) (hi : cl.HInv s.heap)
    (hip : 1 ≤ s.ipO) (hcap : s.stack.sp < s.stack.cells.length) :
    Outcome.PanicsIn Residual (runBuiltin ops id s) := by
  have hjp : ∀ r : St H × VCell, Outcome.PanicsIn Residual
      (match r with
      | (s, v) =>
        match v with
        | VCell.ptr p => (Outcome.ok { s with acc := .ptr p } : Outcome (St H))
        | v => match ops.maybePut s.heap v with
          | (h, r) => Outcome.ok { s with heap := h, acc := r }) := by
    intro r
    obtain ⟨s2, v⟩ := r
    simp only
    split <;> exact pin_ok _
  unfold runBuiltin
  dsimp only
  split
  · exact pin_bind (builtinApply_pin s hip) (fun r _ => hjp r)
  · exact pin_bind (builtinCallcc_np s hip hcap).to (fun r _ => hjp r)
  · exact pin_bind (builtinEvalProc_np pl s hi hip).to (fun r _ => hjp r)
  · exact pin_bind (builtinGeneric_np pl id s hi).to (fun r _ => hjp r)

/-! ## CALL, TCALL, ENTER, RET, VARARG -/

theorem stepCall_pin {cl : CodeLaws ops} (pl : PanicLaws cl) (s : St H) (hi : cl.HInv s.heap)
    (hip : 1 ≤ s.ipO) (hcap : s.stack.sp < s.stack.cells.length) :
    Outcome.PanicsIn Residual (stepCall ops s) := by
  unfold stepCall
  split
  · exact runBuiltin_pin pl _ s hi hip hcap
  · exact invokeCont_pin s _
  · exact pin_err _
  · exact pin_ok _
  · exact pin_bind (asPtr_np _).to (fun _ _ => pin_ok _)

theorem tcallCopySame_np : ∀ (k it bp : Nat) (st : Stack), it + k ≤ bp + 1 →
    Outcome.NoPanic (tcallCopySame k it bp st)
  | 0, _, _, _, _ => pin_ok _
  | k+1, it, bp, st, h => by
    unfold tcallCopySame
    refine pin_bind (getOffset_np _ _) (fun v _ => ?_)
    rw [usub_of_le _ (show it ≤ bp by omega)]
    simp only [outcome_bind_ok]
    refine pin_bind (set_np _ _ _) (fun st2 _ => ?_)
    exact tcallCopySame_np k (it + 1) bp st2 (by omega)

theorem tcallCopyDiff_np : ∀ (it savedSp : Nat) (st : Stack), it ≤ savedSp →
    Outcome.NoPanic (tcallCopyDiff it savedSp st)
  | 0, _, _, _ => pin_ok _
  | it+1, savedSp, st, h => by
    unfold tcallCopyDiff
    rw [usub_of_le _ h]
    simp only [outcome_bind_ok]
    refine pin_bind (get_np _ _) (fun v _ => ?_)
    exact tcallCopyDiff_np it savedSp _ (by omega)

/-- the procedure arm of TCALL in a complete frame whose temporaries end in an argument block -/
theorem tcallTail_np (s : St H) (lam : Nat) {n m : Nat} (hcap : s.stack.sp < s.stack.cells.length)
    (hA : s.stack.cellAt (s.bp + 1) = .argc n) (hn : n ≤ s.bp) (hm : s.stack.cellAt s.stack.sp = .argc m)
    (hle : s.bp + 4 + m + 1 ≤ s.stack.sp) : Outcome.NoPanic (tcallTail s lam) := by
  have h0 : s.stack.getOffset 0 = .ok (.argc m) := by
    unfold Stack.getOffset
    simp [get_of_lt _ _ hcap, hm]
  have h1 : s.stack.get (s.bp + 1) = .ok (.argc n) := by
    rw [get_of_lt _ _ (by omega), hA]
  unfold tcallTail
  simp only [h0, h1, outcome_bind_ok, asArgc]
  split
  · rename_i hmn
    refine pin_bind (get_np _ _) (fun savedBp _ => ?_)
    refine pin_bind (tcallCopySame_np m 0 s.bp s.stack (by omega)) (fun st _ => ?_)
    exact pin_bind (asBp_np _) (fun _ _ => pin_ok _)
  · refine pin_bind (get_np _ _) (fun savedEp _ => ?_)
    refine pin_bind (get_np _ _) (fun savedIp _ => ?_)
    refine pin_bind (get_np _ _) (fun savedBp _ => ?_)
    rw [usub_of_le _ hn]
    simp only [outcome_bind_ok]
    refine pin_bind (tcallCopyDiff_np m s.stack.sp _ (by omega)) (fun st _ => ?_)
    exact pin_bind (asBp_np _) (fun _ _ => pin_ok _)

theorem stepTCall_pin {cl : CodeLaws ops} (pl : PanicLaws cl) (s : St H) (hi : cl.HInv s.heap)
    (hip : 1 ≤ s.ipO) {n m : Nat} (hcap : s.stack.sp < s.stack.cells.length)
    (hA : s.stack.cellAt (s.bp + 1) = .argc n) (hn : n ≤ s.bp) (hm : s.stack.cellAt s.stack.sp = .argc m)
    (hle : s.bp + 4 + m + 1 ≤ s.stack.sp) : Outcome.PanicsIn Residual (stepTCall ops s) := by
  cases hc : ops.callee s.heap s.acc with
  | builtin id => unfold stepTCall; rw [hc]; exact runBuiltin_pin pl _ s hi hip hcap
  | continuation c => unfold stepTCall; rw [hc]; exact invokeCont_pin s _
  | other => unfold stepTCall; rw [hc]; exact pin_err _
  | closure lam env =>
    rw [stepTCall_closure hc]
    exact (tcallTail_np s lam hcap hA hn hm hle).to
  | lambda =>
    rw [stepTCall_lambda hc]
    exact pin_bind (asPtr_np _).to (fun lam _ => (tcallTail_np s lam hcap hA hn hm hle).to)

theorem stepEnter_np {cl : CodeLaws ops} (pl : PanicLaws cl) (s : St H) (hi : cl.HInv s.heap)
    (hsp : 3 ≤ s.stack.sp) : Outcome.NoPanic (stepEnter ops s) := by
  have hu : usub (s.stack.push (.basePtr s.bp)).sp 4 "enter: sp - 4" = .ok ((s.stack.push (.basePtr s.bp)).sp - 4) :=
    usub_of_le _ (by rw [push_sp]; omega)
  unfold stepEnter
  dsimp only
  split
  · simp only [outcome_bind_ok]
    split
    · exact pin_err _
    · refine pin_bind (getOffset_np _ _) (fun a _ => ?_)
      refine pin_bind (asArgc_np _) (fun n _ => ?_)
      split
      · exact pin_err _
      · simp only [hu, outcome_bind_ok]
        refine pin_bind (pl.makeActivation_np _ _ _ _ hi) (fun r _ => ?_)
        exact pin_ok _
  · refine pin_bind (asPtr_np _) (fun p _ => ?_)
    simp only [outcome_bind_ok]
    split
    · exact pin_err _
    · refine pin_bind (getOffset_np _ _) (fun a _ => ?_)
      refine pin_bind (asArgc_np _) (fun n _ => ?_)
      split
      · exact pin_err _
      · simp only [hu, outcome_bind_ok]
        exact pin_ok _
  · simp only [outcome_bind_err]
    exact pin_err _

theorem stepRet_np (s : St H) {n : Nat} (hlen : s.bp + 1 < s.stack.cells.length)
    (hA : s.stack.cellAt (s.bp + 1) = .argc n) (hn : n ≤ s.bp) : Outcome.NoPanic (stepRet s) := by
  have h1 : s.stack.get (s.bp + 1) = .ok (.argc n) := by rw [get_of_lt _ _ hlen, hA]
  unfold stepRet
  simp only [h1, outcome_bind_ok, asArgc, usub_of_le _ hn]
  refine pin_bind (pin_bind (get_np _ _) (fun _ _ => asEp_np _)) (fun ep _ => ?_)
  refine pin_bind (pin_bind (get_np _ _) (fun _ _ => asIp_np _)) (fun lo _ => ?_)
  obtain ⟨l, o⟩ := lo
  refine pin_bind (pin_bind (get_np _ _) (fun _ _ => asBp_np _)) (fun bp _ => ?_)
  exact pin_ok _

theorem varargCollect_np : ∀ (k : Nat) (h : H) (acc : Nat) (st : Stack),
    Outcome.NoPanic (varargCollect ops k h acc st)
  | 0, _, _, _ => pin_ok _
  | k+1, h, acc, st => by
    unfold varargCollect
    refine pin_bind (pop_np _) (fun a _ => ?_)
    obtain ⟨v, st2⟩ := a
    try dsimp only
    refine pin_bind (asPtr_np _) (fun a2 _ => ?_)
    try dsimp only
    refine pin_bind (asPtr_np _) (fun p _ => ?_)
    exact varargCollect_np k _ _ _

theorem stepVarArg_np (s : St H) {info : LambdaInfo} (hinfo : ops.lambdaInfo s.heap s.ipL = some info)
    (hargc : 1 ≤ info.argc) : Outcome.NoPanic (stepVarArg ops s) := by
  unfold stepVarArg
  rw [hinfo]
  simp only [usub_of_le _ hargc, outcome_bind_ok]
  refine pin_bind (pin_bind (getOffset_np _ _) (fun _ _ => asArgc_np _)) (fun argc _ => ?_)
  split
  · exact pin_err _
  · split
    · refine pin_bind (getOffset_np _ _) (fun v _ => ?_)
      try dsimp only
      refine pin_bind (asPtr_np _) (fun a _ => ?_)
      refine pin_bind (asPtr_np _) (fun n _ => ?_)
      try dsimp only
      refine pin_bind (setOffset_np _ _ _) (fun st _ => ?_)
      exact pin_ok _
    · refine pin_bind (pop_np _) (fun r1 _ => ?_)
      obtain ⟨c1, st1⟩ := r1
      refine pin_bind (pop_np _) (fun r2 _ => ?_)
      obtain ⟨c2, st2⟩ := r2
      refine pin_bind (pop_np _) (fun r3 _ => ?_)
      obtain ⟨_, st3⟩ := r3
      try dsimp only
      refine pin_bind (asPtr_np _) (fun n _ => ?_)
      refine pin_bind (varargCollect_np _ _ _ _) (fun r4 _ => ?_)
      exact pin_ok _

/-! ## the main theorem -/

/-- **T06.6.** In a WF state, under the heap-side laws, the only panics `step` (`run_one`) can raise are
    the two `Residual` sites; all `usub`s, the `to_continuation` slice and the `%ip is not a
    procedure` expectations are unreachable. -/
theorem step_pin {cl : CodeLaws ops} (pl : PanicLaws cl) {s : St H} {K : List FDesc} (hw : WFS cl s K) :
    Outcome.PanicsIn Residual (step ops s) := by
  obtain ⟨t0, st0, ht0, _⟩ := hw.wf.frames.has_ty
  have hcode := (tyOf_spec ht0).1
  have hl : ops.isLambda s.heap s.ipL = true := pl.isLambda_code hw.inv hcode
  unfold step
  refine pin_bind (readOpcode_np hl).to (fun a hr => ?_)
  obtain ⟨op, s1⟩ := a
  obtain ⟨t, st, ai, hs1⟩ := hw.instr hr
  subst hs1
  have hl1 : ops.isLambda ({ s with ipO := s.ipO + 1 } : St H).heap ({ s with ipO := s.ipO + 1 } : St H).ipL = true := hl
  have hcap := hw.wf.cap
  cases op <;> dsimp only
  case jmp =>
    refine pin_bind (readOperand_np hl1).to (fun a _ => ?_)
    exact pin_bind (asPtr_np _).to (fun _ _ => pin_ok _)
  case jnt =>
    refine pin_bind (readOperand_np hl1).to (fun a _ => ?_)
    refine pin_bind (asPtr_np _).to (fun _ _ => ?_)
    split <;> exact pin_ok _
  case mov =>
    refine pin_bind (loadOperand_np hl1).to (fun a ha => ?_)
    have e2 := loadOperand_ok (v := a.1) (s1 := a.2) ha
    exact pin_bind (storeOperand_np (s := a.2) a.1 (by rw [e2]; exact hl)).to (fun _ _ => pin_ok _)
  case movImm =>
    refine pin_bind (readOperand_np hl1).to (fun a ha => ?_)
    have e2 := (readOperand_ok (v := a.1) (s1 := a.2) ha).2
    exact pin_bind (storeOperand_np (s := a.2) a.1 (by rw [e2]; exact hl)).to (fun _ _ => pin_ok _)
  case push => exact pin_bind (loadOperand_np hl1).to (fun _ _ => pin_ok _)
  case pushImm => exact pin_bind (readOperand_np hl1).to (fun _ _ => pin_ok _)
  case pushAcc => exact pin_ok _
  case halt => exact pin_ok _
  case cons =>
    refine pin_bind (pop_np _).to (fun a _ => ?_)
    obtain ⟨d, st1⟩ := a
    dsimp only
    refine pin_bind (pop_np _).to (fun a2 _ => ?_)
    obtain ⟨a', st2⟩ := a2
    dsimp only
    refine pin_bind (asPtr_np _).to (fun _ _ => ?_)
    refine pin_bind (asPtr_np _).to (fun _ _ => ?_)
    exact pin_ok _
  case vpushAcc =>
    refine pin_bind (pop_np _).to (fun a _ => ?_)
    obtain ⟨v, st1⟩ := a
    dsimp only
    exact pin_bind (pl.vectorPush_np _ _ hw.inv).to (fun _ _ => pin_ok _)
  case closureAcc =>
    refine pin_bind (asPtr_np _).to (fun lam _ => ?_)
    exact pin_bind (pl.makeClosure_np _ _ _ _ hw.inv).to (fun _ _ => pin_ok _)
  case callAcc =>
    exact pin_bind (stepCall_pin pl ({ s with ipO := s.ipO + 1 } : St H) hw.inv (Nat.le_add_left 1 s.ipO) hcap)
      (fun _ _ => pin_ok _)
  case tcallAcc =>
    have chk := ai.chk
    cases st <;> simp only [checkOp, Bool.and_eq_true] at chk <;> try (exact absurd chk Bool.false_ne_true)
    have hent : t.entry = false := by simpa using chk.1
    obtain ⟨n, ep', l', o', bp', K', hm, hA, _, _, _, hn, _, _⟩ :=
      hw.wf.frames.inv_frame ai.ht hent ai.hst (by simp)
    obtain ⟨m, hm1, hm2, _⟩ := hm
    exact pin_bind (stepTCall_pin pl ({ s with ipO := s.ipO + 1 } : St H) hw.inv (Nat.le_add_left 1 s.ipO) hcap
      hA hn hm1 (show s.bp + 4 + m + 1 ≤ s.stack.sp by omega)) (fun _ _ => pin_ok _)
  case enter =>
    have chk := ai.chk
    cases st <;> simp only [checkOp] at chk <;> try (exact absurd chk Bool.false_ne_true)
    obtain ⟨_, n, ep', l', o', K', hn, _⟩ := hw.wf.frames.inv_pre ai.ht ai.hst
    exact pin_bind (stepEnter_np pl ({ s with ipO := s.ipO + 1 } : St H) hw.inv
      (show 3 ≤ s.stack.sp by omega)).to (fun _ _ => pin_ok _)
  case ret =>
    have chk := ai.chk
    cases st <;> simp only [checkOp] at chk <;> try (exact absurd chk Bool.false_ne_true)
    have hent : t.entry = false := by simpa using chk
    obtain ⟨n, ep', l', o', bp', K', hm, hA, _, _, _, hn, _, _⟩ :=
      hw.wf.frames.inv_frame ai.ht hent ai.hst (by simp)
    have hlo := hm.lo_le
    exact pin_bind (stepRet_np ({ s with ipO := s.ipO + 1 } : St H)
      (show s.bp + 1 < s.stack.cells.length by omega) hA hn).to (fun _ _ => pin_ok _)
  case varArg =>
    have hf := (readOpcode_ok hr).1
    rw [ai.fetch] at hf
    obtain ⟨info, hinfo, hargc⟩ := pl.vararg_info hw.inv (tyOf_spec ai.ht).1 hf
    exact pin_bind (stepVarArg_np ({ s with ipO := s.ipO + 1 } : St H) hinfo hargc).to (fun _ _ => pin_ok _)

/-- with the two residual sites excluded by hypothesis — the continuation `acc` may hold fits the
    current stack, and `apply` is not handed a list of 100000 or more elements — `step` does not panic -/
theorem step_noPanic {cl : CodeLaws ops} (pl : PanicLaws cl) {s : St H} {K : List FDesc} (hw : WFS cl s K)
    (hres : ∀ m, Residual m → step ops s ≠ .panic m) : Outcome.NoPanic (step ops s) :=
  fun m h => hres m (step_pin pl hw m h) h

end Marwood.Vm

/-! ## the laws are satisfiable: the toy instance of `Lemmas/StackWFToy.lean` -/
namespace Marwood.Vm.Toy
open Marwood.Vm Verify

theorem no_vararg : ∀ l bc, code l = some bc → VCell.opcode .varArg ∉ bc := by
  intro l bc h
  unfold code at h
  repeat' split at h
  all_goals first | (cases h; decide) | cases h

def panicLaws : PanicLaws laws where
  isLambda_code := by
    intro h l bc _ hc
    show (code l).isSome = true
    have : code l = some bc := hc
    rw [this]; rfl
  vararg_info := by
    intro h l bc o _ hc ho
    exact absurd (List.mem_of_getElem? ho) (no_vararg l bc hc)
  makeClosure_np := fun _ _ _ _ _ => pin_err _
  makeActivation_np := fun _ _ _ _ _ => pin_ok _
  vectorPush_np := fun _ _ _ => pin_err _
  builtinEval_np := fun _ _ _ => pin_err _
  compileEval_np := fun _ _ => pin_err _

/-- every state the toy machine reaches from a WF start can only panic at a residual site -/
theorem runK_pin (k : Nat) (s s' : St Unit) (K : List FDesc) (hw : WFS laws s K) (h : runK k s = some s') :
    Outcome.PanicsIn Residual (step ops s') := by
  obtain ⟨K', hw'⟩ := runK_wf k s s' K hw h
  exact step_pin panicLaws hw'

end Marwood.Vm.Toy
