import Marwood.Lemmas.TransformSpec
import Marwood.Lemmas.TransformMatchPlain
/-!
# The matcher on patterns with ellipses: its verdict is R7RS's verdict

Classes 2–4 of T17.1 (trailing ellipsis; ellipsis followed by a fixed tail — the
`pattern_iter.len() == expr_iter.len() + 2` hand-off; sub-patterns under an ellipsis), for the
*verdict* of `pattern_match`: on every pattern whose lists are proper, vector-free, do not start
with the ellipsis and contain it at most once (what `try_new` accepts), and on every form,

* if the matcher answers `true`, R7RS matches;
* if the matcher answers `false`, R7RS does not match — or the use is in the excluded class
  `zeroRepTail` (an ellipsis with a fixed tail that gets no item).
-/
namespace Marwood.Transform
open Marwood Marwood.Spec.Match

mutual
/-- a well-formed pattern element -/
def okP (es : Text) : Datum → Bool
  | .sym s => s != es
  | .pair a d => okP es a && okS es true d
  | .vec _ => false
  | _ => true
/-- the rest of a list pattern; `allow` = an ellipsis may still come -/
def okS (es : Text) : Bool → Datum → Bool
  | _, .nil => true
  | allow, .pair q rest =>
    if q = .sym es then allow && okS es false rest else okP es q && okS es allow rest
  | _, _ => false
end

/-- the `match pattern { … }` at the end of the matcher's loop body, with the rest of the loop as a
    continuation -/
def elemStep (ell : Datum) (lits : List Datum) (f : Nat) (cur e : Datum) (env : Bindings)
    (k : Bindings → Res (Bool × Bindings)) : Res (Bool × Bindings) :=
  match cur with
  | .sym _ =>
    if lits.any (fun it => cellEq it cur) then
      if !cellEq cur e then .ok (false, env) else k env
    else if !cellEq cur underscore then k (env ++ [(cur, e)])
    else k env
  | .pair _ _ =>
    match patternMatch ell lits f cur e env with
    | .ok (true, env) => k env
    | .ok (false, env) => .ok (false, env)
    | .err x => .err x
    | .panic s => .panic s
    | .fuel => .fuel
  | _ => if !cellEq cur e then .ok (false, env) else k env

/-- selection of the next pattern in the matcher's loop (`Sum.inl b` = early return) -/
def selNext (cur : Datum) (inEll : Bool) (pats exprs : List Datum) : Sum Bool (Datum × List Datum) :=
  if inEll then
    if pats.length == exprs.length + 2 then
      match pats.tail with
      | p :: pats' => .inr (p, pats')
      | [] => .inl exprs.isEmpty
    else .inr (cur, pats)
  else
    match pats with
    | p :: pats' => .inr (p, pats')
    | [] => .inl false

theorem matchLoop_cons (ell : Datum) (lits : List Datum) (f : Nat) (e : Datum) (exprs pats : List Datum)
    (cur : Datum) (inEll : Bool) (env : Bindings) :
    matchLoop ell lits (f + 1) (e :: exprs) pats cur inEll env =
      (match selNext cur inEll pats exprs with
       | .inl b => .ok (b, env)
       | .inr (cur', pats') =>
         elemStep ell lits f cur' e env
           (fun env' => matchLoop ell lits f exprs pats' cur' (peekIs ell pats') env')) := by
  have key : ∀ (c : Datum) (ps : List Datum),
      (match c with
        | .sym _ =>
          if lits.any (fun it => cellEq it c) then
            if !cellEq c e then Res.ok (false, env)
            else matchLoop ell lits f exprs ps c (peekIs ell ps) env
          else if !cellEq c underscore then
            matchLoop ell lits f exprs ps c (peekIs ell ps) (env ++ [(c, e)])
          else matchLoop ell lits f exprs ps c (peekIs ell ps) env
        | .pair _ _ =>
          match patternMatch ell lits f c e env with
          | .ok (true, env) => matchLoop ell lits f exprs ps c (peekIs ell ps) env
          | .ok (false, env) => .ok (false, env)
          | .err x => .err x
          | .panic s => .panic s
          | .fuel => .fuel
        | _ =>
          if !cellEq c e then .ok (false, env)
          else matchLoop ell lits f exprs ps c (peekIs ell ps) env) =
      elemStep ell lits f c e env (fun env' => matchLoop ell lits f exprs ps c (peekIs ell ps) env') := by
    intro c ps; cases c <;> rfl
  conv => lhs; unfold matchLoop
  unfold selNext
  cases inEll with
  | false =>
    cases pats with
    | nil => rfl
    | cons p pats' => simp only [Bool.false_eq_true, if_false]; exact key p pats'
  | true =>
    simp only [if_true]
    by_cases h : (pats.length == exprs.length + 2) = true
    · simp only [h, if_true]
      cases pats.tail with
      | nil => rfl
      | cons p pats' => exact key p pats'
    · simp only [h, if_false]
      exact key cur pats

end Marwood.Transform

namespace Marwood.Transform
open Marwood Marwood.Spec.Match

theorem matchLoop_nil (ell : Datum) (lits : List Datum) (f : Nat) (pats : List Datum)
    (cur : Datum) (inEll : Bool) (env : Bindings) :
    matchLoop ell lits (f + 1) [] pats cur inEll env =
      (match (if inEll then pats.tail else pats) with
       | [] => .ok (true, env)
       | _ :: pats' => if peekIs ell pats' then .ok (pats'.tail.isEmpty, env) else .ok (false, env)) := by
  conv => lhs; unfold matchLoop
  rfl

/-! ### the spec on lists -/

/-- R7RS's verdict -/
def sm (c : Ctx) (P E : Datum) : Bool := (specMatch c P E).isSome
/-- the excluded class -/
abbrev gp (c : Ctx) (P E : Datum) : Bool := zeroRepTail c P E

theorem spineLen_ofList (xs : List Datum) : spineLen (Datum.ofList xs) = xs.length := by
  induction xs with
  | nil => rfl
  | cons x xs ih => simp [Datum.ofList, spineLen, ih]

theorem takeSpine_ofList : ∀ (k : Nat) (xs : List Datum), takeSpine k (Datum.ofList xs) = xs.take k := by
  intro k
  induction k with
  | zero => intro xs; cases xs <;> simp [takeSpine, Datum.ofList]
  | succ k ih =>
    intro xs
    cases xs with
    | nil => simp [takeSpine, Datum.ofList]
    | cons x xs => simp [takeSpine, Datum.ofList, ih]

theorem dropSpine_ofList : ∀ (k : Nat) (xs : List Datum),
    dropSpine k (Datum.ofList xs) = Datum.ofList (xs.drop k) := by
  intro k
  induction k with
  | zero => intro xs; cases xs <;> simp [dropSpine, Datum.ofList]
  | succ k ih =>
    intro xs
    cases xs with
    | nil => simp [dropSpine, Datum.ofList]
    | cons x xs => simp [dropSpine, Datum.ofList, ih]

theorem mapM_isSome {α β : Type} (g : α → Option β) : ∀ (xs : List α),
    (xs.mapM g).isSome = xs.all (fun x => (g x).isSome) := by
  intro xs
  induction xs with
  | nil => simp
  | cons x xs ih =>
    simp only [List.mapM_cons, List.all_cons]
    cases hx : g x with
    | none => simp
    | some y =>
      cases hxs : xs.mapM g with
      | none => rw [hxs] at ih; simp [← ih]
      | some ys => rw [hxs] at ih; simp [← ih]

theorem sm_nil (c : Ctx) (E : Datum) : sm c .nil E = decide (E = .nil) := by
  simp only [sm, specMatch_nil]
  split <;> simp_all

theorem gp_nil (c : Ctx) (E : Datum) : gp c .nil E = false := by
  simp [gp, zeroRepTail]

theorem sm_cons (c : Ctx) (p rest E : Datum) (h : headNotEll c rest = true) :
    sm c (.pair p rest) E =
      (match E with
       | .pair e1 er => sm c p e1 && sm c rest er
       | _ => false) := by
  simp only [sm, specMatch_pair _ _ _ _ h]
  cases E <;> simp [consMatch]
  rename_i e1 er
  cases specMatch c p e1 <;> simp
  cases specMatch c rest er <;> simp

theorem gp_cons (c : Ctx) (p rest E : Datum) (h : headNotEll c rest = true) :
    gp c (.pair p rest) E =
      (match E with
       | .pair e1 er => gp c p e1 || gp c rest er
       | _ => false) := by
  cases rest with
  | pair q r =>
    simp only [headNotEll, Bool.not_eq_true'] at h
    simp only [gp]
    conv => lhs; unfold zeroRepTail
    simp only [h, Bool.false_eq_true, if_false]
    cases E <;> rfl
  | _ => simp only [gp]; (conv => lhs; unfold zeroRepTail); cases E <;> rfl

theorem specMatch_ell_eq (c : Ctx) (p q R E : Datum) (hq : c.isEllD q = true) :
    specMatch c (.pair p (.pair q R)) E =
      (if spineLen E < spineLen R then none
       else
        match (takeSpine (spineLen E - spineLen R) E).mapM (fun x => specMatch c p x) with
        | none => none
        | some bs =>
          match specMatch c R (dropSpine (spineLen E - spineLen R) E) with
          | none => none
          | some tb => some (collect (patVars c p) bs ++ tb)) := by
  conv => lhs; unfold specMatch
  simp only [hq, if_true]
  rfl

theorem sm_ell (c : Ctx) (p q R E : Datum) (hq : c.isEllD q = true) :
    sm c (.pair p (.pair q R)) E =
      (decide (spineLen R ≤ spineLen E) &&
        (takeSpine (spineLen E - spineLen R) E).all (fun x => sm c p x) &&
        sm c R (dropSpine (spineLen E - spineLen R) E)) := by
  simp only [sm]
  rw [specMatch_ell_eq c p q R E hq]
  by_cases hlt : spineLen E < spineLen R
  · have : ¬ (spineLen R ≤ spineLen E) := by omega
    simp [hlt, this]
  · have hle : spineLen R ≤ spineLen E := by omega
    simp only [hlt, if_false, hle, decide_true, Bool.true_and]
    rw [← mapM_isSome]
    cases (takeSpine (spineLen E - spineLen R) E).mapM (fun x => specMatch c p x) with
    | none => simp
    | some bs =>
      cases specMatch c R (dropSpine (spineLen E - spineLen R) E) <;> simp

theorem gp_ell (c : Ctx) (p q R E : Datum) (hq : c.isEllD q = true) :
    gp c (.pair p (.pair q R)) E =
      (decide (spineLen R ≤ spineLen E) &&
        ((decide (1 ≤ spineLen R) && spineLen E == spineLen R) ||
         (takeSpine (spineLen E - spineLen R) E).any (fun x => gp c p x) ||
         gp c R (dropSpine (spineLen E - spineLen R) E))) := by
  simp only [gp]
  conv => lhs; unfold zeroRepTail
  simp only [hq, if_true]
  by_cases hlt : spineLen E < spineLen R
  · have : ¬ (spineLen R ≤ spineLen E) := by omega
    simp [hlt, this]
  · have hle : spineLen R ≤ spineLen E := by omega
    simp [hlt, hle]

end Marwood.Transform

namespace Marwood.Transform
open Marwood Marwood.Spec.Match

/-! ### verdict relations and their pure composition lemmas -/

def Verdict (c : Ctx) (P E : Datum) (b : Bool) : Prop :=
  (b = true → sm c P E = true) ∧ (b = false → sm c P E = false ∨ gp c P E = true)

/-- the in-ellipsis phase: `xs` are the items still to come, `p` the repeated pattern, `rest` the
    fixed tail -/
def InEllV (c : Ctx) (p : Datum) (rest xs : List Datum) (b : Bool) : Prop :=
  (b = true → rest.length ≤ xs.length ∧
      (xs.take (xs.length - rest.length)).all (fun x => sm c p x) = true ∧
      sm c (Datum.ofList rest) (Datum.ofList (xs.drop (xs.length - rest.length))) = true) ∧
  (b = false → xs.length < rest.length ∨
      (rest.length ≤ xs.length ∧
        (((xs.take (xs.length - rest.length)).all (fun x => sm c p x) &&
            sm c (Datum.ofList rest) (Datum.ofList (xs.drop (xs.length - rest.length)))) = false ∨
         ((xs.take (xs.length - rest.length)).any (fun x => gp c p x) ||
            gp c (Datum.ofList rest) (Datum.ofList (xs.drop (xs.length - rest.length)))) = true)))

section pure
variable (s : Setup)

theorem isEllD_ell : s.ctx.isEllD s.ell = true := by
  rw [s.isEllD_eq]; simp [Setup.ell]

theorem sm_whole (p : Datum) (rest xs : List Datum) :
    sm s.ctx (Datum.ofList (p :: s.ell :: rest)) (Datum.ofList xs) =
      (decide (rest.length ≤ xs.length) &&
        (xs.take (xs.length - rest.length)).all (fun x => sm s.ctx p x) &&
        sm s.ctx (Datum.ofList rest) (Datum.ofList (xs.drop (xs.length - rest.length)))) := by
  simp only [Datum.ofList]
  rw [sm_ell _ _ _ _ _ (isEllD_ell s)]
  rw [spineLen_ofList, spineLen_ofList, takeSpine_ofList, dropSpine_ofList]

theorem gp_whole (p : Datum) (rest xs : List Datum) :
    gp s.ctx (Datum.ofList (p :: s.ell :: rest)) (Datum.ofList xs) =
      (decide (rest.length ≤ xs.length) &&
        ((decide (1 ≤ rest.length) && xs.length == rest.length) ||
         (xs.take (xs.length - rest.length)).any (fun x => gp s.ctx p x) ||
         gp s.ctx (Datum.ofList rest) (Datum.ofList (xs.drop (xs.length - rest.length))))) := by
  simp only [Datum.ofList]
  rw [gp_ell _ _ _ _ _ (isEllD_ell s)]
  rw [spineLen_ofList, spineLen_ofList, takeSpine_ofList, dropSpine_ofList]

/-- entering the ellipsis: the first item was matched by `p`, the rest went through the
    in-ellipsis phase -/
theorem enter_verdict (p e : Datum) (rest xs : List Datum) (b : Bool)
    (he : sm s.ctx p e = true) (h : InEllV s.ctx p rest xs b) :
    Verdict s.ctx (Datum.ofList (p :: s.ell :: rest)) (Datum.ofList (e :: xs)) b := by
  constructor
  · intro hb
    obtain ⟨hle, hall, htl⟩ := h.1 hb
    rw [sm_whole]
    have e1 : (e :: xs).length - rest.length = (xs.length - rest.length) + 1 := by simp; omega
    rw [e1]
    simp only [List.take_succ_cons, List.drop_succ_cons, List.all_cons, he, hall, htl, List.length_cons]
    simp; omega
  · intro hb
    rcases h.2 hb with hlt | ⟨hle, hbad⟩
    · -- fewer items than the tail needs
      by_cases heq : xs.length + 1 = rest.length
      · right
        rw [gp_whole]
        simp [← heq]
      · left
        rw [sm_whole]
        have : ¬ (rest.length ≤ xs.length + 1) := by omega
        simp [this]
    · have e1 : (e :: xs).length - rest.length = (xs.length - rest.length) + 1 := by simp; omega
      rcases hbad with hbad | hbad
      · left
        rw [sm_whole, e1]
        simp only [List.take_succ_cons, List.drop_succ_cons, List.all_cons, he, Bool.true_and]
        rw [Bool.and_assoc, hbad]; simp
      · right
        rw [gp_whole, e1]
        simp only [List.take_succ_cons, List.drop_succ_cons, List.any_cons]
        have hle' : rest.length ≤ (e :: xs).length := by simp; omega
        simp only [hle', decide_true, Bool.true_and]
        simp only [Bool.or_eq_true] at hbad ⊢
        rcases hbad with hbad | hbad
        · left; right; right; exact hbad
        · right; exact hbad

/-- entering the ellipsis when the first item is not matched by `p` -/
theorem enter_verdict_fail (p e : Datum) (rest xs : List Datum)
    (he : sm s.ctx p e = false ∨ gp s.ctx p e = true) :
    Verdict s.ctx (Datum.ofList (p :: s.ell :: rest)) (Datum.ofList (e :: xs)) false := by
  refine ⟨by simp, fun _ => ?_⟩
  by_cases hle : rest.length ≤ xs.length
  · have e1 : (e :: xs).length - rest.length = (xs.length - rest.length) + 1 := by simp; omega
    rcases he with he | he
    · left; rw [sm_whole, e1]; simp [he]
    · right; rw [gp_whole, e1]
      have hle' : rest.length ≤ xs.length + 1 := by omega
      simp [he, hle']
  · by_cases heq : xs.length + 1 = rest.length
    · right; rw [gp_whole]; simp [← heq]
    · left; rw [sm_whole]
      have : ¬ (rest.length ≤ xs.length + 1) := by omega
      simp [this]

/-- one more repetition of `p` inside the ellipsis (no hand-off: the tail does not need exactly
    the items that are left) -/
theorem reuse_InEllV (p e : Datum) (rest xs : List Datum) (b : Bool)
    (hne : rest.length ≠ xs.length + 1)
    (he : sm s.ctx p e = true) (h : InEllV s.ctx p rest xs b) :
    InEllV s.ctx p rest (e :: xs) b := by
  constructor
  · intro hb
    obtain ⟨hle, hall, htl⟩ := h.1 hb
    have e1 : (e :: xs).length - rest.length = (xs.length - rest.length) + 1 := by simp; omega
    refine ⟨by simp; omega, ?_, ?_⟩
    · rw [e1]; simp [he, hall]
    · rw [e1]; simpa using htl
  · intro hb
    rcases h.2 hb with hlt | ⟨hle, hbad⟩
    · left; simp; omega
    · right
      have e1 : (e :: xs).length - rest.length = (xs.length - rest.length) + 1 := by simp; omega
      refine ⟨by simp; omega, ?_⟩
      rw [e1]
      simp only [List.take_succ_cons, List.drop_succ_cons, List.all_cons, List.any_cons, he, Bool.true_and]
      rcases hbad with hbad | hbad
      · left; exact hbad
      · right
        simp only [Bool.or_eq_true] at hbad ⊢
        rcases hbad with hbad | hbad
        · left; right; exact hbad
        · right; exact hbad

theorem reuse_InEllV_fail (p e : Datum) (rest xs : List Datum)
    (hne : rest.length ≠ xs.length + 1)
    (he : sm s.ctx p e = false ∨ gp s.ctx p e = true) :
    InEllV s.ctx p rest (e :: xs) false := by
  refine ⟨by simp, fun _ => ?_⟩
  by_cases hle : rest.length ≤ xs.length
  · right
    have e1 : (e :: xs).length - rest.length = (xs.length - rest.length) + 1 := by simp; omega
    refine ⟨by simp; omega, ?_⟩
    rw [e1]
    rcases he with he | he
    · left; simp [he]
    · right; simp [he]
  · left; simp; omega

/-- the hand-off: exactly as many items are left as the tail has patterns -/
theorem handoff_InEllV (p q e : Datum) (rest' xs : List Datum) (b : Bool)
    (hlen : rest'.length = xs.length)
    (hh : headNotEll s.ctx (Datum.ofList rest') = true)
    (he : sm s.ctx q e = true) (h : Verdict s.ctx (Datum.ofList rest') (Datum.ofList xs) b) :
    InEllV s.ctx p (q :: rest') (e :: xs) b := by
  have e0 : (e :: xs).length - (q :: rest').length = 0 := by simp [hlen]
  have hsm : sm s.ctx (Datum.ofList (q :: rest')) (Datum.ofList (e :: xs))
      = (sm s.ctx q e && sm s.ctx (Datum.ofList rest') (Datum.ofList xs)) := by
    simp only [Datum.ofList]; rw [sm_cons _ _ _ _ hh]
  have hgp : gp s.ctx (Datum.ofList (q :: rest')) (Datum.ofList (e :: xs))
      = (gp s.ctx q e || gp s.ctx (Datum.ofList rest') (Datum.ofList xs)) := by
    simp only [Datum.ofList]; rw [gp_cons _ _ _ _ hh]
  constructor
  · intro hb
    refine ⟨by simp [hlen], by rw [e0]; simp, ?_⟩
    rw [e0, List.drop_zero, hsm, he, h.1 hb]; rfl
  · intro hb
    right
    refine ⟨by simp [hlen], ?_⟩
    rw [e0]
    simp only [List.take_zero, List.all_nil, List.any_nil, List.drop_zero, Bool.true_and, Bool.false_or]
    rcases h.2 hb with h2 | h2
    · left; rw [hsm, h2]; simp
    · right; rw [hgp, h2]; simp

theorem handoff_InEllV_fail (p q e : Datum) (rest' xs : List Datum)
    (hlen : rest'.length = xs.length)
    (hh : headNotEll s.ctx (Datum.ofList rest') = true)
    (he : sm s.ctx q e = false ∨ gp s.ctx q e = true) :
    InEllV s.ctx p (q :: rest') (e :: xs) false := by
  have e0 : (e :: xs).length - (q :: rest').length = 0 := by simp [hlen]
  refine ⟨by simp, fun _ => Or.inr ⟨by simp [hlen], ?_⟩⟩
  rw [e0]
  simp only [List.take_zero, List.all_nil, List.any_nil, List.drop_zero, Bool.true_and, Bool.false_or]
  simp only [Datum.ofList]
  rw [sm_cons _ _ _ _ hh, gp_cons _ _ _ _ hh]
  rcases he with he | he
  · left; simp [he]
  · right; simp [he]

end pure

end Marwood.Transform

namespace Marwood.Transform
open Marwood Marwood.Spec.Match

theorem okP_ne_ell {es : Text} {q : Datum} (h : okP es q = true) : q ≠ .sym es := by
  intro hq; subst hq; simp [okP] at h

theorem okP_pair_spine {es : Text} {a d : Datum} (h : okP es (.pair a d) = true) :
    okS es true (.pair a d) = true := by
  simp only [okP, Bool.and_eq_true] at h
  simp only [okS, okP_ne_ell h.1, if_false, h.1, h.2, Bool.and_self]

theorem okS_endsInNil {es : Text} : ∀ {d : Datum} {allow : Bool}, okS es allow d = true → endsInNil d = true := by
  intro d
  induction d with
  | pair a d _ ihd =>
    intro allow h
    simp only [okS] at h
    simp only [endsInNil]
    split at h
    · simp only [Bool.and_eq_true] at h; exact ihd h.2
    · simp only [Bool.and_eq_true] at h; exact ihd h.2
  | nil => intro _ _; rfl
  | _ => intro allow h; simp [okS] at h

theorem okS_cons_ne {es : Text} {allow : Bool} {q : Datum} {rest : List Datum} (hq : q ≠ .sym es) :
    okS es allow (Datum.ofList (q :: rest)) = (okP es q && okS es allow (Datum.ofList rest)) := by
  simp [Datum.ofList, okS, hq]

theorem okS_cons_ell {es : Text} {allow : Bool} {rest : List Datum} :
    okS es allow (Datum.ofList (Datum.sym es :: rest)) = (allow && okS es false (Datum.ofList rest)) := by
  simp [Datum.ofList, okS]

theorem peekIs_ell_iff (s : Setup) (ps : List Datum) :
    peekIs s.ell ps = true ↔ ∃ rest, ps = s.ell :: rest := by
  cases ps with
  | nil => simp [peekIs]
  | cons q qs => simp [peekIs, Setup.ell]

theorem headNotEll_ofList (s : Setup) (ps : List Datum) :
    headNotEll s.ctx (Datum.ofList ps) = !peekIs s.ell ps := by
  cases ps with
  | nil => rfl
  | cons q qs => simp [Datum.ofList, headNotEll, s.isEllD_eq, peekIs]

/-- in a tail that may not contain the ellipsis any more nothing looks like one -/
theorem okS_false_peek (s : Setup) : ∀ (rest : List Datum), okS s.es false (Datum.ofList rest) = true →
    peekIs s.ell rest = false := by
  intro rest h
  cases rest with
  | nil => rfl
  | cons q qs =>
    by_cases hq : q = .sym s.es
    · subst hq; simp [okS_cons_ell] at h
    · simp [peekIs, Setup.ell, hq]

theorem gp_sym (c : Ctx) (x : Text) (e : Datum) : gp c (.sym x) e = false := by
  simp [gp, zeroRepTail]

theorem gp_datum (c : Ctx) {p : Datum} (e : Datum) (h : isDatumPat p = true) : gp c p e = false := by
  cases p <;> simp [isDatumPat] at h <;> simp [gp, zeroRepTail]

theorem elemStep_verdict (s : Setup) (f : Nat) (cur e : Datum) (env : Bindings)
    (k : Bindings → Res (Bool × Bindings)) (r : Bool × Bindings)
    (hA : ∀ P E env r, okS s.es true P = true → headNotEll s.ctx P = true →
        patternMatch s.ell s.lits f P E env = .ok r → Verdict s.ctx P E r.1)
    (hcur : okP s.es cur = true)
    (h : elemStep s.ell s.lits f cur e env k = .ok r) :
    (∃ env', sm s.ctx cur e = true ∧ k env' = .ok r) ∨
      (r.1 = false ∧ (sm s.ctx cur e = false ∨ gp s.ctx cur e = true)) := by
  cases hc : cur with
  | sym x =>
    rw [hc] at h hcur
    have hx : x ≠ s.es := by simpa [okP] using hcur
    have hsp := specMatch_sym s x e hx
    simp only [elemStep, s.lits_any] at h
    by_cases hl : s.ctx.isLit x = true
    · simp only [hl, if_true] at h hsp
      by_cases he : e = .sym x
      · simp only [cellEq_sym_left, he, decide_true, Bool.not_true, Bool.false_eq_true, if_false] at h
        left; exact ⟨env, by rw [sm, hsp]; simp [he], h⟩
      · simp only [cellEq_sym_left, he, decide_false, Bool.not_false, if_true] at h
        cases h
        right; exact ⟨rfl, Or.inl (by rw [sm, hsp]; simp [he])⟩
    · simp only [hl, Bool.false_eq_true, if_false] at h hsp
      have hsm : sm s.ctx (.sym x) e = true := by
        simp only [sm, hsp]; split <;> rfl
      split at h
      · left; exact ⟨_, hsm, h⟩
      · left; exact ⟨_, hsm, h⟩
  | pair a d =>
    rw [hc] at h hcur
    simp only [elemStep] at h
    have hsp := okP_pair_spine hcur
    have hhd : headNotEll s.ctx (.pair a d) = true := by
      simp only [okP, Bool.and_eq_true] at hcur
      simp only [headNotEll, s.isEllD_eq, Setup.ell, cellEq_sym_right]
      simp [okP_ne_ell hcur.1]
    cases hn : patternMatch s.ell s.lits f (.pair a d) e env with
    | ok r1 =>
      obtain ⟨b, env1⟩ := r1
      have hv := hA _ _ _ _ hsp hhd hn
      rw [hn] at h
      cases b with
      | true => simp only at h; left; exact ⟨env1, hv.1 rfl, h⟩
      | false => simp only at h; cases h; right; exact ⟨rfl, hv.2 rfl⟩
    | err x => rw [hn] at h; cases h
    | panic m => rw [hn] at h; cases h
    | fuel => rw [hn] at h; cases h
  | vec v => rw [hc] at hcur; simp [okP] at hcur
  | _ =>
    have hd : isDatumPat cur = true := by rw [hc]; rfl
    have hsp := specMatch_datum s.ctx e hd
    have hg := gp_datum s.ctx e hd
    rw [hc] at h hsp hg
    simp only [elemStep] at h
    split at h
    · rename_i hce
      cases h
      simp only [Bool.not_eq_true'] at hce
      right; exact ⟨rfl, Or.inl (by simp [sm, hsp, hce])⟩
    · rename_i hce
      simp only [Bool.not_eq_true', Bool.not_eq_false] at hce
      left; exact ⟨env, by simp [sm, hsp, hce], h⟩

end Marwood.Transform

namespace Marwood.Transform
open Marwood Marwood.Spec.Match

theorem okS_false_head (s : Setup) {R : Datum} (h : okS s.es false R = true) :
    headNotEll s.ctx R = true := by
  cases R with
  | pair q R' =>
    by_cases hq : q = .sym s.es
    · simp [okS, hq] at h
    · simp [headNotEll, s.isEllD_eq, Setup.ell, hq]
  | _ => rfl

theorem endsInNil_dropSpine : ∀ (k : Nat) (E : Datum), endsInNil (dropSpine k E) = true → endsInNil E = true := by
  intro k
  induction k with
  | zero => intro E h; cases E <;> simpa [dropSpine] using h
  | succ k ih =>
    intro E h
    cases E with
    | pair x y => simp only [dropSpine] at h; simp only [endsInNil]; exact ih y h
    | _ => simpa [dropSpine] using h

/-- a list pattern without ellipsis matches only proper lists -/
theorem sm_okS_false_proper (s : Setup) : ∀ (R E : Datum),
    okS s.es false R = true → sm s.ctx R E = true → endsInNil E = true := by
  intro R
  induction R with
  | nil => intro E _ h; rw [sm_nil] at h; simp at h; subst h; rfl
  | pair q R' _ ihd =>
    intro E hok h
    have hq : ¬ q = .sym s.es := by intro hq; simp [okS, hq] at hok
    simp only [okS, hq, if_false, Bool.and_eq_true] at hok
    rw [sm_cons _ _ _ _ (okS_false_head s hok.2)] at h
    cases E with
    | pair e1 er =>
      simp only [Bool.and_eq_true] at h
      simp only [endsInNil]
      exact ihd er hok.2 h.2
    | _ => simp at h
  | _ => intro E h; simp [okS] at h

/-- a well-formed list pattern matches only proper lists -/
theorem sm_okS_proper (s : Setup) : ∀ (P : Datum) (allow : Bool) (E : Datum),
    okS s.es allow P = true → headNotEll s.ctx P = true → sm s.ctx P E = true → endsInNil E = true := by
  intro P
  induction P with
  | nil => intro allow E _ _ h; rw [sm_nil] at h; simp at h; subst h; rfl
  | pair a d _ ihd =>
    intro allow E hok hh h
    have ha : ¬ a = .sym s.es := by
      intro ha
      simp [headNotEll, s.isEllD_eq, Setup.ell, ha] at hh
    simp only [okS, ha, if_false, Bool.and_eq_true] at hok
    by_cases hd : headNotEll s.ctx d = true
    · rw [sm_cons _ _ _ _ hd] at h
      cases E with
      | pair e1 er =>
        simp only [Bool.and_eq_true] at h
        simp only [endsInNil]
        exact ihd allow er hok.2 hd h.2
      | _ => simp at h
    · -- d = (ell . R)
      cases d with
      | pair q R =>
        have hq : s.ctx.isEllD q = true := by simpa [headNotEll] using hd
        have hqe : q = .sym s.es := by simpa [s.isEllD_eq, Setup.ell] using hq
        rw [sm_ell _ _ _ _ _ hq] at h
        simp only [Bool.and_eq_true] at h
        have hR : okS s.es false R = true := by
          have := hok.2
          simp only [okS, hqe, if_true, Bool.and_eq_true] at this
          exact this.2
        exact endsInNil_dropSpine _ _ (sm_okS_false_proper s R _ hR h.2)
      | _ => simp [headNotEll] at hd
  | _ => intro allow E h; simp [okS] at h

end Marwood.Transform

namespace Marwood.Transform
open Marwood Marwood.Spec.Match

theorem peekIs_ell_cons (s : Setup) (rest : List Datum) : peekIs s.ell (s.ell :: rest) = true := by
  simp [peekIs, Setup.ell]

theorem match_verdict_aux (s : Setup) : ∀ f : Nat,
    (∀ P E env r, okS s.es true P = true → headNotEll s.ctx P = true →
        patternMatch s.ell s.lits f P E env = .ok r → Verdict s.ctx P E r.1) ∧
    (∀ xs ps cur env r allow, okS s.es allow (Datum.ofList ps) = true →
        headNotEll s.ctx (Datum.ofList ps) = true →
        matchLoop s.ell s.lits f xs ps cur false env = .ok r →
        Verdict s.ctx (Datum.ofList ps) (Datum.ofList xs) r.1) ∧
    (∀ xs p rest env r, okP s.es p = true → okS s.es false (Datum.ofList rest) = true →
        matchLoop s.ell s.lits f xs (s.ell :: rest) p true env = .ok r →
        InEllV s.ctx p rest xs r.1) := by
  intro f
  induction f with
  | zero =>
    refine ⟨?_, ?_, ?_⟩
    · intro P E env r _ _ h; simp [patternMatch] at h
    · intro xs ps cur env r allow _ _ h; simp [matchLoop] at h
    · intro xs p rest env r _ _ h; simp [matchLoop] at h
  | succ f ih =>
    obtain ⟨ihA, ihB, ihC⟩ := ih
    refine ⟨?_, ?_, ?_⟩
    · -- (A) pattern_match
      intro P E env r hP hPh h
      have hPnil := okS_endsInNil hP
      have hPeq := endsInNil_ofList hPnil
      by_cases hE : endsInNil E = true
      · have hEeq := endsInNil_ofList hE
        have hEp := endsInNil_pairOrNil hE
        unfold patternMatch at h
        simp only [hEp, Bool.not_true, Bool.and_false, Bool.false_eq_true, if_false,
          isList_of_endsInNil hE, isList_of_endsInNil hPnil] at h
        have hloop : matchLoop s.ell s.lits f (iterList E) (iterList P) .nil false env = .ok r := by
          cases hb : E.isPair <;> cases hb' : P.isPair <;> simp only [hb, hb'] at h <;> simpa using h
        have := ihB (iterList E) (iterList P) .nil env r true (by rw [← hPeq]; exact hP)
          (by rw [← hPeq]; exact hPh) hloop
        rw [← hPeq, ← hEeq] at this
        exact this
      · have hE' : endsInNil E = false := by simpa using hE
        have hsm : sm s.ctx P E = false := by
          cases hs : sm s.ctx P E with
          | false => rfl
          | true => have := sm_okS_proper s P true E hP hPh hs; simp [this] at hE
        have hr : r.1 = false := by
          cases f with
          | zero =>
            unfold patternMatch at h
            split at h
            · cases h; rfl
            · split at h
              · cases h; rfl
              · simp [matchLoop] at h
          | succ f =>
            rw [patternMatch_improper _ _ _ _ hPnil hE'] at h
            cases h; rfl
        exact ⟨by simp [hr], fun _ => Or.inl hsm⟩
    · -- (B) the loop outside an ellipsis
      intro xs ps cur env r allow hok hhd h
      cases xs with
      | nil =>
        rw [matchLoop_nil] at h
        simp only [Bool.false_eq_true, if_false] at h
        cases ps with
        | nil => cases h; exact ⟨fun _ => by simp [Datum.ofList, sm_nil], by simp⟩
        | cons p ps' =>
          simp only at h
          by_cases hpk : peekIs s.ell ps' = true
          · obtain ⟨rest, hrest⟩ := (peekIs_ell_iff s ps').mp hpk
            subst hrest
            simp only [hpk, if_true, List.tail_cons] at h
            cases h
            simp only
            constructor
            · intro hb
              rw [sm_whole]
              have : rest = [] := by simpa using hb
              subst this
              simp [Datum.ofList, sm_nil]
            · intro hb
              left
              rw [sm_whole]
              have : rest ≠ [] := by simpa using hb
              have : ¬ (rest.length ≤ 0) := by
                cases rest <;> simp_all
              simp [this]
          · simp only [hpk, Bool.false_eq_true, if_false] at h
            cases h
            refine ⟨by simp, fun _ => Or.inl ?_⟩
            simp only [Datum.ofList]
            rw [sm_cons _ _ _ _ (by rw [headNotEll_ofList]; simpa using hpk)]
      | cons e xs' =>
        rw [matchLoop_cons] at h
        cases ps with
        | nil =>
          simp only [selNext, Bool.false_eq_true, if_false] at h
          cases h
          exact ⟨by simp, fun _ => Or.inl (by simp [Datum.ofList, sm_nil])⟩
        | cons p ps' =>
          simp only [selNext, Bool.false_eq_true, if_false] at h
          have hpne : p ≠ .sym s.es := by
            intro hp
            rw [headNotEll_ofList] at hhd
            simp [peekIs, Setup.ell, hp] at hhd
          rw [okS_cons_ne hpne, Bool.and_eq_true] at hok
          obtain ⟨hokp, hokps⟩ := hok
          rcases elemStep_verdict s f p e env _ r ihA hokp h with ⟨env', hsm, hk⟩ | ⟨hr, hbad⟩
          · -- the element matched; the loop goes on
            by_cases hpk : peekIs s.ell ps' = true
            · obtain ⟨rest, hrest⟩ := (peekIs_ell_iff s ps').mp hpk
              subst hrest
              rw [hpk] at hk
              have hokr : okS s.es false (Datum.ofList rest) = true := by
                have := hokps
                simp only [Setup.ell, okS_cons_ell, Bool.and_eq_true] at this
                exact this.2
              exact enter_verdict s p e rest xs' r.1 hsm (ihC xs' p rest env' r hokp hokr hk)
            · have hpk' : peekIs s.ell ps' = false := by simpa using hpk
              rw [hpk'] at hk
              have hh' : headNotEll s.ctx (Datum.ofList ps') = true := by
                rw [headNotEll_ofList, hpk']; rfl
              have hv := ihB xs' ps' p env' r allow hokps hh' hk
              simp only [Verdict, Datum.ofList]
              rw [sm_cons _ _ _ _ hh', gp_cons _ _ _ _ hh']
              simp only [hsm, Bool.true_and]
              constructor
              · exact hv.1
              · intro hb
                rcases hv.2 hb with h2 | h2
                · left; exact h2
                · right; simp [h2]
          · -- the element did not match
            rw [hr]
            by_cases hpk : peekIs s.ell ps' = true
            · obtain ⟨rest, hrest⟩ := (peekIs_ell_iff s ps').mp hpk
              subst hrest
              exact enter_verdict_fail s p e rest xs' hbad
            · have hh' : headNotEll s.ctx (Datum.ofList ps') = true := by
                rw [headNotEll_ofList]; simpa using hpk
              refine ⟨by simp, fun _ => ?_⟩
              simp only [Datum.ofList]
              rw [sm_cons _ _ _ _ hh', gp_cons _ _ _ _ hh']
              rcases hbad with hbad | hbad
              · left; simp [hbad]
              · right; simp [hbad]
    · -- (C) the loop inside an ellipsis
      intro xs p rest env r hokp hokr h
      cases xs with
      | nil =>
        rw [matchLoop_nil] at h
        simp only [if_true, List.tail_cons] at h
        cases rest with
        | nil =>
          cases h
          exact ⟨fun _ => ⟨by simp, by simp, by simp [Datum.ofList, sm_nil]⟩, by simp⟩
        | cons q rest' =>
          have hq : q ≠ .sym s.es := by
            intro hq; subst hq; simp [okS_cons_ell] at hokr
          rw [okS_cons_ne hq, Bool.and_eq_true] at hokr
          simp only [okS_false_peek s rest' hokr.2, Bool.false_eq_true, if_false] at h
          cases h
          exact ⟨by simp, fun _ => Or.inl (by simp)⟩
      | cons e xs' =>
        rw [matchLoop_cons] at h
        by_cases hh : rest.length = xs'.length + 1
        · -- hand-off to the fixed tail
          cases rest with
          | nil => simp at hh
          | cons q rest' =>
            have hsel : selNext p true (s.ell :: q :: rest') xs' = .inr (q, rest') := by
              simp only [selNext, if_true, List.length_cons, List.tail_cons]
              simp only [List.length_cons] at hh
              simp [hh]
            rw [hsel] at h
            simp only at h
            have hq : q ≠ .sym s.es := by
              intro hq; subst hq; simp [okS_cons_ell] at hokr
            rw [okS_cons_ne hq, Bool.and_eq_true] at hokr
            have hpk := okS_false_peek s rest' hokr.2
            have hh' : headNotEll s.ctx (Datum.ofList rest') = true := by
              rw [headNotEll_ofList, hpk]; rfl
            have hlen : rest'.length = xs'.length := by simpa using hh
            rcases elemStep_verdict s f q e env _ r ihA hokr.1 h with ⟨env', hsm, hk⟩ | ⟨hr, hbad⟩
            · rw [hpk] at hk
              exact handoff_InEllV s p q e rest' xs' r.1 hlen hh' hsm
                (ihB xs' rest' q env' r false hokr.2 hh' hk)
            · rw [hr]; exact handoff_InEllV_fail s p q e rest' xs' hlen hh' hbad
        · -- the same pattern again
          have hsel : selNext p true (s.ell :: rest) xs' = .inr (p, s.ell :: rest) := by
            simp only [selNext, if_true, List.length_cons]
            simp [hh]
          rw [hsel] at h
          simp only [peekIs_ell_cons] at h
          rcases elemStep_verdict s f p e env _ r ihA hokp h with ⟨env', hsm, hk⟩ | ⟨hr, hbad⟩
          · exact reuse_InEllV s p e rest xs' r.1 hh hsm (ihC xs' p rest env' r hokp hokr hk)
          · rw [hr]; exact reuse_InEllV_fail s p e rest xs' hh hbad

end Marwood.Transform
