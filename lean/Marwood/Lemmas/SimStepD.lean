import Marwood.Lemmas.SimStepC
/-!
# Heap simulation, lemma (b) part 4: ENTER's environment construction for a closure (allocating)

`makeActivation` (`build_lexical_environment` + `heap.put(LexicalEnv)`): the slots are computed from related
closure environments, related frames and related environment maps, hence related; the new environment is
allocated on both sides and `φ` is extended at the two fresh addresses. This discharges `ActivationLaw`.
-/
namespace Marwood.Lemmas.Sim
open Marwood Marwood.Vm Marwood.Vm.Concrete

variable {φ : Inj}

theorem usub_rel_le (a b : Nat) (site : String) :
    ORel (fun x y => x = y ∧ x ≤ a) (usub a b site) (usub a b site) := by
  unfold usub; split
  · exact .ok ⟨rfl, Nat.sub_le _ _⟩
  · exact .panic

/-- the `IofArgument | IofEnvironment` arm of `build_lexical_environment` -/
def keepPtr (env slot : Nat) (old : VCell) : Outcome VCell :=
  match old with
  | .lexEnvPtr _ _ => .ok old
  | _ => .ok (.lexEnvPtr env slot)

theorem keepPtr_rel {env env' : Nat} (henv : AddrRel φ env env') (slot : Nat) {old old'} (ho : VRel φ old old') :
    ORel (VRel φ) (keepPtr env slot old) (keepPtr env' slot old') := by
  cases ho with
  | lexEnvPtr a => exact .ok (.lexEnvPtr a)
  | atom hf => cases old <;> first | exact .ok (.lexEnvPtr henv) | simp [addrFree] at hf
  | _ => exact .ok (.lexEnvPtr henv)

theorem activationSlot_rel {env env' bp argc : Nat} {st st' : Stack} (henv : AddrRel φ env env')
    (hst : StackRel φ st st') (hbp : bp + 4 = st.sp) (slot : Nat) {old old'} (ho : VRel φ old old') (src : Source) :
    ORel (VRel φ) (activationSlot env bp argc st slot old src) (activationSlot env' bp argc st' slot old' src) := by
  cases src with
  | arg a =>
    simp only [activationSlot]
    refine (usub_rel argc a _).bind ?_
    intro d d' e
    subst e
    refine (usub_rel_le bp d _).bind ?_
    rintro base base' ⟨e, hle⟩
    subst e
    exact hst.get (by omega)
  | iofArg _ => exact keepPtr_rel henv slot ho
  | iofEnv _ => exact keepPtr_rel henv slot ho
  | global => exact .ok ho
  | internal => exact .ok ho

theorem activationSlots_rel {env env' bp argc : Nat} {st st' : Stack} (henv : AddrRel φ env env')
    (hst : StackRel φ st st') (hbp : bp + 4 = st.sp) {em em'} (hem : EnvmapRel φ em em') :
    ∀ (slot : Nat) {olds olds'}, VsRel φ olds olds' →
      ORel (VsRel φ) (activationSlots env bp argc st slot olds em) (activationSlots env' bp argc st' slot olds' em') := by
  induction hem with
  | nil =>
    intro slot olds olds' ho
    cases ho with
    | nil => exact .ok .nil
    | cons a b => exact .ok (.cons a b)
  | @cons p q rest rest' hp _ ih =>
    intro slot olds olds' ho
    obtain ⟨s1, src⟩ := p
    obtain ⟨s2, src'⟩ := q
    have : src = src' := hp.2
    subst this
    cases ho with
    | nil => exact .panic
    | cons ho1 ho2 =>
      simp only [activationSlots]
      refine (activationSlot_rel henv hst hbp slot ho1 src).bind ?_
      intro v v' hv
      refine (ih (slot + 1) ho2).bind ?_
      intro vs vs' hvs
      exact .ok (.cons hv hvs)

/-- **`ActivationLaw` holds** for the concrete heap -/
theorem activationLaw : ActivationLaw := by
  intro φ h h' lam lam' env env' bp st st' hs ok ok' hl henv hst hbp
  unfold makeActivation
  rcases lambdaAt_rel hs ok ok' hl with ⟨e1, e2⟩ | ⟨l, l', e1, e2, _, hargs, hem⟩
  · rw [e1, e2]; exact .err
  · rw [e1, e2]
    simp only
    rcases envAt_rel hs ok ok' henv with ⟨f1, f2⟩ | ⟨_, olds, olds', f1, f2, ho⟩
    · rw [f1, f2]; exact .err
    · rw [f1, f2]
      simp only
      rw [← hargs.length_eq]
      refine (activationSlots_rel henv hst hbp hem 0 ho).bind ?_
      intro slots slots' hsl
      obtain ⟨ψ, hle, hpq, hh⟩ := cput_sim hs (c := .lexEnv slots) (c' := .lexEnv slots')
        (fun ψ hle _ => .lexEnv (VsRel.mono hle hsl))
      exact .ok ⟨ψ, hle, hh, hpq⟩

end Marwood.Lemmas.Sim
