import Marwood.Vm.RunLoop
/-!
# An execution of `runLoop` is a sequence of blocks of at most 8192 instructions, each closed by a collection

Generic in the machine (`step` = `run_one`, `gc` = `run_gc`), read off the definition of `runLoop` alone: the
`cycles % 8192 = 0` test runs `gc` before instruction number 8192, 16384, …; a budget stop runs `gc` after the last
instruction of the slice. `Blocks m s bs s'` records, per block, the number of instructions executed and the state
the collection saw. What is left when the loop ends in `done` / `error` is a last, open block of fewer than 8192
instructions (the epilogue of `run_count` closes it with a collection: `Vm.runEval`).
-/
namespace Marwood.Lemmas.PolicySession
open Marwood.Vm

variable {S E : Type}

/-- `n` consecutive instructions that neither halt nor fail, with no collection in between -/
inductive Steps (m : Machine S E) : Nat → S → S → Prop
  | nil (s : S) : Steps m 0 s s
  | cons {n : Nat} {s s1 s' : S} : m.step s = .next s1 → Steps m n s1 s' → Steps m (n + 1) s s'

theorem Steps.snoc {m : Machine S E} {n : Nat} {s s1 s' : S} (h : Steps m n s s1) (e : m.step s1 = .next s') :
    Steps m (n + 1) s s' := by
  induction h with
  | nil s => exact .cons e (.nil _)
  | cons e1 _ ih => exact .cons e1 (ih e)

/-- closed blocks: `n` instructions from `s` to `s1`, a collection in `s1`, and so on from `gc s1` -/
inductive Blocks (m : Machine S E) : S → List (Nat × S) → S → Prop
  | nil (s : S) : Blocks m s [] s
  | cons {n : Nat} {s s1 s' : S} {bs : List (Nat × S)} : Steps m n s s1 → Blocks m (m.gc s1) bs s' →
      Blocks m s ((n, s1) :: bs) s'

theorem Blocks.append {m : Machine S E} {a b c : S} {bs bs' : List (Nat × S)} (h1 : Blocks m a bs b)
    (h2 : Blocks m b bs' c) : Blocks m a (bs ++ bs') c := by
  induction h1 with
  | nil _ => exact h2
  | cons st _ ih => exact .cons st (ih h2)

/-- what `runLoop` returned, in terms of the last (open) block that starts in `s1` -/
def Tail (m : Machine S E) (s1 : S) : Res S E → Prop
  | .paused s' => s' = s1
  | .done s' => ∃ n s2, Steps m n s1 s2 ∧ n < 8192 ∧ m.step s2 = .halt s'
  | .error e s' => ∃ n s2, Steps m n s1 s2 ∧ n < 8192 ∧ m.step s2 = .fail e s'
  | .fuel => True

/-- **the loop of `run_count` is paced** (any budget, any fuel, any value of the cycle counter): with `n`
    instructions already executed since the last collection (`n ≤ cycles % 8192 + 1`), the execution consists of
    closed blocks of at most 8192 instructions each, then an open block of fewer than 8192 -/
theorem runLoop_blocks (m : Machine S E) (count : Option Nat) : ∀ (f c : Nat) (s0 s : S) (n : Nat),
    Steps m n s0 s → n ≤ c % 8192 + 1 →
    ∃ bs s1, Blocks m s0 bs s1 ∧ (∀ b ∈ bs, b.1 ≤ 8192) ∧ Tail m s1 (runLoop m count f c s) := by
  intro f
  induction f with
  | zero =>
    intro c s0 s n _ _
    exact ⟨[], s0, .nil _, by simp, by simp [runLoop, Tail]⟩
  | succ f ih =>
    intro c s0 s n hst hn
    have hmod : c % 8192 < 8192 := Nat.mod_lt _ (by decide)
    by_cases hg : (c + 1) % 8192 = 0
    · -- a collection before this instruction: the pending block closes with `n ≤ 8192` instructions
      have hn' : n ≤ 8192 := by omega
      simp only [runLoop, hg, if_true]
      cases hs : m.step (m.gc s) with
      | halt s' =>
        refine ⟨[(n, s)], m.gc s, .cons hst (.nil _), by simpa using hn', ?_⟩
        exact ⟨0, m.gc s, .nil _, by decide, hs⟩
      | fail e s' =>
        refine ⟨[(n, s)], m.gc s, .cons hst (.nil _), by simpa using hn', ?_⟩
        exact ⟨0, m.gc s, .nil _, by decide, hs⟩
      | next s' =>
        simp only
        by_cases hc : count = some (c + 1)
        · rw [if_pos hc]
          refine ⟨[(n, s), (1, s')], m.gc s', .cons hst (.cons (.cons hs (.nil _)) (.nil _)), ?_, rfl⟩
          intro b hb
          simp only [List.mem_cons, List.not_mem_nil, or_false] at hb
          rcases hb with rfl | rfl
          · exact hn'
          · show 1 ≤ 8192; omega
        · rw [if_neg hc]
          obtain ⟨bs, s1, hb, hle, ht⟩ := ih (c + 1) (m.gc s) s' 1 (.cons hs (.nil _)) (by omega)
          refine ⟨(n, s) :: bs, s1, .cons hst hb, ?_, ht⟩
          intro b hb'
          rcases List.mem_cons.mp hb' with rfl | h
          · exact hn'
          · exact hle b h
    · -- no collection: the pending block grows by this instruction
      have hlt : n < 8192 := by omega
      have hn1 : n + 1 ≤ (c + 1) % 8192 + 1 := by omega
      simp only [runLoop, hg, if_false]
      cases hs : m.step s with
      | halt s' =>
        exact ⟨[], s0, .nil _, by simp, ⟨n, s, hst, hlt, hs⟩⟩
      | fail e s' =>
        exact ⟨[], s0, .nil _, by simp, ⟨n, s, hst, hlt, hs⟩⟩
      | next s' =>
        simp only
        by_cases hc : count = some (c + 1)
        · rw [if_pos hc]
          exact ⟨[(n + 1, s')], m.gc s', .cons (hst.snoc hs) (.nil _), by simp; omega, rfl⟩
        · rw [if_neg hc]
          exact ih (c + 1) s0 s' (n + 1) (hst.snoc hs) hn1

/-- from the start of a `run_count` call (`cycles = 0`, nothing pending) -/
theorem runLoop_blocks_start (m : Machine S E) (count : Option Nat) (f : Nat) (s : S) :
    ∃ bs s1, Blocks m s bs s1 ∧ (∀ b ∈ bs, b.1 ≤ 8192) ∧ Tail m s1 (runLoop m count f 0 s) :=
  runLoop_blocks m count f 0 s s 0 (.nil _) (by omega)

end Marwood.Lemmas.PolicySession
