import Marwood.Lemmas.NoPanicDefs
/-!
# T06.6 on the concrete machine: the heap-side facts `PanicFacts` as theorems

`panicFacts_concrete`: in a state of the concrete machine satisfying `GoodI`, WF-stack over the value-typed verifier,
`NPInv` and the slot clause `EnvSlots`, under `ExtNoPanic ext`, every heap-side fact `step_pin_local` asks for holds:

* `%ip` designates a lambda (from WF-stack: the current code object is verified code);
* VARARG's `args.len() - 1` (`LamNP.vararg` of the current lambda);
* CLOSURE's `build_closure_environment` (`makeClosure`): no `IofArgument` source (`CInvG.noIofArg`, so `load_arg`'s
  `bp - argc` is never evaluated), `IofEnvironment(k)` within the current environment (`EnvSlots.closure`);
* ENTER's `build_lexical_environment` (`makeActivation`): `argc - arg` (`LamNP.argSrc`), `bp - (argc - arg)` (WF-stack:
  the `argc` arguments ENTER has just checked lie below the new `bp`), the closure environment has a slot per
  environment-map entry (`EnvSlots.enter`);
* VPUSH, the generic builtins, `eval`'s compiler: `ExtNoPanic`, whose premises (allocated value arguments) follow
  from `GoodI` and the value-read clauses of `StackDisc`;
* `restore_continuation`'s `split_at_mut`: the continuation CALL / TCALL finds is a continuation cell of the heap,
  and those fit the current stack (`NPInv.cont`).
-/
namespace Marwood.Lemmas.Good
open Marwood Marwood.Vm Marwood.Vm.Verify Marwood.Vm.Concrete Marwood.Lemmas.Sim
open Marwood.Heap (GcState)

/-! ## CLOSURE -/

theorem closureSlot_np {h : CHeap} {ep bp : Nat} {st : Stack} {src : Source}
    (hno : ∀ a, src ≠ Source.iofArg a)
    (hk : ∀ ss k, envAt h ep = some ss → src = Source.iofEnv k → k < ss.length) :
    Outcome.NoPanic (closureSlot h ep bp st src) := by
  cases src with
  | iofArg a => exact absurd rfl (hno a)
  | iofEnv k =>
    unfold closureSlot
    cases he : envAt h ep with
    | none => exact pin_err _
    | some ss =>
      try dsimp only
      have hlt := hk ss k he rfl
      have : ss[k]? = some ss[k] := List.getElem?_eq_getElem hlt
      rw [this]
      try dsimp only
      split
      · rename_i heq; cases heq
      · exact pin_ok _
      · exact pin_ok _
  | global => exact pin_ok _
  | arg a => exact pin_ok _
  | internal => exact pin_ok _

theorem closureSlots_np {h : CHeap} {ep bp : Nat} {st : Stack} : ∀ (em : List (VCell × Source)),
    (∀ x ∈ em, ∀ a, x.2 ≠ Source.iofArg a) →
    (∀ ss, envAt h ep = some ss → ∀ x ∈ em, ∀ k, x.2 = Source.iofEnv k → k < ss.length) →
    Outcome.NoPanic (closureSlots h ep bp st em)
  | [], _, _ => pin_ok _
  | (v, src) :: rest, hno, hk => by
    unfold closureSlots
    refine pin_bind (closureSlot_np (fun a => hno (v, src) (by simp) a)
      (fun ss k he hs => hk ss he (v, src) (by simp) k hs)) (fun w _ => ?_)
    refine pin_bind (closureSlots_np rest (fun x hx => hno x (by simp [hx]))
      (fun ss he x hx => hk ss he x (by simp [hx]))) (fun ws _ => ?_)
    exact pin_ok _

theorem makeClosure_np {h : CHeap} {lam ep bp : Nat} {st : Stack}
    (hno : ∀ l, lambdaAt h lam = some l → ∀ x ∈ l.envmap, ∀ a, x.2 ≠ Source.iofArg a)
    (hk : ∀ l ss, lambdaAt h lam = some l → envAt h ep = some ss → ∀ x ∈ l.envmap, ∀ k,
      x.2 = Source.iofEnv k → k < ss.length) :
    Outcome.NoPanic (makeClosure h lam ep bp st) := by
  unfold makeClosure
  cases hl : lambdaAt h lam with
  | none => exact pin_err _
  | some l =>
    dsimp only
    refine pin_bind (closureSlots_np l.envmap (hno l hl) (fun ss he => hk l ss hl he)) (fun slots _ => ?_)
    exact pin_ok _

/-! ## ENTER -/

theorem activationSlot_np {env bp argc : Nat} {st : Stack} {slot : Nat} {old : VCell} {src : Source}
    (ha : ∀ a, src = Source.arg a → a ≤ argc) (hb : argc ≤ bp) :
    Outcome.NoPanic (activationSlot env bp argc st slot old src) := by
  cases src with
  | arg a =>
    have h1 : a ≤ argc := ha a rfl
    simp only [activationSlot, usub_of_le _ h1, outcome_bind_ok, usub_of_le _ (show argc - a ≤ bp by omega)]
    exact get_np _ _
  | iofArg a => simp only [activationSlot]; split <;> exact pin_ok _
  | iofEnv k => simp only [activationSlot]; split <;> exact pin_ok _
  | global => simp only [activationSlot]; exact pin_ok _
  | internal => simp only [activationSlot]; exact pin_ok _

theorem activationSlots_np {env bp argc : Nat} {st : Stack} (hb : argc ≤ bp) :
    ∀ (em : List (VCell × Source)) (slot : Nat) (olds : List VCell), em.length ≤ olds.length →
      (∀ x ∈ em, ∀ a, x.2 = Source.arg a → a ≤ argc) →
      Outcome.NoPanic (activationSlots env bp argc st slot olds em)
  | [], slot, olds, _, _ => by unfold activationSlots; exact pin_ok _
  | (v, src) :: rest, slot, [], hl, _ => by simp at hl
  | (v, src) :: rest, slot, old :: olds, hl, ha => by
    unfold activationSlots
    refine pin_bind (activationSlot_np (fun a hs => ha (v, src) (by simp) a hs) hb) (fun w _ => ?_)
    refine pin_bind (activationSlots_np hb rest (slot + 1) olds (by simpa using hl)
      (fun x hx => ha x (by simp [hx]))) (fun ws _ => ?_)
    exact pin_ok _

theorem makeActivation_np {h : CHeap} {lam env bp : Nat} {st : Stack}
    (hlen : ∀ l ss, lambdaAt h lam = some l → envAt h env = some ss → l.envmap.length ≤ ss.length)
    (harg : ∀ l, lambdaAt h lam = some l → ∀ x ∈ l.envmap, ∀ a, x.2 = Source.arg a → a ≤ l.args.length)
    (hb : ∀ l, lambdaAt h lam = some l → l.args.length ≤ bp) :
    Outcome.NoPanic (makeActivation h lam env bp st) := by
  unfold makeActivation
  cases hl : lambdaAt h lam with
  | none => exact pin_err _
  | some l =>
    dsimp only
    cases he : envAt h env with
    | none => exact pin_err _
    | some olds =>
      dsimp only
      refine pin_bind (activationSlots_np (hb l hl) l.envmap 0 olds (hlen l olds hl he) (harg l hl)) (fun slots _ => ?_)
      exact pin_ok _

/-! ## reading the current instruction -/

section facts
variable {ext : ExtOps} {ecl : ExtCodeLawsV ext} {s : St CHeap}

theorem opAt_of_OpAt {op : Op} (h : OpAt (concreteOps ext) s op) : opAt s op := by
  have h' : (match lambdaAt s.heap s.ipL with | some lam => lam.bc[s.ipO]? | none => none) = some (VCell.opcode op) := h
  cases hl : lambdaAt s.heap s.ipL with
  | none => rw [hl] at h'; cases h'
  | some l => rw [hl] at h'; exact ⟨l, hl, h'⟩

/-- the value-guarded interface reads code like the real one -/
theorem readOpcode_vops (s : St CHeap) : readOpcode (concreteOps ext) s = readOpcode (vops ext) s := rfl

theorem readOpcode_of_OpAt {op : Op} (h : OpAt (concreteOps ext) s op) :
    readOpcode (vops ext) s = .ok (op, { s with ipO := s.ipO + 1 }) := by
  obtain ⟨l, hl, hop⟩ := opAt_of_OpAt h
  rw [← readOpcode_vops]
  unfold readOpcode
  have h1 : (concreteOps ext).isLambda s.heap s.ipL = true := by
    show (lambdaAt s.heap s.ipL).isSome = true
    rw [hl]; rfl
  have h2 : (concreteOps ext).fetch s.heap s.ipL s.ipO = some (.opcode op) := h
  simp only [h1, h2, Bool.not_true, Bool.false_eq_true, if_false]

theorem getOffset_cellAt {st : Stack} {k : Nat} {v : VCell} (h : st.getOffset (-(k : Int)) = .ok v) :
    k ≤ st.sp ∧ st.cellAt (st.sp - k) = v := by
  obtain ⟨h1, h2⟩ := StepC.getOffset_inv h
  exact ⟨h1, by unfold Stack.cellAt; rw [h2]; rfl⟩

/-- at ENTER the `argc` arguments lie below the two header cells CALL pushed -/
theorem enter_args_below {K : List FDesc} (hw : WFS (concreteLawsV ext ecl) s K)
    (hop : OpAt (concreteOps ext) s .enter) {n : Nat} (hg : s.stack.getOffset (-2) = .ok (.argc n)) :
    n + 3 ≤ s.stack.sp := by
  obtain ⟨t, st, ai, _⟩ := hw.instr (readOpcode_of_OpAt hop)
  have chk := ai.chk
  cases st <;> simp only [checkOp] at chk <;> try (exact absurd chk Bool.false_ne_true)
  obtain ⟨_, n', ep', l', o', K', hn, _, _, hc, _⟩ := hw.wf.frames.inv_pre ai.ht ai.hst
  have hg' : s.stack.getOffset (-((2 : Nat) : Int)) = .ok (.argc n) := hg
  obtain ⟨_, h2⟩ := getOffset_cellAt hg'
  rw [hc] at h2
  cases h2
  exact hn

theorem isLambda_of_wfs {K : List FDesc} (hw : WFS (concreteLawsV ext ecl) s K) :
    (concreteOps ext).isLambda s.heap s.ipL = true := by
  obtain ⟨t0, st0, ht0, _⟩ := hw.wf.frames.has_ty
  have hcode : codeC s.heap s.ipL = some t0.bc := (tyOf_spec ht0).1
  obtain ⟨lam, h1, _⟩ := codeC_some hcode
  show (lambdaAt s.heap s.ipL).isSome = true
  rw [lambdaAt_iff.mpr h1]; rfl

/-- **the heap-side facts of `step_pin_local` hold in a good state of the concrete machine** -/
theorem panicFacts_concrete (en : ExtNoPanic ext) {K : List FDesc} (g : GoodI s)
    (hw : WFS (concreteLawsV ext ecl) s K) (np : NPInv s) (es : EnvSlots s) :
    PanicFacts (concreteOps ext) s := by
  have sd : StackDisc s := stackDisc_of_wfs hw
  have ci : CInvG IsValue s.heap := hw.inv
  refine ⟨isLambda_of_wfs hw, ?_, ?_, ?_, ?_, ?_, ?_, ?_⟩
  · -- VARARG
    intro hop
    obtain ⟨l, hl, hbc⟩ := opAt_of_OpAt hop
    refine ⟨⟨l.args.length⟩, ?_, ?_⟩
    · show (lambdaAt s.heap s.ipL).map (fun lam => (⟨lam.args.length⟩ : LambdaInfo)) = _
      rw [hl]; rfl
    · exact (np.lam.cell (lambdaAt_iff.mp hl)).vararg (List.mem_of_getElem? hbc)
  · -- CLOSURE
    intro hop lam hacc
    obtain ⟨l, hl, hbc⟩ := opAt_of_OpAt hop
    refine makeClosure_np ?_ ?_
    · intro l' hl' x hx a
      exact ci.noIofArg lam l' (lambdaAt_iff.mp hl') x hx a
    · intro l' ss hl' hss x hx k hk
      exact es.closure l lam l' ss hl hbc hacc hl' hss x hx k hk
  · -- ENTER
    intro hop lam env info n hc hinfo hg hn
    obtain ⟨l, hl, hbc⟩ := opAt_of_OpAt hop
    have hle := enter_args_below hw hop hg
    refine makeActivation_np ?_ ?_ ?_
    · intro l' ss hl' hss
      exact es.enter l lam env l' ss hl hbc hc hl' hss
    · intro l' hl'
      exact (np.lam.cell (lambdaAt_iff.mp hl')).argSrc
    · intro l' hl'
      have hi : (lambdaAt s.heap lam).map (fun lam => (⟨lam.args.length⟩ : LambdaInfo)) = some info := hinfo
      rw [hl'] at hi
      cases hi
      show l'.args.length ≤ (s.stack.push (.basePtr s.bp)).sp - 4
      rw [StepC.push_sp]
      have : n = l'.args.length := hn
      omega
  · -- VPUSH
    intro hop v st hp
    have hcell : s.stack.cells[s.stack.sp]? = some v := by
      unfold Stack.pop at hp
      split at hp
      · split at hp
        · rename_i w hw'; cases hp; exact hw'
        · cases hp
      · cases hp
    have hv : VRefsOk s.heap v := roots_stack g.roots (Nat.le_refl _) hcell
    exact en.vectorPush_np s.heap (deref s.heap v) s.acc g.hg (StepB.deref_refs g.hg hv) g.accOk
  · -- a generic builtin
    intro hop id a st argc args st2 _ hp ha hpn
    have hblk : ArgBlock s.stack s.stack.sp := sd.call (hop.imp opAt_of_OpAt opAt_of_OpAt)
    obtain ⟨p1, p2, p3, p4⟩ := StepC.pop_inv hp
    obtain ⟨q1, q2, q3⟩ := StepC.popN_inv argc hpn
    cases a <;> simp only [asArgc] at ha <;> cases ha
    refine en.builtinEval_np s.heap id args g.hg ?_
    intro x hx
    obtain ⟨i, i1, i2, i3⟩ := q3 x hx
    rw [p4] at i3
    exact ⟨hblk argc p2 i x (by omega) (by omega) i3, roots_stack g.roots (by omega) i3⟩
  · -- `eval`'s compiler
    intro hop id a st e st2 _ hp ha hp2
    have hblk : ArgBlock s.stack s.stack.sp := sd.call (hop.imp opAt_of_OpAt opAt_of_OpAt)
    obtain ⟨p1, p2, p3, p4⟩ := StepC.pop_inv hp
    obtain ⟨q1, q2, q3, q4⟩ := StepC.pop_inv hp2
    cases a <;> simp only [asArgc] at ha <;> cases ha
    rw [p3, p4] at q2
    have hpg : plainGlob e = true := hblk 1 p2 _ _ (by omega) (by omega) q2
    have hvr : VRefsOk s.heap e := roots_stack g.roots (by omega) q2
    exact en.compileEval_np s.heap (deref s.heap e) g.hg (deref_ok g.hg hvr (plainGlob_plainVal hpg)).1
  · -- the continuation to reinstate is a continuation cell of the heap: `ContFits`
    intro c hc
    obtain ⟨p, _, hcell⟩ := callee_cont_cell (h := s.heap) (v := s.acc) hc
    exact np.cont.cell hcell

end facts

end Marwood.Lemmas.Good
