import Marwood.Lemmas.ListExtSim
import Marwood.Lemmas.ListExtGood
import Marwood.Lemmas.ListExtCode
import Marwood.Lemmas.ListExtProc
import Marwood.Lemmas.ListExtDemo
import Marwood.Proofs.C03
import Marwood.Proofs.C04

/-! Corollaries of `Proofs/C04.lean` at the real builtins `listExtWith` (see Lemmas/ListExtProps.lean for the overview). -/

namespace Marwood.Proofs.C04
open Marwood Marwood.Vm Marwood.Vm.Concrete Marwood.Vm.Verify Marwood.Lemmas.Sim Marwood.Lemmas.Good Marwood.Proofs.C03

/-- **T04.5 at the real builtins**: loops of tail calls whose bodies call `cons`, `car`, `set-car!`, … run in the
    same frame slot; `sp` at the loop head depends on the frame's base and the head's arity only -/
theorem tail_loop_sp_listExt (eqTag : String → String → Bool) (force : Bool) {D : FDesc} {R : List FDesc} {n : Nat}
    {s s' : St CHeap} (hl : TailLoop (concreteOps (listExtWith eqTag)) D.base n s s') (g : GoodI s)
    (hw : WFS (concreteLawsV (listExtWith eqTag) (listExtWith_codeLawsV eqTag)) s (D :: R)) (p0 : PInv s)
    (hh : AtHead s D.base) (sb : SizeBounded (machine (listExtWith eqTag) force) s) :
    ∃ arity, s'.stack.cellAt (s'.bp + 1) = .argc arity ∧ s'.stack.sp = D.base + arity + 3 :=
  tail_loop_sp_closed _ force (listExtWith_laws eqTag) (listExtWith_good eqTag) (listExtWith_codeLawsV eqTag)
    (listExtWith_proc eqTag) hl g hw p0 hh sb

end Marwood.Proofs.C04
