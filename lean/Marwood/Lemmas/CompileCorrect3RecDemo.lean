import Marwood.Lemmas.CompileCorrect3Demo
/-!
# T01.3 stage 3 — every hypothesis discharged for recursion through internal definitions (`F3B.block`)

On the heap of `CompileCorrect3Toy.lean` all hypotheses of `compileExpr_correct3_nontail` hold for

* SELF recursion, `((lambda (n) (define (loop i) (if i (loop #f) 7)) (loop n)) #t)` — the
  `(define (f . formals) body …)` form (`F3K.defc`): the compiler model registers `loop` as lambda 0 (environment map
  `[i ↦ Argument 0, loop ↦ IofEnvironment]`: the free-variable analysis finds `loop` free in the definition form
  itself) and the enclosing lambda as lambda 1 (`[n ↦ Argument 0, loop ↦ Internal]`); the top-level code is at
  address 2. ENTER of lambda 1 leaves the slot of `loop` `Undefined`; CLOSURE captures a POINTER to that slot
  (`iofEnv 1`), the definition assigns the closure to it; `(loop n)` is a tail call, `loop #t` tail-calls `loop #f`
  through the captured location, which returns `7`;
* MUTUAL recursion, `((lambda (b) (define ev (lambda (x) (if x (od #f) 1))) (define od (lambda (x) (if x (ev #f) 2)))
  (ev b)) #t)` — the `(define x (lambda …))` form (`F3K.defl`): `ev` is lambda 0 (`[x ↦ Argument 0, od ↦
  IofEnvironment]`), `od` lambda 1 (`[x, ev ↦ IofEnvironment]`), the enclosing lambda is lambda 2 (`[b ↦ Argument 0,
  ev ↦ Internal, od ↦ Internal]`), the top-level code is at address 3. The closure of `ev` is built while the slot
  of `od` is still `Undefined` (it captures the location, not the content); `ev #t` tail-calls `od #f`, which returns
  `2`.

(The toy heap has no arithmetic: the programs recurse on a boolean.)
-/
namespace Marwood.Lemmas.CompileCorrect3.Toy
open Marwood Marwood.Vm Marwood.Lemmas.CompileCorrect Marwood.Lemmas.CompileCorrect2
  Marwood.Lemmas.CompileCorrect3
open Marwood.Spec.Eval (Val Cell evalN k_lambda k_if_)

def kn : Text := ['n']
def ki : Text := ['i']
def kloop : Text := ['l', 'o', 'o', 'p']

/-- `(if i (loop #f) 7)` -/
def ifS : Datum := Datum.ofList [.sym k_if_, .sym ki, Datum.ofList [.sym kloop, .bool false], .num (.fix 7)]

/-- `(i)` -/
def formalsS : Datum := Datum.ofList [.sym ki]

/-- `(loop n)` -/
def callS : Datum := Datum.ofList [.sym kloop, .sym kn]

/-- `(define (loop i) (if i (loop #f) 7))` -/
def defS : Datum := curForm kloop formalsS (.pair ifS .nil)

def bodyS : Datum := .pair defS (.pair callS .nil)

def lamS : Datum := .pair (.sym k_lambda) (.pair (Datum.ofList [.sym kn]) bodyS)

def progS : Datum := Datum.ofList [lamS, .bool true]

/-- the enclosing lambda: `n`, the internal definition `loop` -/
def lamCtxS : Ctx := ⟨[kn], [(kn, .argument 0), (kloop, .internal)]⟩

/-- `loop`: `i`, the captured location of `loop` -/
def lamCtxL : Ctx := ⟨[ki], [(ki, .argument 0), (kloop, .iofEnvironment)]⟩

def bodyCodeL : List BC :=
  [.op .mov, .envSlot ki, .acc, .op .jnt, .target 18,
   .op .movImm, .datum (.bool false), .acc, .op .pushAcc, .op .pushImm, .argc 1,
   .op .mov, .envSlot kloop, .acc, .op .tcallAcc,
   .op .jmp, .target 21, .op .movImm, .datum (.num (.fix 7)), .acc]

def bodyCodeS : List BC :=
  [.op .movImm, .lambda 0, .acc, .op .closureAcc, .op .mov, .acc, .envSlot kloop, .op .movImm, .void, .acc,
   .op .mov, .envSlot kn, .acc, .op .pushAcc, .op .pushImm, .argc 1,
   .op .mov, .envSlot kloop, .acc, .op .tcallAcc]

def partsL : LambdaParts :=
  { formals := [ki], isVararg := false, ctx := lamCtxL, prologue := [.op .enter], body := .pair ifS .nil }

def partsS : LambdaParts :=
  { formals := [kn], isVararg := false, ctx := lamCtxS, prologue := [.op .enter], body := bodyS }

def demoLamL : LambdaM := lamOf partsL bodyCodeL

def demoLamS : LambdaM := lamOf partsS bodyCodeS

def progCodeS : List BC :=
  [.op .movImm, .datum (.bool true), .acc, .op .pushAcc, .op .pushImm, .argc 1,
   .op .movImm, .lambda 1, .acc, .op .closureAcc, .op .callAcc]

theorem demoS_parts : lambdaParts 18 c0 lamS false = .ok partsS := by rfl

/-- the definition form itself is the "lambda expression" (`compile_define`) -/
theorem demoL_parts : lambdaParts 16 lamCtxS defS true = .ok partsL := by rfl

theorem demoS_compile :
    compileExpr 20 {} c0 0 false progS = .ok ({ lambdas := [demoLamL, demoLamS] }, progCodeS) :=
  CompileCorrect2.Toy.okIs_eq (by decide +kernel)

/-- lambda 0: `loop` -/
def cellsS0 : List VCell :=
  [.opcode .enter, .opcode .mov, .lexEnvSlot 0, .acc, .opcode .jnt, .ptr 18,
   .opcode .movImm, .bool false, .acc, .opcode .pushAcc, .opcode .pushImm, .argc 1,
   .opcode .mov, .lexEnvSlot 1, .acc, .opcode .tcallAcc,
   .opcode .jmp, .ptr 21, .opcode .movImm, .opaque "n7", .acc, .opcode .ret]

/-- lambda 1: the enclosing lambda -/
def cellsS1 : List VCell :=
  [.opcode .enter, .opcode .movImm, .ptr 0, .acc, .opcode .closureAcc, .opcode .mov, .acc, .lexEnvSlot 1,
   .opcode .movImm, .void, .acc,
   .opcode .mov, .lexEnvSlot 0, .acc, .opcode .pushAcc, .opcode .pushImm, .argc 1,
   .opcode .mov, .lexEnvSlot 1, .acc, .opcode .tcallAcc, .opcode .ret]

/-- the top-level code -/
def cellsS2 : List VCell :=
  [.opcode .movImm, .bool true, .acc, .opcode .pushAcc, .opcode .pushImm, .argc 1,
   .opcode .movImm, .ptr 1, .acc, .opcode .closureAcc, .opcode .callAcc]

/-- `loop` takes its second entry from slot 1 of the enclosing lambda's environment -/
def demoHeapS : THeap :=
  { lams := [⟨cellsS0, 1, [.arg 0, .iofEnv 1]⟩, ⟨cellsS1, 1, [.arg 0, .internal]⟩, ⟨cellsS2, 0, []⟩],
    envs := #[], cells := #[], globals := #[] }

def demoStateS : MSt THeap :=
  { heap := demoHeapS, stack := ⟨List.replicate 8 .undefined, 0⟩, acc := .undefined, ep := 0, ipL := 2, ipO := 0,
    bp := 0 }

/-- the specification's final state: the cells of `n`, of `loop` (the closure refers to its own cell: location 1),
    and of `i` in the two activations of `loop` -/
def demoStS' : SSt :=
  { globals := []
    store := #[.var (.bool true), .var (.closure [ki] none [ifS] [(kloop, 1), (kn, 0)]), .var (.bool true),
               .var (.bool false)]
    out := [] }

theorem demoS_eval : (evalN 9).eval progS [] demoSt = .ok (.int 7) demoStS' := by rfl

abbrev demoDS : RepData2 tops := tD3 [demoLamL, demoLamS]

theorem demoS_frag : F3 (fun _ => False) 20 c0 (bound []) (fun _ => False) false progS := by
  have hn : inEnv lamCtxS kn = true := by decide
  have hl : inEnv lamCtxS kloop = true := by decide
  have hi' : inEnv lamCtxL ki = true := by decide
  have hl' : inEnv lamCtxL kloop = true := by decide
  have hd : AppHead (.sym kloop) := ⟨by decide, by intro x h; injection h with h; subst h; rfl⟩
  refine F3.app lamS _ ⟨by decide, by intro x h; cases h⟩ ?_ (F3L.cons _ _ (F3.bool true) F3L.nil)
  refine F3.lambda (Datum.ofList [.sym kn]) _ partsS [kn] none [kloop] [] demoS_parts (by rfl) rfl rfl (by decide) rfl
    (by intro q hq; cases hq) ?_
  -- the body: a block of one definition
  refine F3B.block [kloop] _ _ (by decide) ?_
  refine F3K.defc kloop formalsS (.pair ifS .nil) callS .nil [] partsL [ki] none [] [(kloop, .iofEnvironment)]
    hl (.inl (by decide)) (by rfl) demoL_parts (by rfl) rfl rfl (by decide) rfl ?_ ?_ ?_
  · -- the captured variable is a name of the block
    intro q hq
    obtain rfl : q = (kloop, .iofEnvironment) := by simpa using hq
    exact ⟨rfl, hl, fun h => h.2 (by decide)⟩
  · -- the body of `loop`: `(if i (loop #f) 7)`, in tail position
    refine F3B.last _ rfl (F3.if3 _ _ _
      (F3.sym ki ⟨fun _ => .inl (by decide), fun _ => hi'⟩ (by decide)) ?_ (F3.num _))
    exact F3.app _ _ hd (F3.sym kloop ⟨fun _ => .inr (.inl (by decide)), fun _ => hl'⟩ (by decide))
      (F3L.cons _ _ (F3.bool false) F3L.nil)
  · -- the rest of the enclosing body: `(loop n)`, `loop` now readable
    refine F3K.done _ _ (F3B.last _ rfl ?_)
    exact F3.app _ _ hd (F3.sym kloop ⟨fun _ => .inl (by decide), fun _ => hl⟩ (fun h => h.2 (by decide)))
      (F3L.cons _ _ (F3.sym kn ⟨fun _ => .inl (by decide), fun _ => hn⟩ (fun h => absurd h.1 (by decide))) F3L.nil)

theorem demoS_final_get {id : Nat} {lamM : LambdaM} (h : ([demoLamL, demoLamS] : List LambdaM)[id]? = some lamM) :
    (id = 0 ∧ lamM = demoLamL) ∨ (id = 1 ∧ lamM = demoLamS) := by
  match id, h with
  | 0, h => exact .inl ⟨rfl, by injection h with e; exact e.symm⟩
  | 1, h => exact .inr ⟨rfl, by injection h with e; exact e.symm⟩
  | n + 2, h => simp at h

theorem demoS_code0 (S : Array Cell) : CodeAt2 demoDS lamCtxL.envmap demoHeapS S 0 0 demoLamL.bc := by
  refine CompileCorrect2.Toy.CodeAt2.ofAll2 cellsS0 rfl (fun i _ => by rw [Nat.zero_add]; rfl) ?_
  have si : Loads2 demoDS lamCtxL.envmap demoHeapS S (.envSlot ki) (.lexEnvSlot 0) := ⟨0, by decide, rfl⟩
  have sl : Loads2 demoDS lamCtxL.envmap demoHeapS S (.envSlot kloop) (.lexEnvSlot 1) := ⟨1, by decide, rfl⟩
  have hb : Loads2 demoDS lamCtxL.envmap demoHeapS S (.datum (.bool false)) (.bool false) :=
    ⟨(by intro o e; cases e), .atom rfl (.base rfl)⟩
  have n7 := loads_num demoDS rfl 7 (.fix 7) rfl "n7" (by decide) demoHeapS S lamCtxL.envmap
  exact .cons rfl (.cons rfl (.cons si (.cons rfl (.cons rfl (.cons rfl
    (.cons rfl (.cons hb (.cons rfl (.cons rfl (.cons rfl (.cons rfl
    (.cons rfl (.cons sl (.cons rfl (.cons rfl
    (.cons rfl (.cons rfl (.cons rfl (.cons n7 (.cons rfl (.cons rfl .nil)))))))))))))))))))))

theorem demoS_code1 (S : Array Cell) : CodeAt2 demoDS lamCtxS.envmap demoHeapS S 1 0 demoLamS.bc := by
  refine CompileCorrect2.Toy.CodeAt2.ofAll2 cellsS1 rfl (fun i _ => by rw [Nat.zero_add]; rfl) ?_
  have sn : Loads2 demoDS lamCtxS.envmap demoHeapS S (.envSlot kn) (.lexEnvSlot 0) := ⟨0, by decide, rfl⟩
  have sl : Loads2 demoDS lamCtxS.envmap demoHeapS S (.envSlot kloop) (.lexEnvSlot 1) := ⟨1, by decide, rfl⟩
  have hlam : Loads2 demoDS lamCtxS.envmap demoHeapS S (.lambda 0) (.ptr 0) := by
    refine ⟨rfl, fun lamM hl => ?_⟩
    obtain rfl : lamM = demoLamL := by injection hl with e; exact e.symm
    exact ⟨rfl, by decide⟩
  exact .cons rfl (.cons rfl (.cons hlam (.cons rfl (.cons rfl (.cons rfl (.cons rfl (.cons sl
    (.cons rfl (.cons rfl (.cons rfl
    (.cons rfl (.cons sn (.cons rfl (.cons rfl (.cons rfl (.cons rfl
    (.cons rfl (.cons sl (.cons rfl (.cons rfl (.cons rfl .nil)))))))))))))))))))))

theorem demoS_code2 (S : Array Cell) : CodeAt2 demoDS c0.envmap demoHeapS S 2 0 progCodeS := by
  refine CompileCorrect2.Toy.CodeAt2.ofAll2 cellsS2 rfl (fun i _ => by rw [Nat.zero_add]; rfl) ?_
  have hb : Loads2 demoDS c0.envmap demoHeapS S (.datum (.bool true)) (.bool true) :=
    ⟨(by intro o e; cases e), .atom rfl (.base rfl)⟩
  have hlam : Loads2 demoDS c0.envmap demoHeapS S (.lambda 1) (.ptr 1) := by
    refine ⟨rfl, fun lamM hl => ?_⟩
    obtain rfl : lamM = demoLamS := by injection hl with e; exact e.symm
    exact ⟨rfl, by decide⟩
  exact .cons rfl (.cons hb (.cons rfl (.cons rfl (.cons rfl (.cons rfl (.cons rfl (.cons hlam (.cons rfl
    (.cons rfl (.cons rfl .nil))))))))))

theorem demoS_inv : Inv3 demoDS W0 demoHeapS demoSt := by
  refine ⟨(by intro x w h; cases h), (by intro x h; cases h), ⟨keepB_nil _, fun _ h => absurd h List.not_mem_nil⟩,
    (by intro x h; cases h), ?_,
    (by intro e n l l' h; cases h),
    (by intro e n e' n' l h; cases h), (by intro e n l h; cases h), (by intro e n l h; cases h)⟩
  intro id lamM hid
  rcases demoS_final_get hid with ⟨rfl, rfl⟩ | ⟨rfl, rfl⟩
  · exact ⟨demoS_code0 _, rfl⟩
  · exact ⟨demoS_code1 _, rfl⟩

/-- **Non-vacuity of stage 3, self recursion**: the machine run of
    `((lambda (n) (define (loop i) (if i (loop #f) 7)) (loop n)) #t)` exists (CLOSURE, CALL, ENTER with the slot of
    `loop` `Undefined`, CLOSURE capturing that slot, the store into it, TCALL of `loop`, its TCALL of itself through
    the captured location, RET) and ends with a representation of `7`. -/
theorem demo_selfrec_runs :
    ∃ W' s', Run3 demoDS W' demoStateS 11 demoSt demoStS' (.int 7) s' := by
  obtain ⟨W', s', _, r⟩ := compileExpr_correct3_nontail (laws3 [demoLamL, demoLamS]) 20 {} c0 0 progS _ progCodeS []
    (fun _ => False) demoS_frag ctxOK_top demoS_compile (List.prefix_refl _) 9 demoSt (.int 7) demoStS' demoS_eval
    W0 demoStateS (demoS_code2 _) rfl demoS_inv (envRep3_top _ _ _ _) (by show 0 < 8; omega)
  exact ⟨W', s', r⟩

/-- … in particular `acc` shows the number's cell -/
theorem demo_selfrec_acc :
    ∃ W' s', Run3 demoDS W' demoStateS 11 demoSt demoStS' (.int 7) s' ∧ tDeref s'.heap s'.acc = .opaque "n7" := by
  obtain ⟨W', s', r⟩ := demo_selfrec_runs
  exact ⟨W', s', r, tVR3_int r.acc⟩

/-! ## mutual recursion: `(define x (lambda …))`, the first lambda mentions a name defined later -/

def kbM : Text := ['b']
def kev : Text := ['e', 'v']
def kod : Text := ['o', 'd']

/-- `(x)` -/
def formalsX : Datum := Datum.ofList [.sym kx]

/-- `(if x (od #f) 1)` -/
def ifEv : Datum := Datum.ofList [.sym k_if_, .sym kx, Datum.ofList [.sym kod, .bool false], .num (.fix 1)]

/-- `(if x (ev #f) 2)` -/
def ifOd : Datum := Datum.ofList [.sym k_if_, .sym kx, Datum.ofList [.sym kev, .bool false], .num (.fix 2)]

def lamEv : Datum := .pair (.sym k_lambda) (.pair formalsX (.pair ifEv .nil))

def lamOd : Datum := .pair (.sym k_lambda) (.pair formalsX (.pair ifOd .nil))

/-- `(ev b)` -/
def callM : Datum := Datum.ofList [.sym kev, .sym kbM]

def bodyM : Datum := .pair (defForm kev lamEv) (.pair (defForm kod lamOd) (.pair callM .nil))

def lamM : Datum := .pair (.sym k_lambda) (.pair (Datum.ofList [.sym kbM]) bodyM)

def progM : Datum := Datum.ofList [lamM, .bool true]

/-- the enclosing lambda: `b`, the internal definitions `ev`, `od` -/
def lamCtxM : Ctx := ⟨[kbM], [(kbM, .argument 0), (kev, .internal), (kod, .internal)]⟩

/-- `ev`: `x`, the captured location of `od` -/
def lamCtxEv : Ctx := ⟨[kx], [(kx, .argument 0), (kod, .iofEnvironment)]⟩

/-- `od`: `x`, the captured location of `ev` -/
def lamCtxOd : Ctx := ⟨[kx], [(kx, .argument 0), (kev, .iofEnvironment)]⟩

def bodyCodeEv : List BC :=
  [.op .mov, .envSlot kx, .acc, .op .jnt, .target 18,
   .op .movImm, .datum (.bool false), .acc, .op .pushAcc, .op .pushImm, .argc 1,
   .op .mov, .envSlot kod, .acc, .op .tcallAcc,
   .op .jmp, .target 21, .op .movImm, .datum (.num (.fix 1)), .acc]

def bodyCodeOd : List BC :=
  [.op .mov, .envSlot kx, .acc, .op .jnt, .target 18,
   .op .movImm, .datum (.bool false), .acc, .op .pushAcc, .op .pushImm, .argc 1,
   .op .mov, .envSlot kev, .acc, .op .tcallAcc,
   .op .jmp, .target 21, .op .movImm, .datum (.num (.fix 2)), .acc]

def bodyCodeM : List BC :=
  [.op .movImm, .lambda 0, .acc, .op .closureAcc, .op .mov, .acc, .envSlot kev, .op .movImm, .void, .acc,
   .op .movImm, .lambda 1, .acc, .op .closureAcc, .op .mov, .acc, .envSlot kod, .op .movImm, .void, .acc,
   .op .mov, .envSlot kbM, .acc, .op .pushAcc, .op .pushImm, .argc 1,
   .op .mov, .envSlot kev, .acc, .op .tcallAcc]

def partsEv : LambdaParts :=
  { formals := [kx], isVararg := false, ctx := lamCtxEv, prologue := [.op .enter], body := .pair ifEv .nil }

def partsOd : LambdaParts :=
  { formals := [kx], isVararg := false, ctx := lamCtxOd, prologue := [.op .enter], body := .pair ifOd .nil }

def partsM : LambdaParts :=
  { formals := [kbM], isVararg := false, ctx := lamCtxM, prologue := [.op .enter], body := bodyM }

def demoLamEv : LambdaM := lamOf partsEv bodyCodeEv

def demoLamOd : LambdaM := lamOf partsOd bodyCodeOd

def demoLamM : LambdaM := lamOf partsM bodyCodeM

def progCodeM : List BC :=
  [.op .movImm, .datum (.bool true), .acc, .op .pushAcc, .op .pushImm, .argc 1,
   .op .movImm, .lambda 2, .acc, .op .closureAcc, .op .callAcc]

theorem demoM_parts : lambdaParts 18 c0 lamM false = .ok partsM := by rfl

theorem demoEv_parts : lambdaParts 15 lamCtxM lamEv false = .ok partsEv := by rfl

theorem demoOd_parts : lambdaParts 14 lamCtxM lamOd false = .ok partsOd := by rfl

theorem demoM_compile :
    compileExpr 20 {} c0 0 false progM = .ok ({ lambdas := [demoLamEv, demoLamOd, demoLamM] }, progCodeM) :=
  CompileCorrect2.Toy.okIs_eq (by decide +kernel)

/-- lambda 0: `ev` -/
def cellsM0 : List VCell :=
  [.opcode .enter, .opcode .mov, .lexEnvSlot 0, .acc, .opcode .jnt, .ptr 18,
   .opcode .movImm, .bool false, .acc, .opcode .pushAcc, .opcode .pushImm, .argc 1,
   .opcode .mov, .lexEnvSlot 1, .acc, .opcode .tcallAcc,
   .opcode .jmp, .ptr 21, .opcode .movImm, .opaque "n1", .acc, .opcode .ret]

/-- lambda 1: `od` -/
def cellsM1 : List VCell :=
  [.opcode .enter, .opcode .mov, .lexEnvSlot 0, .acc, .opcode .jnt, .ptr 18,
   .opcode .movImm, .bool false, .acc, .opcode .pushAcc, .opcode .pushImm, .argc 1,
   .opcode .mov, .lexEnvSlot 1, .acc, .opcode .tcallAcc,
   .opcode .jmp, .ptr 21, .opcode .movImm, .opaque "n2", .acc, .opcode .ret]

/-- lambda 2: the enclosing lambda -/
def cellsM2 : List VCell :=
  [.opcode .enter, .opcode .movImm, .ptr 0, .acc, .opcode .closureAcc, .opcode .mov, .acc, .lexEnvSlot 1,
   .opcode .movImm, .void, .acc,
   .opcode .movImm, .ptr 1, .acc, .opcode .closureAcc, .opcode .mov, .acc, .lexEnvSlot 2,
   .opcode .movImm, .void, .acc,
   .opcode .mov, .lexEnvSlot 0, .acc, .opcode .pushAcc, .opcode .pushImm, .argc 1,
   .opcode .mov, .lexEnvSlot 1, .acc, .opcode .tcallAcc, .opcode .ret]

/-- the top-level code -/
def cellsM3 : List VCell :=
  [.opcode .movImm, .bool true, .acc, .opcode .pushAcc, .opcode .pushImm, .argc 1,
   .opcode .movImm, .ptr 2, .acc, .opcode .closureAcc, .opcode .callAcc]

/-- `ev` takes its second entry from slot 2 (`od`) of the enclosing lambda's environment, `od` from slot 1 (`ev`) -/
def demoHeapM : THeap :=
  { lams := [⟨cellsM0, 1, [.arg 0, .iofEnv 2]⟩, ⟨cellsM1, 1, [.arg 0, .iofEnv 1]⟩,
             ⟨cellsM2, 1, [.arg 0, .internal, .internal]⟩, ⟨cellsM3, 0, []⟩],
    envs := #[], cells := #[], globals := #[] }

def demoStateM : MSt THeap :=
  { heap := demoHeapM, stack := ⟨List.replicate 8 .undefined, 0⟩, acc := .undefined, ep := 0, ipL := 3, ipO := 0,
    bp := 0 }

/-- the environment both closures are closed over: the locations of `od`, `ev`, `b` -/
def envM : Spec.Eval.Env := [(kod, 2), (kev, 1), (kbM, 0)]

/-- the specification's final state: the cells of `b`, `ev`, `od`, and of `x` in the activations of `ev` and `od` -/
def demoStM' : SSt :=
  { globals := []
    store := #[.var (.bool true), .var (.closure [kx] none [ifEv] envM), .var (.closure [kx] none [ifOd] envM),
               .var (.bool true), .var (.bool false)]
    out := [] }

theorem demoM_eval : (evalN 9).eval progM [] demoSt = .ok (.int 2) demoStM' := by rfl

abbrev demoDM : RepData2 tops := tD3 [demoLamEv, demoLamOd, demoLamM]

theorem demoM_frag : F3 (fun _ => False) 20 c0 (bound []) (fun _ => False) false progM := by
  have hb : inEnv lamCtxM kbM = true := by decide
  have he : inEnv lamCtxM kev = true := by decide
  have ho : inEnv lamCtxM kod = true := by decide
  have hde : AppHead (.sym kev) := ⟨by decide, by intro x h; injection h with h; subst h; rfl⟩
  have hdo : AppHead (.sym kod) := ⟨by decide, by intro x h; injection h with h; subst h; rfl⟩
  refine F3.app lamM _ ⟨by decide, by intro x h; cases h⟩ ?_ (F3L.cons _ _ (F3.bool true) F3L.nil)
  refine F3.lambda (Datum.ofList [.sym kbM]) _ partsM [kbM] none [kev, kod] [] demoM_parts (by rfl) rfl rfl (by decide)
    rfl (by intro q hq; cases hq) ?_
  -- the body: a block of two definitions
  refine F3B.block [kev, kod] _ _ (by decide) ?_
  refine F3K.defl kev formalsX (.pair ifEv .nil) (defForm kod lamOd) (.pair callM .nil) [kod] he (.inl (by decide))
    (by rfl) ?_ (F3K.defl kod formalsX (.pair ifOd .nil) callM .nil [] ho (.inl (by decide)) (by rfl) ?_ ?_)
  · -- `ev`: captures the location of `od`, which is defined LATER; its body calls `od`
    refine F3.lambda formalsX _ partsEv [kx] none [] [(kod, .iofEnvironment)] demoEv_parts (by rfl) rfl rfl (by decide)
      rfl ?_ ?_
    · intro q hq
      obtain rfl : q = (kod, .iofEnvironment) := by simpa using hq
      exact ⟨rfl, ho, fun h => h.2 (by decide)⟩
    · refine F3B.last _ rfl (F3.if3 _ _ _
        (F3.sym kx ⟨fun _ => .inl (by decide), fun _ => by decide⟩ (by decide)) ?_ (F3.num _))
      exact F3.app _ _ hdo (F3.sym kod ⟨fun _ => .inr (.inl (by decide)), fun _ => by decide⟩ (by decide))
        (F3L.cons _ _ (F3.bool false) F3L.nil)
  · -- `od`: captures the location of `ev`; its body calls `ev`
    refine F3.lambda formalsX _ partsOd [kx] none [] [(kev, .iofEnvironment)] demoOd_parts (by rfl) rfl rfl (by decide)
      rfl ?_ ?_
    · intro q hq
      obtain rfl : q = (kev, .iofEnvironment) := by simpa using hq
      exact ⟨rfl, he, fun h => h.2 (by decide)⟩
    · refine F3B.last _ rfl (F3.if3 _ _ _
        (F3.sym kx ⟨fun _ => .inl (by decide), fun _ => by decide⟩ (by decide)) ?_ (F3.num _))
      exact F3.app _ _ hde (F3.sym kev ⟨fun _ => .inr (.inl (by decide)), fun _ => by decide⟩ (by decide))
        (F3L.cons _ _ (F3.bool false) F3L.nil)
  · -- the rest of the enclosing body: `(ev b)`, the block now readable
    refine F3K.done _ _ (F3B.last _ rfl ?_)
    exact F3.app _ _ hde (F3.sym kev ⟨fun _ => .inl (by decide), fun _ => he⟩ (fun h => h.2 (by decide)))
      (F3L.cons _ _ (F3.sym kbM ⟨fun _ => .inl (by decide), fun _ => hb⟩ (fun h => absurd h.1 (by decide))) F3L.nil)

theorem demoM_final_get {id : Nat} {lamM : LambdaM}
    (h : ([demoLamEv, demoLamOd, demoLamM] : List LambdaM)[id]? = some lamM) :
    (id = 0 ∧ lamM = demoLamEv) ∨ (id = 1 ∧ lamM = demoLamOd) ∨ (id = 2 ∧ lamM = demoLamM) := by
  match id, h with
  | 0, h => exact .inl ⟨rfl, by injection h with e; exact e.symm⟩
  | 1, h => exact .inr (.inl ⟨rfl, by injection h with e; exact e.symm⟩)
  | 2, h => exact .inr (.inr ⟨rfl, by injection h with e; exact e.symm⟩)
  | n + 3, h => simp at h

theorem demoM_code0 (S : Array Cell) : CodeAt2 demoDM lamCtxEv.envmap demoHeapM S 0 0 demoLamEv.bc := by
  refine CompileCorrect2.Toy.CodeAt2.ofAll2 cellsM0 rfl (fun i _ => by rw [Nat.zero_add]; rfl) ?_
  have sx : Loads2 demoDM lamCtxEv.envmap demoHeapM S (.envSlot kx) (.lexEnvSlot 0) := ⟨0, by decide, rfl⟩
  have so : Loads2 demoDM lamCtxEv.envmap demoHeapM S (.envSlot kod) (.lexEnvSlot 1) := ⟨1, by decide, rfl⟩
  have hb : Loads2 demoDM lamCtxEv.envmap demoHeapM S (.datum (.bool false)) (.bool false) :=
    ⟨(by intro o e; cases e), .atom rfl (.base rfl)⟩
  have n1 := loads_num demoDM rfl 1 (.fix 1) rfl "n1" (by decide) demoHeapM S lamCtxEv.envmap
  exact .cons rfl (.cons rfl (.cons sx (.cons rfl (.cons rfl (.cons rfl
    (.cons rfl (.cons hb (.cons rfl (.cons rfl (.cons rfl (.cons rfl
    (.cons rfl (.cons so (.cons rfl (.cons rfl
    (.cons rfl (.cons rfl (.cons rfl (.cons n1 (.cons rfl (.cons rfl .nil)))))))))))))))))))))

theorem demoM_code1 (S : Array Cell) : CodeAt2 demoDM lamCtxOd.envmap demoHeapM S 1 0 demoLamOd.bc := by
  refine CompileCorrect2.Toy.CodeAt2.ofAll2 cellsM1 rfl (fun i _ => by rw [Nat.zero_add]; rfl) ?_
  have sx : Loads2 demoDM lamCtxOd.envmap demoHeapM S (.envSlot kx) (.lexEnvSlot 0) := ⟨0, by decide, rfl⟩
  have se : Loads2 demoDM lamCtxOd.envmap demoHeapM S (.envSlot kev) (.lexEnvSlot 1) := ⟨1, by decide, rfl⟩
  have hb : Loads2 demoDM lamCtxOd.envmap demoHeapM S (.datum (.bool false)) (.bool false) :=
    ⟨(by intro o e; cases e), .atom rfl (.base rfl)⟩
  have n2 := loads_num demoDM rfl 2 (.fix 2) rfl "n2" (by decide) demoHeapM S lamCtxOd.envmap
  exact .cons rfl (.cons rfl (.cons sx (.cons rfl (.cons rfl (.cons rfl
    (.cons rfl (.cons hb (.cons rfl (.cons rfl (.cons rfl (.cons rfl
    (.cons rfl (.cons se (.cons rfl (.cons rfl
    (.cons rfl (.cons rfl (.cons rfl (.cons n2 (.cons rfl (.cons rfl .nil)))))))))))))))))))))

theorem demoM_code2 (S : Array Cell) : CodeAt2 demoDM lamCtxM.envmap demoHeapM S 2 0 demoLamM.bc := by
  refine CompileCorrect2.Toy.CodeAt2.ofAll2 cellsM2 rfl (fun i _ => by rw [Nat.zero_add]; rfl) ?_
  have sb : Loads2 demoDM lamCtxM.envmap demoHeapM S (.envSlot kbM) (.lexEnvSlot 0) := ⟨0, by decide, rfl⟩
  have se : Loads2 demoDM lamCtxM.envmap demoHeapM S (.envSlot kev) (.lexEnvSlot 1) := ⟨1, by decide, rfl⟩
  have so : Loads2 demoDM lamCtxM.envmap demoHeapM S (.envSlot kod) (.lexEnvSlot 2) := ⟨2, by decide, rfl⟩
  have hl0 : Loads2 demoDM lamCtxM.envmap demoHeapM S (.lambda 0) (.ptr 0) := by
    refine ⟨rfl, fun lamM hl => ?_⟩
    obtain rfl : lamM = demoLamEv := by injection hl with e; exact e.symm
    exact ⟨rfl, by decide⟩
  have hl1 : Loads2 demoDM lamCtxM.envmap demoHeapM S (.lambda 1) (.ptr 1) := by
    refine ⟨rfl, fun lamM hl => ?_⟩
    obtain rfl : lamM = demoLamOd := by injection hl with e; exact e.symm
    exact ⟨rfl, by decide⟩
  exact .cons rfl (.cons rfl (.cons hl0 (.cons rfl (.cons rfl (.cons rfl (.cons rfl (.cons se
    (.cons rfl (.cons rfl (.cons rfl
    (.cons rfl (.cons hl1 (.cons rfl (.cons rfl (.cons rfl (.cons rfl (.cons so
    (.cons rfl (.cons rfl (.cons rfl
    (.cons rfl (.cons sb (.cons rfl (.cons rfl (.cons rfl (.cons rfl
    (.cons rfl (.cons se (.cons rfl (.cons rfl (.cons rfl .nil)))))))))))))))))))))))))))))))

theorem demoM_code3 (S : Array Cell) : CodeAt2 demoDM c0.envmap demoHeapM S 3 0 progCodeM := by
  refine CompileCorrect2.Toy.CodeAt2.ofAll2 cellsM3 rfl (fun i _ => by rw [Nat.zero_add]; rfl) ?_
  have hb : Loads2 demoDM c0.envmap demoHeapM S (.datum (.bool true)) (.bool true) :=
    ⟨(by intro o e; cases e), .atom rfl (.base rfl)⟩
  have hlam : Loads2 demoDM c0.envmap demoHeapM S (.lambda 2) (.ptr 2) := by
    refine ⟨rfl, fun lamM hl => ?_⟩
    obtain rfl : lamM = demoLamM := by injection hl with e; exact e.symm
    exact ⟨rfl, by decide⟩
  exact .cons rfl (.cons hb (.cons rfl (.cons rfl (.cons rfl (.cons rfl (.cons rfl (.cons hlam (.cons rfl
    (.cons rfl (.cons rfl .nil))))))))))

theorem demoM_inv : Inv3 demoDM W0 demoHeapM demoSt := by
  refine ⟨(by intro x w h; cases h), (by intro x h; cases h), ⟨keepB_nil _, fun _ h => absurd h List.not_mem_nil⟩,
    (by intro x h; cases h), ?_,
    (by intro e n l l' h; cases h),
    (by intro e n e' n' l h; cases h), (by intro e n l h; cases h), (by intro e n l h; cases h)⟩
  intro id lamM hid
  rcases demoM_final_get hid with ⟨rfl, rfl⟩ | ⟨rfl, rfl⟩ | ⟨rfl, rfl⟩
  · exact ⟨demoM_code0 _, rfl⟩
  · exact ⟨demoM_code1 _, rfl⟩
  · exact ⟨demoM_code2 _, rfl⟩

/-- **Non-vacuity of stage 3, mutual recursion**: the machine run of
    `((lambda (b) (define ev (lambda (x) (if x (od #f) 1))) (define od (lambda (x) (if x (ev #f) 2))) (ev b)) #t)`
    exists (ENTER with the slots of `ev` and `od` `Undefined`; CLOSURE of `ev` capturing the still `Undefined` slot of
    `od`; the two stores; TCALL of `ev`, its TCALL of `od` through the captured location; RET) and ends with a
    representation of `2`. -/
theorem demo_mutrec_runs :
    ∃ W' s', Run3 demoDM W' demoStateM 11 demoSt demoStM' (.int 2) s' := by
  obtain ⟨W', s', _, r⟩ := compileExpr_correct3_nontail (laws3 [demoLamEv, demoLamOd, demoLamM]) 20 {} c0 0 progM _
    progCodeM [] (fun _ => False) demoM_frag ctxOK_top demoM_compile (List.prefix_refl _) 9 demoSt (.int 2) demoStM'
    demoM_eval W0 demoStateM (demoM_code3 _) rfl demoM_inv (envRep3_top _ _ _ _) (by show 0 < 8; omega)
  exact ⟨W', s', r⟩

/-- … in particular `acc` shows the number's cell -/
theorem demo_mutrec_acc :
    ∃ W' s', Run3 demoDM W' demoStateM 11 demoSt demoStM' (.int 2) s' ∧ tDeref s'.heap s'.acc = .opaque "n2" := by
  obtain ⟨W', s', r⟩ := demo_mutrec_runs
  exact ⟨W', s', r, tVR3_int r.acc⟩

end Marwood.Lemmas.CompileCorrect3.Toy
