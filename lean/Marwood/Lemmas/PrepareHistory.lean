import Marwood.Lemmas.PrepareMain
import Marwood.Lemmas.ContResumeCap
/-!
# Histories of evaluations with the loader made explicit

`C07.runHistory` runs each job from `prepare s j.entry`: the entry lambda is assumed to be in the heap already, and the
history-level theorems (C07 T07.4, C12 `history_capacity_bounded_machine`, C06 `history_never_panics_machine`) ask the
bundled invariant `VmOkP` of EVERY state in which a job starts (`JobsOk`, `HistGood`). `HistInstalls` is the history
relation in which `prepare_eval` is a step of its own:

* `ran`      — the compiler accepted the form: `Installs e cfuel s s1 entry`, then `runEval` from `prepare s1 entry`; the
               next event starts in the state the evaluation returned (as in `runHistory`: an evaluation that exhausts the
               model's fuel is skipped — it does not return in the real VM either);
* `rejected` — the compiler rejected the form: `InstallsGarbage s g` (what it allocated before), then the collection of
               the `Err` arm of `prepare_eval`.

The index records, per event, the state the evaluation started in and its result (or the state with the garbage).
`histInstalls_ok`: from the idle invariant of the INITIAL state — and the physical size bounds — every job starts in
a `VmOkP` state, every rejected form leaves an idle machine, and the final state is idle.
-/
namespace Marwood.Lemmas.Good
open Marwood Marwood.Vm Marwood.Vm.Verify Marwood.Vm.Concrete Marwood.Lemmas.Sim
open Marwood.Lemmas.MachineGarbage Marwood.Lemmas.PolicySessionOk Marwood.Lemmas.PolicySessionMain
open Marwood.Heap (GcState)

variable {ext : ExtOps} {ecl : ExtCodeLawsV ext}

/-! ## how the run loop ends -/

/-- a run that ends in `done` executed a halting instruction in a reachable state; a run that ends in `error` failed
    in a reachable state -/
theorem runLoop_last (ext : ExtOps) (force : Bool) (count : Option Nat) : ∀ (fuel c : Nat) (s : St CHeap),
    (∀ sd, runLoop (machine ext force) count fuel c s = .done sd →
      ∃ sh, Reaches (machine ext force) s sh ∧ (machine ext force).step sh = .halt sd) ∧
    (∀ f sf, runLoop (machine ext force) count fuel c s = .error f sf → Reaches (machine ext force) s sf) := by
  intro fuel
  induction fuel with
  | zero => intro c s; simp [runLoop]
  | succ n ih =>
    intro c s
    simp only [runLoop]
    have hr0 : Reaches (machine ext force) s (if (c + 1) % 8192 = 0 then (machine ext force).gc s else s) := by
      split
      · exact .gc (.refl s)
      · exact .refl s
    generalize (if (c + 1) % 8192 = 0 then (machine ext force).gc s else s) = s1 at hr0
    cases hst : (machine ext force).step s1 with
    | halt s' =>
      refine ⟨fun sd h => ?_, fun f sf h => (by cases h)⟩
      cases h
      exact ⟨s1, hr0, hst⟩
    | fail e s' =>
      refine ⟨fun sd h => (by cases h), fun f sf h => ?_⟩
      cases h
      have : s' = s1 := vmStep_fail hst
      rw [this]; exact hr0
    | next s' =>
      simp only
      split
      · exact ⟨fun sd h => (by cases h), fun f sf h => (by cases h)⟩
      · obtain ⟨a, b⟩ := ih (c + 1) s'
        refine ⟨fun sd h => ?_, fun f sf h => hr0.trans ((Reaches.next (.refl s1) hst).trans (b f sf h))⟩
        obtain ⟨sh, h1, h2⟩ := a sd h
        exact ⟨sh, hr0.trans ((Reaches.next (.refl s1) hst).trans h1), h2⟩

/-- the stack vector never shrinks along a run -/
theorem reaches_len_mono {force : Bool} {s s' : St CHeap} (hr : Reaches (machine ext force) s s') :
    s.stack.cells.length ≤ s'.stack.cells.length := by
  induction hr with
  | refl => exact Nat.le_refl _
  | next _ e ih => exact Nat.le_trans ih (step_len_mono (vmStep_next e))
  | halt _ e ih => exact Nat.le_trans ih (step_len_mono (vmStep_halt e))
  | @gc s1 _ ih =>
    have : ((machine ext force).gc s1).stack = s1.stack := (cgc_regs force s1).1
    rw [this]; exact ih

/-- every heap an evaluation started in `s0` produces has at most `2^62` cells (`EvalSizeBounded` of
    Lemmas/PolicySessionOk.lean) — restated as a local abbreviation of what is used here -/
theorem idleOk_runEval (force : Bool) (el : ExtLaws ext) (eg : ExtGood ext) (ep : ExtProc ext) {p : St CHeap}
    (h : VmOkP ext ecl p) (hcap : 0 < p.stack.cells.length) (sb : EvalSizeBounded ext force p) (count : Option Nat)
    (fuel : Nat) :
    (∀ s', runEval (concreteOps ext) (cgc force) count fuel p = .value s' → IdleOk s') ∧
    (∀ f s', runEval (concreteOps ext) (cgc force) count fuel p = .failed f s' → IdleOk s') := by
  have em : (⟨vmStep (concreteOps ext), cgc force⟩ : Machine (St CHeap) Fault) = machine ext force := rfl
  obtain ⟨a, b⟩ := runLoop_last ext force count fuel 0 p
  constructor
  · intro s' hr
    unfold runEval at hr
    rw [em] at hr
    cases hl : runLoop (machine ext force) count fuel 0 p with
    | done sd =>
      rw [hl] at hr
      cases hr
      obtain ⟨sh, hreach, hstep⟩ := a sd hl
      have hvs : VmOkP ext ecl sh := vmOkP_reaches force el eg ep h sb.run sh hreach
      have hreach' : Reaches (machine ext force) p sd := .halt hreach hstep
      have hvd : VmOkP ext ecl sd := vmOkP_reaches force el eg ep h sb.run sd hreach'
      have hs : step (concreteOps ext) sh = .ok (sd, true) := vmStep_halt hstep
      have hstack : sd.stack.sp = 0 ∧ 0 < sd.stack.cells.length := by
        rcases hvs.1.2 with ⟨K, hw⟩ | hh
        · have hv := step_vops (ext := ext) eg hvs.1.1 (fun _ => hvs.calleeOk) hs (sb.run sd hreach')
          obtain ⟨e1, e2⟩ := step_halt hw hv
          have hc := hw.wf.cap
          rw [e1]
          have e2' : sh.stack.sp = 0 := e2
          exact ⟨e2', by omega⟩
        · exact absurd hs (haltedAt_no_step hh _)
      exact (idleOk_onDone hvd.1.1 hvd.1.cinv hvd.2 hstack.1 hstack.2).gc force (sb.done sd hreach')
    | error f sf => rw [hl] at hr; cases hr
    | paused sp => rw [hl] at hr; cases hr
    | fuel => rw [hl] at hr; cases hr
  · intro f s' hr
    unfold runEval at hr
    rw [em] at hr
    cases hl : runLoop (machine ext force) count fuel 0 p with
    | error f' sf =>
      rw [hl] at hr
      cases hr
      have hreach := b _ sf hl
      have hvf : VmOkP ext ecl sf := vmOkP_reaches force el eg ep h sb.run sf hreach
      have hc : 0 < sf.stack.cells.length := Nat.lt_of_lt_of_le hcap (reaches_len_mono hreach)
      exact (idleOk_onError hvf.1.1 hvf.1.cinv hvf.2 hc).gc force (sb.error sf hreach)
    | done sd => rw [hl] at hr; cases hr
    | paused sp => rw [hl] at hr; cases hr
    | fuel => rw [hl] at hr; cases hr

/-! ## histories -/

/-- what is recorded of one event -/
inductive EvRec
  | ran (p : St CHeap) (r : EvalRes CHeap)
  | rejected (g : St CHeap)

/-- the state the next event starts in -/
def nextState (s : St CHeap) : EvalRes CHeap → St CHeap
  | .value s' => s'
  | .failed _ s' => s'
  | .paused s' => s'
  | .fuel => s

/-- **a history of `eval` calls with `prepare_eval` as a step of its own** -/
inductive HistInstalls (ext : ExtOps) (force : Bool) : St CHeap → List EvRec → St CHeap → Prop
  | nil (s : St CHeap) : HistInstalls ext force s [] s
  | ran {s s1 sf : St CHeap} {e : Datum} {cfuel entry fuel : Nat} {recs : List EvRec} :
      Installs e cfuel s s1 entry →
      HistInstalls ext force (nextState s (runEval (concreteOps ext) (cgc force) none fuel (prepare s1 entry))) recs sf →
      HistInstalls ext force s
        (.ran (prepare s1 entry) (runEval (concreteOps ext) (cgc force) none fuel (prepare s1 entry)) :: recs) sf
  | rejected {s g sf : St CHeap} {recs : List EvRec} :
      InstallsGarbage s g → HistInstalls ext force (cgc force g) recs sf →
      HistInstalls ext force s (.rejected g :: recs) sf

/-- the physical size bounds of one event -/
def RecSized (ext : ExtOps) (force : Bool) : EvRec → Prop
  | .ran p _ => EvalSizeBounded ext force p
  | .rejected g => Small g.heap ∧ Small (cgc force g).heap

theorem runEval_none_not_paused (ext : ExtOps) (force : Bool) (fuel : Nat) (p sp : St CHeap) :
    runEval (concreteOps ext) (cgc force) none fuel p ≠ .paused sp := by
  intro hr
  have key : ∀ (f c : Nat) (s x : St CHeap),
      runLoop (⟨vmStep (concreteOps ext), cgc force⟩ : Machine (St CHeap) Fault) none f c s ≠ .paused x := by
    intro f
    induction f with
    | zero => intro c s x; simp [runLoop]
    | succ f ihf =>
      intro c s x
      simp only [runLoop]
      split
      · simp
      · simp
      · simp only [reduceCtorEq, if_false]; exact ihf _ _ _
  unfold runEval at hr
  split at hr <;> first | (cases hr; done) | skip
  rename_i sp' hp
  exact key _ _ _ _ hp

/-- **every job of a history starts in a state satisfying the bundled invariant** — from the idle invariant of the
    INITIAL state, `Installs` of every `prepare_eval`, the laws of the unmodelled parts and the size bounds; a rejected
    form leaves an idle machine, and so does the whole history -/
theorem histInstalls_ok (force : Bool) (el : ExtLaws ext) (eg : ExtGood ext) (ep : ExtProc ext) {s0 sf : St CHeap}
    {recs : List EvRec} (hist : HistInstalls ext force s0 recs sf) (i0 : IdleOk s0)
    (sz : ∀ rc ∈ recs, RecSized ext force rc) :
    (∀ p r, EvRec.ran p r ∈ recs → VmOkP ext ecl p ∧ 0 < p.stack.cells.length) ∧
    (∀ g, EvRec.rejected g ∈ recs → IdleOk g) ∧ IdleOk sf := by
  induction hist with
  | nil s => exact ⟨fun _ _ h => (by cases h), fun _ h => (by cases h), i0⟩
  | @ran s s1 sf e cfuel entry fuel recs inst _ ih =>
    have sb : EvalSizeBounded ext force (prepare s1 entry) := sz _ (List.mem_cons_self ..)
    have sm : Small s1.heap := sb.run (prepare s1 entry) (.refl _)
    have hv : VmOkP ext ecl (prepare s1 entry) := prepare_vmOkP_idle i0 inst sm
    have hcap : 0 < (prepare s1 entry).stack.cells.length := by
      have := i0.cap
      rw [inst.regs]; exact this
    obtain ⟨k1, k2⟩ := idleOk_runEval (ecl := ecl) force el eg ep hv hcap sb none fuel
    have inext : IdleOk (nextState s (runEval (concreteOps ext) (cgc force) none fuel (prepare s1 entry))) := by
      cases hr : runEval (concreteOps ext) (cgc force) none fuel (prepare s1 entry) with
      | value s' => exact k1 s' hr
      | failed f s' => exact k2 f s' hr
      | paused s' => exact absurd hr (runEval_none_not_paused ext force fuel _ s')
      | fuel => exact i0
    obtain ⟨a, b, c⟩ := ih inext (fun rc h => sz rc (List.mem_cons_of_mem _ h))
    refine ⟨?_, ?_, c⟩
    · intro p r hm
      rcases List.mem_cons.mp hm with e1 | e1
      · cases e1; exact ⟨hv, hcap⟩
      · exact a p r e1
    · intro g hm
      rcases List.mem_cons.mp hm with e1 | e1
      · cases e1
      · exact b g e1
  | @rejected s g sf recs inst _ ih =>
    have ⟨sm1, sm2⟩ : Small g.heap ∧ Small (cgc force g).heap := sz _ (List.mem_cons_self ..)
    have ig : IdleOk g := (i0.installs inst sm1).1
    obtain ⟨a, b, c⟩ := ih (ig.gc force sm2) (fun rc h => sz rc (List.mem_cons_of_mem _ h))
    refine ⟨?_, ?_, c⟩
    · intro p r hm
      rcases List.mem_cons.mp hm with e1 | e1
      · cases e1
      · exact a p r e1
    · intro g' hm
      rcases List.mem_cons.mp hm with e1 | e1
      · cases e1; exact ig
      · exact b g' e1

end Marwood.Lemmas.Good
