import Marwood.Lemmas.EvalConverseMain
import Marwood.Lemmas.EvalDerived2Case
/-!
# T01.2, second half, CONVERSE direction for the expansions that bind an identifier of their own:
`or` (binder `var1`), `cond` test-only / `=>` clauses (binder `temp`), `case` with a compound key (`atom-key`)

`Lemmas/EvalDerived2*.lean`: the native run (guarded, `guardN`) definite ⇒ the expansion has the related
outcome. Here: the EXPANSION's run definite, slack-guarded (`sguardN 1`: the one extra cell the binder
occupies) ⇒ the native meaning, with the SAME fuel (the expansions nest at least as deep as the native
forms), has the related outcome (`AgreesConv`).

* `binder_agree_conv`: mirror of `Extra.binder_agree`;
* `let_small_conv`: the levels of fuel at which the body of the `let` cannot be evaluated (the expansion is
  definite only if the test fails with an error);
* `*_exp_eval_sg`: what the expansions compute in the slack-guarded tower (`EvalDerivedCond.lean` for `sguardN k`).
-/
namespace Marwood.Spec.Eval.Derived
open Marwood Marwood.Spec.Eval Marwood.Spec.Eval.Prelude Marwood.Spec.Eval.Extra Marwood.Spec.Eval.Conv

/-- converse of `AgreesUpToExtra`: whenever the expansion `exp` has a definite outcome from `st` with fuel `m`
    and no store-size-fuelled helper came within `k` of its bound (`sguardN k`), the native meaning of `use`
    has, with the same fuel, the same outcome up to an injective renaming of locations fixing the initial store -/
def AgreesConv (k : Nat) (use exp : Datum) (ρ : Env) (st : St) : Prop :=
  ∀ m, (sguardN k m).eval exp ρ st ≠ .timeout →
    (evalN m).eval exp ρ st = (sguardN k m).eval exp ρ st ∧
    ∃ f, Inj f ∧ (∀ l, l < st.store.size → f l = l) ∧
      ResRelR f (VRel f) ((evalN m).eval use ρ st) ((evalN m).eval exp ρ st)

/-- … in particular the native run with that fuel is definite -/
theorem AgreesConv.native_definite {k : Nat} {use exp : Datum} {ρ : Env} {st : St} (h : AgreesConv k use exp ρ st)
    (m : Nat) (hd : (sguardN k m).eval exp ρ st ≠ .timeout) : (evalN m).eval use ρ st ≠ .timeout := by
  obtain ⟨h1, f, _, _, hr⟩ := h m hd
  exact hr.definite (by rw [h1]; exact hd)

theorem shiftAt_le (s k l : Nat) : shiftAt s k l ≤ l + k := by
  unfold shiftAt; split <;> omega

/-! ## the common core -/

/-- **Converse of `binder_agree`.** `K r ρ v`: the rest of the computation after the test `t` has yielded `v`,
    conversely simulated under any location map and environments that agree off `x` (`hK`), monotone in the
    sub-evaluator (`hKle`). `K' l v`: what the expansion runs after allocating `x` at `l`; in the state just
    after that allocation it IS `K (sguardN 1 n)` under the extra binding (`hK'`). From a well-formed state:
    if "`t` (fuel `n + j`), a fresh variable holding its value, then `K'`" in the slack-guarded tower is definite,
    "`t`, then `K`" with fuel `n + j` has the same outcome up to a location map fixing the initial store. -/
theorem binder_agree_conv (x : Text) (t : Datum) (K : Rec → Env → Val → M Val)
    (hK : ∀ (f : LMap), Inj f → ∀ (r r' : Rec), RecSimR f r r' → ∀ (ρ ρ' : Env), EnvRel f [x] ρ ρ' →
      ∀ (v v' : Val), VRel f v v' → SimR f (VRel f) (K r ρ v) (K r' ρ' v'))
    (hKle : ∀ (r r' : Rec), RecLe r r' → ∀ (ρ : Env) (v : Val), Le (K r ρ v) (K r' ρ v))
    (n j : Nat) (ρ : Env) (st : St) (hst : WFSt st) (hρ : EnvOK st.store.size ρ) (K' : Loc → Val → M Val)
    (hK' : ∀ (v : Val) (s1 : St),
      K' s1.store.size v { s1 with store := s1.store.push (.var v) } =
        K (sguardN 1 n) ((x, s1.store.size) :: ρ) v { s1 with store := s1.store.push (.var v) })
    (hd : ((sguardN 1 (n + j)).eval t ρ >>= fun v => allocCell (.var v) >>= fun l => K' l v) st ≠ .timeout) :
    ∃ f, Inj f ∧ (∀ l, l < st.store.size → f l = l) ∧
      ResRelR f (VRel f) (((evalN (n + j)).eval t ρ >>= fun v => K (evalN (n + j)) ρ v) st)
        (((sguardN 1 (n + j)).eval t ρ >>= fun v => allocCell (.var v) >>= fun l => K' l v) st) := by
  have hd' : M.bind' ((sguardN 1 (n + j)).eval t ρ) (fun v => M.bind' (allocCell (.var v)) fun l => K' l v) st
      ≠ .timeout := hd
  show ∃ f, Inj f ∧ _ ∧ ResRelR f (VRel f) (M.bind' ((evalN (n + j)).eval t ρ) (fun v => K (evalN (n + j)) ρ v) st)
    (M.bind' ((sguardN 1 (n + j)).eval t ρ) (fun v => M.bind' (allocCell (.var v)) fun l => K' l v) st)
  unfold M.bind' at hd' ⊢
  cases h : (sguardN 1 (n + j)).eval t ρ st with
  | timeout => rw [h] at hd'; exact absurd rfl hd'
  | err e s1 =>
    have h1 : (evalN (n + j)).eval t ρ st = .err e s1 := by
      rw [sguardN_eval_evalN 1 (n + j) t ρ st (by rw [h]; simp), h]
    simp only [h1]
    exact ⟨fun l => l, inj_id, fun _ _ => rfl, rfl, stRel_id s1⟩
  | ok v s1 =>
    rw [h] at hd'
    simp only [allocCell] at hd'
    have h1 : (evalN (n + j)).eval t ρ st = .ok v s1 := by
      rw [sguardN_eval_evalN 1 (n + j) t ρ st (by rw [h]; simp), h]
    obtain ⟨hs1, hgrow, hv⟩ := wf_evalN_ok hst hρ h1
    simp only [h1, allocCell]
    refine ⟨shiftAt s1.store.size 1, inj_shiftAt _ _, fun l hl => shiftAt_lt (Nat.lt_of_lt_of_le hl hgrow), ?_⟩
    have hsim := hK (shiftAt s1.store.size 1) (inj_shiftAt _ _) (evalN n) (sguardN 1 n)
      (recSimR (inj_shiftAt _ _) (shiftAt_le _ _) n)
      ρ ((x, s1.store.size) :: ρ) (envRel_shift_cons (hρ.mono hgrow) x _) v v (vRel_self (fixes_of_ok hv))
      s1 { s1 with store := s1.store.push (.var v) } (stRel_push hs1 _)
    rw [hK' v s1] at hd' ⊢
    have hdef := hsim.definite hd'
    rw [hKle (evalN n) (evalN (n + j)) (recLe_evalN (Nat.le_add_right n j)) ρ v s1 hdef]
    exact hsim

/-- the levels of fuel at which the body of `(let ((x t)) inner)` times out whatever the state: the
    expansion is definite only if `t` fails with an error, and so does every computation that starts with `t` -/
theorem let_small_conv (k : Nat) (x : Text) (t inner : Datum) (hx : reserved x = false) (hi : isDefine inner = false)
    (m : Nat) (ρ : Env) (st : St) (hin : ∀ ρ' s', (sguardN k m).eval inner ρ' s' = .timeout) (N : Val → M Val)
    (hd : (sguardN k (m + 1)).eval (L [s k_let_, L [L [s x, t]], inner]) ρ st ≠ .timeout) :
    ∃ f, Inj f ∧ (∀ l, l < st.store.size → f l = l) ∧
      ResRelR f (VRel f) (((evalN m).eval t ρ >>= N) st)
        ((sguardN k (m + 1)).eval (L [s k_let_, L [L [s x, t]], inner]) ρ st) := by
  rw [sguardN_succ_eval, let1_eval _ _ x t _ hx hi] at hd ⊢
  have hd' : M.bind' ((sguardN k m).eval t ρ)
      (fun v => M.bind' (allocCell (.var v)) fun l => (sguardN k m).eval inner ((x, l) :: ρ)) st ≠ .timeout := hd
  show ∃ f, Inj f ∧ _ ∧ ResRelR f (VRel f) (M.bind' ((evalN m).eval t ρ) N st)
    (M.bind' ((sguardN k m).eval t ρ)
      (fun v => M.bind' (allocCell (.var v)) fun l => (sguardN k m).eval inner ((x, l) :: ρ)) st)
  unfold M.bind' at hd' ⊢
  cases h : (sguardN k m).eval t ρ st with
  | timeout => rw [h] at hd'; exact absurd rfl hd'
  | err e s1 =>
    have h1 : (evalN m).eval t ρ st = .err e s1 := by
      rw [sguardN_eval_evalN k m t ρ st (by rw [h]; simp), h]
    simp only [h1]
    exact ⟨fun l => l, inj_id, fun _ _ => rfl, rfl, stRel_id s1⟩
  | ok v s1 =>
    rw [h] at hd'
    simp only [allocCell, hin] at hd'
    exact absurd rfl hd'

/-! ## the expansions in the slack-guarded tower -/

section sg
variable (k : Nat) (ρ : Env)

theorem if3_small (m : Nat) (hm : m ≤ 1) (c a b : Datum) (st : St) :
    (sguardN k m).eval (L [s k_if_, c, a, b]) ρ st = .timeout := by
  match m, hm with
  | 0, _ => rfl
  | 1, _ => rw [sguardN_succ_eval, native_if3]; rfl

theorem if2_small (m : Nat) (hm : m ≤ 1) (c a : Datum) (st : St) :
    (sguardN k m).eval (L [s k_if_, c, a]) ρ st = .timeout := by
  match m, hm with
  | 0, _ => rfl
  | 1, _ => rw [sguardN_succ_eval, native_if2]; rfl

theorem case_small (m : Nat) (hm : m ≤ 1) (key c : Datum) (cs : List Datum) (st : St) :
    (sguardN k m).eval (caseUse key (c :: cs)) ρ st = .timeout := by
  match m, hm with
  | 0, _ => rfl
  | 1, _ => rw [sguardN_succ_eval, native_case]; rfl

theorem letIf_eval_sg (n : Nat) (x : Text) (t A B : Datum) (hx : reserved x = false) :
    (sguardN k (n+3)).eval (L [s k_let_, L [L [s x, t]], L [s k_if_, s x, A, B]]) ρ = (do
      let v ← (sguardN k (n+2)).eval t ρ
      let l ← allocCell (.var v)
      if truthy v then (sguardN k (n+1)).eval A ((x, l) :: ρ) else (sguardN k (n+1)).eval B ((x, l) :: ρ)) := by
  rw [sguardN_succ_eval, let1_eval _ _ x t _ hx (isDefine_if _)]
  congr 1; funext v
  simp only [sguardN_succ_eval k (n + 1), native_if3, sguardN_succ_eval k n, native_sym]
  have hv : ∀ l, evalVar x ((x, l) :: ρ) = readVar l := by
    intro l; simp [evalVar, hx, List.lookup]
  simp only [hv]
  exact alloc_read v _

theorem letIf2_eval_sg (n : Nat) (x : Text) (t A : Datum) (hx : reserved x = false) :
    (sguardN k (n+3)).eval (L [s k_let_, L [L [s x, t]], L [s k_if_, s x, A]]) ρ = (do
      let v ← (sguardN k (n+2)).eval t ρ
      let l ← allocCell (.var v)
      if truthy v then (sguardN k (n+1)).eval A ((x, l) :: ρ) else pure .void) := by
  rw [sguardN_succ_eval, let1_eval _ _ x t _ hx (isDefine_if _)]
  congr 1; funext v
  simp only [sguardN_succ_eval k (n + 1), native_if2, sguardN_succ_eval k n, native_sym]
  have hv : ∀ l, evalVar x ((x, l) :: ρ) = readVar l := by
    intro l; simp [evalVar, hx, List.lookup]
  simp only [hv]
  exact alloc_read v _

/-- `or_exp_eval` one level lower (the remaining operands get fuel `n`) and in the slack-guarded tower -/
theorem or_exp_eval_sg (n : Nat) (e e2 : Datum) (es : List Datum) :
    (sguardN k (n+3)).eval (orExp (e :: e2 :: es)) ρ = (do
      let v ← (sguardN k (n+2)).eval e ρ
      let l ← allocCell (.var v)
      if truthy v then pure v else evalOr (sguardN k n) ((k_var1, l) :: ρ) (e2 :: es)) := by
  have hx : reserved k_var1 = false := by decide
  rw [orExp, letIf_eval_sg k ρ n k_var1 e _ _ hx]
  congr 1; funext v
  simp only [sguardN_succ_eval k n, native_sym]
  have hv : ∀ l, evalVar k_var1 ((k_var1, l) :: ρ) = readVar l := by
    intro l; simp [evalVar, hx, List.lookup]
  simp only [hv]
  funext st
  show M.bind' (allocCell (.var v)) _ st = M.bind' (allocCell (.var v)) _ st
  unfold M.bind' allocCell
  simp only
  split
  · show M.bind' (readCell _) _ _ = _
    simp [M.bind', readCell, Pure.pure, M.pure']
  · exact congrFun (native_or (sguardN k n) _ (e2 :: es)) _

theorem cond_test_exp_eval_sg (n : Nat) (t c : Datum) (cs : List Datum) :
    (sguardN k (n+3)).eval (condTestExp t (c :: cs)) ρ = (do
      let v ← (sguardN k (n+2)).eval t ρ
      let l ← allocCell (.var v)
      if truthy v then pure v else evalCond (sguardN k n) ((k_temp, l) :: ρ) (c :: cs)) := by
  have hx : reserved k_temp = false := by decide
  rw [condTestExp, letIf_eval_sg k ρ n k_temp t _ _ hx]
  congr 1; funext v
  simp only [sguardN_succ_eval k n, native_sym]
  have hc : evalStep (sguardN k n) (L (s k_cond :: c :: cs)) = evalStep (sguardN k n) (condUse (c :: cs)) := rfl
  simp only [hc, native_cond]
  have hv : ∀ l, evalVar k_temp ((k_temp, l) :: ρ) = readVar l := by
    intro l; simp [evalVar, hx, List.lookup]
  simp only [hv]
  funext st
  show M.bind' (allocCell (.var v)) _ st = M.bind' (allocCell (.var v)) _ st
  unfold M.bind' allocCell
  simp only
  split
  · show M.bind' (readCell _) _ _ = _
    simp [M.bind', readCell, Pure.pure, M.pure']
  · rfl

theorem cond_arrow_exp_eval_sg (n : Nat) (t f : Datum) (cs : List Datum) :
    (sguardN k (n+3)).eval (condArrowExp t f cs) ρ = (do
      let v ← (sguardN k (n+2)).eval t ρ
      let l ← allocCell (.var v)
      if truthy v then (sguardN k (n+1)).eval (L [f, s k_temp]) ((k_temp, l) :: ρ)
      else (match cs with
        | [] => pure .void
        | c :: cs' => (sguardN k (n+1)).eval (condUse (c :: cs')) ((k_temp, l) :: ρ))) := by
  have hx : reserved k_temp = false := by decide
  cases cs with
  | nil => exact letIf2_eval_sg k ρ n k_temp t _ hx
  | cons c cs' => exact letIf_eval_sg k ρ n k_temp t _ _ hx

/-- reading the variable the expansion has just allocated -/
theorem eval_binder_sg (n : Nat) (x : Text) (hx : reserved x = false) (v : Val) (s1 : St) :
    (sguardN k (n+1)).eval (s x) ((x, s1.store.size) :: ρ) { s1 with store := s1.store.push (.var v) } =
      .ok v { s1 with store := s1.store.push (.var v) } := by
  rw [sguardN_succ_eval, native_sym]
  simp only [evalVar, hx, List.lookup, beq_self_eq_true]
  show M.bind' (readCell _) _ _ = _
  simp [M.bind', readCell, Pure.pure, M.pure']

end sg

/-! ## or -/

/-- **or**, third rule, converse: `(let ((var1 e)) (if var1 var1 (or e2 …)))` definite ⇒ `(or e e2 …)` alike -/
theorem or_agrees_conv (ρ : Env) (e e2 : Datum) (es : List Datum) (st : St) (hst : WFSt st) (hρ : EnvOK st.store.size ρ)
    (hfree : ∀ d ∈ e2 :: es, mentions k_var1 d = false) :
    AgreesConv 1 (orUse (e :: e2 :: es)) (orExp (e :: e2 :: es)) ρ st := by
  intro m hd
  refine ⟨sguardN_eval_evalN _ _ _ _ _ hd, ?_⟩
  rw [sguardN_eval_evalN _ _ _ _ _ hd]
  have hx : reserved k_var1 = false := by decide
  cases m with
  | zero => exact absurd rfl hd
  | succ m =>
    rw [or_native_eval]
    by_cases hm : m ≤ 1
    · exact let_small_conv 1 k_var1 e _ hx (isDefine_if _) m ρ st (fun ρ' s' => if3_small 1 ρ' m hm _ _ _ s') _ hd
    · obtain ⟨n, rfl⟩ : ∃ n, m = n + 2 := ⟨m - 2, by omega⟩
      rw [show n + 2 + 1 = n + 3 from rfl, or_exp_eval_sg] at hd ⊢
      refine binder_agree_conv k_var1 e (fun r ρ v => if truthy v then pure v else evalOr r ρ (e2 :: es)) ?_ ?_
        n 2 ρ st hst hρ
        (fun l v => if truthy v then pure v else evalOr (sguardN 1 n) ((k_var1, l) :: ρ) (e2 :: es)) (fun _ _ => rfl) hd
      · intro f hf r r' hr ρ1 ρ1' he v v' hv
        simp only [hv.truthy]
        split
        · exact SimR.pure _ _ hv
        · exact simR_evalOr hr he _ (cleanBs_of_mentions hfree)
      · intro r r' hr ρ1 v
        split
        · exact Le.refl _
        · exact le_evalOr hr ρ1 _

/-! ## cond, test-only clause followed by more clauses -/

/-- **cond**, rule 5, converse -/
theorem cond_test_agrees_conv (ρ : Env) (t c : Datum) (cs : List Datum) (ht : t ≠ s k_else_) (st : St) (hst : WFSt st)
    (hρ : EnvOK st.store.size ρ) (hfree : ∀ d ∈ c :: cs, mentions k_temp d = false) :
    AgreesConv 1 (condUse (L [t] :: c :: cs)) (condTestExp t (c :: cs)) ρ st := by
  intro m hd
  refine ⟨sguardN_eval_evalN _ _ _ _ _ hd, ?_⟩
  rw [sguardN_eval_evalN _ _ _ _ _ hd]
  have hx : reserved k_temp = false := by decide
  cases m with
  | zero => exact absurd rfl hd
  | succ m =>
    rw [cond_test_native_eval ρ m t c cs ht]
    by_cases hm : m ≤ 1
    · exact let_small_conv 1 k_temp t _ hx (isDefine_if _) m ρ st (fun ρ' s' => if3_small 1 ρ' m hm _ _ _ s') _ hd
    · obtain ⟨n, rfl⟩ : ∃ n, m = n + 2 := ⟨m - 2, by omega⟩
      rw [show n + 2 + 1 = n + 3 from rfl, cond_test_exp_eval_sg] at hd ⊢
      refine binder_agree_conv k_temp t (fun r ρ v => if truthy v then pure v else evalCond r ρ (c :: cs)) ?_ ?_
        n 2 ρ st hst hρ
        (fun l v => if truthy v then pure v else evalCond (sguardN 1 n) ((k_temp, l) :: ρ) (c :: cs)) (fun _ _ => rfl) hd
      · intro f hf r r' hr ρ1 ρ1' he v v' hv
        simp only [hv.truthy]
        split
        · exact SimR.pure _ _ hv
        · exact simR_evalCond hr he _ (cleanBs_of_mentions hfree)
      · intro r r' hr ρ1 v
        split
        · exact Le.refl _
        · exact le_evalCond hr ρ1 _

/-! ## cond, `=>` clause -/

/-- **cond**, rules 2 and 3, converse -/
theorem cond_arrow_agrees_conv (ρ : Env) (t f : Datum) (cs : List Datum) (ht : t ≠ s k_else_)
    (hf : ∀ x, f = .sym x → kwOf x = none) (st : St) (hst : WFSt st)
    (hρ : EnvOK st.store.size ρ) (hfree : ∀ d ∈ f :: cs, mentions k_temp d = false) :
    AgreesConv 1 (condUse (L [t, s k_arrow, f] :: cs)) (condArrowExp t f cs) ρ st := by
  intro m hd
  refine ⟨sguardN_eval_evalN _ _ _ _ _ hd, ?_⟩
  rw [sguardN_eval_evalN _ _ _ _ _ hd]
  have hx : reserved k_temp = false := by decide
  cases m with
  | zero => exact absurd rfl hd
  | succ m =>
    rw [evalN_succ_eval, native_cond, evalCond_arrow _ _ t f cs ht]
    by_cases hm : m ≤ 1
    · cases cs with
      | nil =>
        exact let_small_conv 1 k_temp t _ hx (isDefine_if _) m ρ st (fun ρ' s' => if2_small 1 ρ' m hm _ _ s') _ hd
      | cons c cs' =>
        exact let_small_conv 1 k_temp t _ hx (isDefine_if _) m ρ st (fun ρ' s' => if3_small 1 ρ' m hm _ _ _ s') _ hd
    · obtain ⟨n, rfl⟩ : ∃ n, m = n + 2 := ⟨m - 2, by omega⟩
      rw [show n + 2 + 1 = n + 3 from rfl, cond_arrow_exp_eval_sg] at hd ⊢
      refine binder_agree_conv k_temp t
        (fun r ρ v => if truthy v then (do let fv ← r.eval f ρ; r.apply fv [v]) else evalCond r ρ cs) ?_ ?_
        n 2 ρ st hst hρ
        (fun l v => if truthy v then (sguardN 1 (n+1)).eval (L [f, s k_temp]) ((k_temp, l) :: ρ)
          else (match (generalizing := false) cs with
            | [] => pure .void
            | c :: cs' => (sguardN 1 (n+1)).eval (condUse (c :: cs')) ((k_temp, l) :: ρ))) ?_ hd
      · intro g hg r r' hr ρ1 ρ1' he v v' hv
        simp only [hv.truthy]
        split
        · refine SimR.bind (hr.eval f ρ1 ρ1' _ he (cleanB_of_mentions (hfree f (by simp)))) (fun fv fv' hfv => ?_)
          exact hr.apply _ _ _ _ hfv (.cons hv .nil)
        · exact simR_evalCond hr he _ (cleanBs_of_mentions (fun d hd => hfree d (by simp [hd])))
      · intro r r' hr ρ1 v
        split
        · exact Le.bind (hr.eval f ρ1) (fun fv => hr.apply fv [v])
        · exact le_evalCond hr ρ1 _
      · intro v s1
        by_cases htr : truthy v = true
        · rw [if_pos htr, if_pos htr]
          rw [sguardN_succ_eval, native_app _ _ f [s k_temp] hf, evalArgs_one]
          cases n with
          | zero => rfl
          | succ p =>
            show M.bind' (M.bind' ((sguardN 1 (p+1)).eval (s k_temp) _) _) _ _ = _
            unfold M.bind'
            rw [eval_binder_sg 1 ρ p k_temp hx v s1]
            rfl
        · rw [if_neg htr, if_neg htr]
          cases cs with
          | nil => rfl
          | cons c cs' =>
            show evalStep (sguardN 1 n) (condUse (c :: cs')) _ _ = _
            rw [native_cond]

/-! ## case, compound key -/

/-- **case**, rule 1, converse -/
theorem case_key_agrees_conv (ρ : Env) (ks : List Datum) (c : Datum) (cs : List Datum) (st : St) (hst : WFSt st)
    (hρ : EnvOK st.store.size ρ) (hfree : ∀ d ∈ c :: cs, mentions k_atomKey d = false) :
    AgreesConv 1 (caseUse (L ks) (c :: cs)) (caseKeyExp ks (c :: cs)) ρ st := by
  intro m hd
  refine ⟨sguardN_eval_evalN _ _ _ _ _ hd, ?_⟩
  rw [sguardN_eval_evalN _ _ _ _ _ hd]
  have hx : reserved k_atomKey = false := by decide
  cases m with
  | zero => exact absurd rfl hd
  | succ m =>
    rw [evalN_succ_eval, native_case]
    by_cases hm : m ≤ 1
    · exact let_small_conv 1 k_atomKey (L ks) _ hx (isDefine_case _) m ρ st
        (fun ρ' s' => case_small 1 ρ' m hm _ _ _ s') _ hd
    · obtain ⟨n, rfl⟩ : ∃ n, m = n + 2 := ⟨m - 2, by omega⟩
      have e2 : (sguardN 1 (n + 2 + 1)).eval (caseKeyExp ks (c :: cs)) ρ =
          ((sguardN 1 (n + 1 + 1)).eval (L ks) ρ >>= fun v => allocCell (.var v) >>= fun l =>
            (sguardN 1 (n + 2)).eval (caseUse (s k_atomKey) (c :: cs)) ((k_atomKey, l) :: ρ)) := by
        rw [sguardN_succ_eval]
        exact let1_eval (sguardN 1 (n + 2)) ρ k_atomKey (L ks) _ hx (isDefine_case _)
      rw [e2] at hd ⊢
      refine binder_agree_conv k_atomKey (L ks) (fun r ρ v => evalCase r ρ v (c :: cs)) ?_ ?_ (n + 1) 1 ρ st hst hρ
        (fun l _ => (sguardN 1 (n + 2)).eval (caseUse (s k_atomKey) (c :: cs)) ((k_atomKey, l) :: ρ)) ?_ hd
      · intro f hf r r' hr ρ1 ρ1' he v v' hv
        exact simR_evalCase hr he hv _ (cleanBs_of_mentions hfree)
      · intro r r' hr ρ1 v
        exact le_evalCase hr ρ1 v _
      · intro v s1
        show evalStep (sguardN 1 (n + 1)) (caseUse (s k_atomKey) (c :: cs)) _ _ = _
        rw [native_case]
        show M.bind' ((sguardN 1 (n + 1)).eval (s k_atomKey) _) _ _ = _
        unfold M.bind'
        rw [eval_binder_sg 1 ρ n k_atomKey hx v s1]

/-! ## non-vacuity -/

/-- the slack-guarded runs of the expansions of `(or #f (car '(7)))`, `(cond (#f) (else 1))`,
    `(cond (7 => list) (else 1))`, `(case (car '(3)) ((3) 1))` from the initial state are definite -/
example :
    (sguardN 1 5).eval (orExp [.bool false, L [s ['c','a','r'], L [s k_quote, L [.num (.fix 7)]]]]) [] initSt ≠ .timeout ∧
    (sguardN 1 5).eval (condTestExp (.bool false) [L [s k_else_, .num (.fix 1)]]) [] initSt ≠ .timeout ∧
    (sguardN 1 5).eval (condArrowExp (.num (.fix 7)) (s ['l','i','s','t']) [L [s k_else_, .num (.fix 1)]]) [] initSt
      ≠ .timeout ∧
    (sguardN 1 5).eval (caseKeyExp [s ['c','a','r'], L [s k_quote, L [.num (.fix 3)]]] [L [L [.num (.fix 3)], .num (.fix 1)]])
      [] initSt ≠ .timeout :=
  ⟨definiteB_ne (by decide +kernel), definiteB_ne (by decide +kernel), definiteB_ne (by decide +kernel),
   definiteB_ne (by decide +kernel)⟩

end Marwood.Spec.Eval.Derived
