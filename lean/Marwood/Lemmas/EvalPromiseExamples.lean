import Marwood.Lemmas.EvalPromise
/-!
# Promises: concrete programs evaluated on both sides (kernel-checked)

Native `delay`/`force` of `Spec.Eval` against the prelude's expansion evaluated by `Spec.Eval` after
loading the five regenerated library definitions (`promLibDefs`): memoisation (the delayed expression
prints once however often the promise is forced, and not at all when it is not), the R7RS 4.2.5
re-entrancy example (a promise forced while its own expression is being evaluated: the first value
stays), and a `delay-force` chain against its R7RS reading `(delay (force …))`.
-/
namespace Marwood.Spec.Eval.Derived
open Marwood Marwood.Spec.Eval Marwood.Spec.Eval.Prelude

/-- `make-promise`, `force`, `promise-done?`, `promise-value`, `promise-update!` as regenerated from `prelude.scm` -/
def promLibDefs : List Datum :=
  [Gen.PreludeProcs.proc14, Gen.PreludeProcs.proc15, Gen.PreludeProcs.proc16, Gen.PreludeProcs.proc17,
   Gen.PreludeProcs.proc18]

private def sy (x : String) : Datum := .sym x.toList
private def nm (n : Int) : Datum := .num (.fix n)
private def vd : FormRes := .ok .void

/-- `(begin (display 'x) 1)` -/
def eDisplayOne : Datum := L [s k_begin_, L [sy "display", L [s k_quote, sy "x"]], nm 1]
/-- `(let ((p D)) (+ (force p) (force p)))` where `D` is the delayed `(begin (display 'x) 1)` -/
def memoProg (d : Datum → Datum) : Datum :=
  L [s k_let_, L [L [sy "p", d eDisplayOne]], L [sy "+", forceUse (sy "p"), forceUse (sy "p")]]
/-- `(let ((p D)) 5)`: never forced -/
def zeroProg (d : Datum → Datum) : Datum := L [s k_let_, L [L [sy "p", d eDisplayOne]], nm 5]
/-- R7RS 4.2.5: `(define count 0) (define p (delay (begin (set! count (+ count 1)) (if (> count x) count (force p)))))
    (define x 5) (force p) (begin (set! x 10) (force p))` -/
def reentrantProg (d : Datum → Datum) : List Datum :=
  [L [s k_define, sy "count", nm 0],
   L [s k_define, sy "p", d (L [s k_begin_, L [s k_setBang, sy "count", L [sy "+", sy "count", nm 1]],
        L [s k_if_, L [sy ">", sy "count", sy "x"], sy "count", forceUse (sy "p")]])],
   L [s k_define, sy "x", nm 5],
   forceUse (sy "p"),
   L [s k_begin_, L [s k_setBang, sy "x", nm 10], forceUse (sy "p")]]
/-- `(force (delay-force (delay (+ 1 2))))`, both macros expanded -/
def chainExp : Datum := forceUse (delayForceExp (delayFull (L [sy "+", nm 1, nm 2])))
/-- its R7RS reading `(force (delay (force (delay (+ 1 2)))))`, native -/
def chainNative : Datum := forceUse (delayUse (forceUse (delayUse (L [sy "+", nm 1, nm 2]))))

/-- forced twice: one `display`, value 2 — natively … -/
theorem memo_native : results 12 [memoProg delayUse] = [.ok (nm 2)] ∧
    output 12 [memoProg delayUse] = [(false, sy "x")] := by decide +kernel
/-- … and through the expansion with the prelude's library -/
theorem memo_expansion : results 20 (promLibDefs ++ [memoProg delayFull]) = [vd, vd, vd, vd, vd, .ok (nm 2)] ∧
    output 20 (promLibDefs ++ [memoProg delayFull]) = [(false, sy "x")] := by decide +kernel

/-- never forced: no output on either side -/
theorem unforced_native : results 12 [zeroProg delayUse] = [.ok (nm 5)] ∧ output 12 [zeroProg delayUse] = [] := by
  decide +kernel
theorem unforced_expansion : results 20 (promLibDefs ++ [zeroProg delayFull]) = [vd, vd, vd, vd, vd, .ok (nm 5)] ∧
    output 20 (promLibDefs ++ [zeroProg delayFull]) = [] := by decide +kernel

/-- re-entrant forcing (R7RS: 6, then 6 again): `Spec.Eval`'s native `force` … -/
theorem reentrant_native : results 60 (reentrantProg delayUse) = [vd, vd, vd, .ok (nm 6), .ok (nm 6)] := by
  decide +kernel
/-- … and the prelude's `force` agree with R7RS (and with the real VM: same two answers) -/
theorem reentrant_expansion : results 80 (promLibDefs ++ reentrantProg delayFull) =
    [vd, vd, vd, vd, vd, vd, vd, vd, .ok (nm 6), .ok (nm 6)] := by decide +kernel

/-- a `delay-force` chain: the prelude's `force` forces iteratively to the same value as the native reading -/
theorem delayForce_chain : results 12 [chainNative] = [.ok (nm 3)] ∧
    results 30 (promLibDefs ++ [chainExp]) = [vd, vd, vd, vd, vd, .ok (nm 3)] := by decide +kernel

end Marwood.Spec.Eval.Derived
