import Marwood.Lemmas.CompileCorrect3ConcreteOps
/-!
# T01.3 stage 3 on the concrete heap — `heap.put` (VARARG)

`Heap::put` (`putV`): a pointer is returned as it is; a symbol that is interned is answered with its cell (the
symbol table is exact: `Sim.SymOk`); anything else is written to a freshly allocated cell (a new symbol is
entered into the symbol table). In every case the result is a pointer to a cell that holds the value, no
environment slot and no global changes (`Step3`), and the machine observes the same value through the pointer.
The premise `VR3 … v w` of `put_val` is needed for an IMMEDIATE closure value only: the new cell is then a
closure cell, and its environment is one a closure cell referred to before (`ClosOK3` contains `envOK`).
-/
namespace Marwood.Lemmas.CompileCorrect3.Conc
open Marwood Marwood.Vm Marwood.Vm.Concrete Marwood.Lemmas.CompileCorrect Marwood.Lemmas.CompileCorrect2
  Marwood.Lemmas.CompileCorrect2.Conc
open Marwood.Spec.Eval (Val Cell)

variable {ext : ExtOps} {E : AtomEnc} {named : Text → Prop} {slot : Text → Nat} {LM : Nat → Nat}
  {final : List LambdaM} {setG : Text → Prop}

/-- an allocation of a value cell is a `Step3` -/
theorem alloc_val_step3 {h h' : CHeap} {p : Nat} {v : VCell} (S : Array Cell)
    (hsrx : (cD3 ext E named slot LM final setG).SRx h S) (a : Alloc h h' p (.val v)) (ok' : HOk h')
    (so' : Sim.SymOk h') (hc : ∀ lam e, v = .closure lam e → cEnvOK h e) :
    Step3 (cD3 ext E named slot LM final setG) h S h' := by
  refine ⟨ext3_of_frame S (Alloc.keeps a) (fun e n v x => alloc_envGet a x) (newClos_alloc a ?_),
    srx_mk S ok' so' (by rw [a.globals]; exact srx_slots hsrx), fun e k => ?_, fun m => ?_⟩
  · intro lam e x
    cases x
    exact .inr (hc lam e rfl).2
  · exact envGet_of_envAt (envAt_alloc_other a (by intro ss x; cases x) e) k
  · show h'.globals[m]?.getD .undefined = h.globals[m]?.getD .undefined
    rw [a.globals]

theorem step3_refl {h : CHeap} (S : Array Cell) (hsrx : (cD3 ext E named slot LM final setG).SRx h S) :
    Step3 (cD3 ext E named slot LM final setG) h S h :=
  ⟨Ext3.refl h S, hsrx, fun _ _ => rfl, fun _ => rfl⟩

/-- the allocating part of `put`: the result points to a cell that holds the value -/
theorem putNew_step (h : CHeap) (S : Array Cell) (v : VCell)
    (hsrx : (cD3 ext E named slot LM final setG).SRx h S) (hc : ∀ lam e, v = .closure lam e → cEnvOK h e) :
    ∃ h' a, putNew h v = (h', .ptr a) ∧ Step3 (cD3 ext E named slot LM final setG) h S h' ∧
      h'.cells[a]? = some (CCell.val v) ∧ Keeps h h' := by
  have ok := srx_ok hsrx
  have so := srx_sym hsrx
  have hcs : ∃ h1 p, cput h (.val v) = (h1, p) ∧ Alloc h h1 p (.val v) ∧ HOk h1 :=
    cput_step ok (c := .val v) (by intro lam x; cases x) (by intro k x; cases x)
      (by intro lam e x; cases x; exact (hc lam e rfl).1)
  cases hs : symOf v with
  | none =>
    obtain ⟨h1, p, hr, a, ok1⟩ := hcs
    have so1 : Sim.SymOk h1 := by
      have := Sim.cput_symOk_plain so ok.hinv (.val v) (not_sym_val hs)
      rw [hr] at this; exact this
    refine ⟨h1, p, ?_, alloc_val_step3 S hsrx a ok1 so1 hc, a.cell, Alloc.keeps a⟩
    unfold putNew
    rw [hs]
    simp only [hr]
  | some name =>
    obtain ⟨tag, rfl, ht⟩ := Sim.symOf_some hs
    cases hlk : symLookup h name with
    | some p =>
      obtain ⟨c, hcell, ⟨tag', rfl, ht'⟩, _⟩ := (so name p).mp hlk
      have : tag' = tag := Sim.symName_tag_inj ht' ht
      subst this
      refine ⟨h, p, ?_, step3_refl S hsrx, hcell, Keeps.refl h⟩
      unfold putNew
      rw [hs]
      simp only [hlk]
    | none =>
      obtain ⟨h1, p, hr, a, ok1⟩ := hcs
      have so1 : Sim.SymOk { h1 with symtab := Heap.Heap.symInsert h1.symtab name p } := by
        have := Sim.cput_symOk_sym so ok.hinv ht hlk
        rw [hr] at this; exact this
      have a' : Alloc h { h1 with symtab := Heap.Heap.symInsert h1.symtab name p } p (.val (.opaque tag)) :=
        ⟨a.cell, a.was, a.old, a.fresh, a.size, a.globals, a.globSyms⟩
      have ok' : HOk { h1 with symtab := Heap.Heap.symInsert h1.symtab name p } :=
        ⟨cinv_of_eq ok1.cinv rfl rfl rfl rfl, freeInv_of_eq ok1.fi rfl rfl, closEnv_of_eq ok1.clos rfl,
          hinv_of_eq ok1.hinv rfl rfl rfl rfl⟩
      refine ⟨_, p, ?_, alloc_val_step3 S hsrx a' ok' so1 hc, a'.cell, Alloc.keeps a'⟩
      unfold putNew
      rw [hs]
      simp only [hlk, hr]

/-! ## what the machine observes through the new pointer -/

theorem getAt_of_cell {h : CHeap} {a : Nat} {v : VCell} (x : h.cells[a]? = some (CCell.val v)) :
    Concrete.getAt h a = v := by
  unfold Concrete.getAt; rw [x]; rfl

theorem not_ptr_of {v : VCell} (hnp : isPtr v = false) : ∀ p, v ≠ .ptr p := by
  intro p x; subst x; cases hnp

theorem vr_of_cell {h h' : CHeap} {a : Nat} {v : VCell} {S : Array Cell} (k : Keeps h h')
    (hcell : h'.cells[a]? = some (CCell.val v)) (hnp : isPtr v = false) {w : Val} (x : cVR ext E h S v w) :
    cVR ext E h' S (.ptr a) w := by
  have hget := getAt_of_cell hcell
  cases x with
  | base hb =>
    obtain ⟨c, hc, hv⟩ := hb
    rcases hv with rfl | ⟨p, rfl, _⟩
    · exact .base ⟨v, hc, .inr ⟨a, rfl, hget⟩⟩
    · cases hnp
  | pair hs hd x1 x2 =>
    have hd' : Concrete.deref h v = .pair _ _ := hd
    rw [deref_imm (not_ptr_of hnp)] at hd'
    refine .pair hs ?_ (k.vr (fun _ _ y _ => y) x1) (k.vr (fun _ _ y _ => y) x2)
    show Concrete.getAt h' a = _
    rw [hget]; exact hd'
  | vec hs hv' _ => cases hv'

/-- an immediate closure value that is represented: its environment is one a closure cell refers to -/
theorem vr3_closure_envOK {W : World} {h : CHeap} {S : Array Cell} {l e : Nat} {w : Val}
    (r : VR3 (cD3 ext E named slot LM final setG) W h S (.closure l e) w) : cEnvOK h e := by
  cases r with
  | base hb =>
    have hb' : cVR ext E h S (.closure l e) w := hb
    cases hb' with
    | base hx =>
      obtain ⟨c, hc, hv⟩ := hx
      rcases hv with rfl | ⟨p, x, _⟩
      · exfalso
        cases w <;> simp [AtomEnc.cell] at hc
      · cases x
    | pair hs hd _ _ =>
      have hd' : VCell.closure l e = .pair _ _ := hd
      cases hd'
    | vec hs hv' _ => cases hv'
  | clos hc hok =>
    have hc' : Callee.closure l e = .closure _ _ := hc
    injection hc' with e1 e2
    subst e1 e2
    obtain ⟨f, cst, cst1, co, p, bcode, ints, caps, a1, a2, a3, a4, a5, a6, a7, a8, a9, a10, a11, a12, a13,
      a14, a15, a16, a17, a18, a19⟩ := hok
    exact a18
  | pair hs hd _ _ =>
    have hd' : VCell.closure l e = .pair _ _ := hd
    cases hd'

/-! ## the laws -/

theorem c3_put_val (h : CHeap) (S : Array Cell) (v : VCell) (W : World) (w : Val)
    (hsrx : (cD3 ext E named slot LM final setG).SRx h S)
    (hr : VR3 (cD3 ext E named slot LM final setG) W h S v w) :
    ∃ h' a, (concreteOps ext).put h v = (h', .ptr a) ∧ Step3 (cD3 ext E named slot LM final setG) h S h' ∧
      (∀ w, (cD3 ext E named slot LM final setG).VR h S v w → (cD3 ext E named slot LM final setG).VR h' S (.ptr a) w) ∧
      (∀ l e, (concreteOps ext).callee h v = .closure l e → (concreteOps ext).callee h' (.ptr a) = .closure l e) ∧
      (∀ x y, (concreteOps ext).deref h v = .pair x y → (concreteOps ext).deref h' (.ptr a) = .pair x y) := by
  by_cases hp : isPtr v = true
  · obtain ⟨p, rfl⟩ : ∃ p, v = .ptr p := by
      cases v <;> first | exact ⟨_, rfl⟩ | cases hp
    exact ⟨h, p, rfl, step3_refl S hsrx, fun _ x => x, fun _ _ x => x, fun _ _ x => x⟩
  · have hnp : isPtr v = false := by simpa using hp
    have hc : ∀ lam e, v = .closure lam e → cEnvOK h e := by
      intro lam e x; subst x
      exact vr3_closure_envOK hr
    obtain ⟨h', a, hput, hstep, hcell, hk⟩ := putNew_step h S v hsrx hc
    refine ⟨h', a, ?_, hstep, fun w x => vr_of_cell hk hcell hnp x, ?_, ?_⟩
    · show putV h v = _
      unfold putV
      rw [hnp]
      simpa using hput
    · intro l e x
      rcases callee_closure_inv x with rfl | ⟨p, rfl, _⟩
      · show (match h'.cells[a]? with | some c => calleeOfCell c | none => Callee.other) = _
        rw [hcell]; rfl
      · cases hnp
    · intro x y hd
      have hd' : Concrete.deref h v = .pair x y := hd
      rw [deref_imm (not_ptr_of hnp)] at hd'
      show Concrete.getAt h' a = _
      rw [getAt_of_cell hcell]; exact hd'

theorem c3_put_pair (h : CHeap) (S : Array Cell) (a d : Nat)
    (hsrx : (cD3 ext E named slot LM final setG).SRx h S) :
    ∃ h' p, (concreteOps ext).put h (.pair a d) = (h', .ptr p) ∧ Step3 (cD3 ext E named slot LM final setG) h S h' ∧
      (concreteOps ext).deref h' (.ptr p) = .pair a d := by
  obtain ⟨h', p, hput, hstep, hcell, _⟩ := putNew_step h S (.pair a d) hsrx (by intro lam e x; cases x)
  refine ⟨h', p, ?_, hstep, ?_⟩
  · show putV h (.pair a d) = _
    unfold putV
    simpa [isPtr] using hput
  · show Concrete.getAt h' p = _
    exact getAt_of_cell hcell

end Marwood.Lemmas.CompileCorrect3.Conc
